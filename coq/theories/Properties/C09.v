(* C09 — wire encoding is lossless and canonical.

   Layers (models in Model/{Wire,ProtoSchema,ProtoTyped}.v, schema in Gen/Schema.v):
   1. wire: varint / value / tag-value sequences decode back to what was encoded;
   2. schema: canonical_raw (proto_fmt.rs) maps EVERY reading of a byte string as a value of a
      message (fields in any order, repeated scalars packed / unpacked / split, any varint
      spelling the reader accepts, recursively) to the canonical bytes of that value, and those
      bytes do not depend on the order in which different fields were produced;
   3. typed: ProtoFmt::read (ProtoFmt::build v) = v on the property's domain for Duration,
      Timestamp, SocketAddr (ip + port), BitVector, View, BlockHeader, ReplicaCommit, CommitQC,
      ReplicaTimeout, TimeoutQC; the BTreeMap of TimeoutQC does not depend on insertion order.
   The generated schema is checked in Properties/C09Gen.v. *)
From Coq Require Import String ZArith List Bool Lia Permutation.
From EC Require Import Lib.Obs Lib.Outcome Model.Wire Model.ProtoSchema Model.ProtoTyped Gen.Schema.
From EC Require Import Proofs.WireProofs Proofs.ProtoSchemaProofs Proofs.ProtoCanonProofs Proofs.ProtoTypedProofs.
Import ListNotations.
Open Scope list_scope.
Open Scope Z_scope.

(* ---- 1. wire ---- *)

Theorem C09_varint_roundtrip : forall x r, 0 <= x < two64 ->
  read_varint64 (encode_varint x ++ r) = Some (x, r).
Proof. exact varint_roundtrip. Qed.
Print Assumptions C09_varint_roundtrip.

Theorem C09_value_roundtrip : forall w v r, wval_ok w v ->
  read_wval w (encode_wval v ++ r) = Some (v, r).
Proof. exact wval_roundtrip. Qed.
Print Assumptions C09_value_roundtrip.

Theorem C09_tlv_roundtrip : forall l, Forall tlv_ok l -> parse_tlvs (encode_tlvs l) = Some l.
Proof. exact tlv_roundtrip. Qed.
Print Assumptions C09_tlv_roundtrip.

(* ---- 2. canonical form, for every schema ---- *)

Theorem C09_canonical_normalises : forall Sc mi b d,
  denote Sc mi b = Some d -> canonical_raw Sc mi b = Ok (canon Sc mi d).
Proof. exact canonical_normalises. Qed.
Print Assumptions C09_canonical_normalises.

Theorem C09_canon_order_irrelevant : forall Sc mi d d',
  dmsg_equiv d d' -> canon Sc mi d = canon Sc mi d'.
Proof. exact canon_order_irrelevant. Qed.
Print Assumptions C09_canon_order_irrelevant.

(* two serialisations of one value, produced in whatever order: identical canonical bytes, hence
   identical hashes and signatures *)
Theorem C09_canonical_deterministic : forall Sc mi b1 b2 d1 d2,
  denote Sc mi b1 = Some d1 -> denote Sc mi b2 = Some d2 -> dmsg_equiv d1 d2 ->
  canonical_raw Sc mi b1 = canonical_raw Sc mi b2.
Proof. exact canonical_deterministic. Qed.
Print Assumptions C09_canonical_deterministic.

(* ---- 3. typed round trips ---- *)

Theorem C09_roundtrip_duration : forall chk tn, dur_dom tn ->
  exists d, build_duration chk tn = Ok d /\ read_duration d = Ok tn.
Proof. exact roundtrip_duration. Qed.
Print Assumptions C09_roundtrip_duration.

(* a decoded duration / timestamp is always in the encodable domain (repairs dc190e4, 3005ef8) *)
Theorem C09_decoded_duration_encodable : forall d tn, read_duration d = Ok tn -> dur_dom tn.
Proof. exact decoded_duration_encodable. Qed.
Print Assumptions C09_decoded_duration_encodable.

Theorem C09_roundtrip_sockaddr : forall a, sockaddr_dom a -> read_sockaddr (build_sockaddr a) = Ok a.
Proof. exact roundtrip_sockaddr. Qed.
Print Assumptions C09_roundtrip_sockaddr.

Theorem C09_roundtrip_bitvec : forall l, read_bitvec (build_bitvec l) = Ok l.
Proof. exact roundtrip_bitvec. Qed.
Print Assumptions C09_roundtrip_bitvec.

Theorem C09_roundtrip_view : forall v, view_dom v -> read_view (build_view v) = Ok v.
Proof. exact roundtrip_view. Qed.
Print Assumptions C09_roundtrip_view.

Theorem C09_roundtrip_header : forall h, header_dom h -> read_header (build_header h) = Ok h.
Proof. exact roundtrip_header. Qed.
Print Assumptions C09_roundtrip_header.

Theorem C09_roundtrip_commit : forall c, commit_dom c -> read_commit (build_commit c) = Ok c.
Proof. exact roundtrip_commit. Qed.
Print Assumptions C09_roundtrip_commit.

Theorem C09_roundtrip_commit_qc : forall sig_ok q, commit_qc_dom sig_ok q ->
  read_commit_qc sig_ok (build_commit_qc q) = Ok q.
Proof. exact roundtrip_commit_qc. Qed.
Print Assumptions C09_roundtrip_commit_qc.

Theorem C09_roundtrip_timeout : forall sig_ok t, timeout_dom sig_ok t ->
  read_timeout sig_ok (build_timeout t) = Ok t.
Proof. exact roundtrip_timeout. Qed.
Print Assumptions C09_roundtrip_timeout.

Theorem C09_roundtrip_timeout_qc : forall sig_ok q, timeout_qc_dom sig_ok q ->
  read_timeout_qc sig_ok (build_timeout_qc q) = Ok q.
Proof. exact roundtrip_timeout_qc. Qed.
Print Assumptions C09_roundtrip_timeout_qc.

(* a map kept sorted by a strict total order on its keys does not depend on the insertion order *)
Theorem C09_map_insertion_order_irrelevant : forall (K V : Type) (cmp : K -> K -> comparison),
  (forall a b, cmp b a = CompOpp (cmp a b)) ->
  (forall a b c, cmp a b = Lt -> cmp b c = Lt -> cmp a c = Lt) ->
  (forall a b, cmp a b = Eq -> a = b) ->
  forall l l', Permutation l l' -> pairwise K V cmp l -> of_list K V cmp l = of_list K V cmp l'.
Proof. exact map_insertion_order_irrelevant. Qed.
Print Assumptions C09_map_insertion_order_irrelevant.

(* TimeoutQC.map: the model's BTreeMap is that sorted map for the transcribed derived Ord of
   ReplicaTimeout, which is a strict total order *)
Theorem C09_timeout_ord_total :
  (forall a b, cmp_timeout b a = CompOpp (cmp_timeout a b)) /\
  (forall a b c, cmp_timeout a b = Lt -> cmp_timeout b c = Lt -> cmp_timeout a c = Lt) /\
  (forall a b, cmp_timeout a b = Eq -> a = b).
Proof. exact ord_timeout. Qed.
Print Assumptions C09_timeout_ord_total.

(* entries with pairwise different keys (or identical entries), inserted in any order: same map,
   hence (build is a function of the map) the same bytes *)
Theorem C09_timeoutqc_insertion_order_irrelevant : forall l l',
  Permutation l l' -> pairwise _ _ cmp_timeout l -> tmap_of_list l = tmap_of_list l'.
Proof. exact timeoutqc_insertion_order_irrelevant. Qed.
Print Assumptions C09_timeoutqc_insertion_order_irrelevant.

Theorem C09_timeoutqc_map_sorted : forall l, sorted _ _ cmp_timeout (tmap_of_list l).
Proof. exact tmap_of_list_sorted. Qed.
Print Assumptions C09_timeoutqc_map_sorted.

(* ---- 4. lossless at the byte level ---- *)

(* For schemas whose repeated fields are all length-delimited (no packed encoding: every production
   schema, see C09Gen.v): the canonical bytes of a well-formed value (entries in field order, values
   in the range of their kind, sub-messages below 4 GiB) are read back as exactly that value, and
   are a fixed point of canonical_raw. *)
Theorem C09_denote_canon : forall Sc, schema_wf Sc = true -> schema_canonical_ok Sc = true ->
  schema_unpacked Sc = true ->
  forall n mi d, dmsg_ok Sc n mi d -> denote Sc mi (canon Sc mi d) = Some d.
Proof. exact denote_canon. Qed.
Print Assumptions C09_denote_canon.

Theorem C09_canonical_idempotent : forall Sc, schema_wf Sc = true -> schema_canonical_ok Sc = true ->
  schema_unpacked Sc = true ->
  forall n mi d, dmsg_ok Sc n mi d -> canonical_raw Sc mi (canon Sc mi d) = Ok (canon Sc mi d).
Proof. exact canonical_idempotent. Qed.
Print Assumptions C09_canonical_idempotent.

(* decode (encode v) = v through the bytes, for any type whose build produces a well-formed message
   and whose read inverts build on dynamic messages (section 3) *)
Theorem C09_typed_roundtrip_bytes : forall Sc, schema_wf Sc = true -> schema_canonical_ok Sc = true ->
  schema_unpacked Sc = true ->
  forall (A : Type) (build : A -> dmsg) (read : dmsg -> res A) (v : A) n mi,
    dmsg_ok Sc n mi (build v) -> read (build v) = Ok v ->
    match denote Sc mi (canon Sc mi (build v)) with Some d => read d | None => err end = Ok v.
Proof.
  intros Sc H1 H2 H3 A build read v n mi Hok Hrt.
  rewrite (denote_canon Sc H1 H2 H3 n mi (build v) Hok). exact Hrt.
Qed.
Print Assumptions C09_typed_roundtrip_bytes.

(* ---- full statement; what is not proved is listed in the `partial` note of the evidence ---- *)
(* Proved above: every clause for every schema / the ten modelled types, except that [dmsg_ok] of the
   built message (a size bound below 4 GiB and plain sortedness) is a premise of
   C09_typed_roundtrip_bytes rather than derived per type, and that schemas WITH packed repeated
   scalars (none in production) are covered by C09_canonical_normalises only. *)
Definition C09_full : Prop :=
  forall (Sc : ProtoSchema.schema) (mi : nat) (d : dmsg),
    schema_canonical_ok Sc = true -> schema_wf Sc = true ->
    (exists b, denote Sc mi b = Some d) ->
    exists d', denote Sc mi (canon Sc mi d) = Some d' /\ dmsg_equiv d d'.

(* ---- non-vacuity ---- *)

(* one value of tests.proto's A (x = [1;2], e = [0;1;1;2], nested b.u = true) in three spellings:
   canonical; fields reversed with the enum list split into unpacked + packed chunks; zero-padded
   varints in tag, length and value *)
Example C09_nonvacuous_alternatives :
  let canonical := [10;2;1;2; 34;4;0;1;1;2; 42;2;16;1] in
  let shuffled  := [42;2;16;1; 32;0; 34;2;1;1; 32;2; 10;2;1;2] in
  let padded    := [138;0;130;128;0;1;2; 34;5;0;1;129;0;2; 42;4;16;129;128;0] in
  denote test_schema 1 shuffled <> None /\
  canonical_raw test_schema 1 canonical = Ok canonical /\
  canonical_raw test_schema 1 shuffled = Ok canonical /\
  canonical_raw test_schema 1 padded = Ok canonical.
Proof. vm_compute. repeat split; discriminate. Qed.

(* the panic site of canonical_raw is real and outside `denote` *)
Example C09_empty_packed_chunk :
  canonical_raw schema idx_zksync_roles_validator_ViewV2 [18; 0] = Panic PIndex /\
  denote schema idx_zksync_roles_validator_ViewV2 [18; 0] = None.
Proof. vm_compute. split; reflexivity. Qed.

(* a TimeoutQC with two entries in the domain of the round trip *)
Example C09_nonvacuous_timeout_qc :
  let g := repeat 7 32 in
  let v := {| v_genesis := g; v_number := 5; v_epoch := 1 |} in
  let t1 := {| rt_view := v; rt_high_vote := None; rt_high_qc := None |} in
  let t2 := {| rt_view := v; rt_high_vote := Some {| rc_view := v; rc_proposal := {| bh_number := 9; bh_payload := g |} |};
               rt_high_qc := None |} in
  let q := {| tq_view := v; tq_map := [(t1, [true; false]); (t2, [false; true; true])]; tq_sig := repeat 1 48 |} in
  read_timeout_qc pool_sig_ok (build_timeout_qc q) = Ok q /\
  tmap_of_list [(t2, [false; true; true]); (t1, [true; false])] = tq_map q.
Proof. vm_compute. split; reflexivity. Qed.

(* a concrete View is well formed for the generated schema: the premise of C09_typed_roundtrip_bytes
   is satisfiable and the round trip through bytes computes *)
Example C09_nonvacuous_bytes_roundtrip :
  let v := {| v_genesis := repeat 7 32; v_number := 300; v_epoch := 1 |} in
  dmsg_ok schema 2 idx_zksync_roles_validator_ViewV2 (build_view v) /\
  match denote schema idx_zksync_roles_validator_ViewV2 (canon schema idx_zksync_roles_validator_ViewV2 (build_view v)) with
  | Some d => read_view d
  | None => err
  end = Ok v.
Proof.
  split; [|vm_compute; reflexivity].
  cbn [dmsg_ok]. eexists. split; [reflexivity|]. split.
  - cbn. repeat split; left; lia.
  - repeat constructor.
    + eexists. split; [reflexivity|]. cbn. split.
      * eexists. split; [reflexivity|]. split; [cbn; repeat split; left; lia|].
        repeat constructor. eexists. split; [reflexivity|]. vm_compute. reflexivity.
      * vm_compute. reflexivity.
    + eexists. split; [reflexivity|]. vm_compute. split; [discriminate | reflexivity].
    + eexists. split; [reflexivity|]. vm_compute. split; [discriminate | reflexivity].
Qed.
