(* C12, translator tie: connection admission as regenerated from the source on every run.
   Gen/Pool.v               the closures of PoolWatch::insert / remove (pool.rs) as state functions over the pool
   Gen/HandshakeGossip.v    gossip::handshake::{outbound, inbound}: the order of the checks after the receive
   Gen/HandshakeConsensus.v consensus::handshake::{outbound, inbound}
   Gen/Admission.v          run_inbound_stream / run_outbound_stream of gossip/runner.rs and consensus/mod.rs as a
                            sequence of pool operations: handshake -> insert -> serve -> remove
   equal the hand models Model/Pool.v, Model/Handshake.v (and the script Model/PoolGlue.v conn_script).  What is read
   from / written to the wire, the session id, the result of serving a stream are abstract inputs; signatures are
   symbolic (H-SIG).  If a check is dropped or reordered, or the slot is released on another path, this file stops
   compiling. *)
From Coq Require Import ZArith List Lia Bool.
From EC Require Import Lib.Outcome Lib.U64 Lib.RustSem Lib.Obs Model.Handshake Model.Pool Model.PoolGlue Proofs.GenTac.
From EC Require Import Gen.Pool Gen.HandshakeGossip Gen.HandshakeConsensus Gen.Admission.
Import ListNotations.
Open Scope Z_scope.

(* ---------- pool.rs ---------- *)
(* usize is 64 bit; the model's insert / remove panic on overflow as the dev profile does *)
Theorem C12_generated_insert : forall p k v, 0 <= p_extra p ->
  gen_PoolWatch_insert_step true p k v =
  match insert k p with
  | Ok p' => (p', Ok tt)
  | Err e => (p, Err e)
  | Panic x => (p, Panic x)
  end.
Proof.
  intros p k v Hx. unfold gen_PoolWatch_insert_step, insert, memz.
  destruct (existsb (Z.eqb k) (p_current p)); [reflexivity|].
  destruct (existsb (Z.eqb k) (p_allowed p)); cbn [negb sbind sret]; [reflexivity|].
  destruct (p_limit p <=? p_extra p); [reflexivity|].
  unfold u64_add, u64_max, U64.
  destruct (p_extra p + 1 <? 18446744073709551616) eqn:H1; destruct (18446744073709551615 <? p_extra p + 1) eqn:H2;
    try (exfalso; lia); reflexivity.
Qed.
Print Assumptions C12_generated_insert.

Lemma removez_absent : forall k l, existsb (Z.eqb k) l = false -> removez k l = l.
Proof.
  intros k l. unfold removez. induction l as [|x l IH]; [reflexivity|]. cbn [existsb filter]. intros H.
  apply orb_false_iff in H. destruct H as [Hx Hl]. rewrite Z.eqb_sym, Hx. cbn [negb]. rewrite IH by exact Hl. reflexivity.
Qed.

Theorem C12_generated_remove : forall p k,
  match gen_PoolWatch_remove_step true p k, remove k p with
  | (p', Ok b), Ok q => p' = q /\ b = memz k (p_current p)
  | (_, Panic x), Panic y => x = y
  | _, _ => False
  end.
Proof.
  intros p k. unfold gen_PoolWatch_remove_step, remove, memz. cbv zeta.
  destruct (existsb (Z.eqb k) (p_current p)) eqn:Hc; cbn [is_none negb].
  - cbn [p_allowed p_extra p_current p_limit].
    destruct (existsb (Z.eqb k) (p_allowed p)); cbn [negb sbind sret].
    + split; reflexivity.
    + unfold u64_sub. destruct (1 <=? p_extra p) eqn:H1; destruct (p_extra p - 1 <? 0) eqn:H2; try (exfalso; lia);
        cbn [sbind slift sret]; [split; reflexivity|reflexivity].
  - cbn [sret]. split; [|reflexivity]. rewrite (removez_absent k (p_current p) Hc). destruct p; reflexivity.
Qed.
Print Assumptions C12_generated_remove.

(* ---------- handshakes: the decision after the receive ---------- *)
Theorem C12_generated_gossip_outbound : forall chk cfg gen peer own_sid r,
  gen_gossip_outbound chk cfg gen peer own_sid r = gossip_outbound own_sid gen peer r.
Proof.
  intros. unfold gen_gossip_outbound, gossip_outbound, id. destruct r as [h|]; cbn [bind]; [|reflexivity].
  destruct (negb (m_gen h =? gen)); [reflexivity|]. destruct (negb (m_sid h =? own_sid)); [reflexivity|].
  destruct (negb (m_key h =? peer)); [reflexivity|]. destruct (verify (m_key h) (m_sid h) (m_sig h)); reflexivity.
Qed.
Print Assumptions C12_generated_gossip_outbound.

Theorem C12_generated_gossip_inbound : forall chk cfg gen own_sid r,
  gen_gossip_inbound chk cfg gen own_sid r = gossip_inbound own_sid gen r.
Proof.
  intros. unfold gen_gossip_inbound, gossip_inbound, id. destruct r as [h|]; cbn [bind]; [|reflexivity].
  destruct (negb (m_sid h =? own_sid)); [reflexivity|]. destruct (negb (m_gen h =? gen)); [reflexivity|].
  destruct (verify (m_key h) (m_sid h) (m_sig h)); reflexivity.
Qed.
Print Assumptions C12_generated_gossip_inbound.

(* consensus::handshake::outbound returns Ok(()); the caller attributes the connection to [peer] *)
Theorem C12_generated_validator_outbound : forall chk me gen peer own_sid r,
  gen_validator_outbound chk me gen peer own_sid r =
  match validator_outbound own_sid gen peer r with Ok _ => Ok tt | Err e => Err e | Panic p => Panic p end.
Proof.
  intros. unfold gen_validator_outbound, validator_outbound, id. destruct r as [h|]; cbn [bind]; [|reflexivity].
  destruct (negb (m_gen h =? gen)); [reflexivity|]. destruct (negb (m_sid h =? own_sid)); [reflexivity|].
  destruct (negb (m_key h =? peer)); [reflexivity|]. destruct (verify (m_key h) (m_sid h) (m_sig h)); reflexivity.
Qed.
Print Assumptions C12_generated_validator_outbound.

Theorem C12_generated_validator_inbound : forall chk me gen own_sid r,
  gen_validator_inbound chk me gen own_sid r = validator_inbound own_sid gen r.
Proof.
  intros. unfold gen_validator_inbound, validator_inbound, id. destruct r as [h|]; cbn [bind]; [|reflexivity].
  destruct (negb (m_gen h =? gen)); [reflexivity|]. destruct (negb (m_sid h =? own_sid)); [reflexivity|].
  destruct (verify (m_key h) (m_sid h) (m_sig h)); reflexivity.
Qed.
Print Assumptions C12_generated_validator_inbound.

(* ---------- admission: handshake -> insert -> serve -> remove ---------- *)
Ltac script :=
  unfold conn_script, id;
  match goal with |- context [rmap_err CHandshake ?hs] => destruct hs as [k|e|x] end;
  cbn [rmap_err slift sbind]; try reflexivity.

Theorem C12_generated_gossip_run_inbound_stream : forall chk p hs served,
  gen_Network_gossip_run_inbound_stream chk p hs served = conn_script p hs served.
Proof.
  intros. unfold gen_Network_gossip_run_inbound_stream. script.
  all: try (destruct (pool_insert_s _ _) as [p1 [[]|e1|x1]]; cbn [sbind]; try reflexivity;
            destruct (pool_remove_s _ _) as [p2 [[]|e2|x2]]; reflexivity).
Qed.
Print Assumptions C12_generated_gossip_run_inbound_stream.

Theorem C12_generated_consensus_run_inbound_stream : forall chk p hs served,
  gen_Network_consensus_run_inbound_stream chk p hs served = conn_script p hs served.
Proof.
  intros. unfold gen_Network_consensus_run_inbound_stream. script.
  all: try (destruct (pool_insert_s _ _) as [p1 [[]|e1|x1]]; cbn [sbind]; try reflexivity;
            destruct (pool_remove_s _ _) as [p2 [[]|e2|x2]]; reflexivity).
Qed.
Print Assumptions C12_generated_consensus_run_inbound_stream.

(* outbound: the slot is taken under [peer], which is the key an accepted outbound handshake yields *)
Theorem C12_generated_gossip_run_outbound_stream : forall chk p peer hs served,
  (forall k, hs = Ok k -> k = peer) ->
  gen_Network_gossip_run_outbound_stream chk p peer hs served = conn_script p hs served.
Proof.
  intros chk p peer hs served Hk. unfold gen_Network_gossip_run_outbound_stream, conn_script, id.
  destruct hs as [k|e|x]; cbn [rmap_err slift sbind]; try reflexivity.
  rewrite (Hk k eq_refl). try reflexivity.
  all: try (destruct (pool_insert_s _ _) as [p1 [[]|e1|x1]]; cbn [sbind]; try reflexivity;
            destruct (pool_remove_s _ _) as [p2 [[]|e2|x2]]; reflexivity).
Qed.
Print Assumptions C12_generated_gossip_run_outbound_stream.

Theorem C12_generated_consensus_run_outbound_stream : forall chk p peer hs served,
  (forall k, hs = Ok k -> k = peer) ->
  gen_Network_consensus_run_outbound_stream chk p peer hs served = conn_script p hs served.
Proof.
  intros chk p peer hs served Hk. unfold gen_Network_consensus_run_outbound_stream, conn_script.
  destruct hs as [k|e|x]; cbn [rmap_err slift sbind]; try reflexivity.
  rewrite (Hk k eq_refl). cbv zeta. try reflexivity.
  all: try (destruct (pool_insert_s _ _) as [p1 [[]|e1|x1]]; cbn [sbind]; try reflexivity;
            destruct (pool_remove_s _ _) as [p2 [[]|e2|x2]]; reflexivity).
Qed.
Print Assumptions C12_generated_consensus_run_outbound_stream.

(* the script is the model's connection glue: a connection (fresh id c) that completes is GConn followed by GDisc *)
Theorem conn_script_gstep : forall g c hs served p2 r,
  live_key c (g_live g) = None ->
  conn_script (g_pool g) hs served = (p2, r) ->
  match hs with
  | Ok k =>
      match insert k (g_pool g) with
      | Ok p1 =>
          match remove k p1 with
          | Ok p2' => p2 = p2' /\
                      (gstep g (GConn c hs) = Ok {| g_pool := p1; g_live := (c, k) :: g_live g |})
          | _ => True
          end
      | Err _ => p2 = g_pool g /\ gstep g (GConn c hs) = Ok g
      | Panic _ => True
      end
  | _ => p2 = g_pool g /\ gstep g (GConn c hs) = Ok g
  end.
Proof.
  intros g c hs served p2 r Hfresh Hs. unfold conn_script in Hs. cbn [gstep]. rewrite Hfresh.
  destruct hs as [k|e|x].
  - unfold pool_insert_s, pool_remove_s in Hs. destruct (insert k (g_pool g)) as [p1|e|x]; cbn [sbind] in Hs.
    + destruct (remove k p1) as [q|e|x]; cbn [sbind] in Hs; [|exact I|exact I]. inversion Hs. split; reflexivity.
    + inversion Hs. split; reflexivity.
    + exact I.
  - inversion Hs. split; reflexivity.
  - inversion Hs. split; reflexivity.
Qed.
Print Assumptions conn_script_gstep.

Example C12_generated_admission_example :
  let p := pool_new [1; 2] 0 in
  gen_Network_gossip_run_inbound_stream true p (Ok 1) (Ok tt) = (p, Ok tt) /\
  gen_Network_gossip_run_inbound_stream true p (Ok 7) (Ok tt) = (p, Err (CPool ELimit)) /\
  fst (gen_Network_gossip_run_inbound_stream true (snd (pstep p (PInsert 1))) (Ok 1) (Ok tt)) = snd (pstep p (PInsert 1)).
Proof. repeat split. Qed.
