(* C10 / C09, translator tie: the Duration / Timestamp conversions of node/libs/protobuf/src/std_conv.rs
   (duration_from_parts with its two range guards, ProtoFmt::read / build of time::Duration and time::Utc) as
   regenerated from the source on every run (Gen/StdConv.v) equal the hand model Model/NetInput.v
   (duration_from_parts true = the repaired code, duration_read, duration_build, utc_read, utc_build), for all
   field values and both overflow profiles.  The `time` crate's own arithmetic (Duration::seconds, nanoseconds,
   checked_add, Utc +/-) is the model's (callee table).  If a guard is dropped or weakened, this file stops
   compiling. *)
From Coq Require Import ZArith List Lia Bool.
From EC Require Import Lib.Outcome Lib.U64 Lib.RustSem Model.NetInput Proofs.GenTac.
From EC Require Import Gen.StdConv.
Import ListNotations.
Open Scope Z_scope.

Lemma dur_checked_add_lower : forall a b d, dur_checked_add a b = Some d -> I64_MIN <= dsec d.
Proof.
  intros a b d. unfold dur_checked_add, i64_checked_add, i64_checked_sub, in_i64b.
  repeat match goal with
         | |- context [if ?c then _ else _] => destruct c eqn:?
         end; intros H; inversion H; subst; cbn [dsec]; lia.
Qed.

Theorem C10_generated_duration_from_parts : forall chk s n,
  gen_duration_from_parts chk s n = duration_from_parts true s n.
Proof.
  intros chk s n. unfold gen_duration_from_parts, duration_from_parts.
  destruct (dur_checked_add (dur_seconds s) (dur_nanoseconds n)) as [d|] eqn:Hd; cbn [ok_or bind]; [|reflexivity].
  apply dur_checked_add_lower in Hd. unfold I64_MIN in *. cbn [andb].
  destruct (dsec d =? -9223372036854775808) eqn:H1; destruct (dnano d <? 0) eqn:H2;
    destruct (-9223372036854775808 <? dsec d) eqn:H3; destruct (0 <=? dnano d) eqn:H4;
    cbn [andb orb]; try reflexivity; exfalso; lia.
Qed.
Print Assumptions C10_generated_duration_from_parts.

Theorem C10_generated_duration_read : forall chk s n,
  gen_Duration_read chk (s, n) = duration_read true s n.
Proof.
  intros chk s n. unfold gen_Duration_read, duration_read. cbn [fst snd].
  destruct s as [s|]; cbn [ok_or rmap_err bind]; [|reflexivity].
  destruct n as [n|]; cbn [ok_or rmap_err bind]; [|reflexivity].
  apply C10_generated_duration_from_parts.
Qed.
Print Assumptions C10_generated_duration_read.

Lemma sN_sub_i64 : forall (E : Type) chk a b, @sN_sub E 64 chk a b = i64_sub chk a b.
Proof.
  intros E chk a b. unfold sN_sub, sN_arith, sN_in, sN_wrap, i64_sub, in_i64b, wrap_i64, I64_MIN, I64_MAX, U64.
  change (2 ^ (64 - 1)) with 9223372036854775808. change (2 ^ 64) with 18446744073709551616.
  destruct ((- (9223372036854775808) <=? a - b) && (a - b <? 9223372036854775808)) eqn:Ha;
    destruct ((-9223372036854775808 <=? a - b) && (a - b <=? 9223372036854775807)) eqn:Hb;
    try reflexivity; try (exfalso; lia).
Qed.

(* Duration::build on a valid duration (|nanos| < 10^9) *)
Theorem C10_generated_duration_build : forall chk d, - NS < dnano d < NS ->
  @gen_Duration_build Z chk d =
  (let* p := duration_build chk d in Ok (Some (fst p), Some (snd p))).
Proof.
  intros chk d Hn. unfold gen_Duration_build, duration_build, NS in *.
  destruct (dnano d <? 0) eqn:Hneg; [|reflexivity].
  rewrite sN_sub_i64. destruct (i64_sub chk (dsec d) 1) as [s|x|p]; cbn [bind]; try reflexivity.
  unfold sN_add, sN_arith, sN_in. change (2 ^ (32 - 1)) with 2147483648.
  destruct ((- (2147483648) <=? dnano d + 1000000000) && (dnano d + 1000000000 <? 2147483648)) eqn:Hc; [reflexivity|].
  exfalso. apply Z.ltb_lt in Hneg. lia.
Qed.
Print Assumptions C10_generated_duration_build.

Theorem C10_generated_utc_read : forall chk s n, gen_Utc_read chk (s, n) = utc_read true s n.
Proof.
  intros chk s n. unfold gen_Utc_read, utc_read, duration_read. cbn [fst snd].
  destruct s as [s|]; cbn [ok_or rmap_err bind]; [|reflexivity].
  destruct n as [n|]; cbn [ok_or rmap_err bind]; [|reflexivity].
  rewrite C10_generated_duration_from_parts. reflexivity.
Qed.
Print Assumptions C10_generated_utc_read.

Theorem C10_generated_utc_build : forall chk t,
  (forall d, dur_checked_sub t dur_zero = Some d -> - NS < dnano d < NS) ->
  @gen_Utc_build Z chk t =
  (let* p := utc_build chk t in Ok (Some (fst p), Some (snd p))).
Proof.
  intros chk t Hv. unfold gen_Utc_build, utc_build, dur_sub.
  destruct (dur_checked_sub t dur_zero) as [d|] eqn:Hd; cbn [bind]; [|reflexivity].
  rewrite (C10_generated_duration_build chk d (Hv d eq_refl)).
  destruct (duration_build chk d) as [[a b]|x|p]; reflexivity.
Qed.
Print Assumptions C10_generated_utc_build.

(* non-vacuity: the two inputs behind the repaired defects: (i64::MIN, -1 ns) is out of range, and so is
   i64::MIN seconds with a negative sub-second part after normalisation; (i64::MIN, 0) is accepted. *)
Example C10_generated_duration_examples :
  gen_duration_from_parts true (-9223372036854775808) (-1) = Err E_RANGE /\
  gen_duration_from_parts true (-9223372036854775807) (-1000000001) = Err E_RANGE /\
  gen_duration_from_parts true (-9223372036854775808) 0 = Ok {| dsec := -9223372036854775808; dnano := 0 |} /\
  gen_duration_from_parts true 5 (-1) = Ok {| dsec := 4; dnano := 999999999 |} /\
  @gen_Duration_build Z true {| dsec := -3; dnano := -5 |} = Ok (Some (-4), Some 999999995).
Proof. repeat split. Qed.
