(* C11, translator tie: Schedule::view_leader, Schedule::get and LeaderSelection::leader_weighted_eligibility
   and Schedule::new (validation: duplicate keys, zero weights, weight overflow, emptiness, leader eligibility; sorting)
   as regenerated from roles/src/validator/messages/schedule.rs on every run (Gen/Leader.v) equal the hand
   model Model/Leader.v (view_leader = the repaired code), for every schedule, view and digest and both overflow
   profiles.  The keccak digest of the turn number is an abstract input, as in the model.  Every theorem of
   Properties/C11.v about Model.Leader.view_leader is thereby a theorem about what the source says now; if the
   source changes meaning (which weight the digest is reduced by, the round-robin index, the walk), this file
   stops compiling. *)
From Coq Require Import ZArith List Lia Bool.
From EC Require Import Lib.Outcome Lib.U64 Lib.RustSem Model.Leader Proofs.GenTac.
From EC Require Import Gen.Leader.
Import ListNotations.
Open Scope Z_scope.

(* ---------- digest -> u64 reduction ---------- *)
Lemma low_digit : forall r, 0 <= r < 2 ^ 64 -> unwrap_or (hd_error (big_u64_digits r)) 0 = r.
Proof.
  intros r Hr. unfold big_u64_digits. rewrite Nat.add_1_r. cbn [big_digits_fuel].
  destruct (r <=? 0) eqn:H0; cbn [hd_error unwrap_or].
  - apply Z.leb_le in H0. lia.
  - apply Z.mod_small. exact Hr.
Qed.

Theorem C11_generated_eligibility : forall chk turn lw h, 0 <= h -> 0 <= lw < U64 ->
  @gen_LeaderSelection_leader_weighted_eligibility unit chk turn lw h = eligibility true h lw.
Proof.
  intros chk turn lw h Hh Hlw. unfold gen_LeaderSelection_leader_weighted_eligibility, eligibility, big_rem.
  destruct (lw =? 0) eqn:H0; [reflexivity|]. cbn [bind].
  rewrite andb_false_r. f_equal. apply low_digit.
  apply Z.eqb_neq in H0. pose proof (Z.mod_pos_bound h lw ltac:(lia)). unfold U64 in Hlw. lia.
Qed.
Print Assumptions C11_generated_eligibility.

(* ---------- the weighted walk ---------- *)
Fixpoint ls_weight (vec : list vinfo) (ls : list nat) : Z :=
  match ls with
  | [] => 0
  | l :: r => match nth_error vec l with Some v => vweight v | None => 0 end + ls_weight vec r
  end.

Definition weights_nonneg (vec : list vinfo) : Prop := Forall (fun v => 0 <= vweight v) vec.

Lemma ls_weight_nonneg : forall vec ls, weights_nonneg vec -> 0 <= ls_weight vec ls.
Proof.
  intros vec ls Hn. induction ls as [|l r IH]; cbn [ls_weight]; [lia|].
  destruct (nth_error vec l) as [v|] eqn:Hv; [|lia].
  apply nth_error_In in Hv. unfold weights_nonneg in Hn. rewrite Forall_forall in Hn. specialize (Hn v Hv). lia.
Qed.

Lemma get_of_nat : forall s l, gen_Schedule_get s (Z.of_nat l) = nth_error (svec s) l.
Proof. intros s l. unfold gen_Schedule_get, vec_get. rewrite Nat2Z.id. reflexivity. Qed.

Lemma walk_fold : forall chk (s : schedule) e ls offset,
  weights_nonneg (svec s) -> 0 <= offset -> offset + ls_weight (svec s) ls < U64 ->
  (let* r := @fold_ret unit _ _ Z
       (fun off l =>
          let* v := unwrap (gen_Schedule_get s l) in
          let* o := u64_add chk off (vweight v) in
          let off0 := o in
          if e <? off0 then Ok (inl (vkey v)) else Ok (inr off0))
       (map Z.of_nat ls) offset in
   match r with inl k => Ok k | inr _ => Panic PUnreachable end)
  = walk (svec s) ls e offset.
Proof.
  intros chk s e ls. induction ls as [|l r IH]; intros offset Hn Ho Hlt; [reflexivity|].
  cbn [map fold_ret walk]. rewrite get_of_nat. cbn [ls_weight] in Hlt.
  pose proof (ls_weight_nonneg (svec s) r Hn) as Hr.
  destruct (nth_error (svec s) l) as [v|] eqn:Hv; cbn [unwrap bind]; [|reflexivity].
  assert (Hw : 0 <= vweight v).
  { apply nth_error_In in Hv. unfold weights_nonneg in Hn. rewrite Forall_forall in Hn. exact (Hn v Hv). }
  unfold u64_add. destruct (offset + vweight v <? U64) eqn:Hc; [|apply Z.ltb_ge in Hc; lia].
  cbn [bind]. destruct (e <? offset + vweight v); cbn [bind]; [reflexivity|].
  apply IH; [exact Hn|lia|lia].
Qed.

(* ---------- view_leader ---------- *)
(* what Schedule::new establishes and u64 typing gives: non-negative frequency and weights, the leaders'
   weights add up (without overflow) to a u64 *)
Definition sched_ok (s : schedule) : Prop :=
  weights_nonneg (svec s) /\ 0 <= sleader_weight s < U64 /\ ls_weight (svec s) (sleaders s) < U64.

Theorem C11_generated_view_leader : forall chk s view h,
  sched_ok s -> 0 <= h ->
  @gen_Schedule_view_leader unit chk s view h = view_leader s view h.
Proof.
  intros chk s view h (Hn & Hlw & Hsum) Hh.
  unfold gen_Schedule_view_leader, view_leader, view_leader_gen, turn_of, uN_checked_div.
  destruct (sfreq (ssel s) =? 0) eqn:Hf; cbn [unwrap_or bind];
    destruct (smode (ssel s)).
  all: try (rewrite (C11_generated_eligibility chk _ _ h Hh Hlw);
            destruct (eligibility true h (sleader_weight s)) as [e|x|p]; cbn [bind]; try reflexivity;
            apply walk_fold; [exact Hn|lia|lia]).
  all: unfold u64_rem, vec_len, vec_index; rewrite map_length;
    destruct (sleaders s) as [|l0 ls] eqn:Hls; [reflexivity|];
    (destruct (Z.of_nat (length (l0 :: ls)) =? 0) eqn:Hz; [apply Z.eqb_eq in Hz; change (length (l0 :: ls)) with (S (length ls)) in Hz; rewrite Nat2Z.inj_succ in Hz; lia|]);
    cbn [bind]; rewrite nth_error_map;
    destruct (nth_error (l0 :: ls) _) as [idx|]; cbn [option_map bind]; try reflexivity;
    rewrite get_of_nat; destruct (nth_error (svec s) idx); reflexivity.
Qed.
Print Assumptions C11_generated_view_leader.

Theorem C11_generated_get : forall s i, gen_Schedule_get s (Z.of_nat i) = nth_error (svec s) i.
Proof. exact get_of_nat. Qed.
Print Assumptions C11_generated_get.

(* ---------- Schedule::new ---------- *)
Definition kv (m : list vinfo) : list (Z * vinfo) := map (fun v => (vkey v, v)) m.

Lemma kv_contains : forall m k, bt_contains Z.eqb (kv m) k = has_key k m.
Proof.
  intros m k. unfold bt_contains. induction m as [|x m IH]; [reflexivity|].
  cbn [kv map existsb has_key fst]. f_equal. exact IH.
Qed.

Lemma kv_insert : forall m v, has_key (vkey v) m = false ->
  bt_insert Z.ltb Z.eqb (kv m) (vkey v) v = kv (insert v m).
Proof.
  induction m as [|x m IH]; intros v Hk; [reflexivity|].
  cbn [has_key] in Hk. apply orb_false_iff in Hk. destruct Hk as [Hx Hm].
  cbn [kv map bt_insert insert]. rewrite Hx.
  destruct (vkey v <? vkey x); [reflexivity|].
  cbn [kv map]. f_equal. apply IH. exact Hm.
Qed.

Definition loop_result (r : outcome serr (list vinfo * Z * Z)) : outcome serr (list (Z * vinfo) * Z * Z) :=
  match r with
  | Ok (m, tot, lw) => Ok (kv m, tot, lw)
  | Err e => Err e
  | Panic p => Panic p
  end.

Lemma new_loop_fold : forall chk vs m tot lw,
  0 <= lw <= tot -> tot < U64 ->
  fold_m (fun '(gm, tot0, lw0) v =>
            if negb (bt_contains Z.eqb gm (vkey v)) then
              if 0 <? vweight v then
                let* t1 := ok_or (u64_checked_add tot0 (vweight v)) EOverflow in
                let tot1 := t1 in
                let* lw1 := (if vleader v then let* t2 := u64_add chk lw0 (vweight v) in let lw2 := t2 in Ok lw2 else Ok lw0) in
                let gm1 := bt_insert Z.ltb Z.eqb gm (vkey v) v in
                Ok (gm1, tot1, lw1)
              else Err EZeroWeight
            else Err EDuplicateKey) vs (kv m, tot, lw)
  = loop_result (new_loop vs m tot lw).
Proof.
  intros chk vs. induction vs as [|v vs IH]; intros m tot lw Hlw Htot; [reflexivity|].
  cbn [fold_m new_loop]. rewrite kv_contains.
  destruct (has_key (vkey v) m) eqn:Hk; cbn [negb]; [reflexivity|].
  replace (0 <? vweight v) with (negb (vweight v <=? 0))
    by (destruct (vweight v <=? 0) eqn:H1; destruct (0 <? vweight v) eqn:H2; try reflexivity; lia).
  destruct (vweight v <=? 0) eqn:Hw; cbn [negb]; [reflexivity|].
  unfold u64_checked_add. destruct (tot + vweight v <? U64) eqn:Hc; cbn [ok_or bind]; [|reflexivity].
  apply Z.leb_gt in Hw. apply Z.ltb_lt in Hc.
  rewrite kv_insert by exact Hk.
  destruct (vleader v).
  - unfold u64_add. destruct (lw + vweight v <? U64) eqn:Hc2; [|apply Z.ltb_ge in Hc2; lia].
    cbn [bind]. apply IH; lia.
  - cbn [bind]. apply IH; lia.
Qed.

Lemma kv_snd : forall m, map snd (kv m) = m.
Proof. induction m as [|x m IH]; [reflexivity|]. cbn [kv map snd]. f_equal. exact IH. Qed.

Lemma leaders_enum : forall m n,
  map Z.to_nat (filter_map (fun '(i, v) => if vleader v then Some i else None)
                           (combine (map Z.of_nat (seq n (length m))) m))
  = leader_indexes n m.
Proof.
  induction m as [|x m IH]; intros n; [reflexivity|].
  cbn [length seq map combine filter_map leader_indexes].
  destruct (vleader x); cbn [map]; [rewrite Nat2Z.id; f_equal|]; apply IH.
Qed.

Theorem C11_generated_schedule_new : forall chk vs sel, gen_Schedule_new chk vs sel = schedule_new vs sel.
Proof.
  intros chk vs sel. unfold gen_Schedule_new, schedule_new.
  cbv zeta. change (@nil (Z * vinfo)) with (kv []).
  pose proof (new_loop_fold chk vs [] 0 0 ltac:(lia) ltac:(unfold U64; lia)) as HF. cbv zeta in HF. rewrite HF. clear HF.
  destruct (new_loop vs [] 0 0) as [[[m tot] lw]|e|p]; cbn [loop_result bind]; try reflexivity.
  rewrite kv_snd. unfold vec_len, kv. rewrite map_length.
  destruct m as [|x m]; [reflexivity|].
  cbn [length]. destruct (Z.of_nat (S (length m)) =? 0) eqn:Hz; [apply Z.eqb_eq in Hz; rewrite Nat2Z.inj_succ in Hz; lia|].
  cbn [negb]. unfold vec_enumerate.
  pose proof (leaders_enum (x :: m) 0) as HL.
  destruct (filter_map _ (combine (map Z.of_nat (seq 0 (length (x :: m)))) (x :: m))) as [|l0 ls] eqn:Hf.
  - cbn [map] in HL. rewrite <- HL. reflexivity.
  - cbn [length]. destruct (Z.of_nat (S (length ls)) =? 0) eqn:Hz2; [apply Z.eqb_eq in Hz2; rewrite Nat2Z.inj_succ in Hz2; lia|].
    cbn [negb]. rewrite HL. rewrite <- HL. cbn [map]. reflexivity.
Qed.
Print Assumptions C11_generated_schedule_new.

(* non-vacuity: three validators of weights 5, 1, 2, the middle one not eligible: leader weight 7, total 8.
   A digest of 7 must pick by 7 mod 7 = 0 (first leader), not by 7 mod 8 = 7 (which would fall off the walk). *)
Example C11_generated_view_leader_example :
  let vec := [ {| vkey := 0; vweight := 5; vleader := true |}; {| vkey := 1; vweight := 1; vleader := false |};
               {| vkey := 2; vweight := 2; vleader := true |} ] in
  let s := {| svec := vec; stotal := 8; sleaders := [0%nat; 2%nat];
              ssel := {| sfreq := 1; smode := Weighted |}; sleader_weight := 7 |} in
  @gen_Schedule_view_leader unit true s 3 7 = Ok 0 /\ @gen_Schedule_view_leader unit true s 3 6 = Ok 2 /\
  @gen_Schedule_view_leader unit true {| svec := vec; stotal := 8; sleaders := [0%nat; 2%nat];
                                         ssel := {| sfreq := 2; smode := RoundRobin |}; sleader_weight := 7 |} 6 0 = Ok 2.
Proof. repeat split. Qed.
