(* C16 (replica-cache half) — "inside the replica, the bookkeeping of partially collected
   certificates stays bounded by a function of the committee size alone (one latest vote per
   validator and kind) no matter how many future-view messages faulty validators send".
   Statements only; proofs are in Proofs/ReplicaCaches.v, the model is Model/Replica.v
   (fields r_commit_views / r_commit_qcs / r_timeout_views / r_timeout_qcs = commit_views_cache /
   commit_qcs_cache / timeout_views_cache / timeout_qcs_cache of v2_chonky_bft::StateMachine).

   Nothing is assumed about the inputs: [rinput] is any message of any kind from any key
   (committee member or not), validly signed or not ([m_sig_ok] is the verdict of
   Signed::verify, H-SIG), for arbitrary views, the view timer, or a block-sync event; a
   history is any list of them.  [cache_inv cfg s] is the invariant carried through:
     - the views caches are maps from distinct committee members to views;
     - every view that is a key of a certificates cache is the value of some views-cache entry;
     - within one view, every bit set in a certificate under construction belongs to a
       validator whose recorded latest view is >= that view, no bit position is used by two
       certificates of the view, every certificate has a non-empty |C|-bit bitmap;
     - a TimeoutQC under construction for view v carries the view (genesis, epoch, v);
     - every certificate under construction is stored under its own vote / view and has been
       assembled correctly so far (QCProofs.cqc_inv, TqcAssembly.tqc_inv) -- not needed for the
       bounds, carried along for C05 / C10 (last section of this file). *)
From Coq Require Import ZArith List.
From EC Require Import Lib.Outcome Lib.ListW Lib.Obs Model.Msgs Model.Replica Model.ReplicaRun
  Proofs.QCProofs Proofs.TqcAssembly Proofs.ReplicaCaches.
Import ListNotations.
Open Scope Z_scope.

(* the invariant holds in StateMachine::start, whatever was persisted *)
Theorem C16_cache_inv_start : forall cfg d first next, cache_inv cfg (rstart cfg d first next).
Proof. exact rstart_inv. Qed.
Print Assumptions C16_cache_inv_start.

(* ... is preserved by one iteration of StateMachine::run on EVERY input, whatever the outcome
   (Ok, any error, panic: the state left behind is the one in which the handler stopped) ... *)
Theorem C16_cache_inv_step : forall cfg s i, cache_inv cfg s -> cache_inv cfg (st_of (rstep cfg s i)).
Proof. exact rstep_inv. Qed.
Print Assumptions C16_cache_inv_step.

(* ... and by the prologue of run / start_timeout. *)
Theorem C16_cache_inv_prologue : forall cfg s, cache_inv cfg s ->
  cache_inv cfg (st_of (rprologue cfg s)) /\ cache_inv cfg (st_of (start_timeout cfg s)).
Proof. intros cfg s H. split; [apply rprologue_inv|apply start_timeout_inv]; exact H. Qed.
Print Assumptions C16_cache_inv_prologue.

(* what the invariant gives ([cache_bounds], spelled out):
     views caches: keys distinct, all committee members, hence <= |C| entries;
     certificates caches: keys distinct, each the value of a views-cache entry, hence <= |C| views;
     per view: the signer bitmaps of the certificates under construction have length |C|, are
       non-empty and pairwise disjoint (each validator is in at most one of them), hence <= |C|
       certificates per view (commit) / <= |C| entries in the one TimeoutQC of the view;
     total <= |C| * |C|. *)
Theorem C16_cache_inv_bounds : forall cfg s, cache_inv cfg s -> cache_bounds cfg s.
Proof. exact cache_inv_bounds. Qed.
Print Assumptions C16_cache_inv_bounds.

(* replica_caches_bounded: after ANY history the caches are bounded by the committee size. *)
Theorem C16_replica_caches_bounded : forall cfg d first next (ops : list rinput),
  cache_bounds cfg (rrun cfg (rstart cfg d first next) ops).
Proof. exact replica_caches_bounded. Qed.
Print Assumptions C16_replica_caches_bounded.

Theorem C16_replica_caches_bounded_after_prologue : forall cfg d first next (ops : list rinput),
  cache_bounds cfg (rrun cfg (st_of (rprologue cfg (rstart cfg d first next))) ops).
Proof. exact replica_caches_bounded_prologue. Qed.
Print Assumptions C16_replica_caches_bounded_after_prologue.

(* the same in plain numbers *)
Theorem C16_replica_cache_sizes : forall cfg d first next (ops : list rinput),
  let s := rrun cfg (rstart cfg d first next) ops in
  let n := length (cC cfg) in
  (length (r_commit_views s) <= n)%nat /\ (length (r_commit_qcs s) <= n)%nat /\
  (forall v b, In (v, b) (r_commit_qcs s) ->
     (length b <= n)%nat /\ forall c q, In (c, q) b -> length (qsigners q) = n) /\
  (list_sum (map (fun e => length (snd e)) (r_commit_qcs s)) <= n * n)%nat /\
  (length (r_timeout_views s) <= n)%nat /\ (length (r_timeout_qcs s) <= n)%nat /\
  (forall v t, In (v, t) (r_timeout_qcs s) ->
     (length (tqmap t) <= n)%nat /\ forall m sg, In (m, sg) (tqmap t) -> length sg = n) /\
  (list_sum (map (fun e => length (tqmap (snd e))) (r_timeout_qcs s)) <= n * n)%nat.
Proof. exact replica_cache_sizes. Qed.
Print Assumptions C16_replica_cache_sizes.

(* the bounds hold in every state behind the snapshots of Model.ReplicaRun.run_case, the runs
   that are compared with the implementation (crashes, restarts and the timer after a blocked
   proposal included) *)
Theorem C16_run_case_caches_bounded : forall cfg d first next (ops : list rop),
  Forall (cache_bounds cfg) (run_case_states (cfg, d, first, next, ops)).
Proof. exact run_case_caches_bounded. Qed.
Print Assumptions C16_run_case_caches_bounded.

(* for C10: a ReplicaCommit / ReplicaTimeout never hits an unwrap, expect, index or assert:
   the only panic such a message can cause is the overflow of view.next() (dev profile, view
   u64::MAX; recorded separately as a known finding) *)
Theorem C16_votes_never_unwrap : forall cfg d first next (ops : list rinput) m,
  (exists c, m_msg m = MCommit c) \/ (exists t, m_msg m = MTimeout t) ->
  forall p, res_of (rstep cfg (rrun cfg (rstart cfg d first next) ops) (IMsg m)) = Panic p -> p = POverflow.
Proof.
  intros cfg d first next ops m Hm. apply rstep_vote_panics; [|exact Hm]. apply rrun_inv, rstart_inv.
Qed.
Print Assumptions C16_votes_never_unwrap.

(* `.expect("could not add message to CommitQC")` / `("… to TimeoutQC")`: after the handler's own
   checks the add succeeds *)
Theorem C16_commit_add_cannot_fail : forall cfg s key c i0, cache_inv cfg s ->
  cindex (cC cfg) key = Some i0 -> fresh (r_commit_views s) key (vnum (cview c)) ->
  commit_verify (cg cfg) (ce cfg) c = Ok tt ->
  let q0 := q0_of (cC cfg) (bucket_of (r_commit_qcs s) (vnum (cview c))) c in
  cqc_add (cg cfg) (ce cfg) (cC cfg) q0 {| skey := key; smsg := c; ssig := (key, RCommit c) |}
  = Ok (cupd key c i0 q0).
Proof. exact commit_add_cannot_fail. Qed.
Print Assumptions C16_commit_add_cannot_fail.

Theorem C16_timeout_add_cannot_fail : forall cfg s key t i0, cache_inv cfg s ->
  cindex (cC cfg) key = Some i0 -> fresh (r_timeout_views s) key (vnum (tview t)) ->
  timeout_verify (cg cfg) (ce cfg) (cC cfg) t = Ok tt ->
  let t0 := t0_of (r_timeout_qcs s) (tview t) in
  tqc_add (cg cfg) (ce cfg) (cC cfg) t0 {| skey := key; smsg := t; ssig := (key, TTimeout t) |}
  = Ok (tupd cfg key t i0 t0).
Proof. exact timeout_add_cannot_fail. Qed.
Print Assumptions C16_timeout_add_cannot_fail.

(* the `.unwrap()`s after `retain`: the entry of the vote's own view is always retained *)
Theorem C16_retain_keeps_current : forall (A : Type) (qcs : list (Z * A)) views key v x,
  zmap_get (retain_views (zmap_set qcs v x) (zmap_set views key v)) v = Some x.
Proof. intros A. exact (@retain_keeps_current A). Qed.
Print Assumptions C16_retain_keeps_current.

(* ---------- for C05 / C10: the certificates under construction and the ones handed on ---------- *)

(* every certificate in commit_qcs_cache: assembled correctly so far, stored under its vote, for
   this chain and epoch and for the view of its bucket *)
Theorem C16_cache_inv_commit_qc : forall cfg s v b c q, cache_inv cfg s ->
  zmap_get (r_commit_qcs s) v = Some b -> cmap_get b c = Some q ->
  cqc_inv (cC cfg) q /\ qmsg q = c /\ view_ok (cg cfg) (ce cfg) (cview c) /\ vnum (cview c) = v.
Proof. exact cache_inv_commit_qc. Qed.
Print Assumptions C16_cache_inv_commit_qc.

Theorem C16_cache_inv_timeout_qc : forall cfg s v t, cache_inv cfg s ->
  zmap_get (r_timeout_qcs s) v = Some t ->
  tqc_inv (cg cfg) (ce cfg) (cC cfg) t /\ vnum (tqview t) = v /\ view_ok (cg cfg) (ce cfg) (tqview t).
Proof. exact cache_inv_timeout_qc. Qed.
Print Assumptions C16_cache_inv_timeout_qc.

(* once its own checks have passed, on_commit is [on_commit_accept]: add the vote to the
   certificate found or created ([cupd]), update the caches, and if the weight reaches the quorum
   hand exactly that certificate to process_commit_qc ... *)
Theorem C16_on_commit_eq : forall cfg s key c i0, cache_inv cfg s ->
  cindex (cC cfg) key = Some i0 -> (vnum (cview c) <? r_view s) = false ->
  fresh (r_commit_views s) key (vnum (cview c)) -> commit_verify (cg cfg) (ce cfg) c = Ok tt ->
  on_commit cfg s key true c = on_commit_accept cfg s key c i0.
Proof. exact on_commit_eq. Qed.
Print Assumptions C16_on_commit_eq.

(* ... and that certificate verifies (on_commit_qc_verifies) *)
Theorem C16_on_commit_qc_verifies : forall cfg s key c i0, cache_inv cfg s ->
  cindex (cC cfg) key = Some i0 ->
  fresh (r_commit_views s) key (vnum (cview c)) -> commit_verify (cg cfg) (ce cfg) c = Ok tt ->
  let q := cupd key c i0 (q0_of (cC cfg) (bucket_of (r_commit_qcs s) (vnum (cview c))) c) in
  quorum (cC cfg) <= weight (cweights (cC cfg)) (qsigners q) ->
  qmsg q = c /\ cqc_inv (cC cfg) q /\ cqc_verify (cg cfg) (ce cfg) (cC cfg) q = Ok tt.
Proof. exact on_commit_qc_verifies. Qed.
Print Assumptions C16_on_commit_qc_verifies.

(* the same for on_timeout: TimeoutQC::weight is the weight of the union of the entries' signer
   sets (they are disjoint), and when it reaches the quorum the TimeoutQC handed to
   process_timeout_qc verifies (on_timeout_qc_verifies) *)
Theorem C16_on_timeout_eq : forall cfg s key t i0, cache_inv cfg s ->
  cindex (cC cfg) key = Some i0 -> (vnum (tview t) <? r_view s) = false ->
  fresh (r_timeout_views s) key (vnum (tview t)) ->
  timeout_verify (cg cfg) (ce cfg) (cC cfg) t = Ok tt ->
  on_timeout cfg s key true t = on_timeout_accept cfg s key t i0.
Proof. exact on_timeout_eq. Qed.
Print Assumptions C16_on_timeout_eq.

Theorem C16_on_timeout_qc_verifies : forall cfg s key t i0, cache_inv cfg s ->
  cindex (cC cfg) key = Some i0 -> fresh (r_timeout_views s) key (vnum (tview t)) ->
  timeout_verify (cg cfg) (ce cfg) (cC cfg) t = Ok tt ->
  let t' := tupd cfg key t i0 (t0_of (r_timeout_qcs s) (tview t)) in
  quorum (cC cfg) <= weight (cweights (cC cfg)) (union_from (bv_new (length (cC cfg))) (tqmap t')) ->
  tqc_inv (cg cfg) (ce cfg) (cC cfg) t' /\ tqview t' = tview t /\
  tqc_verify (cg cfg) (ce cfg) (cC cfg) t' = Ok tt.
Proof. exact on_timeout_qc_verifies. Qed.
Print Assumptions C16_on_timeout_qc_verifies.

(* ---------- non-vacuity: a flood on a concrete committee ---------- *)
Definition ex_cfg : config :=
  {| cg := 0; ce := 0;
     cC := [ {| mkey := 0; mweight := 1 |}; {| mkey := 1; mweight := 1 |};
             {| mkey := 2; mweight := 1 |}; {| mkey := 3; mweight := 1 |} ];
     cme := 0; cfirst := 0; cmaxpay := 100; cpsize := fun _ => 1; cpok := fun _ _ => true; cchk := true |}.
Definition ex_view (v : Z) : view := {| vgen := 0; vepoch := 0; vnum := v |}.
Definition ex_commit (k v : Z) : rinput :=
  IMsg {| m_key := k; m_sig_ok := true;
          m_msg := MCommit {| cview := ex_view v; cprop := {| hnum := v; hpay := k |} |} |}.
Definition ex_timeout (k v : Z) : rinput :=
  IMsg {| m_key := k; m_sig_ok := true;
          m_msg := MTimeout {| tview := ex_view v; thv := None; thq := None |} |}.
(* validators 1 and 2 send validly signed commit and timeout votes for 300 distinct future
   views, validator 3 stays at view 5, key 9 is not a member *)
Definition ex_flood : list rinput :=
  [ex_commit 3 5; ex_timeout 3 5; ex_commit 9 7] ++
  flat_map (fun v => [ex_commit 1 v; ex_timeout 1 v; ex_commit 2 (v + 1); ex_timeout 2 (v + 1)])
           (map Z.of_nat (seq 10 300)).
Definition ex_final : rstate := rrun ex_cfg (rstart ex_cfg durable_default 0 0) ex_flood.

Example C16_cache_example :
  length ex_flood = 1203%nat /\
  r_commit_views ex_final = [(1, 309); (2, 310); (3, 5)] /\
  map (fun e => (fst e, length (snd e))) (r_commit_qcs ex_final) = [(5, 1%nat); (309, 2%nat); (310, 1%nat)] /\
  r_timeout_views ex_final = [(1, 309); (2, 310); (3, 5)] /\
  map fst (r_timeout_qcs ex_final) = [5; 309; 310].
Proof. vm_compute. repeat split. Qed.
