From Coq Require Import ZArith List Lia Bool.
From EC Require Import Lib.Outcome Lib.U64 Lib.RustSem Lib.ListW Lib.Obs Model.Msgs Model.Replica Model.ReplicaGlue Proofs.GenTac.
From EC Require Import Gen.Numbers Gen.Justification Gen.ReplicaCore Properties.C02Gen.
Import ListNotations.
Open Scope Z_scope.

(* ---------- the state monad ---------- *)
Lemma hbind_ret_r : forall (x : hres unit), hbind x (fun s _ => hret s tt) = x.
Proof. intros [[s es] r]. destruct r as [[]|e|p]; cbn [hbind hret]; rewrite ?app_nil_r; reflexivity. Qed.
Lemma hbind_ret_l : forall A B (s : rstate) (a : A) (f : rstate -> A -> hres B), hbind (hret s a) f = f s a.
Proof. intros A B s a f. cbn [hbind hret]. destruct (f s a) as [[s' es] r]. reflexivity. Qed.
Lemma hbind_fail_l : forall A B (s : rstate) e (f : rstate -> A -> hres B), hbind (hfail s e) f = hfail s e.
Proof. reflexivity. Qed.
Lemma hbind_panic_l : forall A B (s : rstate) p (f : rstate -> A -> hres B), hbind (hpanic s p) f = hpanic s p.
Proof. reflexivity. Qed.
Lemma hbind_assoc : forall A B C (x : hres A) (f : rstate -> A -> hres B) (g : rstate -> B -> hres C),
  hbind (hbind x f) g = hbind x (fun s a => hbind (f s a) g).
Proof.
  intros A B C [[s es] r] f g. destruct r as [a|e|p]; cbn [hbind]; try reflexivity.
  destruct (f s a) as [[s1 es1] r1]. destruct r1 as [b|e|p]; cbn [hbind]; try reflexivity.
  destruct (g s1 b) as [[s2 es2] r2]. rewrite app_assoc. reflexivity.
Qed.
Lemma hbind_ext : forall A B (x : hres A) (f g : rstate -> A -> hres B),
  (forall s a, f s a = g s a) -> hbind x f = hbind x g.
Proof. intros A B [[s es] r] f g H. destruct r; cbn [hbind]; try reflexivity. rewrite H. reflexivity. Qed.

Ltac hsimpl := repeat (rewrite ?hbind_ret_r, ?hbind_ret_l, ?hbind_fail_l, ?hbind_panic_l).

Lemma bt_get_zmap_get : forall A (m : list (Z * A)) k, bt_get Z.eqb m k = zmap_get m k.
Proof. intros A m k. induction m as [|[k' a] m IH]; [reflexivity|]. cbn [bt_get zmap_get]. rewrite IH. reflexivity. Qed.

(* ---------- block.rs ---------- *)
Theorem C05_generated_save_block : forall chk cfg s q,
  gen_StateMachine_save_block chk s q cfg = save_block cfg s q.
Proof.
  intros chk cfg s q. unfold gen_StateMachine_save_block, save_block, cache_has, gen_CommitQC_header.
  rewrite bt_get_zmap_get.
  destruct (zmap_get (r_cache s) (hnum (cprop (qmsg q)))) as [l|]; [|reflexivity].
  unfold payload_map_get. destruct (existsb (Z.eqb (hpay (cprop (qmsg q)))) l); [|reflexivity].
  unfold engine_queue_block, engine_wait_persisted. cbn [fst snd].
  destruct (r_store_next s <? hnum (cprop (qmsg q))); [reflexivity|].
  destruct (r_store_next s =? hnum (cprop (qmsg q))); reflexivity.
Qed.

(* ---------- mod.rs ---------- *)
Theorem C05_generated_process_commit_qc : forall chk cfg s q,
  gen_StateMachine_process_commit_qc chk s q cfg = process_commit_qc cfg s q.
Proof.
  intros chk cfg s q. unfold gen_StateMachine_process_commit_qc, process_commit_qc, gen_CommitQC_view.
  hsimpl. destruct (r_high_cqc s) as [cur|]; cbn beta.
  - destruct (vnum (cview (qmsg cur)) <? vnum (cview (qmsg q))); [|reflexivity].
    hsimpl. apply C05_generated_save_block.
  - hsimpl. apply C05_generated_save_block.
Qed.

Theorem C05_generated_process_timeout_qc : forall chk cfg s t,
  gen_StateMachine_process_timeout_qc chk s t cfg = process_timeout_qc cfg s t.
Proof.
  intros chk cfg s t. unfold gen_StateMachine_process_timeout_qc, process_timeout_qc.
  rewrite C02_generated_high_qc.
  assert (Hfirst : match high_qc t with
                   | Some v_high_qc => hbind (gen_StateMachine_process_commit_qc chk s v_high_qc cfg) (fun s0 _ => hret s0 tt)
                   | None => hret s tt
                   end = match high_qc t with Some q => process_commit_qc cfg s q | None => hret s tt end).
  { destruct (high_qc t) as [q|]; [|reflexivity]. hsimpl. apply C05_generated_process_commit_qc. }
  rewrite Hfirst. apply hbind_ext. intros s1 [].
  hsimpl. destruct (r_high_tqc s1) as [old|]; cbn beta; [destruct (vnum (tqview old) <? vnum (tqview t))|]; reflexivity.
Qed.

(* ---------- new_view.rs ---------- *)
Theorem C05_generated_get_justification : forall chk cfg s,
  gen_StateMachine_get_justification chk s cfg = get_justification s.
Proof.
  intros chk cfg s. unfold gen_StateMachine_get_justification, get_justification, gen_CommitQC_view.
  destruct (r_high_cqc s) as [q|]; destruct (r_high_tqc s) as [t|]; cbn [is_some orb option_map opt_ge view_cmp_ge unwrap bind];
    try reflexivity.
Qed.

Lemma filter_pair_ext : forall (A : Type) (f : Z -> bool) (l : list (Z * A)),
  filter (fun '(k, _) => f k) l = filter (fun e => f (fst e)) l.
Proof. intros A f l. induction l as [|[k a] l IH]; [reflexivity|]. cbn [filter fst]. rewrite IH. reflexivity. Qed.

Theorem C05_generated_start_new_view : forall chk cfg s v,
  gen_StateMachine_start_new_view chk s v cfg = start_new_view cfg s v.
Proof.
  intros chk cfg s v. unfold gen_StateMachine_start_new_view, start_new_view.
  rewrite C05_generated_get_justification.
  destruct (get_justification (set_phase (set_view s v) Prepare)) as [j|e|p]; cbn [hlift]; hsimpl; try reflexivity.
  unfold notify_proposer, hexpect, hemit. cbn [hbind].
  set (s1 := set_phase (set_view s v) Prepare).
  unfold gen_CommitQC_header.
  destruct (r_high_cqc s1) as [q|] eqn:Hq.
  - rewrite (filter_pair_ext _ (fun k => hnum (cprop (qmsg q)) <? k)). hsimpl.
    unfold backup_state, send_outbound, hemit. cbn [hbind hret app]. reflexivity.
  - hsimpl. unfold backup_state, send_outbound, hemit. cbn [hbind hret app]. reflexivity.
Qed.

Theorem C05_generated_start_timeout : forall chk cfg s,
  gen_StateMachine_start_timeout chk s cfg = start_timeout cfg s.
Proof.
  intros chk cfg s. unfold gen_StateMachine_start_timeout, start_timeout.
  cbv zeta. apply hbind_ext. intros s1 u.
  destruct (r_view s1 =? 0); cbn [negb].
  - hsimpl. reflexivity.
  - rewrite C05_generated_get_justification.
    destruct (get_justification s1) as [j|e|p]; cbn [hlift]; hsimpl; reflexivity.
Qed.
Print Assumptions C05_generated_start_timeout.
Print Assumptions C05_generated_start_new_view.
Print Assumptions C05_generated_process_timeout_qc.
