From Coq Require Import ZArith List Bool Lia Permutation Sorted.
From EC Require Import Lib.Outcome Lib.U64 Model.Leader.
Import ListNotations.
Open Scope Z_scope.

Ltac Zify.zify_post_hook ::= Z.div_mod_to_equations.

Definition klt (a b : vinfo) : Prop := vkey a < vkey b.
Fixpoint wsum (vs : list vinfo) : Z :=
  match vs with [] => 0 | v :: vs' => vweight v + wsum vs' end.
Fixpoint lsum (vs : list vinfo) : Z :=
  match vs with [] => 0 | v :: vs' => (if vleader v then vweight v else 0) + lsum vs' end.
Definition wpos (vs : list vinfo) : Prop := Forall (fun v => 0 < vweight v) vs.
Definition isort (vs m : list vinfo) : list vinfo := fold_left (fun m v => insert v m) vs m.

(* ---------- sorted insertion ---------- *)

Lemma has_key_spec k m : has_key k m = true <-> In k (map vkey m).
Proof.
  induction m as [|v m IH]; cbn; [split; [discriminate|tauto]|].
  rewrite orb_true_iff, IH, Z.eqb_eq. tauto.
Qed.

Lemma insert_perm v m : Permutation (insert v m) (v :: m).
Proof.
  induction m as [|x m IH]; cbn; [reflexivity|].
  destruct (vkey v <? vkey x); [reflexivity|].
  rewrite IH. apply perm_swap.
Qed.

Lemma insert_sorted v m : StronglySorted klt m -> ~ In (vkey v) (map vkey m) ->
  StronglySorted klt (insert v m).
Proof.
  induction 1 as [|x m Hs IH Hall]; intros Hni; cbn.
  - constructor; constructor.
  - cbn in Hni. destruct (vkey v <? vkey x) eqn:E.
    + constructor; [constructor; assumption|].
      constructor; [unfold klt; lia|].
      rewrite Forall_forall in *. intros y Hy. specialize (Hall y Hy). unfold klt in *. lia.
    + constructor; [apply IH; tauto|].
      rewrite Forall_forall in *. intros y Hy.
      apply (Permutation_in _ (insert_perm v m)) in Hy. destruct Hy as [<-|Hy].
      * unfold klt. assert (vkey x <> vkey v) by tauto. lia.
      * apply Hall, Hy.
Qed.

Lemma sorted_perm_eq l1 : forall l2, StronglySorted klt l1 -> StronglySorted klt l2 ->
  Permutation l1 l2 -> l1 = l2.
Proof.
  induction l1 as [|a l1 IH]; intros l2 H1 H2 Hp.
  - apply Permutation_nil in Hp. congruence.
  - destruct l2 as [|b l2]; [apply Permutation_sym, Permutation_nil in Hp; discriminate|].
    inversion H1 as [|? ? Hs1 Ha1]; subst. inversion H2 as [|? ? Hs2 Ha2]; subst.
    assert (a = b) as ->.
    { assert (In a (b :: l2)) as Hia by (apply (Permutation_in _ Hp); left; reflexivity).
      assert (In b (a :: l1)) as Hib by (apply (Permutation_in _ (Permutation_sym Hp)); left; reflexivity).
      destruct Hia as [<-|Hia]; [reflexivity|]. destruct Hib as [->|Hib]; [reflexivity|].
      rewrite Forall_forall in Ha1, Ha2. specialize (Ha1 _ Hib). specialize (Ha2 _ Hia).
      unfold klt in *. lia. }
    f_equal. apply IH; try assumption. eapply Permutation_cons_inv; eassumption.
Qed.

Lemma isort_perm vs : forall m, Permutation (isort vs m) (vs ++ m).
Proof.
  induction vs as [|v vs IH]; intros m; cbn; [reflexivity|].
  unfold isort in *. cbn. rewrite IH. rewrite insert_perm.
  apply Permutation_sym, Permutation_middle.
Qed.

Lemma isort_sorted vs : forall m, StronglySorted klt m -> NoDup (map vkey (vs ++ m)) ->
  StronglySorted klt (isort vs m).
Proof.
  induction vs as [|v vs IH]; intros m Hs Hnd; cbn; [assumption|].
  unfold isort in *. cbn. cbn in Hnd. inversion Hnd as [|? ? Hni Hnd']; subst. apply IH.
  - apply insert_sorted; [assumption|]. intros Hin. apply Hni. rewrite map_app, in_app_iff. tauto.
  - eapply Permutation_NoDup; [|exact Hnd].
    change (vkey v :: map vkey (vs ++ m)) with (map vkey (v :: vs ++ m)).
    apply Permutation_map. rewrite insert_perm. apply Permutation_middle.
Qed.

(* ---------- the loop of Schedule::new ---------- *)

Lemma wsum_nonneg vs : wpos vs -> 0 <= wsum vs.
Proof. induction 1; cbn; lia. Qed.
Lemma lsum_bounds vs : wpos vs -> 0 <= lsum vs <= wsum vs.
Proof. induction 1 as [|v vs Hv _ IH]; cbn; [lia|]. destruct (vleader v); lia. Qed.

Lemma new_loop_complete vs : forall m tot lw,
  wpos vs -> NoDup (map vkey (vs ++ m)) -> 0 <= tot -> tot + wsum vs < U64 ->
  new_loop vs m tot lw = Ok (isort vs m, tot + wsum vs, lw + lsum vs).
Proof.
  induction vs as [|v vs IH]; intros m tot lw Hp Hnd Ht Hs; cbn [new_loop wsum lsum isort fold_left].
  - rewrite !Z.add_0_r. reflexivity.
  - inversion Hp as [|? ? Hv Hp']; subst. cbn in Hnd. inversion Hnd as [|? ? Hni Hnd']; subst.
    destruct (has_key (vkey v) m) eqn:Hk.
    { apply has_key_spec in Hk. exfalso. apply Hni. rewrite map_app, in_app_iff. tauto. }
    destruct (vweight v <=? 0) eqn:Hw; [lia|].
    pose proof (wsum_nonneg vs Hp'). cbn [wsum] in Hs.
    unfold u64_checked_add. destruct (tot + vweight v <? U64) eqn:Ho; [|lia].
    rewrite IH; try assumption; try lia.
    + unfold isort. cbn [fold_left].
      replace (tot + vweight v + wsum vs) with (tot + (vweight v + wsum vs)) by lia.
      replace ((if vleader v then lw + vweight v else lw) + lsum vs)
        with (lw + ((if vleader v then vweight v else 0) + lsum vs)) by (destruct (vleader v); lia).
      reflexivity.
    + eapply Permutation_NoDup; [|exact Hnd].
      change (vkey v :: map vkey (vs ++ m)) with (map vkey (v :: vs ++ m)).
      apply Permutation_map. rewrite insert_perm. apply Permutation_middle.
Qed.

Lemma new_loop_sound vs : forall m tot lw r,
  0 <= tot < U64 -> NoDup (map vkey m) ->
  new_loop vs m tot lw = Ok r ->
  wpos vs /\ NoDup (map vkey (vs ++ m)) /\ tot + wsum vs < U64.
Proof.
  induction vs as [|v vs IH]; intros m tot lw r Ht Hnd H; cbn in *.
  - repeat split; [constructor|assumption|lia].
  - destruct (has_key (vkey v) m) eqn:Hk; [discriminate|].
    destruct (vweight v <=? 0) eqn:Hw; [discriminate|].
    unfold u64_checked_add in H. destruct (tot + vweight v <? U64) eqn:Ho; [|discriminate].
    assert (Hni : ~ In (vkey v) (map vkey m)).
    { intros Hin. apply has_key_spec in Hin. congruence. }
    apply IH in H; [|lia|].
    + destruct H as (Hp & Hnd' & Hs). repeat split.
      * constructor; [lia|assumption].
      * eapply Permutation_NoDup; [|exact Hnd'].
        change (vkey v :: map vkey (vs ++ m)) with (map vkey (v :: vs ++ m)).
        apply Permutation_map.
        rewrite insert_perm. apply Permutation_sym, Permutation_middle.
      * lia.
    + eapply Permutation_NoDup; [apply Permutation_map, Permutation_sym, insert_perm|].
      cbn [map]. constructor; assumption.
Qed.

(* Characterisation of Schedule::new's loop from the empty map. *)
Lemma new_loop_iff vs r :
  new_loop vs [] 0 0 = Ok r <->
  (wpos vs /\ NoDup (map vkey vs) /\ wsum vs < U64 /\ r = (isort vs [], wsum vs, lsum vs)).
Proof.
  split.
  - intros H. pose proof (new_loop_sound vs [] 0 0 r ltac:(unfold U64; lia) ltac:(constructor) H) as (Hp & Hnd & Hs).
    rewrite app_nil_r in Hnd. rewrite new_loop_complete in H; try assumption; try lia.
    + inversion H. repeat split; try assumption; lia.
    + rewrite app_nil_r; assumption.
  - intros (Hp & Hnd & Hs & ->). rewrite new_loop_complete; try assumption; try lia.
    + reflexivity.
    + rewrite app_nil_r; assumption.
Qed.

(* ---------- leader indexes ---------- *)

Lemma leader_indexes_spec m : forall i j, In j (leader_indexes i m) ->
  (i <= j)%nat /\ exists v, nth_error m (j - i) = Some v /\ vleader v = true.
Proof.
  induction m as [|v m IH]; intros i j Hin; cbn in Hin; [tauto|].
  destruct (vleader v) eqn:Hl.
  - destruct Hin as [<-|Hin].
    + split; [lia|]. exists v. rewrite Nat.sub_diag. split; [reflexivity|assumption].
    + apply IH in Hin. destruct Hin as (Hle & w & Hn & Hw). split; [lia|]. exists w.
      replace (j - i)%nat with (S (j - S i)) by lia. split; assumption.
  - apply IH in Hin. destruct Hin as (Hle & w & Hn & Hw). split; [lia|]. exists w.
    replace (j - i)%nat with (S (j - S i)) by lia. split; assumption.
Qed.

Fixpoint wsum_idx (vec : list vinfo) (ls : list nat) : Z :=
  match ls with
  | [] => 0
  | l :: ls' => match nth_error vec l with Some v => vweight v | None => 0 end + wsum_idx vec ls'
  end.

Lemma leader_indexes_wsum m : forall i pre, length pre = i ->
  wsum_idx (pre ++ m) (leader_indexes i m) = lsum m.
Proof.
  induction m as [|v m IH]; intros i pre Hl; cbn; [reflexivity|].
  destruct (vleader v) eqn:Hv; cbn.
  - rewrite nth_error_app2 by lia. rewrite Hl, Nat.sub_diag. cbn.
    replace (pre ++ v :: m) with ((pre ++ [v]) ++ m) by (rewrite <- app_assoc; reflexivity).
    rewrite IH; [reflexivity|]. rewrite app_length; cbn; lia.
  - replace (pre ++ v :: m) with ((pre ++ [v]) ++ m) by (rewrite <- app_assoc; reflexivity).
    rewrite IH; [lia|]. rewrite app_length; cbn; lia.
Qed.

Lemma leader_indexes_nonempty m i : lsum m > 0 -> leader_indexes i m <> [].
Proof.
  revert i. induction m as [|v m IH]; intros i H; cbn in *; [lia|].
  destruct (vleader v); [discriminate|]. apply IH. lia.
Qed.

Lemma leader_indexes_empty m i : (forall v, In v m -> vleader v = false) -> leader_indexes i m = [].
Proof.
  revert i. induction m as [|v m IH]; intros i H; cbn; [reflexivity|].
  rewrite (H v (or_introl eq_refl)). apply IH. intros w Hw. apply H. right. assumption.
Qed.

(* ---------- validity of schedules ---------- *)

Record valid_schedule (s : schedule) : Prop := {
  vs_sorted : StronglySorted klt (svec s);
  vs_pos : wpos (svec s);
  vs_total : stotal s = wsum (svec s);
  vs_total_range : 1 <= stotal s < U64;
  vs_leaders : sleaders s = leader_indexes 0 (svec s);
  vs_leaders_nonempty : sleaders s <> [];
  vs_lw : sleader_weight s = lsum (svec s);
}.

Lemma wsum_perm l l' : Permutation l l' -> wsum l = wsum l'.
Proof. induction 1; cbn [wsum]; lia. Qed.
Lemma lsum_perm l l' : Permutation l l' -> lsum l = lsum l'.
Proof. induction 1; cbn [lsum]; try lia; destruct (vleader x); try destruct (vleader y); lia. Qed.
Lemma wpos_perm l l' : Permutation l l' -> wpos l -> wpos l'.
Proof. intros Hp H. unfold wpos in *. eapply Permutation_Forall; eassumption. Qed.

Lemma schedule_new_valid vs sel s : schedule_new vs sel = Ok s ->
  valid_schedule s /\ Permutation (svec s) vs /\ ssel s = sel.
Proof.
  unfold schedule_new. destruct (new_loop vs [] 0 0) as [r| |] eqn:E; cbn [bind]; try discriminate.
  apply new_loop_iff in E. destruct E as (Hp & Hnd & Hs & ->).
  destruct (isort vs []) as [|x m] eqn:Em; [discriminate|].
  destruct (leader_indexes 0 (x :: m)) as [|l ls] eqn:El; [discriminate|].
  intros H; inversion H; subst; clear H.
  assert (Hperm : Permutation (x :: m) vs).
  { rewrite <- Em. rewrite isort_perm, app_nil_r. reflexivity. }
  split; [|split; [exact Hperm|reflexivity]].
  assert (Hpm : wpos (x :: m)) by (eapply wpos_perm; [apply Permutation_sym; exact Hperm|exact Hp]).
  constructor; cbn [svec stotal sleaders sleader_weight ssel].
  - rewrite <- Em. apply isort_sorted; [constructor|]. rewrite app_nil_r. assumption.
  - exact Hpm.
  - apply wsum_perm, Permutation_sym, Hperm.
  - rewrite <- (wsum_perm _ _ Hperm). inversion Hpm as [|? ? Hx Hm]; subst.
    pose proof (wsum_nonneg m Hm). cbn in *. rewrite <- (wsum_perm _ _ Hperm) in Hs. cbn in Hs. lia.
  - symmetry; exact El.
  - discriminate.
  - apply lsum_perm, Permutation_sym, Hperm.
Qed.

(* ---------- order independence ---------- *)

Lemma schedule_new_perm vs vs' sel s : Permutation vs vs' ->
  schedule_new vs sel = Ok s -> schedule_new vs' sel = Ok s.
Proof.
  intros Hperm. unfold schedule_new.
  destruct (new_loop vs [] 0 0) as [r| |] eqn:E; cbn [bind]; try discriminate.
  apply new_loop_iff in E. destruct E as (Hp & Hnd & Hs & ->).
  assert (E' : new_loop vs' [] 0 0 = Ok (isort vs' [], wsum vs', lsum vs')).
  { apply new_loop_iff. repeat split.
    - eapply wpos_perm; eassumption.
    - eapply Permutation_NoDup; [apply Permutation_map; exact Hperm|assumption].
    - rewrite <- (wsum_perm _ _ Hperm). assumption. }
  rewrite E'. cbn [bind].
  assert (Heq : isort vs' [] = isort vs []).
  { apply sorted_perm_eq.
    - apply isort_sorted; [constructor|]. rewrite app_nil_r.
      eapply Permutation_NoDup; [apply Permutation_map; exact Hperm|assumption].
    - apply isort_sorted; [constructor|]. rewrite app_nil_r. assumption.
    - rewrite !isort_perm, !app_nil_r. apply Permutation_sym, Hperm. }
  rewrite Heq, <- (wsum_perm _ _ Hperm), <- (lsum_perm _ _ Hperm). tauto.
Qed.

(* ---------- view_leader ---------- *)

Definition eligible_key (s : schedule) (k : Z) : Prop :=
  exists v, In v (svec s) /\ vkey v = k /\ vleader v = true.

Lemma leaders_valid s : valid_schedule s -> forall idx, In idx (sleaders s) ->
  exists v, nth_error (svec s) idx = Some v /\ vleader v = true.
Proof.
  intros Hv idx Hin. rewrite (vs_leaders s Hv) in Hin.
  apply leader_indexes_spec in Hin. destruct Hin as (_ & v & Hn & Hl).
  rewrite Nat.sub_0_r in Hn. eauto.
Qed.

(* the walk finds a leader whose weight interval contains the eligibility value *)
Fixpoint prefix (vec : list vinfo) (ls : list nat) (j : nat) : Z :=
  match j, ls with
  | S j', l :: ls' => match nth_error vec l with Some v => vweight v | None => 0 end + prefix vec ls' j'
  | _, _ => 0
  end.

Lemma walk_spec vec ls : forall e off,
  (forall idx, In idx ls -> exists v, nth_error vec idx = Some v /\ 0 < vweight v) ->
  off <= e < off + wsum_idx vec ls ->
  exists j idx v, nth_error ls j = Some idx /\ nth_error vec idx = Some v /\
    walk vec ls e off = Ok (vkey v) /\
    off + prefix vec ls j <= e < off + prefix vec ls j + vweight v.
Proof.
  induction ls as [|l ls IH]; intros e off Hval Hr; cbn in Hr; [lia|].
  destruct (Hval l (or_introl eq_refl)) as (v & Hn & Hw). rewrite Hn in Hr. cbn [walk]. rewrite Hn.
  destruct (e <? off + vweight v) eqn:E.
  - exists 0%nat, l, v. cbn. repeat split; try assumption; lia.
  - destruct (IH e (off + vweight v)) as (j & idx & w & Hj & Hi & Hwk & Hint).
    + intros idx Hin. apply Hval. right; assumption.
    + lia.
    + exists (S j), idx, w. cbn [nth_error prefix]. rewrite Hn. repeat split; try assumption; lia.
Qed.

Lemma view_leader_weighted s view h : valid_schedule s -> smode (ssel s) = Weighted -> 0 <= h ->
  exists j idx v, nth_error (sleaders s) j = Some idx /\ nth_error (svec s) idx = Some v /\
    vleader v = true /\ view_leader s view h = Ok (vkey v) /\
    prefix (svec s) (sleaders s) j <= h mod sleader_weight s
      < prefix (svec s) (sleaders s) j + vweight v.
Proof.
  intros Hv Hm Hh. unfold view_leader, view_leader_gen. rewrite Hm.
  assert (Hturn : exists t, turn_of true view (sfreq (ssel s)) = Ok t).
  { unfold turn_of. destruct (sfreq (ssel s) =? 0); eauto. }
  destruct Hturn as (t & ->). cbn [bind].
  assert (Hlw : sleader_weight s = wsum_idx (svec s) (sleaders s)).
  { rewrite (vs_lw s Hv), (vs_leaders s Hv).
    symmetry. apply (leader_indexes_wsum (svec s) 0%nat []). reflexivity. }
  assert (Hvalid : forall idx, In idx (sleaders s) ->
             exists v, nth_error (svec s) idx = Some v /\ 0 < vweight v).
  { intros idx Hin. destruct (leaders_valid s Hv idx Hin) as (v & Hn & _). exists v. split; [assumption|].
    pose proof (vs_pos s Hv) as Hp. unfold wpos in Hp. rewrite Forall_forall in Hp.
    apply Hp. eapply nth_error_In; eassumption. }
  assert (Hpos : 0 < sleader_weight s).
  { rewrite Hlw. destruct (sleaders s) as [|l ls] eqn:El; [exfalso; exact (vs_leaders_nonempty s Hv El)|].
    cbn. destruct (Hvalid l (or_introl eq_refl)) as (v & Hn & Hw). rewrite Hn.
    assert (0 <= wsum_idx (svec s) ls).
    { clear - Hvalid. induction ls as [|x ls IH]; cbn; [lia|].
      destruct (Hvalid x (or_intror (or_introl eq_refl))) as (w & Hn & Hw). rewrite Hn.
      assert (0 <= wsum_idx (svec s) ls); [|lia]. apply IH. intros idx [<-|Hin]; apply Hvalid; cbn; tauto. }
    lia. }
  unfold eligibility. destruct (sleader_weight s =? 0) eqn:Ez; [lia|]. cbn [negb andb].
  rewrite andb_false_r. cbn [bind].
  destruct (walk_spec (svec s) (sleaders s) (h mod sleader_weight s) 0 Hvalid) as (j & idx & v & Hj & Hi & Hw & Hint).
  { rewrite <- Hlw. pose proof (Z.mod_pos_bound h (sleader_weight s) Hpos). lia. }
  exists j, idx, v. repeat split; try assumption; try lia.
  destruct (leaders_valid s Hv idx (nth_error_In _ _ Hj)) as (v' & Hn' & Hl'). congruence.
Qed.

Lemma view_leader_round_robin s view h : valid_schedule s -> smode (ssel s) = RoundRobin -> 0 <= view ->
  let turn := turn_value s view in
  exists idx v,
    nth_error (sleaders s) (Z.to_nat (turn mod Z.of_nat (length (sleaders s)))) = Some idx /\
    nth_error (svec s) idx = Some v /\ vleader v = true /\
    view_leader s view h = Ok (vkey v).
Proof.
  intros Hv Hm Hview turn. unfold view_leader, view_leader_gen. rewrite Hm.
  assert (Hturn : turn_of true view (sfreq (ssel s)) = Ok turn).
  { unfold turn_of, turn, turn_value. destruct (sfreq (ssel s) =? 0); reflexivity. }
  rewrite Hturn. cbn [bind].
  destruct (sleaders s) as [|l ls] eqn:El; [exfalso; exact (vs_leaders_nonempty s Hv El)|].
  rewrite <- El.
  assert (Hlen : (0 < length (sleaders s))%nat) by (rewrite El; cbn; lia).
  assert (Hlt : (Z.to_nat (turn mod Z.of_nat (length (sleaders s))) < length (sleaders s))%nat).
  { pose proof (Z.mod_pos_bound turn (Z.of_nat (length (sleaders s))) ltac:(lia)). lia. }
  destruct (nth_error (sleaders s) (Z.to_nat (turn mod Z.of_nat (length (sleaders s))))) as [idx|] eqn:En.
  2:{ apply nth_error_None in En. lia. }
  destruct (leaders_valid s Hv idx (nth_error_In _ _ En)) as (v & Hn & Hl).
  exists idx, v. rewrite Hn. repeat split; assumption.
Qed.

Lemma view_leader_total s view h : valid_schedule s -> 0 <= view -> 0 <= h ->
  exists k, view_leader s view h = Ok k /\ eligible_key s k.
Proof.
  intros Hv Hview Hh. destruct (smode (ssel s)) eqn:Hm.
  - destruct (view_leader_round_robin s view h Hv Hm Hview) as (idx & v & _ & Hn & Hl & Hr).
    exists (vkey v). split; [assumption|]. exists v. repeat split; try assumption.
    eapply nth_error_In; eassumption.
  - destruct (view_leader_weighted s view h Hv Hm Hh) as (j & idx & v & _ & Hn & Hl & Hr & _).
    exists (vkey v). split; [assumption|]. exists v. repeat split; try assumption.
    eapply nth_error_In; eassumption.
Qed.

(* frequency 0: the turn is always 0, so the leader never changes (round robin: leaders[0]). *)
Lemma freq0_never_rotates s view view' h : sfreq (ssel s) = 0 ->
  view_leader s view h = view_leader s view' h.
Proof.
  intros Hf. unfold view_leader, view_leader_gen, turn_of. rewrite Hf. reflexivity.
Qed.

(* the leader only depends on the turn = view / frequency (constant on blocks of [frequency] views) *)
Lemma leader_constant_on_blocks s view view' h : sfreq (ssel s) <> 0 ->
  view / sfreq (ssel s) = view' / sfreq (ssel s) ->
  view_leader s view h = view_leader s view' h.
Proof.
  intros Hf Heq. unfold view_leader, view_leader_gen, turn_of.
  destruct (sfreq (ssel s) =? 0) eqn:E; [lia|]. rewrite Heq. reflexivity.
Qed.

(* ---------- pre-repair code: refutation witnesses (findings F1, F2) ---------- *)
Definition w_sched_freq0 : schedule :=
  {| svec := [{| vkey := 0; vweight := 1; vleader := true |}]; stotal := 1; sleaders := [0%nat];
     ssel := {| sfreq := 0; smode := RoundRobin |}; sleader_weight := 1 |}.
Definition w_sched_weighted : schedule :=
  {| svec := [{| vkey := 0; vweight := 1; vleader := true |}]; stotal := 1; sleaders := [0%nat];
     ssel := {| sfreq := 1; smode := Weighted |}; sleader_weight := 1 |}.

Lemma view_leader_orig_freq0_refuted :
  schedule_new [{| vkey := 0; vweight := 1; vleader := true |}] {| sfreq := 0; smode := RoundRobin |} = Ok w_sched_freq0 /\
  view_leader_orig w_sched_freq0 0 0 = Panic PDivZero.
Proof. split; reflexivity. Qed.

Lemma view_leader_orig_weighted_refuted : forall h, 0 <= h ->
  schedule_new [{| vkey := 0; vweight := 1; vleader := true |}] {| sfreq := 1; smode := Weighted |} = Ok w_sched_weighted /\
  view_leader_orig w_sched_weighted 0 h = Panic PIndex.
Proof.
  intros h Hh. split; [reflexivity|].
  unfold view_leader_orig, view_leader_gen. cbn. unfold eligibility. cbn.
  rewrite Z.mod_1_r. reflexivity.
Qed.

(* ---------- weighted share: exactly the residues of an interval of length = weight ---------- *)

Lemma leader_indexes_increasing m : forall i, StronglySorted lt (leader_indexes i m) /\
  Forall (fun j => (i <= j)%nat) (leader_indexes i m).
Proof.
  induction m as [|v m IH]; intros i; cbn [leader_indexes]; [split; constructor|].
  destruct (IH (S i)) as [Hs Hf]. destruct (vleader v).
  - split.
    + constructor; [exact Hs|]. rewrite Forall_forall in *. intros j Hj. specialize (Hf j Hj). lia.
    + constructor; [lia|]. rewrite Forall_forall in *. intros j Hj. specialize (Hf j Hj). lia.
  - split; [exact Hs|]. rewrite Forall_forall in *. intros j Hj. specialize (Hf j Hj). lia.
Qed.

Lemma sorted_lt_nth (l : list nat) : StronglySorted lt l -> forall a b x y,
  nth_error l a = Some x -> nth_error l b = Some y -> x = y -> a = b.
Proof.
  induction 1 as [|z l Hs IH Hall]; intros a b x y Ha Hb Hxy; [destruct a; discriminate|].
  destruct a as [|a], b as [|b]; cbn [nth_error] in Ha, Hb.
  - reflexivity.
  - inversion Ha; subst. apply nth_error_In in Hb. rewrite Forall_forall in Hall. specialize (Hall _ Hb). lia.
  - inversion Hb; subst. apply nth_error_In in Ha. rewrite Forall_forall in Hall. specialize (Hall _ Ha). lia.
  - f_equal. eapply IH; eassumption.
Qed.

Lemma prefix_succ vec ls : forall j idx v, nth_error ls j = Some idx -> nth_error vec idx = Some v ->
  prefix vec ls (S j) = prefix vec ls j + vweight v.
Proof.
  induction ls as [|l ls IH]; intros j idx v Hj Hv; [destruct j; discriminate|].
  destruct j as [|j]; cbn [nth_error] in Hj.
  - inversion Hj; subst. cbn [prefix]. rewrite Hv. destruct ls; cbn [prefix]; lia.
  - cbn [prefix]. rewrite (IH j idx v Hj Hv). destruct (nth_error vec l); lia.
Qed.

Lemma prefix_mono vec ls : (forall idx, In idx ls -> exists v, nth_error vec idx = Some v /\ 0 < vweight v) ->
  forall j j' idx v, (j < j')%nat -> nth_error ls j = Some idx -> nth_error vec idx = Some v ->
  (j' <= length ls)%nat -> prefix vec ls j + vweight v <= prefix vec ls j'.
Proof.
  intros Hval j j' idx v Hlt Hj Hv Hlen. induction j' as [|j' IH]; [lia|].
  destruct (Nat.eq_dec j j') as [->|Hne].
  - rewrite (prefix_succ vec ls j' idx v Hj Hv). lia.
  - assert (Hj' : (j' < length ls)%nat) by lia.
    destruct (nth_error ls j') as [idx'|] eqn:E; [|apply nth_error_None in E; lia].
    destruct (Hval idx' (nth_error_In _ _ E)) as (v' & Hv' & Hw').
    rewrite (prefix_succ vec ls j' idx' v' E Hv'). specialize (IH ltac:(lia) ltac:(lia)). lia.
Qed.

Lemma sorted_keys_nodup vec : StronglySorted klt vec -> forall a b x y,
  nth_error vec a = Some x -> nth_error vec b = Some y -> vkey x = vkey y -> a = b.
Proof.
  induction 1 as [|z l Hs IH Hall]; intros a b x y Ha Hb Hxy; [destruct a; discriminate|].
  destruct a as [|a], b as [|b]; cbn [nth_error] in Ha, Hb.
  - reflexivity.
  - inversion Ha; subst. apply nth_error_In in Hb. rewrite Forall_forall in Hall. specialize (Hall _ Hb). unfold klt in Hall. lia.
  - inversion Hb; subst. apply nth_error_In in Ha. rewrite Forall_forall in Hall. specialize (Hall _ Ha). unfold klt in Hall. lia.
  - f_equal. eapply IH; eassumption.
Qed.

(* the j-th eligible validator is the leader exactly for the digests whose residue modulo the
   eligible weight falls in an interval of length equal to its weight *)
Theorem weighted_share s view h j idx v : valid_schedule s -> smode (ssel s) = Weighted -> 0 <= h ->
  nth_error (sleaders s) j = Some idx -> nth_error (svec s) idx = Some v ->
  (view_leader s view h = Ok (vkey v) <->
   prefix (svec s) (sleaders s) j <= h mod sleader_weight s < prefix (svec s) (sleaders s) j + vweight v).
Proof.
  intros Hv Hm Hh Hj Hi.
  destruct (view_leader_weighted s view h Hv Hm Hh) as (j' & idx' & v' & Hj' & Hi' & Hl' & Hr' & Hint').
  assert (Hvalid : forall i, In i (sleaders s) -> exists w, nth_error (svec s) i = Some w /\ 0 < vweight w).
  { intros i Hin. destruct (leaders_valid s Hv i Hin) as (w & Hn & _). exists w. split; [assumption|].
    pose proof (vs_pos s Hv) as Hp. unfold wpos in Hp. rewrite Forall_forall in Hp.
    apply Hp. eapply nth_error_In; eassumption. }
  assert (Hinc : StronglySorted lt (sleaders s)).
  { rewrite (vs_leaders s Hv). apply leader_indexes_increasing. }
  split.
  - intros Hr. rewrite Hr' in Hr. inversion Hr as [Hk].
    assert (idx' = idx) by (eapply sorted_keys_nodup; [apply (vs_sorted s Hv)|eassumption|eassumption|exact Hk]).
    subst idx'. assert (v' = v) by congruence. subst v'.
    assert (j' = j) by (eapply sorted_lt_nth; [exact Hinc|eassumption|eassumption|reflexivity]).
    subst j'. exact Hint'.
  - intros Hint. rewrite Hr'. f_equal.
    destruct (Nat.lt_trichotomy j j') as [Hlt|[->|Hgt]].
    + exfalso. assert (Hl : (j' <= length (sleaders s))%nat).
      { assert (j' < length (sleaders s))%nat by (apply nth_error_Some; congruence). lia. }
      pose proof (prefix_mono (svec s) (sleaders s) Hvalid j j' idx v Hlt Hj Hi Hl). lia.
    + congruence.
    + exfalso. assert (Hl : (j <= length (sleaders s))%nat).
      { assert (j < length (sleaders s))%nat by (apply nth_error_Some; congruence). lia. }
      pose proof (prefix_mono (svec s) (sleaders s) Hvalid j' j idx' v' Hgt Hj' Hi' Hl). lia.
Qed.
