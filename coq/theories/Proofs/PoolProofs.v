(* C12 — lemmas about Model/Pool.v *)
From Coq Require Import ZArith List Bool Lia.
From EC Require Import Lib.Outcome Lib.U64 Model.Handshake Model.Pool.
Import ListNotations.
Open Scope Z_scope.

Lemma memz_spec k l : memz k l = true <-> In k l.
Proof.
  unfold memz. rewrite existsb_exists. split.
  - intros (x & Hin & He). apply Z.eqb_eq in He. subst. exact Hin.
  - intros Hin. exists k. split; [exact Hin|apply Z.eqb_refl].
Qed.

Lemma memz_false k l : memz k l = false <-> ~ In k l.
Proof.
  rewrite <- memz_spec. destruct (memz k l); split; intros H; try reflexivity; try discriminate.
  exfalso. apply H. reflexivity.
Qed.

Lemma removez_in x k l : In x (removez k l) <-> In x l /\ x <> k.
Proof.
  unfold removez. rewrite filter_In, negb_true_iff, Z.eqb_neq. tauto.
Qed.

Lemma removez_nodup k l : NoDup l -> NoDup (removez k l).
Proof. apply NoDup_filter. Qed.

Lemma removez_absent k l : ~ In k l -> removez k l = l.
Proof.
  induction l as [|x l IH]; intros Hni; cbn; [reflexivity|].
  cbn in Hni. destruct (x =? k) eqn:E; cbn.
  - apply Z.eqb_eq in E. tauto.
  - f_equal. apply IH. tauto.
Qed.

Definition nallowed (allowed : list Z) (k : Z) : bool := negb (memz k allowed).
Definition cnt (allowed cur : list Z) : Z := Z.of_nat (length (filter (nallowed allowed) cur)).

Lemma extras_cnt p : extras p = cnt (p_allowed p) (p_current p).
Proof. reflexivity. Qed.

Lemma cnt_nonneg a l : 0 <= cnt a l.
Proof. unfold cnt. lia. Qed.

Lemma cnt_cons a k l : cnt a (k :: l) = (if nallowed a k then 1 else 0) + cnt a l.
Proof. unfold cnt. cbn [filter]. destruct (nallowed a k); cbn [length]; lia. Qed.

Lemma cnt_removez a k l : NoDup l -> In k l ->
  cnt a (removez k l) = cnt a l - (if nallowed a k then 1 else 0).
Proof.
  induction l as [|x l IH]; intros Hnd Hin; [destruct Hin|].
  inversion Hnd as [|? ? Hnx Hnd']; subst.
  unfold removez. cbn [filter]. fold (removez k l).
  destruct (x =? k) eqn:E; cbn [negb].
  - apply Z.eqb_eq in E. subst x. rewrite (removez_absent k l Hnx), cnt_cons. lia.
  - apply Z.eqb_neq in E. destruct Hin as [->|Hin]; [congruence|].
    rewrite !cnt_cons, (IH Hnd' Hin). lia.
Qed.

Lemma cnt_zero a l : cnt a l <= 0 -> forall k, In k l -> In k a.
Proof.
  induction l as [|x l IH]; intros Hc k Hin; [destruct Hin|].
  rewrite cnt_cons in Hc. pose proof (cnt_nonneg a l) as Hn.
  destruct (nallowed a x) eqn:E; [lia|].
  destruct Hin as [<-|Hin].
  - unfold nallowed in E. apply negb_false_iff, memz_spec in E. exact E.
  - apply IH; [lia|exact Hin].
Qed.

(* ---------- the pool invariant ---------- *)

Definition pinv (p : pool) : Prop :=
  NoDup (p_current p) /\ p_extra p = cnt (p_allowed p) (p_current p) /\
  p_extra p <= p_limit p /\ p_limit p <= u64_max.

Lemma pinv_mk a lim ex cur : NoDup cur -> ex = cnt a cur -> ex <= lim -> lim <= u64_max ->
  pinv {| p_allowed := a; p_limit := lim; p_extra := ex; p_current := cur |}.
Proof. unfold pinv. cbn [p_allowed p_limit p_extra p_current]. tauto. Qed.

Lemma pinv_extras p : pinv p -> p_extra p = extras p /\ extras p <= p_limit p.
Proof. intros (_ & H1 & H2 & _). rewrite extras_cnt, <- H1. tauto. Qed.

Lemma pool_new_inv allowed limit : 0 <= limit <= u64_max -> pinv (pool_new allowed limit).
Proof.
  intros H. unfold pool_new. apply pinv_mk; [constructor|reflexivity|lia|lia].
Qed.

(* insert: complete case analysis *)
Lemma insert_cases k p : pinv p ->
  (In k (p_current p) /\ insert k p = Err EExists) \/
  (~ In k (p_current p) /\ ~ In k (p_allowed p) /\ p_limit p <= extras p /\ insert k p = Err ELimit) \/
  (~ In k (p_current p) /\ (In k (p_allowed p) \/ extras p < p_limit p) /\
   exists p', insert k p = Ok p' /\ pinv p' /\ p_current p' = k :: p_current p /\
              p_allowed p' = p_allowed p /\ p_limit p' = p_limit p).
Proof.
  intros Hi. destruct (pinv_extras p Hi) as (Hee & _). rewrite <- Hee.
  destruct Hi as (Hnd & Hex & Hle & Hmax). unfold insert.
  destruct (memz k (p_current p)) eqn:Ec.
  { left. apply memz_spec in Ec. tauto. }
  apply memz_false in Ec. right.
  destruct (memz k (p_allowed p)) eqn:Ea; cbn [negb].
  - right. split; [exact Ec|]. split; [apply memz_spec in Ea; tauto|].
    eexists. split; [reflexivity|]. cbn [p_current p_allowed p_limit]. split; [|tauto].
    apply pinv_mk; [constructor; assumption| |exact Hle|exact Hmax].
    rewrite cnt_cons. unfold nallowed. rewrite Ea. cbn [negb]. lia.
  - destruct (p_limit p <=? p_extra p) eqn:El.
    + left. apply Z.leb_le in El. apply memz_false in Ea. tauto.
    + apply Z.leb_gt in El. right. split; [exact Ec|]. split; [tauto|].
      assert (u64_max <? p_extra p + 1 = false) as -> by (apply Z.ltb_ge; lia).
      eexists. split; [reflexivity|]. cbn [p_current p_allowed p_limit]. split; [|tauto].
      apply pinv_mk; [constructor; assumption| |lia|exact Hmax].
      rewrite cnt_cons. unfold nallowed. rewrite Ea. cbn [negb]. lia.
Qed.

Lemma remove_cases k p : pinv p ->
  exists p', remove k p = Ok p' /\ pinv p' /\ p_current p' = removez k (p_current p) /\
             p_allowed p' = p_allowed p /\ p_limit p' = p_limit p /\
             (~ In k (p_current p) -> p' = p).
Proof.
  intros Hi. pose proof Hi as (Hnd & Hex & Hle & Hmax). unfold remove.
  destruct (memz k (p_current p)) eqn:Ec; cbn [negb].
  2:{ apply memz_false in Ec. exists p. rewrite (removez_absent _ _ Ec). tauto. }
  apply memz_spec in Ec.
  pose proof (cnt_removez (p_allowed p) k (p_current p) Hnd Ec) as Hc.
  pose proof (cnt_nonneg (p_allowed p) (removez k (p_current p))) as Hnn.
  unfold nallowed in Hc.
  destruct (memz k (p_allowed p)) eqn:Ea; cbn [negb] in *.
  - eexists. split; [reflexivity|]. cbn [p_current p_allowed p_limit]. split; [|tauto].
    apply pinv_mk; [apply removez_nodup, Hnd|lia|exact Hle|exact Hmax].
  - assert (p_extra p - 1 <? 0 = false) as -> by (apply Z.ltb_ge; lia).
    eexists. split; [reflexivity|]. cbn [p_current p_allowed p_limit]. split; [|tauto].
    apply pinv_mk; [apply removez_nodup, Hnd|lia|lia|exact Hmax].
Qed.

Lemma pstep_inv p o : pinv p ->
  pinv (snd (pstep p o)) /\ p_allowed (snd (pstep p o)) = p_allowed p /\
  p_limit (snd (pstep p o)) = p_limit p /\ is_panic (fst (pstep p o)) = false.
Proof.
  intros Hi. destruct o as [k|k]; cbn [pstep fst snd].
  - destruct (insert_cases k p Hi) as [(_ & ->)|[(_ & _ & _ & ->)|(_ & _ & p' & -> & Hp' & _ & Ha & Hl)]];
      cbn; tauto.
  - destruct (remove_cases k p Hi) as (p' & -> & Hp' & _ & Ha & Hl & _). cbn. tauto.
Qed.

Lemma prun_inv ops : forall p, pinv p ->
  pinv (prun p ops) /\ p_allowed (prun p ops) = p_allowed p /\ p_limit (prun p ops) = p_limit p.
Proof.
  induction ops as [|o ops IH]; intros p Hi; cbn [prun]; [tauto|].
  destruct (pstep_inv p o Hi) as (Hi' & Ha & Hl & _).
  destruct (IH _ Hi') as (H1 & H2 & H3). rewrite H2, H3. tauto.
Qed.

(* ---------- the glue ---------- *)

Definition ginv (g : gstate) : Prop :=
  pinv (g_pool g) /\ NoDup (map fst (g_live g)) /\ NoDup (map snd (g_live g)) /\
  (forall k, In k (p_current (g_pool g)) <-> In k (map snd (g_live g))).

Lemma live_key_none c l : live_key c l = None -> ~ In c (map fst l).
Proof.
  induction l as [|(c', k) l IH]; cbn; [tauto|].
  destruct (c' =? c) eqn:E; [discriminate|]. apply Z.eqb_neq in E. intros H [H'|H']; [congruence|].
  exact (IH H H').
Qed.

Lemma live_key_some c k l : live_key c l = Some k -> In (c, k) l.
Proof.
  induction l as [|(c', k') l IH]; cbn; [discriminate|].
  destruct (c' =? c) eqn:E.
  - apply Z.eqb_eq in E. intros [= ->]. left. congruence.
  - intros H. right. exact (IH H).
Qed.

Lemma nodup_fst_fun (l : list (Z * Z)) a x y : NoDup (map fst l) -> In (a, x) l -> In (a, y) l -> x = y.
Proof.
  induction l as [|(a', z) l IH]; intros Hnd Hx Hy; [destruct Hx|].
  cbn in Hnd. inversion Hnd as [|? ? Hni Hnd']; subst.
  destruct Hx as [Hx|Hx], Hy as [Hy|Hy].
  - congruence.
  - inversion Hx; subst. exfalso. apply Hni. apply (in_map fst) in Hy. exact Hy.
  - inversion Hy; subst. exfalso. apply Hni. apply (in_map fst) in Hx. exact Hx.
  - exact (IH Hnd' Hx Hy).
Qed.

Lemma nodup_snd_fun (l : list (Z * Z)) a b x : NoDup (map snd l) -> In (a, x) l -> In (b, x) l -> a = b.
Proof.
  induction l as [|(a', z) l IH]; intros Hnd Hx Hy; [destruct Hx|].
  cbn in Hnd. inversion Hnd as [|? ? Hni Hnd']; subst.
  destruct Hx as [Hx|Hx], Hy as [Hy|Hy].
  - congruence.
  - inversion Hx; subst. exfalso. apply Hni. apply (in_map snd) in Hy. exact Hy.
  - inversion Hy; subst. exfalso. apply Hni. apply (in_map snd) in Hx. exact Hx.
  - exact (IH Hnd' Hx Hy).
Qed.

Lemma drop_conn_in c l ck : In ck (drop_conn c l) <-> In ck l /\ fst ck <> c.
Proof. unfold drop_conn. rewrite filter_In, negb_true_iff, Z.eqb_neq. tauto. Qed.

Lemma nodup_map_filter {A B} (f : A -> B) (g : A -> bool) l : NoDup (map f l) -> NoDup (map f (filter g l)).
Proof.
  induction l as [|x l IH]; cbn; intros H; [constructor|].
  inversion H as [|? ? Hni Hnd]; subst. destruct (g x); cbn; [|exact (IH Hnd)].
  constructor; [|exact (IH Hnd)].
  intros Hin. apply Hni. apply in_map_iff in Hin. destruct Hin as (y & Hy & Hin).
  apply filter_In in Hin. apply in_map_iff. exists y. tauto.
Qed.

Lemma gstep_inv g o : ginv g -> exists g', gstep g o = Ok g' /\ ginv g' /\
  p_allowed (g_pool g') = p_allowed (g_pool g) /\ p_limit (g_pool g') = p_limit (g_pool g) /\
  (forall c k, In (c, k) (g_live g') -> In (c, k) (g_live g) \/ o = GConn c (Ok k)).
Proof.
  intros (Hp & Hf & Hs & Hiff). destruct o as [c hs|c]; cbn [gstep].
  - destruct (live_key c (g_live g)) eqn:El.
    { exists g. unfold ginv. tauto. }
    destruct hs as [k|e|x]; try (exists g; unfold ginv; tauto).
    destruct (insert_cases k (g_pool g) Hp) as [(_ & ->)|[(_ & _ & _ & ->)|(Hni & _ & p' & -> & Hp' & Hc & Ha & Hl)]];
      try (exists g; unfold ginv; tauto).
    eexists. split; [reflexivity|]. cbn [g_pool g_live]. split; [|split; [exact Ha|split; [exact Hl|]]].
    + unfold ginv. cbn [g_pool g_live map fst snd]. split; [exact Hp'|].
      split; [constructor; [apply live_key_none, El|exact Hf]|].
      split; [constructor; [rewrite <- Hiff; exact Hni|exact Hs]|].
      intros k'. rewrite Hc. cbn [In]. rewrite Hiff. tauto.
    + intros c' k' [H|H]; [right; congruence|left; exact H].
  - destruct (live_key c (g_live g)) as [k|] eqn:El.
    2:{ exists g. unfold ginv. tauto. }
    apply live_key_some in El.
    destruct (remove_cases k (g_pool g) Hp) as (p' & -> & Hp' & Hc & Ha & Hl & _).
    eexists. split; [reflexivity|]. cbn [g_pool g_live]. split; [|split; [exact Ha|split; [exact Hl|]]].
    + unfold ginv. cbn [g_pool g_live]. split; [exact Hp'|].
      split; [apply nodup_map_filter, Hf|]. split; [apply nodup_map_filter, Hs|].
      intros k'. rewrite Hc, removez_in, Hiff, !in_map_iff. split.
      * intros ((ck & Hk & Hin) & Hne). exists ck. split; [exact Hk|].
        apply drop_conn_in. split; [exact Hin|]. intros Hc'. destruct ck as (c0, k0). cbn in Hk, Hc'. subst.
        apply Hne. exact (nodup_fst_fun _ _ _ _ Hf Hin El).
      * intros (ck & Hk & Hin). apply drop_conn_in in Hin. destruct Hin as (Hin & Hne).
        split; [exists ck; tauto|]. intros ->. destruct ck as (c0, k0). cbn in Hk, Hne. subst.
        apply Hne. exact (nodup_snd_fun _ _ _ _ Hs Hin El).
    + intros c' k' H. left. apply drop_conn_in in H. tauto.
Qed.

Lemma grun_inv ops : forall g, ginv g -> exists g', grun g ops = Ok g' /\ ginv g' /\
  p_allowed (g_pool g') = p_allowed (g_pool g) /\ p_limit (g_pool g') = p_limit (g_pool g) /\
  (forall c k, In (c, k) (g_live g') -> In (c, k) (g_live g) \/ In (GConn c (Ok k)) ops).
Proof.
  induction ops as [|o ops IH]; intros g Hg; cbn [grun].
  - exists g. cbn. tauto.
  - destruct (gstep_inv g o Hg) as (g1 & -> & Hg1 & Ha & Hl & Hlive).
    destruct (IH g1 Hg1) as (g2 & Hr & Hg2 & Ha2 & Hl2 & Hlive2).
    exists g2. split; [exact Hr|]. split; [exact Hg2|]. rewrite Ha2, Hl2. split; [exact Ha|split; [exact Hl|]].
    intros c k H. destruct (Hlive2 c k H) as [H'|H']; [|right; right; exact H'].
    destruct (Hlive c k H') as [H''|H'']; [left; exact H''|right; left; exact H''].
Qed.

Lemma ginit_inv allowed limit : 0 <= limit <= u64_max -> ginv (ginit allowed limit).
Proof.
  intros H. unfold ginv, ginit. cbn [g_pool g_live map]. split; [apply pool_new_inv, H|].
  split; [constructor|]. split; [constructor|]. intros k. cbn. tauto.
Qed.

(* ---------- statements used by Properties/C12.v ---------- *)

Lemma pool_inv_thm allowed limit ops : 0 <= limit <= u64_max ->
  let p := prun (pool_new allowed limit) ops in
  NoDup (p_current p) /\ p_extra p = extras p /\ extras p <= limit /\
  p_allowed p = allowed /\ p_limit p = limit.
Proof.
  intros H p. destruct (prun_inv ops _ (pool_new_inv allowed limit H)) as (Hi & Ha & Hl).
  fold p in Hi, Ha, Hl. destruct (pinv_extras p Hi) as (H1 & H2). destruct Hi as (Hnd & _).
  cbn in Ha, Hl. rewrite Hl in H2. tauto.
Qed.

Lemma pool_step_thm allowed limit ops : 0 <= limit <= u64_max ->
  let p := prun (pool_new allowed limit) ops in
  forall k,
    (insert k p = Err EExists <-> In k (p_current p)) /\
    (insert k p = Err ELimit <-> ~ In k (p_current p) /\ ~ In k allowed /\ limit <= extras p) /\
    (forall x, insert k p <> Panic x) /\
    (forall p', insert k p = Ok p' -> p_current p' = k :: p_current p) /\
    (exists p', remove k p = Ok p' /\ p_current p' = removez k (p_current p) /\
                (~ In k (p_current p) -> p' = p)).
Proof.
  intros H p k. destruct (prun_inv ops _ (pool_new_inv allowed limit H)) as (Hi & Ha & Hl).
  fold p in Hi, Ha, Hl. cbn in Ha, Hl. rewrite <- Ha, <- Hl.
  destruct (remove_cases k p Hi) as (pr & Hr & _ & Hrc & _ & _ & Hrn).
  destruct (insert_cases k p Hi) as [(H1 & E)|[(H1 & H2 & H3 & E)|(H1 & H2 & p' & E & _ & H4 & _)]]; rewrite E.
  - repeat split; try tauto; try discriminate; try (intros (? & _); tauto).
    exists pr. tauto.
  - repeat split; try tauto; try discriminate. exists pr. tauto.
  - repeat split; try discriminate; try tauto.
    + intros (_ & Hna & Hlim). destruct H2; [tauto|lia].
    + intros p'' [= <-]. exact H4.
    + exists pr. tauto.
Qed.

Lemma one_per_direction_thm allowed limit ops : 0 <= limit <= u64_max ->
  exists g, grun (ginit allowed limit) ops = Ok g /\
    NoDup (map fst (g_live g)) /\ NoDup (map snd (g_live g)) /\
    (forall k, In k (p_current (g_pool g)) <-> In k (map snd (g_live g))) /\
    NoDup (p_current (g_pool g)) /\ extras (g_pool g) <= limit /\
    p_allowed (g_pool g) = allowed /\
    (forall c k, In (c, k) (g_live g) -> In (GConn c (Ok k)) ops).
Proof.
  intros H. destruct (grun_inv ops _ (ginit_inv allowed limit H)) as (g & Hr & (Hp & Hf & Hs & Hiff) & Ha & Hl & Hlive).
  exists g. split; [exact Hr|]. cbn in Ha, Hl. destruct (pinv_extras _ Hp) as (_ & He). rewrite Hl in He.
  destruct Hp as (Hnd & _). repeat split; try assumption; try apply Hiff.
  intros c k Hin. destruct (Hlive c k Hin) as [[]|H']. exact H'.
Qed.

Lemma members_only_thm committee ops :
  exists g, grun (ginit committee 0) ops = Ok g /\
    (forall k, In k (p_current (g_pool g)) -> In k committee) /\
    (forall c k, In (c, k) (g_live g) -> In k committee).
Proof.
  assert (0 <= 0 <= u64_max) as H by (unfold u64_max; lia).
  destruct (one_per_direction_thm committee 0 ops H) as (g & Hr & _ & _ & Hiff & _ & He & Ha & _).
  exists g. split; [exact Hr|].
  assert (Hm : forall k, In k (p_current (g_pool g)) -> In k committee).
  { rewrite extras_cnt, Ha in He. exact (cnt_zero _ _ He). }
  split; [exact Hm|]. intros c k Hin. apply Hm, Hiff. apply in_map_iff. exists (c, k). tauto.
Qed.
