(* Proofs about Model/Fetch.v: invariants of the block fetch hand-over protocol (C19). *)
From Coq Require Import ZArith List Bool Arith Lia Permutation.
From EC Require Import Lib.Obs Model.Fetch.
Import ListNotations.
Open Scope Z_scope.

(* ---------- reachability ---------- *)
Definition reachable (s : state) : Prop := exists l, run init l = Some s.

Lemma run_app : forall l1 l2 s, run s (l1 ++ l2) = match run s l1 with Some s' => run s' l2 | None => None end.
Proof.
  induction l1 as [|a l1 IH]; intros l2 s; cbn [run app]; [reflexivity|].
  destruct (step s a); [apply IH|reflexivity].
Qed.

Lemma reachable_init : reachable init.
Proof. exists []. reflexivity. Qed.

Lemma reachable_step : forall s a s', reachable s -> step s a = Some s' -> reachable s'.
Proof.
  intros s a s' [l Hl] Hs. exists (l ++ [a]). rewrite run_app, Hl. cbn [run]. rewrite Hs. reflexivity.
Qed.

Lemma reachable_ind (P : state -> Prop) :
  P init -> (forall s a s', reachable s -> P s -> step s a = Some s' -> P s') ->
  forall s, reachable s -> P s.
Proof.
  intros H0 HS s [l Hl]. revert s Hl.
  induction l as [|a l IH] using rev_ind; intros s Hl.
  - cbn in Hl. injection Hl as <-. exact H0.
  - rewrite run_app in Hl. destruct (run init l) as [s1|] eqn:E; [|discriminate].
    cbn [run] in Hl. destruct (step s1 a) as [s2|] eqn:E2; [|discriminate]. injection Hl as <-.
    eapply HS; [exists l; exact E| apply IH; reflexivity | exact E2].
Qed.

(* ---------- queue facts ---------- *)
Definition keys (q : queue) : list Z := map fst q.

Lemma in_keys_qremove : forall n q k, In k (keys (qremove n q)) <-> In k (keys q) /\ k <> n.
Proof.
  intros n q k. unfold keys. induction q as [|[k0 c0] q IH]; cbn [qremove map In fst]; [tauto|].
  destruct (Z.eqb_spec k0 n) as [->|Hne].
  - rewrite IH. split; [tauto|]. intros [[H|H] Hn]; [congruence|tauto].
  - cbn [map In fst]. rewrite IH. split.
    + intros [H|H]; [subst; tauto|tauto].
    + tauto.
Qed.

Lemma qlookup_in : forall n q c, qlookup n q = Some c -> In (n, c) q.
Proof.
  intros n q c. induction q as [|[k0 c0] q IH]; cbn [qlookup]; [discriminate|].
  destruct (Z.eqb_spec k0 n) as [->|Hne]; intros H.
  - injection H as ->. left; reflexivity.
  - right; auto.
Qed.

Lemma qlookup_none : forall n q, qlookup n q = None <-> ~ In n (keys q).
Proof.
  intros n q. induction q as [|[k0 c0] q IH]; cbn [qlookup keys map In fst]; [tauto|].
  destruct (Z.eqb_spec k0 n) as [->|Hne]; [split; [discriminate|tauto]|].
  unfold keys in IH. rewrite IH. tauto.
Qed.

Lemma qlookup_some_key : forall n q c, qlookup n q = Some c -> In n (keys q).
Proof. intros n q c H. apply qlookup_in in H. apply (in_map fst) in H. exact H. Qed.

Lemma qlookup_qremove_ne : forall n m q, m <> n -> qlookup m (qremove n q) = qlookup m q.
Proof.
  intros n m q Hne. induction q as [|[k0 c0] q IH]; cbn [qlookup qremove]; [reflexivity|].
  destruct (Z.eqb_spec k0 n) as [->|H1].
  - destruct (Z.eqb_spec n m); [congruence|exact IH].
  - cbn [qlookup]. rewrite IH. reflexivity.
Qed.

Lemma qlookup_qremove_eq : forall n q, qlookup n (qremove n q) = None.
Proof. intros n q. apply qlookup_none. rewrite in_keys_qremove. tauto. Qed.

Lemma qlookup_qinsert : forall n c q m,
  qlookup m (qinsert n c q) = if n =? m then Some c else qlookup m q.
Proof.
  intros n c q m. unfold qinsert. cbn [qlookup]. destruct (Z.eqb_spec n m) as [->|H]; [reflexivity|].
  apply qlookup_qremove_ne. congruence.
Qed.

(* least key *)
Definition is_least (m : Z) (q : queue) : Prop := In m (keys q) /\ forall k, In k (keys q) -> m <= k.

Lemma qmin_none : forall q, qmin q = None <-> q = [].
Proof.
  intros [|[k c] q]; cbn [qmin]; [tauto|]. destruct (qmin q); split; discriminate.
Qed.

Lemma qmin_some : forall q m, qmin q = Some m <-> is_least m q.
Proof.
  induction q as [|[k c] q IH]; intros m; cbn [qmin].
  - unfold is_least; cbn. split; [discriminate|tauto].
  - destruct (qmin q) as [m0|] eqn:E.
    + specialize (IH m0). destruct (proj1 IH eq_refl) as [Hin Hle].
      unfold is_least; cbn [keys map In fst]. split.
      * intros H. injection H as <-. split.
        -- destruct (Z.min_spec k m0) as [[_ ->]|[_ ->]]; [left; reflexivity|right; exact Hin].
        -- intros k0 [<-|H0]; [lia|]. specialize (Hle _ H0). lia.
      * intros [Hm Hall]. f_equal.
        assert (m <= k) by (apply Hall; left; reflexivity).
        assert (m <= m0) by (apply Hall; right; exact Hin).
        destruct Hm as [<-|Hm]; [lia|]. specialize (Hle _ Hm). lia.
    + apply qmin_none in E. subst q. unfold is_least; cbn. split.
      * intros H; injection H as <-. split; [left; reflexivity|]. intros k0 [<-|[]]. lia.
      * intros [[<-|[]] _]. reflexivity.
Qed.

Lemma is_least_unique : forall q a b, is_least a q -> is_least b q -> a = b.
Proof. intros q a b [Ha La] [Hb Lb]. specialize (La _ Hb). specialize (Lb _ Ha). lia. Qed.

Lemma oz_eqb_eq : forall a b, oz_eqb a b = true <-> a = b.
Proof.
  intros [a|] [b|]; cbn; try (split; congruence).
  rewrite Z.eqb_eq. split; congruence.
Qed.

Lemma is_min_true : forall q n, is_min q n = true <-> qmin q = Some n.
Proof. intros. unfold is_min. apply oz_eqb_eq. Qed.

(* removing a key that is not the least key does not change the least key *)
Lemma qmin_qremove_other : forall q n, qmin q <> Some n -> qmin (qremove n q) = qmin q.
Proof.
  intros q n Hne. destruct (qmin q) as [m|] eqn:E.
  - apply qmin_some. apply qmin_some in E. destruct E as [Hin Hle].
    assert (m <> n) by congruence.
    split; [apply in_keys_qremove; tauto|]. intros k Hk. apply in_keys_qremove in Hk. apply Hle; tauto.
  - apply qmin_none in E. subst q. reflexivity.
Qed.

(* inserting a key that does not become the least key does not change the least key *)
Lemma qmin_qinsert_other : forall q n c, qmin (qinsert n c q) <> Some n -> qmin (qinsert n c q) = qmin q.
Proof.
  intros q n c Hne. destruct (qmin (qinsert n c q)) as [m|] eqn:E.
  - apply qmin_some in E. destruct E as [Hin Hle]. assert (m <> n) by congruence.
    symmetry. apply qmin_some. unfold qinsert in Hin, Hle. cbn [keys map In fst] in Hin, Hle.
    destruct Hin as [Hin|Hin]; [congruence|]. apply in_keys_qremove in Hin.
    split; [tauto|]. intros k Hk. destruct (Z.eq_dec k n) as [->|Hkn].
    + apply Hle. left; reflexivity.
    + apply Hle. right. apply in_keys_qremove. tauto.
  - apply qmin_none in E. discriminate.
Qed.

(* ---------- tactics ---------- *)
Ltac inv_step H :=
  unfold step in H; cbv zeta in H;
  repeat match type of H with
  | (match ?x with _ => _ end) = Some _ => destruct x eqn:?; try discriminate H
  | (if ?x then _ else _) = Some _ => destruct x eqn:?; try discriminate H
  end;
  try (injection H as <-).

Ltac upd_cases :=
  repeat match goal with
  | H : context [upd _ ?i _ ?j] |- _ => unfold upd in H; destruct (Nat.eqb_spec j i); subst
  | |- context [upd _ ?i _ ?j] => unfold upd; destruct (Nat.eqb_spec j i); subst
  end.

(* ---------- the wake-up invariant ---------- *)
Definition inv_wake (s : state) : Prop :=
  forall p seen m, p_acc (s_peers s p) = AWatch seen m ->
    seen <= s_ver s /\ (seen = s_ver s -> s_q s = [] \/ m = qmin (s_q s)).

Lemma bump_ge : forall b v, v <= bump b v.
Proof. intros [|] v; unfold bump; lia. Qed.

Lemma inv_wake_step : forall s a s', inv_wake s -> step s a = Some s' -> inv_wake s'.
Proof.
  intros s a s' Hinv Hstep p0 seen m Hacc.
  destruct a; inv_step Hstep;
    cbn [s_q s_ver s_peers s_reqs s_held s_sent s_dropped set_peer set_req with_acc p_acc] in *;
    upd_cases; cbn [p_acc with_acc] in *;
    try (exact (Hinv _ _ _ Hacc));
    try (match goal with H : p_acc _ = AWatch _ _ |- _ => rewrite H in Hacc end; exact (Hinv _ _ _ Hacc));
    try discriminate Hacc.
  all: try (injection Hacc as <- <-; split; [lia|tauto]).
  - (* RIns *)
    destruct (Hinv _ _ _ Hacc) as [Hle Heq].
    destruct (is_min (qinsert n (r, att) (s_q s)) n) eqn:Em; unfold bump.
    + split; [lia|]. intros ->. lia.
    + split; [lia|]. intros ->. right.
      assert (Hn : qmin (qinsert n (r, att) (s_q s)) <> Some n).
      { intros C. apply is_min_true in C. congruence. }
      rewrite (qmin_qinsert_other _ _ _ Hn).
      destruct (Heq eq_refl) as [Hq|Hq]; [|exact Hq].
      exfalso. apply Hn. rewrite Hq. reflexivity.
  - (* RWakeCancel *)
    destruct (Hinv _ _ _ Hacc) as [Hle Heq].
    destruct (is_min (s_q s) n) eqn:Em; unfold bump.
    + split; [lia|]. intros ->. lia.
    + split; [lia|]. intros ->.
      assert (Hn : qmin (s_q s) <> Some n).
      { intros C. apply is_min_true in C. congruence. }
      destruct (Heq eq_refl) as [Hq|Hq].
      * left. rewrite Hq. reflexivity.
      * right. rewrite (qmin_qremove_other _ _ Hn). exact Hq.
  - (* ATake success, other peer *)
    destruct (Hinv _ _ _ Hacc) as [Hle Heq].
    destruct (qremove n (s_q s)) eqn:Eq; cbn [qempty negb bump].
    + split; [lia|]. intros _. left; reflexivity.
    + split; [lia|]. intros ->. lia.
Qed.

(* ---------- channel accounting ---------- *)
Definition places (s : state) : list chan :=
  map snd (s_q s) ++ map h_chan (s_held s) ++ s_sent s ++ s_dropped s.

Definition fresh_ok (s : state) (c : chan) : Prop :=
  match r_st (s_reqs s (fst c)) with
  | RNone => False
  | RInsert _ att => (snd c < att)%nat
  | RWait _ att => (snd c <= att)%nat
  | RDone _ => True
  end.

Definition inv_acct (s : state) : Prop :=
  NoDup (keys (s_q s)) /\ NoDup (places s) /\ (forall c, In c (places s) -> fresh_ok s c).

Lemma qremove_absent : forall n q, qlookup n q = None -> qremove n q = q.
Proof.
  intros n q. induction q as [|[k c] q IH]; cbn [qlookup qremove]; [reflexivity|].
  destruct (Z.eqb_spec k n); [discriminate|]. intros H. rewrite IH; auto.
Qed.

Lemma qremove_perm : forall n q c, NoDup (keys q) -> qlookup n q = Some c ->
  Permutation (map snd q) (c :: map snd (qremove n q)).
Proof.
  intros n q c. unfold keys. induction q as [|[k c0] q IH]; cbn [qlookup qremove map fst snd]; [discriminate|].
  intros Hnd Hl. inversion Hnd as [|? ? Hnin Hnd']; subst.
  destruct (Z.eqb_spec k n) as [->|Hne].
  - injection Hl as ->. rewrite qremove_absent; [reflexivity|]. apply qlookup_none. exact Hnin.
  - cbn [map snd]. rewrite (IH Hnd' Hl). apply perm_swap.
Qed.

Lemma nodup_keys_qremove : forall n q, NoDup (keys q) -> NoDup (keys (qremove n q)).
Proof.
  intros n q. unfold keys. induction q as [|[k c] q IH]; cbn [qremove map fst]; intros H; [constructor|].
  inversion H as [|? ? Hnin Hnd]; subst. destruct (Z.eqb_spec k n); [auto|].
  cbn [map fst]. constructor; [|auto]. intros C. apply (in_keys_qremove n q k) in C. tauto.
Qed.

Lemma nodup_keys_qinsert : forall n c q, NoDup (keys q) -> NoDup (keys (qinsert n c q)).
Proof.
  intros n c q H. unfold qinsert. cbn [keys map fst]. constructor.
  - intros C. apply (in_keys_qremove n q n) in C. tauto.
  - apply nodup_keys_qremove. exact H.
Qed.

Lemma take_pth_perm : forall p i l e l', take_pth p i l = Some (e, l') ->
  Permutation l (e :: l') /\ h_peer e = p.
Proof.
  intros p i l. revert i. induction l as [|x l IH]; intros i e l'; cbn [take_pth]; [discriminate|].
  destruct (Nat.eqb_spec (h_peer x) p) as [Hp|Hp].
  - destruct i as [|i].
    + intros H; injection H as <- <-. split; [reflexivity|exact Hp].
    + destruct (take_pth p i l) as [[y r]|] eqn:E; [|discriminate]. intros H; injection H as <- <-.
      destruct (IH _ _ _ E) as [Hperm Hpe]. split; [|exact Hpe].
      rewrite Hperm. apply perm_swap.
  - destruct (take_pth p i l) as [[y r]|] eqn:E; [|discriminate]. intros H; injection H as <- <-.
    destruct (IH _ _ _ E) as [Hperm Hpe]. split; [|exact Hpe].
    rewrite Hperm. apply perm_swap.
Qed.

Lemma filter_partition_perm : forall {A} (f : A -> bool) l,
  Permutation l (filter f l ++ filter (fun x => negb (f x)) l).
Proof.
  intros A f l. induction l as [|x l IH]; cbn [filter]; [reflexivity|].
  destruct (f x); cbn [negb app].
  - constructor. exact IH.
  - apply Permutation_cons_app. exact IH.
Qed.

(* moves between the four parts *)
Lemma move_A_D : forall (A A' B C D : list chan) x, Permutation A (x :: A') ->
  Permutation (A ++ B ++ C ++ D) (A' ++ B ++ C ++ x :: D).
Proof.
  intros. rewrite H. cbn [app]. rewrite !app_assoc. apply Permutation_cons_app. reflexivity.
Qed.
Lemma move_A_B : forall (A A' B C D : list chan) x, Permutation A (x :: A') ->
  Permutation (A ++ B ++ C ++ D) (A' ++ (B ++ [x]) ++ C ++ D).
Proof.
  intros. rewrite H. cbn [app]. rewrite <- (app_assoc B [x]). cbn [app].
  rewrite (app_assoc A' B (C ++ D)), (app_assoc A' B (x :: C ++ D)).
  apply Permutation_cons_app. reflexivity.
Qed.
Lemma move_B_C : forall (A B B' C D : list chan) x, Permutation B (x :: B') ->
  Permutation (A ++ B ++ C ++ D) (A ++ B' ++ (x :: C) ++ D).
Proof.
  intros. rewrite H. apply Permutation_app_head. cbn [app]. apply Permutation_cons_app. reflexivity.
Qed.
Lemma move_B_D : forall (A B B' C D : list chan) x, Permutation B (x :: B') ->
  Permutation (A ++ B ++ C ++ D) (A ++ B' ++ C ++ x :: D).
Proof.
  intros. rewrite H. apply Permutation_app_head. cbn [app]. rewrite !app_assoc.
  apply Permutation_cons_app. reflexivity.
Qed.
Lemma move_B_D_many : forall (A B B' C D X : list chan), Permutation B (X ++ B') ->
  Permutation (A ++ B ++ C ++ D) (A ++ B' ++ C ++ X ++ D).
Proof.
  intros. rewrite H. apply Permutation_app_head. rewrite <- app_assoc.
  rewrite (app_assoc B' C D), (app_assoc B' C (X ++ D)). apply Permutation_app_swap_app.
Qed.

Lemma acct_transport : forall s s', NoDup (keys (s_q s')) ->
  (forall c, fresh_ok s c -> fresh_ok s' c) ->
  Permutation (places s) (places s') -> inv_acct s -> inv_acct s'.
Proof.
  intros s s' Hk Hr Hp (_ & Hnd & Hfr). split; [exact Hk|]. split.
  - eapply Permutation_NoDup; eassumption.
  - intros c Hc. apply Hr. apply Hfr. eapply Permutation_in; [symmetry; exact Hp|exact Hc].
Qed.

Ltac req_only r :=
  let c := fresh "c" in let Hc := fresh "Hc" in
  intros c Hc; unfold fresh_ok in *; cbn [s_reqs set_req r_st] in *; unfold upd;
  let Hcr := fresh "Hcr" in
  destruct (Nat.eqb_spec (fst c) r) as [Hcr|]; [|exact Hc]; rewrite Hcr in Hc;
  match goal with H : r_st (s_reqs _ r) = _ |- _ => rewrite H in Hc end; cbn [r_st]; try exact I; try lia; try exact Hc.

Lemma inv_acct_step : forall s a s', inv_acct s -> step s a = Some s' -> inv_acct s'.
Proof.
  intros s a s' Hinv Hstep. pose proof Hinv as (Hk & Hnd & Hfr).
  destruct a; inv_step Hstep; try exact Hinv.
  - (* EReq *) apply (acct_transport s); [exact Hk| |reflexivity|exact Hinv]. req_only r.
  - (* ECancel *) apply (acct_transport s); [exact Hk| |reflexivity|exact Hinv]. req_only r.
  - apply (acct_transport s); [exact Hk| |reflexivity|exact Hinv]. req_only r.
  - apply (acct_transport s); [exact Hk| |reflexivity|exact Hinv]. req_only r.
  - (* ESucceed *)
    match goal with H : take_pth _ _ _ = Some _ |- _ => apply take_pth_perm in H; destruct H as [Hp _] end.
    apply (acct_transport s); [exact Hk|auto| |exact Hinv].
    unfold places; cbn [s_q s_held s_sent s_dropped]. apply move_B_C.
    apply (Permutation_map h_chan) in Hp. exact Hp.
  - (* EFail *)
    match goal with H : take_pth _ _ _ = Some _ |- _ => apply take_pth_perm in H; destruct H as [Hp _] end.
    apply (acct_transport s); [exact Hk|auto| |exact Hinv].
    unfold places; cbn [s_q s_held s_sent s_dropped]. apply move_B_D.
    apply (Permutation_map h_chan) in Hp. exact Hp.
  - (* EDisc *)
    apply (acct_transport s); [exact Hk|auto| |exact Hinv].
    unfold places; cbn [s_q s_held s_sent s_dropped]. apply move_B_D_many.
    rewrite <- map_app. apply Permutation_map. unfold held_of. apply filter_partition_perm.
  - (* RIns *)
    assert (Hnew : ~ In (r, att) (places s)).
    { intros C. apply Hfr in C. unfold fresh_ok in C. cbn [fst snd] in C.
      match goal with H : r_st (s_reqs s r) = _ |- _ => rewrite H in C end. lia. }
    assert (Hperm : Permutation ((r, att) :: places s)
              (places {| s_q := qinsert n (r, att) (s_q s);
                         s_ver := bump (is_min (qinsert n (r, att) (s_q s)) n) (s_ver s);
                         s_peers := s_peers s;
                         s_reqs := upd (s_reqs s) r {| r_st := RWait n att; r_cancel := r_cancel (s_reqs s r) |};
                         s_held := s_held s; s_sent := s_sent s;
                         s_dropped := match qlookup n (s_q s) with
                                      | Some c0 => c0 :: s_dropped s
                                      | None => s_dropped s
                                      end |})).
    { unfold places; cbn [s_q s_held s_sent s_dropped qinsert map snd app]. constructor.
      destruct (qlookup n (s_q s)) as [c0|] eqn:El.
      - apply move_A_D. apply qremove_perm; assumption.
      - rewrite qremove_absent by assumption. reflexivity. }
    split; [cbn [s_q]; apply nodup_keys_qinsert; exact Hk|]. split.
    + eapply Permutation_NoDup; [exact Hperm|]. constructor; assumption.
    + intros c Hc. eapply Permutation_in in Hc; [|symmetry; exact Hperm].
      unfold fresh_ok; cbn [s_reqs]. unfold upd. destruct Hc as [<-|Hc].
      * cbn [fst snd]. rewrite Nat.eqb_refl. cbn [r_st]. lia.
      * apply Hfr in Hc. unfold fresh_ok in Hc. destruct (Nat.eqb_spec (fst c) r) as [Hcr|]; [|exact Hc].
        rewrite Hcr in Hc.
        match goal with H : r_st (s_reqs s r) = _ |- _ => rewrite H in Hc end. cbn [r_st]. lia.
  - (* RWakeSent *) apply (acct_transport s); [exact Hk| |reflexivity|exact Hinv]. req_only r.
  - (* RWakeDropped *) apply (acct_transport s); [exact Hk| |reflexivity|exact Hinv]. req_only r.
  - (* RWakeCancel *)
    apply (acct_transport s); [cbn [s_q]; apply nodup_keys_qremove; exact Hk| | |exact Hinv].
    + intros c Hc; unfold fresh_ok in *; cbn [s_reqs] in *; unfold upd.
      destruct (Nat.eqb_spec (fst c) r); [exact I|exact Hc].
    + unfold places; cbn [s_q s_held s_sent s_dropped].
      destruct (qlookup n (s_q s)) as [c0|] eqn:El.
      * apply move_A_D. apply qremove_perm; assumption.
      * rewrite qremove_absent by assumption. reflexivity.
  - (* ATake success *)
    apply (acct_transport s); [cbn [s_q]; apply nodup_keys_qremove; exact Hk|auto| |exact Hinv].
    unfold places; cbn [s_q s_held s_sent s_dropped].
    destruct (p_alive (s_peers s p)).
    + rewrite map_app. cbn [map h_chan]. apply move_A_B. apply qremove_perm; assumption.
    + apply move_A_D. apply qremove_perm; assumption.
Qed.

(* ---------- conservation: a waiting request's channel is always somewhere ---------- *)
Definition held_by (s : state) (p : nat) (n : Z) (c : chan) : Prop :=
  In {| h_peer := p; h_num := n; h_chan := c |} (s_held s).

Definition located (s : state) (n : Z) (c : chan) : Prop :=
  qlookup n (s_q s) = Some c \/ (exists p, held_by s p n c) \/ In c (s_sent s) \/ In c (s_dropped s).

Definition inv_cons (s : state) : Prop :=
  forall r n att, r_st (s_reqs s r) = RWait n att -> located s n (r, att).

Lemma hentry_eta : forall e, e = {| h_peer := h_peer e; h_num := h_num e; h_chan := h_chan e |}.
Proof. intros []; reflexivity. Qed.

Lemma located_step : forall s a s' n c, step s a = Some s' -> located s n c -> located s' n c.
Proof.
  intros s a s' n c Hstep Hloc.
  destruct a; inv_step Hstep; try exact Hloc;
    unfold located, held_by in *; cbn [s_q s_held s_sent s_dropped set_peer set_req] in *.
  - (* ESucceed *)
    match goal with H : take_pth _ _ _ = Some _ |- _ => apply take_pth_perm in H; destruct H as [Hp _] end.
    destruct Hloc as [H|[[pp H]|[H|H]]]; [tauto| |right; right; left; right; exact H|tauto].
    eapply Permutation_in in H; [|exact Hp]. destruct H as [H|H].
    + right; right; left; left. rewrite H. reflexivity.
    + right; left; exists pp; exact H.
  - (* EFail *)
    match goal with H : take_pth _ _ _ = Some _ |- _ => apply take_pth_perm in H; destruct H as [Hp _] end.
    destruct Hloc as [H|[[pp H]|[H|H]]]; [tauto| |tauto|right; right; right; right; exact H].
    eapply Permutation_in in H; [|exact Hp]. destruct H as [H|H].
    + right; right; right; left. rewrite H. reflexivity.
    + right; left; exists pp; exact H.
  - (* EDisc *)
    destruct Hloc as [H|[[pp H]|[H|H]]]; [tauto| |tauto|right; right; right; apply in_or_app; tauto].
    destruct (Nat.eqb_spec pp p) as [->|Hne].
    + right; right; right. apply in_or_app; left.
      replace c with (h_chan {| h_peer := p; h_num := n; h_chan := c |}) by reflexivity.
      apply in_map. unfold held_of. apply filter_In. split; [exact H|cbn; apply Nat.eqb_refl].
    + right; left; exists pp. apply filter_In. split; [exact H|]. cbn [h_peer].
      destruct (Nat.eqb_spec pp p); [contradiction|reflexivity].
  - (* RIns *)
    destruct Hloc as [H|[H|[H|H]]]; [| tauto | tauto |].
    + rewrite qlookup_qinsert. destruct (Z.eqb_spec n0 n) as [->|Hne].
      * rewrite H. right; right; right; left; reflexivity.
      * left; exact H.
    + right; right; right. destruct (qlookup n0 (s_q s)); [right|]; exact H.
  - (* RWakeCancel *)
    destruct Hloc as [H|[H|[H|H]]]; [| tauto | tauto |].
    + destruct (Z.eq_dec n n0) as [->|Hne].
      * rewrite H. right; right; right; left; reflexivity.
      * left. rewrite qlookup_qremove_ne by exact Hne. exact H.
    + right; right; right. destruct (qlookup n0 (s_q s)); [right|]; exact H.
  - (* ATake success *)
    destruct Hloc as [H|[[pp H]|[H|H]]]; [| | tauto |].
    + destruct (Z.eq_dec n n0) as [->|Hne].
      * assert (c = c0) by congruence. subst c0.
        destruct (p_alive (s_peers s p)).
        -- right; left; exists p. apply in_or_app; right; left; reflexivity.
        -- right; right; right; left; reflexivity.
      * left. rewrite qlookup_qremove_ne by exact Hne. exact H.
    + right; left; exists pp. destruct (p_alive (s_peers s p)); [apply in_or_app; left|]; exact H.
    + right; right; right. destruct (p_alive (s_peers s p)); [|right]; exact H.
Qed.

Lemma rwait_origin : forall s a s' r n att, step s a = Some s' -> r_st (s_reqs s' r) = RWait n att ->
  r_st (s_reqs s r) = RWait n att \/ (a = RIns r /\ r_st (s_reqs s r) = RInsert n att).
Proof.
  intros s a s' r n att Hstep Hr.
  destruct a; inv_step Hstep; try (left; exact Hr);
    cbn [s_reqs set_req set_peer] in Hr; unfold upd in Hr;
    match type of Hr with context [Nat.eqb r ?x] => destruct (Nat.eqb_spec r x) as [->|] end;
    try (left; exact Hr); cbn [r_st] in Hr; try discriminate Hr;
    try (left; congruence).
  injection Hr as <- <-. right. split; [reflexivity|assumption].
Qed.

Lemma inv_cons_step : forall s a s', inv_cons s -> step s a = Some s' -> inv_cons s'.
Proof.
  intros s a s' Hinv Hstep r n att Hr.
  destruct (rwait_origin _ _ _ _ _ _ Hstep Hr) as [H|[-> H]].
  - eapply located_step; [exact Hstep|]. apply Hinv. exact H.
  - unfold step in Hstep. cbv zeta in Hstep. rewrite H in Hstep. injection Hstep as <-.
    left. cbn [s_q]. rewrite qlookup_qinsert, Z.eqb_refl. reflexivity.
Qed.

(* ---------- invariants hold in every reachable state ---------- *)
Lemma inv_wake_init : inv_wake init.
Proof. intros p seen m H. cbn in H. discriminate. Qed.
Lemma inv_acct_init : inv_acct init.
Proof. split; [constructor|]. split; [constructor|]. intros c []. Qed.
Lemma inv_cons_init : inv_cons init.
Proof. intros r n att H. cbn in H. discriminate. Qed.

Lemma reachable_inv : forall s, reachable s -> inv_wake s /\ inv_acct s /\ inv_cons s.
Proof.
  apply reachable_ind.
  - split; [apply inv_wake_init|]. split; [apply inv_acct_init|apply inv_cons_init].
  - intros s a s' _ (H1 & H2 & H3) Hs. split; [eapply inv_wake_step; eassumption|].
    split; [eapply inv_acct_step; eassumption|eapply inv_cons_step; eassumption].
Qed.

(* ---------- list facts for uniqueness ---------- *)
Lemma nodup_app_inv : forall {A} (l1 l2 : list A), NoDup (l1 ++ l2) ->
  NoDup l1 /\ NoDup l2 /\ (forall x, In x l1 -> In x l2 -> False).
Proof.
  intros A l1 l2. induction l1 as [|a l1 IH]; cbn [app]; intros H.
  - split; [constructor|]. split; [exact H|]. intros x [].
  - inversion H as [|? ? Hnin Hnd]; subst. destruct (IH Hnd) as (H1 & H2 & H3).
    split; [constructor; [intros C; apply Hnin; apply in_or_app; tauto|exact H1]|].
    split; [exact H2|]. intros x [<-|Hx] Hx2; [apply Hnin; apply in_or_app; tauto|eauto].
Qed.

Lemma nodup_map_inj_in : forall {A B} (f : A -> B) l x y,
  NoDup (map f l) -> In x l -> In y l -> f x = f y -> x = y.
Proof.
  intros A B f l x y. induction l as [|a l IH]; cbn [map In]; intros Hnd Hx Hy Hf; [contradiction|].
  inversion Hnd as [|? ? Hnin Hnd']; subst.
  destruct Hx as [<-|Hx], Hy as [<-|Hy]; auto.
  - exfalso. apply Hnin. rewrite Hf. apply in_map. exact Hy.
  - exfalso. apply Hnin. rewrite <- Hf. apply in_map. exact Hx.
Qed.

Lemma places_parts : forall s, NoDup (places s) ->
  NoDup (map snd (s_q s)) /\ NoDup (map h_chan (s_held s)) /\ NoDup (s_sent s) /\ NoDup (s_dropped s) /\
  (forall c, In c (map snd (s_q s)) -> ~ In c (map h_chan (s_held s)) /\ ~ In c (s_sent s) /\ ~ In c (s_dropped s)) /\
  (forall c, In c (map h_chan (s_held s)) -> ~ In c (s_sent s) /\ ~ In c (s_dropped s)) /\
  (forall c, In c (s_sent s) -> ~ In c (s_dropped s)).
Proof.
  intros s H. unfold places in H.
  destruct (nodup_app_inv _ _ H) as (Ha & H1 & Hd1).
  destruct (nodup_app_inv _ _ H1) as (Hb & H2 & Hd2).
  destruct (nodup_app_inv _ _ H2) as (Hc & Hd & Hd3).
  repeat split; try assumption.
  - intros C. apply (Hd1 c H0). apply in_or_app; tauto.
  - intros C. apply (Hd1 c H0). apply in_or_app; right. apply in_or_app; tauto.
  - intros C. apply (Hd1 c H0). apply in_or_app; right. apply in_or_app; tauto.
  - intros C. apply (Hd2 c H0). apply in_or_app; tauto.
  - intros C. apply (Hd2 c H0). apply in_or_app; tauto.
Qed.

(* ---------- property theorems ---------- *)
Definition queued (s : state) (n : Z) (c : chan) : Prop := qlookup n (s_q s) = Some c.
Definition held_somewhere (s : state) (c : chan) : Prop := exists p n, held_by s p n c.

(* A waiting request is in exactly one of four places. *)
Theorem request_conserved : forall s r n att, reachable s -> r_st (s_reqs s r) = RWait n att ->
  let c := (r, att) in
  (queued s n c \/ (exists p, held_by s p n c) \/ In c (s_sent s) \/ In c (s_dropped s)) /\
  ~ (queued s n c /\ held_somewhere s c) /\
  ~ (queued s n c /\ (In c (s_sent s) \/ In c (s_dropped s))) /\
  ~ (held_somewhere s c /\ (In c (s_sent s) \/ In c (s_dropped s))) /\
  ~ (In c (s_sent s) /\ In c (s_dropped s)).
Proof.
  intros s r n att Hr Hw c. destruct (reachable_inv s Hr) as (_ & (_ & Hnd & _) & Hc).
  split; [exact (Hc _ _ _ Hw)|].
  destruct (places_parts s Hnd) as (_ & _ & _ & _ & Hq & Hh & Hs).
  assert (Hqin : queued s n c -> In c (map snd (s_q s))).
  { intros H. apply qlookup_in in H. apply (in_map snd) in H. exact H. }
  assert (Hhin : held_somewhere s c -> In c (map h_chan (s_held s))).
  { intros (p & n' & H). apply (in_map h_chan) in H. exact H. }
  repeat split.
  - intros [H1 H2]. apply (proj1 (Hq c (Hqin H1))). exact (Hhin H2).
  - intros [H1 [H2|H2]]; destruct (Hq c (Hqin H1)) as (_ & A & B); tauto.
  - intros [H1 [H2|H2]]; destruct (Hh c (Hhin H1)) as (A & B); tauto.
  - intros [H1 H2]. exact (Hs c H1 H2).
Qed.

(* A completion channel is never owned by two connections, nor twice by one. *)
Theorem no_double_accept : forall s p1 n1 p2 n2 c, reachable s ->
  held_by s p1 n1 c -> held_by s p2 n2 c -> p1 = p2 /\ n1 = n2.
Proof.
  intros s p1 n1 p2 n2 c Hr H1 H2. destruct (reachable_inv s Hr) as (_ & (_ & Hnd & _) & _).
  destruct (places_parts s Hnd) as (_ & Hh & _).
  assert (E := nodup_map_inj_in h_chan _ _ _ Hh H1 H2 eq_refl). injection E as -> ->. tauto.
Qed.

Theorem held_entries_distinct : forall s, reachable s -> NoDup (s_held s).
Proof.
  intros s Hr. destruct (reachable_inv s Hr) as (_ & (_ & Hnd & _) & _).
  destruct (places_parts s Hnd) as (_ & Hh & _). eapply NoDup_map_inv. exact Hh.
Qed.

(* One queue entry per number. *)
Theorem queue_keys_unique : forall s, reachable s -> NoDup (keys (s_q s)).
Proof. intros s Hr. destruct (reachable_inv s Hr) as (_ & (Hk & _) & _). exact Hk. Qed.

(* When the holder fails, times out (EFail) or disconnects (EDisc), the channel is dropped and the
   requester's next two moves put the number back into the queue. *)
Lemma take_pth_in : forall p i l e l', take_pth p i l = Some (e, l') -> In e l.
Proof.
  intros p i l e l' H. apply take_pth_perm in H. destruct H as [H _].
  eapply Permutation_in; [symmetry; exact H|left; reflexivity].
Qed.

Theorem failure_drops_channel : forall s p i e l' s',
  take_pth p i (s_held s) = Some (e, l') -> step s (EFail p i) = Some s' ->
  In (h_chan e) (s_dropped s') /\ s_held s' = l'.
Proof.
  intros s p i e l' s' Ht Hs. unfold step in Hs. rewrite Ht in Hs. injection Hs as <-.
  cbn. split; [left; reflexivity|reflexivity].
Qed.

Theorem disconnect_drops_all : forall s p s' n c,
  p_alive (s_peers s p) = true -> held_by s p n c -> step s (EDisc p) = Some s' ->
  In c (s_dropped s') /\ (forall n' c', ~ held_by s' p n' c').
Proof.
  intros s p s' n c Ha Hh Hs. unfold step in Hs. cbv zeta in Hs. rewrite Ha in Hs. injection Hs as <-.
  unfold held_by; cbn [s_dropped s_held]. split.
  - apply in_or_app; left.
    replace c with (h_chan {| h_peer := p; h_num := n; h_chan := c |}) by reflexivity.
    apply in_map. apply filter_In. split; [exact Hh|cbn; apply Nat.eqb_refl].
  - intros n' c' C. apply filter_In in C. destruct C as [_ C]. cbn in C. rewrite Nat.eqb_refl in C. discriminate.
Qed.

Lemma chan_mem_in : forall c l, chan_mem c l = true <-> In c l.
Proof.
  intros c l. induction l as [|x l IH]; cbn [chan_mem In]; [split; [discriminate|tauto]|].
  rewrite orb_true_iff, IH. unfold chan_eqb. rewrite andb_true_iff, !Nat.eqb_eq.
  destruct c, x; cbn [fst snd]. split; intros [H|H]; auto; [left; destruct H; congruence|left; injection H; auto].
Qed.

Theorem dropped_request_requeues : forall s r n att,
  r_st (s_reqs s r) = RWait n att -> In (r, att) (s_dropped s) ->
  exists s1 s2, step s (RWakeDropped r) = Some s1 /\ step s1 (RIns r) = Some s2 /\
    qlookup n (s_q s2) = Some (r, S att) /\ r_st (s_reqs s2 r) = RWait n (S att).
Proof.
  intros s r n att Hw Hd. apply chan_mem_in in Hd.
  eexists. eexists. split; [unfold step; cbv zeta; rewrite Hw, Hd; reflexivity|].
  split; [unfold step; cbv zeta; cbn [s_reqs set_req]; unfold upd; rewrite Nat.eqb_refl; cbn [r_st]; reflexivity|].
  cbn [s_q s_reqs]. split; [rewrite qlookup_qinsert, Z.eqb_refl; reflexivity|].
  unfold upd. rewrite Nat.eqb_refl. reflexivity.
Qed.

(* ---------- who may change an acceptor / the held calls ---------- *)
Ltac peer_cases Hacc :=
  cbn [s_q s_ver s_peers s_reqs s_held s_sent s_dropped set_peer set_req] in *;
  unfold upd in Hacc;
  try match type of Hacc with context [Nat.eqb ?j ?i] => destruct (Nat.eqb_spec j i); subst end;
  cbn [p_acc with_acc p_avail p_alive] in *.

(* AChosen n is entered only through AAvail, which requires the announced range to contain n and
   n to be the number read at the last observation. *)
Lemma chosen_origin : forall s a s' p n, step s a = Some s' ->
  p_acc (s_peers s' p) = AChosen n ->
  p_acc (s_peers s p) = AChosen n \/
  (a = AAvail p /\ contains (p_avail (s_peers s p)) n = true /\
   exists seen, p_acc (s_peers s p) = AWatch seen (Some n)).
Proof.
  intros s a s' p n Hstep Hacc.
  destruct a; inv_step Hstep; try (left; exact Hacc); peer_cases Hacc;
    try (left; exact Hacc); try (left; congruence); try discriminate Hacc.
  - injection Hacc as <-. right. split; [reflexivity|]. split; [assumption|]. eexists; eassumption.
Qed.

(* A new observation reads the version and the lowest key of the queue at that moment. *)
Lemma watch_origin : forall s a s' p seen m, step s a = Some s' ->
  p_acc (s_peers s' p) = AWatch seen m ->
  p_acc (s_peers s p) = AWatch seen m \/
  ((a = AStart p \/ a = AWake p \/ a = ATake p) /\ seen = s_ver s' /\ m = qmin (s_q s') /\
   s_q s' = s_q s).
Proof.
  intros s a s' p seen m Hstep Hacc.
  destruct a; inv_step Hstep; try (left; exact Hacc); peer_cases Hacc;
    try (left; exact Hacc); try (left; congruence); try discriminate Hacc.
  - injection Hacc as <- <-. right. repeat split; auto.
  - injection Hacc as <- <-. right. repeat split; auto.
  - injection Hacc as <- <-. right. repeat split; auto.
Qed.

(* A call enters the held list only through a successful ATake by that connection, in state AChosen n. *)
Lemma held_origin : forall s a s' p n c, step s a = Some s' -> held_by s' p n c ->
  held_by s p n c \/
  (a = ATake p /\ p_acc (s_peers s p) = AChosen n /\ qlookup n (s_q s) = Some c /\
   p_alive (s_peers s p) = true).
Proof.
  intros s a s' p n c Hstep Hh. unfold held_by in *.
  destruct a; inv_step Hstep; try (left; exact Hh);
    cbn [s_held set_peer set_req] in *; try (left; exact Hh).
  - match goal with H : take_pth _ _ _ = Some _ |- _ => apply take_pth_perm in H; destruct H as [Hp _] end.
    left. eapply Permutation_in; [symmetry; exact Hp|right; exact Hh].
  - match goal with H : take_pth _ _ _ = Some _ |- _ => apply take_pth_perm in H; destruct H as [Hp _] end.
    left. eapply Permutation_in; [symmetry; exact Hp|right; exact Hh].
  - left. apply filter_In in Hh. tauto.
  - destruct (p_alive (s_peers s p0)) eqn:Ea; [|left; exact Hh].
    apply in_app_or in Hh. destruct Hh as [Hh|[Hh|[]]]; [left; exact Hh|].
    injection Hh as <- <- <-. right. repeat split; assumption.
Qed.

(* ---------- histories ---------- *)
Inductive hreach : list state -> state -> Prop :=
| hreach_init : hreach [] init
| hreach_step : forall h s a s', hreach h s -> step s a = Some s' -> hreach (s :: h) s'.

Lemma hreach_reachable : forall h s, hreach h s -> reachable s.
Proof. induction 1; [apply reachable_init|eapply reachable_step; eassumption]. Qed.

Lemma reachable_hreach : forall s, reachable s -> exists h, hreach h s.
Proof.
  apply reachable_ind; [exists []; constructor|].
  intros s a s' _ [h Hh] Hs. exists (s :: h). econstructor; eassumption.
Qed.

(* in the list of states [hs] (most recent first): n was the lowest requested number at some moment *)
Definition was_lowest (n : Z) (hs : list state) : Prop := exists so, In so hs /\ qmin (s_q so) = Some n.
(* ... and at that moment or later peer p's announced range contained n *)
Definition lowest_then_announced (p : nat) (n : Z) (hs : list state) : Prop :=
  exists hs1 sc hs2, hs = hs1 ++ sc :: hs2 /\ contains (p_avail (s_peers sc p)) n = true /\
                     was_lowest n (sc :: hs2).

Lemma lta_cons : forall p n hs x, lowest_then_announced p n hs -> lowest_then_announced p n (x :: hs).
Proof. intros p n hs x (hs1 & sc & hs2 & -> & H). exists (x :: hs1), sc, hs2. split; [reflexivity|exact H]. Qed.
Lemma wl_cons : forall n hs x, was_lowest n hs -> was_lowest n (x :: hs).
Proof. intros n hs x (so & H1 & H2). exists so. split; [right; exact H1|exact H2]. Qed.

Definition hist_inv (hs : list state) (s : state) : Prop :=
  (forall p seen n, p_acc (s_peers s p) = AWatch seen (Some n) -> was_lowest n hs) /\
  (forall p n, p_acc (s_peers s p) = AChosen n -> lowest_then_announced p n hs) /\
  (forall p n c, held_by s p n c -> lowest_then_announced p n hs).

Lemma hist_inv_holds : forall h s, hreach h s -> hist_inv (s :: h) s.
Proof.
  induction 1 as [|h s a s' Hh IH Hs].
  - split; [|split]; intros; cbn in *; try discriminate; contradiction.
  - destruct IH as (I1 & I2 & I3). split; [|split].
    + intros p seen n Hacc. destruct (watch_origin _ _ _ _ _ _ Hs Hacc) as [Ho|(_ & _ & Hm & _)].
      * apply wl_cons. eapply I1; exact Ho.
      * exists s'. split; [left; reflexivity|symmetry; exact Hm].
    + intros p n Hacc. destruct (chosen_origin _ _ _ _ _ Hs Hacc) as [Ho|(_ & Hc & seen & Hw)].
      * apply lta_cons. eapply I2; exact Ho.
      * exists [s'], s, h. split; [reflexivity|]. split; [exact Hc|]. eapply I1; exact Hw.
    + intros p n c Hheld. destruct (held_origin _ _ _ _ _ _ Hs Hheld) as [Ho|(_ & Hc & _)].
      * apply lta_cons. eapply I3; exact Ho.
      * apply lta_cons. eapply I2; exact Hc.
Qed.

(* only_announced + lowest_first, history form *)
Theorem handed_only_lowest_and_announced : forall h s p n c, hreach h s -> held_by s p n c ->
  lowest_then_announced p n (s :: h).
Proof. intros h s p n c Hh Hheld. destruct (hist_inv_holds _ _ Hh) as (_ & _ & I3). eapply I3; exact Hheld. Qed.

(* ---------- no lost wake-up ---------- *)
Theorem no_lost_wakeup : forall s p seen m, reachable s ->
  p_acc (s_peers s p) = AWatch seen m ->
  seen <= s_ver s /\ (seen = s_ver s -> s_q s <> [] -> m = qmin (s_q s)).
Proof.
  intros s p seen m Hr Hacc. destruct (reachable_inv s Hr) as (Hw & _).
  destruct (Hw _ _ _ Hacc) as [H1 H2]. split; [exact H1|]. intros E Hne. destruct (H2 E); [contradiction|assumption].
Qed.

(* lowest first, state form: an acceptor that has not been signalled since its observation chooses the
   current lowest number *)
Theorem lowest_first_fresh : forall s p seen n, reachable s ->
  p_acc (s_peers s p) = AWatch seen (Some n) -> seen = s_ver s -> s_q s <> [] ->
  qmin (s_q s) = Some n.
Proof.
  intros s p seen n Hr Hacc E Hne. destruct (no_lost_wakeup _ _ _ _ Hr Hacc) as [_ H]. symmetry. auto.
Qed.

Lemma in_keys_lookup : forall n q, In n (keys q) -> exists c, qlookup n q = Some c.
Proof.
  intros n q H. destruct (qlookup n q) eqn:E; [eauto|]. apply qlookup_none in E. contradiction.
Qed.

Definition acceptor_action (p : nat) (a : action) : Prop :=
  a = AStart p \/ a = AWake p \/ a = AAvail p \/ a = ATake p.

(* If the lowest requested number n is announced by live peer p whose acceptor is inside accept_block
   (or has a reserved call), then moves of that acceptor alone hand n to p. *)
Theorem progress_step : forall s p n, reachable s ->
  qmin (s_q s) = Some n -> p_alive (s_peers s p) = true -> contains (p_avail (s_peers s p)) n = true ->
  ((p_acc (s_peers s p) = AIdle /\ p_permits (s_peers s p) <> O) \/
   exists seen m, p_acc (s_peers s p) = AWatch seen m) ->
  exists l s' c, Forall (acceptor_action p) l /\ run s l = Some s' /\
                 qlookup n (s_q s) = Some c /\ held_by s' p n c.
Proof.
  intros s p n Hr Hmin Hal Hav Hst.
  assert (Hin : In n (keys (s_q s))) by (apply qmin_some in Hmin; apply Hmin).
  destruct (in_keys_lookup _ _ Hin) as [c Hc].
  assert (Hne : s_q s <> []) by (intros E; rewrite E in Hin; contradiction).
  (* the last two moves, from a fresh observation *)
  assert (Hfin : forall s1, s_q s1 = s_q s -> p_alive (s_peers s1 p) = true ->
            p_avail (s_peers s1 p) = p_avail (s_peers s p) ->
            (exists seen, p_acc (s_peers s1 p) = AWatch seen (Some n)) ->
            exists s', run s1 [AAvail p; ATake p] = Some s' /\ held_by s' p n c).
  { intros s1 Hq Ha1 Hv1 [seen Hw]. eexists. split.
    - cbn [run]. unfold step at 1. cbv zeta. rewrite Hw, Hv1, Hav.
      unfold step. cbv zeta. cbn [s_peers set_peer s_q]. unfold upd. rewrite Nat.eqb_refl.
      cbn [p_acc with_acc]. rewrite Hq, Hc. reflexivity.
    - unfold held_by. cbn [s_held p_alive with_acc]. rewrite Ha1. apply in_or_app; right; left; reflexivity. }
  destruct Hst as [[Hidle Hperm]|(seen & m & Hw)].
  - destruct (p_permits (s_peers s p)) as [|k] eqn:Ek; [contradiction|].
    destruct (Hfin (set_peer s p {| p_alive := true; p_avail := p_avail (s_peers s p); p_permits := k;
                                    p_acc := AWatch (s_ver s) (qmin (s_q s)) |})) as (s' & Hrun & Hh).
    + reflexivity.
    + cbn [s_peers set_peer]. unfold upd. rewrite Nat.eqb_refl. reflexivity.
    + cbn [s_peers set_peer]. unfold upd. rewrite Nat.eqb_refl. reflexivity.
    + exists (s_ver s). cbn [s_peers set_peer]. unfold upd. rewrite Nat.eqb_refl. cbn [p_acc]. rewrite Hmin. reflexivity.
    + exists [AStart p; AAvail p; ATake p], s', c. split.
      * repeat constructor; unfold acceptor_action; tauto.
      * split; [|split; assumption]. cbn [run]. unfold step at 1. cbv zeta. rewrite Hal, Hidle, Ek. exact Hrun.
  - destruct (Z.eq_dec seen (s_ver s)) as [E|E].
    + assert (m = Some n).
      { destruct (no_lost_wakeup _ _ _ _ Hr Hw) as [_ H]. rewrite (H E Hne). exact Hmin. }
      subst m. destruct (Hfin s eq_refl Hal eq_refl (ex_intro _ seen Hw)) as (s' & Hrun & Hh).
      exists [AAvail p; ATake p], s', c. split; [repeat constructor; unfold acceptor_action; tauto|].
      split; [exact Hrun|split; assumption].
    + destruct (Hfin (set_peer s p (with_acc (s_peers s p) (AWatch (s_ver s) (qmin (s_q s)))))) as (s' & Hrun & Hh).
      * reflexivity.
      * cbn [s_peers set_peer]. unfold upd. rewrite Nat.eqb_refl. exact Hal.
      * cbn [s_peers set_peer]. unfold upd. rewrite Nat.eqb_refl. reflexivity.
      * exists (s_ver s). cbn [s_peers set_peer]. unfold upd. rewrite Nat.eqb_refl. cbn [p_acc with_acc]. rewrite Hmin. reflexivity.
      * exists [AWake p; AAvail p; ATake p], s', c. split; [repeat constructor; unfold acceptor_action; tauto|].
        split; [|split; assumption]. cbn [run]. unfold step at 1. cbv zeta. rewrite Hw.
        destruct (Z.eqb_spec seen (s_ver s)); [contradiction|]. exact Hrun.
Qed.

(* ---------- the trace replayer only ever takes model steps ---------- *)
Definition reaches (s s' : state) : Prop := exists l, run s l = Some s'.
Lemma reaches_refl : forall s, reaches s s.
Proof. intros s; exists []; reflexivity. Qed.
Lemma reaches_trans : forall a b c, reaches a b -> reaches b c -> reaches a c.
Proof. intros a b c [l1 H1] [l2 H2]. exists (l1 ++ l2). rewrite run_app, H1. exact H2. Qed.
Lemma reaches_step : forall s a s', step s a = Some s' -> reaches s s'.
Proof. intros s a s' H. exists [a]. cbn [run]. rewrite H. reflexivity. Qed.
Lemma reaches_run : forall s l s', run s l = Some s' -> reaches s s'.
Proof. intros s l s' H. exists l. exact H. Qed.
Lemma reaches_steps : forall s1 os l s', reaches s1 s1 ->
  (forall s2, os = Some s2 -> reaches s1 s2) -> steps os l = Some s' -> reaches s1 s'.
Proof.
  intros s1 os l s' _ H Hs. destruct os as [s2|]; [|discriminate].
  eapply reaches_trans; [apply H; reflexivity|]. eapply reaches_run; exact Hs.
Qed.

Ltac rsolve :=
  match goal with
  | H : step ?s _ = Some _ |- reaches ?s _ => exact (reaches_step _ _ _ H)
  | H : run ?s _ = Some _ |- reaches ?s _ => exact (reaches_run _ _ _ H)
  | H : Some _ = Some _ |- reaches _ _ => injection H as <-; apply reaches_refl
  | |- reaches ?s ?s => apply reaches_refl
  end.

Lemma ensure_queued_reaches : forall s n nr s', ensure_queued s n nr = Some s' -> reaches s s'.
Proof.
  intros s n nr s' H. unfold ensure_queued in H.
  destruct (qlookup n (s_q s)); [injection H as <-; apply reaches_refl|].
  destruct (find_pending s n (seq 0 nr)); [|discriminate]. eapply reaches_run; exact H.
Qed.

Lemma take_now_reaches : forall s2 p n s', take_now s2 p n = Some s' -> reaches s2 s'.
Proof.
  intros s2 p n s' H2. unfold take_now in H2. cbv zeta in H2.
  match type of H2 with match (if ?d then _ else _) with _ => _ end = _ => destruct d end.
  - destruct (step s2 (AAvail p)) as [s3|] eqn:E3; [|discriminate].
    destruct (_ && _); [|discriminate]. eapply reaches_trans; rsolve.
  - destruct (step s2 (AWake p)) as [s2'|] eqn:E3; [|discriminate]. cbn [steps] in H2.
    destruct (run s2' [AAvail p]) as [s3|] eqn:E4; [|discriminate].
    destruct (_ && _); [|discriminate].
    eapply reaches_trans; [rsolve|]. eapply reaches_trans; rsolve.
Qed.

Lemma replay_take_reaches : forall s p n nr live s', replay_take s p n nr live = Some s' -> reaches s s'.
Proof.
  intros s p n nr live s' H. unfold replay_take in H.
  destruct (ensure_queued s n nr) as [s1|] eqn:E1; [|discriminate].
  apply ensure_queued_reaches in E1. eapply reaches_trans; [exact E1|]. clear E1.
  cbv zeta in H. destruct (negb _); [discriminate|].
  destruct (p_acc (s_peers s1 p)); try (eapply take_now_reaches; exact H).
  destruct (step s1 (AStart p)) as [s2|] eqn:E2; [|discriminate].
  eapply reaches_trans; [rsolve|eapply take_now_reaches; exact H].
Qed.

Lemma replay_ev_reaches : forall s nr e s', replay_ev s nr e = Some s' -> reaches s s'.
Proof.
  intros s nr e s' H. destruct e as [p n|p n|r [|]]; cbn [replay_ev] in H.
  - eapply replay_take_reaches; exact H.
  - eapply replay_take_reaches; exact H.
  - rsolve.
  - destruct (r_st (s_reqs s r)); try rsolve.
    destruct (step s (RIns r)) as [s1|] eqn:E; [|discriminate]. cbn [steps] in H.
    eapply reaches_trans; rsolve.
Qed.

Lemma replay_evs_reaches : forall es s nr s', replay_evs s nr es = Some s' -> reaches s s'.
Proof.
  induction es as [|e es IH]; intros s nr s' H; cbn [replay_evs] in H; [injection H as <-; apply reaches_refl|].
  destruct (replay_ev s nr e) as [s1|] eqn:E; [|discriminate].
  eapply reaches_trans; [eapply replay_ev_reaches; exact E|eapply IH; exact H].
Qed.

Definition acc_reaches (s : state) (acc : option (state * bool)) : Prop :=
  match acc with Some (s', _) => reaches s s' | None => True end.

Lemma settle_req_reaches : forall s acc r, acc_reaches s acc -> acc_reaches s (settle_req acc r).
Proof.
  intros s [[s0 st]|] r H; cbn [settle_req acc_reaches] in *; [|exact I].
  match goal with |- context [match ?e with Some _ => _ | None => None end] => destruct e as [s1|] eqn:E end; [|exact I].
  cbn [acc_reaches]. eapply reaches_trans; [exact H|].
  destruct (r_st (s_reqs s0 r)); try rsolve.
  destruct (_ && _); [|rsolve].
  destruct (step s0 (RWakeDropped r)) as [s2|] eqn:E2; [|discriminate]. cbn [steps] in E.
  eapply reaches_trans; rsolve.
Qed.

Lemma settle_peer_reaches : forall s acc p, acc_reaches s acc -> acc_reaches s (settle_peer acc p).
Proof.
  intros s [[s0 st]|] p H; cbn [settle_peer acc_reaches] in *; [|exact I].
  match goal with |- context [match ?e with Some _ => _ | None => None end] => destruct e as [s1|] eqn:E end; [|exact I].
  cbn [acc_reaches]. eapply reaches_trans; [exact H|].
  cbv zeta in E. destruct (p_alive (s_peers s0 p)); destruct (p_acc (s_peers s0 p)); try rsolve.
  - destruct (p_permits (s_peers s0 p)); rsolve.
  - destruct (_ =? _); rsolve.
Qed.

Lemma fold_reaches : forall (f : option (state * bool) -> nat -> option (state * bool)) s l acc,
  (forall acc x, acc_reaches s acc -> acc_reaches s (f acc x)) ->
  acc_reaches s acc -> acc_reaches s (fold_left f l acc).
Proof. intros f s l. induction l as [|x l IH]; intros acc Hf H; cbn [fold_left]; auto. Qed.

Lemma settle_reaches : forall s np nr s' b, settle s np nr = Some (s', b) -> reaches s s'.
Proof.
  intros s np nr s' b H. unfold settle in H.
  assert (A : acc_reaches s (fold_left settle_peer (seq 0 np) (fold_left settle_req (seq 0 nr) (Some (s, false))))).
  { apply fold_reaches; [intros; apply settle_peer_reaches; assumption|].
    apply fold_reaches; [intros; apply settle_req_reaches; assumption|]. apply reaches_refl. }
  rewrite H in A. exact A.
Qed.

(* Every state against which the implementation's quiescent state is compared is a reachable state
   of the model, reached by a model execution that contains the reported visible events. *)
Theorem replay_step_reachable : forall s np nr x s' b,
  reachable s -> replay_step s np nr x = ROk s' b -> reachable s'.
Proof.
  intros s np nr x s' b [l0 Hl0] H. unfold replay_step in H.
  destruct (run s (fst x)) as [s1|] eqn:E1; [|discriminate].
  destruct (replay_evs s1 nr (snd x)) as [s2|] eqn:E2; [|discriminate].
  destruct (settle s2 np nr) as [[s3 st]|] eqn:E3; [|discriminate]. injection H as <- <-.
  assert (R : reaches s s3).
  { eapply reaches_trans; [eapply reaches_run; exact E1|].
    eapply reaches_trans; [eapply replay_evs_reaches; exact E2|eapply settle_reaches; exact E3]. }
  destruct R as [l Hl]. exists (l0 ++ l). rewrite run_app, Hl0. exact Hl.
Qed.
