(* C06 on the protocol model, part 5b: (1) recorded commit views of honest keys come from
   votes on the network (a reachability invariant); (2) certificates versus the durable
   (view, phase) of the honest nodes, through Layers A and B: no commit certificate for a view
   in which all honest nodes still wait, no timeout certificate for a view nobody timed out in;
   honest signers, weights; (3) the two node-level step lemmas of a view whose leader's single
   proposal is on the network: stepA (the round in which the proposal is delivered: everybody
   votes for it) and stepB (the round in which the votes are delivered: a node still
   collecting keeps every honest bit it counted, or has reached the quorum, stored the block
   and entered the next view). *)
From Coq Require Import ZArith List Bool Lia.
From EC Require Import Lib.Outcome Lib.U64 Lib.ListW Lib.Obs Model.Msgs Model.Replica Model.ReplicaRun
  Model.Protocol Model.ProtocolSync Proofs.QCProofs Proofs.ReplicaMono Proofs.ReplicaLive
  Proofs.ReplicaCrash Proofs.ProtocolLive Proofs.ProtocolLiveInv Proofs.ProtocolLiveCatch Proofs.ProtocolLiveNoStop.
From EC Require Proofs.ReplicaCaches Proofs.ReplicaJustified Proofs.TqcAssembly.
From EC Require Import Proofs.ProtocolRefinesAbs Proofs.ProtocolRefinesStep.
From EC Require Proofs.ProtocolRefinesInv Proofs.ProtocolRefinesMain.
From EC Require Import Proofs.ProtocolLiveCommitStep.
Import ListNotations.
Open Scope Z_scope.
Module RC := ReplicaCaches.

(* ================================================================== *)
(* 1. recorded commit views of honest keys come from votes on the network *)
(* ================================================================== *)
Lemma rprologue_cc cfg s : r_commit_views (st_of (rprologue cfg s)) = r_commit_views s.
Proof. unfold rprologue. destruct (_ =? 0); [apply start_timeout_cc|reflexivity]. Qed.

Lemma node_boot_cv cfg d f n : r_commit_views (n_live (fst (node_boot cfg d f n))) = [].
Proof.
  unfold node_boot. pose proof (rprologue_cc cfg (rstart cfg d f n)) as H.
  destruct (rprologue cfg (rstart cfg d f n)) as [[s1 es] r]. destruct (apply_effects d n es).
  unfold st_of in H. cbn [fst n_live] in *. rewrite H. reflexivity.
Qed.

Lemma CV_nil hon soup s : r_commit_views s = [] -> CV hon soup s.
Proof. intros E h v _ Hg. rewrite E in Hg. discriminate. Qed.

Lemma in_app_l {A} (l l' : list A) x : In x l -> In x (l ++ l').
Proof. intros H. apply in_or_app. left. exact H. Qed.

Lemma node_crash_cv cfg nd i j applied x : node_crash cfg nd i j applied = Some x ->
  r_commit_views (n_live (fst x)) = [].
Proof.
  unfold node_crash. destruct (rstep_t cfg (n_live nd) i) as [[s' es] r].
  destruct (cut_at_persist es j applied) as [pre|]; [|discriminate].
  destruct (apply_effects (n_dur nd) (r_store_next (n_live nd)) pre) as [d' next'].
  pose proof (node_boot_cv cfg d' (r_store_first (n_live nd)) next') as H.
  destruct (node_boot cfg d' (r_store_first (n_live nd)) next') as [nd' es1].
  intros E. inversion E; subst x. exact H.
Qed.

Theorem preach_CV P s : preach P s -> forall k, n_alive (g_node s k) = true ->
  CV (honestb P) (g_soup s) (n_live (g_node s k)).
Proof.
  induction 1 as [|s s' Hr IH Hs]; intros k0 Hal0.
  - cbn [ginit g_node]. unfold boot0. apply CV_nil, node_boot_cv.
  - assert (Hinv : forall k, n_alive (g_node s k) = true -> RC.cache_inv (pcfg P k) (n_live (g_node s k))).
    { intros k Hal. destruct (preach_LI P s Hr k) as [_ HI]. destruct (HI Hal) as (Hc & _). exact Hc. }
    assert (Hstep : forall k i, n_alive (g_node s k) = true -> (forall m, i = IMsg m -> In m (g_soup s)) ->
              CV (honestb P) (g_soup s ++ sends_of k (snd (node_input (pcfg P k) (g_node s k) i)))
                 (n_live (fst (node_input (pcfg P k) (g_node s k) i)))).
    { intros k i Hal Hi. rewrite (node_input_live P k).
      eapply CV_mono; [intros m; apply in_app_l|].
      apply CV_step; [apply Hinv; exact Hal|apply IH; exact Hal|exact Hi]. }
    destruct Hs as [s k m Hk Hal Hin|s k Hk Hal|s k i j applied x Hk Hal Hci Hcr|s k Hk
                   |s k n h q Hk Hal Hv Hkn Hn Hh|s k p j Hk Hal Hnt|s m Ha];
      cbn [absorb add_msg g_node g_soup] in *; unfold set_node in *.
    + destruct (k0 =? k) eqn:E.
      * apply Hstep; [exact Hal|]. intros m' Em. inversion Em; subst m'. exact Hin.
      * eapply CV_mono; [intros m'; apply in_app_l|]. apply IH. exact Hal0.
    + destruct (k0 =? k) eqn:E.
      * apply Hstep; [exact Hal|]. intros m' Em. discriminate.
      * eapply CV_mono; [intros m'; apply in_app_l|]. apply IH. exact Hal0.
    + destruct (k0 =? k) eqn:E.
      * apply CV_nil. eapply node_crash_cv. exact Hcr.
      * eapply CV_mono; [intros m'; apply in_app_l|]. apply IH. exact Hal0.
    + destruct (k0 =? k) eqn:E.
      * apply CV_nil. unfold node_restart. apply node_boot_cv.
      * eapply CV_mono; [intros m'; apply in_app_l|]. apply IH. exact Hal0.
    + destruct (k0 =? k) eqn:E.
      * apply Hstep; [exact Hal|]. intros m' Em. discriminate.
      * eapply CV_mono; [intros m'; apply in_app_l|]. apply IH. exact Hal0.
    + eapply CV_mono; [intros m'; apply in_app_l|]. apply IH. exact Hal0.
    + eapply CV_mono; [intros m'; apply in_app_l|]. apply IH. exact Hal0.
Qed.

(* ================================================================== *)
(* 2. certificates and the durable (view, phase) of the honest nodes   *)
(* ================================================================== *)
Section PosBounds.
  Variable P : params.
  Hypothesis HP : params_ok P.
  Notation hon := (honestb P).
  Notation cfg := (pcfg P).
  Notation W := (cweights (p_C P)).

  Definition dphase (s : gstate) (k : Z) : phase := d_phase (n_dur (g_node s k)).

  Lemma no_cqc_at s q V :
    preach P s ->
    (forall k, hon k = true -> dview s k < V \/ (dview s k = V /\ dphase s k = Prepare)) ->
    gq (cfg 0) hon (g_soup s) q -> vnum (cview (qmsg q)) < V.
  Proof.
    intros Hr HB Hq. destruct (ProtocolRefinesInv.preach_inv P HP s Hr) as [a G].
    pose proof (ProtocolRefinesInv.gq_valid P (g_soup s) (g_plog s) a q
                  (ProtocolRefinesInv.gi_commit _ _ _ G) (ProtocolRefinesInv.gi_votes _ _ _ G) Hq) as Hv.
    pose proof (committee_ok_W P HP) as Hok. pose proof (ProtocolRefinesInv.gi_reach _ _ _ G) as Ha.
    destruct (SafetyAbsLocal.valid_cqc_honest_vote W (abyz P) Hok a _ Hv) as (i & cq & _ & Hh & Hin).
    pose proof (SafetyAbstract.local_cur_after_vote W (abyz P) (p_first P) Hok a _ Ha Hin) as Hc.
    cbn [SafetyAbs.v_view SafetyAbs.v_who abs_cqc SafetyAbs.aq_view] in Hc.
    destruct (ProtocolRefinesInv.gi_abs _ _ _ G i Hh) as (Hcur & _). rewrite Hcur in Hc.
    specialize (HB (key_of P i) (honest_key P i Hh)). unfold dview, dphase in HB.
    destruct Hc as [[Hc|[Hc1 Hc2]]|Hc]; cbn [fst snd] in *.
    - lia.
    - destruct HB as [HB|[HB1 HB2]]; [lia|]. rewrite HB2 in Hc2. cbn in Hc2. lia.
    - inversion Hc as [[E1 E2]]. destruct HB as [HB|[HB1 HB2]]; [lia|]. rewrite HB2 in E2. discriminate.
  Qed.

  Lemma no_tqc_at s t V :
    preach P s ->
    (forall k, hon k = true -> dview s k < V \/ (dview s k = V /\ dphase s k <> PTimeout)) ->
    tqc_verify (p_g P) (p_e P) (p_C P) t = Ok tt -> kt hon (g_soup s) t -> vnum (tqview t) < V.
  Proof.
    intros Hr HB Hv Hk. destruct (ProtocolRefinesInv.preach_inv P HP s Hr) as [a G].
    pose proof (ProtocolRefinesInv.gt_valid P (g_soup s) (g_plog s) a t
                  (ProtocolRefinesInv.gi_commit _ _ _ G) (ProtocolRefinesInv.gi_timeout _ _ _ G)
                  (ProtocolRefinesInv.gi_votes _ _ _ G) (ProtocolRefinesInv.gi_tmos _ _ _ G) Hv Hk) as Hval.
    pose proof (committee_ok_W P HP) as Hok. pose proof (ProtocolRefinesInv.gi_reach _ _ _ G) as Ha.
    destruct Hval as (V1 & V2 & V3 & V4 & _).
    destruct (SafetyAbsLib.quorum_has_honest W (abyz P) Hok _ V1 V2 V3) as (i & Hi & Hh).
    apply in_map_iff in Hi. destruct Hi as ([i' r] & Hf & Hin). cbn [fst] in Hf. subst i'.
    pose proof (V4 i r Hin Hh) as Htm.
    destruct (SafetyAbstract.timeout_reports_latest_vote W (abyz P) (p_first P) Hok a _ Ha Htm) as (_ & Hc & _).
    cbn [SafetyAbs.t_view SafetyAbs.t_who abs_tqc SafetyAbs.at_view] in Hc.
    destruct (ProtocolRefinesInv.gi_abs _ _ _ G i Hh) as (Hcur & _). rewrite Hcur in Hc.
    specialize (HB (key_of P i) (honest_key P i Hh)). unfold dview, dphase in HB.
    destruct Hc as [[Hc|[Hc1 Hc2]]|Hc]; cbn [fst snd] in *.
    - lia.
    - destruct HB as [HB|[HB1 HB2]]; [lia|]. exfalso. destruct (d_phase _); cbn in Hc2; lia.
    - inversion Hc as [[E1 E2]]. destruct HB as [HB|[HB1 HB2]]; [lia|]. exfalso. destruct (d_phase _); try discriminate. apply HB2; reflexivity.
  Qed.
End PosBounds.

Lemma cindex_from_nth : forall (C : committee) o i m, NoDup (map mkey C) -> nth_error C i = Some m ->
  cindex_from o C (mkey m) = Some (o + i)%nat.
Proof.
  induction C as [|m0 C IH]; intros o i m Hnd Hn; [destruct i; discriminate|].
  cbn [map] in Hnd. inversion Hnd as [|? ? Hnotin Hnd']; subst.
  destruct i as [|i]; cbn [nth_error] in Hn; cbn [cindex_from].
  - inversion Hn; subst. rewrite Z.eqb_refl. f_equal. lia.
  - destruct (mkey m0 =? mkey m) eqn:E.
    + exfalso. apply Z.eqb_eq in E. apply Hnotin. rewrite E. apply in_map. eapply nth_error_In; exact Hn.
    + rewrite (IH (S o) i m Hnd' Hn). f_equal. lia.
Qed.

Section Signers.
  Variable P : params.
  Hypothesis HP : params_ok P.
  Notation hon := (honestb P).
  Notation cfg := (pcfg P).
  Notation W := (cweights (p_C P)).
  Notation C := (p_C P).

  (* honest commit votes on the network are not ahead of their signer's durable position *)
  Lemma no_commit_msg_at s h c V :
    preach P s ->
    (forall k, hon k = true -> dview s k < V \/ (dview s k = V /\ dphase s k = Prepare)) ->
    hon h = true -> In {| m_key := h; m_sig_ok := true; m_msg := MCommit c |} (g_soup s) ->
    vnum (cview c) < V.
  Proof.
    intros Hr HB Hh Hin. destruct (ProtocolRefinesInv.preach_inv P HP s Hr) as [a G].
    destruct (ProtocolRefinesInv.gi_commit _ _ _ G h c Hh Hin) as (d & Hd & Hp & Hhv & Hdv).
    destruct (honestb_index P h Hh) as (i & Hi & Hk). subst h.
    destruct (ProtocolRefinesInv.gi_votes _ _ _ G i d c Hi Hd Hp Hhv) as [cq Hvt].
    pose proof (committee_ok_W P HP) as Hok. pose proof (ProtocolRefinesInv.gi_reach _ _ _ G) as Ha.
    pose proof (SafetyAbstract.local_cur_after_vote W (abyz P) (p_first P) Hok a _ Ha Hvt) as Hc.
    cbn [SafetyAbs.v_view SafetyAbs.v_who] in Hc.
    destruct (ProtocolRefinesInv.gi_abs _ _ _ G i Hi) as (Hcur & _). rewrite Hcur in Hc.
    specialize (HB (key_of P i) Hh). unfold dview, dphase in HB. rewrite <- Hdv.
    destruct Hc as [[Hc|[Hc1 Hc2]]|Hc]; cbn [fst snd] in *.
    - lia.
    - destruct HB as [HB|[HB1 HB2]]; [lia|]. rewrite HB2 in Hc2. cbn in Hc2. lia.
    - inversion Hc as [[E1 E2]]. destruct HB as [HB|[HB1 HB2]]; [lia|]. rewrite HB2 in E2. discriminate.
  Qed.

  (* a verifying commit certificate carries the signature of an honest validator *)
  Lemma cqc_honest_signer q :
    cqc_verify (p_g P) (p_e P) C q = Ok tt ->
    exists k, hon k = true /\ In (k, RCommit (qmsg q)) (qagg q).
  Proof.
    intros Hv. pose proof Hv as Hv0. apply cqc_verify_iff in Hv. destruct Hv as (_ & Hl & Hq & _).
    pose proof (committee_ok_W P HP) as Hok.
    assert (HlW : length (qsigners q) = length W) by (rewrite (W_length P); exact Hl).
    destruct (SafetyAbsLib.quorum_has_honest W (abyz P) Hok (bits_idx (qsigners q))) as (i & Hi & Hh).
    - apply bits_idx_NoDup.
    - rewrite Forall_forall. intros i Hi. apply bits_idx_lt in Hi. unfold SafetyAbs.member. lia.
    - rewrite (q_thr_W P), wsum_bits by exact HlW. exact Hq.
    - exists (key_of P i). split; [apply honest_key; exact Hh|].
      apply signer_sig; [exact Hv0|apply in_bits_idx; exact Hi].
  Qed.

  (* a bitmap containing every honest validator weighs a quorum *)
  Lemma honest_bits_quorum bits :
    length bits = length C ->
    (forall h i, hon h = true -> cindex C h = Some i -> nth_error bits i = Some true) ->
    quorum C <= weight W bits.
  Proof.
    intros Hl Hb. pose proof (committee_ok_W P HP) as Hok.
    assert (HlW : length bits = length W) by (rewrite (W_length P); exact Hl).
    rewrite <- (q_thr_W P), <- (wsum_bits W bits HlW).
    set (all := seq 0 (length W)).
    assert (Hall : NoDup all /\ Forall (SafetyAbs.member W) all).
    { split; [apply seq_NoDup|]. rewrite Forall_forall. intros i Hi. apply in_seq in Hi. unfold SafetyAbs.member. lia. }
    pose proof (SafetyAbsLib.honest_weight W (abyz P) Hok all (proj1 Hall) (proj2 Hall)) as Hw.
    unfold all in Hw at 1. rewrite SafetyAbsLib.wsum_all in Hw.
    eapply Z.le_trans; [|apply (SafetyAbsLib.wsum_incl_le W (abyz P) Hok (SafetyAbsLib.hon_of (abyz P) all))].
    - unfold SafetyAbs.q_thr. exact Hw.
    - apply SafetyAbsLib.hon_of_NoDup. apply Hall.
    - intros i Hi. apply SafetyAbsLib.in_hon_of in Hi. destruct Hi as [Hi Hbz]. apply in_seq in Hi.
      apply in_bits_idx.
      assert (Hh : SafetyAbs.honest W (abyz P) i) by (split; [unfold SafetyAbs.member; lia|exact Hbz]).
      apply (Hb (key_of P i) i (honest_key P i Hh)).
      unfold key_of. rewrite (W_length P) in Hi. destruct (nth_error C i) as [m|] eqn:En; [|apply nth_error_None in En; lia].
      unfold cindex. rewrite (cindex_from_nth C 0 i m (proj1 HP) En). reflexivity.
  Qed.

  Lemma signer_sig_inv q i : cqc_inv C q -> nth_error (qsigners q) i = Some true ->
    In (key_of P i, RCommit (qmsg q)) (qagg q).
  Proof.
    intros [Hl Hp] Hb.
    assert (Hi : (i < length C)%nat) by (rewrite <- Hl; apply nth_error_Some; congruence).
    destruct (nth_error C i) as [m|] eqn:E; [|apply nth_error_None in E; lia].
    eapply Permutation.Permutation_in; [symmetry; exact Hp|]. unfold cqc_claimed. apply in_map_iff.
    exists (mkey m). rewrite (key_of_nth P _ _ E). split; [reflexivity|].
    eapply selected_keys_in; eassumption.
  Qed.

  (* a bitmap with Byzantine validators only is lighter than a quorum *)
  Lemma byz_only_light bits : length bits = length C ->
    (forall i, nth_error bits i = Some true -> abyz P i = true) -> weight W bits < quorum C.
  Proof.
    intros Hl Hb. pose proof (committee_ok_W P HP) as Hok.
    assert (HlW : length bits = length W) by (rewrite (W_length P); exact Hl).
    rewrite <- (q_thr_W P), <- (wsum_bits W bits HlW).
    destruct Hok as (Hpos & Hn & Hbyz).
    assert (H : SafetyAbs.wsum W (bits_idx bits) <= SafetyAbs.f_max W).
    { apply Hbyz; [apply bits_idx_NoDup| |].
      - rewrite Forall_forall. intros i Hi. apply bits_idx_lt in Hi. unfold SafetyAbs.member. lia.
      - rewrite Forall_forall. intros i Hi. apply Hb. apply in_bits_idx. exact Hi. }
    unfold SafetyAbs.q_thr, SafetyAbs.f_max in *. lia.
  Qed.
End Signers.

Section NodeCerts.
  Variable P : params.
  Hypothesis HP : params_ok P.
  Notation hon := (honestb P).
  Notation cfg := (pcfg P).

  (* the high certificates of a running honest node verify and carry no forged signature *)
  Lemma node_certs_good Sg t k : RInv P Sg t -> hon k = true -> up t k ->
    (forall q, r_high_cqc (n_live (g_node t k)) = Some q -> gq (cfg 0) hon Sg q) /\
    (forall tq, r_high_tqc (n_live (g_node t k)) = Some tq ->
       tqc_verify (p_g P) (p_e P) (p_C P) tq = Ok tt /\ kt hon Sg tq).
  Proof.
    intros (Hr & _ & HF) Hk Hal. destruct (preach_LI P t Hr k) as [_ HI]. destruct (HI Hal) as (_ & Hc & _).
    pose proof (fi_certs _ _ _ HF k Hk) as K. split.
    - intros q Hq. exact (co_cqc _ _ _ _ K q Hq).
    - intros tq Htq. split; [exact (proj1 (proj2 Hc) tq Htq)|exact (co_tqc _ _ _ _ K tq Htq)].
  Qed.

  Lemma up_dphase t k : preach P t -> hon k = true -> up t k ->
    dphase t k = r_phase (n_live (g_node t k)).
  Proof.
    intros Hr Hk Hal. destruct (ProtocolRefinesInv.preach_inv P HP t Hr) as [a G].
    destruct (ProtocolRefinesInv.ni_link _ _ _ _ _ (ProtocolRefinesInv.gi_node _ _ _ G k Hk) Hal) as [(_ & Hp & _) _].
    unfold dphase. symmetry. exact Hp.
  Qed.

  (* a running node's view exceeds the views of its certificates by at most one *)
  Lemma view_le_certs Sg t k B : RInv P Sg t -> hon k = true -> up t k -> 0 <= B ->
    (forall q, r_high_cqc (n_live (g_node t k)) = Some q -> vnum (cview (qmsg q)) < B) ->
    (forall tq, r_high_tqc (n_live (g_node t k)) = Some tq -> vnum (tqview tq) < B) ->
    hview t k <= B.
  Proof.
    intros (Hr & _ & _) Hk Hal HB Hq Ht. destruct (preach_LI P t Hr k) as [_ HI].
    destruct (HI Hal) as (_ & _ & _ & _ & Hj). unfold hview.
    destruct (Z.eq_dec (r_view (n_live (g_node t k))) 0) as [E0|NE0]; [lia|].
    specialize (Hj NE0). unfold ReplicaJustified.justified, ReplicaJustified.held_at_least in Hj.
    destruct Hj as [Hj|Hj].
    - destruct (r_high_cqc (n_live (g_node t k))) as [q|] eqn:Eq; cbn in Hj; [|contradiction]. specialize (Hq q eq_refl). lia.
    - destruct (r_high_tqc (n_live (g_node t k))) as [tq|] eqn:Et; cbn in Hj; [|contradiction]. specialize (Ht tq eq_refl). lia.
  Qed.
End NodeCerts.

(* ================================================================== *)
(* 3. one view with an honest leader whose proposal is on the network   *)
(* ================================================================== *)
Section Lock.
  Variable P : params.
  Hypothesis HP : params_ok P.
  Variable pay : Z -> Z.
  Hypothesis Henv : env_ok P pay.
  Notation hon := (honestb P).
  Notation cfg := (pcfg P).
  Variables (V n : Z) (j : justification) (mv : view).
  (* the proposal: its payload (None for a forced re-proposal), the hash voted for, and what the
     justification implies *)
  Variables (po : option Z) (hh : Z) (oh : option Z).
  Hypothesis Hjv : justification_view (E := unit) true j = Ok mv.
  Hypothesis Hmv : vnum mv = V.
  Hypothesis Hjver : justification_verify (p_g P) (p_e P) (p_C P) j = Ok tt.
  Hypothesis Himp : get_implied_block (E := unit) true (p_C P) (p_first P) j = Ok (n, oh).
  Hypothesis Hkind :
    (oh = None /\ po = Some hh /\ p_pok P n hh = true /\ p_psize P hh <= p_maxpay P) \/
    (oh = Some hh /\ po = None).
  Hypothesis Hfn : p_first P <= n.
  Notation L := (cleader (cfg 0) V).
  Notation cstar := {| cview := mv; cprop := {| hnum := n; hpay := hh |} |}.
  Notation mstar := {| m_key := L; m_sig_ok := true; m_msg := MProposal po j |}.

  (* the frozen network relative to which forged signatures are excluded, and what is known
     of its certificates *)
  Variable Sg : list sgmsg.
  Hypothesis Hcq : forall q, gq (cfg 0) hon Sg q -> vnum (cview (qmsg q)) < V.
  Hypothesis Htq : forall t, tqc_verify (p_g P) (p_e P) (p_C P) t = Ok tt -> kt hon Sg t -> vnum (tqview t) < V.

  Definition uniq_prop : Prop :=
    forall m p' j' mv', In m Sg -> m_msg m = MProposal p' j' -> m_key m = L -> m_sig_ok m = true ->
      justification_view (E := unit) true j' = Ok mv' -> vnum mv' = V ->
      justification_verify (p_g P) (p_e P) (p_C P) j' = Ok tt -> p' = po /\ j' = j.

  Lemma just_lt j' : kj hon Sg j' -> justification_verify (p_g P) (p_e P) (p_C P) j' = Ok tt -> just_vnum j' < V.
  Proof.
    intros Hk Hv. pose proof (gj_of (cfg 0) hon Sg j' Hk Hv) as Hg.
    apply justification_verify_iff in Hv. destruct j' as [q|t]; cbn [just_vnum gj] in *.
    - apply Hcq. exact Hg.
    - apply Htq; [exact Hv|apply Hg].
  Qed.

  Lemma jview_num j' mv' : justification_view (E := unit) true j' = Ok mv' -> vnum mv' = just_vnum j' + 1.
  Proof. intros H. apply justification_view_chk in H. destruct j'; exact H. Qed.

  Definition votemsg (k : Z) : sgmsg := {| m_key := k; m_sig_ok := true; m_msg := MCommit cstar |}.
  Definition cached (s : rstate) : Prop := cache_has (r_cache s) n hh = true.
  Definition voted (soup : list sgmsg) (k : Z) (s : rstate) : Prop :=
    r_phase s = PCommit /\ r_high_vote s = Some cstar /\ (oh = None -> cached s) /\
    In (votemsg k) soup.
  Definition nodeA (soup : list sgmsg) (k : Z) (s : rstate) : Prop :=
    r_view s = V /\ n <= r_store_next s /\ r_store_first s = p_first P /\
    (r_phase s = Prepare \/ voted soup k s).

  Lemma nodeA_frame soup soup' k s s' : frame0 s s' -> (forall m, In m soup -> In m soup') ->
    nodeA soup k s -> nodeA soup' k s'.
  Proof.
    intros (F1&F2&F3&F4&F7&F8) Hi (A1&A2&A3&A4). split; [congruence|]. split; [lia|]. split; [congruence|].
    destruct A4 as [A4|(B1&B2&B3&B4)]; [left; congruence|right].
    split; [congruence|]. split; [congruence|]. split; [unfold cached; rewrite F4; exact B3|auto].
  Qed.

  (* the state in which the vote is cast: the payload of a new block is cached first *)
  Definition s1_of (s : rstate) : rstate :=
    match oh with None => set_cache s (cache_insert (r_cache s) n hh) | Some _ => s end.

  (* the proposal of the leader is accepted by a node waiting in the view *)
  Lemma star_accept k s : r_view s = V -> r_phase s = Prepare -> n <= r_store_next s ->
    r_store_first s = p_first P ->
    rstep_t (cfg k) s (IMsg mstar) =
      hbind (process_justification (cfg k)
               (set_high_vote (set_phase (set_view (s1_of s) (vnum mv)) PCommit) (Some cstar)) j)
        (fun s _ => hbind (backup_state (cfg k) s) (fun s _ => hemit s (ESend (MCommit cstar)))).
  Proof.
    intros Hv Hp Hn Hf.
    assert (Eold : ((vnum mv <? r_view s) || ((vnum mv =? r_view s) && negb (phase_eqb (r_phase s) Prepare))) = false)
      by (rewrite Hmv, Hv, Hp; rewrite Z.ltb_irrefl, Z.eqb_refl; reflexivity).
    assert (E : on_proposal (cfg k) s L true po j =
      hbind (process_justification (cfg k)
               (set_high_vote (set_phase (set_view (s1_of s) (vnum mv)) PCommit) (Some cstar)) j)
        (fun s _ => hbind (backup_state (cfg k) s) (fun s _ => hemit s (ESend (MCommit cstar))))).
    { unfold s1_of. destruct Hkind as [(-> & -> & Hpok & Hsz)|(-> & ->)].
      - apply on_proposal_accepts; cbn [cchk cg ce cC cfirst cmaxpay cpsize cpok pcfg]; auto.
        + rewrite Hmv. reflexivity.
        + apply Z.ltb_ge. lia.
        + apply Z.ltb_ge. exact Hsz.
        + apply andb_false_iff. right. apply negb_false_iff. apply Z.ltb_lt. lia.
        + apply andb_true_iff. split; [apply Z.leb_le; exact Hfn|exact Hpok].
      - apply on_proposal_accepts_re; cbn [cchk cg ce cC cfirst pcfg]; auto.
        + rewrite Hmv. reflexivity.
        + apply Z.ltb_ge. lia. }
    unfold rstep_t. cbn [rstep m_msg m_key m_sig_ok]. rewrite E.
    match goal with |- context [hbind (process_justification ?c ?s2 j) ?f] =>
      pose proof (vote_tail_res c s2 j cstar) as Hres; cbv zeta in Hres;
      destruct (hbind (process_justification c s2 j) f) as [[s3 es3] r3] end.
    cbn [snd] in Hres. destruct Hres as [-> | ->]; reflexivity.
  Qed.

  Hypothesis Huniq : uniq_prop.

  (* a proposal for a view >= V that passes the handler's checks is the leader's *)
  Lemma prop_pre_star k s m p' j' mv' : r_view s = V -> In m Sg -> kj hon Sg j' ->
    m_msg m = MProposal p' j' -> prop_pre (cfg k) s (m_key m) (m_sig_ok m) j' mv' ->
    r_phase s = Prepare /\ p' = po /\ j' = j /\ mv' = mv.
  Proof.
    intros Hv Hin Hkm Em (Ejv & Eold & Ekey & Esg & Ever).
    cbn [cchk cg ce cC pcfg] in *.
    pose proof (just_lt j' Hkm Ever) as Hlt. pose proof (jview_num j' mv' Ejv) as Hnum.
    apply orb_false_iff in Eold. destruct Eold as [E1 E2]. apply Z.ltb_ge in E1.
    assert (EV : vnum mv' = V) by lia.
    rewrite EV, Hv, Z.eqb_refl in E2. cbn [andb] in E2. apply negb_false_iff in E2.
    assert (Hph : r_phase s = Prepare) by (destruct (r_phase s); try discriminate; reflexivity).
    rewrite EV in Ekey.
    destruct (Huniq m p' j' mv' Hin Em Ekey Esg Ejv EV Ever) as [-> ->].
    split; [exact Hph|]. split; [reflexivity|]. split; [reflexivity|]. congruence.
  Qed.

  Lemma voted_frame soup soup' k s s' : frame0 s s' -> (forall m, In m soup -> In m soup') ->
    voted soup k s -> voted soup' k s'.
  Proof.
    intros (F1&F2&F3&F4&F7&F8) Hi (B1&B2&B3&B4).
    split; [congruence|]. split; [congruence|]. split; [unfold cached; rewrite F4; exact B3|auto].
  Qed.

  Lemma stepA k s m soup s' es r :
    RC.cache_inv (cfg k) s -> rstep_t (cfg k) s (IMsg m) = (s', es, r) -> stopsA r = false ->
    r_view s' <= V -> In m Sg -> kmsg hon Sg (m_msg m) ->
    nodeA soup k s ->
    nodeA (soup ++ sends_of k es) k s' /\
    (m = mstar -> voted (soup ++ sends_of k es) k s') /\
    (forall x, In (ESend x) es -> x = MCommit cstar) /\
    (voted soup k s -> voted (soup ++ sends_of k es) k s') /\
    (cached s -> cached s').
  Proof.
    intros Hinv Es Hs Hle Hin Hkm HA.
    pose proof (rstep_t_le (cfg k) s (IMsg m) eq_refl) as (Hmono & _).
    rewrite Es in Hmono. unfold ReplicaMono.st_of in Hmono. cbn [fst] in Hmono.
    pose proof HA as (A1 & A2 & A3 & A4).
    assert (Hsame : r_view s' = r_view s) by lia.
    assert (Hquiet : forall s2, frame0 s s2 -> s' = s2 -> no_sends es ->
              nodeA (soup ++ sends_of k es) k s' /\
              ((forall x, In (ESend x) es -> x = MCommit cstar) /\
               (voted soup k s -> voted (soup ++ sends_of k es) k s') /\
               (cached s -> cached s'))).
    { intros s2 F -> Hq. split; [|split; [|split]].
      - rewrite (sends_of_quiet k es Hq), app_nil_r. exact (nodeA_frame soup soup k s s2 F (fun m H => H) HA).
      - intros x Hx. unfold no_sends in Hq. rewrite Forall_forall in Hq. destruct (Hq _ Hx).
      - rewrite (sends_of_quiet k es Hq), app_nil_r. exact (voted_frame soup soup k s s2 F (fun m H => H)).
      - destruct F as (_&_&_&F4&_). unfold cached. rewrite F4. auto. }
    destruct (m_msg m) as [p' j'|c|t|j'] eqn:Em.
    - (* a proposal *)
      destruct (rstep_t_proposal (cfg k) s m p' j' Em) as
        [(r0 & E & Hr0)|[(mv' & n' & Hpre & Himp' & Hcond)|(mv' & n' & oh0 & s1 & hash & Hpre & Himp' & Hbr & E)]].
      + (* rejected *)
        rewrite E in Es. inversion Es; subst s' es r. cbn [sends_of flat_map]. rewrite app_nil_r.
        split; [exact HA|]. split; [|split; [intros x []|split; auto]].
        intros ->. destruct A4 as [A4|A4]; [|exact A4]. exfalso.
        rewrite (star_accept k s A1 A4 A2 A3) in E.
        match type of E with ?x = _ => pose proof (f_equal snd E) as E2 end. cbn [snd] in E2.
        match type of E2 with snd (hbind (process_justification ?c ?s2 j) ?f) = _ =>
          destruct (vote_tail_res c s2 j cstar) as [H|H]; cbv zeta in H; rewrite H in E2 end.
        * subst r0. discriminate Hr0.
        * subst r0. discriminate Hs.
      + (* missed deadline: impossible *)
        exfalso. destruct (prop_pre_star k s m p' j' mv' A1 Hin Hkm Em Hpre) as (_ & _ & -> & _).
        cbn [cchk cC cfirst pcfg] in Himp'. rewrite Himp in Himp'. inversion Himp'; subst n'.
        destruct Hkind as [(_ & _ & _ & _)|(Eoh & _)]; [|congruence].
        apply andb_true_iff in Hcond. destruct Hcond as [_ Hc]. apply negb_true_iff in Hc. apply Z.ltb_ge in Hc. lia.
      + (* accepted: it is the leader's proposal *)
        destruct (prop_pre_star k s m p' j' mv' A1 Hin Hkm Em Hpre) as (Hph & -> & -> & ->).
        cbn [cchk cC cfirst pcfg] in Himp'. rewrite Himp in Himp'. inversion Himp' as [[En' Eoh']]. subst n'.
        assert (Ehash : hash = hh /\ s1 = s1_of s).
        { unfold s1_of. destruct Hkind as [(E1 & E2 & _)|(E1 & E2)]; rewrite E1 in *; subst oh0.
          - destruct Hbr as [(Hbad & _)|(_ & Eh & ->)]; [discriminate Hbad|]. rewrite E2 in Eh. inversion Eh. auto.
          - destruct Hbr as [(Eh & _ & ->)|(Hbad & _)]; [|discriminate Hbad]. inversion Eh. auto. }
        destruct Ehash as [-> ->].
        rewrite E in Es.
        match type of Es with hbind (process_justification ?c ?s2 j) ?f = _ =>
          pose proof (vote_tail_post c s2 j cstar) as Hpost; cbv zeta in Hpost; rewrite Es in Hpost end.
        unfold st_of in Hpost. cbn [fst snd] in Hpost.
        destruct (Hpost Hs) as ((F1&F2&F3&F4&_&_&F7&F8) & _ & (qs & Hqs & Ees) & _).
        cbn [set_high_vote set_phase set_view r_view r_phase r_high_vote r_cache r_store_first r_store_next] in *.
        assert (Hc1 : (oh = None -> cached (s1_of s)) /\ (cached s -> cached (s1_of s)) /\
                      r_store_first (s1_of s) = r_store_first s /\ r_store_next (s1_of s) = r_store_next s).
        { unfold s1_of, cached. destruct oh; cbn [set_cache r_cache r_store_first r_store_next].
          - split; [discriminate|auto].
          - split; [intros _; apply cache_has_insert|]. split; [intros _; apply cache_has_insert|auto]. }
        destruct Hc1 as (Hc1 & Hc2 & Hc3 & Hc4).
        assert (Hsends : sends_of k es = [votemsg k]).
        { rewrite Ees. unfold sends_of. rewrite flat_map_app. fold (sends_of k qs). rewrite (sends_of_quiet k qs Hqs). reflexivity. }
        assert (Hvoted : voted (soup ++ sends_of k es) k s').
        { split; [exact F2|]. split; [exact F3|]. split; [intros Eo; unfold cached; rewrite F4; apply Hc1; exact Eo|].
          rewrite Hsends. apply in_or_app. right. left. reflexivity. }
        split; [|split; [intros _; exact Hvoted|split; [|split; [intros _; exact Hvoted|]]]].
        * split; [lia|]. split; [lia|]. split; [congruence|right; exact Hvoted].
        * intros x Hx. rewrite Ees in Hx. apply in_app_or in Hx. destruct Hx as [Hx|[Hx|[Hx|[]]]].
          -- unfold no_sends in Hqs. rewrite Forall_forall in Hqs. destruct (Hqs _ Hx).
          -- discriminate.
          -- inversion Hx. reflexivity.
        * intros Hc. unfold cached. rewrite F4. apply Hc2. exact Hc.
    - (* a commit vote *)
      rewrite rstep_t_other in Es by (intros ? ?; rewrite Em; discriminate). cbn [rstep] in Es. rewrite Em in Es.
      assert (Hs' : stopsA (snd (on_commit (cfg k) s (m_key m) (m_sig_ok m) c)) = false) by (rewrite Es; exact Hs).
      assert (Hv' : r_view (st_of (on_commit (cfg k) s (m_key m) (m_sig_ok m) c)) = r_view s) by (rewrite Es; exact Hsame).
      destruct (commit_same_view (cfg k) s (m_key m) (m_sig_ok m) c Hinv eq_refl Hs' Hv')
        as [(r0 & E & _)|(i0 & _ & _ & _ & _ & _ & _ & E)]; rewrite E in Es; inversion Es; subst s' es r.
      + destruct (Hquiet s (frame_frame0 _ _ (frame_refl s)) eq_refl (Forall_nil _)) as (H1 & H3). split; [exact H1|]. split; [intros ->; discriminate Em|exact H3].
      + match goal with |- nodeA _ _ ?s2 /\ _ => destruct (Hquiet s2 (frame0_caches _ _ _) eq_refl (Forall_nil _)) as (H1 & H3) end.
        split; [exact H1|]. split; [intros ->; discriminate Em|exact H3].
    - (* a timeout vote *)
      rewrite rstep_t_other in Es by (intros ? ?; rewrite Em; discriminate). cbn [rstep] in Es. rewrite Em in Es.
      assert (Hs' : stopsA (snd (on_timeout (cfg k) s (m_key m) (m_sig_ok m) t)) = false) by (rewrite Es; exact Hs).
      assert (Hv' : r_view (st_of (on_timeout (cfg k) s (m_key m) (m_sig_ok m) t)) = r_view s) by (rewrite Es; exact Hsame).
      destruct (timeout_same_view (cfg k) s (m_key m) (m_sig_ok m) t Hinv eq_refl Hs' Hv') as (F & Ee & _).
      rewrite Es in F, Ee. unfold st_of in F. cbn [fst snd] in F, Ee. subst es.
      destruct (Hquiet s' (frame_frame0 _ _ F) eq_refl (Forall_nil _)) as (H1 & H3). split; [exact H1|]. split; [intros ->; discriminate Em|exact H3].
    - (* a new-view message *)
      rewrite rstep_t_other in Es by (intros ? ?; rewrite Em; discriminate). cbn [rstep] in Es. rewrite Em in Es.
      assert (Hv' : r_view (st_of (on_new_view (cfg k) s (m_key m) (m_sig_ok m) j')) = r_view s) by (rewrite Es; exact Hsame).
      destruct (new_view_same_view (cfg k) s (m_key m) (m_sig_ok m) j' Hv') as [(r0 & E & _)|(_ & F & Hq & _)].
      + rewrite E in Es. inversion Es; subst s' es r.
        destruct (Hquiet s (frame_frame0 _ _ (frame_refl s)) eq_refl (Forall_nil _)) as (H1 & H3). split; [exact H1|]. split; [intros ->; discriminate Em|exact H3].
      + rewrite Es in F, Hq. unfold st_of in F. cbn [fst snd] in F, Hq.
        destruct (Hquiet s' (frame_frame0 _ _ F) eq_refl (only_queue_no_sends _ Hq)) as (H1 & H3). split; [exact H1|]. split; [intros ->; discriminate Em|exact H3].
  Qed.

  (* ---------- the round in which the votes arrive ---------- *)
  Notation W := (cweights (p_C P)).
  Definition done (s : rstate) : Prop := V < r_view s /\ n < r_store_next s.
  Definition coll (k : Z) (s : rstate) : Prop :=
    r_view s = V /\ r_phase s <> Prepare /\ True /\ n <= r_store_next s /\
    (forall q, r_high_cqc s = Some q -> vnum (cview (qmsg q)) < V) /\
    (forall h, hon h = true -> RC.fresh (r_commit_views s) h V \/ hasbit (cfg k) s h cstar) /\
    (forall q, qc_at (r_commit_qcs s) V cstar = Some q -> weight W (qsigners q) < quorum (p_C P)).

  Lemma coll_frame k s s' : frame s s' ->
    (forall q, r_high_cqc s' = Some q -> vnum (cview (qmsg q)) < V) ->
    coll k s -> coll k s' /\ (forall h, hasbit (cfg k) s h cstar -> hasbit (cfg k) s' h cstar).
  Proof.
    intros (F1&F2&F3&F4&F5&F6&F7&F8) Hq (C1&C2&C3&C4&C5&C6&C7). split.
    - split; [congruence|]. split; [congruence|]. split; [exact I|]. split; [lia|]. split; [exact Hq|].
      split; [|rewrite F6; exact C7].
      intros h Hh. destruct (C6 h Hh) as [H|H]; [left; rewrite F5; exact H|right].
      unfold hasbit in *. rewrite F5, F6. exact H.
    - intros h H. unfold hasbit in *. rewrite F5, F6. exact H.
  Qed.

  Lemma hon_cindex h : hon h = true -> exists i0, cindex (p_C P) h = Some i0.
  Proof.
    intros Hh. destruct (honestb_index P h Hh) as (i & [Hm _] & Hk). unfold SafetyAbs.member in Hm.
    rewrite (W_length P) in Hm. unfold key_of in Hk.
    destruct (nth_error (p_C P) i) as [mb|] eqn:En; [|apply nth_error_None in En; lia].
    exists i. subst h. unfold cindex. rewrite (cindex_from_nth (p_C P) 0 i mb (proj1 HP) En). reflexivity.
  Qed.

  Lemma cstar_verify : commit_verify (p_g P) (p_e P) cstar = Ok tt.
  Proof. unfold commit_verify. cbn [cview]. exact (vote_view_ok _ _ _ j mv Hjver Hjv). Qed.

  Lemma prop_pre_phase k s key sg j' mv' : r_view s = V -> kj hon Sg j' ->
    prop_pre (cfg k) s key sg j' mv' -> r_phase s = Prepare.
  Proof.
    intros Hv Hkm (Ejv & Eold & Ekey & Esg & Ever). cbn [cchk cg ce cC pcfg] in *.
    pose proof (just_lt j' Hkm Ever) as Hlt. pose proof (jview_num j' mv' Ejv) as Hnum.
    apply orb_false_iff in Eold. destruct Eold as [E1 E2]. apply Z.ltb_ge in E1.
    assert (EV : vnum mv' = V) by lia.
    rewrite EV, Hv, Z.eqb_refl in E2. cbn [andb] in E2. apply negb_false_iff in E2.
    destruct (r_phase s); try discriminate; reflexivity.
  Qed.

  (* the step on which the commit quorum is reached *)
  Definition entered (k : Z) (s s' : rstate) (es : list effect) : Prop :=
    r_view s' = V + 1 /\ r_phase s' = Prepare /\ (n <= r_store_next s' /\ (cached s -> n < r_store_next s')) /\
    exists q j' qs, r_high_cqc s' = Some q /\ qmsg q = cstar /\ get_justification s' = Ok j' /\ only_queue qs /\
      es = qs ++ [ENotifyProposer j'; EPersist (backup (cfg k) s'); ESend (MNewView j')].

  Lemma stepB k s m s' es r :
    RC.cache_inv (cfg k) s -> rstep_t (cfg k) s (IMsg m) = (s', es, r) -> stopsA r = false ->
    kmsg hon Sg (m_msg m) ->
    (forall c, m_msg m = MCommit c -> m_sig_ok m = true -> hon (m_key m) = true -> V <= vnum (cview c) -> c = cstar) ->
    (forall tq, r_high_tqc s' = Some tq -> vnum (tqview tq) < V) ->
    (forall q, r_high_cqc s' = Some q -> V <= vnum (cview (qmsg q)) -> qmsg q = cstar) ->
    coll k s ->
    entered k s s' es \/
    (coll k s' /\ only_queue es /\
     (forall h, hon h = true -> hasbit (cfg k) s h cstar -> hasbit (cfg k) s' h cstar) /\
     (forall h, hon h = true -> m = votemsg h -> hasbit (cfg k) s' h cstar) /\ r_cache s' = r_cache s).
  Proof.
    intros Hinv Es Hs Hkm HGA Hptq Hpcq HC.
    pose proof HC as (C1&C2&C3&C4&C5&C6&C7).
    destruct (m_msg m) as [p' j'|c|t|j'] eqn:Em.
    - (* proposals are rejected: the node is not waiting for one *)
      cbn [kmsg] in Hkm.
      destruct (rstep_t_proposal (cfg k) s m p' j' Em) as
        [(r0 & E & Hr0)|[(mv' & n' & Hpre & _)|(mv' & n' & oh0 & s1 & hash & Hpre & _)]].
      + rewrite E in Es. inversion Es; subst s' es r. right. split; [exact HC|]. split; [constructor|]. split; [auto|].
        split; [|reflexivity]. intros h _ ->. discriminate Em.
      + exfalso. apply C2. exact (prop_pre_phase k s _ _ j' mv' C1 Hkm Hpre).
      + exfalso. apply C2. exact (prop_pre_phase k s _ _ j' mv' C1 Hkm Hpre).
    - (* a commit vote *)
      rewrite rstep_t_other in Es by (intros ? ?; rewrite Em; discriminate). cbn [rstep] in Es. rewrite Em in Es.
      assert (Hacc : forall i0, cindex (p_C P) (m_key m) = Some i0 ->
                RC.fresh (r_commit_views s) (m_key m) (vnum (cview c)) -> m_sig_ok m = true ->
                (vnum (cview c) <? r_view s) = false ->
                RC.on_commit_accept (cfg k) s (m_key m) c i0 = (s', es, r) ->
                entered k s s' es \/
                (coll k s' /\ only_queue es /\
                 (forall h, hon h = true -> hasbit (cfg k) s h cstar -> hasbit (cfg k) s' h cstar) /\
                 (forall h, hon h = true -> m = votemsg h -> hasbit (cfg k) s' h cstar) /\ r_cache s' = r_cache s)).
      { intros i0 Hk Hf Hsg Hold E.
        destruct Hinv as [Hcinv _].
        pose proof (RC.q0_facts _ _ (p_C P) (r_commit_views s) _ _ c (m_key m) i0
                      (RC.bucket_of_ok _ _ _ _ _ (vnum (cview c)) Hcinv) Hk Hf) as (Hq0m & Hq0i & Hq0n).
        assert (HVc : V <= vnum (cview c)) by (apply Z.ltb_ge in Hold; lia).
        assert (Hstar : hon (m_key m) = true -> c = cstar) by (intros Hh; apply (HGA c eq_refl Hsg Hh HVc)).
        destruct (weight W (qsigners (commit_q (cfg k) s (m_key m) c i0)) <? quorum (p_C P)) eqn:Ew.
        - (* below the quorum *)
          rewrite (on_commit_accept_low (cfg k) s (m_key m) c i0 Ew) in E. inversion E; subst s' es r. clear E.
          set (s' := set_commit_caches s (commit_views' s (m_key m) c) (commit_qcs' (cfg k) s (m_key m) c i0)).
          assert (Hown : hon (m_key m) = true -> hasbit (cfg k) s' (m_key m) cstar).
          { intros Hh. rewrite <- (Hstar Hh). apply upd_hasbit_own; [exact Hk|apply (TqcAssembly.cindex_lt _ _ _ Hk)|apply Hq0i]. }
          right. split; [|split; [constructor|split; [|split; [|reflexivity]]]].
          + split; [exact C1|]. split; [exact C2|]. split; [exact C3|]. split; [exact C4|]. split; [exact C5|]. split.
            * intros h Hh. destruct (Z.eq_dec h (m_key m)) as [->|Hne]; [right; apply Hown; exact Hh|].
              destruct (C6 h Hh) as [H|H].
              -- left. unfold RC.fresh. unfold s'. rewrite (upd_views_other (cfg k) s (m_key m) c i0 h Hne). exact H.
              -- right. apply upd_hasbit_other; assumption.
            * intros q Hq. destruct (upd_qc_at_cases (cfg k) s (m_key m) c i0 V cstar q Hq) as [[-> ->]|Hold'].
              -- apply Z.ltb_lt. exact Ew.
              -- apply C7. exact Hold'.
          + intros h Hh Hb. destruct (Z.eq_dec h (m_key m)) as [->|Hne]; [apply Hown; exact Hh|].
            apply upd_hasbit_other; assumption.
          + intros h Hh ->. apply Hown. exact Hh.
        - (* a quorum: the block is stored and the next view entered *)
          left.
          assert (Hs2 : stopsA (snd (RC.on_commit_accept (cfg k) s (m_key m) c i0)) = false) by (rewrite E; exact Hs).
          assert (Hnew : forall cur, r_high_cqc s = Some cur -> vnum (cview (qmsg cur)) < vnum (cview c)).
          { intros cur Hc. specialize (C5 cur Hc). lia. }
          destruct (on_commit_accept_quorum (cfg k) s (m_key m) c i0 eq_refl Ew Hold Hs2 Hq0m Hnew) as (Hv' & Hq' & Hst).
          pose proof Hs2 as Hs3. rewrite (on_commit_accept_high_eq (cfg k) s (m_key m) c i0 Ew) in Hs3.
          match type of Hs3 with stopsA (snd (hbind ?x _)) = false =>
            destruct (tail_enter (cfg k) x (vnum (cview c)) eq_refl (process_commit_qc_res _ _ _) Hs3)
              as (j1 & Hj1 & Hes & _ & Hph & _);
            pose proof (process_commit_qc_effs (cfg k)
              (set_commit_caches s (commit_views' s (m_key m) c) (zmap_remove (commit_qcs' (cfg k) s (m_key m) c i0) (vnum (cview c))))
              (commit_q (cfg k) s (m_key m) c i0)) as Hoq end.
          rewrite <- (on_commit_accept_high_eq (cfg k) s (m_key m) c i0 Ew) in Hj1, Hes, Hph.
          rewrite E in Hv', Hq', Hst, Hj1, Hes, Hph. unfold st_of in Hv', Hq', Hst, Hj1, Hes, Hph. cbn [fst snd] in Hv', Hq', Hst, Hj1, Hes, Hph.
          assert (Ec : c = cstar).
          { assert (Hqm : qmsg (commit_q (cfg k) s (m_key m) c i0) = c) by exact Hq0m.
            transitivity (qmsg (commit_q (cfg k) s (m_key m) c i0)); [symmetry; exact Hqm|].
            apply (Hpcq _ Hq'). rewrite Hqm. exact HVc. }
          subst c. cbn [cview cprop hnum hpay] in *. rewrite Hmv in Hv'.
          split; [exact Hv'|]. split; [exact Hph|]. split; [split; [|intros Hc; apply Hst; exact Hc]|].
          { destruct (on_commit_accept_high (cfg k) s (m_key m) cstar i0 eq_refl Ew Hold Hs2) as (_ & _ & Hsn). cbv zeta in Hsn.
            rewrite E in Hsn. unfold st_of at 1 in Hsn. cbn [fst] in Hsn. rewrite Hsn.
            match goal with |- _ <= r_store_next (st_of (process_commit_qc ?c ?s2 ?q)) =>
              destruct (process_commit_qc_frame c s2 q) as ((_&_&_&_&_&_&_&F8) & _) end.
            cbn [set_commit_caches r_store_next] in F8. lia. }
          eexists (commit_q (cfg k) s (m_key m) cstar i0), j1, _. split; [exact Hq'|]. split; [exact Hq0m|].
          split; [exact Hj1|]. split; [exact Hoq|exact Hes]. }
      destruct (on_commit_cases (cfg k) s (m_key m) (m_sig_ok m) c Hinv)
        as [(r0 & E & Hr0)|(i0 & Hk & Hold & Hf & Hsg & Hver & E)].
      + rewrite E in Es. inversion Es; subst s' es r.
        right. split; [exact HC|]. split; [constructor|]. split; [auto|]. split; [|reflexivity].
        intros h Hh Em'. destruct (C6 h Hh) as [Hf|Hb]; [|exact Hb]. exfalso.
        assert (Ek : m_key m = h) by (rewrite Em'; reflexivity).
        assert (Esg : m_sig_ok m = true) by (rewrite Em'; reflexivity).
        assert (Ec : c = cstar) by (rewrite Em' in Em; cbn in Em; inversion Em; reflexivity).
        subst c. destruct (hon_cindex h Hh) as [i0 Hi0].
        assert (Hold : (vnum (cview cstar) <? r_view s) = false) by (cbn [cview]; rewrite Hmv, C1; apply Z.ltb_irrefl).
        assert (Hf' : RC.fresh (r_commit_views s) h (vnum (cview cstar))) by (cbn [cview]; rewrite Hmv; exact Hf).
        pose proof (RC.on_commit_eq (cfg k) s h cstar i0 Hinv Hi0 Hold Hf' cstar_verify) as Eq.
        rewrite Ek, Esg in E. rewrite Eq in E.
        destruct (weight W (qsigners (commit_q (cfg k) s h cstar i0)) <? quorum (p_C P)) eqn:Ew.
        * rewrite (on_commit_accept_low (cfg k) s h cstar i0 Ew) in E. inversion E. subst r0. discriminate Hr0.
        * assert (Hs2 : stopsA (snd (RC.on_commit_accept (cfg k) s h cstar i0)) = false) by (rewrite E; exact Hs).
          destruct (on_commit_accept_high (cfg k) s h cstar i0 eq_refl Ew Hold Hs2) as (_ & Hv' & _).
          rewrite E in Hv'. unfold st_of in Hv'. cbn [fst cview] in Hv'. lia.
      + rewrite E in Es. exact (Hacc i0 Hk Hf Hsg Hold Es).
    - (* a timeout vote *)
      rewrite rstep_t_other in Es by (intros ? ?; rewrite Em; discriminate). cbn [rstep] in Es. rewrite Em in Es.
      assert (Hs' : stopsA (snd (on_timeout (cfg k) s (m_key m) (m_sig_ok m) t)) = false) by (rewrite Es; exact Hs).
      destruct (timeout_step (cfg k) s (m_key m) (m_sig_ok m) t Hinv eq_refl Hs') as [(F & Ee & Hq)|(tq & Htq0 & Hle)];
        rewrite Es in *; unfold st_of in *; cbn [fst snd] in *.
      + right. destruct (coll_frame k s s' F) as [H1 H2]; [rewrite Hq; exact C5|exact HC|].
        split; [exact H1|]. split; [rewrite Ee; constructor|]. split; [intros h _; apply H2|].
        split; [intros h _ ->; discriminate Em|apply F].
      + exfalso. specialize (Hptq tq Htq0). lia.
    - (* a new-view message: its certificates are old *)
      rewrite rstep_t_other in Es by (intros ? ?; rewrite Em; discriminate). cbn [rstep] in Es. rewrite Em in Es.
      cbn [kmsg] in Hkm.
      assert (Hlow : forall mv', justification_view (E := unit) (cchk (cfg k)) j' = Ok mv' ->
                justification_verify (cg (cfg k)) (ce (cfg k)) (cC (cfg k)) j' = Ok tt -> vnum mv' <= r_view s).
      { intros mv' Ejv Ever. cbn [cchk cg ce cC pcfg] in *.
        pose proof (just_lt j' Hkm Ever). pose proof (jview_num j' mv' Ejv). lia. }
      pose proof (new_view_low (cfg k) s (m_key m) (m_sig_ok m) j' Hlow) as Hv'.
      destruct (new_view_same_view (cfg k) s (m_key m) (m_sig_ok m) j' Hv') as [(r0 & E & _)|(Ever & F & Hoq & Hq)].
      + rewrite E in Es. inversion Es; subst s' es r. right. split; [exact HC|]. split; [constructor|]. split; [auto|].
        split; [|reflexivity]. intros h _ ->. discriminate Em.
      + rewrite Es in F, Hq, Hoq. unfold st_of in F, Hq. cbn [fst snd] in F, Hq, Hoq. right.
        destruct (coll_frame k s s' F) as [H1 H2]; [|exact HC|].
        * intros q Hq'. destruct Hq as [Hq|(q2 & Hj & Hq)].
          -- apply C5. rewrite <- Hq. exact Hq'.
          -- rewrite Hq in Hq'. inversion Hq'; subst q2. cbn [cg ce cC pcfg] in Ever.
             pose proof (gj_of (cfg 0) hon Sg j' Hkm Ever) as Hg.
             destruct j' as [q0|t0]; cbn [just_hq gj] in *.
             ++ inversion Hj; subst q0. apply Hcq. exact Hg.
             ++ apply Hcq. exact (gt_high_qc (cfg 0) hon Sg t0 q Hg Hj).
        * split; [exact H1|]. split; [exact Hoq|]. split; [intros h _; apply H2|].
          split; [intros h _ ->; discriminate Em|apply F].
  Qed.

  (* a node that is past view V is not moved by anything on the old network unless its view changes *)
  Lemma stepC k s m s' es r :
    RC.cache_inv (cfg k) s -> rstep_t (cfg k) s (IMsg m) = (s', es, r) -> stopsA r = false ->
    r_view s' <= r_view s -> V < r_view s -> kmsg hon Sg (m_msg m) ->
    frame0 s s' /\ only_queue es.
  Proof.
    intros Hinv Es Hs Hle HVs Hkm.
    pose proof (rstep_t_le (cfg k) s (IMsg m) eq_refl) as (Hmono & _).
    rewrite Es in Hmono. unfold ReplicaMono.st_of in Hmono. cbn [fst] in Hmono.
    assert (Hsame : r_view s' = r_view s) by lia.
    destruct (m_msg m) as [p' j'|c|t|j'] eqn:Em.
    - cbn [kmsg] in Hkm.
      assert (Hno : forall mv', prop_pre (cfg k) s (m_key m) (m_sig_ok m) j' mv' -> False).
      { intros mv' (Ejv & Eold & _ & _ & Ever). cbn [cchk cg ce cC pcfg] in *.
        pose proof (just_lt j' Hkm Ever). pose proof (jview_num j' mv' Ejv).
        apply orb_false_iff in Eold. destruct Eold as [E1 _]. apply Z.ltb_ge in E1. lia. }
      destruct (rstep_t_proposal (cfg k) s m p' j' Em) as
        [(r0 & E & Hr0)|[(mv' & n' & Hpre & _)|(mv' & n' & oh0 & s1 & hash & Hpre & _)]].
      + rewrite E in Es. inversion Es; subst. split; [apply frame_frame0, frame_refl|constructor].
      + exfalso. exact (Hno mv' Hpre).
      + exfalso. exact (Hno mv' Hpre).
    - rewrite rstep_t_other in Es by (intros ? ?; rewrite Em; discriminate). cbn [rstep] in Es. rewrite Em in Es.
      assert (Hs' : stopsA (snd (on_commit (cfg k) s (m_key m) (m_sig_ok m) c)) = false) by (rewrite Es; exact Hs).
      assert (Hv' : r_view (st_of (on_commit (cfg k) s (m_key m) (m_sig_ok m) c)) = r_view s) by (rewrite Es; exact Hsame).
      destruct (commit_same_view (cfg k) s (m_key m) (m_sig_ok m) c Hinv eq_refl Hs' Hv')
        as [(r0 & E & _)|(i0 & _ & _ & _ & _ & _ & _ & E)]; rewrite E in Es; inversion Es; subst s' es r.
      + split; [apply frame_frame0, frame_refl|constructor].
      + split; [apply frame0_caches|constructor].
    - rewrite rstep_t_other in Es by (intros ? ?; rewrite Em; discriminate). cbn [rstep] in Es. rewrite Em in Es.
      assert (Hs' : stopsA (snd (on_timeout (cfg k) s (m_key m) (m_sig_ok m) t)) = false) by (rewrite Es; exact Hs).
      assert (Hv' : r_view (st_of (on_timeout (cfg k) s (m_key m) (m_sig_ok m) t)) = r_view s) by (rewrite Es; exact Hsame).
      destruct (timeout_same_view (cfg k) s (m_key m) (m_sig_ok m) t Hinv eq_refl Hs' Hv') as (F & Ee & _).
      rewrite Es in F, Ee. unfold st_of in F. cbn [fst snd] in F, Ee. subst es.
      split; [apply frame_frame0; exact F|constructor].
    - rewrite rstep_t_other in Es by (intros ? ?; rewrite Em; discriminate). cbn [rstep] in Es. rewrite Em in Es.
      assert (Hv' : r_view (st_of (on_new_view (cfg k) s (m_key m) (m_sig_ok m) j')) = r_view s) by (rewrite Es; exact Hsame).
      destruct (new_view_same_view (cfg k) s (m_key m) (m_sig_ok m) j' Hv') as [(r0 & E & _)|(_ & F & Hq & _)].
      + rewrite E in Es. inversion Es; subst s' es r. split; [apply frame_frame0, frame_refl|constructor].
      + rewrite Es in F, Hq. unfold st_of in F. cbn [fst snd] in F, Hq. split; [apply frame_frame0; exact F|exact Hq].
  Qed.

  Lemma view_le_V t k : 0 <= V -> RInv P Sg t -> hon k = true -> up t k -> hview t k <= V.
  Proof.
    intros HV0 HR Hk Hal. destruct (node_certs_good P Sg t k HR Hk Hal) as [Hq Ht].
    apply (view_le_certs P Sg t k V HR Hk Hal HV0).
    - intros q Eq. apply Hcq. apply Hq. exact Eq.
    - intros tq Et. destruct (Ht tq Et) as [Hv Hk2]. apply Htq; assumption.
  Qed.

  (* a node still collecting votes cannot have counted every honest validator *)
  Lemma coll_full_contra k s : RC.cache_inv (cfg k) s -> coll k s ->
    (exists h, hon h = true) -> (forall h, hon h = true -> hasbit (cfg k) s h cstar) -> False.
  Proof.
    intros Hinv (_&_&_&_&_&_&C7) [h0 Hh0] Hall.
    destruct (Hall h0 Hh0) as (i00 & q0 & _ & _ & Hq0 & _). cbn [cview] in Hq0. rewrite Hmv in Hq0.
    pose proof (C7 q0 Hq0) as Hlow.
    assert (Hb : exists b, zmap_get (r_commit_qcs s) V = Some b /\ cmap_get b cstar = Some q0).
    { unfold qc_at in Hq0. destruct (zmap_get (r_commit_qcs s) V) as [b|]; [|discriminate]. eauto. }
    destruct Hb as (b & Hb1 & Hb2).
    destruct (RC.cache_inv_commit_qc (cfg k) s V b cstar q0 Hinv Hb1 Hb2) as ([Hlen _] & _).
    cbn [cC pcfg] in Hlen.
    assert (Hq : quorum (p_C P) <= weight W (qsigners q0)).
    { apply (honest_bits_quorum P HP); [exact Hlen|]. intros h i Hh Hi.
      destruct (Hall h Hh) as (i1 & q1 & Hi1 & _ & Hq1 & Hbit). cbn [cview cC pcfg] in *. rewrite Hmv in Hq1.
      rewrite Hq0 in Hq1. inversion Hq1; subst q1. rewrite Hi in Hi1. inversion Hi1; subst i1.
      rewrite RC.nth_error_bit; [rewrite Hbit; reflexivity|]. rewrite Hlen. exact (TqcAssembly.cindex_lt _ _ _ Hi). }
    lia.
  Qed.
End Lock.
