(* Proofs about Model/BlockStore.v (property C08). *)
From Coq Require Import ZArith List Bool Lia.
From EC Require Import Lib.Outcome Lib.Obs Model.BlockStore.
Import ListNotations.
Open Scope Z_scope.

(* ---------- basic vocabulary ---------- *)
Definition qnext (s : store) : Z := bs_next (queued s).
Definition pnext (s : store) : Z := bs_next (persisted s).

(* a durable range as the persistence layer may publish it (H-ENG): numbers are
   non-negative and first <= last + 1 *)
Definition bs_wf (p : bss) : Prop :=
  0 <= bfirst p /\ match blast p with Some l => bfirst p <= l + 1 | None => True end.

Fixpoint consec (k : Z) (c : list block) : Prop :=
  match c with
  | [] => True
  | b :: c' => bnum b = k /\ consec (k + 1) c'
  end.

Definition cinv (cp : nat) (qn pn : Z) (c : list block) : Prop :=
  consec (qn - Z.of_nat (length c)) c /\
  qn - Z.of_nat (length c) <= pn /\
  ((length c <= cp)%nat \/ qn - Z.of_nat (length c) = pn).

Record sinv (c : cfg) (s : store) : Prop := {
  i_cache : cinv (cap c) (qnext s) (pnext s) (cache s);
  i_last : cache s <> [] -> blast (queued s) <> None;
  i_pq : pnext s <= qnext s;
  i_first : bfirst (persisted s) <= bfirst (queued s);
  i_pwf : bs_wf (persisted s);
  i_ver : Forall (fun b => verified c b = true) (cache s)
}.

(* ---------- consec / sblock ---------- *)
Lemma consec_app : forall c k b, consec k c -> bnum b = k + Z.of_nat (length c) ->
  consec k (c ++ [b]).
Proof.
  induction c as [|f c IH]; intros k b Hc Hb; cbn [app consec length] in *.
  - split; [lia | exact I].
  - destruct Hc as [Hf Hc]. split; [exact Hf|]. apply IH; [exact Hc|]. lia.
Qed.

Lemma consec_range : forall c k b, consec k c -> In b c ->
  k <= bnum b < k + Z.of_nat (length c).
Proof.
  induction c as [|f c IH]; intros k b Hc Hin; cbn [consec length In] in *.
  - contradiction.
  - destruct Hc as [Hf Hc]. destruct Hin as [->|Hin].
    + lia.
    + specialize (IH _ _ Hc Hin). lia.
Qed.

Lemma consec_nth : forall c k i b, consec k c -> nth_error c i = Some b ->
  bnum b = k + Z.of_nat i.
Proof.
  induction c as [|f c IH]; intros k i b Hc Hn.
  - destruct i; discriminate.
  - cbn [consec] in Hc. destruct Hc as [Hf Hc]. destruct i as [|i]; cbn [nth_error] in Hn.
    + inversion Hn; subst. lia.
    + rewrite (IH _ _ _ Hc Hn). lia.
Qed.

Lemma consec_In_nth : forall c k b, consec k c -> In b c ->
  nth_error c (Z.to_nat (bnum b - k)) = Some b.
Proof.
  induction c as [|f c IH]; intros k b Hc Hin; cbn [consec In] in *.
  - contradiction.
  - destruct Hc as [Hf Hc]. destruct Hin as [->|Hin].
    + replace (bnum b - k) with 0 by lia. reflexivity.
    + pose proof (consec_range _ _ _ Hc Hin) as Hr.
      replace (Z.to_nat (bnum b - k)) with (S (Z.to_nat (bnum b - (k + 1)))) by lia.
      cbn [nth_error]. apply IH; assumption.
Qed.

Lemma sblock_spec : forall c k n b, consec k c ->
  (sblock c n = Some b <-> In b c /\ bnum b = n).
Proof.
  intros c k n b Hc. destruct c as [|f c'].
  - cbn. split; [discriminate | intros [[] _]].
  - assert (Hf : bnum f = k) by (cbn [consec] in Hc; tauto).
    unfold sblock. split.
    + destruct (n <? bnum f) eqn:E; [discriminate|]. apply Z.ltb_ge in E. intros Hn.
      split; [eapply nth_error_In; exact Hn|].
      rewrite (consec_nth _ _ _ _ Hc Hn). lia.
    + intros [Hin Hb]. pose proof (consec_range _ _ _ Hc Hin) as Hr.
      destruct (n <? bnum f) eqn:E; [apply Z.ltb_lt in E; lia|].
      rewrite <- Hb, Hf. apply consec_In_nth; assumption.
Qed.

Lemma sblock_exists : forall c k n, consec k c -> k <= n < k + Z.of_nat (length c) ->
  exists b, sblock c n = Some b /\ bnum b = n.
Proof.
  intros c k n Hc Hr.
  destruct (nth_error c (Z.to_nat (n - k))) as [b|] eqn:E.
  - exists b. pose proof (consec_nth _ _ _ _ Hc E) as Hb.
    assert (Hn : bnum b = n) by lia. split; [|exact Hn].
    apply (sblock_spec c k n b Hc). split; [eapply nth_error_In; exact E | exact Hn].
  - apply nth_error_None in E. lia.
Qed.

(* ---------- truncate ---------- *)
Lemma truncate_split : forall cp pn c,
  exists pre, c = pre ++ truncate cp pn c /\ Forall (fun b => bnum b < pn) pre.
Proof.
  intros cp pn c. induction c as [|f c IH].
  - exists []. split; [reflexivity | constructor].
  - cbn [truncate]. destruct ((cp <? length (f :: c))%nat && (bnum f <? pn)) eqn:E.
    + destruct IH as (pre & Heq & Hall). exists (f :: pre). split.
      * cbn [app]. f_equal. exact Heq.
      * constructor; [|exact Hall]. apply andb_true_iff in E. destruct E as [_ E].
        apply Z.ltb_lt in E. exact E.
    + exists []. split; [reflexivity | constructor].
Qed.

Lemma truncate_cinv : forall cp pn c qn,
  consec (qn - Z.of_nat (length c)) c -> qn - Z.of_nat (length c) <= pn ->
  cinv cp qn pn (truncate cp pn c).
Proof.
  intros cp pn c. induction c as [|f c IH]; intros qn Hc Hf.
  - cbn [truncate]. unfold cinv. cbn [length] in *. repeat split; try assumption. left. lia.
  - cbn [truncate]. destruct ((cp <? length (f :: c))%nat && (bnum f <? pn)) eqn:E.
    + apply andb_true_iff in E. destruct E as [_ E]. apply Z.ltb_lt in E.
      cbn [consec length] in Hc. destruct Hc as [Hb Hc].
      apply IH.
      * replace (qn - Z.of_nat (length c)) with (qn - Z.of_nat (S (length c)) + 1) by lia. exact Hc.
      * lia.
    + unfold cinv. split; [exact Hc|]. split; [exact Hf|].
      apply andb_false_iff in E. destruct E as [E|E].
      * left. apply Nat.ltb_ge in E. exact E.
      * right. apply Z.ltb_ge in E. cbn [consec] in Hc. destruct Hc as [Hb _]. lia.
Qed.

Lemma truncate_In : forall cp pn c b, In b (truncate cp pn c) -> In b c.
Proof.
  intros cp pn c b Hin. destruct (truncate_split cp pn c) as (pre & Heq & _).
  rewrite Heq. apply in_or_app. right. exact Hin.
Qed.

Lemma truncate_keeps : forall cp pn c b, In b c -> pn <= bnum b -> In b (truncate cp pn c).
Proof.
  intros cp pn c b Hin Hge. destruct (truncate_split cp pn c) as (pre & Heq & Hall).
  rewrite Heq in Hin. apply in_app_or in Hin. destruct Hin as [Hin|Hin]; [|exact Hin].
  rewrite Forall_forall in Hall. specialize (Hall _ Hin). cbn in Hall. lia.
Qed.

Lemma truncate_Forall : forall (P : block -> Prop) cp pn c, Forall P c -> Forall P (truncate cp pn c).
Proof.
  intros P cp pn c H. rewrite Forall_forall in *. intros b Hb. apply H. eapply truncate_In; exact Hb.
Qed.

Lemma truncate_nil_inv : forall cp pn c, c = [] -> truncate cp pn c = [].
Proof. intros; subst; reflexivity. Qed.

(* ---------- bs facts ---------- *)
Lemma bs_wf_next : forall p, bs_wf p -> bfirst p <= bs_next p /\ 0 <= bs_next p.
Proof.
  intros p [H0 H]. unfold bs_next. destruct (blast p); lia.
Qed.

Lemma bs_verify_wf : forall p, bs_verify p = true -> 0 <= bfirst p -> bs_wf p.
Proof.
  intros p Hv H0. split; [exact H0|]. unfold bs_verify in Hv. destruct (blast p); [|exact I].
  apply Z.leb_le in Hv. lia.
Qed.

(* ---------- try_push ---------- *)
Lemma try_push_inv : forall c s b, sinv c s -> verified c b = true ->
  sinv c (fst (try_push (cap c) s b)).
Proof.
  intros c s b I Hv. unfold try_push. destruct (bs_next (queued s) =? bnum b) eqn:E; [|exact I].
  apply Z.eqb_eq in E. cbn [fst]. destruct I as [[Hc [Hf Hcap]] Hl Hpq Hfi Hwf Hver].
  unfold qnext, pnext in *.
  assert (Hq : bs_next {| bfirst := bfirst (queued s); blast := Some (bnum b) |} = bs_next (queued s) + 1)
    by (unfold bs_next at 1; cbn [blast]; lia).
  constructor; unfold qnext, pnext; cbn [queued persisted cache].
  - rewrite Hq. apply truncate_cinv.
    + rewrite app_length. cbn [length].
      replace (bs_next (queued s) + 1 - Z.of_nat (length (cache s) + 1))
        with (bs_next (queued s) - Z.of_nat (length (cache s))) by lia.
      apply consec_app; [exact Hc|]. lia.
    + rewrite app_length. cbn [length]. lia.
  - intros _. cbn [blast]. discriminate.
  - rewrite Hq. lia.
  - cbn [bfirst]. exact Hfi.
  - exact Hwf.
  - apply truncate_Forall. apply Forall_app. split; [exact Hver|]. constructor; [exact Hv|constructor].
Qed.

Lemma try_push_qnext : forall cp s b, qnext s <= qnext (fst (try_push cp s b)).
Proof.
  intros cp s b. unfold try_push. destruct (bs_next (queued s) =? bnum b) eqn:E; cbn [fst]; [|lia].
  apply Z.eqb_eq in E. unfold qnext. cbn [queued]. unfold bs_next at 2. cbn [blast]. lia.
Qed.

Lemma try_push_pers : forall cp s b, persisted (fst (try_push cp s b)) = persisted s.
Proof.
  intros cp s b. unfold try_push. destruct (bs_next (queued s) =? bnum b); reflexivity.
Qed.

(* blocks not yet persisted stay; nothing is substituted *)
Lemma try_push_keeps : forall c s b n x, sinv c s -> verified c b = true ->
  sblock (cache s) n = Some x -> pnext s <= n ->
  sblock (cache (fst (try_push (cap c) s b))) n = Some x.
Proof.
  intros c s b n x I Hv Hx Hn.
  pose proof (try_push_inv c s b I Hv) as I'.
  unfold try_push in *. destruct (bs_next (queued s) =? bnum b) eqn:E; cbn [fst] in *; [|exact Hx].
  destruct I as [[Hc _] _ _ _ _ _]. destruct I' as [[Hc' _] _ _ _ _ _].
  cbn [cache] in *.
  apply (sblock_spec _ _ n x Hc) in Hx. destruct Hx as [Hin Hb].
  apply (sblock_spec _ _ n x Hc'). split; [|exact Hb].
  apply truncate_keeps; [apply in_or_app; left; exact Hin|]. unfold pnext in Hn. lia.
Qed.

Lemma try_push_from : forall c s b n x, sinv c s -> verified c b = true ->
  sblock (cache (fst (try_push (cap c) s b))) n = Some x ->
  sblock (cache s) n = Some x \/ qnext s <= n.
Proof.
  intros c s b n x I Hv Hx.
  pose proof (try_push_inv c s b I Hv) as I'.
  unfold try_push in *. destruct (bs_next (queued s) =? bnum b) eqn:E; cbn [fst] in *; [|left; exact Hx].
  apply Z.eqb_eq in E.
  destruct I as [[Hc _] _ _ _ _ _]. destruct I' as [[Hc' _] _ _ _ _ _].
  cbn [cache] in *.
  apply (sblock_spec _ _ n x Hc') in Hx. destruct Hx as [Hin Hb].
  apply truncate_In in Hin. apply in_app_or in Hin. destruct Hin as [Hin|[<-|[]]].
  - left. apply (sblock_spec _ _ n x Hc). split; assumption.
  - right. unfold qnext. lia.
Qed.

Lemma try_push_contains : forall cp s b n, bs_contains (queued s) n = true ->
  bs_contains (queued (fst (try_push cp s b))) n = true.
Proof.
  intros cp s b n H. unfold try_push. destruct (bs_next (queued s) =? bnum b) eqn:E; cbn [fst]; [|exact H].
  apply Z.eqb_eq in E. unfold bs_contains, bs_next in *. cbn [queued blast bfirst].
  destruct (blast (queued s)) as [l|]; [|discriminate].
  apply andb_true_iff in H. destruct H as [H1 H2]. apply Z.leb_le in H1, H2.
  apply andb_true_iff. split; apply Z.leb_le; lia.
Qed.

(* ---------- update_persisted ---------- *)
Definition q1_of (s : store) (p : bss) : bss :=
  if bfirst (queued s) <? bfirst p then {| bfirst := bfirst p; blast := blast (queued s) |} else queued s.

Lemma update_persisted_unfold : forall cp s p s', update_persisted cp s p = Some s' ->
  bs_next (persisted s) <= bs_next p /\
  ((bs_next (q1_of s p) < bs_next p /\ s' = {| queued := p; persisted := p; cache := [] |}) \/
   (bs_next p <= bs_next (q1_of s p) /\
    s' = {| queued := q1_of s p; persisted := p; cache := truncate cp (bs_next p) (cache s) |})).
Proof.
  intros cp s p s' H. unfold update_persisted in H. fold (q1_of s p) in H.
  destruct (bs_next p <? bs_next (persisted s)) eqn:E; [discriminate|]. apply Z.ltb_ge in E.
  split; [exact E|]. destruct (bs_next (q1_of s p) <? bs_next p) eqn:E2; cbn [fst snd] in H; inversion H; subst.
  - left. apply Z.ltb_lt in E2. split; [exact E2 | reflexivity].
  - right. apply Z.ltb_ge in E2. split; [exact E2 | reflexivity].
Qed.

Lemma q1_facts : forall s p,
  blast (q1_of s p) = blast (queued s) /\
  bfirst p <= bfirst (q1_of s p) /\ bfirst (queued s) <= bfirst (q1_of s p) /\
  (bfirst (q1_of s p) = bfirst p \/ bfirst (q1_of s p) = bfirst (queued s)) /\
  bs_next (queued s) <= bs_next (q1_of s p).
Proof.
  intros s p. unfold q1_of. destruct (bfirst (queued s) <? bfirst p) eqn:E.
  - apply Z.ltb_lt in E. cbn [blast bfirst]. unfold bs_next. cbn [blast bfirst].
    destruct (blast (queued s)); repeat split; lia.
  - apply Z.ltb_ge in E. repeat split; lia.
Qed.

Lemma update_persisted_inv : forall c s p s', sinv c s -> bs_wf p ->
  update_persisted (cap c) s p = Some s' -> sinv c s'.
Proof.
  intros c s p s' I Hp H. apply update_persisted_unfold in H. destruct H as [Hmono H].
  destruct (q1_facts s p) as (Hl1 & Hf1 & Hf2 & Hf3 & Hn1).
  destruct (bs_wf_next p Hp) as [Hpf Hp0].
  destruct I as [[Hc [Hf Hcap]] Hl Hpq Hfi Hwf Hver]. unfold qnext, pnext in *.
  destruct H as [[Hlt ->]|[Hge ->]]; constructor; unfold qnext, pnext; cbn [queued persisted cache].
  - unfold cinv. cbn [length consec]. repeat split; lia.
  - intros Hne. contradiction.
  - lia.
  - lia.
  - exact Hp.
  - constructor.
  - apply truncate_cinv.
    + destruct (blast (queued s)) as [l|] eqn:El.
      * assert (bs_next (q1_of s p) = bs_next (queued s)) as ->; [|exact Hc].
        unfold bs_next. rewrite Hl1, El. reflexivity.
      * destruct (cache s) as [|f cs] eqn:Ec; [exact I|].
        exfalso. apply Hl; [discriminate | reflexivity].
    + destruct (blast (queued s)) as [l|] eqn:El.
      * assert (bs_next (q1_of s p) = bs_next (queued s)) as ->; [|lia].
        unfold bs_next. rewrite Hl1, El. reflexivity.
      * destruct (cache s) as [|f cs] eqn:Ec.
        -- cbn [length] in *. unfold bs_next at 1. rewrite Hl1.
           unfold bs_next in Hf at 1. rewrite El in Hf.
           destruct Hf3 as [->| ->]; lia.
        -- exfalso. apply Hl; [discriminate | reflexivity].
  - intros Hne. rewrite Hl1. apply Hl. intros Hnil. apply Hne. rewrite Hnil. reflexivity.
  - exact Hge.
  - exact Hf1.
  - exact Hp.
  - apply truncate_Forall. exact Hver.
Qed.

Lemma update_persisted_qnext : forall cp s p s', update_persisted cp s p = Some s' ->
  qnext s <= qnext s'.
Proof.
  intros cp s p s' H. apply update_persisted_unfold in H. destruct H as [_ H].
  destruct (q1_facts s p) as (_ & _ & _ & _ & Hn1). unfold qnext.
  destruct H as [[Hlt ->]|[Hge ->]]; cbn [queued]; lia.
Qed.

Lemma update_persisted_pers : forall cp s p s', update_persisted cp s p = Some s' -> persisted s' = p.
Proof.
  intros cp s p s' H. apply update_persisted_unfold in H. destruct H as [_ [[_ ->]|[_ ->]]]; reflexivity.
Qed.

Lemma update_persisted_keeps : forall c s p s' n x, sinv c s -> bs_wf p ->
  update_persisted (cap c) s p = Some s' ->
  sblock (cache s) n = Some x -> pnext s' <= n -> sblock (cache s') n = Some x.
Proof.
  intros c s p s' n x I Hp H Hx Hn.
  pose proof (update_persisted_inv c s p s' I Hp H) as I'.
  apply update_persisted_unfold in H. destruct H as [Hmono H].
  destruct (q1_facts s p) as (_ & _ & _ & _ & Hn1).
  destruct I as [[Hc _] _ _ _ _ _]. destruct I' as [[Hc' _] _ _ _ _ _].
  apply (sblock_spec _ _ n x Hc) in Hx. destruct Hx as [Hin Hb].
  pose proof (consec_range _ _ _ Hc Hin) as Hr. unfold qnext, pnext in *.
  destruct H as [[Hlt ->]|[Hge ->]]; cbn [queued persisted cache] in *.
  - lia.
  - apply (sblock_spec _ _ n x Hc'). split; [|exact Hb]. apply truncate_keeps; [exact Hin | lia].
Qed.

Lemma update_persisted_from : forall c s p s' n x, sinv c s -> bs_wf p ->
  update_persisted (cap c) s p = Some s' ->
  sblock (cache s') n = Some x -> sblock (cache s) n = Some x.
Proof.
  intros c s p s' n x I Hp H Hx.
  pose proof (update_persisted_inv c s p s' I Hp H) as I'.
  apply update_persisted_unfold in H. destruct H as [Hmono H].
  destruct I as [[Hc _] _ _ _ _ _]. destruct I' as [[Hc' _] _ _ _ _ _].
  destruct H as [[Hlt ->]|[Hge ->]]; cbn [queued persisted cache] in *.
  - discriminate.
  - apply (sblock_spec _ _ n x Hc') in Hx. destruct Hx as [Hin Hb].
    apply (sblock_spec _ _ n x Hc). split; [eapply truncate_In; exact Hin | exact Hb].
Qed.

Lemma update_persisted_contains : forall cp s p s' n, bs_wf p ->
  update_persisted cp s p = Some s' -> bs_contains (queued s) n = true ->
  bs_contains (queued s') n = true \/ n < bfirst (persisted s').
Proof.
  intros cp s p s' n Hp H Hn.
  apply update_persisted_unfold in H. destruct H as [Hmono H].
  destruct (q1_facts s p) as (Hl1 & Hf1 & Hf2 & Hf3 & Hn1).
  unfold bs_contains in Hn. destruct (blast (queued s)) as [l|] eqn:El; [|discriminate].
  apply andb_true_iff in Hn. destruct Hn as [H1 H2]. apply Z.leb_le in H1, H2.
  assert (Hq1 : bs_next (q1_of s p) = l + 1) by (unfold bs_next; rewrite Hl1; reflexivity).
  destruct (Z_lt_le_dec n (bfirst p)) as [Hlt|Hge0].
  { right. destruct H as [[_ ->]|[_ ->]]; cbn [persisted]; exact Hlt. }
  left. destruct H as [[Hlt ->]|[Hge ->]]; cbn [queued]; unfold bs_contains.
  - unfold bs_next in Hlt at 2. destruct (blast p) as [lp|] eqn:Elp.
    + apply andb_true_iff. split; apply Z.leb_le; lia.
    + lia.
  - rewrite Hl1. apply andb_true_iff. split; apply Z.leb_le; [|lia].
    destruct Hf3 as [->| ->]; lia.
Qed.

(* ---------- readable ---------- *)
Lemma readable_store : forall c s n, sinv c s -> bs_contains (queued s) n = true ->
  (exists b, sblock (cache s) n = Some b /\ bnum b = n) \/ bs_contains (persisted s) n = true.
Proof.
  intros c s n I Hn. destruct I as [[Hc [Hf Hcap]] Hl Hpq Hfi Hwf Hver]. unfold qnext, pnext in *.
  unfold bs_contains in Hn. destruct (blast (queued s)) as [l|] eqn:El; [|discriminate].
  apply andb_true_iff in Hn. destruct Hn as [H1 H2]. apply Z.leb_le in H1, H2.
  assert (Hq : bs_next (queued s) = l + 1) by (unfold bs_next; rewrite El; reflexivity).
  destruct (Z_lt_le_dec n (bs_next (queued s) - Z.of_nat (length (cache s)))) as [Hlt|Hge].
  - right. unfold bs_contains. unfold bs_next in Hf at 2. destruct (blast (persisted s)) as [lp|].
    + apply andb_true_iff. split; apply Z.leb_le; lia.
    + lia.
  - left. eapply sblock_exists; [exact Hc|]. lia.
Qed.

(* ---------- manager level ---------- *)
Fixpoint log_ok (l : list (block * Z)) : Prop :=
  match l with
  | [] => True
  | (b, pn) :: l' =>
      (bnum b = pn \/ match l' with (b', _) :: _ => bnum b = bnum b' + 1 | [] => False end) /\
      log_ok l'
  end.

Definition calls_ok (c : cfg) (l : list (Z * block)) : Prop :=
  Forall (fun kb => verified c (snd kb) = true) l.

Record minv (c : cfg) (m : mstate) : Prop := {
  mi_store : sinv c (ms m);
  mi_env : bs_wf (env m);
  mi_wait : calls_ok c (waiting m);
  mi_ready : calls_ok c (ready m);
  mi_log : log_ok (log m);
  mi_logv : Forall (fun e => verified c (fst e) = true) (log m);
  mi_qn : qn m = 0 \/ exists b pn l', log m = (b, pn) :: l' /\ qn m = bnum b + 1;
  mi_qnle : qn m <= qnext (ms m)
}.

Definition step_sane (s : step) : Prop :=
  match s with EnvPersist p => bs_wf p | _ => True end.
Definition not_restart (s : step) : Prop :=
  match s with Restart => False | _ => True end.

Lemma lookup_In : forall id l b, lookup id l = Some b -> exists k, In (k, b) l.
Proof.
  induction l as [|[k x] l IH]; intros b H; cbn [lookup] in H; [discriminate|].
  destruct (k =? id).
  - inversion H; subst. exists k. left. reflexivity.
  - destruct (IH _ H) as [k' Hk]. exists k'. right. exact Hk.
Qed.

Lemma calls_lookup : forall c l id b, calls_ok c l -> lookup id l = Some b -> verified c b = true.
Proof.
  intros c l id b H Hl. destruct (lookup_In _ _ _ Hl) as [k Hk].
  unfold calls_ok in H. rewrite Forall_forall in H. exact (H _ Hk).
Qed.

Lemma calls_remove : forall c l id, calls_ok c l -> calls_ok c (remove id l).
Proof.
  intros c l id H. unfold calls_ok, remove in *. rewrite Forall_forall in *.
  intros x Hx. apply filter_In in Hx. apply H. tauto.
Qed.

Lemma init_sinv : forall c p, bs_wf p -> sinv c {| queued := p; persisted := p; cache := [] |}.
Proof.
  intros c p Hp. constructor; unfold qnext, pnext; cbn [queued persisted cache].
  - unfold cinv. cbn [length consec]. repeat split; lia.
  - intros H; contradiction.
  - lia.
  - lia.
  - exact Hp.
  - constructor.
Qed.

Lemma init_minv : forall c p, bs_wf p -> minv c (init_state p).
Proof.
  intros c p Hp. constructor; cbn.
  - apply init_sinv. exact Hp.
  - exact Hp.
  - constructor.
  - constructor.
  - exact I.
  - constructor.
  - left. reflexivity.
  - unfold qnext. cbn [queued]. destruct (bs_wf_next p Hp). lia.
Qed.

Ltac simp_ms := cbn [set_calls set_ms set_alive set_parked set_env ms].

Ltac simp_m := cbn [set_calls set_ms set_alive set_parked set_env ms qn alive parked waiting ready env log].

(* How a step can change the store. *)
Inductive store_change (c : cfg) (m : mstate) : store -> Prop :=
| sc_same : store_change c m (ms m)
| sc_push : forall b, verified c b = true -> store_change c m (fst (try_push (cap c) (ms m) b))
| sc_pers : forall s', update_persisted (cap c) (ms m) (env m) = Some s' -> store_change c m s'.

Lemma mstep_store_change : forall c m s, minv c m -> not_restart s ->
  store_change c m (ms (mstep c m s)).
Proof.
  intros c m s I Hnr. destruct s; cbn [mstep]; try contradiction.
  - destruct (verify c b); simp_ms; apply sc_same.
  - destruct (lookup id (waiting m)); [|apply sc_same].
    destruct (bnum b <=? bs_next (queued (ms m))); simp_ms; apply sc_same.
  - destruct (lookup id (ready m)) as [b|] eqn:E; [|apply sc_same].
    simp_ms. apply sc_push. eapply calls_lookup; [apply (mi_ready _ _ I) | exact E].
  - simp_ms. apply sc_same.
  - simp_ms. apply sc_same.
  - destruct (alive m); [|apply sc_same].
    destruct (update_persisted (cap c) (ms m) (env m)) as [s'|] eqn:E; simp_ms; [|apply sc_same].
    apply sc_pers. exact E.
  - destruct (alive m && negb (parked m)); [|apply sc_same].
    destruct (sblock (cache (ms m)) (submit_target m)); simp_ms; apply sc_same.
  - simp_ms. apply sc_same.
Qed.

Lemma store_change_inv : forall c m s', minv c m -> store_change c m s' -> sinv c s'.
Proof.
  intros c m s' I H. destruct H.
  - apply (mi_store _ _ I).
  - apply try_push_inv; [apply (mi_store _ _ I) | assumption].
  - eapply update_persisted_inv; [apply (mi_store _ _ I) | apply (mi_env _ _ I) | eassumption].
Qed.

Lemma mstep_inv : forall c m s, minv c m -> step_sane s -> minv c (mstep c m s).
Proof.
  intros c m s I Hs.
  destruct s.
  - (* Call *) cbn [mstep]. destruct (verify c b) eqn:E; try exact I.
    destruct I. constructor; simp_m; try assumption.
    constructor; [|assumption]. cbn. unfold verified. rewrite E. reflexivity.
  - (* Wake *) cbn [mstep]. destruct (lookup id (waiting m)) as [b|] eqn:E; [|exact I].
    destruct (bnum b <=? bs_next (queued (ms m))); [|exact I].
    pose proof (calls_lookup _ _ _ _ (mi_wait _ _ I) E) as Hv.
    destruct I. constructor; simp_m; try assumption.
    + apply calls_remove; assumption.
    + constructor; [exact Hv | assumption].
  - (* Push *) cbn [mstep]. destruct (lookup id (ready m)) as [b|] eqn:E; [|exact I].
    pose proof (calls_lookup _ _ _ _ (mi_ready _ _ I) E) as Hv.
    destruct I. constructor; simp_m; try assumption.
    + apply try_push_inv; assumption.
    + apply calls_remove; assumption.
    + pose proof (try_push_qnext (cap c) (ms m) b). lia.
  - (* Cancel *) cbn [mstep]. destruct I. constructor; simp_m; try assumption; apply calls_remove; assumption.
  - (* EnvPersist *) cbn [mstep]. destruct I. constructor; simp_m; try assumption; try exact Hs.
  - (* Observe *) cbn [mstep]. destruct (alive m); [|exact I].
    destruct (update_persisted (cap c) (ms m) (env m)) as [s'|] eqn:E.
    + destruct I. constructor; simp_m; try assumption.
      * eapply update_persisted_inv; eassumption.
      * pose proof (update_persisted_qnext _ _ _ _ E). lia.
    + destruct I. constructor; simp_m; assumption.
  - (* Submit *) cbn [mstep]. destruct (alive m && negb (parked m)); [|exact I].
    destruct (sblock (cache (ms m)) (submit_target m)) as [b|] eqn:E; [|exact I].
    pose proof (mi_store _ _ I) as Is. destruct Is as [[Hc _] _ _ _ Hwf Hver].
    apply (sblock_spec _ _ _ _ Hc) in E. destruct E as [Hin Hb].
    destruct (bs_wf_next _ Hwf) as [_ Hp0].
    destruct I. constructor; simp_m; try assumption.
    + split; [|assumption]. unfold submit_target in Hb.
      destruct (Z_le_gt_dec (qn m) (bs_next (persisted (ms m)))) as [Hle|Hgt].
      * left. lia.
      * right. destruct mi_qn0 as [H0|(b' & pn' & l' & Hlog & Hq)].
        -- lia.
        -- rewrite Hlog. lia.
    + constructor; [|assumption]. cbn. rewrite Forall_forall in Hver. apply Hver. exact Hin.
    + right. eexists _, _, _. split; reflexivity.
    + pose proof (consec_range _ _ _ Hc Hin). unfold qnext in *. lia.
  - (* SubmitDone *) cbn [mstep]. destruct I. constructor; simp_m; assumption.
  - (* Restart *) cbn [mstep]. destruct (bs_verify (env m)) eqn:E; [|exact I].
    destruct I. constructor; simp_m; try assumption.
    + apply init_sinv. assumption.
    + constructor.
    + constructor.
    + left. reflexivity.
    + unfold qnext. cbn [queued]. destruct (bs_wf_next _ mi_env0). lia.
Qed.

Lemma run_inv : forall c ss m, minv c m -> Forall step_sane ss -> minv c (run c m ss).
Proof.
  intros c ss. induction ss as [|s ss IH]; intros m I Hs; cbn [run fold_left].
  - exact I.
  - inversion Hs; subst. apply IH; [|assumption]. apply mstep_inv; assumption.
Qed.

(* reachable states *)
Definition start_ok (p0 : bss) : Prop := bs_verify p0 = true /\ 0 <= bfirst p0.

Theorem store_inv_run : forall c p0 ss, start_ok p0 -> Forall step_sane ss ->
  minv c (run c (init_state p0) ss).
Proof.
  intros c p0 ss [Hv H0] Hs. apply run_inv; [|exact Hs]. apply init_minv.
  apply bs_verify_wf; assumption.
Qed.

(* verdict spelled out *)
Lemma has_epoch_sched_In : forall e s m, has_epoch_sched e s m = true <-> In (e, s) m.
Proof.
  intros e s m. unfold has_epoch_sched. rewrite existsb_exists. split.
  - intros ([k v] & Hin & H). cbn [fst snd] in H. apply andb_true_iff in H. destruct H as [H1 H2].
    apply Z.eqb_eq in H1, H2. subst. exact Hin.
  - intros Hin. exists (e, s). split; [exact Hin|]. cbn [fst snd]. rewrite !Z.eqb_refl. reflexivity.
Qed.

Lemma has_epoch_sched_has_epoch : forall e s m, has_epoch_sched e s m = true -> has_epoch e m = true.
Proof.
  intros e s m H. unfold has_epoch_sched, has_epoch in *. rewrite existsb_exists in *.
  destruct H as (kv & Hin & H). exists kv. split; [exact Hin|]. apply andb_true_iff in H. tauto.
Qed.

Lemma verified_spec : forall c b, verified c b = true <->
  (bkd b = KPre /\ bnum b < first_block c /\ bgood b = true) \/
  (bkd b = KFinal /\ In (bepoch b, bsched b) (epochs c) /\ bgood b = true).
Proof.
  intros c b. unfold verified, verify. destruct (bkd b).
  - destruct (first_block c <=? bnum b) eqn:E.
    + apply Z.leb_le in E. split; [discriminate|]. intros [(_ & H & _)|(H & _)]; [lia|discriminate].
    + apply Z.leb_gt in E. destruct (bgood b).
      * split; [|reflexivity]. intros _. left. repeat split. exact E.
      * split; [discriminate|]. intros [(_ & _ & H)|(H & _)]; discriminate.
  - destruct (has_epoch_sched (bepoch b) (bsched b) (epochs c)) eqn:P.
    + rewrite (has_epoch_sched_has_epoch _ _ _ P). apply has_epoch_sched_In in P.
      destruct (bgood b); cbn [andb].
      * split; [|reflexivity]. intros _. right. repeat split. exact P.
      * split; [discriminate|]. intros [(H & _)|(_ & _ & H)]; discriminate.
    + assert (Hn : ~ In (bepoch b, bsched b) (epochs c)).
      { intros Hin. apply has_epoch_sched_In in Hin. congruence. }
      rewrite andb_false_r. destruct (has_epoch (bepoch b) (epochs c));
        (split; [discriminate|]); intros [(H & _)|(_ & H & _)]; try discriminate; contradiction.
Qed.

(* a bigger epoch relation verifies at least as much *)
Lemma verified_mono : forall c c' b, first_block c' = first_block c ->
  (forall kv, In kv (epochs c) -> In kv (epochs c')) ->
  verified c b = true -> verified c' b = true.
Proof.
  intros c c' b Hf Hsub H. apply verified_spec in H. apply verified_spec. rewrite Hf.
  destruct H as [H|(H1 & H2 & H3)]; [left; exact H|]. right. repeat split; try assumption.
  apply Hsub. exact H2.
Qed.

(* ---------- step-level facts for non-restart steps ---------- *)
Lemma step_keeps : forall c m s n x, minv c m -> not_restart s ->
  sblock (cache (ms m)) n = Some x -> pnext (ms (mstep c m s)) <= n ->
  sblock (cache (ms (mstep c m s))) n = Some x.
Proof.
  intros c m s n x I Hnr Hx Hn.
  pose proof (mstep_store_change c m s I Hnr) as H.
  remember (ms (mstep c m s)) as s' eqn:Es. clear Es. destruct H.
  - exact Hx.
  - apply try_push_keeps; try assumption; [apply (mi_store _ _ I)|].
    unfold pnext in *. rewrite try_push_pers in Hn. exact Hn.
  - eapply update_persisted_keeps; try eassumption; [apply (mi_store _ _ I) | apply (mi_env _ _ I)].
Qed.

Lemma step_from : forall c m s n x, minv c m -> not_restart s ->
  sblock (cache (ms (mstep c m s))) n = Some x ->
  sblock (cache (ms m)) n = Some x \/ qnext (ms m) <= n.
Proof.
  intros c m s n x I Hnr Hx.
  pose proof (mstep_store_change c m s I Hnr) as H.
  remember (ms (mstep c m s)) as s' eqn:Es. clear Es. destruct H.
  - left. exact Hx.
  - eapply try_push_from; try eassumption. apply (mi_store _ _ I).
  - left. eapply update_persisted_from; try eassumption; [apply (mi_store _ _ I) | apply (mi_env _ _ I)].
Qed.

Lemma step_qnext : forall c m s, minv c m -> not_restart s ->
  qnext (ms m) <= qnext (ms (mstep c m s)).
Proof.
  intros c m s I Hnr.
  pose proof (mstep_store_change c m s I Hnr) as H.
  remember (ms (mstep c m s)) as s' eqn:Es. clear Es. destruct H.
  - lia.
  - apply try_push_qnext.
  - eapply update_persisted_qnext; eassumption.
Qed.

Lemma step_contains : forall c m s n, minv c m -> not_restart s ->
  bs_contains (queued (ms m)) n = true ->
  bs_contains (queued (ms (mstep c m s))) n = true \/ n < bfirst (persisted (ms (mstep c m s))).
Proof.
  intros c m s n I Hnr Hn.
  pose proof (mstep_store_change c m s I Hnr) as H.
  remember (ms (mstep c m s)) as s' eqn:Es. clear Es. destruct H.
  - left. exact Hn.
  - left. apply try_push_contains. exact Hn.
  - eapply update_persisted_contains; try eassumption. apply (mi_env _ _ I).
Qed.

Lemma cached_below_qnext : forall c s n x, sinv c s -> sblock (cache s) n = Some x -> n < qnext s.
Proof.
  intros c s n x I Hx. destruct I as [[Hc _] _ _ _ _ _].
  apply (sblock_spec _ _ n x Hc) in Hx. destruct Hx as [Hin Hb].
  pose proof (consec_range _ _ _ Hc Hin). lia.
Qed.

Lemma run_from : forall c ss m n x, minv c m -> Forall step_sane ss -> Forall not_restart ss ->
  sblock (cache (ms (run c m ss))) n = Some x ->
  sblock (cache (ms m)) n = Some x \/ qnext (ms m) <= n.
Proof.
  intros c ss. induction ss as [|s ss IH]; intros m n x I Hs Hnr Hx; cbn [run fold_left] in *.
  - left. exact Hx.
  - inversion Hs; subst. inversion Hnr; subst.
    pose proof (mstep_inv c m s I H1) as I1.
    destruct (IH _ _ _ I1 H2 H4 Hx) as [H|H].
    + eapply step_from; eassumption.
    + right. pose proof (step_qnext c m s I H3). lia.
Qed.

Theorem no_substitution_run : forall c ss m n x y, minv c m -> Forall step_sane ss ->
  Forall not_restart ss ->
  sblock (cache (ms m)) n = Some x -> sblock (cache (ms (run c m ss))) n = Some y -> x = y.
Proof.
  intros c ss m n x y I Hs Hnr Hx Hy.
  destruct (run_from c ss m n y I Hs Hnr Hy) as [H|H].
  - rewrite Hx in H. inversion H. reflexivity.
  - pose proof (cached_below_qnext c (ms m) n x (mi_store _ _ I) Hx). lia.
Qed.

Lemma run_qnext : forall c ss m, minv c m -> Forall step_sane ss -> Forall not_restart ss ->
  qnext (ms m) <= qnext (ms (run c m ss)).
Proof.
  intros c ss. induction ss as [|s ss IH]; intros m I Hs Hnr.
  - cbn [run fold_left]. lia.
  - change (run c m (s :: ss)) with (run c (mstep c m s) ss).
    inversion Hs; subst. inversion Hnr; subst.
    pose proof (mstep_inv c m s I H1) as I1.
    pose proof (step_qnext c m s I H3). specialize (IH _ I1 H2 H4). lia.
Qed.

(* get_block *)
Lemma get_block_spec : forall c m n, minv c m ->
  match get_block m n with
  | RNone => bs_contains (queued (ms m)) n = false
  | RCache b => bs_contains (queued (ms m)) n = true /\ bnum b = n /\ verified c b = true /\
                In b (cache (ms m))
  | RDurable k => bs_contains (queued (ms m)) n = true /\ k = n /\
                  bs_contains (persisted (ms m)) n = true
  end.
Proof.
  intros c m n I. unfold get_block.
  destruct (bs_contains (queued (ms m)) n) eqn:E; [|reflexivity].
  pose proof (mi_store _ _ I) as Is.
  destruct (readable_store c (ms m) n Is E) as [(b & Hb & Hn)|Hp].
  - rewrite Hb. destruct Is as [[Hc _] _ _ _ _ Hver].
    apply (sblock_spec _ _ _ _ Hc) in Hb. destruct Hb as [Hin _].
    repeat split; try assumption. rewrite Forall_forall in Hver. apply Hver. exact Hin.
  - destruct (sblock (cache (ms m)) n) as [b|] eqn:Hb.
    + destruct Is as [[Hc _] _ _ _ _ Hver].
      apply (sblock_spec _ _ _ _ Hc) in Hb. destruct Hb as [Hin Hn].
      repeat split; try assumption. rewrite Forall_forall in Hver. apply Hver. exact Hin.
    + repeat split. exact Hp.
Qed.

(* log entries: the block was cached, verified, and its number is as claimed *)
Lemma log_entries_verified : forall c m, minv c m ->
  forall b pn, In (b, pn) (log m) -> verified c b = true.
Proof.
  intros c m I b pn Hin. pose proof (mi_logv _ _ I) as H. rewrite Forall_forall in H.
  exact (H _ Hin).
Qed.

Lemma fetch_accept_number : forall req b, fetch_accept req b = true -> bnum b = req.
Proof. intros req b H. apply Z.eqb_eq in H. exact H. Qed.

(* ---------- the log changes only in Submit, and how ---------- *)
Lemma log_only_submit : forall c m s, s <> Submit -> log (mstep c m s) = log m.
Proof.
  intros c m s Hs. destruct s; cbn [mstep]; try congruence.
  - destruct (verify c b); reflexivity.
  - destruct (lookup id (waiting m)); [|reflexivity].
    destruct (bnum b <=? bs_next (queued (ms m))); reflexivity.
  - destruct (lookup id (ready m)); reflexivity.
  - reflexivity.
  - reflexivity.
  - destruct (alive m); [|reflexivity].
    destruct (update_persisted (cap c) (ms m) (env m)); reflexivity.
  - reflexivity.
  - destruct (bs_verify (env m)); reflexivity.
Qed.

Lemma submit_effect : forall c m, minv c m ->
  log (mstep c m Submit) = log m \/
  exists b, log (mstep c m Submit) = (b, pnext (ms m)) :: log m /\
            ms (mstep c m Submit) = ms m /\
            sblock (cache (ms m)) (bnum b) = Some b /\ verified c b = true /\
            (bnum b = pnext (ms m) \/
             exists b' pn' l', log m = (b', pn') :: l' /\ bnum b = bnum b' + 1).
Proof.
  intros c m I. pose proof (mstep_inv c m Submit I Logic.I) as I'.
  cbn [mstep] in *. destruct (alive m && negb (parked m)); [|left; reflexivity].
  destruct (sblock (cache (ms m)) (submit_target m)) as [b|] eqn:E; [|left; reflexivity].
  right. exists b. cbn [log ms].
  pose proof (mi_store _ _ I) as Is. destruct Is as [[Hc _] _ _ _ _ Hver].
  pose proof E as E2. apply (sblock_spec _ _ _ _ Hc) in E2. destruct E2 as [Hin Hb].
  split; [reflexivity|]. split; [reflexivity|]. split; [rewrite Hb; exact E|].
  split; [rewrite Forall_forall in Hver; apply Hver; exact Hin|].
  pose proof (mi_log _ _ I') as Hl. cbn [log log_ok] in Hl. destruct Hl as [[H|H] _].
  - left. exact H.
  - right. destruct (log m) as [|[b' pn'] l']; [contradiction|]. eexists _, _, _. split; [reflexivity | exact H].
Qed.

Lemma log_ok_split : forall pre b pn rest, log_ok (pre ++ (b, pn) :: rest) ->
  bnum b = pn \/ exists b' pn' rest', rest = (b', pn') :: rest' /\ bnum b = bnum b' + 1.
Proof.
  induction pre as [|[x px] pre IH]; intros b pn rest H; cbn [app log_ok] in H.
  - destruct H as [[H|H] _]; [left; exact H|]. right.
    destruct rest as [|[b' pn'] rest']; [contradiction|]. eexists _, _, _. split; [reflexivity | exact H].
  - destruct H as [_ H]. exact (IH _ _ _ H).
Qed.

(* ---------- the store invariant spelled out ---------- *)
Lemma sinv_explicit : forall c s, sinv c s ->
  let k := qnext s - Z.of_nat (length (cache s)) in
  (forall i b, nth_error (cache s) i = Some b -> bnum b = k + Z.of_nat i) /\
  (cache s <> [] -> blast (queued s) = Some (qnext s - 1)) /\
  k <= pnext s /\
  (cache s = [] -> qnext s = pnext s) /\
  pnext s <= qnext s /\
  bfirst (persisted s) <= bfirst (queued s) /\
  Z.of_nat (length (cache s)) <= Z.of_nat (cap c) + (qnext s - pnext s) /\
  (forall b, In b (cache s) -> verified c b = true).
Proof.
  intros c s I k. destruct I as [[Hc [Hf Hcap]] Hl Hpq Hfi Hwf Hver]. subst k.
  repeat split.
  - intros i b Hn. eapply consec_nth; eassumption.
  - intros Hne. specialize (Hl Hne). unfold qnext, bs_next. destruct (blast (queued s)) as [l|]; [|contradiction].
    f_equal. lia.
  - exact Hf.
  - intros Hnil. rewrite Hnil in Hf. cbn [length] in Hf. lia.
  - exact Hpq.
  - exact Hfi.
  - destruct Hcap as [H|H]; lia.
  - rewrite Forall_forall in Hver. exact Hver.
Qed.

(* ---------- the persister is never stuck below the queue ---------- *)
Lemma submit_enabled : forall c m, minv c m -> alive m = true -> parked m = false ->
  submit_target m < qnext (ms m) ->
  exists b, sblock (cache (ms m)) (submit_target m) = Some b /\ bnum b = submit_target m /\
            log (mstep c m Submit) = (b, pnext (ms m)) :: log m.
Proof.
  intros c m I Ha Hp Ht. pose proof (mi_store _ _ I) as Is.
  destruct Is as [[Hc [Hf _]] _ _ _ _ _].
  assert (Hr : qnext (ms m) - Z.of_nat (length (cache (ms m))) <= submit_target m
               < qnext (ms m) - Z.of_nat (length (cache (ms m))) + Z.of_nat (length (cache (ms m)))).
  { unfold submit_target in *. unfold pnext in *. lia. }
  destruct (sblock_exists _ _ _ Hc Hr) as (b & Hb & Hn).
  exists b. split; [exact Hb|]. split; [exact Hn|].
  cbn [mstep]. rewrite Ha, Hp. cbn [negb andb]. rewrite Hb. reflexivity.
Qed.

Lemma submit_target_le : forall c m, minv c m -> submit_target m <= qnext (ms m).
Proof.
  intros c m I. unfold submit_target. pose proof (mi_qnle _ _ I). pose proof (i_pq _ _ (mi_store _ _ I)).
  unfold pnext in *. lia.
Qed.
