(* C14, end to end: the pair of multiplexers.  For each direction (sender S, receiver R) and each pair of
   reusable streams: what S's stream has sent after the OPENs R's stream has consumed = what R's stream
   has taken since ++ what is still in flight (R's queue and cache, the frame the dispatcher is working
   on, the bytes in the transport).  Preserved by every transition of the model. *)
From Coq Require Import ZArith List Bool Lia.
From EC Require Import Lib.Outcome Lib.Obs Model.MuxHeader Model.Mux Proofs.MuxProofs Proofs.MuxRefine Proofs.MuxControl Proofs.MuxWire.
Import ListNotations.
Open Scope Z_scope.

(* ================= one direction of the pair: sender S, receiver R ================= *)
Definition m256 (b : Z) : Z := b mod 256.
Definition stoks (s : rstream) : list tok :=
  (match s_cache s with Some f => ftoks f | None => [] end) ++ flat_map ftoks (s_inq s).
Definition fk_ok (f : frame) : Prop := fkind f = FK_OPEN \/ fkind f = FK_CLOSE \/ fkind f = FK_DATA.
Definition rdb (s : rstream) : list Z := chunks_bytes (g_rdc (s_g s)).
Definition opp (k : Z) : Z := if k =? 0 then 1 else 0.

(* paired streams: what S's stream has sent, after the OPENs R's stream has consumed, is what R's
   stream has taken since (pre) followed by everything still in flight to it *)
Definition sinv (ss sr : rstream) (infl : list tok) : Prop :=
  (g_rn (s_g sr) <= length (g_wlog (s_g ss)))%nat /\
  Forall fk_ok (s_inq sr) /\ (forall f, s_cache sr = Some f -> fkind f = FK_DATA) /\
  exists pre, inc_tail (g_rn (s_g sr)) (Etoks ss) = pre ++ infl /\
    match s_rph sr with
    | RReady => pre = [] /\ s_closed sr = false /\ s_cache sr = None /\ (1 <= g_rn (s_g sr))%nat
    | RApp => pre = map TB (rdb sr) ++ (if s_closed sr then [TC] else []) /\ (1 <= g_rn (s_g sr))%nat
    | RDiscard => noTO pre /\ s_closed sr = false /\ s_cache sr = None
    end.

Definition dinv (S R : endpoint) : Prop :=
  e_fail R = None /\ e_gone S = false /\ na_of R = nc_of S /\ nc_of R = na_of S /\
  exists p rest, wire_ok (na_of R) (nc_of R) (e_d R) (map m256 (e_out S)) p rest /\
    forall ks i ss sr, get_stream S ks i = Some ss -> get_stream R (opp ks) i = Some sr ->
      sinv ss sr (stoks sr ++ pend (opp ks) i (e_d R) p rest).

(* ---- what dinv looks at ---- *)
Definition dview (d : dcore) := (d_st d, d_in d, d_closed d).

Lemma wire_ok_dview : forall na nc d d' w p rest, dview d' = dview d -> wire_ok na nc d w p rest -> wire_ok na nc d' w p rest.
Proof. intros na nc d d' w p rest H. unfold dview in H. inversion H as [[A B C]]. unfold wire_ok. rewrite A, B, C. auto. Qed.
Lemma pend_dview : forall k i d d' p rest, dview d' = dview d -> pend k i d' p rest = pend k i d p rest.
Proof. intros k i d d' p rest H. unfold dview in H. inversion H as [[A B C]]. unfold pend. rewrite A. reflexivity. Qed.

Definition svw (s : rstream) := (g_wlog (s_g s), wclosed s).
Definition rvw (s : rstream) := (g_rn (s_g s), s_rph s, s_closed s, g_rdc (s_g s), s_inq s, s_cache s).

Lemma Etoks_svw : forall s s', svw s' = svw s -> Etoks s' = Etoks s /\ g_wlog (s_g s') = g_wlog (s_g s).
Proof. intros s s' H. unfold svw in H. inversion H as [[A B]]. unfold Etoks. rewrite A, B. auto. Qed.

Lemma sinv_views : forall ss ss' sr sr' infl, svw ss' = svw ss -> rvw sr' = rvw sr ->
  stoks sr' = stoks sr /\ (sinv ss sr infl -> sinv ss' sr' infl).
Proof.
  intros ss ss' sr sr' infl Hs Hr. destruct (Etoks_svw _ _ Hs) as [HE HW]. unfold rvw in Hr. inversion Hr as [[A B C D E F]].
  split; [unfold stoks; rewrite E, F; reflexivity|]. unfold sinv, rdb. rewrite HE, HW, A, B, C, D, E, F. auto.
Qed.

(* the sender changes only things dinv does not look at *)
Lemma dinv_S_ext : forall S S' R, dinv S R ->
  e_out S' = e_out S -> e_gone S' = e_gone S -> na_of S' = na_of S -> nc_of S' = nc_of S ->
  (forall k i, option_map svw (get_stream S' k i) = option_map svw (get_stream S k i)) ->
  dinv S' R.
Proof.
  intros S S' R (F & G & L1 & L2 & p & rest & W & H) Ho Hg Hna Hnc Hs.
  unfold dinv. rewrite Ho, Hg, Hna, Hnc. repeat split; try assumption.
  exists p, rest. split; [exact W|]. intros ks i ss' sr E' Er.
  pose proof (Hs ks i) as Hv. rewrite E' in Hv. destruct (get_stream S ks i) as [ss|] eqn:E; [|discriminate].
  cbn [option_map] in Hv. assert (Hv' : svw ss' = svw ss) by congruence. destruct (sinv_views ss ss' sr sr (stoks sr ++ pend (opp ks) i (e_d R) p rest) Hv' eq_refl) as [_ Hi].
  apply Hi. apply (H ks i ss sr E Er).
Qed.

(* the receiver changes only things dinv does not look at *)
Lemma dinv_R_ext : forall S R R', dinv S R ->
  e_fail R' = e_fail R -> dview (e_d R') = dview (e_d R) -> na_of R' = na_of R -> nc_of R' = nc_of R ->
  (forall k i, option_map rvw (get_stream R' k i) = option_map rvw (get_stream R k i)) ->
  dinv S R'.
Proof.
  intros S R R' (F & G & L1 & L2 & p & rest & W & H) Hf Hd Hna Hnc Hs.
  unfold dinv. rewrite Hf, Hna, Hnc. repeat split; try assumption.
  exists p, rest. split; [eapply wire_ok_dview; eassumption|]. intros ks i ss sr' E Er'.
  pose proof (Hs (opp ks) i) as Hv. rewrite Er' in Hv. destruct (get_stream R (opp ks) i) as [sr|] eqn:Er; [|discriminate].
  cbn [option_map] in Hv. assert (Hv' : rvw sr' = rvw sr) by congruence.
  destruct (sinv_views ss ss sr sr' (stoks sr ++ pend (opp ks) i (e_d R) p rest) eq_refl Hv') as [Hst Hi].
  rewrite Hst, (pend_dview _ _ _ _ _ _ Hd). apply Hi. apply (H ks i ss sr E Er).
Qed.
(* ---- the sender emits frames of one stream ---- *)
Lemma m256_bytes : forall l, Forall is_byte l -> map m256 l = l.
Proof. intros l H. induction H as [|b l Hb Hl IH]; [reflexivity|]. cbn [map]. unfold m256 at 1. rewrite Z.mod_small by exact Hb. f_equal. exact IH. Qed.

Lemma m256_header : forall x, 0 <= x < 65536 -> map m256 (header_raw x) = header_raw x.
Proof.
  intros x Hx. unfold header_raw, m256. cbn [map]. rewrite Z.mod_mod by lia.
  rewrite (Z.mod_small (x / 256) 256); [reflexivity|]. split; [apply Z.div_pos; lia|apply Z.div_lt_upper_bound; lia].
Qed.

Lemma ser_m256 : forall na nc f, lf_ok na nc f -> map m256 (ser f) = ser f.
Proof.
  intros na nc [h p] [[Hr _] Hk]. unfold ser. cbn [lh lp] in *.
  rewrite map_app, m256_header by exact Hr. f_equal. destruct (classify h); try reflexivity.
  destruct Hk as [Hl Hb]. rewrite map_app, m256_header by lia. f_equal. apply m256_bytes. exact Hb.
Qed.

Lemma sers_m256 : forall na nc fs, Forall (lf_ok na nc) fs -> map m256 (concat (map ser fs)) = concat (map ser fs).
Proof.
  intros na nc fs H. induction H as [|f fs Hf Hfs IH]; [reflexivity|]. cbn [map concat]. rewrite map_app, IH, (ser_m256 _ _ _ Hf). reflexivity.
Qed.

Lemma selh_unique : forall k i k' i' h, selh k i h = true -> selh k' i' h = true -> k = k' /\ i = i'.
Proof.
  intros k i k' i' h H1 H2. unfold selh in *. apply andb_prop in H1, H2. destruct H1 as [A1 B1]. destruct H2 as [A2 B2].
  apply Z.eqb_eq in A1, A2. apply Nat.eqb_eq in B1, B2. split; congruence.
Qed.

Lemma opp_inj : forall k k', opp k = opp k' -> (k =? 0) = (k' =? 0).
Proof. intros k k'. unfold opp. destruct (k =? 0); destruct (k' =? 0); intros H; try reflexivity; discriminate. Qed.

Lemma get_same_tbl : forall e k k' i, (k =? 0) = (k' =? 0) -> get_stream e k i = get_stream e k' i.
Proof. intros e k k' i H. unfold get_stream, table. rewrite H. reflexivity. Qed.

Lemma filter_app_all : forall A (f : A -> bool) l, Forall (fun x => f x = true) l -> filter f l = l.
Proof. intros A f l H. induction H as [|x l Hx Hl IH]; [reflexivity|]. cbn [filter]. rewrite Hx, IH. reflexivity. Qed.
Lemma filter_app_none : forall A (f : A -> bool) l, Forall (fun x => f x = false) l -> filter f l = [].
Proof. intros A f l H. induction H as [|x l Hx Hl IH]; [reflexivity|]. cbn [filter]. rewrite Hx, IH. reflexivity. Qed.

Theorem dinv_emit : forall S S' R ks i fs,
  dinv S R ->
  e_out S' = e_out S ++ concat (map ser fs) -> e_gone S' = false -> na_of S' = na_of S -> nc_of S' = nc_of S ->
  Forall (fun f => lf_ok (na_of R) (nc_of R) f /\ sel (opp ks) i f = true) fs ->
  (forall k' i' ss', get_stream S' k' i' = Some ss' ->
     exists ss, get_stream S k' i' = Some ss /\
       (((k' =? 0) = (ks =? 0) /\ i' = i /\ Etoks ss' = Etoks ss ++ flat_map ltoks fs /\
         (length (g_wlog (s_g ss)) <= length (g_wlog (s_g ss')))%nat)
        \/ (((k' =? 0) <> (ks =? 0) \/ i' <> i) /\ svw ss' = svw ss))) ->
  dinv S' R.
Proof.
  intros S S' R ks i fs (F & G & L1 & L2 & p & rest & W & H) Ho Hg Hna Hnc Hfs Hst.
  assert (Hok : Forall (lf_ok (na_of R) (nc_of R)) fs) by (eapply Forall_impl; [|exact Hfs]; intros f [A _]; exact A).
  unfold dinv. rewrite Hg, Hna, Hnc. repeat split; try assumption.
  exists p, (rest ++ fs). split.
  - destruct W as (W1 & W2 & W3 & W4). unfold wire_ok. split; [exact W1|]. split; [|split; [exact W3|apply Forall_app; split; assumption]].
    rewrite Ho, map_app, (sers_m256 _ _ _ Hok), app_assoc, W2, map_app, concat_app, <- app_assoc. reflexivity.
  - intros k' i' ss' sr E' Er. destruct (Hst k' i' ss' E') as (ss & E & [(Hk & -> & HE & HL)|(Hne & Hv)]).
    + specialize (H k' i ss sr E Er). destruct H as (A & B & C & pre & D & Hshape).
      assert (Hopp : opp k' = opp ks) by (unfold opp; rewrite Hk; reflexivity).
      assert (Hp : pend (opp k') i (e_d R) p (rest ++ fs) = pend (opp k') i (e_d R) p rest ++ flat_map ltoks fs).
      { unfold pend. rewrite filter_app, flat_map_app, <- app_assoc. f_equal. f_equal. f_equal.
        apply filter_app_all. rewrite Hopp. eapply Forall_impl; [|exact Hfs]. intros f [_ Hs]. exact Hs. }
      unfold sinv. split; [lia|]. split; [exact B|]. split; [exact C|].
      exists pre. split; [|exact Hshape].
      rewrite HE, inc_tail_app, D, Hp, <- !app_assoc; [reflexivity|].
      unfold Etoks. rewrite count_TO_Efn. exact A.
    + specialize (H k' i' ss sr E Er).
      assert (Hp : pend (opp k') i' (e_d R) p (rest ++ fs) = pend (opp k') i' (e_d R) p rest).
      { assert (Hnone : filter (sel (opp k') i') fs = []).
        { apply filter_app_none. eapply Forall_impl; [|exact Hfs]. intros f [_ Hs]. unfold sel in *. destruct (selh (opp k') i' (lh f)) eqn:Es; [|reflexivity].
          exfalso. destruct (selh_unique _ _ _ _ _ Hs Es) as [Ho' Hi]. destruct Hne as [Hne|Hne]; [apply Hne; symmetry; apply opp_inj; exact Ho'|apply Hne; symmetry; exact Hi]. }
        unfold pend. rewrite filter_app, Hnone, app_nil_r. reflexivity. }
      rewrite Hp. destruct (sinv_views ss ss' sr sr (stoks sr ++ pend (opp k') i' (e_d R) p rest) Hv eq_refl) as [_ Hi]. apply Hi. exact H.
Qed.

(* ---- the dispatcher of the receiver ---- *)
Lemma dinv_progress : forall S R d, 0 <= rfs (e_cfg R) -> dinv S R ->
  dstep (e_cfg R) (na_of R) (nc_of R) (e_d R) = DProgress d -> dinv S (set_d R d).
Proof.
  intros S R d Hr (F & G & L1 & L2 & p & rest & W & H) Hd.
  pose proof (dstep_wire _ _ _ _ _ _ _ Hr W) as Hw. rewrite Hd in Hw. destruct Hw as (p' & rest' & W' & Hp).
  unfold dinv. change (e_fail (set_d R d)) with (e_fail R). change (na_of (set_d R d)) with (na_of R). change (nc_of (set_d R d)) with (nc_of R).
  repeat split; try assumption. exists p', rest'. split; [exact W'|].
  intros ks i ss sr E Er. change (get_stream (set_d R d) (opp ks) i) with (get_stream R (opp ks) i) in Er.
  change (e_d (set_d R d)) with d. rewrite Hp. apply (H ks i ss sr E Er).
Qed.

Lemma dinv_failed : forall S R d code, 0 <= rfs (e_cfg R) -> dinv S R ->
  dstep (e_cfg R) (na_of R) (nc_of R) (e_d R) = DFailed d code -> False.
Proof.
  intros S R d code Hr (F & G & L1 & L2 & p & rest & W & H) Hd.
  pose proof (dstep_wire _ _ _ _ _ _ _ Hr W) as Hw. rewrite Hd in Hw. exact Hw.
Qed.
Lemma opp_01 : forall k, opp k = 0 \/ opp k = 1.
Proof. intros k. unfold opp. destruct (k =? 0); auto. Qed.
Lemma opp_opp_tbl : forall k, (opp (opp k) =? 0) = (k =? 0).
Proof. intros k. unfold opp. destruct (k =? 0); reflexivity. Qed.

Lemma nth_error_upd_nth_same' : forall A (f : A -> A) (l : list A) n, nth_error (upd_nth n f l) n = option_map f (nth_error l n).
Proof.
  intros A f. induction l as [|x l IH]; intros n; [destruct n; reflexivity|]. destruct n; cbn [upd_nth nth_error option_map]; [reflexivity|apply IH].
Qed.
Lemma nth_error_upd_nth_other' : forall A (f : A -> A) (l : list A) n m, n <> m -> nth_error (upd_nth n f l) m = nth_error l m.
Proof.
  intros A f. induction l as [|x l IH]; intros n m H; [destruct n; reflexivity|].
  destruct n as [|n]; destruct m as [|m]; cbn [upd_nth nth_error]; try reflexivity; try lia. apply IH. lia.
Qed.
Lemma upd_nth_len : forall A (f : A -> A) (l : list A) n, length (upd_nth n f l) = length l.
Proof. intros A f. induction l as [|x l IH]; intros n; [destruct n; reflexivity|]. destruct n; cbn [upd_nth length]; [reflexivity|]. rewrite IH. reflexivity. Qed.

Lemma get_upd : forall e k i f k' i',
  get_stream (upd_stream e k i f) k' i' =
  if Bool.eqb (k =? 0) (k' =? 0) && Nat.eqb i i' then option_map f (get_stream e k' i') else get_stream e k' i'.
Proof.
  intros e k i f k' i'. unfold get_stream, upd_stream, set_table, table.
  destruct (k =? 0) eqn:E1; destruct (k' =? 0) eqn:E2; cbn [Bool.eqb andb e_acc e_con set_acc set_con]; try reflexivity;
    destruct (Nat.eqb i i') eqn:E3; try (apply Nat.eqb_eq in E3; subst i'; apply nth_error_upd_nth_same');
    apply Nat.eqb_neq in E3; apply nth_error_upd_nth_other'; exact E3.
Qed.

Lemma upd_stream_lens : forall e k i f, na_of (upd_stream e k i f) = na_of e /\ nc_of (upd_stream e k i f) = nc_of e.
Proof.
  intros e k i f. unfold upd_stream, set_table, table, na_of, nc_of. destruct (k =? 0); cbn [e_acc e_con set_acc set_con]; rewrite ?upd_nth_len; auto.
Qed.

(* ---- the receiver's stream (kr, i) changes: it consumes tokens from the front of what is in flight to it ---- *)
Theorem dinv_recv_stream : forall S R R' kr i sr sr',
  dinv S R ->
  get_stream R kr i = Some sr ->
  e_fail R' = e_fail R -> dview (e_d R') = dview (e_d R) -> na_of R' = na_of R -> nc_of R' = nc_of R ->
  (forall k' i', get_stream R' k' i' =
      if Bool.eqb (kr =? 0) (k' =? 0) && Nat.eqb i i' then Some sr' else get_stream R k' i') ->
  (forall ss infl, sinv ss sr (stoks sr ++ infl) -> sinv ss sr' (stoks sr' ++ infl)) ->
  dinv S R'.
Proof.
  intros S R R' kr i sr sr' (F & G & L1 & L2 & p & rest & W & H) Er Hf Hd Hna Hnc Hg Ht.
  unfold dinv. rewrite Hf, Hna, Hnc. repeat split; try assumption.
  exists p, rest. split; [eapply wire_ok_dview; eassumption|].
  intros ks i' ss sr0 E Er'. rewrite Hg in Er'. rewrite (pend_dview _ _ _ _ _ _ Hd).
  destruct (Bool.eqb (kr =? 0) (opp ks =? 0) && Nat.eqb i i') eqn:Em.
  - inversion Er'; subst sr0. apply andb_prop in Em. destruct Em as [Ek Ei]. apply Nat.eqb_eq in Ei. subst i'.
    apply Bool.eqb_prop in Ek.
    rewrite (get_same_tbl R kr (opp ks) i Ek) in Er. apply Ht. apply (H ks i ss sr E Er).
  - apply (H ks i' ss sr0 E Er').
Qed.

(* ---- the dispatcher hands a frame to a stream ---- *)
Lemma dinv_deliver : forall S R d k i f, 0 <= rfs (e_cfg R) -> dinv S R ->
  dstep (e_cfg R) (na_of R) (nc_of R) (e_d R) = DDeliver d k i f -> dinv S (deliver (set_d R d) k i f).
Proof.
  intros S R d k i f Hr (F & G & L1 & L2 & p & rest & W & H) Hd.
  pose proof (dstep_wire _ _ _ _ _ _ _ Hr W) as Hw. rewrite Hd in Hw.
  destruct Hw as (p' & rest' & W' & Hk & Hi & Hrange & Hp & Hother & Hfk).
  set (h := match d_st (e_d R) with DAcq0 h | DChunk h _ _ => h | _ => 0 end) in *.
  unfold deliver. set (fu := fun s => set_inq s (s_inq s ++ [f])).
  destruct (upd_stream_lens (set_d R d) k i fu) as [Hna Hnc].
  unfold dinv. rewrite Hna, Hnc. change (na_of (set_d R d)) with (na_of R). change (nc_of (set_d R d)) with (nc_of R).
  split; [unfold upd_stream, set_table; destruct (k =? 0); exact F|]. repeat split; try assumption.
  exists p', rest'. split.
  - eapply wire_ok_dview; [|exact W']. unfold upd_stream, set_table. destruct (k =? 0); reflexivity.
  - intros ks i' ss sr' E Er'. rewrite get_upd in Er'. change (get_stream (set_d R d) (opp ks) i') with (get_stream R (opp ks) i') in Er'.
    assert (Hd' : dview (e_d (upd_stream (set_d R d) k i fu)) = dview d) by (unfold upd_stream, set_table; destruct (k =? 0); reflexivity).
    rewrite (pend_dview _ _ _ _ _ _ Hd').
    destruct (Bool.eqb (k =? 0) (opp ks =? 0) && Nat.eqb i i') eqn:Em.
    + apply andb_prop in Em. destruct Em as [Ek Ei]. apply Nat.eqb_eq in Ei. subst i'. apply Bool.eqb_prop in Ek.
      assert (Hkk : k = opp ks). { destruct Hrange as [[-> _]|[-> _]]; destruct (opp_01 ks) as [Ho|Ho]; rewrite Ho in *; cbn in Ek; try reflexivity; discriminate. }
      destruct (get_stream R (opp ks) i) as [sr|] eqn:Er; [|discriminate]. cbn [option_map] in Er'. inversion Er'; subst sr'.
      specialize (H ks i ss sr E Er). rewrite <- Hkk in *. rewrite Hp in H.
      destruct H as (A & B & C & pre & D & Hshape). unfold sinv.
      change (g_rn (s_g (fu sr))) with (g_rn (s_g sr)). change (s_rph (fu sr)) with (s_rph sr). change (s_cache (fu sr)) with (s_cache sr).
      change (s_closed (fu sr)) with (s_closed sr). change (rdb (fu sr)) with (rdb sr).
      split; [exact A|]. split; [cbn [fu set_inq s_inq]; apply Forall_app; split; [exact B|constructor; [exact Hfk|constructor]]|]. split; [exact C|].
      exists pre. split; [|exact Hshape]. rewrite D. f_equal. unfold stoks. cbn [fu set_inq s_inq s_cache].
      rewrite flat_map_app. cbn [flat_map]. rewrite app_nil_r, <- !app_assoc. reflexivity.
    + rewrite Hother; [apply (H ks i' ss sr' E Er')|].
      unfold selh. rewrite <- Hk, <- Hi. destruct (k =? opp ks) eqn:Ek; [|reflexivity]. apply Z.eqb_eq in Ek. rewrite Ek in Em.
      rewrite Bool.eqb_reflx in Em. cbn [andb] in *. exact Em.
Qed.

(* ---- the transport moves what S wrote into R's reach ---- *)
Lemma dinv_transfer : forall S S' R R', dinv S R ->
  e_out S' = [] -> e_gone S' = e_gone S -> na_of S' = na_of S -> nc_of S' = nc_of S ->
  (forall k i, get_stream S' k i = get_stream S k i) ->
  e_fail R' = e_fail R -> na_of R' = na_of R -> nc_of R' = nc_of R ->
  d_st (e_d R') = d_st (e_d R) -> d_closed (e_d R') = d_closed (e_d R) -> d_in (e_d R') = d_in (e_d R) ++ map m256 (e_out S) ->
  (forall k i, get_stream R' k i = get_stream R k i) ->
  dinv S' R'.
Proof.
  intros S S' R R' (F & G & L1 & L2 & p & rest & W & H) Ho Hg Hna Hnc Hs Hf Hna' Hnc' Hst Hcl Hin Hr.
  unfold dinv. rewrite Hf, Hg, Hna, Hnc, Hna', Hnc'. repeat split; try assumption.
  exists p, rest. split.
  - destruct W as (W1 & W2 & W3 & W4). unfold wire_ok. rewrite Hcl, Hst, Hin, Ho. cbn [map]. rewrite app_nil_r. auto.
  - intros ks i ss sr E Er. rewrite Hs in E. rewrite Hr in Er. unfold pend. rewrite Hst. apply (H ks i ss sr E Er).
Qed.
(* ---- what each action of a stream's read half does to the pair relation ---- *)
Lemma ftoks_noTO : forall f, fk_ok f -> fkind f <> FK_OPEN -> noTO (ftoks f).
Proof.
  intros f Hk Hn. unfold ftoks. apply Z.eqb_neq in Hn. rewrite Hn. destruct (fkind f =? FK_CLOSE); [reflexivity|apply count_TO_bytes].
Qed.
Lemma noTO_app : forall a b, noTO a -> noTO b -> noTO (a ++ b).
Proof. intros a b Ha Hb. unfold noTO in *. rewrite count_TO_app, Ha, Hb. reflexivity. Qed.
Lemma chunks_bytes_cons : forall c cs, chunks_bytes (c :: cs) = chunks_bytes cs ++ c.
Proof. intros. unfold chunks_bytes. cbn [rev]. rewrite concat_app. cbn [concat]. rewrite app_nil_r. reflexivity. Qed.

(* recv_open drops one frame *)
Lemma sinv_discard : forall ss sr f t infl,
  s_rph sr = RDiscard -> s_inq sr = f :: t ->
  sinv ss sr (stoks sr ++ infl) ->
  let sr' := if fkind f =? FK_OPEN then g_open_seen (set_rph (set_inq sr t) RReady) else set_inq sr t in
  sinv ss sr' (stoks sr' ++ infl).
Proof.
  intros ss sr f t infl Hr Hq (A & B & C & pre & D & Hs) sr'. rewrite Hr in Hs. destruct Hs as (Hn & Hcl & Hca).
  rewrite Hq in B. inversion B as [|? ? Hfk Bt]; subst.
  assert (Hst : stoks sr = ftoks f ++ flat_map ftoks t) by (unfold stoks; rewrite Hca, Hq; reflexivity).
  rewrite Hst, <- app_assoc in D.
  unfold sr'. destruct (fkind f =? FK_OPEN) eqn:Eo.
  - assert (Hf : ftoks f = [TO]) by (unfold ftoks; rewrite Eo; reflexivity). rewrite Hf in D. cbn [app] in D.
    unfold sinv. cbn [g_open_seen set_g set_rph set_inq s_g g_rn g_wlog s_inq s_cache s_rph s_closed].
    split; [pose proof (inc_tail_has_TO _ _ _ _ D) as Hc; unfold Etoks in Hc; rewrite count_TO_Efn in Hc; exact Hc|].
    split; [exact Bt|]. split; [exact C|]. exists []. split.
    + rewrite (inc_tail_step _ _ _ _ D Hn). unfold stoks. cbn [g_open_seen set_g set_rph set_inq s_cache s_inq]. rewrite Hca. reflexivity.
    + repeat split; try assumption. lia.
  - apply Z.eqb_neq in Eo. unfold sinv. cbn [set_inq s_g s_inq s_cache s_rph s_closed]. rewrite Hr.
    split; [exact A|]. split; [exact Bt|]. split; [exact C|]. exists (pre ++ ftoks f). split.
    + rewrite D, <- app_assoc. f_equal. f_equal. unfold stoks. cbn [set_inq s_cache s_inq]. rewrite Hca. reflexivity.
    + split; [apply noTO_app; [exact Hn|apply ftoks_noTO; assumption]|auto].
Qed.

(* the hand-over: a new reader starts on the incarnation whose OPEN recv_open has just taken *)
Lemma sinv_handover : forall ss sr infl, s_rph sr = RReady ->
  sinv ss sr (stoks sr ++ infl) ->
  let sr' := g_reader (set_wph (set_rph sr RApp) WApp) in sinv ss sr' (stoks sr' ++ infl).
Proof.
  intros ss sr infl Hr (A & B & C & pre & D & Hs) sr'. rewrite Hr in Hs. destruct Hs as (-> & Hcl & Hca & H1).
  unfold sinv, sr', rdb. cbn [g_reader set_g set_wph set_rph s_g g_rn g_wlog g_rdc s_inq s_cache s_rph s_closed].
  split; [exact A|]. split; [exact B|]. split; [exact C|]. exists []. split; [exact D|].
  rewrite Hcl. split; [reflexivity|exact H1].
Qed.

(* the application drops the read half: the cached remainder is dropped, recv_open takes over *)
Lemma sinv_dropr : forall ss sr infl, s_rph sr = RApp ->
  sinv ss sr (stoks sr ++ infl) ->
  let sr' := set_closed (set_cache (set_rph sr RDiscard) None) false in sinv ss sr' (stoks sr' ++ infl).
Proof.
  intros ss sr infl Hr (A & B & C & pre & D & Hs) sr'. rewrite Hr in Hs. destruct Hs as (-> & H1).
  unfold sinv, sr'. cbn [set_closed set_cache set_rph s_g s_inq s_cache s_rph s_closed].
  split; [exact A|]. split; [exact B|]. split; [intros f Hf; discriminate|].
  exists ((map TB (rdb sr) ++ (if s_closed sr then [TC] else [])) ++ match s_cache sr with Some f => ftoks f | None => [] end). split.
  - rewrite D. unfold stoks. cbn [set_closed set_cache set_rph s_cache s_inq app]. rewrite <- !app_assoc. reflexivity.
  - split; [|auto]. apply noTO_app.
    + apply noTO_app; [apply count_TO_bytes|destruct (s_closed sr); reflexivity].
    + destruct (s_cache sr) as [f|] eqn:Ec; [|reflexivity]. unfold ftoks. rewrite (C f eq_refl). cbn. apply count_TO_bytes.
Qed.

(* one iteration of read_exact *)
Lemma sinv_read : forall ss sr p sr' rel done infl,
  s_rph sr = RApp -> read_iter_s sr p = RStep sr' rel done ->
  sinv ss sr (stoks sr ++ infl) -> sinv ss sr' (stoks sr' ++ infl).
Proof.
  intros ss sr p sr' rel done infl Hr H Hi. unfold read_iter_s in H.
  destruct (s_closed sr) eqn:Ecl. { inversion H; subst. exact Hi. }
  destruct Hi as (A & B & C & pre & D & Hs). rewrite Hr, Ecl in Hs. destruct Hs as (-> & H1). rewrite app_nil_r in D.
  (* the frame taken: from the cache, else the head of the queue *)
  assert (Hgen : forall f s1, fk_ok f ->
    stoks sr = ftoks f ++ stoks s1 -> s_cache s1 = None -> s_closed s1 = false -> s_rph s1 = RApp -> s_g s1 = s_g sr ->
    Forall fk_ok (s_inq s1) ->
    (if fkind f =? FK_CLOSE then RStep (set_closed s1 true) [f] false
      else if fkind f =? FK_DATA then
        let n := Z.to_nat (Z.min (pr_want p - pr_len p) (Z.of_nat (length (fdata f)))) in
        let got := firstn n (fdata f) in
        let rest := skipn n (fdata f) in
        let p' := mkPread (pr_slot p) (pr_want p) (pr_len p + Z.of_nat n) (got :: pr_chunks p) in
        let s2 := g_chunk (set_pread s1 (Some p')) got in
        let done := pr_len p' =? pr_want p in
        match rest with
        | [] => RStep s2 [f] done
        | _ => RStep (set_cache s2 (Some (mkFrame (fkind f) rest (fsize f)))) [] done
        end
      else RStep s1 [f] false) = RStep sr' rel done ->
    sinv ss sr' (stoks sr' ++ infl)).
  { intros f s1 Hfk Hst Hc1 Hcl1 Hr1 Hg1 Hq1 HH. rewrite Hst, <- app_assoc in D.
    destruct (fkind f =? FK_CLOSE) eqn:E1.
    { inversion HH; subst sr' rel done. unfold sinv, rdb. cbn [set_closed s_g s_inq s_cache s_rph s_closed]. rewrite Hg1, Hr1.
      split; [exact A|]. split; [exact Hq1|]. split; [intros f' Hf'; rewrite Hc1 in Hf'; discriminate|].
      exists (map TB (rdb sr) ++ [TC]). split; [|split; [reflexivity|exact H1]].
      rewrite D. unfold ftoks. rewrite E1. apply Z.eqb_eq in E1. rewrite E1. change (FK_CLOSE =? FK_OPEN) with false. cbv iota.
      rewrite <- app_assoc. reflexivity. }
    destruct (fkind f =? FK_DATA) eqn:E2.
    2:{ (* an OPEN in front of a reader: impossible, an incarnation ends with CLOSE *)
        exfalso. apply Z.eqb_neq in E1, E2. destruct Hfk as [Ho|[Hc|Hd]]; try contradiction.
        assert (Hf : ftoks f = [TO]) by (unfold ftoks; rewrite Ho; reflexivity). rewrite Hf in D. cbn [app] in D.
        destruct (Etail_shape (g_wlog (s_g ss)) (wclosed ss) (g_rn (s_g sr)) (conj H1 A)) as (w & cs & tl & _ & Hsh & Htl).
        unfold Etoks in D. rewrite Hsh in D. symmetry in D.
        destruct (tb_split _ _ _ _ D) as [(c & _ & Hx)|(c & _ & Hy)].
        - destruct Htl as [(Ht & _)|(tl' & Ht & _)]; rewrite Ht in Hx; destruct c; cbn in Hx; discriminate.
        - destruct Htl as [(Ht & _)|(tl' & Ht & _)]; rewrite Ht in Hy; destruct c; cbn in Hy; discriminate. }
    cbv zeta in HH.
    set (n := Z.to_nat (Z.min (pr_want p - pr_len p) (Z.of_nat (length (fdata f))))) in *.
    assert (Hft : ftoks f = map TB (firstn n (fdata f)) ++ map TB (skipn n (fdata f))).
    { unfold ftoks. apply Z.eqb_eq in E2. rewrite E2. change (FK_DATA =? FK_OPEN) with false. change (FK_DATA =? FK_CLOSE) with false. cbv iota.
      rewrite <- map_app, firstn_skipn. reflexivity. }
    rewrite Hft, <- app_assoc in D.
    destruct (skipn n (fdata f)) as [|r rs] eqn:Esk.
    + inversion HH; subst sr' rel done. unfold sinv, rdb.
      cbn [g_chunk set_g set_pread s_g g_rn g_wlog g_rdc s_inq s_cache s_rph s_closed]. rewrite Hg1, Hr1, Hcl1.
      split; [exact A|]. split; [exact Hq1|]. split; [intros f' Hf'; rewrite Hc1 in Hf'; discriminate|].
      exists (map TB (chunks_bytes (firstn n (fdata f) :: g_rdc (s_g sr)))). split; [|split; [rewrite app_nil_r; reflexivity|exact H1]].
      rewrite D, chunks_bytes_cons, map_app, <- app_assoc. cbn [map app]. reflexivity.
    + inversion HH; subst sr' rel done. unfold sinv, rdb.
      cbn [set_cache g_chunk set_g set_pread s_g g_rn g_wlog g_rdc s_inq s_cache s_rph s_closed]. rewrite Hg1, Hr1, Hcl1.
      split; [exact A|]. split; [exact Hq1|]. split; [intros f' Hf'; inversion Hf'; subst f'; cbn [fkind]; apply Z.eqb_eq; exact E2|].
      exists (map TB (chunks_bytes (firstn n (fdata f) :: g_rdc (s_g sr)))). split; [|split; [rewrite app_nil_r; reflexivity|exact H1]].
      rewrite D, chunks_bytes_cons, map_app, <- !app_assoc. f_equal. f_equal.
      unfold stoks. cbn [set_cache g_chunk set_g set_pread s_cache s_inq]. rewrite Hc1.
      unfold ftoks. cbn [fkind fdata]. apply Z.eqb_eq in E2. rewrite E2. change (FK_DATA =? FK_OPEN) with false. change (FK_DATA =? FK_CLOSE) with false. cbv iota.
      cbn [app]. rewrite <- app_assoc. reflexivity. }
  destruct (s_cache sr) as [fc|] eqn:Eca.
  - apply (Hgen fc (set_cache sr None)); try reflexivity; try assumption.
    + right; right. apply (C fc eq_refl).
    + unfold stoks. rewrite Eca. reflexivity.
  - destruct (s_inq sr) as [|f t] eqn:Eq; [discriminate|]. inversion B as [|? ? Hfk Bt]; subst.
    apply (Hgen f (set_inq sr t)); try reflexivity; try assumption.
    unfold stoks. cbn [set_inq s_cache s_inq]. rewrite Eca, Eq. reflexivity.
Qed.
(* ================= both directions between an endpoint e and its peer P ================= *)
Definition both (e P : endpoint) : Prop := dinv e P /\ dinv P e.

(* e changes in ways neither direction looks at *)
Lemma both_ext : forall e e' P, both e P ->
  e_out e' = e_out e -> e_gone e' = e_gone e -> e_fail e' = e_fail e -> dview (e_d e') = dview (e_d e) ->
  na_of e' = na_of e -> nc_of e' = nc_of e ->
  (forall k i, option_map svw (get_stream e' k i) = option_map svw (get_stream e k i)) ->
  (forall k i, option_map rvw (get_stream e' k i) = option_map rvw (get_stream e k i)) ->
  both e' P.
Proof.
  intros e e' P [H1 H2] Ho Hg Hf Hd Hna Hnc Hs Hr. split.
  - eapply dinv_S_ext; eassumption.
  - eapply dinv_R_ext; eassumption.
Qed.

Lemma both_upd_neutral : forall e P k i f, both e P ->
  (forall s, svw (f s) = svw s /\ rvw (f s) = rvw s) -> both (upd_stream e k i f) P.
Proof.
  intros e P k i f HB Hf. destruct (upd_stream_lens e k i f) as [Hna Hnc].
  apply (both_ext e _ P HB); try assumption; try (unfold upd_stream, set_table; destruct (k =? 0); reflexivity).
  - intros k' i'. rewrite get_upd. destruct (_ && _); [|reflexivity]. destruct (get_stream e k' i') as [s|]; [|reflexivity].
    cbn [option_map]. f_equal. apply Hf.
  - intros k' i'. rewrite get_upd. destruct (_ && _); [|reflexivity]. destruct (get_stream e k' i') as [s|]; [|reflexivity].
    cbn [option_map]. f_equal. apply Hf.
Qed.

Ltac bext e := intros; apply (both_ext e); try assumption; try reflexivity.

Lemma both_set_qs : forall e P x, both e P -> both (set_qs e x) P. Proof. intros e; bext e. Qed.
Lemma both_set_slots : forall e P x, both e P -> both (set_slots e x) P. Proof. intros e; bext e. Qed.
Lemma both_set_events : forall e P x, both e P -> both (set_events e x) P. Proof. intros e; bext e. Qed.
Lemma both_set_log : forall e P l, both e P -> both (set_out e (e_out e) l) P. Proof. intros e; bext e. Qed.
Lemma both_add_event : forall e P ev, both e P -> both (add_event e ev) P. Proof. intros e; bext e. Qed.
Lemma both_upd_queue : forall e P k c f, both e P -> both (upd_queue e k c f) P. Proof. intros e; bext e. Qed.
Lemma both_enqueue_idle : forall e P k c i, both e P -> both (enqueue_idle e k c i) P. Proof. intros e; bext e. Qed.
Lemma both_upd_slot : forall e P s f, both e P -> both (upd_slot e s f) P. Proof. intros e; bext e. Qed.
Lemma both_skip : forall e P s, both e P -> both (skip e s) P. Proof. intros e; bext e. Qed.
Lemma both_release : forall e P f, both e P -> both (release e f) P. Proof. intros e; bext e. Qed.
Lemma both_fold_release : forall rel e P, both e P -> both (fold_left release rel e) P.
Proof. induction rel as [|f rel IH]; intros e P H; cbn [fold_left]; [exact H|]. apply IH, both_release, H. Qed.
Lemma both_op_open : forall e P kind cap slot, both e P -> both (op_open e kind cap slot) P.
Proof. intros. unfold op_open. apply both_upd_queue, both_set_slots. assumption. Qed.
Lemma both_complete_read : forall e P k i p, both e P -> both (complete_read e k i p) P.
Proof.
  intros. unfold complete_read. apply both_add_event, both_upd_slot. apply both_upd_neutral; [assumption|]. intros s. split; reflexivity.
Qed.

(* e's stream (k, i) acts as a receiver *)
Lemma both_recv : forall e e' P k i sr sr', both e P ->
  get_stream e k i = Some sr -> svw sr' = svw sr ->
  e_out e' = e_out e -> e_gone e' = e_gone e -> e_fail e' = e_fail e -> dview (e_d e') = dview (e_d e) ->
  na_of e' = na_of e -> nc_of e' = nc_of e ->
  (forall k' i', get_stream e' k' i' =
      if Bool.eqb (k =? 0) (k' =? 0) && Nat.eqb i i' then Some sr' else get_stream e k' i') ->
  (forall ss infl, sinv ss sr (stoks sr ++ infl) -> sinv ss sr' (stoks sr' ++ infl)) ->
  both e' P.
Proof.
  intros e e' P k i sr sr' [H1 H2] E Hsv Ho Hg Hf Hd Hna Hnc Hget Ht. split.
  - apply (dinv_S_ext e e' P H1); try assumption.
    intros k' i'. rewrite Hget. destruct (Bool.eqb (k =? 0) (k' =? 0) && Nat.eqb i i') eqn:Em; [|reflexivity].
    apply andb_prop in Em. destruct Em as [Ek Ei]. apply Nat.eqb_eq in Ei. subst i'. apply Bool.eqb_prop in Ek.
    rewrite <- (get_same_tbl e k k' i Ek), E. cbn [option_map]. f_equal. exact Hsv.
  - eapply dinv_recv_stream; eassumption.
Qed.

Lemma upd_const_get : forall e k i s' k' i' s, get_stream e k i = Some s ->
  get_stream (upd_stream e k i (fun _ => s')) k' i' =
  if Bool.eqb (k =? 0) (k' =? 0) && Nat.eqb i i' then Some s' else get_stream e k' i'.
Proof.
  intros e k i s' k' i' s E. rewrite get_upd. destruct (Bool.eqb (k =? 0) (k' =? 0) && Nat.eqb i i') eqn:Em; [|reflexivity].
  apply andb_prop in Em. destruct Em as [Ek Ei]. apply Nat.eqb_eq in Ei. subst i'. apply Bool.eqb_prop in Ek.
  rewrite <- (get_same_tbl e k k' i Ek), E. reflexivity.
Qed.
(* ---- headers written by a stream ---- *)
Lemma mk_header_facts : forall fk k i, In fk [FK_OPEN; FK_DATA; FK_CLOSE] -> Z.of_nat i <= 8191 ->
  let h := mk_header fk (kind_bits k) i in
  0 <= h < 65536 /\ frame_kind h = fk /\ stream_kind h = kind_bits k /\ stream_id h = Z.of_nat i.
Proof.
  intros fk k i Hfk Hi h.
  assert (Hsk : In (kind_bits k) [SK_ACCEPT; SK_CONNECT]) by (unfold kind_bits; destruct (k =? 0); [left|right; left]; reflexivity).
  assert (Hid : 0 <= Z.of_nat i <= ID_MASK) by (unfold ID_MASK; lia).
  destruct (header_fields_roundtrip fk (kind_bits k) (Z.of_nat i) Hfk Hsk Hid) as (h' & _ & Hh & Hr & A & B & C).
  unfold h, mk_header. rewrite <- Hh. auto.
Qed.

Lemma mk_header_target : forall fk k i, In fk [FK_OPEN; FK_DATA; FK_CLOSE] -> Z.of_nat i <= 8191 ->
  selh (opp k) i (mk_header fk (kind_bits k) i) = true.
Proof.
  intros fk k i Hfk Hi. destruct (mk_header_facts fk k i Hfk Hi) as (_ & _ & Hs & Hd).
  unfold selh, tk, ti. rewrite Hs, Hd, Nat2Z.id, Nat.eqb_refl. unfold kind_bits, opp. destruct (k =? 0); reflexivity.
Qed.

Lemma mk_header_classify : forall fk k i, In fk [FK_OPEN; FK_DATA; FK_CLOSE] -> Z.of_nat i <= 8191 ->
  classify (mk_header fk (kind_bits k) i) =
  (if fk =? FK_OPEN then KOpen else if fk =? FK_DATA then KData else KClose).
Proof.
  intros fk k i Hfk Hi. destruct (mk_header_facts fk k i Hfk Hi) as (_ & Hf & _). unfold classify. rewrite Hf.
  destruct Hfk as [<-|[<-|[<-|[]]]]; reflexivity.
Qed.

Lemma mk_header_valid : forall e P fk k i s, na_of P = nc_of e -> nc_of P = na_of e ->
  In fk [FK_OPEN; FK_DATA; FK_CLOSE] -> Z.of_nat i <= 8191 -> get_stream e k i = Some s ->
  hdr_valid (na_of P) (nc_of P) (mk_header fk (kind_bits k) i).
Proof.
  intros e P fk k i s L1 L2 Hfk Hi E. destruct (mk_header_facts fk k i Hfk Hi) as (Hr & _ & Hs & Hd).
  split; [exact Hr|]. rewrite Hs, Hd, L1, L2. unfold get_stream, table in E.
  assert (Hlt : (i < length (if (k =? 0)%Z then e_acc e else e_con e))%nat) by (apply nth_error_Some; rewrite E; discriminate).
  unfold kind_bits, na_of, nc_of. destruct (k =? 0); cbn [Z.eqb SK_ACCEPT SK_CONNECT]; lia.
Qed.

(* ---- emit ---- *)
Lemma emit_spec : forall e h d, e_gone e = false ->
  e_out (emit e h d) = e_out e ++ header_raw h ++ (match d with Some l => header_raw (Z.of_nat (length l)) ++ l | None => [] end) /\
  e_gone (emit e h d) = false /\ e_fail (emit e h d) = e_fail e /\ e_d (emit e h d) = e_d e /\
  e_acc (emit e h d) = e_acc e /\ e_con (emit e h d) = e_con e.
Proof.
  intros e h d Hg. unfold emit. rewrite Hg. destruct d; cbn [set_out e_out e_gone e_fail e_d e_acc e_con]; rewrite ?app_nil_r; repeat split; auto.
Qed.

Lemma emit_frames_spec : forall ps e k i, e_gone e = false ->
  e_out (emit_frames e k i ps) = e_out e ++ concat (map (fun p => header_raw (mk_header FK_DATA (kind_bits k) i) ++ header_raw (Z.of_nat (length p)) ++ p) ps) /\
  e_gone (emit_frames e k i ps) = false /\ e_fail (emit_frames e k i ps) = e_fail e /\ e_d (emit_frames e k i ps) = e_d e /\
  e_acc (emit_frames e k i ps) = e_acc e /\ e_con (emit_frames e k i ps) = e_con e.
Proof.
  unfold emit_frames. induction ps as [|p ps IH]; intros e k i Hg; cbn [fold_left map concat]; [rewrite app_nil_r; auto 10|].
  destruct (emit_spec e (mk_header FK_DATA (kind_bits k) i) (Some p) Hg) as (A & B & C & D & E & F).
  destruct (IH (emit e (mk_header FK_DATA (kind_bits k) i) (Some p)) k i B) as (A' & B' & C' & D' & E' & F').
  rewrite A', A, C', C, D', D, E', E, F', F, <- !app_assoc. auto 10.
Qed.

Definition payload_ok (p : list Z) : Prop := 1 <= Z.of_nat (length p) < 65536 /\ Forall is_byte p.

Lemma flat_map_data_toks : forall h ps, classify h = KData ->
  flat_map ltoks (map (fun p => mkLF h p) ps) = map TB (concat ps).
Proof.
  intros h ps Hc. induction ps as [|p ps IH]; [reflexivity|]. cbn [map flat_map concat]. rewrite IH, map_app.
  unfold ltoks. cbn [lh lp]. rewrite Hc. reflexivity.
Qed.

(* ---- send_data: DATA frames of stream (k, i) ---- *)
Lemma both_emit_data : forall e P k i s w cs older ps, both e P ->
  get_stream e k i = Some s -> g_wlog (s_g s) = (w, cs) :: older -> wclosed s = false ->
  Z.of_nat i <= 8191 -> Forall payload_ok ps ->
  both (emit_data e k i ps) P.
Proof.
  intros e P k i s w cs older ps [H1 H2] E Hw Hc Hi Hps.
  pose proof H1 as (_ & Hg & L1 & L2 & _).
  set (h := mk_header FK_DATA (kind_bits k) i).
  assert (Hfk : In FK_DATA [FK_OPEN; FK_DATA; FK_CLOSE]) by (right; left; reflexivity).
  assert (Hcl : classify h = KData) by (unfold h; rewrite mk_header_classify by assumption; reflexivity).
  destruct (emit_frames_spec ps e k i Hg) as (A & B & C & D & Ea & Ec). fold h in A.
  set (e1 := emit_frames e k i ps) in *.
  assert (Hget1 : forall k' i', get_stream e1 k' i' = get_stream e k' i') by (intros; apply get_emit_frames).
  destruct (upd_stream_lens e1 k i (fun s0 => g_sent s0 ps)) as [Hna Hnc].
  assert (Hna1 : na_of e1 = na_of e) by (unfold na_of; rewrite Ea; reflexivity).
  assert (Hnc1 : nc_of e1 = nc_of e) by (unfold nc_of; rewrite Ec; reflexivity).
  assert (Hfix : forall (X : endpoint -> Type), True) by auto. clear Hfix.
  unfold emit_data. fold e1. split.
  - apply (dinv_emit e _ P k i (map (fun p => mkLF h p) ps) H1).
    + unfold upd_stream, set_table. destruct (k =? 0); cbn [set_acc set_con e_out]; rewrite A; f_equal; f_equal;
        rewrite map_map; apply map_ext; intros p; unfold ser; cbn [lh lp]; rewrite Hcl; reflexivity.
    + unfold upd_stream, set_table. destruct (k =? 0); exact B.
    + congruence.
    + congruence.
    + apply Forall_forall. intros f Hf. apply in_map_iff in Hf. destruct Hf as (p & <- & Hp).
      rewrite Forall_forall in Hps. destruct (Hps p Hp) as [Hl Hb]. split.
      * split; [apply (mk_header_valid e P FK_DATA k i s L1 L2 Hfk Hi E)|]. cbn [lh lp]. fold h. rewrite Hcl. auto.
      * unfold sel. cbn [lh]. apply mk_header_target; assumption.
    + intros k' i' ss' E'. rewrite get_upd, Hget1 in E'.
      destruct (Bool.eqb (k =? 0) (k' =? 0) && Nat.eqb i i') eqn:Em.
      * apply andb_prop in Em. destruct Em as [Ek Ei]. apply Nat.eqb_eq in Ei. subst i'. apply Bool.eqb_prop in Ek.
        rewrite <- (get_same_tbl e k k' i Ek), E in E'. cbn [option_map] in E'. inversion E'; subst ss'.
        exists s. split; [rewrite <- (get_same_tbl e k k' i Ek); exact E|]. left. split; [symmetry; exact Ek|]. split; [reflexivity|].
        unfold Etoks, g_sent. cbn [set_g s_g g_wlog]. rewrite Hw.
        change (wclosed (set_g s _)) with (wclosed s). rewrite Hc, Efn_sent, flat_map_data_toks by exact Hcl. cbn [length]. split; [reflexivity|lia].
      * exists ss'. split; [exact E'|]. right. split; [|reflexivity].
        destruct (Bool.eqb (k =? 0) (k' =? 0)) eqn:Ek; cbn [andb] in Em.
        -- right. apply Nat.eqb_neq in Em. intros ->. apply Em. reflexivity.
        -- left. intros Hx. rewrite Hx, Bool.eqb_reflx in Ek. discriminate.
  - apply (dinv_R_ext P e _ H2).
    + unfold upd_stream, set_table. destruct (k =? 0); exact C.
    + unfold upd_stream, set_table. destruct (k =? 0); cbn [set_acc set_con e_d]; rewrite D; reflexivity.
    + congruence.
    + congruence.
    + intros k' i'. rewrite get_upd, Hget1. destruct (_ && _); [|reflexivity]. destruct (get_stream e k' i'); reflexivity.
Qed.
(* ---- one control frame (OPEN / CLOSE) of stream (k, i), together with the change of the stream's
   sender-side state that it announces ---- *)
Lemma both_ctl_frame : forall e P k i s fk f, both e P ->
  get_stream e k i = Some s -> Z.of_nat i <= 8191 -> (fk = FK_OPEN \/ fk = FK_CLOSE) ->
  rvw (f s) = rvw s ->
  Etoks (f s) = Etoks s ++ (if fk =? FK_OPEN then [TO] else [TC]) ->
  (length (g_wlog (s_g s)) <= length (g_wlog (s_g (f s))))%nat ->
  both (upd_stream (emit e (mk_header fk (kind_bits k) i) None) k i f) P.
Proof.
  intros e P k i s fk f [H1 H2] E Hi Hfk Hrv HE HL.
  pose proof H1 as (_ & Hg & L1 & L2 & _).
  set (h := mk_header fk (kind_bits k) i).
  assert (Hfk' : In fk [FK_OPEN; FK_DATA; FK_CLOSE]) by (destruct Hfk as [->| ->]; [left|right; right; left]; reflexivity).
  assert (Hcl : classify h = if fk =? FK_OPEN then KOpen else KClose).
  { unfold h. rewrite mk_header_classify by assumption. destruct Hfk as [->| ->]; reflexivity. }
  destruct (emit_spec e h None Hg) as (A & B & C & D & Ea & Ec). rewrite app_nil_r in A.
  set (e1 := emit e h None) in *.
  assert (Hget1 : forall k' i', get_stream e1 k' i' = get_stream e k' i') by (intros; apply get_emit).
  destruct (upd_stream_lens e1 k i f) as [Hna Hnc].
  assert (Hna1 : na_of e1 = na_of e) by (unfold na_of; rewrite Ea; reflexivity).
  assert (Hnc1 : nc_of e1 = nc_of e) by (unfold nc_of; rewrite Ec; reflexivity).
  split.
  - apply (dinv_emit e _ P k i [mkLF h []] H1).
    + unfold upd_stream, set_table. destruct (k =? 0); cbn [set_acc set_con e_out]; rewrite A; unfold ser; cbn [lh lp map concat];
        rewrite Hcl; destruct (fk =? FK_OPEN); rewrite !app_nil_r; reflexivity.
    + unfold upd_stream, set_table. destruct (k =? 0); exact B.
    + congruence.
    + congruence.
    + constructor; [|constructor]. split.
      * split; [apply (mk_header_valid e P fk k i s L1 L2 Hfk' Hi E)|]. cbn [lh lp]. fold h. rewrite Hcl. destruct (fk =? FK_OPEN); reflexivity.
      * unfold sel. cbn [lh]. apply mk_header_target; assumption.
    + intros k' i' ss' E'. rewrite get_upd, Hget1 in E'.
      destruct (Bool.eqb (k =? 0) (k' =? 0) && Nat.eqb i i') eqn:Em.
      * apply andb_prop in Em. destruct Em as [Ek Ei]. apply Nat.eqb_eq in Ei. subst i'. apply Bool.eqb_prop in Ek.
        rewrite <- (get_same_tbl e k k' i Ek), E in E'. cbn [option_map] in E'. inversion E'; subst ss'.
        exists s. split; [rewrite <- (get_same_tbl e k k' i Ek); exact E|]. left. split; [symmetry; exact Ek|]. split; [reflexivity|].
        split; [|exact HL]. rewrite HE. f_equal. cbn [flat_map]. unfold ltoks. cbn [lh lp]. rewrite Hcl, app_nil_r.
        destruct (fk =? FK_OPEN); reflexivity.
      * exists ss'. split; [exact E'|]. right. split; [|reflexivity].
        destruct (Bool.eqb (k =? 0) (k' =? 0)) eqn:Ek; cbn [andb] in Em.
        -- right. apply Nat.eqb_neq in Em. intros ->. apply Em. reflexivity.
        -- left. intros Hx. rewrite Hx, Bool.eqb_reflx in Ek. discriminate.
  - apply (dinv_R_ext P e _ H2).
    + unfold upd_stream, set_table. destruct (k =? 0); exact C.
    + unfold upd_stream, set_table. destruct (k =? 0); cbn [set_acc set_con e_d]; rewrite D; reflexivity.
    + congruence.
    + congruence.
    + intros k' i'. rewrite get_upd, Hget1. destruct (Bool.eqb (k =? 0) (k' =? 0) && Nat.eqb i i') eqn:Em; [|reflexivity].
      apply andb_prop in Em. destruct Em as [Ek Ei]. apply Nat.eqb_eq in Ei. subst i'. apply Bool.eqb_prop in Ek.
      rewrite <- (get_same_tbl e k k' i Ek), E. cbn [option_map]. f_equal. exact Hrv.
Qed.

(* a change of one stream that neither direction looks at *)
Lemma both_upd_at : forall e P k i s f, both e P -> get_stream e k i = Some s ->
  svw (f s) = svw s -> rvw (f s) = rvw s -> both (upd_stream e k i f) P.
Proof.
  intros e P k i s f HB E Hs Hr. destruct (upd_stream_lens e k i f) as [Hna Hnc].
  apply (both_ext e _ P HB); try assumption; try (unfold upd_stream, set_table; destruct (k =? 0); reflexivity).
  - intros k' i'. rewrite get_upd. destruct (Bool.eqb (k =? 0) (k' =? 0) && Nat.eqb i i') eqn:Em; [|reflexivity].
    apply andb_prop in Em. destruct Em as [Ek Ei]. apply Nat.eqb_eq in Ei. subst i'. apply Bool.eqb_prop in Ek.
    rewrite <- (get_same_tbl e k k' i Ek), E. cbn [option_map]. f_equal. exact Hs.
  - intros k' i'. rewrite get_upd. destruct (Bool.eqb (k =? 0) (k' =? 0) && Nat.eqb i i') eqn:Em; [|reflexivity].
    apply andb_prop in Em. destruct Em as [Ek Ei]. apply Nat.eqb_eq in Ei. subst i'. apply Bool.eqb_prop in Ek.
    rewrite <- (get_same_tbl e k k' i Ek), E. cbn [option_map]. f_equal. exact Hr.
Qed.

(* ---- send_close ---- *)
Lemma both_send_close : forall e P k i s, both e P ->
  get_stream e k i = Some s -> s_wph s = WApp -> Z.of_nat i <= 8191 ->
  (s_wbuf s <> [] -> g_wlog (s_g s) <> [] /\ payload_ok (s_wbuf s)) ->
  both (send_close e k i) P.
Proof.
  intros e P k i s HB E Hw Hi Hb. unfold send_close. rewrite E.
  set (e1 := match s_wbuf s with [] => e | b => emit_data e k i [b] end).
  assert (H1 : both e1 P /\ exists s1, get_stream e1 k i = Some s1 /\ s_wph s1 = WApp).
  { unfold e1. destruct (s_wbuf s) as [|z l] eqn:Eb; [split; [exact HB|exists s; auto]|].
    destruct Hb as [Hl Hp]; [discriminate|]. destruct (g_wlog (s_g s)) as [|[w cs] older] eqn:Ew; [contradiction|].
    split.
    - apply (both_emit_data e P k i s w cs older [z :: l] HB E Ew); [unfold wclosed; rewrite Hw; reflexivity|exact Hi|constructor; [exact Hp|constructor]].
    - rewrite get_emit_data_same, E. cbn [option_map]. eexists. split; [reflexivity|exact Hw]. }
  destruct H1 as (HB1 & s1 & E1 & Hw1).
  set (e2 := upd_stream e1 k i (fun s0 => set_wbuf s0 [])).
  assert (HB2 : both e2 P) by (apply both_upd_neutral; [exact HB1|intros s0; split; reflexivity]).
  assert (E2 : get_stream e2 k i = Some (set_wbuf s1 [])).
  { unfold e2. rewrite get_upd, Bool.eqb_reflx, Nat.eqb_refl, E1. reflexivity. }
  set (s2 := set_wbuf s1 []) in *.
  set (e3 := emit e2 (mk_header FK_CLOSE (kind_bits k) i) None).
  assert (E3 : get_stream e3 k i = Some s2) by (unfold e3; rewrite get_emit; exact E2).
  unfold after_close. fold e2. fold e3. rewrite E3.
  assert (Hgen : forall w', wclosed (set_wph s2 w') = true -> both (upd_stream e3 k i (fun s0 => set_wph s0 w')) P).
  { intros w' Hc. apply (both_ctl_frame e2 P k i s2 FK_CLOSE (fun s0 => set_wph s0 w') HB2 E2 Hi (or_intror eq_refl)).
    - reflexivity.
    - unfold Etoks. cbn [set_wph s_g]. rewrite Hc. assert (Hc2 : wclosed s2 = false) by (unfold wclosed, s2; cbn [set_wbuf s_wph]; rewrite Hw1; reflexivity).
      rewrite Hc2. apply Efn_close.
    - cbn. lia. }
  destruct (k =? 0).
  - apply Hgen. reflexivity.
  - apply both_enqueue_idle. apply Hgen. reflexivity.
Qed.

(* ---- the OPEN of queue_step ---- *)
Lemma both_open_frame : forall e P k i s x, both e P ->
  get_stream e k i = Some s -> wclosed s = true -> Z.of_nat i <= 8191 ->
  both (upd_stream (emit e (mk_header FK_OPEN (kind_bits k) i) None) k i (fun s0 => g_push (set_wph s0 (WJoin x)) x)) P.
Proof.
  intros e P k i s x HB E Hc Hi.
  apply (both_ctl_frame e P k i s FK_OPEN _ HB E Hi (or_introl eq_refl)).
  - reflexivity.
  - unfold Etoks, g_push. cbn [set_g set_wph s_g g_wlog]. change (wclosed (set_g _ _)) with false. rewrite Hc. apply Efn_open.
  - cbn. lia.
Qed.

(* ---- hand-over ---- *)
Lemma both_handover : forall e P k i s x slot, both e P ->
  get_stream e k i = Some s -> s_wph s = WJoin x -> s_rph s = RReady -> both (handover e k i slot) P.
Proof.
  intros e P k i s x slot HB E Hw Hr. unfold handover. apply both_add_event, both_upd_slot.
  set (f := fun s0 => g_reader (set_wph (set_rph s0 RApp) WApp)).
  destruct (upd_stream_lens e k i f) as [Hna Hnc].
  apply (both_recv e _ P k i s (f s) HB E); try assumption; try (unfold upd_stream, set_table; destruct (k =? 0); reflexivity).
  - unfold svw, wclosed, f. cbn. rewrite Hw. reflexivity.
  - intros k' i'. rewrite get_upd. destruct (Bool.eqb (k =? 0) (k' =? 0) && Nat.eqb i i') eqn:Em; [|reflexivity].
    apply andb_prop in Em. destruct Em as [Ek Ei]. apply Nat.eqb_eq in Ei. subst i'. apply Bool.eqb_prop in Ek.
    rewrite <- (get_same_tbl e k k' i Ek), E. reflexivity.
  - intros ss infl Hi. apply (sinv_handover ss s infl Hr Hi).
Qed.
(* ================= local sanity of the write halves ================= *)
Definition gs_ok (c : cfg) (s : rstream) : Prop :=
  (match s_wph s with WApp | WJoin _ => g_wlog (s_g s) <> [] | _ => True end) /\
  Z.of_nat (length (s_wbuf s)) <= wfs c /\ Forall is_byte (s_wbuf s) /\
  (s_wph s <> WApp -> s_wbuf s = []).
Definition Gok (e : endpoint) : Prop := forall k i s, get_stream e k i = Some s -> gs_ok (e_cfg e) s.
Definition cfg_ok (c : cfg) : Prop := 0 <= rfs c /\ 1 <= wfs c <= 65535.
Definition small (e : endpoint) : Prop := Z.of_nat (na_of e) <= 8192 /\ Z.of_nat (nc_of e) <= 8192.

Lemma small_idx : forall e k i s, small e -> get_stream e k i = Some s -> Z.of_nat i <= 8191.
Proof.
  intros e k i s [H1 H2] E. unfold get_stream, table in E.
  assert (Hlt : (i < length (if (k =? 0)%Z then e_acc e else e_con e))%nat) by (apply nth_error_Some; rewrite E; discriminate).
  unfold na_of, nc_of in *. destruct (k =? 0); lia.
Qed.

Lemma Gok_same : forall e e', e_cfg e' = e_cfg e -> e_acc e' = e_acc e -> e_con e' = e_con e -> Gok e -> Gok e'.
Proof. intros e e' Hc Ha Hn HG k i s E. rewrite Hc. apply (HG k i). unfold get_stream, table in *. rewrite Ha, Hn in E. exact E. Qed.

Lemma Gok_upd : forall e k i f, Gok e -> (forall s, get_stream e k i = Some s -> gs_ok (e_cfg e) (f s)) -> Gok (upd_stream e k i f).
Proof.
  intros e k i f HG Hf k' i' s' E'. rewrite get_upd in E'.
  assert (Hc : e_cfg (upd_stream e k i f) = e_cfg e) by (unfold upd_stream, set_table; destruct (k =? 0); reflexivity). rewrite Hc.
  destruct (Bool.eqb (k =? 0) (k' =? 0) && Nat.eqb i i') eqn:Em; [|apply (HG k' i' s' E')].
  apply andb_prop in Em. destruct Em as [Ek Ei]. apply Nat.eqb_eq in Ei. subst i'. apply Bool.eqb_prop in Ek.
  destruct (get_stream e k' i) as [s|] eqn:E; [|discriminate]. cbn [option_map] in E'. inversion E'; subst s'.
  apply Hf. rewrite (get_same_tbl e k k' i Ek). exact E.
Qed.

Ltac gsame e := intros; apply (Gok_same e); try reflexivity; assumption.
Lemma Gok_set_d : forall e x, Gok e -> Gok (set_d e x). Proof. intros e; gsame e. Qed.
Lemma Gok_set_qs : forall e x, Gok e -> Gok (set_qs e x). Proof. intros e; gsame e. Qed.
Lemma Gok_set_slots : forall e x, Gok e -> Gok (set_slots e x). Proof. intros e; gsame e. Qed.
Lemma Gok_set_events : forall e x, Gok e -> Gok (set_events e x). Proof. intros e; gsame e. Qed.
Lemma Gok_set_out : forall e x l, Gok e -> Gok (set_out e x l). Proof. intros e; gsame e. Qed.
Lemma Gok_set_fail : forall e x, Gok e -> Gok (set_fail e x). Proof. intros e; gsame e. Qed.
Lemma Gok_add_event : forall e ev, Gok e -> Gok (add_event e ev). Proof. intros e; gsame e. Qed.
Lemma Gok_release : forall e f, Gok e -> Gok (release e f). Proof. intros e; gsame e. Qed.
Lemma Gok_upd_queue : forall e k c f, Gok e -> Gok (upd_queue e k c f). Proof. intros e; gsame e. Qed.
Lemma Gok_enqueue_idle : forall e k c i, Gok e -> Gok (enqueue_idle e k c i). Proof. intros e; gsame e. Qed.
Lemma Gok_upd_slot : forall e s f, Gok e -> Gok (upd_slot e s f). Proof. intros e; gsame e. Qed.
Lemma Gok_skip : forall e s, Gok e -> Gok (skip e s). Proof. intros e; gsame e. Qed.
Lemma Gok_emit : forall e h d, Gok e -> Gok (emit e h d).
Proof. intros e h d HG. unfold emit. destruct (e_gone e); [apply Gok_set_fail; exact HG|]. destruct d; apply Gok_set_out; exact HG. Qed.
Lemma Gok_emit_frames : forall ps e k i, Gok e -> Gok (emit_frames e k i ps).
Proof. unfold emit_frames. induction ps as [|p ps IH]; intros e k i HG; cbn [fold_left]; [exact HG|]. apply IH, Gok_emit, HG. Qed.
Lemma Gok_fold_release : forall rel e, Gok e -> Gok (fold_left release rel e).
Proof. induction rel as [|f rel IH]; intros e HG; cbn [fold_left]; [exact HG|]. apply IH, Gok_release, HG. Qed.

(* changes that leave phase of the write half, its buffer and the non-emptiness of its log alone *)
Definition gkeep (s s' : rstream) : Prop :=
  s_wph s' = s_wph s /\ s_wbuf s' = s_wbuf s /\ (g_wlog (s_g s) <> [] -> g_wlog (s_g s') <> []).
Lemma gs_ok_keep : forall c s s', gkeep s s' -> gs_ok c s -> gs_ok c s'.
Proof.
  intros c s s' (A & B & C) (G1 & G2 & G3 & G4). unfold gs_ok. rewrite A, B. repeat split; try assumption.
  destruct (s_wph s); auto.
Qed.
Lemma Gok_upd_keep : forall e k i f, Gok e -> (forall s, gkeep s (f s)) -> Gok (upd_stream e k i f).
Proof. intros e k i f HG Hf. apply Gok_upd; [exact HG|]. intros s E. apply (gs_ok_keep _ s); [apply Hf|apply (HG k i s E)]. Qed.

Lemma Gok_emit_data : forall ps e k i, Gok e -> Gok (emit_data e k i ps).
Proof.
  intros. unfold emit_data. apply Gok_upd_keep; [apply Gok_emit_frames; assumption|].
  intros s. unfold gkeep, g_sent. cbn [set_g s_wph s_wbuf s_g g_wlog]. repeat split. destruct (g_wlog (s_g s)) as [|[w cs] t]; [auto|intros _; discriminate].
Qed.

Lemma Gok_complete_read : forall e k i p, Gok e -> Gok (complete_read e k i p).
Proof. intros. unfold complete_read. apply Gok_add_event, Gok_upd_slot, Gok_upd_keep; [assumption|]. intros s. unfold gkeep. cbn. auto. Qed.

Lemma read_iter_s_keep : forall s p s' rel done, read_iter_s s p = RStep s' rel done ->
  gkeep s s' /\ g_wlog (s_g s') = g_wlog (s_g s).
Proof.
  intros s p s' rel done H. unfold read_iter_s in H.
  destruct (s_closed s). { inversion H; subst. unfold gkeep. auto. }
  assert (Hgen : forall f s1, (gkeep s s1 /\ g_wlog (s_g s1) = g_wlog (s_g s)) ->
    (if fkind f =? FK_CLOSE then RStep (set_closed s1 true) [f] false
      else if fkind f =? FK_DATA then
        let n := Z.to_nat (Z.min (pr_want p - pr_len p) (Z.of_nat (length (fdata f)))) in
        let got := firstn n (fdata f) in
        let rest := skipn n (fdata f) in
        let p' := mkPread (pr_slot p) (pr_want p) (pr_len p + Z.of_nat n) (got :: pr_chunks p) in
        let s2 := g_chunk (set_pread s1 (Some p')) got in
        let done := pr_len p' =? pr_want p in
        match rest with
        | [] => RStep s2 [f] done
        | _ => RStep (set_cache s2 (Some (mkFrame (fkind f) rest (fsize f)))) [] done
        end
      else RStep s1 [f] false) = RStep s' rel done ->
    gkeep s s' /\ g_wlog (s_g s') = g_wlog (s_g s)).
  { intros f s1 H1 HH. destruct (fkind f =? FK_CLOSE); [inversion HH; subst; exact H1|].
    destruct (fkind f =? FK_DATA); [|inversion HH; subst; exact H1].
    cbv zeta in HH. destruct (skipn _ (fdata f)); inversion HH; subst; exact H1. }
  destruct (s_cache s) as [fc|]; [apply (Hgen fc (set_cache s None)); [unfold gkeep; cbn; auto|exact H]|].
  destruct (s_inq s) as [|f t]; [discriminate|]. apply (Hgen f (set_inq s t)); [unfold gkeep; cbn; auto|exact H].
Qed.

Lemma Gok_read_iter : forall e k i s p e', Gok e -> get_stream e k i = Some s -> read_iter e k i s p = Some e' -> Gok e'.
Proof.
  intros e k i s p e' HG E H. unfold read_iter in H. destruct (read_iter_s s p) as [|s' rel done] eqn:Er; [discriminate|].
  inversion H; subst e'. clear H.
  assert (Hm : Gok (fold_left release rel (upd_stream e k i (fun _ => s')))).
  { apply Gok_fold_release, Gok_upd; [exact HG|]. intros s0 E0. assert (s0 = s) by congruence. subst s0.
    apply (gs_ok_keep _ s); [apply (read_iter_s_keep _ _ _ _ _ Er)|apply (HG k i s E)]. }
  destruct done; [|exact Hm]. destruct (s_pread s'); [|exact Hm]. apply Gok_complete_read. exact Hm.
Qed.

Lemma Gok_handover : forall e k i slot, Gok e ->
  (forall s, get_stream e k i = Some s -> g_wlog (s_g s) <> [] /\ s_wbuf s = []) -> Gok (handover e k i slot).
Proof.
  intros e k i slot HG Hs. unfold handover. apply Gok_add_event, Gok_upd_slot, Gok_upd; [exact HG|].
  intros s E. destruct (Hs s E) as [Hw Hb]. destruct (HG k i s E) as (_ & G2 & G3 & _).
  unfold gs_ok. cbn [g_reader set_g set_wph set_rph s_wph s_wbuf s_g g_wlog]. rewrite Hb. repeat split; auto; try (cbn; pose proof (Z.le_trans 0 1 (wfs (e_cfg e)))); try constructor.
  rewrite Hb in G2. exact G2.
Qed.
(* ================= every transition of an endpoint keeps the pair relation ================= *)
Definition LI (e : endpoint) : Prop := K e /\ Gok e /\ cfg_ok (e_cfg e) /\ small e.

Lemma LI_pres : forall e e', pres e e' -> K e' -> Gok e' -> LI e -> LI e'.
Proof.
  intros e e' (Hc & Hna & Hnc & _) HK HG (_ & _ & Hcfg & Hsm). unfold LI, small. rewrite Hc, Hna, Hnc. auto.
Qed.

Lemma GB_stream_step : forall e P k i e', stream_step e k i = Some e' -> LI e -> both e P -> Gok e' /\ both e' P.
Proof.
  intros e P k i e' H (HK & HG & Hcfg & Hsm) HB. unfold stream_step in H.
  destruct (get_stream e k i) as [s|] eqn:E; [|discriminate].
  destruct (HG k i s E) as (G1 & G2 & G3 & G4).
  assert (Hmain : (match s_rph s, s_wph s with
                   | RReady, WWaitOpen => Some (enqueue_idle (upd_stream e k i (fun s => set_wph s WQueue)) k (s_cap s) i)
                   | RReady, WJoin slot => Some (handover e k i slot)
                   | _, _ => None
                   end) = Some e' -> Gok e' /\ both e' P).
  { intros Hm. destruct (s_rph s) eqn:Er; try discriminate. destruct (s_wph s) eqn:Ew; try discriminate; inversion Hm; subst e'.
    - split.
      + apply Gok_enqueue_idle, Gok_upd; [exact HG|]. intros s0 E0. assert (s0 = s) by congruence. subst s0.
        unfold gs_ok. cbn [set_wph s_wph s_wbuf]. rewrite G4 by discriminate. repeat split; auto; try constructor; try discriminate.
        cbn. destruct Hcfg as (_ & Hw & _). lia.
      + apply both_enqueue_idle. apply (both_upd_at e P k i s); [exact HB|exact E| |reflexivity].
        unfold svw, wclosed. cbn [set_wph s_wph s_g]. rewrite Ew. reflexivity.
    - split.
      + apply Gok_handover; [exact HG|]. intros s0 E0. assert (s0 = s) by congruence. subst s0.
        split; [exact G1|apply G4; discriminate].
      + apply (both_handover e P k i s slot slot HB E Ew Er). }
  assert (Hdisc : forall f t, s_rph s = RDiscard -> s_inq s = f :: t ->
            let s2 := if fkind f =? FK_OPEN then g_open_seen (set_rph (set_inq s t) RReady) else set_inq s t in
            Gok (release (upd_stream e k i (fun _ => s2)) f) /\ both (release (upd_stream e k i (fun _ => s2)) f) P).
  { intros f t Er Eq s2. split.
    - apply Gok_release, Gok_upd; [exact HG|]. intros s0 E0. assert (s0 = s) by congruence. subst s0.
      apply (gs_ok_keep _ s); [|apply (HG k i s E)]. unfold gkeep, s2. destruct (fkind f =? FK_OPEN); cbn; auto.
    - apply both_release. destruct (upd_stream_lens e k i (fun _ => s2)) as [Hna Hnc].
      apply (both_recv e _ P k i s s2 HB E); try assumption; try (unfold upd_stream, set_table; destruct (k =? 0); reflexivity).
      + unfold s2. destruct (fkind f =? FK_OPEN); reflexivity.
      + intros k' i'. apply (upd_const_get e k i s2 k' i' s E).
      + intros ss infl Hi. apply (sinv_discard ss s f t infl Er Eq Hi). }
  assert (Hread : forall p, s_rph s = RApp -> read_iter e k i s p = Some e' -> Gok e' /\ both e' P).
  { intros p Er Hr. split; [eapply Gok_read_iter; eassumption|].
    unfold read_iter in Hr. destruct (read_iter_s s p) as [|s' rel done] eqn:Eri; [discriminate|]. inversion Hr; subst e'. clear Hr.
    assert (Hm : both (fold_left release rel (upd_stream e k i (fun _ => s'))) P).
    { apply both_fold_release. destruct (upd_stream_lens e k i (fun _ => s')) as [Hna Hnc].
      apply (both_recv e _ P k i s s' HB E); try assumption; try (unfold upd_stream, set_table; destruct (k =? 0); reflexivity).
      - destruct (read_iter_s_keep _ _ _ _ _ Eri) as [(A & _ & _) B]. unfold svw, wclosed. rewrite A, B. reflexivity.
      - intros k' i'. apply (upd_const_get e k i s' k' i' s E).
      - intros ss infl Hi. apply (sinv_read ss s p s' rel done infl Er Eri Hi). }
    destruct done; [|exact Hm]. destruct (s_pread s'); [|exact Hm]. apply both_complete_read. exact Hm. }
  destruct (s_rph s) eqn:Er; destruct (s_inq s) as [|f t] eqn:Eq; destruct (s_pread s) as [p|] eqn:Ep;
    try (apply (Hread p eq_refl H)); try (apply Hmain; exact H); try discriminate;
    try (inversion H; subst e'; apply (Hdisc f t eq_refl eq_refl)).
Qed.

Lemma step_stream_step : forall e P k i e', stream_step e k i = Some e' -> LI e -> both e P -> LI e' /\ both e' P.
Proof.
  intros e P k i e' H HL HB. destruct (GB_stream_step e P k i e' H HL HB) as [HG HB'].
  split; [|exact HB']. apply (LI_pres e e'); [eapply pres_stream_step; exact H|eapply K_stream_step; [apply HL|exact H]|exact HG|exact HL].
Qed.

Lemma cfg_emit : forall e h d, e_cfg (emit e h d) = e_cfg e.
Proof. intros. unfold emit. destruct (e_gone e); [reflexivity|]. destruct d; reflexivity. Qed.

Lemma Gok_queue_step : forall e q e', K e -> Gok e -> cfg_ok (e_cfg e) -> In q (e_qs e) -> queue_step e q = Some e' -> Gok e'.
Proof.
  intros e q e' HK HG Hcfg Hin H. unfold queue_step in H.
  destruct (q_idle q) as [|i idle] eqn:Ei; [discriminate|]. destruct (q_pend q) as [|x pend]; [discriminate|].
  assert (Hi : In i (q_idle q)) by (rewrite Ei; left; reflexivity).
  destruct (K3 e HK q i Hin Hi) as (s & E & W & C & R).
  destruct (HG _ _ _ E) as (_ & _ & _ & G4).
  assert (Hb : s_wbuf s = []) by (apply G4; rewrite W; discriminate).
  set (e2 := emit (upd_queue e (q_kind q) (q_cap q) (fun _ => mkQueue (q_kind q) (q_cap q) idle pend)) (mk_header FK_OPEN (kind_bits (q_kind q)) i) None) in *.
  assert (E2 : get_stream e2 (q_kind q) i = Some s) by (unfold e2; rewrite get_emit; exact E).
  assert (G2 : Gok e2) by (apply Gok_emit, Gok_upd_queue; exact HG).
  set (f3 := fun s0 : rstream => g_push (set_wph s0 (WJoin x)) x) in *.
  assert (G3 : Gok (upd_stream e2 (q_kind q) i f3)).
  { apply Gok_upd; [exact G2|]. intros s0 E0. assert (s0 = s) by congruence. subst s0.
    unfold gs_ok, f3. cbn [g_push set_g set_wph s_wph s_wbuf s_g g_wlog]. rewrite Hb.
    split; [discriminate|]. split; [cbn [length Z.of_nat]; destruct Hcfg as (_ & Hw & _); unfold e2; rewrite cfg_emit; cbn [upd_queue set_qs e_cfg]; lia|]. split; [constructor|auto]. }
  destruct (q_kind q =? 0); inversion H; subst e'; [|exact G3].
  apply Gok_handover; [exact G3|]. intros s0 E0. rewrite get_upd, Bool.eqb_reflx, Nat.eqb_refl, E2 in E0. cbn [option_map] in E0. inversion E0; subst s0.
  unfold f3. cbn [g_push set_g set_wph s_wbuf s_g g_wlog]. split; [discriminate|exact Hb].
Qed.

Lemma step_queue_step : forall e P q e', In q (e_qs e) -> queue_step e q = Some e' -> LI e -> both e P -> LI e' /\ both e' P.
Proof.
  intros e P q e' Hin H HL HB. pose proof HL as (HK & HG & Hcfg & Hsm).
  assert (HLI : LI e').
  { apply (LI_pres e e'); [eapply pres_queue_step; exact H|eapply K_queue_step; eassumption|eapply Gok_queue_step; eassumption|exact HL]. }
  split; [exact HLI|].
  unfold queue_step in H. destruct (q_idle q) as [|i idle] eqn:Ei; [discriminate|]. destruct (q_pend q) as [|x pend]; [discriminate|].
  assert (Hi : In i (q_idle q)) by (rewrite Ei; left; reflexivity).
  destruct (K3 e HK q i Hin Hi) as (s & E & W & C & R).
  set (e1 := upd_queue e (q_kind q) (q_cap q) (fun _ => mkQueue (q_kind q) (q_cap q) idle pend)) in *.
  assert (HB1 : both e1 P) by (apply both_upd_queue; exact HB).
  assert (E1 : get_stream e1 (q_kind q) i = Some s) by exact E.
  assert (Hidx : Z.of_nat i <= 8191) by (eapply small_idx; eassumption).
  assert (Hc : wclosed s = true) by (unfold wclosed; rewrite W; reflexivity).
  pose proof (both_open_frame e1 P (q_kind q) i s x HB1 E1 Hc Hidx) as HB3.
  set (e3 := upd_stream (emit e1 (mk_header FK_OPEN (kind_bits (q_kind q)) i) None) (q_kind q) i (fun s0 => g_push (set_wph s0 (WJoin x)) x)) in *.
  destruct (q_kind q =? 0) eqn:Ek; inversion H; subst e'; [|exact HB3].
  apply (both_handover e3 P (q_kind q) i (g_push (set_wph s (WJoin x)) x) x x HB3).
  - unfold e3. rewrite get_upd, Bool.eqb_reflx, Nat.eqb_refl, get_emit, E1. reflexivity.
  - reflexivity.
  - cbn. apply R. reflexivity.
Qed.
(* ---- dispatcher, passes, one round ---- *)
Lemma step_disp_run : forall fuel e P, LI e -> both e P -> LI (fst (disp_run fuel e)) /\ both (fst (disp_run fuel e)) P.
Proof.
  induction fuel as [|fuel IH]; intros e P HL HB; cbn [disp_run]; [auto|].
  pose proof HL as (HK & HG & Hcfg & Hsm). destruct HB as [H1 H2]. destruct Hcfg as [Hr Hw].
  fold (na_of e). fold (nc_of e).
  destruct (dstep (e_cfg e) (na_of e) (nc_of e) (e_d e)) as [|d|d k i f|d code] eqn:Ed; cbn [fst].
  - split; [exact HL|split; assumption].
  - assert (HL' : LI (set_d e d)).
    { apply (LI_pres e); [apply pres_set_d_progress; exact Ed|apply K_set_d; exact HK|apply Gok_set_d; exact HG|exact HL]. }
    assert (HB' : both (set_d e d) P).
    { split; [apply (dinv_S_ext e _ P H1); reflexivity|apply (dinv_progress P e d Hr H2 Ed)]. }
    specialize (IH (set_d e d) P HL' HB'). destruct (disp_run fuel (set_d e d)) as [e' b]. exact IH.
  - split.
    + apply (LI_pres e); [apply pres_deliver; exact Ed|apply K_deliver, K_set_d; exact HK| |exact HL].
      unfold deliver. apply Gok_upd_keep; [apply Gok_set_d; exact HG|]. intros s. unfold gkeep. cbn. auto.
    + split; [|apply (dinv_deliver P e d k i f Hr H2 Ed)].
      unfold deliver. set (fu := fun s => set_inq s (s_inq s ++ [f])).
      destruct (upd_stream_lens (set_d e d) k i fu) as [Hna Hnc].
      apply (dinv_S_ext e _ P H1); try assumption; try (unfold upd_stream, set_table; destruct (k =? 0); reflexivity).
      intros k' i'. rewrite get_upd. change (get_stream (set_d e d) k' i') with (get_stream e k' i').
      destruct (_ && _); [|reflexivity]. destruct (get_stream e k' i'); reflexivity.
  - exfalso. apply (dinv_failed P e d code Hr H2 Ed).
Qed.

Lemma step_streams_pass : forall n e P k i, LI e -> both e P ->
  LI (fst (streams_pass e k n i)) /\ both (fst (streams_pass e k n i)) P.
Proof.
  induction n as [|n IH]; intros e P k i HL HB; cbn [streams_pass]; [auto|].
  destruct (stream_step e k i) as [e'|] eqn:E.
  - destruct (step_stream_step e P k i e' E HL HB) as [HL' HB'].
    specialize (IH e' P k (S i) HL' HB'). destruct (streams_pass e' k n (S i)) as [e'' b]. exact IH.
  - apply IH; assumption.
Qed.

Lemma step_queues_pass : forall qs e P, LI e -> both e P ->
  LI (fst (queues_pass e qs)) /\ both (fst (queues_pass e qs)) P.
Proof.
  induction qs as [|[k cap] qs IH]; intros e P HL HB; cbn [queues_pass]; [auto|].
  destruct (find _ (e_qs e)) as [q|] eqn:Ef; [|apply IH; assumption].
  destruct (queue_step e q) as [e'|] eqn:E; [|apply IH; assumption].
  apply find_some in Ef. destruct Ef as [Hin _].
  destruct (step_queue_step e P q e' Hin E HL HB) as [HL' HB'].
  specialize (IH e' P HL' HB'). destruct (queues_pass e' qs) as [e'' b]. exact IH.
Qed.

Lemma step_ep_round : forall e P, LI e -> both e P -> LI (fst (ep_round e)) /\ both (fst (ep_round e)) P.
Proof.
  intros e P HL HB. unfold ep_round. pose proof HB as [_ (Hf & _)]. rewrite Hf.
  destruct (step_disp_run 4 e P HL HB) as [L1 B1]. destruct (disp_run 4 e) as [e1 p1]. cbn [fst] in *.
  destruct (step_streams_pass (length (e_acc e1)) e1 P 0 0%nat L1 B1) as [L2 B2].
  destruct (streams_pass e1 0 (length (e_acc e1)) 0) as [e2 p2]. cbn [fst] in *.
  destruct (step_streams_pass (length (e_con e2)) e2 P 1 0%nat L2 B2) as [L3 B3].
  destruct (streams_pass e2 1 (length (e_con e2)) 0) as [e3 p3]. cbn [fst] in *.
  destruct (step_queues_pass (map (fun q => (q_kind q, q_cap q)) (e_qs e3)) e3 P L3 B3) as [L4 B4].
  destruct (queues_pass e3 _) as [e4 p4]. cbn [fst] in *. auto.
Qed.
(* ---- application operations ---- *)
Lemma gen_bytes_from_byte : forall t n from, Forall is_byte (gen_bytes_from (data_byte t) from n).
Proof.
  intros t. induction n as [|n IH]; intros from; cbn [gen_bytes_from]; constructor; [|apply IH].
  unfold is_byte, data_byte. apply Z.mod_pos_bound. lia.
Qed.

Lemma Forall_concat_in : forall A (P : A -> Prop) (ls : list (list A)) l, Forall P (concat ls) -> In l ls -> Forall P l.
Proof.
  intros A P. induction ls as [|x ls IH]; intros l H Hin; [destruct Hin|]. cbn [concat] in H. apply Forall_app in H. destruct H as [Hx Hr].
  destruct Hin as [->|Hin]; [exact Hx|apply IH; assumption].
Qed.

Lemma Gok_send_close : forall e k i, Gok e -> cfg_ok (e_cfg e) -> Gok (send_close e k i).
Proof.
  intros e k i HG Hcfg. unfold send_close. destruct (get_stream e k i) as [s|] eqn:E; [|exact HG].
  set (e1 := match s_wbuf s with [] => e | b => emit_data e k i [b] end).
  assert (G1 : Gok e1) by (unfold e1; destruct (s_wbuf s); [exact HG|apply Gok_emit_data; exact HG]).
  assert (C1 : e_cfg e1 = e_cfg e).
  { unfold e1. destruct (s_wbuf s); [reflexivity|]. unfold emit_data, upd_stream, set_table. destruct (k =? 0); cbn [set_acc set_con e_cfg];
      unfold emit_frames; cbn [fold_left]; apply cfg_emit. }
  set (e2 := upd_stream e1 k i (fun s0 => set_wbuf s0 [])).
  assert (G2 : Gok e2).
  { apply Gok_upd; [exact G1|]. intros s0 E0. destruct (G1 _ _ _ E0) as (A & B & C & D). unfold gs_ok. cbn [set_wbuf s_wph s_wbuf s_g].
    rewrite C1. destruct Hcfg as (_ & Hw & _). repeat split; auto; try constructor. cbn. lia. }
  set (e3 := emit e2 _ None). assert (G3 : Gok e3) by (apply Gok_emit; exact G2).
  unfold after_close. destruct (get_stream e3 k i) as [s3|] eqn:E3; [|exact G3].
  assert (Hb3 : s_wbuf s3 = []).
  { unfold e3 in E3. rewrite get_emit in E3. unfold e2 in E3. rewrite get_upd, Bool.eqb_reflx, Nat.eqb_refl in E3.
    destruct (get_stream e1 k i); [|discriminate]. cbn [option_map] in E3. inversion E3. reflexivity. }
  assert (Hgen : forall w', (match w' with WApp | WJoin _ => False | _ => True end) -> Gok (upd_stream e3 k i (fun s0 => set_wph s0 w'))).
  { intros w' Hw'. apply Gok_upd; [exact G3|]. intros s0 E0. assert (s0 = s3) by congruence. subst s0.
    destruct (G3 _ _ _ E3) as (A & B & C & D). unfold gs_ok. cbn [set_wph s_wph s_wbuf s_g]. rewrite Hb3 in *.
    repeat split; auto. destruct w'; auto; contradiction. }
  destruct (k =? 0); [apply Hgen; exact I|apply Gok_enqueue_idle, Hgen; exact I].
Qed.

Lemma step_slot_op : forall e P o r, In r (e_slots e) -> LI e -> both e P -> LI (slot_op e o r) /\ both (slot_op e o r) P.
Proof.
  intros e P o r Hin HL HB. pose proof HL as (HK & HG & Hcfg & Hsm).
  assert (HLI : forall e', Gok e' -> e' = slot_op e o r -> LI e').
  { intros e' HG' ->. apply (LI_pres e); [apply pres_slot_op|apply K_slot_op; assumption|exact HG'|exact HL]. }
  assert (Hskip : LI (skip e (sl_id r)) /\ both (skip e (sl_id r)) P).
  { split; [|apply both_skip; exact HB]. apply (LI_pres e); [apply pres_skip|apply K_skip; exact HK|apply Gok_skip; exact HG|exact HL]. }
  cut (Gok (slot_op e o r) /\ both (slot_op e o r) P). { intros [A B]. split; [apply (HLI _ A eq_refl)|exact B]. }
  unfold slot_op. destruct (sl_sid r) as [i|] eqn:Es; [|split; [apply Gok_skip; exact HG|apply both_skip; exact HB]].
  destruct (get_stream e (sl_kind r) i) as [s|] eqn:E; [|split; [apply Gok_skip; exact HG|apply both_skip; exact HB]].
  destruct (K5 e HK r i Hin Es) as (s0 & E0 & W0 & R0). assert (s0 = s) by congruence. subst s0.
  destruct (HG _ _ _ E) as (G1 & G2 & G3 & G4).
  assert (Hidx : Z.of_nat i <= 8191) by (eapply small_idx; eassumption).
  destruct Hcfg as (Hrfs & Hw1 & Hw2).
  destruct o; try (split; [exact HG|exact HB]).
  - (* write *)
    destruct (sl_w r) eqn:Ew; [|split; [apply Gok_skip; exact HG|apply both_skip; exact HB]].
    specialize (W0 eq_refl). rewrite W0 in G1. unfold op_write.
    set (data := gen_bytes (data_byte (sl_id r)) (sl_woff r) n).
    destruct (write_all (wfs (e_cfg e)) (s_wbuf s) data) as [frames buf] eqn:Ewa.
    assert (Hwpos : 0 < wfs (e_cfg e)) by lia.
    destruct (write_all_spec (wfs (e_cfg e)) (s_wbuf s) data frames buf Hwpos G2 Ewa) as (Hcat & Hlen & Hbl).
    assert (Hbytes : Forall is_byte (concat frames ++ buf)).
    { rewrite Hcat. apply Forall_app. split; [exact G3|apply gen_bytes_from_byte]. }
    apply Forall_app in Hbytes. destruct Hbytes as [Hbf Hbb].
    destruct (g_wlog (s_g s)) as [|[w cs] older] eqn:Ewl; [contradiction|].
    split.
    + apply Gok_upd_slot, Gok_upd; [apply Gok_emit_data; exact HG|]. intros s1 E1. rewrite get_emit_data_same, E in E1. cbn [option_map] in E1. inversion E1; subst s1.
      unfold gs_ok, g_sent. cbn [set_wbuf set_g s_wph s_wbuf s_g g_wlog]. rewrite W0, Ewl.
      assert (Hc : e_cfg (emit_data e (sl_kind r) i frames) = e_cfg e).
      { unfold emit_data, upd_stream, set_table. destruct (sl_kind r =? 0); cbn [set_acc set_con e_cfg]; clear; revert e; unfold emit_frames;
          induction frames as [|p ps IH]; intros e; cbn [fold_left]; [reflexivity| |reflexivity|]; rewrite IH; apply cfg_emit. }
      rewrite Hc. repeat split; auto; try discriminate. intros Hx; contradiction.
    + apply both_upd_slot. apply both_upd_neutral; [|intros s1; split; reflexivity].
      apply (both_emit_data e P (sl_kind r) i s w cs older frames HB E Ewl); [unfold wclosed; rewrite W0; reflexivity|exact Hidx|].
      apply Forall_forall. intros p Hp. rewrite Forall_forall in Hlen. split; [rewrite (Hlen p Hp); lia|eapply Forall_concat_in; eassumption].
  - (* flush *)
    destruct (sl_w r) eqn:Ew; [|split; [apply Gok_skip; exact HG|apply both_skip; exact HB]].
    specialize (W0 eq_refl). rewrite W0 in G1. unfold op_flush. destruct (s_wbuf s) as [|z l] eqn:Eb; [split; [exact HG|exact HB]|].
    destruct (g_wlog (s_g s)) as [|[w cs] older] eqn:Ewl; [contradiction|].
    split.
    + apply Gok_upd; [apply Gok_emit_data; exact HG|]. intros s1 E1. rewrite get_emit_data_same, E in E1. cbn [option_map] in E1. inversion E1; subst s1.
      unfold gs_ok, g_sent. cbn [set_wbuf set_g s_wph s_wbuf s_g g_wlog]. rewrite W0, Ewl.
      repeat split; auto; try discriminate; try constructor. cbn. 
      assert (Hc : e_cfg (emit_data e (sl_kind r) i [z :: l]) = e_cfg e).
      { unfold emit_data, upd_stream, set_table. destruct (sl_kind r =? 0); cbn [set_acc set_con e_cfg]; unfold emit_frames; cbn [fold_left]; apply cfg_emit. }
      rewrite Hc. lia.
    + apply both_upd_neutral; [|intros s1; split; reflexivity].
      apply (both_emit_data e P (sl_kind r) i s w cs older [z :: l] HB E Ewl); [unfold wclosed; rewrite W0; reflexivity|exact Hidx|].
      constructor; [|constructor]. split; [cbn [length] in *; lia|exact G3].
  - (* read *)
    destruct (sl_r r && negb _); [|split; [apply Gok_skip; exact HG|apply both_skip; exact HB]]. unfold op_read. split.
    + apply Gok_upd_keep; [exact HG|]. intros s1. unfold gkeep. cbn. auto.
    + apply both_upd_neutral; [exact HB|]. intros s1. split; reflexivity.
  - (* dropw *)
    destruct (sl_w r) eqn:Ew; [|split; [apply Gok_skip; exact HG|apply both_skip; exact HB]].
    specialize (W0 eq_refl). rewrite W0 in G1. unfold op_dropw.
    set (e1 := upd_slot e (sl_id r) _). split.
    + apply Gok_send_close; [apply Gok_upd_slot; exact HG|]. repeat split; assumption.
    + apply (both_send_close e1 P (sl_kind r) i s); [apply both_upd_slot; exact HB|exact E|exact W0|exact Hidx|].
      intros Hne. split; [exact G1|]. split; [|exact G3]. destruct (s_wbuf s); [contradiction|]. cbn [length] in *. lia.
  - (* dropr *)
    destruct (sl_r r) eqn:Er; cbn [andb]; [|split; [apply Gok_skip; exact HG|apply both_skip; exact HB]].
    destruct (negb _); [|split; [apply Gok_skip; exact HG|apply both_skip; exact HB]]. unfold op_dropr.
    specialize (R0 eq_refl).
    set (e1 := upd_slot e (sl_id r) _).
    set (e2 := match s_cache s with Some f => release e1 f | None => e1 end).
    assert (G2' : Gok e2) by (unfold e2; destruct (s_cache s); [apply Gok_release|]; apply Gok_upd_slot; exact HG).
    assert (B2 : both e2 P) by (unfold e2; destruct (s_cache s); [apply both_release|]; apply both_upd_slot; exact HB).
    assert (E2 : get_stream e2 (sl_kind r) i = Some s) by (unfold e2; destruct (s_cache s); exact E).
    set (f := fun s0 => set_closed (set_cache (set_rph s0 RDiscard) None) false).
    split.
    + apply Gok_upd_keep; [exact G2'|]. intros s1. unfold gkeep. cbn. auto.
    + destruct (upd_stream_lens e2 (sl_kind r) i f) as [Hna Hnc].
      apply (both_recv e2 _ P (sl_kind r) i s (f s) B2 E2); try assumption; try (unfold upd_stream, set_table; destruct (sl_kind r =? 0); reflexivity); try reflexivity.
      * intros k' i'. rewrite get_upd. destruct (Bool.eqb (sl_kind r =? 0) (k' =? 0) && Nat.eqb i i') eqn:Em; [|reflexivity].
        apply andb_prop in Em. destruct Em as [Ek Ei]. apply Nat.eqb_eq in Ei. subst i'. apply Bool.eqb_prop in Ek.
        rewrite <- (get_same_tbl e2 _ k' i Ek), E2. reflexivity.
      * intros ss infl Hi. apply (sinv_dropr ss s infl R0 Hi).
Qed.

Lemma step_op_open : forall e P kind cap slot, ~ In slot (map sl_id (e_slots e)) -> LI e -> both e P ->
  LI (op_open e kind cap slot) /\ both (op_open e kind cap slot) P.
Proof.
  intros e P kind cap slot Hf HL HB. pose proof HL as (HK & HG & Hcfg & Hsm). split; [|apply both_op_open; exact HB].
  apply (LI_pres e); [apply pres_op_open|apply K_op_open; assumption| |exact HL].
  unfold op_open. apply Gok_upd_queue, Gok_set_slots. exact HG.
Qed.
(* ================= the two-sided system ================= *)
Definition pinv (s : sys) : Prop := s_raw s = false /\ LI (sA s) /\ LI (sB s) /\ both (sA s) (sB s).

Lemma both_sym : forall e P, both e P -> both P e.
Proof. intros e P [A B]. split; assumption. Qed.

Lemma LI_neutral : forall e e', pres e e' -> (K e -> K e') -> (Gok e -> Gok e') -> LI e -> LI e'.
Proof. intros e e' Hp HK HG HL. pose proof HL as (A & B & _). apply (LI_pres e e' Hp (HK A) (HG B) HL). Qed.

Lemma pinv_apply_op : forall s o, pinv s -> pinv (apply_op s o).
Proof.
  intros s o (Hr & LA & LB & HB). unfold apply_op, raw_feed. rewrite Hr.
  assert (HskipB : pinv (mkSys (sA s) (skip (sB s) 0) false) \/ True) by (right; exact I). clear HskipB.
  assert (Hskip : forall x, pinv (mkSys (sA s) (skip (sB s) x) false)).
  { intros x. unfold pinv. cbn [sA sB s_raw]. split; [reflexivity|]. split; [exact LA|]. split.
    - apply (LI_neutral (sB s)); [apply pres_skip|apply K_skip|apply Gok_skip|exact LB].
    - apply both_sym, both_skip, both_sym, HB. }
  destruct o; cbn [op_slot andb]; try (unfold pinv; cbn [sA sB s_raw]; rewrite ?Hr; auto; fail).
  - destruct (find_slot (sA s) slot) eqn:FA; destruct (find_slot (sB s) slot) eqn:FB; cbn [orb]; try apply Hskip.
    destruct (negb _ || false); [apply Hskip|].
    destruct (side =? 0).
    + destruct (step_op_open (sA s) (sB s) kind cap slot (find_slot_none _ _ FA) LA HB) as [L' B'].
      unfold pinv. cbn [sA sB s_raw]. auto.
    + destruct (step_op_open (sB s) (sA s) kind cap slot (find_slot_none _ _ FB) LB (both_sym _ _ HB)) as [L' B'].
      unfold pinv. cbn [sA sB s_raw]. split; [reflexivity|]. split; [exact LA|]. split; [exact L'|apply both_sym; exact B'].
  - destruct (find_slot (sA s) slot) eqn:FA; [|destruct (find_slot (sB s) slot) eqn:FB]; try apply Hskip.
    + destruct (step_slot_op (sA s) (sB s) (OWrite slot n) s0 (find_slot_in _ _ _ FA) LA HB) as [L' B']. unfold pinv. cbn [sA sB s_raw]. auto.
    + destruct (step_slot_op (sB s) (sA s) (OWrite slot n) s0 (find_slot_in _ _ _ FB) LB (both_sym _ _ HB)) as [L' B'].
      unfold pinv. cbn [sA sB s_raw]. split; [reflexivity|]. split; [exact LA|]. split; [exact L'|apply both_sym; exact B'].
  - destruct (find_slot (sA s) slot) eqn:FA; [|destruct (find_slot (sB s) slot) eqn:FB]; try apply Hskip.
    + destruct (step_slot_op (sA s) (sB s) (OFlush slot) s0 (find_slot_in _ _ _ FA) LA HB) as [L' B']. unfold pinv. cbn [sA sB s_raw]. auto.
    + destruct (step_slot_op (sB s) (sA s) (OFlush slot) s0 (find_slot_in _ _ _ FB) LB (both_sym _ _ HB)) as [L' B'].
      unfold pinv. cbn [sA sB s_raw]. split; [reflexivity|]. split; [exact LA|]. split; [exact L'|apply both_sym; exact B'].
  - destruct (find_slot (sA s) slot) eqn:FA; [|destruct (find_slot (sB s) slot) eqn:FB]; try apply Hskip.
    + destruct (step_slot_op (sA s) (sB s) (ORead slot n) s0 (find_slot_in _ _ _ FA) LA HB) as [L' B']. unfold pinv. cbn [sA sB s_raw]. auto.
    + destruct (step_slot_op (sB s) (sA s) (ORead slot n) s0 (find_slot_in _ _ _ FB) LB (both_sym _ _ HB)) as [L' B'].
      unfold pinv. cbn [sA sB s_raw]. split; [reflexivity|]. split; [exact LA|]. split; [exact L'|apply both_sym; exact B'].
  - destruct (find_slot (sA s) slot) eqn:FA; [|destruct (find_slot (sB s) slot) eqn:FB]; try apply Hskip.
    + destruct (step_slot_op (sA s) (sB s) (ODropW slot) s0 (find_slot_in _ _ _ FA) LA HB) as [L' B']. unfold pinv. cbn [sA sB s_raw]. auto.
    + destruct (step_slot_op (sB s) (sA s) (ODropW slot) s0 (find_slot_in _ _ _ FB) LB (both_sym _ _ HB)) as [L' B'].
      unfold pinv. cbn [sA sB s_raw]. split; [reflexivity|]. split; [exact LA|]. split; [exact L'|apply both_sym; exact B'].
  - destruct (find_slot (sA s) slot) eqn:FA; [|destruct (find_slot (sB s) slot) eqn:FB]; try apply Hskip.
    + destruct (step_slot_op (sA s) (sB s) (ODropR slot) s0 (find_slot_in _ _ _ FA) LA HB) as [L' B']. unfold pinv. cbn [sA sB s_raw]. auto.
    + destruct (step_slot_op (sB s) (sA s) (ODropR slot) s0 (find_slot_in _ _ _ FB) LB (both_sym _ _ HB)) as [L' B'].
      unfold pinv. cbn [sA sB s_raw]. split; [reflexivity|]. split; [exact LA|]. split; [exact L'|apply both_sym; exact B'].
Qed.
Lemma pinv_transfer : forall s, pinv s -> pinv (transfer s).
Proof.
  intros s (Hr & LA & LB & [H1 H2]). unfold transfer. rewrite Hr.
  set (a := sA s) in *. set (b := sB s) in *.
  set (a' := match e_out b with [] => a | bs => set_d a (feed (e_d a) bs) end).
  set (b' := match e_out a with [] => b | bs => set_d b (feed (e_d b) bs) end).
  assert (Pa : pres a a' /\ (K a -> K a') /\ (Gok a -> Gok a')).
  { unfold a'. destruct (e_out b); [split; [apply pres_refl|auto]|]. split; [apply pres_feed|]. split; [apply K_set_d|apply Gok_set_d]. }
  assert (Pb : pres b b' /\ (K b -> K b') /\ (Gok b -> Gok b')).
  { unfold b'. destruct (e_out a); [split; [apply pres_refl|auto]|]. split; [apply pres_feed|]. split; [apply K_set_d|apply Gok_set_d]. }
  destruct Pa as (Pa1 & Pa2 & Pa3). destruct Pb as (Pb1 & Pb2 & Pb3).
  assert (Va : e_out a' = e_out a /\ e_gone a' = e_gone a /\ e_fail a' = e_fail a /\ na_of a' = na_of a /\ nc_of a' = nc_of a /\
               (forall k i, get_stream a' k i = get_stream a k i) /\ d_st (e_d a') = d_st (e_d a) /\ d_closed (e_d a') = d_closed (e_d a) /\
               d_in (e_d a') = d_in (e_d a) ++ map m256 (e_out b)).
  { unfold a'. destruct (e_out b); cbn [map]; rewrite ?app_nil_r; repeat split; reflexivity. }
  assert (Vb : e_out b' = e_out b /\ e_gone b' = e_gone b /\ e_fail b' = e_fail b /\ na_of b' = na_of b /\ nc_of b' = nc_of b /\
               (forall k i, get_stream b' k i = get_stream b k i) /\ d_st (e_d b') = d_st (e_d b) /\ d_closed (e_d b') = d_closed (e_d b) /\
               d_in (e_d b') = d_in (e_d b) ++ map m256 (e_out a)).
  { unfold b'. destruct (e_out a); cbn [map]; rewrite ?app_nil_r; repeat split; reflexivity. }
  destruct Va as (A1 & A2 & A3 & A4 & A5 & A6 & A7 & A8 & A9). destruct Vb as (B1 & B2 & B3 & B4 & B5 & B6 & B7 & B8 & B9).
  unfold pinv. cbn [sA sB s_raw]. split; [reflexivity|]. split; [|split].
  - apply (LI_neutral a); [eapply pres_trans; [exact Pa1|apply pres_set_out]|intros HK; apply K_set_out, Pa2, HK|intros HG; apply Gok_set_out, Pa3, HG|exact LA].
  - apply (LI_neutral b); [eapply pres_trans; [exact Pb1|apply pres_set_out]|intros HK; apply K_set_out, Pb2, HK|intros HG; apply Gok_set_out, Pb3, HG|exact LB].
  - split.
    + apply (dinv_transfer a _ b _ H1); cbn [set_out e_out e_gone e_fail]; try assumption; try reflexivity.
    + apply (dinv_transfer b _ a _ H2); cbn [set_out e_out e_gone e_fail]; try assumption; try reflexivity.
Qed.

Lemma pinv_settle_round : forall s, pinv s -> pinv (fst (settle_round s)).
Proof.
  intros s HP. unfold settle_round. pose proof (pinv_transfer s HP) as (Hr & LA & LB & HB). set (s1 := transfer s) in *. rewrite Hr.
  destruct (step_ep_round (sA s1) (sB s1) LA HB) as [LA' HB'].
  destruct (step_ep_round (sB s1) (fst (ep_round (sA s1))) LB (both_sym _ _ HB')) as [LB' HB''].
  destruct (ep_round (sA s1)) as [a pa]. destruct (ep_round (sB s1)) as [b pb]. cbn [fst] in *.
  unfold pinv. cbn [sA sB s_raw]. split; [reflexivity|]. split; [exact LA'|]. split; [exact LB'|apply both_sym; exact HB''].
Qed.

Lemma pinv_iter_until : forall p s, pinv s -> pinv (fst (iter_until p s)).
Proof.
  induction p as [p IH|p IH|]; intros s HS; cbn [iter_until].
  - pose proof (pinv_settle_round s HS) as P0. destruct (settle_round s) as [s0 c0]. cbn [fst] in P0.
    destruct c0; [|exact P0].
    pose proof (IH s0 P0) as P1. destruct (iter_until p s0) as [s1 c]. cbn [fst] in P1.
    destruct c; [|exact P1].
    pose proof (IH s1 P1) as P2. destruct (iter_until p s1) as [s2 c2]. exact P2.
  - pose proof (IH s HS) as P1. destruct (iter_until p s) as [s1 c]. cbn [fst] in P1.
    destruct c; [|exact P1].
    pose proof (IH s1 P1) as P2. destruct (iter_until p s1) as [s2 c2]. exact P2.
  - apply pinv_settle_round. exact HS.
Qed.

Lemma pinv_clear_obs : forall s, pinv s -> pinv (clear_obs s).
Proof.
  intros s (Hr & LA & LB & HB). unfold clear_obs, pinv. cbn [sA sB s_raw]. split; [exact Hr|]. split; [|split].
  - apply (LI_neutral (sA s)); [eapply pres_trans; [apply pres_set_out|apply pres_set_events]|intros; apply K_set_events, K_set_out; assumption|intros; apply Gok_set_events, Gok_set_out; assumption|exact LA].
  - apply (LI_neutral (sB s)); [eapply pres_trans; [apply pres_set_out|apply pres_set_events]|intros; apply K_set_events, K_set_out; assumption|intros; apply Gok_set_events, Gok_set_out; assumption|exact LB].
  - apply both_set_events, both_set_log. apply both_sym. apply both_set_events, both_set_log. apply both_sym. exact HB.
Qed.

Lemma pinv_step_sys : forall s o, pinv s -> pinv (step_sys s o).
Proof. intros s o HP. unfold step_sys, settle. apply pinv_iter_until, pinv_apply_op, pinv_clear_obs, HP. Qed.

Lemma pinv_fold : forall ops s, pinv s -> pinv (fold_left step_sys ops s).
Proof. induction ops as [|o ops IH]; intros s HP; cbn [fold_left]; [exact HP|]. apply IH, pinv_step_sys, HP. Qed.
(* ================= start of both Mux::run ================= *)
Definition side_ok (x : side_cfg) : Prop :=
  mux_verify (sd_cfg x) (bt_of_list (sd_acc x)) (bt_of_list (sd_con x)) = true /\ cfg_ok (sd_cfg x) /\
  Forall (fun v => 0 <= v) (map snd (bt_of_list (sd_acc x))) /\ Forall (fun v => 0 <= v) (map snd (bt_of_list (sd_con x))).

Lemma ksorted_no_dup : forall m, ksorted m -> has_dup_keys m = false.
Proof.
  intros m H. induction H as [|[c n] l Hl IH Ha]; [reflexivity|]. cbn [has_dup_keys]. rewrite IH, orb_false_r.
  apply not_true_is_false. intros Hx. apply existsb_exists in Hx. destruct Hx as (p & Hp & Hc). rewrite Forall_forall in Ha.
  specialize (Ha p Hp). unfold klt in Ha. cbn [fst] in *. apply Z.eqb_eq in Hc. lia.
Qed.

Definition closedok (s : rstream) : Prop := (s_wph s = WWaitOpen \/ s_wph s = WQueue) /\ s_wbuf s = [].
Definition freshw (s : rstream) : Prop := s_wph s = WApp /\ s_wbuf s = [].

Lemma send_close_self : forall e k i s, get_stream e k i = Some s -> s_wbuf s = [] ->
  exists s', get_stream (send_close e k i) k i = Some s' /\ closedok s'.
Proof.
  intros e k i s E Hb. unfold send_close. rewrite E, Hb.
  set (e2 := upd_stream e k i (fun s0 => set_wbuf s0 [])). set (e3 := emit e2 _ None).
  assert (E3 : get_stream e3 k i = Some (set_wbuf s [])) by (unfold e3, e2; rewrite get_emit, get_upd, Bool.eqb_reflx, Nat.eqb_refl, E; reflexivity).
  unfold after_close. rewrite E3. destruct (k =? 0) eqn:Ek.
  - eexists. split; [rewrite get_upd, Bool.eqb_reflx, Nat.eqb_refl, E3; reflexivity|]. split; [left; reflexivity|reflexivity].
  - eexists. split; [rewrite get_enqueue_idle, get_upd, Bool.eqb_reflx, Nat.eqb_refl, E3; reflexivity|]. split; [right; reflexivity|reflexivity].
Qed.

Lemma send_close_none : forall e k i, get_stream e k i = None -> send_close e k i = e.
Proof. intros e k i E. unfold send_close. rewrite E. reflexivity. Qed.

Lemma initial_close_spec : forall n e P k i, both e P -> small e ->
  (forall j s, (i <= j)%nat -> get_stream e k j = Some s -> freshw s) ->
  both (initial_close e k n i) P /\ small (initial_close e k n i) /\
  (forall k' j, (k' =? 0) <> (k =? 0) -> get_stream (initial_close e k n i) k' j = get_stream e k' j) /\
  (forall j s', get_stream (initial_close e k n i) k j = Some s' ->
      (exists s, get_stream e k j = Some s /\ ((j < i)%nat \/ (i + n <= j)%nat) /\ s' = s) \/ ((i <= j < i + n)%nat /\ closedok s')).
Proof.
  induction n as [|n IH]; intros e P k i HB Hsm Hf; cbn [initial_close].
  - split; [exact HB|]. split; [exact Hsm|]. split; [reflexivity|]. intros j s' E. left. exists s'. split; [exact E|]. split; [lia|reflexivity].
  - set (e1 := send_close e k i).
    assert (Hsm1 : small e1). { destruct (pres_send_close e k i) as (_ & A & B & _). unfold small. fold e1 in A, B. rewrite A, B. exact Hsm. }
    assert (HB1 : both e1 P).
    { destruct (get_stream e k i) as [s|] eqn:E; [|unfold e1; rewrite send_close_none by exact E; exact HB].
      destruct (Hf i s (le_n _) E) as [Hw Hb]. apply (both_send_close e P k i s HB E Hw); [apply (small_idx e k i s Hsm E)|]. intros Hne. rewrite Hb in Hne. exfalso. apply Hne. reflexivity. }
    destruct (IH e1 P k (S i) HB1 Hsm1) as (A & B & C & D).
    { intros j s Hj Ej. unfold e1 in Ej. rewrite get_send_close_other in Ej by (right; lia). apply (Hf j s); [lia|exact Ej]. }
    split; [exact A|]. split; [exact B|]. split.
    + intros k' j Hk. rewrite C by exact Hk. unfold e1. apply get_send_close_other. left. congruence.
    + intros j s' E'. destruct (D j s' E') as [(s & E1 & Hr & ->)|[Hr Hc]]; [|right; split; [lia|exact Hc]].
      destruct (Nat.eq_dec j i) as [->|Hne].
      * destruct (get_stream e k i) as [s0|] eqn:E0.
        -- destruct (Hf i s0 (le_n _) E0) as [_ Hb]. destruct (send_close_self e k i s0 E0 Hb) as (s1 & Es1 & Hc1). fold e1 in Es1.
           assert (s1 = s) by congruence. subst s1. right. split; [lia|exact Hc1].
        -- unfold e1 in E1. rewrite send_close_none in E1 by exact E0. congruence.
      * unfold e1 in E1. rewrite get_send_close_other in E1 by (right; lia). left. exists s. split; [exact E1|]. split; [lia|reflexivity].
Qed.

Lemma closedok_gs : forall c s, 0 <= wfs c -> closedok s -> gs_ok c s.
Proof.
  intros c s Hw [Hp Hb]. unfold gs_ok. rewrite Hb. split; [destruct Hp as [-> | ->]; exact I|]. split; [cbn; lia|]. split; [constructor|auto].
Qed.
Definition fresh_ep (c : cfg) (acc con pacc pcon : list (Z * Z)) : endpoint :=
  let acc := bt_of_list acc in let con := bt_of_list con in
  let qs := map (fun p => mkQueue 0 (fst p) [] []) acc ++ map (fun p => mkQueue 1 (fst p) [] []) con in
  set_con (set_acc (mkEp c (init_d c) [] [] qs [] [] false [] [] None) (map new_stream (expand (alloc acc pcon))))
          (map new_stream (expand (alloc con pacc))).

Lemma ep_init_fresh : forall c acc con pacc pcon,
  mux_verify c (bt_of_list acc) (bt_of_list con) = true -> has_dup_keys pacc = false -> has_dup_keys pcon = false ->
  ep_init c acc con pacc pcon =
  let e1 := fresh_ep c acc con pacc pcon in
  initial_close (initial_close e1 0 (na_of e1) 0) 1 (nc_of e1) 0.
Proof.
  intros c acc con pacc pcon Hv H1 H2. unfold ep_init, fresh_ep. rewrite Hv, H1, H2. cbn [negb orb]. unfold na_of, nc_of. cbn [set_con set_acc e_acc e_con]. reflexivity.
Qed.

Lemma get_fresh : forall c acc con pacc pcon k i s, get_stream (fresh_ep c acc con pacc pcon) k i = Some s -> exists cap, s = new_stream cap.
Proof.
  intros c acc con pacc pcon k i s H. unfold get_stream, table, fresh_ep in H. destruct (k =? 0); cbn [set_con set_acc e_acc e_con] in H; eapply get_new_stream; exact H.
Qed.

Lemma fresh_dinv : forall c acc con pacc pcon c' acc' con' pacc' pcon',
  length (expand (alloc (bt_of_list acc') pcon')) = length (expand (alloc (bt_of_list con) pacc)) ->
  length (expand (alloc (bt_of_list con') pacc')) = length (expand (alloc (bt_of_list acc) pcon)) ->
  dinv (fresh_ep c acc con pacc pcon) (fresh_ep c' acc' con' pacc' pcon').
Proof.
  intros c acc con pacc pcon c' acc' con' pacc' pcon' L1 L2.
  unfold dinv. split; [reflexivity|]. split; [reflexivity|].
  split; [unfold na_of, nc_of, fresh_ep; cbn [set_con set_acc e_acc e_con]; rewrite !map_length; exact L1|].
  split; [unfold na_of, nc_of, fresh_ep; cbn [set_con set_acc e_acc e_con]; rewrite !map_length; exact L2|].
  exists [], []. split.
  - unfold wire_ok, fresh_ep. cbn. auto.
  - intros ks i ss sr E Er. destruct (get_fresh _ _ _ _ _ _ _ _ E) as (cap & ->). destruct (get_fresh _ _ _ _ _ _ _ _ Er) as (cap' & ->).
    unfold sinv. cbn. split; [lia|]. split; [constructor|]. split; [intros f Hf; discriminate|]. exists []. split; [reflexivity|]. repeat split; reflexivity.
Qed.

Lemma fresh_small : forall c acc con pacc pcon,
  mux_verify c (bt_of_list acc) (bt_of_list con) = true ->
  Forall (fun v => 0 <= v) (map snd (bt_of_list acc)) -> Forall (fun v => 0 <= v) (map snd (bt_of_list con)) ->
  small (fresh_ep c acc con pacc pcon).
Proof.
  intros c acc con pacc pcon Hv Ha Hc. unfold small, na_of, nc_of, fresh_ep. cbn [set_con set_acc e_acc e_con]. rewrite !map_length.
  destruct (spawn_ids_in_range c _ _ pcon Hv Ha Hc) as [A _]. destruct (spawn_ids_in_range c _ _ pacc Hv Ha Hc) as [_ B].
  unfold spawn_ids_ok, MAX_STREAM_COUNT in *. apply Z.leb_le in A, B. lia.
Qed.

Lemma fresh_freshw : forall c acc con pacc pcon k j s, get_stream (fresh_ep c acc con pacc pcon) k j = Some s -> freshw s.
Proof. intros. destruct (get_fresh _ _ _ _ _ _ _ _ H) as (cap & ->). split; reflexivity. Qed.

(* closing every stream of an endpoint at the start, against a fixed peer state *)
Lemma close_all : forall e P, both e P -> small e -> (forall k j s, get_stream e k j = Some s -> freshw s) ->
  let e' := initial_close (initial_close e 0 (na_of e) 0) 1 (nc_of e) 0 in
  both e' P /\ small e' /\ (forall k j s, get_stream e' k j = Some s -> closedok s).
Proof.
  intros e P HB Hsm Hf e'.
  destruct (initial_close_spec (na_of e) e P 0 0%nat HB Hsm) as (B1 & S1 & O1 & C1); [intros j s _ E; apply (Hf 0 j s E)|].
  set (e1 := initial_close e 0 (na_of e) 0) in *.
  destruct (initial_close_spec (nc_of e) e1 P 1 0%nat B1 S1) as (B2 & S2 & O2 & C2).
  { intros j s _ E. rewrite O1 in E by (cbn; discriminate). apply (Hf 1 j s E). }
  split; [exact B2|]. split; [exact S2|].
  intros k j s E. destruct (k =? 0) eqn:Ek.
  - rewrite (get_same_tbl _ k 0 j Ek) in E. unfold e' in E. rewrite O2 in E by (cbn; discriminate).
    destruct (C1 j s E) as [(s0 & E0 & [Hr|Hr] & _)|[_ Hc]]; [lia| |exact Hc].
    exfalso. unfold get_stream, table in E0. cbn [Z.eqb] in E0. assert (Hn : nth_error (e_acc e) j = None) by (apply nth_error_None; unfold na_of in Hr; lia). congruence.
  - assert (Ek1 : (k =? 0) = (1 =? 0)) by (rewrite Ek; reflexivity). rewrite (get_same_tbl _ k 1 j Ek1) in E.
    destruct (C2 j s E) as [(s0 & E0 & [Hr|Hr] & _)|[_ Hc]]; [lia| |exact Hc].
    exfalso. rewrite O1 in E0 by (cbn; discriminate). unfold get_stream, table in E0. cbn [Z.eqb] in E0.
    assert (Hn : nth_error (e_con e) j = None) by (apply nth_error_None; unfold nc_of in Hr; lia). congruence.
Qed.

Theorem pinv_init : forall a b, side_ok a -> side_ok b -> pinv (sys_init false a b).
Proof.
  intros a b (Va & Ca & Pa1 & Pa2) (Vb & Cb & Pb1 & Pb2). unfold sys_init.
  assert (Da : forall l, has_dup_keys (bt_of_list l) = false) by (intros; apply ksorted_no_dup, bt_of_list_sorted).
  rewrite (ep_init_fresh (sd_cfg b) (sd_acc b) (sd_con b) _ _ Vb (Da _) (Da _)).
  rewrite (ep_init_fresh (sd_cfg a) (sd_acc a) (sd_con a) _ _ Va (Da _) (Da _)).
  set (A1 := fresh_ep (sd_cfg a) (sd_acc a) (sd_con a) (bt_of_list (sd_acc b)) (bt_of_list (sd_con b))).
  set (B1 := fresh_ep (sd_cfg b) (sd_acc b) (sd_con b) (bt_of_list (sd_acc a)) (bt_of_list (sd_con a))).
  assert (HB1 : both A1 B1).
  { split; apply fresh_dinv; f_equal; apply alloc_agrees; apply bt_of_list_sorted. }
  assert (SA : small A1) by (apply fresh_small; assumption).
  assert (SB : small B1) by (apply fresh_small; assumption).
  destruct (close_all A1 B1 HB1 SA (fresh_freshw _ _ _ _ _)) as (HB2 & SA2 & CA).
  cbv zeta. set (A3 := initial_close (initial_close A1 0 (na_of A1) 0) 1 (nc_of A1) 0) in *.
  destruct (close_all B1 A3 (both_sym _ _ HB2) SB (fresh_freshw _ _ _ _ _)) as (HB3 & SB3 & CB).
  set (B3 := initial_close (initial_close B1 0 (na_of B1) 0) 1 (nc_of B1) 0) in *.
  assert (EA : A3 = ep_init (sd_cfg a) (sd_acc a) (sd_con a) (bt_of_list (sd_acc b)) (bt_of_list (sd_con b))).
  { rewrite (ep_init_fresh _ _ _ _ _ Va (Da _) (Da _)). reflexivity. }
  assert (EB : B3 = ep_init (sd_cfg b) (sd_acc b) (sd_con b) (bt_of_list (sd_acc a)) (bt_of_list (sd_con a))).
  { rewrite (ep_init_fresh _ _ _ _ _ Vb (Da _) (Da _)). reflexivity. }
  unfold pinv. cbn [sA sB s_raw]. split; [reflexivity|]. split; [|split; [|apply both_sym; exact HB3]].
  - unfold LI. split; [rewrite EA; apply K_ep_init|]. destruct (ep_init_ok (sd_cfg a) (sd_acc a) (sd_con a) (bt_of_list (sd_acc b)) (bt_of_list (sd_con b))) as [_ Hc].
    rewrite <- EA in Hc. split; [|rewrite Hc; auto]. intros k j s E. rewrite Hc. apply closedok_gs; [destruct Ca as (_ & Hw & _); lia|apply (CA k j s E)].
  - unfold LI. split; [rewrite EB; apply K_ep_init|]. destruct (ep_init_ok (sd_cfg b) (sd_acc b) (sd_con b) (bt_of_list (sd_acc a)) (bt_of_list (sd_con a))) as [_ Hc].
    rewrite <- EB in Hc. split; [|rewrite Hc; auto]. intros k j s E. rewrite Hc. apply closedok_gs; [destruct Cb as (_ & Hw & _); lia|apply (CB k j s E)].
Qed.
(* ================= every reachable state of the pair ================= *)
Theorem reachable_pinv : forall a b s, side_ok a -> side_ok b -> reachable false a b s -> pinv s.
Proof.
  intros a b s Ha Hb [ops ->]. apply pinv_fold. unfold sys_start, settle. apply pinv_iter_until. apply pinv_init; assumption.
Qed.

(* two well-formed multiplexers never fail each other *)
Theorem pair_never_fails : forall a b s, side_ok a -> side_ok b -> reachable false a b s ->
  e_fail (sA s) = None /\ e_fail (sB s) = None.
Proof.
  intros a b s Ha Hb Hr. destruct (reachable_pinv a b s Ha Hb Hr) as (_ & _ & _ & [(FB & _) (FA & _)]). auto.
Qed.

Definition is_prefix (x y : list Z) : Prop := exists more, y = x ++ more.

(* per incarnation, at the level of paired reusable streams *)
Lemma sinv_reader : forall ss sr infl, sinv ss sr infl -> s_rph sr = RApp ->
  exists w cs, nth_error (rev (g_wlog (s_g ss))) (pred (g_rn (s_g sr))) = Some (w, cs) /\
    is_prefix (rdb sr) (chunks_bytes cs) /\
    (s_closed sr = true -> rdb sr = chunks_bytes cs /\
        ((g_rn (s_g sr) < length (g_wlog (s_g ss)))%nat \/ wclosed ss = true)).
Proof.
  intros ss sr infl (A & B & C & pre & D & Hs) Hr. rewrite Hr in Hs. destruct Hs as (-> & H1).
  destruct (Etail_shape (g_wlog (s_g ss)) (wclosed ss) (g_rn (s_g sr)) (conj H1 A)) as (w & cs & tl & Hn & Hsh & Htl).
  exists w, cs. split; [exact Hn|]. unfold Etoks in D. rewrite Hsh in D. symmetry in D.
  destruct (s_closed sr) eqn:Ecl.
  - rewrite <- app_assoc in D. cbn [app] in D.
    assert (Heq : rdb sr = chunks_bytes cs /\ exists tl', tl = TC :: tl').
    { destruct (tb_split _ _ _ _ D) as [(c & Hc & Hx)|(c & Hc & Hy)].
      - destruct c as [|z c]; [|cbn in Hx; discriminate]. rewrite app_nil_r in Hc. cbn in Hx. split; [symmetry; exact Hc|eexists; symmetry; exact Hx].
      - destruct c as [|z c].
        + rewrite app_nil_r in Hc. cbn in Hy. split; [exact Hc|eexists; exact Hy].
        + exfalso. destruct Htl as [(-> & _)|(tl' & -> & _)]; cbn in Hy; discriminate. }
    destruct Heq as [Heq (tl' & ->)]. split; [exists []; rewrite app_nil_r; symmetry; exact Heq|].
    intros _. split; [exact Heq|]. destruct Htl as [(Hx & _)|(tl'' & _ & Hor)]; [discriminate|exact Hor].
  - rewrite app_nil_r in D. split.
    + destruct (tb_split _ _ _ _ D) as [(c & Hc & Hx)|(c & Hc & Hy)].
      * exists c. exact Hc.
      * assert (c = []). { destruct c as [|z c]; [reflexivity|]. exfalso. destruct Htl as [(-> & _)|(tl' & -> & _)]; cbn in Hy; discriminate. }
        subst c. exists []. rewrite app_nil_r in *. symmetry; exact Hc.
    + intros Hx; discriminate.
Qed.

(* stage (iii): in every reachable state of the pair, for each direction and each pair of reusable
   streams, the bytes the current reader has taken (incarnation n of R's stream) are a prefix of the bytes
   S's stream has handed to its writer task for its n-th incarnation, whose writer is handle w; they are
   all of them, and that incarnation is closed, once the reader has seen end-of-stream *)
Theorem stream_isolation_and_order : forall a b s ks i ss sr,
  side_ok a -> side_ok b -> reachable false a b s ->
  (get_stream (sA s) ks i = Some ss /\ get_stream (sB s) (opp ks) i = Some sr \/
   get_stream (sB s) ks i = Some ss /\ get_stream (sA s) (opp ks) i = Some sr) ->
  s_rph sr = RApp ->
  exists w cs, nth_error (rev (g_wlog (s_g ss))) (pred (g_rn (s_g sr))) = Some (w, cs) /\
    is_prefix (rdb sr) (chunks_bytes cs) /\
    (s_closed sr = true -> rdb sr = chunks_bytes cs /\
        ((g_rn (s_g sr) < length (g_wlog (s_g ss)))%nat \/ wclosed ss = true)).
Proof.
  intros a b s ks i ss sr Ha Hb Hr Hg Hph.
  destruct (reachable_pinv a b s Ha Hb Hr) as (_ & _ & _ & [(_ & _ & _ & _ & p & rest & _ & H1) (_ & _ & _ & _ & p' & rest' & _ & H2)]).
  destruct Hg as [[E1 E2]|[E1 E2]].
  - eapply sinv_reader; [apply (H1 ks i ss sr E1 E2)|exact Hph].
  - eapply sinv_reader; [apply (H2 ks i ss sr E1 E2)|exact Hph].
Qed.
