(* C18 lemmas, part 3: what a node pushes to its peers (get_newer / the push loop of
   gossip::Network::run_stream), and convergence of two honest nodes exchanging such pushes. *)
From Coq Require Import ZArith List Bool Lia Permutation.
From EC Require Import Lib.Outcome Lib.U64 Lib.Obs Model.AddrBook Proofs.AddrBookProofs Proofs.AddrBookHistory.
Import ListNotations.
Open Scope Z_scope.

(* ------------------------------------------------------------------ *)
(* books in canonical form *)

Lemma in_get : forall b e, ssorted b -> In e b -> get (ekey e) b = Some e.
Proof.
  induction b as [|x b IH]; intros e Hs Hin; [destruct Hin|].
  destruct Hs as [Hx Hb]. cbn [get]. destruct Hin as [->|Hin].
  - rewrite Z.eqb_refl. reflexivity.
  - destruct (ekey x =? ekey e) eqn:E.
    + apply Z.eqb_eq in E. specialize (Hx e Hin). lia.
    + apply IH; assumption.
Qed.

Lemma ssorted_nodup : forall b, ssorted b -> NoDup (map ekey b).
Proof.
  induction b as [|x b IH]; intros Hs; cbn [map]; [constructor|].
  destruct Hs as [Hx Hb]. constructor; [|apply IH; exact Hb].
  intros Hin. apply in_map_iff in Hin. destruct Hin as (y & Hy & Hin). specialize (Hx y Hin). lia.
Qed.

Lemma nodup_map_filter : forall (f : entry -> bool) l, NoDup (map ekey l) -> NoDup (map ekey (filter f l)).
Proof.
  intros f l. induction l as [|x l IH]; intros H; cbn [filter map]; [constructor|].
  cbn [map] in H. inversion H as [|? ? Hn Hd]; subst.
  destruct (f x); [|apply IH; exact Hd].
  cbn [map]. constructor; [|apply IH; exact Hd].
  intros Hin. apply Hn. apply in_map_iff in Hin. destruct Hin as (y & Hy & Hin).
  apply filter_In in Hin. apply in_map_iff. exists y. split; [exact Hy|apply Hin].
Qed.

(* b' holds for every key something at least as new as b *)
Definition grows (b b' : book) : Prop :=
  forall k x, get k b = Some x -> exists x', get k b' = Some x' /\ le_entry x x'.

Lemma grows_refl : forall b, grows b b.
Proof. intros b k x H. exists x. split; [exact H|apply le_entry_refl]. Qed.

Lemma grows_trans : forall a b c, grows a b -> grows b c -> grows a c.
Proof.
  intros a b c H1 H2 k x Hx. destruct (H1 k x Hx) as (y & Hy & L1).
  destruct (H2 k y Hy) as (z & Hz & L2). exists z. split; [exact Hz|eapply le_entry_trans; eassumption].
Qed.

Lemma update_watch_grows : forall c d b, grows b (fst (update_watch c d b)).
Proof.
  intros c d b k x Hx. destruct (update_watch c d b) as [b' r] eqn:E. cbn [fst].
  eapply key_step_mono; [eapply update_watch_step; exact E|exact Hx].
Qed.

Lemma dominates_grows : forall b b' d, grows b b' -> dominates b d -> dominates b' d.
Proof.
  intros b b' d Hg (x & Hx & Hn). destruct (Hg _ _ Hx) as (x' & Hx' & L).
  exists x'. split; [exact Hx'|]. eapply not_newer_trans; [exact Hn|].
  destruct L as [->|L]; [left; reflexivity|right; exact L].
Qed.

(* an authentic book of committee members in canonical form *)
Definition good_book (c : list Z) (b : book) : Prop :=
  ssorted b /\ forall k e, get k b = Some e -> verify e = true /\ mem k c = true.

Lemma good_empty : forall c, good_book c [].
Proof. intros c. split; [exact I|intros k e H; discriminate]. Qed.

Lemma good_update_watch : forall c d b, good_book c b -> good_book c (fst (update_watch c d b)).
Proof.
  intros c d b [Hs Hg]. split; [apply ssorted_update_watch; exact Hs|].
  intros k e He. destruct (update_watch c d b) as [b' r] eqn:E. cbn [fst] in He.
  pose proof (update_watch_step _ _ _ _ _ E k) as Hk. unfold key_step in Hk. rewrite He in Hk.
  destruct Hk as [Hk|(_ & H2 & H3 & _)]; [apply Hg; exact Hk|split; assumption].
Qed.

(* where the entries of the book after an update come from *)
Lemma update_watch_origin : forall c d b k e, get k (fst (update_watch c d b)) = Some e ->
  get k b = Some e \/ (In e d /\ wanted c e = true).
Proof.
  intros c d b k e He. destruct (update_watch c d b) as [b' r] eqn:E. cbn [fst] in He.
  pose proof (update_watch_step _ _ _ _ _ E k) as Hk. unfold key_step in Hk. rewrite He in Hk.
  destruct Hk as [Hk|(H1 & H2 & H3 & _)]; [left; exact Hk|right].
  split; [exact H1|]. unfold wanted. rewrite (get_key _ _ _ He), H2, H3. reflexivity.
Qed.

(* ------------------------------------------------------------------ *)
(* get_newer and the push loop *)

Lemma get_newer_spec : forall new old e,
  In e (get_newer new old) <->
  In e new /\ match get (ekey e) old with Some x => newer (emsg e) (emsg x) | None => True end.
Proof.
  intros new old e. unfold get_newer. rewrite filter_In.
  destruct (get (ekey e) old) as [x|]; [rewrite is_newer_spec|]; tauto.
Qed.

Lemma get_newer_self : forall b, ssorted b -> get_newer b b = [].
Proof.
  intros b Hs. destruct (get_newer b b) as [|e l] eqn:E; [reflexivity|].
  assert (Hin : In e (get_newer b b)) by (rewrite E; left; reflexivity).
  apply get_newer_spec in Hin. destruct Hin as [Hin Hn]. rewrite (in_get _ _ Hs Hin) in Hn.
  exfalso. exact (newer_irrefl _ Hn).
Qed.

(* When [old] is an earlier state of the same book: the push consists exactly of the entries that
   changed since, and each is strictly newer than what the peer was sent for that key. *)
Theorem pushed_exactly_news : forall new old e, ssorted new -> grows old new ->
  (In e (get_newer new old) <->
   get (ekey e) new = Some e /\ get (ekey e) old <> Some e) /\
  (In e (get_newer new old) -> forall x, get (ekey e) old = Some x -> newer (emsg e) (emsg x)).
Proof.
  intros new old e Hs Hg. split.
  - rewrite get_newer_spec. split.
    + intros [Hin Hn]. split; [apply in_get; assumption|].
      intros Ho. rewrite Ho in Hn. exact (newer_irrefl _ Hn).
    + intros [Hn Ho]. split; [eapply get_in; exact Hn|].
      destruct (get (ekey e) old) as [x|] eqn:G; [|exact I].
      destruct (Hg _ _ G) as (x' & Hx' & L). rewrite Hn in Hx'. injection Hx' as <-.
      destruct L as [->|L]; [congruence|exact L].
  - intros Hin x Hx. apply get_newer_spec in Hin. rewrite Hx in Hin. apply Hin.
Qed.

Lemma push_step_spec : forall new old,
  match push_step new old with
  | (old', None) => old' = old /\ get_newer new old = []
  | (old', Some diff) => old' = new /\ diff = get_newer new old /\ diff <> []
  end.
Proof.
  intros new old. unfold push_step. destruct (get_newer new old) as [|e l].
  - split; reflexivity.
  - split; [reflexivity|]. split; [reflexivity|discriminate].
Qed.

(* what an honest node pushes is accepted as a whole by an honest receiver *)
Lemma push_accepted : forall c new old b, good_book c new ->
  exists u, snd (update_watch c (get_newer new old) b) = Ok u.
Proof.
  intros c new old b [Hs Hg]. apply update_watch_clean_ok.
  - unfold get_newer. apply nodup_map_filter. apply ssorted_nodup. exact Hs.
  - intros x Hx _. apply get_newer_spec in Hx. destruct Hx as [Hx _].
    apply (Hg (ekey x) x). apply in_get; assumption.
Qed.

(* ------------------------------------------------------------------ *)
(* two honest nodes A and B connected both ways; each direction is a push loop with at most one
   request in flight (the client awaits the response before it computes the next diff) *)

Record sys := { bA : book; bB : book;
                oAB : book; fAB : option (list entry);     (* A -> B: last pushed state, request in flight *)
                oBA : book; fBA : option (list entry) }.

Definition sys0 : sys := {| bA := []; bB := []; oAB := []; fAB := None; oBA := []; fBA := None |}.

Inductive label :=
| LInject (toA : bool) (d : list entry)   (* a request from any other peer (honest or not) is served *)
| LSend (ab : bool)                       (* the push loop of one direction computes and sends a diff *)
| LDeliver (ab : bool).                   (* the request in flight is served by the other node *)

Definition sstep (c : list Z) (s : sys) (l : label) : option sys :=
  match l with
  | LInject true d =>
      Some {| bA := fst (update_watch c d (bA s)); bB := bB s;
              oAB := oAB s; fAB := fAB s; oBA := oBA s; fBA := fBA s |}
  | LInject false d =>
      Some {| bA := bA s; bB := fst (update_watch c d (bB s));
              oAB := oAB s; fAB := fAB s; oBA := oBA s; fBA := fBA s |}
  | LSend true =>
      match fAB s, push_step (bA s) (oAB s) with
      | None, (o', Some diff) =>
          Some {| bA := bA s; bB := bB s; oAB := o'; fAB := Some diff; oBA := oBA s; fBA := fBA s |}
      | _, _ => None
      end
  | LSend false =>
      match fBA s, push_step (bB s) (oBA s) with
      | None, (o', Some diff) =>
          Some {| bA := bA s; bB := bB s; oAB := oAB s; fAB := fAB s; oBA := o'; fBA := Some diff |}
      | _, _ => None
      end
  | LDeliver true =>
      match fAB s with
      | Some diff =>
          Some {| bA := bA s; bB := fst (update_watch c diff (bB s));
                  oAB := oAB s; fAB := None; oBA := oBA s; fBA := fBA s |}
      | None => None
      end
  | LDeliver false =>
      match fBA s with
      | Some diff =>
          Some {| bA := fst (update_watch c diff (bA s)); bB := bB s;
                  oAB := oAB s; fAB := fAB s; oBA := oBA s; fBA := None |}
      | None => None
      end
  end.

Fixpoint run_sys (c : list Z) (s : sys) (ls : list label) : option sys :=
  match ls with
  | [] => Some s
  | l :: ls' => match sstep c s l with Some s' => run_sys c s' ls' | None => None end
  end.

Fixpoint injected (ls : list label) : list entry :=
  match ls with
  | [] => []
  | LInject _ d :: ls' => d ++ injected ls'
  | _ :: ls' => injected ls'
  end.

(* nothing in flight and nothing to send *)
Definition quiescent (s : sys) : Prop :=
  fAB s = None /\ fBA s = None /\ get_newer (bA s) (oAB s) = [] /\ get_newer (bB s) (oBA s) = [].

(* invariant of one direction *)
Definition link_inv (c : list Z) (src dst old : book) (fl : option (list entry)) : Prop :=
  grows old src /\
  (forall k e, get k old = Some e -> dominates dst e \/ exists d, fl = Some d /\ In e d) /\
  (forall d, fl = Some d ->
     NoDup (map ekey d) /\ forall x, In x d -> verify x = true /\ mem (ekey x) c = true).

Lemma link_src_grows : forall c src src' dst old fl, link_inv c src dst old fl ->
  grows src src' -> link_inv c src' dst old fl.
Proof.
  intros c src src' dst old fl (H1 & H2 & H3) Hg. split; [eapply grows_trans; eassumption|].
  split; assumption.
Qed.

Lemma link_dst_grows : forall c src dst dst' old fl, link_inv c src dst old fl ->
  grows dst dst' -> link_inv c src dst' old fl.
Proof.
  intros c src dst dst' old fl (H1 & H2 & H3) Hg. split; [exact H1|]. split; [|exact H3].
  intros k e He. destruct (H2 k e He) as [Hd|Hd]; [left; eapply dominates_grows; eassumption|right; exact Hd].
Qed.

Lemma link_send : forall c src dst old o' diff, good_book c src ->
  link_inv c src dst old None -> push_step src old = (o', Some diff) ->
  link_inv c src dst o' (Some diff).
Proof.
  intros c src dst old o' diff [Hs Hg] (H1 & H2 & _) Hp.
  pose proof (push_step_spec src old) as Hsp. rewrite Hp in Hsp. destruct Hsp as (-> & -> & _).
  split; [apply grows_refl|]. split.
  - intros k e He.
    pose proof (get_in _ _ _ He) as Hin. pose proof (get_key _ _ _ He) as Hk.
    assert (Hdiff : match get (ekey e) old with Some x => newer (emsg e) (emsg x) | None => True end ->
                    dominates dst e \/ exists d, Some (get_newer src old) = Some d /\ In e d).
    { intros Hn. right. exists (get_newer src old). split; [reflexivity|].
      apply get_newer_spec. split; assumption. }
    destruct (get (ekey e) old) as [x|] eqn:G; [|apply Hdiff; exact I].
    destruct (H1 _ _ G) as (x' & Hx' & L). rewrite Hk, He in Hx'. injection Hx' as <-.
    destruct L as [->|L]; [|apply Hdiff; exact L].
    rewrite Hk in G. destruct (H2 k x G) as [Hd|(d & Hd & _)]; [left; exact Hd|discriminate].
  - intros d Hd. injection Hd as <-. split.
    + unfold get_newer. apply nodup_map_filter. apply ssorted_nodup. exact Hs.
    + intros x Hx. apply get_newer_spec in Hx. destruct Hx as [Hx _].
      apply (Hg (ekey x) x). apply in_get; assumption.
Qed.

Lemma link_deliver : forall c src dst old d, link_inv c src dst old (Some d) ->
  link_inv c src (fst (update_watch c d dst)) old None.
Proof.
  intros c src dst old d (H1 & H2 & H3). destruct (H3 d eq_refl) as [Hnd Hx].
  split; [exact H1|]. split; [|intros d' Hd'; discriminate].
  intros k e He. left. destruct (H2 k e He) as [Hd|(d' & Hd' & Hin)].
  - eapply dominates_grows; [apply update_watch_grows|exact Hd].
  - injection Hd' as <-.
    destruct (update_watch_clean_ok c d dst Hnd (fun x Hi _ => proj1 (Hx x Hi))) as (u & Hu).
    destruct (update_watch c d dst) as [b' r] eqn:E. cbn [snd] in Hu. subst r. cbn [fst].
    eapply update_watch_covers; [exact E|exact Hin|apply (Hx e Hin)].
Qed.

(* the invariant of the two-node system; U = every entry any other peer ever sent to A or B *)
Definition sys_inv (c : list Z) (U : list entry) (s : sys) : Prop :=
  good_book c (bA s) /\ good_book c (bB s) /\
  link_inv c (bA s) (bB s) (oAB s) (fAB s) /\
  link_inv c (bB s) (bA s) (oBA s) (fBA s) /\
  (forall e, In e (bA s) \/ In e (bB s) \/ (exists d, (fAB s = Some d \/ fBA s = Some d) /\ In e d) -> In e U).

Lemma sys_inv_weaken : forall c U U' s, (forall e, In e U -> In e U') -> sys_inv c U s -> sys_inv c U' s.
Proof.
  intros c U U' s Hsub (H1 & H2 & H3 & H4 & H5). repeat (split; [assumption|]).
  intros e He. apply Hsub. apply H5. exact He.
Qed.

Lemma in_update_watch : forall c d b e, ssorted b -> In e (fst (update_watch c d b)) -> In e b \/ In e d.
Proof.
  intros c d b e Hs Hin. pose proof (ssorted_update_watch c d b Hs) as Hs'.
  pose proof (in_get _ _ Hs' Hin) as Hg. destruct (update_watch_origin _ _ _ _ _ Hg) as [H|[H _]].
  - left. eapply get_in. exact H.
  - right. exact H.
Qed.

Lemma sstep_inv : forall c U s l s', sys_inv c U s -> sstep c s l = Some s' ->
  sys_inv c (U ++ injected [l]) s'.
Proof.
  intros c U s l s' (GA & GB & LAB & LBA & HU) Hst.
  destruct l as [[|] d|[|]|[|]]; cbn [sstep] in Hst; cbn [injected]; rewrite ?app_nil_r.
  - (* inject at A *)
    injection Hst as <-. unfold sys_inv. cbn [bA bB oAB fAB oBA fBA].
    split; [apply good_update_watch; exact GA|]. split; [exact GB|].
    split; [eapply link_src_grows; [exact LAB|apply update_watch_grows]|].
    split; [eapply link_dst_grows; [exact LBA|apply update_watch_grows]|].
    intros e [He|[He|He]]; apply in_or_app.
    + destruct (in_update_watch _ _ _ _ (proj1 GA) He) as [H|H]; [left; apply HU; left; exact H|right; exact H].
    + left. apply HU. right. left. exact He.
    + left. apply HU. right. right. exact He.
  - (* inject at B *)
    injection Hst as <-. unfold sys_inv. cbn [bA bB oAB fAB oBA fBA].
    split; [exact GA|]. split; [apply good_update_watch; exact GB|].
    split; [eapply link_dst_grows; [exact LAB|apply update_watch_grows]|].
    split; [eapply link_src_grows; [exact LBA|apply update_watch_grows]|].
    intros e [He|[He|He]]; apply in_or_app.
    + left. apply HU. left. exact He.
    + destruct (in_update_watch _ _ _ _ (proj1 GB) He) as [H|H]; [left; apply HU; right; left; exact H|right; exact H].
    + left. apply HU. right. right. exact He.
  - (* send A -> B *)
    destruct (fAB s) as [d0|] eqn:F; [discriminate|].
    destruct (push_step (bA s) (oAB s)) as [o' [diff|]] eqn:P; [|discriminate].
    injection Hst as <-. unfold sys_inv. cbn [bA bB oAB fAB oBA fBA].
    split; [exact GA|]. split; [exact GB|].
    split; [eapply link_send; eassumption|]. split; [exact LBA|].
    pose proof (push_step_spec (bA s) (oAB s)) as Hsp. rewrite P in Hsp. destruct Hsp as (_ & -> & _).
    intros e [He|[He|(d & [Hd|Hd] & He)]].
    + apply HU. left. exact He.
    + apply HU. right. left. exact He.
    + injection Hd as <-. apply get_newer_spec in He. apply HU. left. apply He.
    + apply HU. right. right. exists d. split; [right; exact Hd|exact He].
  - (* send B -> A *)
    destruct (fBA s) as [d0|] eqn:F; [discriminate|].
    destruct (push_step (bB s) (oBA s)) as [o' [diff|]] eqn:P; [|discriminate].
    injection Hst as <-. unfold sys_inv. cbn [bA bB oAB fAB oBA fBA].
    split; [exact GA|]. split; [exact GB|]. split; [exact LAB|].
    split; [eapply link_send; eassumption|].
    pose proof (push_step_spec (bB s) (oBA s)) as Hsp. rewrite P in Hsp. destruct Hsp as (_ & -> & _).
    intros e [He|[He|(d & [Hd|Hd] & He)]].
    + apply HU. left. exact He.
    + apply HU. right. left. exact He.
    + apply HU. right. right. exists d. split; [left; exact Hd|exact He].
    + injection Hd as <-. apply get_newer_spec in He. apply HU. right. left. apply He.
  - (* deliver A -> B *)
    destruct (fAB s) as [d|] eqn:F; [|discriminate].
    injection Hst as <-. unfold sys_inv. cbn [bA bB oAB fAB oBA fBA].
    split; [exact GA|]. split; [apply good_update_watch; exact GB|].
    split; [apply link_deliver; exact LAB|].
    split; [eapply link_src_grows; [exact LBA|apply update_watch_grows]|].
    intros e [He|[He|(d' & [Hd|Hd] & He)]].
    + apply HU. left. exact He.
    + destruct (in_update_watch _ _ _ _ (proj1 GB) He) as [H|H]; [apply HU; right; left; exact H|].
      apply HU. right. right. exists d. split; [left; reflexivity|exact H].
    + discriminate.
    + apply HU. right. right. exists d'. split; [right; exact Hd|exact He].
  - (* deliver B -> A *)
    destruct (fBA s) as [d|] eqn:F; [|discriminate].
    injection Hst as <-. unfold sys_inv. cbn [bA bB oAB fAB oBA fBA].
    split; [apply good_update_watch; exact GA|]. split; [exact GB|].
    split; [eapply link_src_grows; [exact LAB|apply update_watch_grows]|].
    split; [apply link_deliver; exact LBA|].
    intros e [He|[He|(d' & [Hd|Hd] & He)]].
    + destruct (in_update_watch _ _ _ _ (proj1 GA) He) as [H|H]; [apply HU; left; exact H|].
      apply HU. right. right. exists d. split; [right; reflexivity|exact H].
    + apply HU. right. left. exact He.
    + apply HU. right. right. exists d'. split; [left; exact Hd|exact He].
    + discriminate.
Qed.

Lemma sys_inv_init : forall c, sys_inv c [] sys0.
Proof.
  intros c. unfold sys_inv, sys0. cbn [bA bB oAB fAB oBA fBA].
  assert (L : link_inv c [] [] [] None).
  { split; [apply grows_refl|]. split; [intros k e H; discriminate|intros d H; discriminate]. }
  split; [apply good_empty|]. split; [apply good_empty|]. split; [exact L|]. split; [exact L|].
  intros e [[]|[[]|(d & [H|H] & _)]]; discriminate.
Qed.

Lemma injected_app : forall l1 l2, injected (l1 ++ l2) = injected l1 ++ injected l2.
Proof.
  induction l1 as [|l l1 IH]; intros l2; cbn [app injected]; [reflexivity|].
  destruct l; rewrite IH; [rewrite app_assoc|..]; reflexivity.
Qed.

Lemma run_sys_inv : forall c ls U s s', sys_inv c U s -> run_sys c s ls = Some s' ->
  sys_inv c (U ++ injected ls) s'.
Proof.
  intros c ls. induction ls as [|l ls IH]; intros U s s' Hi Hr; cbn [run_sys] in Hr.
  - injection Hr as <-. cbn [injected]. rewrite app_nil_r. exact Hi.
  - destruct (sstep c s l) as [s1|] eqn:E; [|discriminate].
    change (l :: ls) with ([l] ++ ls). rewrite injected_app, app_assoc.
    eapply IH; [|exact Hr]. eapply sstep_inv; eassumption.
Qed.

(* quiescent direction: everything the source holds is dominated by the destination *)
Lemma quiet_link_dominates : forall c src dst old, ssorted src ->
  link_inv c src dst old None -> get_newer src old = [] ->
  forall k e, get k src = Some e -> dominates dst e.
Proof.
  intros c src dst old Hs (H1 & H2 & _) Hq k e He.
  pose proof (get_in _ _ _ He) as Hin. pose proof (get_key _ _ _ He) as Hk.
  assert (Hne : ~ match get (ekey e) old with Some x => newer (emsg e) (emsg x) | None => True end).
  { intros Hn. assert (Hd : In e (get_newer src old)) by (apply get_newer_spec; split; assumption).
    rewrite Hq in Hd. destruct Hd. }
  destruct (get (ekey e) old) as [x|] eqn:G; [|exfalso; apply Hne; exact I].
  destruct (H1 _ _ G) as (x' & Hx' & L). rewrite Hk, He in Hx'. injection Hx' as <-.
  destruct L as [->|L]; [|exfalso; apply Hne; exact L].
  rewrite Hk in G. destruct (H2 k x G) as [Hd|(d & Hd & _)]; [exact Hd|discriminate].
Qed.

(* gossip_convergent: whenever the exchange between two honest nodes has come to rest they hold
   the same book, whatever other peers sent to either of them and in whatever order the pushes
   were computed and served - if no key signed two announcements with one stamp. *)
Theorem gossip_convergent : forall c ls s,
  run_sys c sys0 ls = Some s -> quiescent s ->
  unique_stamps (filter (wanted c) (injected ls)) ->
  bA s = bB s.
Proof.
  intros c ls s Hr (QA & QB & QAB & QBA) Hu.
  pose proof (run_sys_inv c ls [] sys0 s (sys_inv_init c) Hr) as (GA & GB & LAB & LBA & HU).
  cbn [app] in HU. rewrite QA in LAB. rewrite QB in LBA.
  apply ssorted_ext; [apply GA|apply GB|]. intros k.
  pose proof (quiet_link_dominates c _ _ _ (proj1 GA) LAB QAB k) as DA.
  pose proof (quiet_link_dominates c _ _ _ (proj1 GB) LBA QBA k) as DB.
  destruct (get k (bA s)) as [eA|] eqn:EA; destruct (get k (bB s)) as [eB|] eqn:EB.
  - destruct (DA eA eq_refl) as (x & Hx & N1). destruct (DB eB eq_refl) as (y & Hy & N2).
    pose proof (get_key _ _ _ EA) as KA. pose proof (get_key _ _ _ EB) as KB.
    rewrite KA, EB in Hx. injection Hx as <-. rewrite KB, EA in Hy. injection Hy as <-.
    destruct (newer_total _ _ N1 N2) as [Hv Ht].
    f_equal. apply Hu.
    + apply filter_In. split; [apply HU; left; eapply get_in; exact EA|].
      destruct (proj2 GA k eA EA) as [V M]. unfold wanted. rewrite KA, M, V. reflexivity.
    + apply filter_In. split; [apply HU; right; left; eapply get_in; exact EB|].
      destruct (proj2 GB k eB EB) as [V M]. unfold wanted. rewrite KB, M, V. reflexivity.
    + congruence.
    + exact Hv.
    + exact Ht.
  - destruct (DA eA eq_refl) as (x & Hx & _). rewrite (get_key _ _ _ EA), EB in Hx. discriminate.
  - destruct (DB eB eq_refl) as (x & Hx & _). rewrite (get_key _ _ _ EB), EA in Hx. discriminate.
  - reflexivity.
Qed.

(* every entry a node holds or pushes is one that some peer sent, validly signed by a member *)
Theorem gossip_authentic : forall c ls s e,
  run_sys c sys0 ls = Some s ->
  (In e (bA s) \/ In e (bB s) \/ In e (get_newer (bA s) (oAB s)) \/ In e (get_newer (bB s) (oBA s))) ->
  In e (injected ls) /\ verify e = true /\ mem (ekey e) c = true.
Proof.
  intros c ls s e Hr He.
  pose proof (run_sys_inv c ls [] sys0 s (sys_inv_init c) Hr) as (GA & GB & _ & _ & HU). cbn [app] in HU.
  assert (H : In e (bA s) \/ In e (bB s)).
  { destruct He as [H|[H|[H|H]]]; [left; exact H|right; exact H|left|right];
      apply get_newer_spec in H; apply H. }
  destruct H as [H|H].
  - split; [apply HU; left; exact H|]. apply (proj2 GA (ekey e) e). apply in_get; [apply GA|exact H].
  - split; [apply HU; right; left; exact H|]. apply (proj2 GB (ekey e) e). apply in_get; [apply GB|exact H].
Qed.

(* what is pushed over a direction is exactly what changed since the last push, strictly newer *)
Theorem gossip_push_exact : forall c ls s e,
  run_sys c sys0 ls = Some s ->
  (In e (get_newer (bA s) (oAB s)) <-> get (ekey e) (bA s) = Some e /\ get (ekey e) (oAB s) <> Some e) /\
  (In e (get_newer (bA s) (oAB s)) -> forall x, get (ekey e) (oAB s) = Some x -> newer (emsg e) (emsg x)).
Proof.
  intros c ls s e Hr.
  pose proof (run_sys_inv c ls [] sys0 s (sys_inv_init c) Hr) as (GA & _ & LAB & _).
  apply pushed_exactly_news; [apply GA|apply LAB].
Qed.

(* ------------------------------------------------------------------ *)
(* the exchange comes to rest: a fair schedule of eight push-loop steps without further outside
   traffic reaches a quiescent state from every reachable state *)

Lemma update_loop_noop : forall c data done b ch,
  (forall x, In x data -> mem (ekey x) c = true -> dominates b x) ->
  fst (update_loop c data done b ch) = b.
Proof.
  intros c data. induction data as [|d data IH]; intros done b ch H; cbn [update_loop]; [reflexivity|].
  assert (Hrec : forall ch', fst (update_loop c data (ekey d :: done) b ch') = b).
  { intros ch'. apply IH. intros x Hx. apply H. right. exact Hx. }
  destruct (mem (ekey d) done); [reflexivity|].
  destruct (negb (mem (ekey d) c)) eqn:Em; [apply Hrec|].
  apply negb_false_iff in Em. destruct (H d (or_introl eq_refl) Em) as (y & Hy & Hn).
  rewrite Hy. apply is_newer_false in Hn. rewrite Hn. cbn [negb]. apply Hrec.
Qed.

Lemma update_watch_noop : forall c d b,
  (forall x, In x d -> mem (ekey x) c = true -> dominates b x) ->
  fst (update_watch c d b) = b.
Proof.
  intros c d b H. unfold update_watch, update.
  pose proof (update_loop_noop c d [] b false H) as Hn.
  destruct (update_loop c d [] b false) as [w r]. cbn [fst] in Hn. subst w.
  destruct r as [[|]|e|p]; reflexivity.
Qed.

Definition try_step (c : list Z) (s : sys) (l : label) : sys :=
  match sstep c s l with Some s' => s' | None => s end.

Definition flush_sched : list label :=
  [LDeliver true; LDeliver false; LSend true; LDeliver true; LSend false; LDeliver false;
   LSend true; LDeliver true].
Definition flush (c : list Z) (s : sys) : sys := fold_left (try_step c) flush_sched s.

Lemma try_step_inv : forall c U s l, (forall b d, l <> LInject b d) -> sys_inv c U s ->
  sys_inv c U (try_step c s l).
Proof.
  intros c U s l Hl Hi. unfold try_step. destruct (sstep c s l) as [s'|] eqn:E; [|exact Hi].
  pose proof (sstep_inv c U s l s' Hi E) as H.
  destruct l as [b d| |]; [exfalso; eapply Hl; reflexivity| |]; cbn [injected] in H; rewrite app_nil_r in H; exact H.
Qed.

(* a fair schedule is a run of the system *)
Lemma try_run : forall c ls s, (forall l, In l ls -> forall b d, l <> LInject b d) ->
  exists ls', run_sys c s ls' = Some (fold_left (try_step c) ls s) /\ injected ls' = [] /\
              (length ls' <= length ls)%nat.
Proof.
  intros c ls. induction ls as [|l ls IH]; intros s H; cbn [fold_left].
  - exists []. split; [reflexivity|]. split; [reflexivity|apply le_n].
  - destruct (IH (try_step c s l)) as (ls' & Hr & Hi & Hl); [intros l' Hl'; apply H; right; exact Hl'|].
    unfold try_step in *. destruct (sstep c s l) as [s'|] eqn:E.
    + exists (l :: ls'). split; [cbn [run_sys]; rewrite E; exact Hr|].
      split; [|cbn [length]; lia].
      destruct l as [b d| |]; [exfalso; eapply (H _ (or_introl eq_refl)); reflexivity|exact Hi|exact Hi].
    + exists ls'. split; [exact Hr|]. split; [exact Hi|cbn [length]; lia].
Qed.

Lemma run_sys_app : forall c l1 l2 s s1, run_sys c s l1 = Some s1 ->
  run_sys c s (l1 ++ l2) = run_sys c s1 l2.
Proof.
  intros c l1. induction l1 as [|l l1 IH]; intros l2 s s1 H; cbn [run_sys app] in *.
  - injection H as <-. reflexivity.
  - destruct (sstep c s l); [apply IH; exact H|discriminate].
Qed.

Lemma self_dominates : forall b k e, get k b = Some e -> dominates b e.
Proof.
  intros b k e H. exists e. split; [rewrite (get_key _ _ _ H); exact H|apply newer_irrefl].
Qed.

(* one turn of the loop A -> B when nothing is in flight there *)
Lemma round_AB : forall c U s, sys_inv c U s -> fAB s = None ->
  let s' := try_step c (try_step c s (LSend true)) (LDeliver true) in
  sys_inv c U s' /\ fAB s' = None /\ fBA s' = fBA s /\ bA s' = bA s /\ oBA s' = oBA s /\
  get_newer (bA s') (oAB s') = [] /\
  (forall k e, get k (bA s') = Some e -> dominates (bB s') e) /\
  (forall e, In e (bB s') -> In e (bB s) \/ In e (bA s)) /\
  ((forall k e, get k (bA s) = Some e -> dominates (bB s) e) -> bB s' = bB s).
Proof.
  intros c U s Hi F. cbv zeta.
  remember (try_step c (try_step c s (LSend true)) (LDeliver true)) as s' eqn:E.
  assert (Hi' : sys_inv c U s').
  { subst s'. apply try_step_inv; [discriminate|]. apply try_step_inv; [discriminate|exact Hi]. }
  destruct Hi as (GA & GB & LAB & LBA & HU).
  unfold try_step in E. cbn [sstep] in E. rewrite F in E.
  destruct (push_step (bA s) (oAB s)) as [o' [diff|]] eqn:P.
  - pose proof (push_step_spec (bA s) (oAB s)) as Hsp. rewrite P in Hsp. destruct Hsp as (-> & -> & _).
    cbn [sstep fAB bA bB oAB oBA fBA] in E. subst s'. cbn [fAB bA bB oAB oBA fBA] in *.
    split; [exact Hi'|]. repeat (split; [reflexivity|]).
    split; [apply get_newer_self; apply GA|].
    destruct Hi' as (_ & _ & LAB' & _). cbn [bA bB oAB fAB] in LAB'.
    split; [apply (quiet_link_dominates c _ _ _ (proj1 GA) LAB'); apply get_newer_self; apply GA|].
    split.
    + intros e He. destruct (in_update_watch _ _ _ _ (proj1 GB) He) as [H|H]; [left; exact H|right].
      apply get_newer_spec in H. apply H.
    + intros Hd. apply update_watch_noop. intros x Hx _. apply get_newer_spec in Hx. destruct Hx as [Hx _].
      apply (Hd (ekey x)). apply in_get; [apply GA|exact Hx].
  - pose proof (push_step_spec (bA s) (oAB s)) as Hsp. rewrite P in Hsp. destruct Hsp as (-> & Hq).
    rewrite F in E. subst s'.
    split; [exact Hi'|]. split; [exact F|]. repeat (split; [reflexivity|]). split; [exact Hq|].
    rewrite F in LAB.
    split; [apply (quiet_link_dominates c _ _ _ (proj1 GA) LAB Hq)|].
    split; [intros e He; left; exact He|reflexivity].
Qed.

Lemma round_BA : forall c U s, sys_inv c U s -> fBA s = None ->
  let s' := try_step c (try_step c s (LSend false)) (LDeliver false) in
  sys_inv c U s' /\ fBA s' = None /\ fAB s' = fAB s /\ bB s' = bB s /\ oAB s' = oAB s /\
  get_newer (bB s') (oBA s') = [] /\
  (forall k e, get k (bB s') = Some e -> dominates (bA s') e) /\
  (forall e, In e (bA s') -> In e (bA s) \/ In e (bB s)).
Proof.
  intros c U s Hi F. cbv zeta.
  remember (try_step c (try_step c s (LSend false)) (LDeliver false)) as s' eqn:E.
  assert (Hi' : sys_inv c U s').
  { subst s'. apply try_step_inv; [discriminate|]. apply try_step_inv; [discriminate|exact Hi]. }
  destruct Hi as (GA & GB & LAB & LBA & HU).
  unfold try_step in E. cbn [sstep] in E. rewrite F in E.
  destruct (push_step (bB s) (oBA s)) as [o' [diff|]] eqn:P.
  - pose proof (push_step_spec (bB s) (oBA s)) as Hsp. rewrite P in Hsp. destruct Hsp as (-> & -> & _).
    cbn [sstep fAB bA bB oAB oBA fBA] in E. subst s'. cbn [fAB bA bB oAB oBA fBA] in *.
    split; [exact Hi'|]. repeat (split; [reflexivity|]).
    split; [apply get_newer_self; apply GB|].
    destruct Hi' as (_ & _ & _ & LBA' & _). cbn [bA bB oBA fBA] in LBA'.
    split; [apply (quiet_link_dominates c _ _ _ (proj1 GB) LBA'); apply get_newer_self; apply GB|].
    intros e He. destruct (in_update_watch _ _ _ _ (proj1 GA) He) as [H|H]; [left; exact H|right].
    apply get_newer_spec in H. apply H.
  - pose proof (push_step_spec (bB s) (oBA s)) as Hsp. rewrite P in Hsp. destruct Hsp as (-> & Hq).
    rewrite F in E. subst s'.
    split; [exact Hi'|]. split; [exact F|]. repeat (split; [reflexivity|]). split; [exact Hq|].
    rewrite F in LBA.
    split; [apply (quiet_link_dominates c _ _ _ (proj1 GB) LBA Hq)|].
    intros e He; left; exact He.
Qed.

Lemma deliver_pending : forall c U s ab, sys_inv c U s ->
  let s' := try_step c s (LDeliver ab) in
  sys_inv c U s' /\ (if ab then fAB s' = None /\ fBA s' = fBA s else fBA s' = None /\ fAB s' = fAB s).
Proof.
  intros c U s ab Hi s'. split; [apply try_step_inv; [discriminate|exact Hi]|].
  subst s'. unfold try_step. destruct ab; cbn [sstep].
  - destruct (fAB s) eqn:F; cbn [fAB fBA]; [split; reflexivity|split; [exact F|reflexivity]].
  - destruct (fBA s) eqn:F; cbn [fAB fBA]; [split; reflexivity|split; [exact F|reflexivity]].
Qed.

Theorem flush_quiescent : forall c U s, sys_inv c U s -> quiescent (flush c s).
Proof.
  intros c U s0 H0. unfold flush, flush_sched. cbn [fold_left].
  destruct (deliver_pending c U s0 true H0) as (H1 & F1 & _).
  set (s1 := try_step c s0 (LDeliver true)) in *.
  destruct (deliver_pending c U s1 false H1) as (H2 & F2 & F2').
  set (s2 := try_step c s1 (LDeliver false)) in *.
  assert (FA2 : fAB s2 = None) by congruence.
  destruct (round_AB c U s2 H2 FA2) as (H3 & FA3 & FB3 & BA3 & OB3 & Q3 & D3 & _ & _).
  set (s3 := try_step c (try_step c s2 (LSend true)) (LDeliver true)) in *.
  assert (FB3' : fBA s3 = None) by congruence.
  destruct (round_BA c U s3 H3 FB3') as (H4 & FB4 & FA4 & BB4 & OA4 & Q4 & D4 & O4).
  set (s4 := try_step c (try_step c s3 (LSend false)) (LDeliver false)) in *.
  assert (FA4' : fAB s4 = None) by congruence.
  destruct (round_AB c U s4 H4 FA4') as (H5 & FA5 & FB5 & BA5 & OB5 & Q5 & D5 & _ & N5).
  set (s5 := try_step c (try_step c s4 (LSend true)) (LDeliver true)) in *.
  assert (Hdom : forall k e, get k (bA s4) = Some e -> dominates (bB s4) e).
  { intros k e He. rewrite BB4. destruct (O4 e (get_in _ _ _ He)) as [Hin|Hin].
    - apply (D3 (ekey e)). apply in_get; [apply H3|exact Hin].
    - eapply self_dominates. apply in_get; [apply H3|exact Hin]. }
  specialize (N5 Hdom).
  split; [exact FA5|]. split; [congruence|]. split; [exact Q5|].
  rewrite N5, OB5. exact Q4.
Qed.

(* gossip_settles: from every reachable state the exchange, left alone, comes to rest within eight
   steps of the fair schedule, in a state where (unique stamps) both nodes hold the same book *)
Theorem gossip_settles : forall c ls s, run_sys c sys0 ls = Some s ->
  exists ls' s', (length ls' <= 8)%nat /\ injected ls' = [] /\
    run_sys c sys0 (ls ++ ls') = Some s' /\ quiescent s' /\
    (unique_stamps (filter (wanted c) (injected ls)) -> bA s' = bB s').
Proof.
  intros c ls s Hr.
  pose proof (run_sys_inv c ls [] sys0 s (sys_inv_init c) Hr) as Hi. cbn [app] in Hi.
  destruct (try_run c flush_sched s) as (ls' & Hr' & Hinj & Hlen).
  { intros l Hl b d. unfold flush_sched in Hl. cbn [In] in Hl.
    repeat (destruct Hl as [<-|Hl]; [discriminate|]). destruct Hl. }
  exists ls', (flush c s). split; [exact Hlen|]. split; [exact Hinj|].
  assert (Hrun : run_sys c sys0 (ls ++ ls') = Some (flush c s)).
  { rewrite (run_sys_app c ls ls' sys0 s Hr). exact Hr'. }
  split; [exact Hrun|]. split; [eapply flush_quiescent; exact Hi|].
  intros Hu. eapply gossip_convergent; [exact Hrun|eapply flush_quiescent; exact Hi|].
  rewrite injected_app, Hinj, app_nil_r. exact Hu.
Qed.

(* non-vacuity: a run with outside traffic at both ends (a forged entry among it) that settles *)
Lemma gossip_example :
  let v k a ver := sign k {| na_addr := a; na_version := ver; na_ts := 0 |} in
  let ls := [LInject true [v 0 5 1; v 1 6 1]; LSend true; LInject false [v 1 7 2; mk_entry 0 9 9 9 1 9 9 9];
             LInject false [v 1 7 2]; LDeliver true; LSend false; LDeliver false; LSend true; LDeliver true] in
  exists s, run_sys [0; 1] sys0 ls = Some s /\ quiescent s /\
            bA s = [v 0 5 1; v 1 7 2] /\ bB s = [v 0 5 1; v 1 7 2].
Proof. cbv zeta. eexists. split; [vm_compute; reflexivity|]. repeat split. Qed.
