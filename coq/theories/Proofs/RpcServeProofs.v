(* Proofs about Model/RpcServe.v: rpc::Server::serve on top of the StreamQueue / limiter model (C15). *)
From Coq Require Import ZArith List Bool Lia Arith.
From EC Require Import Lib.Outcome Lib.Obs Model.Limiter Model.RpcServe Proofs.LimiterProofs.
Import ListNotations.
Open Scope Z_scope.

(* ------------------------------------------------------------------------- *)
(* the clock under limiter / StreamQueue steps *)

Lemma step_now : forall c s l s', step c s l = Ok s' ->
  now s <= now s' /\ ((forall d, l <> LTick d) -> now s' = now s).
Proof.
  intros c s l s' Hs. destruct l as [d|q| | |id|id]; cbn [step] in Hs.
  - destruct ((d <? 0) || (nanos_max <=? now s + d - start c)) eqn:E; [discriminate|].
    apply orb_false_iff in E. destruct E as [E1 _]. apply Z.ltb_ge in E1.
    inversion Hs; try subst s'; cbn. split; [lia|]. intros H. exfalso. apply (H d). reflexivity.
  - destruct ((q <? 0) || (q >? usize_max)); [discriminate|].
    destruct (burst c <? q); [inversion Hs; try subst s'; cbn; split; [lia|reflexivity]|].
    destruct (refresh c <=? 0); inversion Hs; try subst s'; cbn; (split; [lia|reflexivity]).
  - destruct (queue s) as [|[i q] qs]; [discriminate|]. destruct (ph s); [|discriminate].
    destruct (usize_sub (burst c) (rs (st s))) as [f|e|pp]; cbn [bind] in Hs; try discriminate.
    destruct (f <? q); [discriminate|].
    destruct (usize_add (rs (st s)) q) as [w|e|pp]; cbn [bind] in Hs; try discriminate.
    inversion Hs; try subst s'; cbn. split; [lia|reflexivity].
  - destruct (queue s) as [|[i q] qs]; [discriminate|]. destruct (ph s) as [|need]; [discriminate|].
    destruct (deadline_reached c need (now s)); [|discriminate].
    destruct (usize_add (rs (advance c (st s) need)) q) as [r|e|pp]; cbn [bind] in Hs; try discriminate.
    inversion Hs; try subst s'; cbn. split; [lia|reflexivity].
  - destruct (queue s) as [|[h hp] qs].
    { destruct (mem_nat id (blocked s)); [|discriminate]. inversion Hs; try subst s'; cbn. split; [lia|reflexivity]. }
    destruct (Nat.eqb h id); [inversion Hs; try subst s'; cbn; split; [lia|reflexivity]|].
    destruct (find_id id qs); [inversion Hs; try subst s'; cbn; split; [lia|reflexivity]|].
    destruct (mem_nat id (blocked s)); [|discriminate]. inversion Hs; try subst s'; cbn. split; [lia|reflexivity].
  - destruct (find_id id (held s)) as [q|]; [|discriminate]. destruct (q =? 0).
    { inversion Hs; try subst s'; cbn. split; [lia|reflexivity]. }
    destruct (usize_sub (rs (advance c (st s) (ticks c (now s)))) q) as [r|e|pp]; cbn [bind] in Hs; try discriminate.
    destruct (usize_sub (pm (advance c (st s) (ticks c (now s)))) q) as [m|e|pp]; cbn [bind] in Hs; try discriminate.
    inversion Hs; try subst s'; cbn. split; [lia|reflexivity].
Qed.

(* what a StreamQueue step does to the clock, the OPEN log and the stream table *)
Lemma rstep_obs : forall c s l s', rstep c s l = Ok s' ->
  now (lim s) <= now (lim s') /\
  length (streams s') = length (streams s) /\
  match l with
  | ROpen i => opens s' = (i, now (lim s)) :: opens s /\ now (lim s') = now (lim s)
  | RClose _ => opens s' = opens s /\ now (lim s') = now (lim s)
  | _ => opens s' = opens s
  end.
Proof.
  intros c s l s' Hs. destruct l as [l0|i|i|i|i]; cbn [rstep] in Hs.
  - destruct l0 as [d|q| | |id|id]; try discriminate;
      (destruct (step c (lim s) _) as [x|e|pp] eqn:Ex; cbn [bind] in Hs; try discriminate;
       inversion Hs; try subst s'; cbn; destruct (step_now _ _ _ _ Ex) as [Hn _];
       split; [exact Hn|split; reflexivity]).
  - destruct (nth_error (streams s) i) as [[| |]|]; try discriminate.
    destruct (step c (lim s) (LBegin 1)) as [x|e|pp] eqn:Ex; cbn [bind] in Hs; try discriminate.
    inversion Hs; try subst s'; cbn. destruct (step_now _ _ _ _ Ex) as [Hn _].
    split; [exact Hn|]. split; [apply length_set_nth|reflexivity].
  - destruct (nth_error (streams s) i) as [[|id|]|]; try discriminate.
    destruct (find_id id (held (lim s))); [|discriminate].
    destruct (step c (lim s) (LDrop id)) as [x|e|pp] eqn:Ex; cbn [bind] in Hs; try discriminate.
    inversion Hs; try subst s'; cbn. destruct (step_now _ _ _ _ Ex) as [Hn Hn'].
    split; [exact Hn|]. split; [apply length_set_nth|]. split; [reflexivity|].
    apply Hn'. intros d H. discriminate.
  - destruct (nth_error (streams s) i) as [[| |]|]; try discriminate.
    inversion Hs; try subst s'; cbn. split; [lia|]. split; [apply length_set_nth|]. split; reflexivity.
  - destruct (nth_error (streams s) i) as [[|id|]|]; try discriminate.
    destruct (step c (lim s) (LCancel id)) as [x|e|pp] eqn:Ex; cbn [bind] in Hs; try discriminate.
    inversion Hs; try subst s'; cbn. destruct (step_now _ _ _ _ Ex) as [Hn _].
    split; [exact Hn|]. split; [apply length_set_nth|reflexivity].
Qed.

Lemma rexec_app : forall c ls1 ls2 s s1, rexec c s ls1 = Ok s1 -> rexec c s (ls1 ++ ls2) = rexec c s1 ls2.
Proof.
  induction ls1 as [|l ls1 IH]; intros ls2 s s1 H; cbn [rexec app] in *.
  - inversion H. reflexivity.
  - destruct (rstep c s l) as [s'|e|p]; [apply IH; exact H|apply IH; exact H|discriminate].
Qed.

(* ------------------------------------------------------------------------- *)
(* sums over the call table *)

Fixpoint sumf (f : cstatus -> Z) (l : list cstatus) : Z :=
  match l with [] => 0 | x :: l' => f x + sumf f l' end.

Lemma sumf_set_nth : forall f i x y l, nth_error l i = Some x ->
  sumf f (set_nth i y l) = sumf f l - f x + f y.
Proof.
  intros f. induction i as [|i IH]; intros x y l H; destruct l as [|z l]; try discriminate; cbn in *.
  - inversion H. subst. lia.
  - rewrite (IH x y l H). lia.
Qed.

Lemma sumf_bounds : forall f l, (forall x, 0 <= f x <= 1) -> 0 <= sumf f l <= Z.of_nat (length l).
Proof.
  intros f l Hf. induction l as [|x l IH]; cbn [sumf length]; [lia|]. pose proof (Hf x). lia.
Qed.

Lemma sumf_repeat_zero : forall f x n, f x = 0 -> sumf f (repeat x n) = 0.
Proof. intros f x n H. induction n as [|n IH]; cbn; [reflexivity|]. lia. Qed.

Lemma in_set_nth : forall A i (y : A) l z, In z (set_nth i y l) -> z = y \/ In z l.
Proof.
  induction i as [|i IH]; intros y l z H; destruct l as [|x l]; cbn in *; try contradiction.
  - destruct H as [H|H]; [left; symmetry; exact H|right; right; exact H].
  - destruct H as [H|H]; [right; left; exact H|]. destruct (IH y l z H) as [E|E]; [left; exact E|right; right; exact E].
Qed.

(* contribution of a call slot to "opened but not yet started": opened inside the window, or before it *)
Definition wgt (t1 t2 : Z) (x : cstatus) : Z :=
  match x with
  | CWait ot => if ot <? t1 then 1 else if ot <=? t2 then 1 else 0
  | _ => 0
  end.

Lemma wgt_range : forall t1 t2 x, 0 <= wgt t1 t2 x <= 1.
Proof. intros t1 t2 x. unfold wgt. destruct x; try lia. destruct (ot <? t1); [lia|]. destruct (ot <=? t2); lia. Qed.

Lemma count_window_nonneg : forall o t1 t2, 0 <= count_window o t1 t2.
Proof.
  induction o as [|[i t] o IH]; intros t1 t2; cbn [count_window]; [lia|].
  pose proof (IH t1 t2). destruct ((t1 <=? t) && (t <=? t2)); lia.
Qed.

Lemma count_window_future : forall o t t1 t2, (forall i u, In (i, u) o -> u <= t) -> t < t1 ->
  count_window o t1 t2 = 0.
Proof.
  induction o as [|[i u] o IH]; intros t t1 t2 H Ht; cbn [count_window]; [reflexivity|].
  pose proof (H i u (or_introl eq_refl)) as Hu.
  rewrite (IH t t1 t2); [| |exact Ht].
  - destruct (t1 <=? u) eqn:E; [apply Z.leb_le in E; lia|]. reflexivity.
  - intros j v Hin. apply (H j v). right. exact Hin.
Qed.

(* ------------------------------------------------------------------------- *)
(* The bookkeeping invariant of the serve model: handler starts are paid for by OPENs, except for at
   most one pre-opened stream per slot. *)

Record vinv (n : nat) (s : vsys) : Prop := {
  vi_len : length (calls s) = n;
  vi_starts : forall i u, In (i, u) (starts s) -> u <= vnow s;
  vi_opens : forall i u, In (i, u) (opens (rq s)) -> u <= vnow s;
  vi_wait : forall ot, In (CWait ot) (calls s) -> ot <= vnow s;
  vi_paid : forall t1 t2,
      count_window (starts s) t1 t2 + sumf (wgt t1 t2) (calls s)
      <= count_window (opens (rq s)) t1 t2 + Z.of_nat n
}.

Lemma vinv_init : forall c n, vinv n (vinit c n).
Proof.
  intros c n. constructor; cbn.
  - apply repeat_length.
  - intros i u [].
  - intros i u [].
  - intros ot H. apply repeat_spec in H. discriminate.
  - intros t1 t2. rewrite sumf_repeat_zero by reflexivity. lia.
Qed.

Lemma vstep_vinv : forall c n s l s', vinv n s -> vstep c s l = Ok s' -> vinv n s'.
Proof.
  intros c n s l s' [Il Is Io Iw Ip] Hs. destruct l as [l0|i|i|i|i]; cbn [vstep] in Hs.
  - (* a StreamQueue step: only the clock may move *)
    assert (Hx : exists x, rstep c (rq s) l0 = Ok x /\ opens x = opens (rq s) /\
                           s' = {| rq := x; calls := calls s; starts := starts s |}).
    { destruct l0 as [l1|j|j|j|j]; try discriminate;
        (destruct (rstep c (rq s) _) as [x|e|pp] eqn:Ex; cbn [bind] in Hs; try discriminate;
         exists x; destruct (rstep_obs _ _ _ _ Ex) as (_ & _ & Ho); inversion Hs; repeat split; try reflexivity; exact Ho). }
    destruct Hx as (x & Ex & Ho & E). subst s'. destruct (rstep_obs _ _ _ _ Ex) as (Hn & _ & _).
    constructor; unfold vnow in *; cbn; [exact Il| | | |].
    + intros j u Hin. pose proof (Is j u Hin). lia.
    + intros j u Hin. rewrite Ho in Hin. pose proof (Io j u Hin). lia.
    + intros ot Hin. pose proof (Iw ot Hin). lia.
    + intros t1 t2. rewrite Ho. apply Ip.
  - (* VOpen *)
    destruct (nth_error (calls s) i) as [[| |]|] eqn:En; try discriminate.
    destruct (rstep c (rq s) (ROpen i)) as [x|e|pp] eqn:Ex; cbn [bind] in Hs; try discriminate.
    inversion Hs; subst s'; clear Hs. destruct (rstep_obs _ _ _ _ Ex) as (Hn & _ & Ho & Hn').
    constructor; unfold vnow in *; cbn.
    + rewrite length_set_nth. exact Il.
    + intros j u Hin. pose proof (Is j u Hin). lia.
    + intros j u Hin. rewrite Ho in Hin. destruct Hin as [Hin|Hin]; [inversion Hin; lia|]. pose proof (Io j u Hin). lia.
    + intros ot Hin. apply in_set_nth in Hin. destruct Hin as [Hin|Hin]; [inversion Hin; lia|]. pose proof (Iw ot Hin). lia.
    + intros t1 t2. rewrite Ho. cbn [count_window]. rewrite (sumf_set_nth _ _ _ _ _ En). cbn [wgt].
      set (t := now (lim (rq s))) in *.
      destruct (t <? t1) eqn:E1.
      * (* opened before the window: nothing has happened in the window yet *)
        apply Z.ltb_lt in E1.
        rewrite (count_window_future (starts s) t t1 t2 Is E1).
        replace ((t1 <=? t) && (t <=? t2)) with false by (symmetry; apply andb_false_iff; left; apply Z.leb_gt; lia).
        pose proof (count_window_nonneg (opens (rq s)) t1 t2).
        pose proof (sumf_bounds (wgt t1 t2) (set_nth i (CWait t) (calls s)) (wgt_range t1 t2)) as Hb.
        rewrite (sumf_set_nth _ _ _ _ _ En) in Hb. cbn [wgt] in Hb.
        replace (t <? t1) with true in Hb by (symmetry; apply Z.ltb_lt; lia).
        rewrite length_set_nth, Il in Hb. lia.
      * apply Z.ltb_ge in E1. replace (t1 <=? t) with true by (symmetry; apply Z.leb_le; lia). cbn [andb].
        pose proof (Ip t1 t2). destruct (t <=? t2); lia.
  - (* VReq: the handler starts *)
    destruct (nth_error (calls s) i) as [[|ot|]|] eqn:En; try discriminate.
    inversion Hs; subst s'; clear Hs.
    assert (Hot : ot <= now (lim (rq s))) by (apply Iw; eapply nth_error_In; exact En).
    constructor; unfold vnow in *; cbn.
    + rewrite length_set_nth. exact Il.
    + intros j u [Hin|Hin]; [inversion Hin; lia|apply (Is j u Hin)].
    + exact Io.
    + intros ot' Hin. apply in_set_nth in Hin. destruct Hin as [Hin|Hin]; [discriminate|apply (Iw ot' Hin)].
    + intros t1 t2. cbn [count_window]. rewrite (sumf_set_nth _ _ _ _ _ En). cbn [wgt].
      pose proof (Ip t1 t2). set (t := now (lim (rq s))) in *.
      destruct (ot <? t1) eqn:E1.
      * destruct ((t1 <=? t) && (t <=? t2)); lia.
      * apply Z.ltb_ge in E1. destruct (ot <=? t2) eqn:E2.
        -- destruct ((t1 <=? t) && (t <=? t2)); lia.
        -- apply Z.leb_gt in E2.
           replace ((t1 <=? t) && (t <=? t2)) with false by (symmetry; apply andb_false_iff; right; apply Z.leb_gt; lia).
           lia.
  - (* VFail *)
    destruct (nth_error (calls s) i) as [[|ot|]|] eqn:En; try discriminate.
    destruct (rstep c (rq s) (RClose i)) as [x|e|pp] eqn:Ex; cbn [bind] in Hs; try discriminate.
    inversion Hs; subst s'; clear Hs. destruct (rstep_obs _ _ _ _ Ex) as (Hn & _ & Ho & Hn').
    constructor; unfold vnow in *; cbn.
    + rewrite length_set_nth. exact Il.
    + intros j u Hin. pose proof (Is j u Hin). lia.
    + intros j u Hin. rewrite Ho in Hin. pose proof (Io j u Hin). lia.
    + intros ot' Hin. apply in_set_nth in Hin. destruct Hin as [Hin|Hin]; [discriminate|]. pose proof (Iw ot' Hin). lia.
    + intros t1 t2. rewrite Ho. rewrite (sumf_set_nth _ _ _ _ _ En). pose proof (Ip t1 t2).
      pose proof (wgt_range t1 t2 (CWait ot)). cbn [wgt] in *. lia.
  - (* VDone *)
    destruct (nth_error (calls s) i) as [[|ot|]|] eqn:En; try discriminate.
    destruct (rstep c (rq s) (RClose i)) as [x|e|pp] eqn:Ex; cbn [bind] in Hs; try discriminate.
    inversion Hs; subst s'; clear Hs. destruct (rstep_obs _ _ _ _ Ex) as (Hn & _ & Ho & Hn').
    constructor; unfold vnow in *; cbn.
    + rewrite length_set_nth. exact Il.
    + intros j u Hin. pose proof (Is j u Hin). lia.
    + intros j u Hin. rewrite Ho in Hin. pose proof (Io j u Hin). lia.
    + intros ot' Hin. apply in_set_nth in Hin. destruct Hin as [Hin|Hin]; [discriminate|]. pose proof (Iw ot' Hin). lia.
    + intros t1 t2. rewrite Ho. rewrite (sumf_set_nth _ _ _ _ _ En). pose proof (Ip t1 t2). cbn [wgt]. lia.
Qed.

Lemma vexec_vinv : forall c n ls s s', vinv n s -> vexec c s ls = Ok s' -> vinv n s'.
Proof.
  induction ls as [|l ls IH]; intros s s' I H; cbn [vexec] in H.
  - inversion H. subst. exact I.
  - destruct (vstep c s l) as [s1|e|p] eqn:Es; [|eapply IH; eassumption|discriminate].
    eapply IH; [|exact H]. eapply vstep_vinv; eassumption.
Qed.

(* ------------------------------------------------------------------------- *)
(* every schedule of the serve model projects to a run of the StreamQueue model *)

Lemma vstep_proj : forall c s l s', vstep c s l = Ok s' ->
  rq s' = rq s \/ exists l0, rstep c (rq s) l0 = Ok (rq s').
Proof.
  intros c s l s' Hs. destruct l as [l0|i|i|i|i]; cbn [vstep] in Hs.
  - destruct l0 as [l1|j|j|j|j]; try discriminate;
      (destruct (rstep c (rq s) _) as [x|e|pp] eqn:Ex; cbn [bind] in Hs; try discriminate;
       inversion Hs; right; eexists; exact Ex).
  - destruct (nth_error (calls s) i) as [[| |]|]; try discriminate.
    destruct (rstep c (rq s) (ROpen i)) as [x|e|pp] eqn:Ex; cbn [bind] in Hs; try discriminate.
    inversion Hs. right. eexists. exact Ex.
  - destruct (nth_error (calls s) i) as [[| |]|]; try discriminate. inversion Hs. left. reflexivity.
  - destruct (nth_error (calls s) i) as [[| |]|]; try discriminate.
    destruct (rstep c (rq s) (RClose i)) as [x|e|pp] eqn:Ex; cbn [bind] in Hs; try discriminate.
    inversion Hs. right. eexists. exact Ex.
  - destruct (nth_error (calls s) i) as [[| |]|]; try discriminate.
    destruct (rstep c (rq s) (RClose i)) as [x|e|pp] eqn:Ex; cbn [bind] in Hs; try discriminate.
    inversion Hs. right. eexists. exact Ex.
Qed.

Lemma vstep_panic_proj : forall c s l p, vstep c s l = Panic p -> exists l0, rstep c (rq s) l0 = Panic p.
Proof.
  intros c s l p Hs. destruct l as [l0|i|i|i|i]; cbn [vstep] in Hs.
  - destruct l0 as [l1|j|j|j|j]; try discriminate;
      (destruct (rstep c (rq s) _) as [x|e|pp] eqn:Ex; cbn [bind] in Hs; try discriminate;
       inversion Hs; subst; eexists; exact Ex).
  - destruct (nth_error (calls s) i) as [[| |]|]; try discriminate.
    destruct (rstep c (rq s) (ROpen i)) as [x|e|pp] eqn:Ex; cbn [bind] in Hs; try discriminate.
    inversion Hs; subst. eexists. exact Ex.
  - destruct (nth_error (calls s) i) as [[| |]|]; discriminate.
  - destruct (nth_error (calls s) i) as [[| |]|]; try discriminate.
    destruct (rstep c (rq s) (RClose i)) as [x|e|pp] eqn:Ex; cbn [bind] in Hs; try discriminate.
    inversion Hs; subst. eexists. exact Ex.
  - destruct (nth_error (calls s) i) as [[| |]|]; try discriminate.
    destruct (rstep c (rq s) (RClose i)) as [x|e|pp] eqn:Ex; cbn [bind] in Hs; try discriminate.
    inversion Hs; subst. eexists. exact Ex.
Qed.

Definition reach (c : cfg) (n : nat) (x : rsys) : Prop := exists rls, rexec c (rinit c n) rls = Ok x.

Lemma reach_step : forall c n x l x', reach c n x -> rstep c x l = Ok x' -> reach c n x'.
Proof.
  intros c n x l x' [rls H] Hs. exists (rls ++ [l]). rewrite (rexec_app c rls [l] _ x H).
  cbn [rexec]. rewrite Hs. reflexivity.
Qed.

Lemma vexec_reach : forall c n ls s s', reach c n (rq s) -> vexec c s ls = Ok s' -> reach c n (rq s').
Proof.
  induction ls as [|l ls IH]; intros s s' R H; cbn [vexec] in H.
  - inversion H. subst. exact R.
  - destruct (vstep c s l) as [s1|e|p] eqn:Es; [|eapply IH; eassumption|discriminate].
    eapply IH; [|exact H]. destruct (vstep_proj c s l s1 Es) as [E|[l0 E]]; [rewrite E; exact R|].
    eapply reach_step; eassumption.
Qed.

Lemma vexec_no_panic_from : forall c n ls s p, cfg_ok c -> reach c n (rq s) -> vexec c s ls <> Panic p.
Proof.
  induction ls as [|l ls IH]; intros s p Hc R H; cbn [vexec] in H; [discriminate|].
  destruct (vstep c s l) as [s1|e|q] eqn:Es.
  - eapply IH; [exact Hc| |exact H]. destruct (vstep_proj c s l s1 Es) as [E|[l0 E]]; [rewrite E; exact R|].
    eapply reach_step; eassumption.
  - eapply IH; eassumption.
  - destruct (vstep_panic_proj c s l q Es) as [l0 E]. destruct R as [rls Hr].
    apply (rpc_no_panic c n (rls ++ [l0]) q Hc). rewrite (rexec_app c rls [l0] _ (rq s) Hr).
    cbn [rexec]. rewrite E. reflexivity.
Qed.

Lemma reach_init : forall c n, reach c n (rq (vinit c n)).
Proof. intros c n. exists []. reflexivity. Qed.

(* ------------------------------------------------------------------------- *)
(* The theorems *)

Theorem serve_no_panic : forall c n ls p, cfg_ok c -> vexec c (vinit c n) ls <> Panic p.
Proof. intros c n ls p Hc. apply (vexec_no_panic_from c n); [exact Hc|apply reach_init]. Qed.

Lemma filter_length_le' : forall (f : cstatus -> bool) l, (length (filter f l) <= length l)%nat.
Proof. intros f l. induction l as [|x l IH]; cbn; [lia|]. destruct (f x); cbn; lia. Qed.

(* (a) handlers served concurrently <= INFLIGHT *)
Theorem serve_concurrency : forall c n ls s, vexec c (vinit c n) ls = Ok s -> (n_running s <= n)%nat.
Proof.
  intros c n ls s H. pose proof (vexec_vinv c n ls _ s (vinv_init c n) H) as [Il _ _ _ _].
  unfold n_running. pose proof (filter_length_le' is_run (calls s)). lia.
Qed.

(* (b) OPENs granted in any window *)
Theorem serve_opens_bound : forall c n ls s t1 t2, cfg_ok c -> vexec c (vinit c n) ls = Ok s -> t1 <= t2 ->
  count_window (opens (rq s)) t1 t2 <= burst c + (t2 - t1) / refresh c + 1.
Proof.
  intros c n ls s t1 t2 Hc H Ht.
  destruct (vexec_reach c n ls _ s (reach_init c n) H) as [rls Hr].
  exact (proj1 (rpc_rate_bound c n rls (rq s) t1 t2 Hc Hr Ht)).
Qed.

(* handler starts are paid for by OPENs of the same window, up to one pre-opened stream per slot *)
Theorem serve_starts_vs_opens : forall c n ls s t1 t2, vexec c (vinit c n) ls = Ok s ->
  count_window (starts s) t1 t2 <= count_window (opens (rq s)) t1 t2 + Z.of_nat n.
Proof.
  intros c n ls s t1 t2 H. pose proof (vexec_vinv c n ls _ s (vinv_init c n) H) as [_ _ _ _ Ip].
  pose proof (Ip t1 t2). pose proof (sumf_bounds (wgt t1 t2) (calls s) (wgt_range t1 t2)). lia.
Qed.

(* (c) handler starts in any window <= burst + T/refresh + 1 + INFLIGHT *)
Theorem serve_starts_bound : forall c n ls s t1 t2, cfg_ok c -> vexec c (vinit c n) ls = Ok s -> t1 <= t2 ->
  count_window (starts s) t1 t2 <= burst c + (t2 - t1) / refresh c + 1 + Z.of_nat n.
Proof.
  intros c n ls s t1 t2 Hc H Ht.
  pose proof (serve_starts_vs_opens c n ls s t1 t2 H).
  pose proof (serve_opens_bound c n ls s t1 t2 Hc H Ht). lia.
Qed.

(* ------------------------------------------------------------------------- *)
(* Accepted traces: what [accept_serve] establishes about an observed HandlerLog *)

Fixpoint count_times (l : list Z) (t1 t2 : Z) : Z :=
  match l with
  | [] => 0
  | t :: l' => (if (t1 <=? t) && (t <=? t2) then 1 else 0) + count_times l' t1 t2
  end.

Lemma count_times_app : forall a b t1 t2, count_times (a ++ b) t1 t2 = count_times a t1 t2 + count_times b t1 t2.
Proof. induction a as [|x a IH]; intros b t1 t2; cbn [app count_times]; [lia|]. rewrite IH. lia. Qed.

Lemma count_times_rev : forall a t1 t2, count_times (rev a) t1 t2 = count_times a t1 t2.
Proof.
  induction a as [|x a IH]; intros t1 t2; cbn [rev count_times]; [reflexivity|].
  rewrite count_times_app, IH. cbn [count_times]. lia.
Qed.

Lemma count_window_times : forall (o : list (nat * Z)) t1 t2, count_window o t1 t2 = count_times (map snd o) t1 t2.
Proof. induction o as [|[i t] o IH]; intros t1 t2; cbn; [reflexivity|]. rewrite IH. reflexivity. Qed.

Lemma zlist_eqb_eq : forall a b, zlist_eqb a b = true -> a = b.
Proof.
  induction a as [|x a IH]; intros b H; destruct b as [|y b]; cbn in H; try discriminate; [reflexivity|].
  apply andb_true_iff in H. destruct H as [H1 H2]. apply Z.eqb_eq in H1. subst. f_equal. apply IH. exact H2.
Qed.

(* the third component of the observation says: the schedule, run by vexec from the initial state,
   logs exactly the observed handler starts *)
Lemma accept_serve_sound : forall b r n eager evs o1 o2 o4 o5,
  accept_serve (b, r, n, eager, evs) = OL [o1; o2; OZ 1; o4; o5] ->
  exists ls s, vexec {| burst := b; refresh := r; start := 0 |} (vinit {| burst := b; refresh := r; start := 0 |} n) ls = Ok s /\
               rev (map snd (starts s)) = observed_starts evs.
Proof.
  intros b r n eager evs o1 o2 o4 o5 H. unfold accept_serve in H.
  destruct (serve_labels _ n eager evs) as [[ok k] ls].
  destruct (vexec _ _ ls) as [s|e|p] eqn:Ev; try discriminate.
  exists ls, s. split; [exact Ev|]. inversion H as [[H1 H2 H3 H4 H5]].
  apply zlist_eqb_eq. destruct (zlist_eqb _ _); [reflexivity|discriminate].
Qed.

(* hence the proved bounds hold of every accepted HandlerLog *)
Theorem accepted_trace_bounds : forall b r n eager evs o1 o2 o4 o5 t1 t2,
  cfg_ok {| burst := b; refresh := r; start := 0 |} ->
  accept_serve (b, r, n, eager, evs) = OL [o1; o2; OZ 1; o4; o5] -> t1 <= t2 ->
  count_times (observed_starts evs) t1 t2 <= b + (t2 - t1) / r + 1 + Z.of_nat n.
Proof.
  intros b r n eager evs o1 o2 o4 o5 t1 t2 Hc H Ht.
  destruct (accept_serve_sound _ _ _ _ _ _ _ _ _ H) as (ls & s & Ev & Es).
  rewrite <- Es, count_times_rev, <- count_window_times.
  exact (serve_starts_bound _ n ls s t1 t2 Hc Ev Ht).
Qed.
