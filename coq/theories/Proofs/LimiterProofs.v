(* Proofs about Model/Limiter.v (property C15). *)
From Coq Require Import ZArith List Bool Lia Arith.
From EC Require Import Lib.Outcome Lib.Obs Model.Limiter.
Import ListNotations.
Open Scope Z_scope.

Definition cfg_ok (c : cfg) : Prop := 0 <= burst c <= usize_max /\ 0 < refresh c.

(* ticks as a floor division (equal to the truncating one on the reachable states) *)
Definition tk (c : cfg) (t : Z) : Z := (t - start c) / refresh c.

Lemma ticks_tk : forall c t, 0 < refresh c -> start c <= t -> ticks c t = tk c t.
Proof.
  intros c t Hr Ht. unfold ticks, tk. apply Z.quot_div_nonneg; lia.
Qed.

Lemma tk_mono : forall c a b, 0 < refresh c -> a <= b -> tk c a <= tk c b.
Proof. intros c a b Hr Hab. unfold tk. apply Z.div_le_mono; lia. Qed.

Lemma tk_nonneg : forall c t, 0 < refresh c -> start c <= t -> 0 <= tk c t.
Proof. intros c t Hr Ht. unfold tk. apply Z.div_pos; lia. Qed.

Lemma tk_start : forall c, 0 < refresh c -> tk c (start c) = 0.
Proof. intros c Hr. unfold tk. rewrite Z.sub_diag. apply Z.div_0_l. lia. Qed.

(* floor((b-s)/r) - floor((a-s)/r) <= floor((b-a)/r) + 1 *)
Lemma tk_window : forall c a b, 0 < refresh c -> a <= b ->
  tk c b - tk c a <= (b - a) / refresh c + 1.
Proof.
  intros c a b Hr Hab. unfold tk.
  set (r := refresh c) in *. set (x := a - start c). set (d := b - a).
  replace (b - start c) with (x + d) by (unfold x, d; lia).
  assert (Hd : 0 <= d) by (unfold d; lia).
  pose proof (Z.div_mod x r ltac:(lia)) as Hx.
  pose proof (Z.mod_pos_bound x r Hr) as Hxm.
  pose proof (Z.div_mod d r ltac:(lia)) as Hdd.
  pose proof (Z.mod_pos_bound d r Hr) as Hdm.
  assert (H : (x + d) / r < x / r + d / r + 2).
  { apply Z.div_lt_upper_bound; [lia|]. nia. }
  lia.
Qed.

(* need <= ticks when the sleep deadline was reached *)
Lemma le_tk_of_mul : forall c need t, 0 < refresh c -> refresh c * need <= t - start c -> need <= tk c t.
Proof. intros c need t Hr H. unfold tk. apply Z.div_le_lower_bound; lia. Qed.

(* ------------------------------------------------------------------------- *)
(* advance without the saturations *)

Lemma advance_spec : forall c s t, 0 <= pm s <= burst c -> burst c <= usize_max ->
  advance c s t =
  if t <? rt s then s
  else {| rt := t; pm := Z.min (pm s + (t - rt s)) (burst c); rs := rs s |}.
Proof.
  intros c s t Hp Hb. unfold advance. destruct (t <? rt s) eqn:E; [reflexivity|].
  apply Z.ltb_ge in E. f_equal.
  unfold usize_or_max, usize_sat_add.
  destruct (t - rt s >? usize_max) eqn:E1.
  - apply Z.gtb_lt in E1. destruct (pm s + usize_max >? usize_max) eqn:E2.
    + lia.
    + rewrite Z.gtb_ltb in E2. apply Z.ltb_ge in E2. lia.
  - rewrite Z.gtb_ltb in E1. apply Z.ltb_ge in E1.
    destruct (pm s + (t - rt s) >? usize_max) eqn:E2.
    + apply Z.gtb_lt in E2. lia.
    + reflexivity.
Qed.

(* The i128 / Duration saturations of the sleep deadline do not matter while the clock is in range. *)
Lemma deadline_reached_spec : forall c need t, 0 < refresh c -> t - start c < nanos_max ->
  deadline_reached c need t = true -> need <= 0 \/ refresh c * need <= t - start c.
Proof.
  intros c need t Hr Ht H. unfold deadline_reached in H. apply orb_true_iff in H.
  destruct H as [H|H]; [left; apply Z.leb_le in H; exact H|].
  apply Z.leb_le in H. destruct (Z_le_gt_dec need 0) as [Hn|Hn]; [left; exact Hn|right].
  unfold sleep_ns, i128_sat_mul in H.
  assert (Hpos : 0 < refresh c * need) by nia.
  destruct (refresh c * need >? i128_max) eqn:E1.
  - unfold i128_max, nanos_max in *. cbn in H. lia.
  - rewrite Z.gtb_ltb in E1. apply Z.ltb_ge in E1.
    destruct (refresh c * need <? i128_min) eqn:E2.
    + apply Z.ltb_lt in E2. unfold i128_min in E2. lia.
    + destruct (refresh c * need >? nanos_max) eqn:E3; [lia|lia].
Qed.

Lemma deadline_reached_complete : forall c need t, 0 < refresh c -> t - start c < nanos_max ->
  need <= 0 \/ refresh c * need <= t - start c -> deadline_reached c need t = true.
Proof.
  intros c need t Hr Ht H. unfold deadline_reached. apply orb_true_iff.
  destruct (Z_le_gt_dec need 0) as [Hn|Hn]; [left; apply Z.leb_le; exact Hn|right].
  destruct H as [H|H]; [lia|]. apply Z.leb_le.
  unfold sleep_ns, i128_sat_mul.
  assert (Hpos : 0 < refresh c * need) by nia.
  assert (Hlt : refresh c * need < nanos_max) by lia.
  destruct (refresh c * need >? i128_max) eqn:E1.
  - apply Z.gtb_lt in E1. unfold i128_max, nanos_max in *. lia.
  - destruct (refresh c * need <? i128_min) eqn:E2.
    + apply Z.ltb_lt in E2. unfold i128_min in E2. lia.
    + destruct (refresh c * need >? nanos_max) eqn:E3; [apply Z.gtb_lt in E3; lia|lia].
Qed.

(* ------------------------------------------------------------------------- *)
(* lists of (id, permits) *)

Fixpoint sum_p (l : list (nat * Z)) : Z :=
  match l with [] => 0 | (_, p) :: l' => p + sum_p l' end.

Definition all_p (P : Z -> Prop) (l : list (nat * Z)) : Prop := forall i p, In (i, p) l -> P p.

Lemma find_id_in : forall id l p, find_id id l = Some p -> In (id, p) l.
Proof.
  induction l as [|[i q] l IH]; intros p H; [discriminate|]. cbn [find_id] in H.
  destruct (Nat.eqb i id) eqn:E.
  - apply Nat.eqb_eq in E. inversion H. subst. left. reflexivity.
  - right. apply IH. exact H.
Qed.

Lemma sum_p_remove : forall id l p, find_id id l = Some p -> sum_p (remove_id id l) = sum_p l - p.
Proof.
  induction l as [|[i q] l IH]; intros p H; [discriminate|]. cbn [find_id] in H. cbn [remove_id sum_p].
  destruct (Nat.eqb i id) eqn:E.
  - inversion H. lia.
  - cbn [sum_p]. rewrite (IH p H). lia.
Qed.

Lemma in_remove_id : forall id l x, In x (remove_id id l) -> In x l.
Proof.
  induction l as [|[i q] l IH]; intros x H; [exact H|]. cbn [remove_id] in H.
  destruct (Nat.eqb i id); [right; exact H|]. destruct H as [H|H]; [left; exact H|right; apply IH; exact H].
Qed.

Lemma sum_p_nonneg : forall l, all_p (fun p => 0 <= p) l -> 0 <= sum_p l.
Proof.
  induction l as [|[i q] l IH]; intros H; cbn [sum_p]; [lia|].
  assert (0 <= q) by (apply (H i q); left; reflexivity).
  assert (0 <= sum_p l) by (apply IH; intros j p Hin; apply (H j p); right; exact Hin). lia.
Qed.

Lemma sum_p_ge : forall l i p, all_p (fun p => 0 <= p) l -> In (i, p) l -> p <= sum_p l.
Proof.
  induction l as [|[j q] l IH]; intros i p H Hin; [destruct Hin|]. cbn [sum_p].
  assert (Hq : 0 <= q) by (apply (H j q); left; reflexivity).
  assert (Hl : all_p (fun p => 0 <= p) l) by (intros k r Hk; apply (H k r); right; exact Hk).
  destruct Hin as [Hin|Hin].
  - inversion Hin. subst. pose proof (sum_p_nonneg l Hl). lia.
  - pose proof (IH i p Hl Hin). lia.
Qed.

(* ------------------------------------------------------------------------- *)
(* The basic invariant (limiter_inv) *)

Definition avail (c : cfg) (s : sys) : Z :=
  Z.min (burst c) (pm (st s) + Z.max 0 (tk c (now s) - rt (st s))).

Definition holder_ok (c : cfg) (s : sys) : Prop :=
  match queue s, ph s with
  | (_, p) :: _, PSleep need =>
      p <= burst c - rs (st s) /\
      p <= Z.min (burst c) (pm (st s) + Z.max 0 (need - rt (st s))) - rs (st s)
  | _, _ => True
  end.

Record inv (c : cfg) (s : sys) : Prop := {
  inv_rs : 0 <= rs (st s) <= pm (st s);
  inv_pm : pm (st s) <= burst c;
  inv_rt : 0 <= rt (st s) <= tk c (now s);
  inv_now : start c <= now s /\ now s - start c < nanos_max;
  inv_held : rs (st s) = sum_p (held s) /\ all_p (fun p => 0 <= p) (held s);
  inv_queue : all_p (fun p => 0 <= p <= burst c) (queue s);
  inv_holder : holder_ok c s;
  inv_ph : queue s = [] -> ph s = PWait
}.

Lemma inv_init : forall c, cfg_ok c -> inv c (init c).
Proof.
  intros c [Hb Hr]. constructor; cbn.
  - lia.
  - lia.
  - rewrite tk_start by exact Hr. lia.
  - unfold nanos_max. lia.
  - split; [reflexivity|]. intros i p [].
  - intros i p [].
  - exact I.
  - reflexivity.
Qed.

Lemma all_p_app : forall P l1 l2, all_p P l1 -> all_p P l2 -> all_p P (l1 ++ l2).
Proof. intros P l1 l2 H1 H2 i p Hin. apply in_app_or in Hin. destruct Hin; [eapply H1|eapply H2]; eassumption. Qed.

Lemma all_p_tail : forall P x l, all_p P (x :: l) -> all_p P l.
Proof. intros P x l H i p Hin. apply (H i p). right. exact Hin. Qed.

Lemma all_p_remove : forall P id l, all_p P l -> all_p P (remove_id id l).
Proof. intros P id l H i p Hin. apply (H i p). eapply in_remove_id. exact Hin. Qed.

Ltac destr_outcome H :=
  match type of H with
  | context [usize_sub ?a ?b] => unfold usize_sub in H; destruct (a <? b) eqn:?E
  | context [usize_add ?a ?b] => unfold usize_add in H; destruct (a + b >? usize_max) eqn:?E
  end.

(* One step from a state satisfying the invariant never panics. *)
Lemma step_no_panic : forall c s l p, cfg_ok c -> inv c s -> step c s l <> Panic p.
Proof.
  intros c s l p [Hb Hr] I Hs. destruct I as [Irs Ipm Irt Inow [Iheld Ihp] Iq Ih Iph].
  destruct l as [d|q| | |id|id]; cbn [step] in Hs.
  - destruct ((d <? 0) || (nanos_max <=? now s + d - start c)); discriminate.
  - destruct ((q <? 0) || (q >? usize_max)); [discriminate|].
    destruct (burst c <? q); [discriminate|]. destruct (refresh c <=? 0); discriminate.
  - destruct (queue s) as [|[i q] qs] eqn:Eq; [discriminate|]. destruct (ph s); [|discriminate].
    unfold usize_sub in Hs. destruct (burst c <? rs (st s)) eqn:E1; [apply Z.ltb_lt in E1; lia|].
    cbn [bind] in Hs. destruct (burst c - rs (st s) <? q) eqn:E2; [discriminate|].
    apply Z.ltb_ge in E2. unfold usize_add in Hs.
    destruct (rs (st s) + q >? usize_max) eqn:E3; [apply Z.gtb_lt in E3; lia|]. discriminate.
  - destruct (queue s) as [|[i q] qs] eqn:Eq; [discriminate|]. destruct (ph s) as [|need] eqn:Eph; [discriminate|].
    destruct (deadline_reached c need (now s)); [|discriminate].
    unfold holder_ok in Ih. rewrite Eq, Eph in Ih. destruct Ih as [Ih1 Ih2].
    rewrite (advance_spec c (st s) need) in Hs by lia.
    unfold usize_add in Hs.
    destruct (need <? rt (st s)) eqn:E1; cbn [rs pm rt] in Hs.
    + destruct (rs (st s) + q >? usize_max) eqn:E3; [apply Z.gtb_lt in E3; lia|discriminate].
    + destruct (rs (st s) + q >? usize_max) eqn:E3; [apply Z.gtb_lt in E3; lia|discriminate].
  - destruct (queue s) as [|[h hp] qs]; [destruct (mem_nat id (blocked s)); discriminate|].
    destruct (Nat.eqb h id); [discriminate|]. destruct (find_id id qs); [discriminate|].
    destruct (mem_nat id (blocked s)); discriminate.
  - destruct (find_id id (held s)) as [q|] eqn:Ef; [|discriminate].
    destruct (q =? 0); [discriminate|].
    pose proof (sum_p_ge _ _ _ Ihp (find_id_in _ _ _ Ef)) as Hq.
    assert (Hq0 : 0 <= q) by (apply (Ihp id q), find_id_in, Ef).
    rewrite (advance_spec c (st s) (ticks c (now s))) in Hs by lia.
    rewrite ticks_tk in Hs by lia.
    destruct (tk c (now s) <? rt (st s)) eqn:E1; cbn [rs pm rt] in Hs.
    + unfold usize_sub in Hs. destruct (rs (st s) <? q) eqn:E2; [apply Z.ltb_lt in E2; lia|].
      cbn [bind] in Hs. destruct (pm (st s) <? q) eqn:E3; [apply Z.ltb_lt in E3; lia|]. discriminate.
    + apply Z.ltb_ge in E1. unfold usize_sub in Hs.
      destruct (rs (st s) <? q) eqn:E2; [apply Z.ltb_lt in E2; lia|]. cbn [bind] in Hs.
      destruct (Z.min (pm (st s) + (tk c (now s) - rt (st s))) (burst c) <? q) eqn:E3;
        [apply Z.ltb_lt in E3; lia|]. discriminate.
Qed.

Lemma holder_ok_same : forall c s s', st s' = st s -> queue s' = queue s -> ph s' = ph s ->
  holder_ok c s -> holder_ok c s'.
Proof. intros c s s' H1 H2 H3 H. unfold holder_ok in *. rewrite H1, H2, H3. exact H. Qed.

(* The invariant is preserved by every enabled step. *)
Lemma step_inv : forall c s l s', cfg_ok c -> inv c s -> step c s l = Ok s' -> inv c s'.
Proof.
  intros c s l s' [Hb Hr] I Hs. destruct I as [Irs Ipm Irt Inow [Iheld Ihp] Iq Ih Iph].
  destruct l as [d|q| | |id|id]; cbn [step] in Hs.
  - (* LTick *)
    destruct ((d <? 0) || (nanos_max <=? now s + d - start c)) eqn:E; [discriminate|].
    apply orb_false_iff in E. destruct E as [E1 E2]. apply Z.ltb_ge in E1. apply Z.leb_gt in E2.
    inversion Hs; subst s'; clear Hs. constructor; cbn; try assumption.
    + pose proof (tk_mono c (now s) (now s + d) Hr ltac:(lia)). lia.
    + lia.
    + split; assumption.
  - (* LBegin *)
    destruct ((q <? 0) || (q >? usize_max)) eqn:E; [discriminate|].
    apply orb_false_iff in E. destruct E as [E1 E2]. apply Z.ltb_ge in E1.
    destruct (burst c <? q) eqn:E3.
    { inversion Hs; subst s'; clear Hs. constructor; cbn; try assumption. split; assumption. }
    apply Z.ltb_ge in E3.
    destruct (refresh c <=? 0) eqn:E4; [apply Z.leb_le in E4; lia|].
    inversion Hs; subst s'; clear Hs. constructor; cbn; try assumption.
    + split; assumption.
    + apply all_p_app; [exact Iq|]. intros i p [Hin|[]]. inversion Hin. subst. lia.
    + unfold holder_ok in *. cbn. destruct (queue s) as [|[h hp] qs] eqn:Eq; cbn.
      * rewrite (Iph eq_refl). exact I.
      * exact Ih.
    + intros H. destruct (queue s); [apply Iph; reflexivity|discriminate].
  - (* LWait *)
    destruct (queue s) as [|[i q] qs] eqn:Eq; [discriminate|]. destruct (ph s) eqn:Eph; [|discriminate].
    unfold usize_sub in Hs. destruct (burst c <? rs (st s)) eqn:E1; [discriminate|]. cbn [bind] in Hs.
    destruct (burst c - rs (st s) <? q) eqn:E2; [discriminate|]. apply Z.ltb_ge in E2.
    unfold usize_add in Hs. destruct (rs (st s) + q >? usize_max) eqn:E3; [discriminate|]. cbn [bind] in Hs.
    inversion Hs; subst s'; clear Hs. constructor; cbn; try assumption.
    + split; assumption.
    + exact Iq.
    + unfold holder_ok. cbn. split; [lia|].
      unfold usize_sat_sub. destruct (rs (st s) + q <? pm (st s)) eqn:E4.
      * apply Z.ltb_lt in E4. lia.
      * apply Z.ltb_ge in E4. lia.
    + discriminate.
  - (* LGrant *)
    destruct (queue s) as [|[i q] qs] eqn:Eq; [discriminate|]. destruct (ph s) as [|need] eqn:Eph; [discriminate|].
    destruct (deadline_reached c need (now s)) eqn:Ed; [|discriminate].
    apply deadline_reached_spec in Ed; [|lia|lia].
    unfold holder_ok in Ih. rewrite Eq, Eph in Ih. destruct Ih as [Ih1 Ih2].
    assert (Hq0 : 0 <= q) by (apply (Iq i q); left; reflexivity).
    rewrite (advance_spec c (st s) need) in Hs by lia.
    unfold usize_add in Hs.
    destruct (need <? rt (st s)) eqn:E1; cbn [rs pm rt] in Hs.
    + apply Z.ltb_lt in E1.
      destruct (rs (st s) + q >? usize_max) eqn:E3; [discriminate|]. cbn [bind] in Hs.
      inversion Hs; subst s'; clear Hs. constructor; cbn; try lia.
      * split; [lia|]. intros j p [Hin|Hin]; [inversion Hin; subst; lia|apply (Ihp j p Hin)].
      * eapply all_p_tail. exact Iq.
      * unfold holder_ok. cbn. destruct qs as [|[? ?] ?]; exact I.
      * reflexivity.
    + apply Z.ltb_ge in E1.
      destruct (rs (st s) + q >? usize_max) eqn:E3; [discriminate|]. cbn [bind] in Hs.
      assert (Hnt : need <= tk c (now s)).
      { destruct Ed as [Ed|Ed]; [lia|]. apply le_tk_of_mul; assumption. }
      inversion Hs; subst s'; clear Hs. constructor; cbn; try lia.
      * split; [lia|]. intros j p [Hin|Hin]; [inversion Hin; subst; lia|apply (Ihp j p Hin)].
      * eapply all_p_tail. exact Iq.
      * unfold holder_ok. cbn. destruct qs as [|[? ?] ?]; exact I.
      * reflexivity.
  - (* LCancel *)
    destruct (queue s) as [|[h hp] qs] eqn:Eq.
    { destruct (mem_nat id (blocked s)); [|discriminate]. inversion Hs; subst s'; clear Hs.
      constructor; cbn; try assumption.
      - split; assumption.
      - rewrite Eq. exact Iq.
      - unfold holder_ok in *. cbn. rewrite Eq in *. exact Ih.
      - intros _. apply Iph. reflexivity. }
    destruct (Nat.eqb h id).
    { inversion Hs; subst s'; clear Hs. constructor; cbn; try assumption.
      - split; assumption.
      - eapply all_p_tail. exact Iq.
      - unfold holder_ok. cbn. destruct qs as [|[? ?] ?]; exact I.
      - reflexivity. }
    destruct (find_id id qs) eqn:Ef.
    { inversion Hs; subst s'; clear Hs. constructor; cbn; try assumption.
      - split; assumption.
      - intros j p [Hin|Hin]; [apply (Iq j p); left; exact Hin|].
        apply (Iq j p). right. eapply in_remove_id. exact Hin.
      - unfold holder_ok in *. cbn. exact Ih.
      - discriminate. }
    destruct (mem_nat id (blocked s)); [|discriminate]. inversion Hs; subst s'; clear Hs.
    constructor; cbn; try assumption.
    + split; assumption.
    + rewrite Eq. exact Iq.
    + unfold holder_ok in *. cbn. rewrite Eq in *. exact Ih.
    + rewrite Eq. discriminate.
  - (* LDrop *)
    destruct (find_id id (held s)) as [q|] eqn:Ef; [|discriminate].
    pose proof (sum_p_ge _ _ _ Ihp (find_id_in _ _ _ Ef)) as Hq.
    assert (Hq0 : 0 <= q) by (apply (Ihp id q), find_id_in, Ef).
    destruct (q =? 0) eqn:E0.
    { apply Z.eqb_eq in E0. inversion Hs; subst s'; clear Hs. constructor; cbn; try assumption.
      - split; [rewrite (sum_p_remove _ _ _ Ef); lia|apply all_p_remove; exact Ihp].
      - exact Ih. }
    apply Z.eqb_neq in E0.
    rewrite (advance_spec c (st s) (ticks c (now s))) in Hs by lia.
    rewrite ticks_tk in Hs by lia.
    destruct (tk c (now s) <? rt (st s)) eqn:E1; [apply Z.ltb_lt in E1; lia|].
    apply Z.ltb_ge in E1. cbn [rs pm rt] in Hs. unfold usize_sub in Hs.
    destruct (rs (st s) <? q) eqn:E2; [discriminate|]. cbn [bind] in Hs.
    destruct (Z.min (pm (st s) + (tk c (now s) - rt (st s))) (burst c) <? q) eqn:E3; [discriminate|].
    cbn [bind] in Hs. inversion Hs; subst s'; clear Hs. constructor; cbn; try lia.
    + split; [rewrite (sum_p_remove _ _ _ Ef); lia|apply all_p_remove; exact Ihp].
    + exact Iq.
    + unfold holder_ok in *. cbn. destruct (queue s) as [|[h hp] qs]; [exact I|].
      destruct (ph s) as [|need]; [exact I|]. lia.
    + exact Iph.
Qed.
