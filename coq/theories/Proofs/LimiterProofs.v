(* Proofs about Model/Limiter.v (property C15). *)
From Coq Require Import ZArith List Bool Lia Arith.
From EC Require Import Lib.Outcome Lib.Obs Model.Limiter.
Import ListNotations.
Open Scope Z_scope.

Definition cfg_ok (c : cfg) : Prop := 0 <= burst c <= usize_max /\ 0 < refresh c.

(* ticks as a floor division (equal to the truncating one on the reachable states) *)
Definition tk (c : cfg) (t : Z) : Z := (t - start c) / refresh c.

Lemma ticks_tk : forall c t, 0 < refresh c -> start c <= t -> ticks c t = tk c t.
Proof.
  intros c t Hr Ht. unfold ticks, tk. apply Z.quot_div_nonneg; lia.
Qed.

Lemma tk_mono : forall c a b, 0 < refresh c -> a <= b -> tk c a <= tk c b.
Proof. intros c a b Hr Hab. unfold tk. apply Z.div_le_mono; lia. Qed.

Lemma tk_nonneg : forall c t, 0 < refresh c -> start c <= t -> 0 <= tk c t.
Proof. intros c t Hr Ht. unfold tk. apply Z.div_pos; lia. Qed.

Lemma tk_start : forall c, 0 < refresh c -> tk c (start c) = 0.
Proof. intros c Hr. unfold tk. rewrite Z.sub_diag. apply Z.div_0_l. lia. Qed.

(* floor((b-s)/r) - floor((a-s)/r) <= floor((b-a)/r) + 1 *)
Lemma tk_window : forall c a b, 0 < refresh c -> a <= b ->
  tk c b - tk c a <= (b - a) / refresh c + 1.
Proof.
  intros c a b Hr Hab. unfold tk.
  set (r := refresh c) in *. set (x := a - start c). set (d := b - a).
  replace (b - start c) with (x + d) by (unfold x, d; lia).
  assert (Hd : 0 <= d) by (unfold d; lia).
  pose proof (Z.div_mod x r ltac:(lia)) as Hx.
  pose proof (Z.mod_pos_bound x r Hr) as Hxm.
  pose proof (Z.div_mod d r ltac:(lia)) as Hdd.
  pose proof (Z.mod_pos_bound d r Hr) as Hdm.
  assert (H : (x + d) / r < x / r + d / r + 2).
  { apply Z.div_lt_upper_bound; [lia|]. nia. }
  lia.
Qed.

(* need <= ticks when the sleep deadline was reached *)
Lemma le_tk_of_mul : forall c need t, 0 < refresh c -> refresh c * need <= t - start c -> need <= tk c t.
Proof. intros c need t Hr H. unfold tk. apply Z.div_le_lower_bound; lia. Qed.

(* ------------------------------------------------------------------------- *)
(* advance without the saturations *)

Lemma advance_spec : forall c s t, 0 <= pm s <= burst c -> burst c <= usize_max ->
  advance c s t =
  if t <? rt s then s
  else {| rt := t; pm := Z.min (pm s + (t - rt s)) (burst c); rs := rs s |}.
Proof.
  intros c s t Hp Hb. unfold advance. destruct (t <? rt s) eqn:E; [reflexivity|].
  apply Z.ltb_ge in E. f_equal.
  unfold usize_or_max, usize_sat_add.
  destruct (t - rt s >? usize_max) eqn:E1.
  - apply Z.gtb_lt in E1. destruct (pm s + usize_max >? usize_max) eqn:E2.
    + lia.
    + rewrite Z.gtb_ltb in E2. apply Z.ltb_ge in E2. lia.
  - rewrite Z.gtb_ltb in E1. apply Z.ltb_ge in E1.
    destruct (pm s + (t - rt s) >? usize_max) eqn:E2.
    + apply Z.gtb_lt in E2. lia.
    + reflexivity.
Qed.

(* The i128 / Duration saturations of the sleep deadline do not matter while the clock is in range. *)
Lemma deadline_reached_spec : forall c need t, 0 < refresh c -> t - start c < nanos_max ->
  deadline_reached c need t = true -> need <= 0 \/ refresh c * need <= t - start c.
Proof.
  intros c need t Hr Ht H. unfold deadline_reached in H. apply orb_true_iff in H.
  destruct H as [H|H]; [left; apply Z.leb_le in H; exact H|].
  apply Z.leb_le in H. destruct (Z_le_gt_dec need 0) as [Hn|Hn]; [left; exact Hn|right].
  unfold sleep_ns, i128_sat_mul in H.
  assert (Hpos : 0 < refresh c * need) by nia.
  destruct (refresh c * need >? i128_max) eqn:E1.
  - unfold i128_max, nanos_max in *. cbn in H. lia.
  - rewrite Z.gtb_ltb in E1. apply Z.ltb_ge in E1.
    destruct (refresh c * need <? i128_min) eqn:E2.
    + apply Z.ltb_lt in E2. unfold i128_min in E2. lia.
    + destruct (refresh c * need >? nanos_max) eqn:E3; [lia|lia].
Qed.

Lemma deadline_reached_complete : forall c need t, 0 < refresh c -> t - start c < nanos_max ->
  need <= 0 \/ refresh c * need <= t - start c -> deadline_reached c need t = true.
Proof.
  intros c need t Hr Ht H. unfold deadline_reached. apply orb_true_iff.
  destruct (Z_le_gt_dec need 0) as [Hn|Hn]; [left; apply Z.leb_le; exact Hn|right].
  destruct H as [H|H]; [lia|]. apply Z.leb_le.
  unfold sleep_ns, i128_sat_mul.
  assert (Hpos : 0 < refresh c * need) by nia.
  assert (Hlt : refresh c * need < nanos_max) by lia.
  destruct (refresh c * need >? i128_max) eqn:E1.
  - apply Z.gtb_lt in E1. unfold i128_max, nanos_max in *. lia.
  - destruct (refresh c * need <? i128_min) eqn:E2.
    + apply Z.ltb_lt in E2. unfold i128_min in E2. lia.
    + destruct (refresh c * need >? nanos_max) eqn:E3; [apply Z.gtb_lt in E3; lia|lia].
Qed.

(* ------------------------------------------------------------------------- *)
(* lists of (id, permits) *)

Fixpoint sum_p (l : list (nat * Z)) : Z :=
  match l with [] => 0 | (_, p) :: l' => p + sum_p l' end.

Definition all_p (P : Z -> Prop) (l : list (nat * Z)) : Prop := forall i p, In (i, p) l -> P p.

Lemma find_id_in : forall id l p, find_id id l = Some p -> In (id, p) l.
Proof.
  induction l as [|[i q] l IH]; intros p H; [discriminate|]. cbn [find_id] in H.
  destruct (Nat.eqb i id) eqn:E.
  - apply Nat.eqb_eq in E. inversion H. subst. left. reflexivity.
  - right. apply IH. exact H.
Qed.

Lemma sum_p_remove : forall id l p, find_id id l = Some p -> sum_p (remove_id id l) = sum_p l - p.
Proof.
  induction l as [|[i q] l IH]; intros p H; [discriminate|]. cbn [find_id] in H. cbn [remove_id sum_p].
  destruct (Nat.eqb i id) eqn:E.
  - inversion H. lia.
  - cbn [sum_p]. rewrite (IH p H). lia.
Qed.

Lemma in_remove_id : forall id l x, In x (remove_id id l) -> In x l.
Proof.
  induction l as [|[i q] l IH]; intros x H; [exact H|]. cbn [remove_id] in H.
  destruct (Nat.eqb i id); [right; exact H|]. destruct H as [H|H]; [left; exact H|right; apply IH; exact H].
Qed.

Lemma sum_p_nonneg : forall l, all_p (fun p => 0 <= p) l -> 0 <= sum_p l.
Proof.
  induction l as [|[i q] l IH]; intros H; cbn [sum_p]; [lia|].
  assert (0 <= q) by (apply (H i q); left; reflexivity).
  assert (0 <= sum_p l) by (apply IH; intros j p Hin; apply (H j p); right; exact Hin). lia.
Qed.

Lemma sum_p_ge : forall l i p, all_p (fun p => 0 <= p) l -> In (i, p) l -> p <= sum_p l.
Proof.
  induction l as [|[j q] l IH]; intros i p H Hin; [destruct Hin|]. cbn [sum_p].
  assert (Hq : 0 <= q) by (apply (H j q); left; reflexivity).
  assert (Hl : all_p (fun p => 0 <= p) l) by (intros k r Hk; apply (H k r); right; exact Hk).
  destruct Hin as [Hin|Hin].
  - inversion Hin. subst. pose proof (sum_p_nonneg l Hl). lia.
  - pose proof (IH i p Hl Hin). lia.
Qed.

(* ------------------------------------------------------------------------- *)
(* The basic invariant (limiter_inv) *)

Definition avail (c : cfg) (s : sys) : Z :=
  Z.min (burst c) (pm (st s) + Z.max 0 (tk c (now s) - rt (st s))).

Definition holder_ok (c : cfg) (s : sys) : Prop :=
  match queue s, ph s with
  | (_, p) :: _, PSleep need =>
      p <= burst c - rs (st s) /\
      p <= Z.min (burst c) (pm (st s) + Z.max 0 (need - rt (st s))) - rs (st s)
  | _, _ => True
  end.

Record inv (c : cfg) (s : sys) : Prop := {
  inv_rs : 0 <= rs (st s) <= pm (st s);
  inv_pm : pm (st s) <= burst c;
  inv_rt : 0 <= rt (st s) <= tk c (now s);
  inv_now : start c <= now s /\ now s - start c < nanos_max;
  inv_held : rs (st s) = sum_p (held s) /\ all_p (fun p => 0 <= p) (held s);
  inv_queue : all_p (fun p => 0 <= p <= burst c) (queue s);
  inv_holder : holder_ok c s;
  inv_ph : queue s = [] -> ph s = PWait
}.

Lemma inv_init : forall c, cfg_ok c -> inv c (init c).
Proof.
  intros c [Hb Hr]. constructor; cbn.
  - lia.
  - lia.
  - rewrite tk_start by exact Hr. lia.
  - unfold nanos_max. lia.
  - split; [reflexivity|]. intros i p [].
  - intros i p [].
  - exact I.
  - reflexivity.
Qed.

Lemma all_p_app : forall P l1 l2, all_p P l1 -> all_p P l2 -> all_p P (l1 ++ l2).
Proof. intros P l1 l2 H1 H2 i p Hin. apply in_app_or in Hin. destruct Hin; [eapply H1|eapply H2]; eassumption. Qed.

Lemma all_p_tail : forall P x l, all_p P (x :: l) -> all_p P l.
Proof. intros P x l H i p Hin. apply (H i p). right. exact Hin. Qed.

Lemma all_p_remove : forall P id l, all_p P l -> all_p P (remove_id id l).
Proof. intros P id l H i p Hin. apply (H i p). eapply in_remove_id. exact Hin. Qed.

Ltac destr_outcome H :=
  match type of H with
  | context [usize_sub ?a ?b] => unfold usize_sub in H; destruct (a <? b) eqn:?E
  | context [usize_add ?a ?b] => unfold usize_add in H; destruct (a + b >? usize_max) eqn:?E
  end.

(* One step from a state satisfying the invariant never panics. *)
Lemma step_no_panic : forall c s l p, cfg_ok c -> inv c s -> step c s l <> Panic p.
Proof.
  intros c s l p [Hb Hr] I Hs. destruct I as [Irs Ipm Irt Inow [Iheld Ihp] Iq Ih Iph].
  destruct l as [d|q| | |id|id]; cbn [step] in Hs.
  - destruct ((d <? 0) || (nanos_max <=? now s + d - start c)); discriminate.
  - destruct ((q <? 0) || (q >? usize_max)); [discriminate|].
    destruct (burst c <? q); [discriminate|]. destruct (refresh c <=? 0); discriminate.
  - destruct (queue s) as [|[i q] qs] eqn:Eq; [discriminate|]. destruct (ph s); [|discriminate].
    unfold usize_sub in Hs. destruct (burst c <? rs (st s)) eqn:E1; [apply Z.ltb_lt in E1; lia|].
    cbn [bind] in Hs. destruct (burst c - rs (st s) <? q) eqn:E2; [discriminate|].
    apply Z.ltb_ge in E2. unfold usize_add in Hs.
    destruct (rs (st s) + q >? usize_max) eqn:E3; [apply Z.gtb_lt in E3; lia|]. discriminate.
  - destruct (queue s) as [|[i q] qs] eqn:Eq; [discriminate|]. destruct (ph s) as [|need] eqn:Eph; [discriminate|].
    destruct (deadline_reached c need (now s)); [|discriminate].
    unfold holder_ok in Ih. rewrite Eq, Eph in Ih. destruct Ih as [Ih1 Ih2].
    rewrite (advance_spec c (st s) need) in Hs by lia.
    unfold usize_add in Hs.
    destruct (need <? rt (st s)) eqn:E1; cbn [rs pm rt] in Hs.
    + destruct (rs (st s) + q >? usize_max) eqn:E3; [apply Z.gtb_lt in E3; lia|discriminate].
    + destruct (rs (st s) + q >? usize_max) eqn:E3; [apply Z.gtb_lt in E3; lia|discriminate].
  - destruct (queue s) as [|[h hp] qs]; [destruct (mem_nat id (blocked s)); discriminate|].
    destruct (Nat.eqb h id); [discriminate|]. destruct (find_id id qs); [discriminate|].
    destruct (mem_nat id (blocked s)); discriminate.
  - destruct (find_id id (held s)) as [q|] eqn:Ef; [|discriminate].
    destruct (q =? 0); [discriminate|].
    pose proof (sum_p_ge _ _ _ Ihp (find_id_in _ _ _ Ef)) as Hq.
    assert (Hq0 : 0 <= q) by (apply (Ihp id q), find_id_in, Ef).
    rewrite (advance_spec c (st s) (ticks c (now s))) in Hs by lia.
    rewrite ticks_tk in Hs by lia.
    destruct (tk c (now s) <? rt (st s)) eqn:E1; cbn [rs pm rt] in Hs.
    + unfold usize_sub in Hs. destruct (rs (st s) <? q) eqn:E2; [apply Z.ltb_lt in E2; lia|].
      cbn [bind] in Hs. destruct (pm (st s) <? q) eqn:E3; [apply Z.ltb_lt in E3; lia|]. discriminate.
    + apply Z.ltb_ge in E1. unfold usize_sub in Hs.
      destruct (rs (st s) <? q) eqn:E2; [apply Z.ltb_lt in E2; lia|]. cbn [bind] in Hs.
      destruct (Z.min (pm (st s) + (tk c (now s) - rt (st s))) (burst c) <? q) eqn:E3;
        [apply Z.ltb_lt in E3; lia|]. discriminate.
Qed.

Lemma holder_ok_same : forall c s s', st s' = st s -> queue s' = queue s -> ph s' = ph s ->
  holder_ok c s -> holder_ok c s'.
Proof. intros c s s' H1 H2 H3 H. unfold holder_ok in *. rewrite H1, H2, H3. exact H. Qed.

(* The invariant is preserved by every enabled step. *)
Lemma step_inv : forall c s l s', cfg_ok c -> inv c s -> step c s l = Ok s' -> inv c s'.
Proof.
  intros c s l s' [Hb Hr] I Hs. destruct I as [Irs Ipm Irt Inow [Iheld Ihp] Iq Ih Iph].
  destruct l as [d|q| | |id|id]; cbn [step] in Hs.
  - (* LTick *)
    destruct ((d <? 0) || (nanos_max <=? now s + d - start c)) eqn:E; [discriminate|].
    apply orb_false_iff in E. destruct E as [E1 E2]. apply Z.ltb_ge in E1. apply Z.leb_gt in E2.
    inversion Hs; subst s'; clear Hs.
    constructor; cbn;
      [exact Irs|exact Ipm| |lia|split; assumption|exact Iq|exact Ih|exact Iph].
    pose proof (tk_mono c (now s) (now s + d) Hr ltac:(lia)). lia.
  - (* LBegin *)
    destruct ((q <? 0) || (q >? usize_max)) eqn:E; [discriminate|].
    apply orb_false_iff in E. destruct E as [E1 E2]. apply Z.ltb_ge in E1.
    destruct (burst c <? q) eqn:E3.
    { inversion Hs; subst s'; clear Hs.
      constructor; cbn; [exact Irs|exact Ipm|exact Irt|exact Inow|split; assumption|exact Iq|exact Ih|exact Iph]. }
    apply Z.ltb_ge in E3.
    destruct (refresh c <=? 0) eqn:E4; [apply Z.leb_le in E4; lia|].
    inversion Hs; subst s'; clear Hs.
    constructor; cbn; [exact Irs|exact Ipm|exact Irt|exact Inow|split; assumption| | | ].
    + apply all_p_app; [exact Iq|]. intros i p [Hin|[]]. inversion Hin. subst. lia.
    + unfold holder_ok in *. cbn. destruct (queue s) as [|[h hp] qs] eqn:Eq; cbn.
      * rewrite (Iph eq_refl). exact I.
      * exact Ih.
    + intros H. destruct (queue s); [apply Iph; reflexivity|discriminate].
  - (* LWait *)
    unfold holder_ok in Ih.
    destruct (queue s) as [|[i q] qs] eqn:Eq; [discriminate|]. destruct (ph s) eqn:Eph; [|discriminate].
    unfold usize_sub in Hs. destruct (burst c <? rs (st s)) eqn:E1; [discriminate|]. cbn [bind] in Hs.
    destruct (burst c - rs (st s) <? q) eqn:E2; [discriminate|]. apply Z.ltb_ge in E2.
    unfold usize_add in Hs. destruct (rs (st s) + q >? usize_max) eqn:E3; [discriminate|]. cbn [bind] in Hs.
    inversion Hs; subst s'; clear Hs.
    constructor; cbn; [exact Irs|exact Ipm|exact Irt|exact Inow|split; assumption| | | ].
    + exact Iq.
    + unfold holder_ok. cbn. split; [lia|].
      unfold usize_sat_sub. destruct (rs (st s) + q <? pm (st s)) eqn:E4.
      * apply Z.ltb_lt in E4. lia.
      * apply Z.ltb_ge in E4. lia.
    + discriminate.
  - (* LGrant *)
    unfold holder_ok in Ih.
    destruct (queue s) as [|[i q] qs] eqn:Eq; [discriminate|]. destruct (ph s) as [|need] eqn:Eph; [discriminate|].
    destruct (deadline_reached c need (now s)) eqn:Ed; [|discriminate].
    apply deadline_reached_spec in Ed; [|lia|lia].
    destruct Ih as [Ih1 Ih2].
    assert (Hq0 : 0 <= q) by (apply (Iq i q); left; reflexivity).
    rewrite (advance_spec c (st s) need) in Hs by lia.
    unfold usize_add in Hs.
    destruct (need <? rt (st s)) eqn:E1; cbn [rs pm rt] in Hs.
    + apply Z.ltb_lt in E1.
      destruct (rs (st s) + q >? usize_max) eqn:E3; [discriminate|]. cbn [bind] in Hs.
      inversion Hs; subst s'; clear Hs.
      constructor; cbn; [lia|lia|lia|lia| | | |reflexivity].
      * split; [lia|]. intros j p [Hin|Hin]; [inversion Hin; subst; lia|apply (Ihp j p Hin)].
      * eapply all_p_tail. exact Iq.
      * unfold holder_ok. cbn. destruct qs as [|[? ?] ?]; exact I.
    + apply Z.ltb_ge in E1.
      destruct (rs (st s) + q >? usize_max) eqn:E3; [discriminate|]. cbn [bind] in Hs.
      assert (Hnt : need <= tk c (now s)).
      { destruct Ed as [Ed|Ed]; [lia|]. apply le_tk_of_mul; assumption. }
      inversion Hs; subst s'; clear Hs.
      constructor; cbn; [lia|lia|lia|lia| | | |reflexivity].
      * split; [lia|]. intros j p [Hin|Hin]; [inversion Hin; subst; lia|apply (Ihp j p Hin)].
      * eapply all_p_tail. exact Iq.
      * unfold holder_ok. cbn. destruct qs as [|[? ?] ?]; exact I.
  - (* LCancel *)
    unfold holder_ok in Ih.
    destruct (queue s) as [|[h hp] qs] eqn:Eq.
    { destruct (mem_nat id (blocked s)); [|discriminate]. inversion Hs; subst s'; clear Hs.
      constructor; cbn; [exact Irs|exact Ipm|exact Irt|exact Inow|split; assumption| | | ].
      - exact Iq.
      - unfold holder_ok. cbn. exact Ih.
      - intros _. apply Iph. reflexivity. }
    destruct (Nat.eqb h id).
    { inversion Hs; subst s'; clear Hs.
      constructor; cbn; [exact Irs|exact Ipm|exact Irt|exact Inow|split; assumption| | |reflexivity].
      - eapply all_p_tail. exact Iq.
      - unfold holder_ok. cbn. destruct qs as [|[? ?] ?]; exact I. }
    destruct (find_id id qs) eqn:Ef.
    { inversion Hs; subst s'; clear Hs.
      constructor; cbn; [exact Irs|exact Ipm|exact Irt|exact Inow|split; assumption| | |discriminate].
      - intros j p [Hin|Hin]; [apply (Iq j p); left; exact Hin|].
        apply (Iq j p). right. eapply in_remove_id. exact Hin.
      - unfold holder_ok. cbn. exact Ih. }
    destruct (mem_nat id (blocked s)); [|discriminate]. inversion Hs; subst s'; clear Hs.
    constructor; cbn; [exact Irs|exact Ipm|exact Irt|exact Inow|split; assumption| | | ].
    + exact Iq.
    + unfold holder_ok. cbn. exact Ih.
    + discriminate.
  - (* LDrop *)
    destruct (find_id id (held s)) as [q|] eqn:Ef; [|discriminate].
    pose proof (sum_p_ge _ _ _ Ihp (find_id_in _ _ _ Ef)) as Hq.
    assert (Hq0 : 0 <= q) by (apply (Ihp id q), find_id_in, Ef).
    destruct (q =? 0) eqn:E0.
    { apply Z.eqb_eq in E0. inversion Hs; subst s'; clear Hs.
      constructor; cbn; [exact Irs|exact Ipm|exact Irt|exact Inow| |exact Iq|exact Ih|exact Iph].
      split; [rewrite (sum_p_remove _ _ _ Ef); lia|apply all_p_remove; exact Ihp]. }
    apply Z.eqb_neq in E0.
    rewrite (advance_spec c (st s) (ticks c (now s))) in Hs by lia.
    rewrite ticks_tk in Hs by lia.
    destruct (tk c (now s) <? rt (st s)) eqn:E1; [apply Z.ltb_lt in E1; lia|].
    apply Z.ltb_ge in E1. cbn [rs pm rt] in Hs. unfold usize_sub in Hs.
    destruct (rs (st s) <? q) eqn:E2; [discriminate|]. cbn [bind] in Hs.
    destruct (Z.min (pm (st s) + (tk c (now s) - rt (st s))) (burst c) <? q) eqn:E3; [discriminate|].
    cbn [bind] in Hs. inversion Hs; subst s'; clear Hs.
    constructor; cbn; [lia|lia|lia|lia| |exact Iq| |exact Iph].
    + split; [rewrite (sum_p_remove _ _ _ Ef); lia|apply all_p_remove; exact Ihp].
    + unfold holder_ok in *. cbn. destruct (queue s) as [|[h hp] qs]; [exact I|].
      destruct (ph s) as [|need]; [exact I|]. lia.
Qed.

(* ------------------------------------------------------------------------- *)
(* runs *)

Lemma exec_app : forall c ls1 ls2 s s1, exec c s ls1 = Ok s1 -> exec c s (ls1 ++ ls2) = exec c s1 ls2.
Proof.
  induction ls1 as [|l ls1 IH]; intros ls2 s s1 H; cbn [exec app] in *.
  - inversion H. reflexivity.
  - destruct (step c s l) as [s'|e|p]; [apply IH; exact H|apply IH; exact H|discriminate].
Qed.

Lemma exec_not_err : forall c ls s e, exec c s ls <> Err e.
Proof.
  induction ls as [|l ls IH]; intros s e H; cbn [exec] in H; [discriminate|].
  destruct (step c s l); [eapply IH; exact H|eapply IH; exact H|discriminate].
Qed.

Lemma exec_inv : forall c ls s s', cfg_ok c -> inv c s -> exec c s ls = Ok s' -> inv c s'.
Proof.
  induction ls as [|l ls IH]; intros s s' Hc I H; cbn [exec] in H.
  - inversion H. subst. exact I.
  - destruct (step c s l) as [s1|e|p] eqn:Es.
    + eapply IH; [exact Hc| |exact H]. eapply step_inv; eassumption.
    + eapply IH; eassumption.
    + discriminate.
Qed.

Lemma exec_no_panic : forall c ls s p, cfg_ok c -> inv c s -> exec c s ls <> Panic p.
Proof.
  induction ls as [|l ls IH]; intros s p Hc I H; cbn [exec] in H; [discriminate|].
  destruct (step c s l) as [s1|e|q] eqn:Es.
  - eapply IH; [exact Hc| |exact H]. eapply step_inv; eassumption.
  - eapply IH; eassumption.
  - eapply step_no_panic; eassumption.
Qed.

(* ------------------------------------------------------------------------- *)
(* What a step does to the quantities the bounds are about. *)

Definition eff_none (c : cfg) (s s' : sys) : Prop :=
  st s' = st s /\ now s <= now s' /\ grants s' = grants s /\ drops s' = drops s.
Definition eff_grant (c : cfg) (s s' : sys) : Prop :=
  now s' = now s /\ drops s' = drops s /\
  exists id p q', queue s = (id, p) :: q' /\ queue s' = q' /\
    grants s' = (id, now s, p) :: grants s /\ 0 <= p /\
    rs (st s') = rs (st s) + p /\ avail c s' = avail c s /\ rt (st s) <= rt (st s').
Definition eff_drop (c : cfg) (s s' : sys) : Prop :=
  now s' = now s /\ grants s' = grants s /\
  exists id p, drops s' = (id, now s, p) :: drops s /\ 0 < p /\
    rs (st s') = rs (st s) - p /\ avail c s' = avail c s - p /\ rt (st s) <= rt (st s').

Lemma step_effect : forall c s l s', cfg_ok c -> inv c s -> step c s l = Ok s' ->
  eff_none c s s' \/ (l = LGrant /\ eff_grant c s s') \/ (exists id, l = LDrop id /\ eff_drop c s s').
Proof.
  intros c s l s' [Hb Hr] I Hs. destruct I as [Irs Ipm Irt Inow [Iheld Ihp] Iq Ih Iph].
  destruct l as [d|q| | |id|id]; cbn [step] in Hs.
  - destruct ((d <? 0) || (nanos_max <=? now s + d - start c)) eqn:E; [discriminate|].
    apply orb_false_iff in E. destruct E as [E1 E2]. apply Z.ltb_ge in E1.
    inversion Hs; subst s'; clear Hs.
    left. unfold eff_none; cbn. repeat split; try reflexivity. lia.
  - destruct ((q <? 0) || (q >? usize_max)) eqn:E; [discriminate|].
    destruct (burst c <? q) eqn:E3.
    { inversion Hs; subst s'; clear Hs. left. unfold eff_none; cbn. repeat split; try reflexivity; lia. }
    destruct (refresh c <=? 0) eqn:E4; [apply Z.leb_le in E4; lia|].
    inversion Hs; subst s'; clear Hs. left. unfold eff_none; cbn. repeat split; try reflexivity; lia.
  - destruct (queue s) as [|[i q] qs] eqn:Eq; [discriminate|]. destruct (ph s) eqn:Eph; [|discriminate].
    unfold usize_sub in Hs. destruct (burst c <? rs (st s)) eqn:E1; [discriminate|]. cbn [bind] in Hs.
    destruct (burst c - rs (st s) <? q) eqn:E2; [discriminate|].
    unfold usize_add in Hs. destruct (rs (st s) + q >? usize_max) eqn:E3; [discriminate|]. cbn [bind] in Hs.
    inversion Hs; subst s'; clear Hs. left. unfold eff_none; cbn. repeat split; try reflexivity; lia.
  - unfold holder_ok in Ih.
    destruct (queue s) as [|[i q] qs] eqn:Eq; [discriminate|]. destruct (ph s) as [|need] eqn:Eph; [discriminate|].
    destruct (deadline_reached c need (now s)) eqn:Ed; [|discriminate].
    apply deadline_reached_spec in Ed; [|lia|lia].
    destruct Ih as [Ih1 Ih2].
    assert (Hq0 : 0 <= q) by (apply (Iq i q); left; reflexivity).
    rewrite (advance_spec c (st s) need) in Hs by lia.
    unfold usize_add in Hs.
    destruct (need <? rt (st s)) eqn:E1; cbn [rs pm rt] in Hs.
    + destruct (rs (st s) + q >? usize_max) eqn:E3; [discriminate|]. cbn [bind] in Hs.
      inversion Hs; subst s'; clear Hs. right. left. split; [reflexivity|].
      unfold eff_grant; cbn. split; [reflexivity|]. split; [reflexivity|].
      exists i, q, qs. repeat split; try reflexivity; try exact Eq; cbn; lia.
    + apply Z.ltb_ge in E1.
      destruct (rs (st s) + q >? usize_max) eqn:E3; [discriminate|]. cbn [bind] in Hs.
      assert (Hnt : need <= tk c (now s)).
      { destruct Ed as [Ed|Ed]; [lia|]. apply le_tk_of_mul; assumption. }
      inversion Hs; subst s'; clear Hs. right. left. split; [reflexivity|].
      unfold eff_grant; cbn. split; [reflexivity|]. split; [reflexivity|].
      exists i, q, qs. repeat split; try reflexivity; try exact Eq; cbn; try lia.
      unfold avail; cbn. lia.
  - destruct (queue s) as [|[h hp] qs] eqn:Eq.
    { destruct (mem_nat id (blocked s)); [|discriminate]. inversion Hs; subst s'; clear Hs.
      left. unfold eff_none; cbn. repeat split; try reflexivity; lia. }
    destruct (Nat.eqb h id).
    { inversion Hs; subst s'; clear Hs. left. unfold eff_none; cbn. repeat split; try reflexivity; lia. }
    destruct (find_id id qs) eqn:Ef.
    { inversion Hs; subst s'; clear Hs. left. unfold eff_none; cbn. repeat split; try reflexivity; lia. }
    destruct (mem_nat id (blocked s)); [|discriminate]. inversion Hs; subst s'; clear Hs.
    left. unfold eff_none; cbn. repeat split; try reflexivity; lia.
  - destruct (find_id id (held s)) as [q|] eqn:Ef; [|discriminate].
    pose proof (sum_p_ge _ _ _ Ihp (find_id_in _ _ _ Ef)) as Hq.
    assert (Hq0 : 0 <= q) by (apply (Ihp id q), find_id_in, Ef).
    destruct (q =? 0) eqn:E0.
    { inversion Hs; subst s'; clear Hs. left. unfold eff_none; cbn. repeat split; try reflexivity; lia. }
    apply Z.eqb_neq in E0.
    rewrite (advance_spec c (st s) (ticks c (now s))) in Hs by lia.
    rewrite ticks_tk in Hs by lia.
    destruct (tk c (now s) <? rt (st s)) eqn:E1; [apply Z.ltb_lt in E1; lia|].
    apply Z.ltb_ge in E1. cbn [rs pm rt] in Hs. unfold usize_sub in Hs.
    destruct (rs (st s) <? q) eqn:E2; [discriminate|]. cbn [bind] in Hs.
    destruct (Z.min (pm (st s) + (tk c (now s) - rt (st s))) (burst c) <? q) eqn:E3; [discriminate|].
    apply Z.ltb_ge in E3.
    cbn [bind] in Hs. inversion Hs; subst s'; clear Hs.
    right. right. exists id. split; [reflexivity|]. unfold eff_drop; cbn.
    split; [reflexivity|]. split; [reflexivity|]. exists id, q.
    repeat split; try reflexivity; cbn; try lia. unfold avail; cbn. lia.
Qed.

(* ------------------------------------------------------------------------- *)
(* Window bound, generically for a time-stamped log and a potential. *)

Definition tlog := list (nat * Z * Z).

Fixpoint sum_from (g : tlog) (t1 : Z) : Z :=
  match g with
  | [] => 0
  | (_, t, p) :: g' => (if t1 <=? t then p else 0) + sum_from g' t1
  end.

(* permits of the entries with time stamp in the closed window [t1, t2] *)
Fixpoint sum_window (g : tlog) (t1 t2 : Z) : Z :=
  match g with
  | [] => 0
  | (_, t, p) :: g' => (if (t1 <=? t) && (t <=? t2) then p else 0) + sum_window g' t1 t2
  end.

Definition times_le (g : tlog) (t : Z) : Prop := forall i u p, In (i, u, p) g -> u <= t /\ 0 <= p.

Lemma sum_from_future : forall g t t1, times_le g t -> t < t1 -> sum_from g t1 = 0.
Proof.
  induction g as [|[[i u] p] g IH]; intros t t1 H Ht; cbn [sum_from]; [reflexivity|].
  destruct (H i u p (or_introl eq_refl)) as [Hu _].
  destruct (t1 <=? u) eqn:E; [apply Z.leb_le in E; lia|].
  rewrite (IH t t1); [reflexivity| |exact Ht]. intros j v q Hin. apply (H j v q). right. exact Hin.
Qed.

Lemma sum_window_from : forall g t t1 t2, times_le g t -> t <= t2 -> sum_window g t1 t2 = sum_from g t1.
Proof.
  induction g as [|[[i u] p] g IH]; intros t t1 t2 H Ht; cbn [sum_from sum_window]; [reflexivity|].
  destruct (H i u p (or_introl eq_refl)) as [Hu _].
  rewrite (IH t t1 t2); [| |exact Ht].
  - destruct (t1 <=? u); cbn [andb]; [|reflexivity].
    destruct (u <=? t2) eqn:E; [reflexivity|apply Z.leb_gt in E; lia].
  - intros j v q Hin. apply (H j v q). right. exact Hin.
Qed.

Section Window.
  Variable c : cfg.
  Hypothesis Hc : cfg_ok c.
  Variable log : sys -> tlog.
  Variable pot : sys -> Z.
  Hypothesis pot_range : forall s, inv c s -> 0 <= pot s <= burst c.
  Hypothesis log_init : log (init c) = [].
  Hypothesis step_log : forall s l s', inv c s -> step c s l = Ok s' ->
    (log s' = log s /\ now s <= now s' /\ pot s' <= pot s + (tk c (now s') - tk c (now s))) \/
    (exists id p, log s' = (id, now s, p) :: log s /\ now s' = now s /\ 0 <= p /\ pot s' + p <= pot s).

  Definition win_inv (s : sys) : Prop :=
    times_le (log s) (now s) /\
    (forall t1, start c <= t1 <= now s ->
       sum_from (log s) t1 + pot s <= burst c + tk c (now s) - tk c t1) /\
    (forall t1 t2, start c <= t1 <= t2 ->
       sum_window (log s) t1 t2 <= burst c + tk c t2 - tk c t1).

  Lemma win_init : win_inv (init c).
  Proof.
    destruct Hc as [Hb Hr]. unfold win_inv. rewrite log_init. split; [intros i u p []|]. split.
    - intros t1 Ht. cbn [sum_from]. pose proof (pot_range _ (inv_init c Hc)) as Hp. cbn [now init] in *.
      assert (t1 = start c) by lia. subst t1. lia.
    - intros t1 t2 Ht. cbn [sum_window]. pose proof (tk_mono c t1 t2 Hr ltac:(lia)). lia.
  Qed.

  Lemma win_step : forall s l s', inv c s -> win_inv s -> step c s l = Ok s' -> win_inv s'.
  Proof.
    intros s l s' I [Wt [Wf Ww]] Hs. destruct Hc as [Hb Hr].
    pose proof (step_inv c s l s' Hc I Hs) as I'.
    pose proof (pot_range _ I') as Hp'. pose proof (pot_range _ I) as Hp.
    destruct (step_log s l s' I Hs) as [(Hl & Hn & Hpot)|(id & p & Hl & Hn & Hp0 & Hpot)].
    - unfold win_inv. rewrite Hl. split; [|split].
      + intros i u q Hin. destruct (Wt i u q Hin). split; lia.
      + intros t1 Ht. destruct (Z_le_gt_dec t1 (now s)) as [Hle|Hgt].
        * pose proof (Wf t1 ltac:(lia)). lia.
        * rewrite (sum_from_future (log s) (now s) t1 Wt ltac:(lia)).
          pose proof (tk_mono c t1 (now s') Hr ltac:(lia)). lia.
      + exact Ww.
    - assert (Wt' : times_le (log s') (now s')).
      { rewrite Hl, Hn. intros i u q [Hin|Hin]; [inversion Hin; subst; lia|]. apply (Wt i u q Hin). }
      assert (Wf' : forall t1, start c <= t1 <= now s' ->
                sum_from (log s') t1 + pot s' <= burst c + tk c (now s') - tk c t1).
      { intros t1 Ht. rewrite Hl, Hn in *. cbn [sum_from].
        destruct (t1 <=? now s) eqn:E; [|apply Z.leb_gt in E; lia].
        pose proof (Wf t1 Ht). lia. }
      split; [exact Wt'|]. split; [exact Wf'|].
      intros t1 t2 Ht. destruct ((t1 <=? now s) && (now s <=? t2)) eqn:E.
      + apply andb_true_iff in E. destruct E as [E1 E2]. apply Z.leb_le in E1. apply Z.leb_le in E2.
        rewrite (sum_window_from (log s') (now s') t1 t2 Wt' ltac:(lia)).
        pose proof (Wf' t1 ltac:(lia)). pose proof (tk_mono c (now s') t2 Hr ltac:(lia)). lia.
      + rewrite Hl. cbn [sum_window]. rewrite E. pose proof (Ww t1 t2 Ht). lia.
  Qed.

  Lemma win_exec : forall ls s s', inv c s -> win_inv s -> exec c s ls = Ok s' -> win_inv s'.
  Proof.
    induction ls as [|l ls IH]; intros s s' I W H; cbn [exec] in H.
    - inversion H. subst. exact W.
    - destruct (step c s l) as [s1|e|p] eqn:Es.
      + eapply IH; [| |exact H]; [eapply step_inv; eassumption|eapply win_step; eassumption].
      + eapply IH; eassumption.
      + discriminate.
  Qed.

  Lemma window_generic : forall ls s t1 t2, exec c (init c) ls = Ok s -> start c <= t1 <= t2 ->
    sum_window (log s) t1 t2 <= burst c + (t2 - t1) / refresh c + 1.
  Proof.
    intros ls s t1 t2 H Ht. destruct Hc as [Hb Hr].
    destruct (win_exec ls (init c) s (inv_init c Hc) win_init H) as [_ [_ Ww]].
    pose proof (Ww t1 t2 Ht). pose proof (tk_window c t1 t2 Hr ltac:(lia)). lia.
  Qed.

  (* windows that begin before Limiter::new: nothing is logged before [start] *)
  Definition times_ge (s : sys) : Prop := forall i u p, In (i, u, p) (log s) -> start c <= u.

  Lemma tg_exec : forall ls s s', inv c s -> times_ge s -> exec c s ls = Ok s' -> times_ge s'.
  Proof.
    induction ls as [|l ls IH]; intros s s' I T H; cbn [exec] in H.
    - inversion H. subst. exact T.
    - destruct (step c s l) as [s1|e|p] eqn:Es; [|eapply IH; eassumption|discriminate].
      eapply IH; [eapply step_inv; eassumption| |exact H].
      destruct (step_log s l s1 I Es) as [(Hl & _)|(id & q & Hl & _)]; unfold times_ge; rewrite Hl; [exact T|].
      intros i u r [Hin|Hin]; [|apply (T i u r Hin)]. inversion Hin. subst. destruct I. lia.
  Qed.

  Lemma sum_window_clip : forall g t0 t1 t2, (forall i u p, In (i, u, p) g -> t0 <= u) -> t1 <= t0 ->
    sum_window g t1 t2 = sum_window g t0 t2.
  Proof.
    induction g as [|[[i u] p] g IH]; intros t0 t1 t2 H Ht; cbn [sum_window]; [reflexivity|].
    pose proof (H i u p (or_introl eq_refl)) as Hu.
    rewrite (IH t0 t1 t2); [|intros j v q Hin; apply (H j v q); right; exact Hin|exact Ht].
    replace (t1 <=? u) with true by (symmetry; apply Z.leb_le; lia).
    replace (t0 <=? u) with true by (symmetry; apply Z.leb_le; lia). reflexivity.
  Qed.

  Lemma sum_window_empty : forall g t1 t2, (forall i u p, In (i, u, p) g -> t2 < u) -> sum_window g t1 t2 = 0.
  Proof.
    induction g as [|[[i u] p] g IH]; intros t1 t2 H; cbn [sum_window]; [reflexivity|].
    pose proof (H i u p (or_introl eq_refl)) as Hu.
    rewrite IH; [|intros j v q Hin; apply (H j v q); right; exact Hin].
    replace (u <=? t2) with false by (symmetry; apply Z.leb_gt; lia). rewrite andb_false_r. reflexivity.
  Qed.

  Lemma window_generic_all : forall ls s t1 t2, exec c (init c) ls = Ok s -> t1 <= t2 ->
    sum_window (log s) t1 t2 <= burst c + (t2 - t1) / refresh c + 1.
  Proof.
    intros ls s t1 t2 H Ht. destruct Hc as [Hb Hr].
    destruct (Z_le_gt_dec (start c) t1) as [Hs|Hs]; [apply (window_generic ls); [exact H|lia]|].
    assert (T : times_ge s).
    { apply (tg_exec ls (init c) s (inv_init c Hc)); [|exact H]. unfold times_ge. rewrite log_init. intros i u p []. }
    destruct (Z_le_gt_dec (start c) t2) as [H2|H2].
    - rewrite (sum_window_clip (log s) (start c) t1 t2 T ltac:(lia)).
      pose proof (window_generic ls s (start c) t2 H ltac:(lia)).
      pose proof (Z.div_le_mono (t2 - start c) (t2 - t1) (refresh c) Hr ltac:(lia)). lia.
    - rewrite sum_window_empty; [|intros i u p Hin; pose proof (T i u p Hin); lia].
      pose proof (Z.div_pos (t2 - t1) (refresh c) ltac:(lia) Hr). lia.
  Qed.
End Window.

Lemma avail_range : forall c s, cfg_ok c -> inv c s -> rs (st s) <= avail c s <= burst c.
Proof.
  intros c s [Hb Hr] I. destruct I as [Irs Ipm Irt Inow Iheld Iq Ih Iph]. unfold avail. lia.
Qed.

(* avail rises by at most the number of elapsed ticks *)
Lemma avail_tick : forall c s s', 0 < refresh c -> st s' = st s -> now s <= now s' ->
  avail c s' <= avail c s + (tk c (now s') - tk c (now s)).
Proof.
  intros c s s' Hr Hst Hn. unfold avail. rewrite Hst. pose proof (tk_mono c _ _ Hr Hn). lia.
Qed.

(* permits granted in any window *)
Theorem window_bound : forall c ls s t1 t2, cfg_ok c -> exec c (init c) ls = Ok s ->
  t1 <= t2 ->
  sum_window (grants s) t1 t2 <= burst c + (t2 - t1) / refresh c + 1.
Proof.
  intros c ls s t1 t2 Hc H Ht.
  apply (window_generic_all c Hc grants (fun s => avail c s - rs (st s))) with (ls := ls); try assumption.
  - intros x I. pose proof (avail_range c x Hc I). destruct I. lia.
  - reflexivity.
  - intros x l x' I Hs. destruct (step_effect c x l x' Hc I Hs) as [E|[[_ E]|[id [_ E]]]].
    + destruct E as (E1 & E2 & E3 & E4). left. split; [exact E3|]. split; [exact E2|].
      pose proof (avail_tick c x x' (proj2 Hc) E1 E2). rewrite E1. lia.
    + destruct E as (E1 & E2 & id & p & q' & E3 & E4 & E5 & E6 & E7 & E8 & E9). right.
      exists id, p. split; [exact E5|]. split; [exact E1|]. split; [exact E6|]. lia.
    + destruct E as (E1 & E2 & i & p & E3 & E4 & E5 & E6 & E7). left. split; [exact E2|]. split; [lia|].
      rewrite E1. lia.
Qed.

(* permits consumed (dropped) in any window *)
Theorem consume_window_bound : forall c ls s t1 t2, cfg_ok c -> exec c (init c) ls = Ok s ->
  t1 <= t2 ->
  sum_window (drops s) t1 t2 <= burst c + (t2 - t1) / refresh c + 1.
Proof.
  intros c ls s t1 t2 Hc H Ht.
  apply (window_generic_all c Hc drops (fun s => avail c s)) with (ls := ls); try assumption.
  - intros x I. pose proof (avail_range c x Hc I). destruct I. lia.
  - reflexivity.
  - intros x l x' I Hs. destruct (step_effect c x l x' Hc I Hs) as [E|[[_ E]|[id [_ E]]]].
    + destruct E as (E1 & E2 & E3 & E4). left. split; [exact E4|]. split; [exact E2|].
      apply (avail_tick c x x' (proj2 Hc) E1 E2).
    + destruct E as (E1 & E2 & id & p & q' & E3 & E4 & E5 & E6 & E7 & E8 & E9). left.
      split; [exact E2|]. split; [lia|]. rewrite E1. lia.
    + destruct E as (E1 & E2 & i & p & E3 & E4 & E5 & E6 & E7). right.
      exists i, p. split; [exact E3|]. split; [exact E1|]. split; [lia|]. lia.
Qed.

(* ------------------------------------------------------------------------- *)
(* limiter_inv as a statement about runs *)

Lemma step_rt_mono : forall c s l s', cfg_ok c -> inv c s -> step c s l = Ok s' -> rt (st s) <= rt (st s').
Proof.
  intros c s l s' Hc I Hs. destruct (step_effect c s l s' Hc I Hs) as [E|[[_ E]|[id [_ E]]]].
  - destruct E as (E1 & _). rewrite E1. lia.
  - destruct E as (_ & _ & id & p & q' & _ & _ & _ & _ & _ & _ & E9). exact E9.
  - destruct E as (_ & _ & i & p & _ & _ & _ & _ & E7). exact E7.
Qed.

Lemma exec_rt_mono : forall c ls s s', cfg_ok c -> inv c s -> exec c s ls = Ok s' -> rt (st s) <= rt (st s').
Proof.
  induction ls as [|l ls IH]; intros s s' Hc I H; cbn [exec] in H.
  - inversion H. lia.
  - destruct (step c s l) as [s1|e|p] eqn:Es; [|eapply IH; eassumption|discriminate].
    pose proof (step_rt_mono c s l s1 Hc I Es). pose proof (step_inv c s l s1 Hc I Es) as I1.
    pose proof (IH s1 s' Hc I1 H). lia.
Qed.

Theorem limiter_inv : forall c ls, cfg_ok c ->
  (forall p, exec c (init c) ls <> Panic p) /\
  (forall s, exec c (init c) ls = Ok s ->
     0 <= rs (st s) <= pm (st s) /\ pm (st s) <= burst c /\
     0 <= rt (st s) <= ticks c (now s) /\ rs (st s) = sum_p (held s)).
Proof.
  intros c ls Hc. split.
  - intros p. apply exec_no_panic; [exact Hc|apply inv_init; exact Hc].
  - intros s H. pose proof (exec_inv c ls (init c) s Hc (inv_init c Hc) H) as I.
    destruct I as [Irs Ipm Irt Inow [Iheld Ihp] Iq Ih Iph].
    rewrite ticks_tk by (destruct Hc; lia). repeat split; try lia.
Qed.

(* refresh_ticks never decreases along a run *)
Theorem refresh_ticks_monotone : forall c ls1 ls2 s1 s2, cfg_ok c ->
  exec c (init c) ls1 = Ok s1 -> exec c s1 ls2 = Ok s2 -> rt (st s1) <= rt (st s2).
Proof.
  intros c ls1 ls2 s1 s2 Hc H1 H2. eapply exec_rt_mono; [exact Hc| |exact H2].
  eapply exec_inv; [exact Hc|apply inv_init; exact Hc|exact H1].
Qed.

(* ------------------------------------------------------------------------- *)
(* FIFO order of grants *)

From Coq Require Import Sorted.

Definition gid (g : nat * Z * Z) : nat := fst (fst g).
Definition gtime (g : nat * Z * Z) : Z := snd (fst g).

(* newest first: every older entry has a smaller id (entered acquire earlier) and a time stamp
   that is not later *)
Definition grant_order (a b : nat * Z * Z) : Prop := (gid b < gid a)%nat /\ gtime b <= gtime a.

Record fifo_inv (s : sys) : Prop := {
  fi_sorted : StronglySorted lt (map fst (queue s));
  fi_lt : forall i p, In (i, p) (queue s) -> (i < nextid s)%nat;
  fi_glt : forall g, In g (grants s) ->
      (gid g < nextid s)%nat /\ gtime g <= now s /\ forall j q, In (j, q) (queue s) -> (gid g < j)%nat;
  fi_gsorted : StronglySorted grant_order (grants s)
}.

Lemma sorted_app_last : forall (q : list (nat * Z)) n p,
  StronglySorted lt (map fst q) -> (forall i r, In (i, r) q -> (i < n)%nat) ->
  StronglySorted lt (map fst (q ++ [(n, p)])).
Proof.
  induction q as [|[i r] q IH]; intros n p Hs Hl; cbn [map app fst].
  - constructor; [constructor|constructor].
  - inversion Hs as [|x l Hs' Hf]; subst. constructor.
    + apply IH; [exact Hs'|]. intros j t Hin. apply (Hl j t). right. exact Hin.
    + rewrite map_app. apply Forall_app. split; [exact Hf|]. cbn. constructor; [|constructor].
      apply (Hl i r). left. reflexivity.
Qed.

Lemma in_map_fst_remove : forall id (q : list (nat * Z)) x, In x (map fst (remove_id id q)) -> In x (map fst q).
Proof.
  intros id q x H. apply in_map_iff in H. destruct H as [[i p] [H1 H2]]. apply in_map_iff.
  exists (i, p). split; [exact H1|]. eapply in_remove_id. exact H2.
Qed.

Lemma sorted_remove : forall id (q : list (nat * Z)),
  StronglySorted lt (map fst q) -> StronglySorted lt (map fst (remove_id id q)).
Proof.
  induction q as [|[i r] q IH]; intros Hs; cbn [remove_id]; [exact Hs|].
  cbn [map fst] in Hs. inversion Hs as [|x l Hs' Hf]; subst.
  destruct (Nat.eqb i id); [exact Hs'|]. cbn [map fst]. constructor; [apply IH; exact Hs'|].
  apply Forall_forall. intros x Hx. rewrite Forall_forall in Hf. apply Hf. eapply in_map_fst_remove. exact Hx.
Qed.

Lemma fifo_init : forall c, fifo_inv (init c).
Proof.
  intros c. constructor; cbn.
  - constructor.
  - intros i p [].
  - intros g [].
  - constructor.
Qed.

Lemma fifo_step : forall c s l s', cfg_ok c -> fifo_inv s -> step c s l = Ok s' -> fifo_inv s'.
Proof.
  intros c s l s' [Hb Hr] [Fs Fl Fg Fgs] Hs.
  destruct l as [d|q| | |id|id]; cbn [step] in Hs.
  - destruct ((d <? 0) || (nanos_max <=? now s + d - start c)) eqn:E; [discriminate|].
    apply orb_false_iff in E. destruct E as [E1 E2]. apply Z.ltb_ge in E1.
    inversion Hs; subst s'; clear Hs. constructor; cbn; [exact Fs|exact Fl| |exact Fgs].
    intros g Hg. destruct (Fg g Hg) as (G1 & G2 & G3). split; [exact G1|]. split; [lia|exact G3].
  - destruct ((q <? 0) || (q >? usize_max)) eqn:E; [discriminate|].
    destruct (burst c <? q) eqn:E3.
    { inversion Hs; subst s'; clear Hs. constructor; cbn; [exact Fs| | |exact Fgs].
      - intros i p Hin. pose proof (Fl i p Hin). lia.
      - intros g Hg. destruct (Fg g Hg) as (G1 & G2 & G3). split; [lia|]. split; [exact G2|exact G3]. }
    destruct (refresh c <=? 0) eqn:E4; [apply Z.leb_le in E4; lia|].
    inversion Hs; subst s'; clear Hs. constructor; cbn; [| | |exact Fgs].
    + apply sorted_app_last; [exact Fs|exact Fl].
    + intros i p Hin. apply in_app_or in Hin. destruct Hin as [Hin|[Hin|[]]].
      * pose proof (Fl i p Hin). lia.
      * inversion Hin. lia.
    + intros g Hg. destruct (Fg g Hg) as (G1 & G2 & G3). split; [lia|]. split; [exact G2|].
      intros j r Hin. apply in_app_or in Hin. destruct Hin as [Hin|[Hin|[]]].
      * apply (G3 j r Hin).
      * inversion Hin. subst. exact G1.
  - destruct (queue s) as [|[i q] qs] eqn:Eq; [discriminate|]. destruct (ph s) eqn:Eph; [|discriminate].
    unfold usize_sub in Hs. destruct (burst c <? rs (st s)) eqn:E1; [discriminate|]. cbn [bind] in Hs.
    destruct (burst c - rs (st s) <? q) eqn:E2; [discriminate|].
    unfold usize_add in Hs. destruct (rs (st s) + q >? usize_max) eqn:E3; [discriminate|]. cbn [bind] in Hs.
    inversion Hs; subst s'; clear Hs. constructor; cbn; assumption.
  - destruct (queue s) as [|[i q] qs] eqn:Eq; [discriminate|]. destruct (ph s) as [|need] eqn:Eph; [discriminate|].
    destruct (deadline_reached c need (now s)) eqn:Ed; [|discriminate].
    destruct (usize_add (rs (advance c (st s) need)) q) as [r|e|pp] eqn:Ea; cbn [bind] in Hs; try discriminate.
    inversion Hs; subst s'; clear Hs. cbn [map fst] in Fs. inversion Fs as [|x l Fs' Ff]; subst.
    constructor; cbn.
    + exact Fs'.
    + intros j p Hin. apply (Fl j p). right. exact Hin.
    + intros g [Hg|Hg].
      * subst g. unfold gid, gtime; cbn. split; [apply (Fl i q); left; reflexivity|]. split; [lia|].
        intros j r0 Hin. rewrite Forall_forall in Ff. apply Ff. apply in_map_iff. exists (j, r0). split; [reflexivity|exact Hin].
      * destruct (Fg g Hg) as (G1 & G2 & G3). split; [exact G1|]. split; [exact G2|].
        intros j r0 Hin. apply (G3 j r0). right. exact Hin.
    + constructor; [exact Fgs|]. apply Forall_forall. intros g Hg. destruct (Fg g Hg) as (G1 & G2 & G3).
      unfold grant_order, gid, gtime; cbn. split; [apply (G3 i q); left; reflexivity|exact G2].
  - destruct (queue s) as [|[h hp] qs] eqn:Eq.
    { destruct (mem_nat id (blocked s)); [|discriminate]. inversion Hs; subst s'; clear Hs.
      constructor; cbn; assumption. }
    destruct (Nat.eqb h id) eqn:Eh.
    { inversion Hs; subst s'; clear Hs. cbn [map fst] in Fs. inversion Fs as [|x l Fs' Ff]; subst.
      constructor; cbn; [exact Fs'| | |exact Fgs].
      - intros j p Hin. apply (Fl j p). right. exact Hin.
      - intros g Hg. destruct (Fg g Hg) as (G1 & G2 & G3). split; [exact G1|]. split; [exact G2|].
        intros j r Hin. apply (G3 j r). right. exact Hin. }
    destruct (find_id id qs) eqn:Ef.
    { inversion Hs; subst s'; clear Hs. constructor; cbn; [| | |exact Fgs].
      - apply (sorted_remove id ((h, hp) :: qs)) in Fs. cbn [remove_id] in Fs. rewrite Eh in Fs. exact Fs.
      - intros j p [Hin|Hin]; [apply (Fl j p); left; exact Hin|].
        apply (Fl j p). right. eapply in_remove_id. exact Hin.
      - intros g Hg. destruct (Fg g Hg) as (G1 & G2 & G3). split; [exact G1|]. split; [exact G2|].
        intros j r [Hin|Hin]; [apply (G3 j r); left; exact Hin|].
        apply (G3 j r). right. eapply in_remove_id. exact Hin. }
    destruct (mem_nat id (blocked s)); [|discriminate]. inversion Hs; subst s'; clear Hs.
    constructor; cbn; assumption.
  - destruct (find_id id (held s)) as [q|] eqn:Ef; [|discriminate].
    destruct (q =? 0).
    { inversion Hs; subst s'; clear Hs. constructor; cbn; assumption. }
    destruct (usize_sub (rs (advance c (st s) (ticks c (now s)))) q) as [r|e|pp]; cbn [bind] in Hs; try discriminate.
    destruct (usize_sub (pm (advance c (st s) (ticks c (now s)))) q) as [m|e|pp]; cbn [bind] in Hs; try discriminate.
    inversion Hs; subst s'; clear Hs. constructor; cbn; assumption.
Qed.

Lemma fifo_exec : forall c ls s s', cfg_ok c -> fifo_inv s -> exec c s ls = Ok s' -> fifo_inv s'.
Proof.
  induction ls as [|l ls IH]; intros s s' Hc F H; cbn [exec] in H.
  - inversion H. subst. exact F.
  - destruct (step c s l) as [s1|e|p] eqn:Es; [|eapply IH; eassumption|discriminate].
    eapply IH; [exact Hc| |exact H]. eapply fifo_step; eassumption.
Qed.

(* Grants happen in the order in which the callers entered acquire(): in the grant log (newest first)
   every older entry belongs to a call that began earlier, and carries a time stamp that is not later. *)
Theorem fifo_order : forall c ls s, cfg_ok c -> exec c (init c) ls = Ok s ->
  StronglySorted grant_order (grants s).
Proof.
  intros c ls s Hc H. apply (fi_gsorted s). eapply fifo_exec; [exact Hc|apply fifo_init|exact H].
Qed.

(* ... and a call that is still queued entered later than every call granted so far. *)
Theorem fifo_no_overtaking : forall c ls s g j q, cfg_ok c -> exec c (init c) ls = Ok s ->
  In g (grants s) -> In (j, q) (queue s) -> (gid g < j)%nat.
Proof.
  intros c ls s g j q Hc H Hg Hq.
  pose proof (fifo_exec c ls (init c) s Hc (fifo_init c) H) as F.
  destruct (fi_glt s F g Hg) as (_ & _ & G3). apply (G3 j q Hq).
Qed.

(* ------------------------------------------------------------------------- *)
(* A cancelled wait consumes nothing *)

Lemma cancel_step : forall c s id s', step c s (LCancel id) = Ok s' ->
  st s' = st s /\ now s' = now s /\ held s' = held s /\ grants s' = grants s /\ drops s' = drops s /\
  nextid s' = nextid s.
Proof.
  intros c s id s' Hs. cbn [step] in Hs.
  destruct (queue s) as [|[h hp] qs].
  { destruct (mem_nat id (blocked s)); [|discriminate]. inversion Hs; subst s'. cbn. repeat split. }
  destruct (Nat.eqb h id); [inversion Hs; subst s'; cbn; repeat split|].
  destruct (find_id id qs); [inversion Hs; subst s'; cbn; repeat split|].
  destruct (mem_nat id (blocked s)); [|discriminate]. inversion Hs; subst s'. cbn. repeat split.
Qed.

Lemma find_id_none_above : forall id (q : list (nat * Z)), Forall (lt id) (map fst q) -> find_id id q = None.
Proof.
  induction q as [|[i r] q IH]; intros H; [reflexivity|]. cbn [map fst] in H. inversion H; subst.
  cbn [find_id]. destruct (Nat.eqb i id) eqn:E; [apply Nat.eqb_eq in E; lia|]. apply IH. assumption.
Qed.

Lemma find_id_remove_sorted : forall id (q : list (nat * Z)),
  StronglySorted lt (map fst q) -> find_id id (remove_id id q) = None.
Proof.
  induction q as [|[i r] q IH]; intros Hs; [reflexivity|]. cbn [map fst] in Hs.
  inversion Hs as [|x l Hs' Hf]; subst. cbn [remove_id]. destruct (Nat.eqb i id) eqn:E.
  - apply Nat.eqb_eq in E. subst. apply find_id_none_above. exact Hf.
  - cbn [find_id]. rewrite E. apply IH. exact Hs'.
Qed.

Lemma find_id_remove_other : forall id j (q : list (nat * Z)), find_id id q = None -> find_id id (remove_id j q) = None.
Proof.
  induction q as [|[i r] q IH]; intros H; [reflexivity|]. cbn [find_id] in H. cbn [remove_id].
  destruct (Nat.eqb i id) eqn:E; [discriminate|]. destruct (Nat.eqb i j); [exact H|].
  cbn [find_id]. rewrite E. apply IH. exact H.
Qed.

Lemma find_id_app_none : forall id (q : list (nat * Z)) j p, find_id id q = None -> j <> id ->
  find_id id (q ++ [(j, p)]) = None.
Proof.
  induction q as [|[i r] q IH]; intros j p H Hj; cbn [app find_id] in *.
  - destruct (Nat.eqb j id) eqn:E; [apply Nat.eqb_eq in E; contradiction|reflexivity].
  - destruct (Nat.eqb i id); [discriminate|]. apply IH; assumption.
Qed.

(* a call that is neither queued nor granted, with an id already allocated, is never granted *)
Definition dead (id : nat) (s : sys) : Prop :=
  (id < nextid s)%nat /\ find_id id (queue s) = None /\ ~ In id (map gid (grants s)).

Lemma dead_step : forall c s l s' id, cfg_ok c -> dead id s -> step c s l = Ok s' -> dead id s'.
Proof.
  intros c s l s' id [Hb Hr] (D1 & D2 & D3) Hs.
  destruct l as [d|q| | |id'|id']; cbn [step] in Hs.
  - destruct ((d <? 0) || (nanos_max <=? now s + d - start c)); [discriminate|].
    inversion Hs; subst s'. repeat split; assumption.
  - destruct ((q <? 0) || (q >? usize_max)); [discriminate|].
    destruct (burst c <? q). { inversion Hs; subst s'. repeat split; cbn; [lia|assumption|assumption]. }
    destruct (refresh c <=? 0) eqn:E4; [apply Z.leb_le in E4; lia|].
    inversion Hs; subst s'. repeat split; cbn; [lia| |assumption]. apply find_id_app_none; [exact D2|lia].
  - destruct (queue s) as [|[i q] qs] eqn:Eq; [discriminate|]. destruct (ph s); [|discriminate].
    destruct (usize_sub (burst c) (rs (st s))) as [f|e|pp]; cbn [bind] in Hs; try discriminate.
    destruct (f <? q); [discriminate|].
    destruct (usize_add (rs (st s)) q) as [w|e|pp]; cbn [bind] in Hs; try discriminate.
    inversion Hs; subst s'. repeat split; cbn; assumption.
  - destruct (queue s) as [|[i q] qs] eqn:Eq; [discriminate|]. destruct (ph s) as [|need]; [discriminate|].
    destruct (deadline_reached c need (now s)); [|discriminate].
    destruct (usize_add (rs (advance c (st s) need)) q) as [r|e|pp]; cbn [bind] in Hs; try discriminate.
    inversion Hs; subst s'. cbn [find_id] in D2. destruct (Nat.eqb i id) eqn:E; [discriminate|].
    repeat split; cbn; [assumption|assumption|]. intros [H|H]; [|contradiction].
    unfold gid in H; cbn in H. subst. rewrite Nat.eqb_refl in E. discriminate.
  - destruct (queue s) as [|[h hp] qs] eqn:Eq.
    { destruct (mem_nat id' (blocked s)); [|discriminate]. inversion Hs; subst s'. repeat split; cbn; assumption. }
    cbn [find_id] in D2. destruct (Nat.eqb h id) eqn:Eh; [discriminate|].
    destruct (Nat.eqb h id'). { inversion Hs; subst s'. repeat split; cbn; assumption. }
    destruct (find_id id' qs).
    { inversion Hs; subst s'. repeat split; cbn; [assumption| |assumption]. rewrite Eh.
      apply find_id_remove_other. exact D2. }
    destruct (mem_nat id' (blocked s)); [|discriminate]. inversion Hs; subst s'. repeat split; cbn; try assumption.
    rewrite Eh. exact D2.
  - destruct (find_id id' (held s)) as [q|]; [|discriminate]. destruct (q =? 0).
    { inversion Hs; subst s'. repeat split; cbn; assumption. }
    destruct (usize_sub (rs (advance c (st s) (ticks c (now s)))) q) as [r|e|pp]; cbn [bind] in Hs; try discriminate.
    destruct (usize_sub (pm (advance c (st s) (ticks c (now s)))) q) as [m|e|pp]; cbn [bind] in Hs; try discriminate.
    inversion Hs; subst s'. repeat split; cbn; assumption.
Qed.

Lemma dead_exec : forall c ls s s' id, cfg_ok c -> dead id s -> exec c s ls = Ok s' -> dead id s'.
Proof.
  induction ls as [|l ls IH]; intros s s' id Hc D H; cbn [exec] in H.
  - inversion H. subst. exact D.
  - destruct (step c s l) as [s1|e|p] eqn:Es; [|eapply IH; eassumption|discriminate].
    eapply IH; [exact Hc| |exact H]. eapply dead_step; eassumption.
Qed.

Lemma find_id_some_in : forall id (q : list (nat * Z)) p, In (id, p) q -> find_id id q <> None.
Proof.
  induction q as [|[i r] q IH]; intros p Hin; [destruct Hin|]. destruct Hin as [H|H]; cbn [find_id].
  - inversion H. subst. rewrite Nat.eqb_refl. discriminate.
  - destruct (Nat.eqb i id); [discriminate|]. eapply IH. exact H.
Qed.

Theorem cancel_consumes_nothing : forall c ls s id s', cfg_ok c ->
  exec c (init c) ls = Ok s -> step c s (LCancel id) = Ok s' ->
  (* nothing is consumed or reserved *)
  st s' = st s /\ held s' = held s /\ grants s' = grants s /\ drops s' = drops s /\ now s' = now s /\
  (* and a cancelled waiter is never served later *)
  (find_id id (queue s) <> None ->
   forall ls' s'', exec c s' ls' = Ok s'' -> ~ In id (map gid (grants s''))).
Proof.
  intros c ls s id s' Hc H Hs.
  destruct (cancel_step c s id s' Hs) as (C1 & C2 & C3 & C4 & C5 & C6).
  repeat split; try assumption.
  intros Hq ls' s'' H'.
  pose proof (fifo_exec c ls (init c) s Hc (fifo_init c) H) as [Fs Fl Fg Fgs].
  assert (D : dead id s').
  { unfold dead. rewrite C6, C4.
    destruct (find_id id (queue s)) as [p|] eqn:Ef; [|contradiction]. clear Hq.
    pose proof (find_id_in _ _ _ Ef) as Hin.
    split; [apply (Fl id p Hin)|]. split.
    - cbn [step] in Hs. destruct (queue s) as [|[h hp] qs] eqn:Eq; [discriminate|].
      cbn [find_id] in Ef. destruct (Nat.eqb h id) eqn:Eh.
      + inversion Hs; subst s'. cbn. apply Nat.eqb_eq in Eh. subst h.
        cbn [map fst] in Fs. inversion Fs; subst. apply find_id_none_above. assumption.
      + rewrite Ef in Hs. inversion Hs; subst s'. cbn [queue find_id]. rewrite Eh.
        apply find_id_remove_sorted. cbn [map fst] in Fs. inversion Fs; subst. assumption.
    - intros Hg. apply in_map_iff in Hg. destruct Hg as [g [Hg1 Hg2]].
      destruct (Fg g Hg2) as (_ & _ & G3). pose proof (G3 id p Hin). lia. }
  destruct (dead_exec c ls' s' s'' id Hc D H') as (_ & _ & D3). exact D3.
Qed.

(* ------------------------------------------------------------------------- *)
(* Scripts (the deterministic schedule the harness runs) are runs of the step relation,
   and [settle] reaches quiescence. *)

Lemma run_ops_exec : forall c os s, run_ops c s os = exec c s (script_labels c s os).
Proof.
  induction os as [|o os IH]; intros s; cbn [run_ops script_labels]; [reflexivity|].
  unfold do_op. destruct (step c s (op_label o)) as [s1|e|p] eqn:Es.
  - destruct (exec c s1 (op_settle c o s1)) as [s2|e|p] eqn:Ex.
    + cbn [bind exec]. rewrite Es. rewrite (exec_app c _ _ s1 s2 Ex). apply IH.
    + exfalso. eapply exec_not_err. exact Ex.
    + cbn [bind exec]. rewrite Es. symmetry. exact Ex.
  - destruct (exec c s (op_settle c o s)) as [s2|e'|p] eqn:Ex.
    + cbn [bind]. rewrite (exec_app c _ _ s s2 Ex). apply IH.
    + exfalso. eapply exec_not_err. exact Ex.
    + cbn [bind]. symmetry. exact Ex.
  - cbn [bind exec]. rewrite Es. reflexivity.
Qed.

Definition mu (s : sys) : nat :=
  (2 * length (queue s) + match ph s with PWait => 1 | PSleep _ => 0 end)%nat.

Lemma mu_wait : forall c s s', step c s LWait = Ok s' -> (mu s' < mu s)%nat.
Proof.
  intros c s s' Hs. cbn [step] in Hs. unfold mu.
  destruct (queue s) as [|[i q] qs] eqn:Eq; [discriminate|]. destruct (ph s) eqn:Eph; [|discriminate].
  destruct (usize_sub (burst c) (rs (st s))) as [f|e|pp]; cbn [bind] in Hs; try discriminate.
  destruct (f <? q); [discriminate|].
  destruct (usize_add (rs (st s)) q) as [w|e|pp]; cbn [bind] in Hs; try discriminate.
  inversion Hs; subst s'. cbn. lia.
Qed.

Lemma mu_grant : forall c s s', step c s LGrant = Ok s' -> (mu s' < mu s)%nat.
Proof.
  intros c s s' Hs. cbn [step] in Hs. unfold mu.
  destruct (queue s) as [|[i q] qs] eqn:Eq; [discriminate|]. destruct (ph s) as [|need] eqn:Eph; [discriminate|].
  destruct (deadline_reached c need (now s)); [|discriminate].
  destruct (usize_add (rs (advance c (st s) need)) q) as [r|e|pp]; cbn [bind] in Hs; try discriminate.
  inversion Hs; subst s'. cbn [queue ph length]. lia.
Qed.

Definition quiescent (c : cfg) (s : sys) : Prop :=
  step c s LWait = Err tt /\ step c s LGrant = Err tt.

Lemma settle_labels_quiescent : forall c fuel s s', (mu s < fuel)%nat ->
  exec c s (settle_labels c fuel s) = Ok s' -> quiescent c s'.
Proof.
  induction fuel as [|f IH]; intros s s' Hm H; [lia|]. cbn [settle_labels] in H.
  destruct (step c s LWait) as [s1|[]|p] eqn:E1.
  - cbn [exec] in H. rewrite E1 in H. apply (IH s1 s'); [|exact H]. pose proof (mu_wait c s s1 E1). lia.
  - destruct (step c s LGrant) as [s2|[]|p] eqn:E2.
    + cbn [exec] in H. rewrite E2 in H. apply (IH s2 s'); [|exact H]. pose proof (mu_grant c s s2 E2). lia.
    + cbn [exec] in H. inversion H. subst. split; assumption.
    + cbn [exec] in H. rewrite E2 in H. discriminate.
  - cbn [exec] in H. rewrite E1 in H. discriminate.
Qed.

(* the fuel of [settle] suffices: afterwards no internal step is enabled *)
Theorem settle_quiescent : forall c s s', settle c s = Ok s' -> quiescent c s'.
Proof.
  intros c s s' H. unfold settle in H. eapply settle_labels_quiescent; [|exact H].
  unfold mu, settle_fuel. destruct (ph s); lia.
Qed.

(* Every script is a run; hence all the theorems above hold for scripts. *)
Theorem script_window_bound : forall c os s t1 t2, cfg_ok c -> run_ops c (init c) os = Ok s ->
  t1 <= t2 ->
  sum_window (grants s) t1 t2 <= burst c + (t2 - t1) / refresh c + 1 /\
  sum_window (drops s) t1 t2 <= burst c + (t2 - t1) / refresh c + 1.
Proof.
  intros c os s t1 t2 Hc H Ht. rewrite run_ops_exec in H. split.
  - eapply window_bound; eassumption.
  - eapply consume_window_bound; eassumption.
Qed.

Theorem script_no_panic : forall c os p, cfg_ok c -> run_ops c (init c) os <> Panic p.
Proof.
  intros c os p Hc. rewrite run_ops_exec. apply exec_no_panic; [exact Hc|apply inv_init; exact Hc].
Qed.

(* ------------------------------------------------------------------------- *)
(* Permit per OPEN: the StreamQueue model *)

Definition ones (s : sys) : Prop :=
  all_p (eq 1) (queue s) /\ all_p (eq 1) (held s) /\ forall g, In g (drops s) -> snd g = 1.

Lemma drops_step : forall c s l s', step c s l = Ok s' ->
  drops s' = drops s \/
  exists id p, l = LDrop id /\ find_id id (held s) = Some p /\ drops s' = (id, now s, p) :: drops s.
Proof.
  intros c s l s' Hs. destruct l as [d|q| | |id|id]; cbn [step] in Hs.
  - destruct ((d <? 0) || (nanos_max <=? now s + d - start c)); [discriminate|]. inversion Hs; try subst s'. left. reflexivity.
  - destruct ((q <? 0) || (q >? usize_max)); [discriminate|].
    destruct (burst c <? q); [inversion Hs; try subst s'; left; reflexivity|].
    destruct (refresh c <=? 0); inversion Hs; try subst s'; left; reflexivity.
  - destruct (queue s) as [|[i q] qs]; [discriminate|]. destruct (ph s); [|discriminate].
    destruct (usize_sub (burst c) (rs (st s))) as [f|e|pp]; cbn [bind] in Hs; try discriminate.
    destruct (f <? q); [discriminate|].
    destruct (usize_add (rs (st s)) q) as [w|e|pp]; cbn [bind] in Hs; try discriminate.
    inversion Hs; try subst s'. left. reflexivity.
  - destruct (queue s) as [|[i q] qs]; [discriminate|]. destruct (ph s) as [|need]; [discriminate|].
    destruct (deadline_reached c need (now s)); [|discriminate].
    destruct (usize_add (rs (advance c (st s) need)) q) as [r|e|pp]; cbn [bind] in Hs; try discriminate.
    inversion Hs; try subst s'. left. reflexivity.
  - destruct (queue s) as [|[h hp] qs].
    { destruct (mem_nat id (blocked s)); [|discriminate]. inversion Hs; try subst s'. left. reflexivity. }
    destruct (Nat.eqb h id); [inversion Hs; try subst s'; left; reflexivity|].
    destruct (find_id id qs); [inversion Hs; try subst s'; left; reflexivity|].
    destruct (mem_nat id (blocked s)); [|discriminate]. inversion Hs; try subst s'. left. reflexivity.
  - destruct (find_id id (held s)) as [q|] eqn:Ef; [|discriminate]. destruct (q =? 0).
    { inversion Hs; try subst s'. left. reflexivity. }
    destruct (usize_sub (rs (advance c (st s) (ticks c (now s)))) q) as [r|e|pp]; cbn [bind] in Hs; try discriminate.
    destruct (usize_sub (pm (advance c (st s) (ticks c (now s)))) q) as [m|e|pp]; cbn [bind] in Hs; try discriminate.
    inversion Hs; try subst s'. right. exists id, q. cbn. repeat split. exact Ef.
Qed.

Lemma ones_step : forall c s l s', cfg_ok c -> ones s -> step c s l = Ok s' ->
  (forall p, l = LBegin p -> p = 1) -> ones s'.
Proof.
  intros c s l s' [Hb Hr] (O1 & O2 & O3) Hs Hl.
  assert (O3' : forall g, In g (drops s') -> snd g = 1).
  { destruct (drops_step c s l s' Hs) as [E|(id & p & _ & Ef & E)]; rewrite E; [exact O3|].
    intros g [Hg|Hg]; [|apply O3; exact Hg]. subst g. cbn. symmetry. apply (O2 id p). apply find_id_in. exact Ef. }
  split; [|split; [|exact O3']]; clear O3'.
  - destruct l as [d|q| | |id|id]; cbn [step] in Hs.
    + destruct ((d <? 0) || (nanos_max <=? now s + d - start c)); [discriminate|]. inversion Hs; try subst s'. exact O1.
    + destruct ((q <? 0) || (q >? usize_max)); [discriminate|].
      destruct (burst c <? q); [inversion Hs; try subst s'; exact O1|].
      destruct (refresh c <=? 0) eqn:E4; [apply Z.leb_le in E4; lia|]. inversion Hs; try subst s'. cbn.
      apply all_p_app; [exact O1|]. intros i p [Hin|[]]. inversion Hin. subst. symmetry. apply Hl. reflexivity.
    + destruct (queue s) as [|[i q] qs] eqn:Eq; [discriminate|]. destruct (ph s); [|discriminate].
      destruct (usize_sub (burst c) (rs (st s))) as [f|e|pp]; cbn [bind] in Hs; try discriminate.
      destruct (f <? q); [discriminate|].
      destruct (usize_add (rs (st s)) q) as [w|e|pp]; cbn [bind] in Hs; try discriminate.
      inversion Hs; try subst s'. cbn. exact O1.
    + destruct (queue s) as [|[i q] qs] eqn:Eq; [discriminate|]. destruct (ph s) as [|need]; [discriminate|].
      destruct (deadline_reached c need (now s)); [|discriminate].
      destruct (usize_add (rs (advance c (st s) need)) q) as [r|e|pp]; cbn [bind] in Hs; try discriminate.
      inversion Hs; try subst s'. cbn. eapply all_p_tail. exact O1.
    + destruct (queue s) as [|[h hp] qs] eqn:Eq.
      { destruct (mem_nat id (blocked s)); [|discriminate]. inversion Hs; try subst s'. cbn. exact O1. }
      destruct (Nat.eqb h id); [inversion Hs; try subst s'; cbn; eapply all_p_tail; exact O1|].
      destruct (find_id id qs).
      { inversion Hs; try subst s'. cbn. intros j p [Hin|Hin]; [apply (O1 j p); left; exact Hin|].
        apply (O1 j p). right. eapply in_remove_id. exact Hin. }
      destruct (mem_nat id (blocked s)); [|discriminate]. inversion Hs; try subst s'. cbn. exact O1.
    + destruct (find_id id (held s)) as [q|]; [|discriminate]. destruct (q =? 0); [inversion Hs; try subst s'; exact O1|].
      destruct (usize_sub (rs (advance c (st s) (ticks c (now s)))) q) as [r|e|pp]; cbn [bind] in Hs; try discriminate.
      destruct (usize_sub (pm (advance c (st s) (ticks c (now s)))) q) as [m|e|pp]; cbn [bind] in Hs; try discriminate.
      inversion Hs; try subst s'. exact O1.
  - destruct l as [d|q| | |id|id]; cbn [step] in Hs.
    + destruct ((d <? 0) || (nanos_max <=? now s + d - start c)); [discriminate|]. inversion Hs; try subst s'. exact O2.
    + destruct ((q <? 0) || (q >? usize_max)); [discriminate|].
      destruct (burst c <? q); [inversion Hs; try subst s'; exact O2|].
      destruct (refresh c <=? 0) eqn:E4; [apply Z.leb_le in E4; lia|]. inversion Hs; try subst s'. exact O2.
    + destruct (queue s) as [|[i q] qs] eqn:Eq; [discriminate|]. destruct (ph s); [|discriminate].
      destruct (usize_sub (burst c) (rs (st s))) as [f|e|pp]; cbn [bind] in Hs; try discriminate.
      destruct (f <? q); [discriminate|].
      destruct (usize_add (rs (st s)) q) as [w|e|pp]; cbn [bind] in Hs; try discriminate.
      inversion Hs; try subst s'. exact O2.
    + destruct (queue s) as [|[i q] qs] eqn:Eq; [discriminate|]. destruct (ph s) as [|need]; [discriminate|].
      destruct (deadline_reached c need (now s)); [|discriminate].
      destruct (usize_add (rs (advance c (st s) need)) q) as [r|e|pp]; cbn [bind] in Hs; try discriminate.
      inversion Hs; try subst s'. cbn. intros j p [Hin|Hin]; [|apply (O2 j p Hin)]. inversion Hin. subst.
      apply (O1 j p). left. reflexivity.
    + destruct (queue s) as [|[h hp] qs] eqn:Eq.
      { destruct (mem_nat id (blocked s)); [|discriminate]. inversion Hs; try subst s'. exact O2. }
      destruct (Nat.eqb h id); [inversion Hs; try subst s'; exact O2|].
      destruct (find_id id qs); [inversion Hs; try subst s'; exact O2|].
      destruct (mem_nat id (blocked s)); [|discriminate]. inversion Hs; try subst s'. exact O2.
    + destruct (find_id id (held s)) as [q|]; [|discriminate]. destruct (q =? 0).
      { inversion Hs; try subst s'. cbn. apply all_p_remove. exact O2. }
      destruct (usize_sub (rs (advance c (st s) (ticks c (now s)))) q) as [r|e|pp]; cbn [bind] in Hs; try discriminate.
      destruct (usize_sub (pm (advance c (st s) (ticks c (now s)))) q) as [m|e|pp]; cbn [bind] in Hs; try discriminate.
      inversion Hs; try subst s'. cbn. apply all_p_remove. exact O2.
Qed.

(* OPEN frames in the closed window [t1, t2] *)
Fixpoint count_window (o : list (nat * Z)) (t1 t2 : Z) : Z :=
  match o with
  | [] => 0
  | (_, t) :: o' => (if (t1 <=? t) && (t <=? t2) then 1 else 0) + count_window o' t1 t2
  end.

Lemma count_window_sum : forall (o : list (nat * Z)) (d : tlog) t1 t2,
  map snd o = map gtime d -> (forall g, In g d -> snd g = 1) ->
  count_window o t1 t2 = sum_window d t1 t2.
Proof.
  induction o as [|[i t] o IH]; intros d t1 t2 Hm H1; destruct d as [|[[j u] p] d]; try discriminate.
  - reflexivity.
  - cbn [map snd gtime] in Hm. unfold gtime in Hm. cbn in Hm. inversion Hm. subst u.
    cbn [count_window sum_window]. rewrite (IH d t1 t2); [| |].
    + assert (p = 1) by (apply (H1 (j, t, p)); left; reflexivity). subst p. reflexivity.
    + assumption.
    + intros g Hg. apply H1. right. exact Hg.
Qed.

Record rinv (c : cfg) (s : rsys) : Prop := {
  ri_run : exists ls, exec c (init c) ls = Ok (lim s);
  ri_ones : ones (lim s);
  ri_opens : map snd (opens s) = map gtime (drops (lim s))
}.

Lemma exec_snoc : forall c ls s s1 l s2, exec c s ls = Ok s1 -> step c s1 l = Ok s2 -> exec c s (ls ++ [l]) = Ok s2.
Proof.
  intros c ls s s1 l s2 H1 H2. rewrite (exec_app c ls [l] s s1 H1). cbn [exec]. rewrite H2. reflexivity.
Qed.

Lemma rinv_init : forall c n, rinv c (rinit c n).
Proof.
  intros c n. constructor; cbn.
  - exists []. reflexivity.
  - unfold ones; cbn. split; [intros ? ? []|split; [intros ? ? []|intros ? []]].
  - reflexivity.
Qed.

Lemma length_set_nth : forall A i (x : A) l, length (set_nth i x l) = length l.
Proof. induction i as [|i IH]; intros x l; destruct l; cbn; try reflexivity. rewrite IH. reflexivity. Qed.

Lemma rstep_rinv : forall c s l s', cfg_ok c -> rinv c s -> rstep c s l = Ok s' ->
  rinv c s' /\ length (streams s') = length (streams s).
Proof.
  intros c s l s' Hc [[ls Hrun] Hones Hop] Hs.
  destruct l as [l0|i|i|i|i]; cbn [rstep] in Hs.
  - assert (Hl0 : forall p, l0 <> LBegin p /\ forall id, l0 <> LDrop id).
    { intros p. destruct l0; try discriminate; split; intros; discriminate. }
    destruct l0 as [d|q| | |id|id]; try discriminate;
      (destruct (step c (lim s) _) as [x|e|pp] eqn:Ex; cbn [bind] in Hs; try discriminate;
       inversion Hs; subst s'; clear Hs; cbn; split; [|reflexivity]; constructor; cbn;
       [eexists; eapply exec_snoc; eassumption
       |eapply ones_step; [exact Hc|exact Hones|exact Ex|intros p Hp; discriminate]
       |destruct (drops_step c _ _ _ Ex) as [E|(id & p & El & _)]; [rewrite E; exact Hop|discriminate]]).
  - destruct (nth_error (streams s) i) as [[| |]|]; try discriminate.
    destruct (step c (lim s) (LBegin 1)) as [x|e|pp] eqn:Ex; cbn [bind] in Hs; try discriminate.
    inversion Hs; subst s'; clear Hs; cbn. split; [|apply length_set_nth]. constructor; cbn.
    + eexists. eapply exec_snoc; eassumption.
    + eapply ones_step; [exact Hc|exact Hones|exact Ex|]. intros p Hp. inversion Hp. reflexivity.
    + destruct (drops_step c _ _ _ Ex) as [E|(id & p & El & _)]; [rewrite E; exact Hop|discriminate].
  - destruct (nth_error (streams s) i) as [[|id|]|]; try discriminate.
    destruct (find_id id (held (lim s))) as [p|] eqn:Ef; [|discriminate].
    destruct (step c (lim s) (LDrop id)) as [x|e|pp] eqn:Ex; cbn [bind] in Hs; try discriminate.
    inversion Hs; subst s'; clear Hs; cbn. split; [|apply length_set_nth]. constructor; cbn.
    + eexists. eapply exec_snoc; eassumption.
    + eapply ones_step; [exact Hc|exact Hones|exact Ex|intros q Hq; discriminate].
    + (* the permit has exactly one unit, so the drop is logged at this very instant *)
      destruct Hones as (_ & O2 & _). assert (p = 1) by (symmetry; apply (O2 id p), find_id_in, Ef). subst p.
      cbn [step] in Ex. rewrite Ef in Ex. cbn in Ex.
      destruct (usize_sub (rs (advance c (st (lim s)) (ticks c (now (lim s))))) 1) as [r|e|pp]; cbn [bind] in Ex; try discriminate.
      destruct (usize_sub (pm (advance c (st (lim s)) (ticks c (now (lim s))))) 1) as [m|e|pp]; cbn [bind] in Ex; try discriminate.
      inversion Ex. cbn. unfold gtime at 1. cbn. f_equal. exact Hop.
  - destruct (nth_error (streams s) i) as [[| |]|]; try discriminate.
    inversion Hs; subst s'; clear Hs; cbn. split; [|apply length_set_nth]. constructor; cbn.
    + exists ls. exact Hrun.
    + exact Hones.
    + exact Hop.
  - destruct (nth_error (streams s) i) as [[|id|]|]; try discriminate.
    destruct (step c (lim s) (LCancel id)) as [x|e|pp] eqn:Ex; cbn [bind] in Hs; try discriminate.
    inversion Hs; subst s'; clear Hs; cbn. split; [|apply length_set_nth]. constructor; cbn.
    + eexists. eapply exec_snoc; eassumption.
    + eapply ones_step; [exact Hc|exact Hones|exact Ex|intros q Hq; discriminate].
    + destruct (drops_step c _ _ _ Ex) as [E|(id' & p & El & _)]; [rewrite E; exact Hop|discriminate].
Qed.

Lemma rexec_rinv : forall c ls s s', cfg_ok c -> rinv c s -> rexec c s ls = Ok s' ->
  rinv c s' /\ length (streams s') = length (streams s).
Proof.
  induction ls as [|l ls IH]; intros s s' Hc R H; cbn [rexec] in H.
  - inversion H. subst. split; [exact R|reflexivity].
  - destruct (rstep c s l) as [s1|e|p] eqn:Es; [|eapply IH; eassumption|discriminate].
    destruct (rstep_rinv c s l s1 Hc R Es) as [R1 L1].
    destruct (IH s1 s' Hc R1 H) as [R2 L2]. split; [exact R2|]. rewrite L2. exact L1.
Qed.

Lemma n_open_le : forall s, (n_open s <= length (streams s))%nat.
Proof.
  intros s. unfold n_open. induction (streams s) as [|x l IH]; cbn [filter length]; [lia|].
  destruct x; cbn [length]; lia.
Qed.

(* Per connection and capability: the OPEN frames a node sends (= calls it starts serving, one
   per OPEN) in any window stay within the rate, and the calls served concurrently within the
   number [n] of reusable streams (= min(local, peer) INFLIGHT by C14 open_streams_bounded),
   whatever the remote side and the application do (any label sequence). *)
Theorem rpc_rate_bound : forall c n ls s t1 t2, cfg_ok c -> rexec c (rinit c n) ls = Ok s ->
  t1 <= t2 ->
  count_window (opens s) t1 t2 <= burst c + (t2 - t1) / refresh c + 1 /\ (n_open s <= n)%nat.
Proof.
  intros c n ls s t1 t2 Hc H Ht.
  destruct (rexec_rinv c ls (rinit c n) s Hc (rinv_init c n) H) as [[[ls0 Hrun] (O1 & O2 & O3) Hop] Hlen].
  split.
  - rewrite (count_window_sum (opens s) (drops (lim s)) t1 t2 Hop O3).
    eapply consume_window_bound; eassumption.
  - pose proof (n_open_le s). rewrite Hlen in H0. cbn in H0. rewrite repeat_length in H0. exact H0.
Qed.

Theorem rpc_no_panic : forall c n ls p, cfg_ok c -> rexec c (rinit c n) ls <> Panic p.
Proof.
  intros c n ls p Hc. assert (G : forall ls s, rinv c s -> rexec c s ls <> Panic p).
  { induction ls0 as [|l ls0 IH]; intros s R H; cbn [rexec] in H; [discriminate|].
    destruct (rstep c s l) as [s1|e|q] eqn:Es.
    - eapply IH; [|exact H]. eapply rstep_rinv; eassumption.
    - eapply IH; eassumption.
    - destruct R as [[lsr Hrun] _ _].
      pose proof (exec_inv c lsr (init c) (lim s) Hc (inv_init c Hc) Hrun) as I.
      assert (P : forall l0 x, step c (lim s) l0 = x -> forall pp, x <> Panic pp).
      { intros l0 x Hx pp. subst x. apply step_no_panic; assumption. }
      destruct l as [l0|i|i|i|i]; cbn [rstep] in Es.
      + destruct l0; try discriminate;
          (destruct (step c (lim s) _) as [x|e|pp] eqn:Ex; cbn [bind] in Es; try discriminate;
           eapply (P _ _ Ex); reflexivity).
      + destruct (nth_error (streams s) i) as [[| |]|]; try discriminate.
        destruct (step c (lim s) (LBegin 1)) as [x|e|pp] eqn:Ex; cbn [bind] in Es; try discriminate.
        eapply (P _ _ Ex); reflexivity.
      + destruct (nth_error (streams s) i) as [[|id|]|]; try discriminate.
        destruct (find_id id (held (lim s))); [|discriminate].
        destruct (step c (lim s) (LDrop id)) as [x|e|pp] eqn:Ex; cbn [bind] in Es; try discriminate.
        eapply (P _ _ Ex); reflexivity.
      + destruct (nth_error (streams s) i) as [[| |]|]; discriminate.
      + destruct (nth_error (streams s) i) as [[|id|]|]; try discriminate.
        destruct (step c (lim s) (LCancel id)) as [x|e|pp] eqn:Ex; cbn [bind] in Es; try discriminate.
        eapply (P _ _ Ex); reflexivity. }
  apply G. apply rinv_init.
Qed.
