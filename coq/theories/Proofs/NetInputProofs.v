(* Lemmas for C10 over Model/NetInput.v. *)
From Coq Require Import ZArith List Bool Lia ZifyBool.
From EC Require Import Lib.Outcome Lib.U64 Lib.Obs Model.NetInput.
Import ListNotations.
Open Scope Z_scope.

Ltac Zify.zify_post_hook ::= Z.to_euclidean_division_equations.

Ltac unfold_ints :=
  unfold in_i64, in_i32, in_i64b, in_u64, I64_MIN, I64_MAX, I32_MIN, I32_MAX, NS, U64, u64_max in *.

(* destructs every `if b then _ else _` / match on an option-valued helper in the goal *)
Ltac split_ifs :=
  repeat match goal with
         | |- context [if ?b then _ else _] => let E := fresh "E" in destruct b eqn:E
         end.

(* ------------------------------------------------------------------------- *)
(* Durations *)

Lemma i64_checked_add_some : forall a b r, i64_checked_add a b = Some r -> r = a + b /\ in_i64 r.
Proof.
  intros a b r H. unfold i64_checked_add in H. destruct (in_i64b (a + b)) eqn:E; [|discriminate].
  inversion H; subst. split; [reflexivity|]. unfold_ints. lia.
Qed.
Lemma i64_checked_sub_some : forall a b r, i64_checked_sub a b = Some r -> r = a - b /\ in_i64 r.
Proof.
  intros a b r H. unfold i64_checked_sub in H. destruct (in_i64b (a - b)) eqn:E; [|discriminate].
  inversion H; subst. split; [reflexivity|]. unfold_ints. lia.
Qed.
Lemma i64_checked_add_in : forall a b, in_i64 (a + b) -> i64_checked_add a b = Some (a + b).
Proof. intros a b H. unfold i64_checked_add. replace (in_i64b (a + b)) with true; [reflexivity|]. unfold_ints. lia. Qed.
Lemma i64_checked_sub_in : forall a b, in_i64 (a - b) -> i64_checked_sub a b = Some (a - b).
Proof. intros a b H. unfold i64_checked_sub. replace (in_i64b (a - b)) with true; [reflexivity|]. unfold_ints. lia. Qed.

Lemma dur_nanoseconds_valid : forall n, in_i32 n ->
  dur_valid (dur_nanoseconds n) /\ -3 <= dsec (dur_nanoseconds n) <= 3.
Proof.
  intros n Hn. unfold dur_valid, dur_nanoseconds. cbn [dsec dnano]. unfold_ints. lia.
Qed.

(* checked_add of two valid durations is valid *)
Lemma dur_checked_add_valid : forall a b d, dur_valid a -> dur_valid b ->
  dur_checked_add a b = Some d ->
  dur_valid d /\ dsec d * NS + dnano d = (dsec a * NS + dnano a) + (dsec b * NS + dnano b).
Proof.
  intros a b d (Ha1 & Ha2 & Ha3 & Ha4) (Hb1 & Hb2 & Hb3 & Hb4) H.
  unfold dur_checked_add in H.
  destruct (i64_checked_add (dsec a) (dsec b)) as [s|] eqn:Es; [|discriminate].
  apply i64_checked_add_some in Es. destruct Es as (Es & Hs).
  destruct ((NS <=? dnano a + dnano b) || ((s <? 0) && (0 <? dnano a + dnano b))) eqn:E1.
  - destruct (i64_checked_add s 1) as [s'|] eqn:Es'; [|discriminate].
    apply i64_checked_add_some in Es'. destruct Es' as (Es' & Hs'). inversion H; subst d.
    unfold dur_valid. cbn [dsec dnano]. unfold_ints. lia.
  - destruct ((dnano a + dnano b <=? - NS) || ((0 <? s) && (dnano a + dnano b <? 0))) eqn:E2.
    + destruct (i64_checked_sub s 1) as [s'|] eqn:Es'; [|discriminate].
      apply i64_checked_sub_some in Es'. destruct Es' as (Es' & Hs'). inversion H; subst d.
      unfold dur_valid. cbn [dsec dnano]. unfold_ints. lia.
    + inversion H; subst d. unfold dur_valid. cbn [dsec dnano]. unfold_ints. lia.
Qed.

Lemma dur_seconds_valid : forall s, in_i64 s -> dur_valid (dur_seconds s).
Proof. intros s H. unfold dur_valid, dur_seconds. cbn [dsec dnano]. unfold_ints. lia. Qed.

Lemma from_parts_ok : forall g s n d, in_i64 s -> in_i32 n ->
  duration_from_parts g s n = Ok d ->
  dur_valid d /\ dsec d * NS + dnano d = s * NS + n /\
  (g = true -> ~ (dsec d = I64_MIN /\ dnano d < 0)).
Proof.
  intros g s n d Hs Hn H. unfold duration_from_parts in H.
  destruct (dur_checked_add (dur_seconds s) (dur_nanoseconds n)) as [d'|] eqn:E; [|discriminate].
  destruct (dur_nanoseconds_valid n Hn) as (Hv & _).
  destruct (dur_checked_add_valid _ _ _ (dur_seconds_valid s Hs) Hv E) as (Hd & Hval).
  destruct (g && (dsec d' =? I64_MIN) && (dnano d' <? 0)) eqn:G; [discriminate|].
  inversion H; subst d'. split; [exact Hd|]. split.
  - rewrite Hval. unfold dur_seconds, dur_nanoseconds. cbn [dsec dnano]. unfold_ints. lia.
  - intros -> (A & B). unfold_ints. lia.
Qed.

Lemma duration_read_no_panic : forall g s n p, duration_read g s n <> Panic p.
Proof.
  intros g s n p. unfold duration_read, duration_from_parts.
  destruct s as [s|]; [|discriminate]. destruct n as [n|]; [|discriminate].
  destruct (dur_checked_add _ _); [|discriminate]. split_ifs; discriminate.
Qed.

Lemma duration_read_ok : forall g s n d, duration_read g s n = Ok d ->
  exists s' n', s = Some s' /\ n = Some n' /\ duration_from_parts g s' n' = Ok d.
Proof.
  intros g s n d H. unfold duration_read in H.
  destruct s as [s'|]; [|discriminate]. destruct n as [n'|]; [|discriminate]. eauto.
Qed.

Lemma dur_add_zero_l : forall d, dur_valid d -> dur_checked_add dur_zero d = Some d.
Proof.
  intros [s n] (H1 & H2 & H3 & H4). cbn [dsec dnano] in *. unfold dur_checked_add, dur_zero. cbn [dsec dnano].
  rewrite i64_checked_add_in by (replace (0 + s) with s by lia; exact H1).
  replace (0 + s) with s by lia. replace (0 + n) with n by lia.
  replace ((NS <=? n) || ((s <? 0) && (0 <? n))) with false by (unfold_ints; lia).
  replace ((n <=? - NS) || ((0 <? s) && (n <? 0))) with false by (unfold_ints; lia).
  reflexivity.
Qed.

Lemma dur_sub_zero_r : forall d, dur_valid d -> dur_checked_sub d dur_zero = Some d.
Proof.
  intros [s n] (H1 & H2 & H3 & H4). cbn [dsec dnano] in *. unfold dur_checked_sub, dur_zero. cbn [dsec dnano].
  rewrite i64_checked_sub_in by (replace (s - 0) with s by lia; exact H1).
  replace (s - 0) with s by lia. replace (n - 0) with n by lia.
  replace ((NS <=? n) || ((s <? 0) && (0 <? n))) with false by (unfold_ints; lia).
  replace ((n <=? - NS) || ((0 <? s) && (n <? 0))) with false by (unfold_ints; lia).
  reflexivity.
Qed.

(* build of a valid duration that is not (i64::MIN, negative): exact, in range, no wrap, no panic *)
Lemma duration_build_ok : forall chk d, dur_valid d -> ~ (dsec d = I64_MIN /\ dnano d < 0) ->
  exists s n, duration_build chk d = Ok (s, n) /\ in_i64 s /\ 0 <= n < NS /\
              s * NS + n = dsec d * NS + dnano d.
Proof.
  intros chk [s n] (H1 & H2 & H3 & H4) Hne. cbn [dsec dnano] in *. unfold duration_build. cbn [dsec dnano].
  destruct (n <? 0) eqn:En.
  - unfold i64_sub. replace (in_i64b (s - 1)) with true by (unfold_ints; lia). cbn [bind].
    exists (s - 1), (n + NS). split; [reflexivity|]. unfold_ints. lia.
  - exists s, n. split; [reflexivity|]. unfold_ints. lia.
Qed.

Lemma duration_roundtrip : forall chk s n d, in_i64 s -> in_i32 n ->
  duration_read true (Some s) (Some n) = Ok d ->
  exists s' n', duration_build chk d = Ok (s', n') /\ in_i64 s' /\ 0 <= n' < NS /\
                s' * NS + n' = s * NS + n.
Proof.
  intros chk s n d Hs Hn H. cbn [duration_read] in H.
  destruct (from_parts_ok true s n d Hs Hn H) as (Hv & Hval & Hg).
  destruct (duration_build_ok chk d Hv (Hg eq_refl)) as (s' & n' & Hb & H1 & H2 & H3).
  exists s', n'. split; [exact Hb|]. unfold_ints. lia.
Qed.

Lemma utc_read_total : forall g s n, in_i64 s -> in_i32 n -> forall p, utc_read g (Some s) (Some n) <> Panic p.
Proof.
  intros g s n Hs Hn p. unfold utc_read.
  destruct (duration_read g (Some s) (Some n)) as [d| |q] eqn:E; cbn [bind]; try discriminate.
  - cbn [duration_read] in E. destruct (from_parts_ok g s n d Hs Hn E) as (Hv & _).
    unfold dur_add. rewrite (dur_add_zero_l d Hv). discriminate.
  - exfalso. exact (duration_read_no_panic _ _ _ _ E).
Qed.

Lemma utc_read_missing_no_panic : forall g s n p, (s = None \/ n = None) -> utc_read g s n <> Panic p.
Proof.
  intros g s n p H. unfold utc_read, duration_read.
  destruct s; destruct n; cbn [bind]; try discriminate; destruct H; discriminate.
Qed.

Lemma utc_roundtrip : forall chk s n t, in_i64 s -> in_i32 n ->
  utc_read true (Some s) (Some n) = Ok t ->
  exists s' n', utc_build chk t = Ok (s', n') /\ in_i64 s' /\ 0 <= n' < NS /\
                s' * NS + n' = s * NS + n.
Proof.
  intros chk s n t Hs Hn H. unfold utc_read in H.
  destruct (duration_read true (Some s) (Some n)) as [d| |q] eqn:E; cbn [bind] in H; try discriminate.
  cbn [duration_read] in E. destruct (from_parts_ok true s n d Hs Hn E) as (Hv & Hval & Hg).
  unfold dur_add in H. rewrite (dur_add_zero_l d Hv) in H. inversion H; subst t.
  unfold utc_build, dur_sub. rewrite (dur_sub_zero_r d Hv). cbn [bind].
  destruct (duration_build_ok chk d Hv (Hg eq_refl)) as (s' & n' & Hb & H1 & H2 & H3).
  exists s', n'. split; [exact Hb|]. unfold_ints. lia.
Qed.

(* witnesses for the unguarded reader (before repair 3005ef8) and the pre-dc190e4 constructor *)
Lemma duration_unguarded_refuted :
  duration_read false (Some I64_MIN) (Some (-1)) = Ok {| dsec := I64_MIN; dnano := -1 |} /\
  duration_build true {| dsec := I64_MIN; dnano := -1 |} = Panic POverflow /\
  duration_build false {| dsec := I64_MIN; dnano := -1 |} = Ok (I64_MAX, NS - 1).
Proof. repeat split; reflexivity. Qed.

Lemma duration_new_refuted : duration_from_parts_orig I64_MAX NS = Panic PUnwrap.
Proof. reflexivity. Qed.

(* ------------------------------------------------------------------------- *)
(* SocketAddr, BitVector, RateLimit *)

Lemma sockaddr_read_total : forall l p q, sockaddr_read l p <> Panic q.
Proof.
  intros l p q. unfold sockaddr_read. destruct l as [len|]; [|discriminate].
  destruct (len =? 4) eqn:E4.
  - unfold array_try_from. rewrite E4. cbn [bind]. destruct p; [|discriminate]. split_ifs; discriminate.
  - destruct (len =? 16) eqn:E16.
    + unfold array_try_from. rewrite E16. cbn [bind]. destruct p; [|discriminate]. split_ifs; discriminate.
    + cbn [bind]. discriminate.
Qed.

Lemma sockaddr_read_ok : forall l p len port, sockaddr_read l p = Ok (len, port) ->
  l = Some len /\ p = Some port /\ (len = 4 \/ len = 16) /\ port <= 65535.
Proof.
  intros l p len port H. unfold sockaddr_read in H. destruct l as [x|]; [|discriminate].
  destruct (x =? 4) eqn:E4; [|destruct (x =? 16) eqn:E16].
  - unfold array_try_from in H. rewrite E4 in H. cbn [bind] in H. destruct p as [y|]; [|discriminate].
    destruct (y <=? 65535) eqn:Ep; [|discriminate]. inversion H; subst. repeat split; try reflexivity; lia.
  - unfold array_try_from in H. rewrite E16 in H. cbn [bind] in H. destruct p as [y|]; [|discriminate].
    destruct (y <=? 65535) eqn:Ep; [|discriminate]. inversion H; subst. repeat split; try reflexivity; lia.
  - cbn [bind] in H. discriminate.
Qed.

Lemma bitvec_read_total : forall sz nb q,
  (forall n, nb = Some n -> 0 <= n < 2305843009213693952) -> bitvec_read sz nb <> Panic q.
Proof.
  intros sz nb q H. unfold bitvec_read. destruct sz; [|discriminate]. destruct nb as [n|]; [|discriminate].
  specialize (H n eq_refl). replace (U64 <=? 8 * n) with false by (unfold_ints; lia). split_ifs; discriminate.
Qed.

Lemma bitvec_read_ok : forall sz nb len, bitvec_read sz nb = Ok len ->
  exists n, nb = Some n /\ sz = Some len /\ len <= 8 * n.
Proof.
  intros sz nb len H. unfold bitvec_read in H. destruct sz as [s|]; [|discriminate].
  destruct nb as [n|]; [|discriminate]. destruct (U64 <=? 8 * n); [discriminate|].
  destruct (8 * n <? s) eqn:E; [discriminate|]. inversion H; subst. exists n. repeat split; lia.
Qed.

Lemma rate_total : forall g b r q,
  (forall s n, r = Some (Some s, Some n) -> in_i64 s /\ in_i32 n) ->
  rate_read g b r <> Panic q /\
  (forall x d, rate_read g b r = Ok (x, d) -> rate_build_burst x = Ok x).
Proof.
  intros g b r q _. split.
  - unfold rate_read. destruct b as [x|]; [|discriminate]. destruct (U64 <=? x); [discriminate|].
    destruct r as [[s n]|]; [|discriminate].
    destruct (duration_read g s n) eqn:E; try discriminate.
    exfalso. exact (duration_read_no_panic _ _ _ _ E).
  - intros x d H. unfold rate_read in H. destruct b as [y|]; [|discriminate].
    destruct (U64 <=? y) eqn:E; [discriminate|]. destruct r as [[s n]|]; [|discriminate].
    destruct (duration_read g s n); try discriminate. inversion H; subst.
    unfold rate_build_burst. replace (x <? U64) with true by lia. reflexivity.
Qed.

(* ------------------------------------------------------------------------- *)
(* Genesis *)

Lemma genesis_total : forall pv sched chain fork first,
  (forall q, genesis_read true pv sched chain fork first <> Panic q) /\
  (forall v has, genesis_read true pv sched chain fork first = Ok (v, has) ->
                 v = 2 /\ genesis_build v = Ok tt).
Proof.
  intros pv sched chain fork first. split.
  - intros q. unfold genesis_read. destruct pv as [v|]; [|discriminate].
    destruct (v =? 2); [destruct sched as [[|]|]|]; cbn [bind];
      destruct chain; destruct fork; destruct first; discriminate.
  - intros v has H. unfold genesis_read in H. destruct pv as [x|]; [|discriminate].
    destruct (x =? 2) eqn:E.
    + assert (x = 2) by lia. subst x.
      destruct sched as [[|]|]; cbn [bind] in H; destruct chain; destruct fork; destruct first;
        try discriminate; inversion H; subst; split; reflexivity.
    + cbn [bind] in H. discriminate.
Qed.

Lemma genesis_orig_refuted :
  genesis_read false (Some 3) None (Some 1) (Some 1) (Some 1) = Panic PUnreachable.
Proof. reflexivity. Qed.

(* ------------------------------------------------------------------------- *)
(* view successors *)

Lemma just_view_guarded : forall chk v, in_u64 v ->
  (v = u64_max /\ just_view chk true v = Err E_RANGE) \/
  (v < u64_max /\ just_view chk true v = Ok (v + 1) /\ in_u64 (v + 1)).
Proof.
  intros chk v Hv. unfold just_view, just_read. destruct (v <? u64_max) eqn:E.
  - right. cbn [bind]. unfold view_next, u64_add. replace (v + 1 <? U64) with true by (unfold_ints; lia).
    split; [lia|]. split; [reflexivity|]. unfold_ints. lia.
  - left. cbn [bind]. split; [unfold_ints; lia|reflexivity].
Qed.

Lemma just_view_orig_refuted :
  just_view true false u64_max = Panic POverflow /\ just_view false false u64_max = Ok 0.
Proof. split; reflexivity. Qed.

Lemma block_next_spec : forall v, in_u64 v ->
  (v < u64_max -> block_next v = Ok (v + 1)) /\ (v = u64_max -> block_next v = Panic PUnwrap).
Proof.
  intros v Hv. unfold block_next, u64_checked_add. split; intros H.
  - replace (v + 1 <? U64) with true by (unfold_ints; lia). reflexivity.
  - subst. reflexivity.
Qed.

Lemma msg_view_after_read : forall chk k v w, in_u64 v -> msg_read true k v = Ok w ->
  w = v /\ exists x, msg_view chk k v = Ok x /\ v <= x <= v + 1 /\ in_u64 x.
Proof.
  intros chk k v w Hv H. destruct k; cbn [msg_read msg_view] in *.
  1,2: inversion H; subst; split; [reflexivity|]; exists w; split; [reflexivity|]; unfold_ints; lia.
  all: unfold just_read in H; destruct (v <? u64_max) eqn:E; [|discriminate]; inversion H; subst;
    split; [reflexivity|]; exists (w + 1); unfold view_next, u64_add;
    replace (w + 1 <? U64) with true by (unfold_ints; lia); split; [reflexivity|]; unfold_ints; lia.
Qed.

Lemma selection_total : forall chk sk ko vo kn vn wo wn, in_u64 vo -> in_u64 vn ->
  msg_read true ko vo = Ok wo -> msg_read true kn vn = Ok wn ->
  exists r, selection chk sk ko vo kn vn = Ok r.
Proof.
  intros chk sk ko vo kn vn wo wn Ho Hn Ro Rn. unfold selection.
  destruct (negb sk || negb (mkind_eqb ko kn)); [eexists; reflexivity|].
  destruct (msg_view_after_read chk ko vo wo Ho Ro) as (_ & a & Ea & _).
  destruct (msg_view_after_read chk kn vn wn Hn Rn) as (_ & b & Eb & _).
  rewrite Ea, Eb. cbn [bind]. eexists; reflexivity.
Qed.

Lemma selection_orig_refuted :
  selection true true KNewView u64_max KNewView 3 = Panic POverflow.
Proof. reflexivity. Qed.

(* ------------------------------------------------------------------------- *)
(* frames *)

Section FrameProofs.
  Variable dec : list Z -> outcome Z unit.

  Lemma frame_alloc_bounded : forall max bs, 0 <= max ->
    fr_alloc (recv_proto dec max bs) <= max.
  Proof.
    intros max bs Hm. unfold recv_proto.
    destruct bs as [|b0 [|b1 [|b2 [|b3 rest]]]]; cbn [fr_alloc]; try lia.
    destruct (max <? le32 b0 b1 b2 b3) eqn:E; cbn [fr_alloc]; [lia|].
    destruct (Z.of_nat (length rest) <? le32 b0 b1 b2 b3) eqn:E2; cbn [fr_alloc]; lia.
  Qed.

  Lemma frame_reject_before_body : forall max b0 b1 b2 b3 rest,
    max < le32 b0 b1 b2 b3 ->
    recv_proto dec max (b0 :: b1 :: b2 :: b3 :: rest) =
      {| fr_out := Err F_TOO_LARGE; fr_consumed := 4; fr_alloc := 0 |}.
  Proof.
    intros. unfold recv_proto. replace (max <? le32 b0 b1 b2 b3) with true by lia. reflexivity.
  Qed.

  Lemma frame_consumed_bounded : forall max bs,
    fr_consumed (recv_proto dec max bs) <= Z.of_nat (length bs).
  Proof.
    intros max bs. unfold recv_proto.
    destruct bs as [|b0 [|b1 [|b2 [|b3 rest]]]]; cbn [fr_consumed length]; try lia.
    destruct (max <? le32 b0 b1 b2 b3) eqn:E; cbn [fr_consumed]; [lia|].
    destruct (Z.of_nat (length rest) <? le32 b0 b1 b2 b3) eqn:E2; cbn [fr_consumed]; lia.
  Qed.

  Lemma frame_total : (forall b p, dec b <> Panic p) ->
    forall max bs p, fr_out (recv_proto dec max bs) <> Panic p.
  Proof.
    intros Hd max bs p. unfold recv_proto.
    destruct bs as [|b0 [|b1 [|b2 [|b3 rest]]]]; cbn [fr_out]; try discriminate.
    destruct (max <? le32 b0 b1 b2 b3); cbn [fr_out]; [discriminate|].
    destruct (Z.of_nat (length rest) <? le32 b0 b1 b2 b3); cbn [fr_out]; [discriminate|].
    destruct (dec (firstn (Z.to_nat (le32 b0 b1 b2 b3)) rest)) eqn:E; try discriminate.
    exfalso. exact (Hd _ _ E).
  Qed.
End FrameProofs.

(* ------------------------------------------------------------------------- *)
(* mux header dispatch *)

Lemma zseq_in : forall n from h, In h (zseq from n) <-> from <= h < from + Z.of_nat n.
Proof.
  induction n as [|n IH]; intros from h; cbn [zseq In].
  - split; [tauto|lia].
  - rewrite IH. lia.
Qed.

Lemma headers_in : forall h, 0 <= h < 65536 -> In h (headers 0 65536).
Proof. intros h H. unfold headers. apply zseq_in. lia. Qed.

(* one exhaustive check of the dispatcher on all 65536 headers *)
Definition header_check (h : Z) : bool :=
  (match dispatch_core true h false with Err MBadId => true | _ => false end) &&
  (match dispatch_core true h true with
   | Ok FOpenClose => (frame_kind h =? FK_OPEN) || (frame_kind h =? FK_CLOSE)
   | Ok FData => frame_kind h =? FK_DATA
   | Err MBadKind => frame_kind h =? FK_MASK
   | _ => false
   end) &&
  ((stream_kind h =? SK_ACCEPT) || (stream_kind h =? SK_CONNECT)) &&
  (0 <=? stream_id h) && (stream_id h <=? ID_MASK) &&
  (h =? frame_kind h + stream_kind h + stream_id h).

Lemma all_headers_checked : forallb header_check (headers 0 65536) = true.
Proof. vm_compute. reflexivity. Qed.

Lemma header_check_holds : forall h, 0 <= h < 65536 -> header_check h = true.
Proof.
  intros h H. exact (proj1 (forallb_forall header_check (headers 0 65536)) all_headers_checked h (headers_in h H)).
Qed.

Lemma dispatch_core_total : forall h b p, 0 <= h < 65536 -> dispatch_core true h b <> Panic p.
Proof.
  intros h b p H E. pose proof (header_check_holds h H) as C. unfold header_check in C.
  repeat (apply andb_prop in C; destruct C as (C & ?)).
  destruct b; rewrite E in *; discriminate.
Qed.

Lemma dispatch_total : forall na nc h p, 0 <= h < 65536 -> dispatch true na nc h <> Panic p.
Proof. intros. unfold dispatch. apply dispatch_core_total. assumption. Qed.

Lemma dispatch_bad_id : forall na nc h, 0 <= h < 65536 -> table_size na nc h <= stream_id h ->
  dispatch true na nc h = Err MBadId.
Proof.
  intros na nc h H Hid. unfold dispatch. replace (stream_id h <? table_size na nc h) with false by lia.
  pose proof (header_check_holds h H) as C. unfold header_check in C.
  repeat (apply andb_prop in C; destruct C as (C & ?)).
  destruct (dispatch_core true h false) as [|[]|]; try discriminate. reflexivity.
Qed.

(* only the three defined frame kinds are ever forwarded to a stream *)
Lemma dispatch_kinds : forall fixed na nc h,
  (dispatch fixed na nc h = Ok FData -> frame_kind h = FK_DATA) /\
  (dispatch fixed na nc h = Ok FOpenClose -> frame_kind h = FK_OPEN \/ frame_kind h = FK_CLOSE).
Proof.
  intros fixed na nc h. unfold dispatch, dispatch_core.
  destruct (stream_kind h =? SK_ACCEPT); [|destruct (stream_kind h =? SK_CONNECT)]; cbn [bind];
    try (split; discriminate).
  all: destruct (negb (stream_id h <? table_size na nc h)); try (split; discriminate).
  all: destruct (frame_kind h =? FK_OPEN) eqn:E1; destruct (frame_kind h =? FK_CLOSE) eqn:E2;
    destruct (frame_kind h =? FK_DATA) eqn:E3; cbn [orb]; destruct fixed;
    split; intros Hq; try discriminate; try lia.
Qed.

Lemma dispatch_not_fuel : forall fixed na nc h, dispatch fixed na nc h <> Err MFuel /\ dispatch fixed na nc h <> Err MEof.
Proof.
  intros fixed na nc h. unfold dispatch, dispatch_core.
  destruct (stream_kind h =? SK_ACCEPT); [|destruct (stream_kind h =? SK_CONNECT)]; cbn [bind];
    try (split; discriminate).
  all: destruct (negb (stream_id h <? table_size na nc h)); try (split; discriminate).
  all: destruct ((frame_kind h =? FK_OPEN) || (frame_kind h =? FK_CLOSE)); try (split; discriminate).
  all: destruct (frame_kind h =? FK_DATA); try (split; discriminate).
  all: destruct fixed; split; discriminate.
Qed.

Lemma dispatch_orig_refuted : forall id, 0 <= id < 3 ->
  dispatch false 3 3 (FK_MASK + id) = Panic PUnreachable.
Proof.
  intros id H. assert (id = 0 \/ id = 1 \/ id = 2) as [->|[->| ->]] by lia; reflexivity.
Qed.

Lemma In_skipn_sub : forall (n : nat) (l : list Z) x, In x (skipn n l) -> In x l.
Proof.
  intros n l x H. rewrite <- (firstn_skipn n l). apply in_or_app. right. exact H.
Qed.

Lemma header_of_bytes : forall b0 b1, 0 <= b0 < 256 -> 0 <= b1 < 256 -> 0 <= b0 + 256 * b1 < 65536.
Proof. intros. lia. Qed.

Lemma process_total : forall fuel na nc bs consumed p, bytes_ok bs ->
  fst (process fuel true na nc bs consumed) <> Panic p.
Proof.
  induction fuel as [|fuel IH]; intros na nc bs consumed p Hb; cbn [process]; [cbn; discriminate|].
  destruct bs as [|b0 [|b1 rest]]; try (cbn; discriminate).
  inversion Hb as [|? ? H0 Hb1]; subst. inversion Hb1 as [|? ? H1 Hr]; subst.
  destruct (dispatch true na nc (b0 + 256 * b1)) as [[|]|e|q] eqn:E.
  - apply IH. exact Hr.
  - destruct rest as [|l0 [|l1 rest']]; try (cbn; discriminate).
    destruct (Z.of_nat (length rest') <? l0 + 256 * l1); [cbn; discriminate|].
    apply IH. inversion Hr as [|? ? ? Hr1]; subst. inversion Hr1 as [|? ? ? Hr2]; subst.
    unfold bytes_ok in *. rewrite Forall_forall in *. intros x Hx. apply Hr2.
    eapply In_skipn_sub. exact Hx.
  - cbn. discriminate.
  - exfalso. exact (dispatch_total na nc _ q (header_of_bytes b0 b1 H0 H1) E).
Qed.

Lemma process_never_ok : forall fuel fixed na nc bs consumed u,
  fst (process fuel fixed na nc bs consumed) <> Ok u.
Proof.
  induction fuel as [|fuel IH]; intros fixed na nc bs consumed u; cbn [process]; [cbn; discriminate|].
  destruct bs as [|b0 [|b1 rest]]; try (cbn; discriminate).
  destruct (dispatch fixed na nc (b0 + 256 * b1)) as [[|]|e|q]; try (cbn; discriminate).
  - apply IH.
  - destruct rest as [|l0 [|l1 rest']]; try (cbn; discriminate).
    destruct (Z.of_nat (length rest') <? l0 + 256 * l1); [cbn; discriminate|]. apply IH.
Qed.

Lemma process_fuel_suffices : forall fuel fixed na nc bs consumed, (length bs < fuel)%nat ->
  fst (process fuel fixed na nc bs consumed) <> Err MFuel.
Proof.
  induction fuel as [|fuel IH]; intros fixed na nc bs consumed Hl; [lia|]. cbn [process].
  destruct bs as [|b0 [|b1 rest]]; try (cbn; discriminate).
  destruct (dispatch fixed na nc (b0 + 256 * b1)) as [[|]|e|q] eqn:E.
  - apply IH. cbn [length] in Hl. lia.
  - destruct rest as [|l0 [|l1 rest']]; try (cbn; discriminate).
    destruct (Z.of_nat (length rest') <? l0 + 256 * l1); [cbn; discriminate|].
    apply IH. cbn [length] in Hl. rewrite skipn_length. lia.
  - cbn. intros H. inversion H; subst. exact (proj1 (dispatch_not_fuel fixed na nc _) E).
  - cbn. discriminate.
Qed.

Lemma mux_run_total : forall na nc bs, bytes_ok bs ->
  exists e, fst (mux_run true na nc bs) = Err e /\ e <> MFuel.
Proof.
  intros na nc bs Hb. unfold mux_run.
  destruct (fst (process (S (length bs)) true na nc bs 0)) as [u|e|p] eqn:E.
  - exfalso. exact (process_never_ok _ _ _ _ _ _ u E).
  - exists e. split; [reflexivity|]. intros ->.
    exact (process_fuel_suffices (S (length bs)) true na nc bs 0 (Nat.lt_succ_diag_r _) E).
  - exfalso. exact (process_total _ _ _ _ _ p Hb E).
Qed.

(* exhaustive: every header followed by a fixed tail, every stream-table size 0..3 x 0..3 *)
Definition small_tables : list Z := [0; 1; 2; 3].
Definition sweep_tail : list Z := [1; 0; 255; 255].
Definition sweep_ok (na nc h : Z) : bool :=
  match fst (mux_run true na nc ((h mod 256) :: (h / 256) :: sweep_tail)) with
  | Err MEof | Err MBadId | Err MBadKind => true
  | _ => false
  end.
Lemma sweep_all_ok :
  forallb (fun na => forallb (fun nc => forallb (sweep_ok na nc) (headers 0 65536)) small_tables) small_tables = true.
Proof. vm_compute. reflexivity. Qed.

Lemma sweep_ok_forall : forall na nc h, In na small_tables -> In nc small_tables -> 0 <= h < 65536 ->
  sweep_ok na nc h = true.
Proof.
  intros na nc h Ha Hc Hh. pose proof sweep_all_ok as S.
  rewrite forallb_forall in S. specialize (S na Ha). rewrite forallb_forall in S. specialize (S nc Hc).
  rewrite forallb_forall in S. exact (S h (headers_in h Hh)).
Qed.

Lemma u16_index_bounds : forall b0 b1, 0 <= b0 < 256 -> 0 <= b1 < 256 ->
  0 <= b0 + 256 * b1 <= 65535 /\ b0 + 256 * b1 < 65536 /\ 2 + (b0 + 256 * b1) <= 65537.
Proof. intros. lia. Qed.
