(* C06 on the protocol model: the statements that remain to be proved, as definitions; a
   refutation of one of them as first stated; and the satisfiability of the hypotheses of the
   three-round catch-up theorem. *)
From Coq Require Import ZArith List Bool Lia.
From EC Require Import Lib.Outcome Lib.U64 Lib.ListW Model.Msgs Model.Replica Model.ReplicaRun Model.Protocol Proofs.QCProofs
  Model.ProtocolSync Proofs.ProtocolRefinesExec Proofs.ProtocolRefinesExample
  Proofs.ProtocolLive Proofs.ProtocolLiveInv Proofs.ProtocolLiveExample Proofs.ProtocolLiveCatch
  Proofs.ProtocolLiveNoStop Proofs.ProtocolLiveCommitStep Proofs.ProtocolLiveCommitLock Proofs.ProtocolLiveCommit
  Proofs.ProtocolLiveTimeoutStep Proofs.ProtocolLiveTimeoutLock Proofs.ProtocolLiveTimeout
  Proofs.ProtocolLiveTidy Proofs.ProtocolLiveLockstep Proofs.ProtocolLiveAlign Proofs.ProtocolLiveAvail.
Import ListNotations.
Open Scope Z_scope.

Definition height (s : gstate) (k : Z) : Z := r_store_next (n_live (g_node s k)).
(* arithmetic headroom: no durable view (offset by the first block number, which bounds the
   block numbers of all verifying certificates) and no view number of a message on the network
   is within B of 2^64 (view.next() / number.next() panic on overflow with checks on: known
   finding; handlers compute the successor of a message's view before verifying it) *)
Definition headroom (P : params) (s : gstate) (B : Z) : Prop :=
  (forall k, honestb P k = true -> p_first P + dview s k + B < U64) /\
  (forall m, In m (g_soup s) -> msg_view (m_msg m) + B < U64).

(* (b), complete form *)
Definition C06_catch_up (R : nat) : Prop :=
  forall P pay fetch, params_ok P -> env_ok P pay -> forall s, preach P s -> headroom P s (Z.of_nat R + 2) ->
  forall h k, honestb P h = true -> honestb P k = true -> up s h -> up (sync_rounds P pay fetch R s) k ->
  hview s h <= hview (sync_rounds P pay fetch R s) k.

(* what separates the proved three-round theorem from [C06_catch_up 3]: honest nodes do not stop
   during a synchronous suffix with headroom (stopping = Panic / RBlocked / RInternal) *)
Definition C06_no_stop (R : nat) : Prop :=
  forall P pay fetch, params_ok P -> env_ok P pay -> forall s, preach P s -> headroom P s (Z.of_nat R + 2) ->
  forall r k, (1 <= r <= R)%nat -> honestb P k = true -> up (sync_rounds P pay fetch r s) k.

(* (c) alignment *)
Definition aligned (P : params) (s : gstate) (V : Z) : Prop :=
  forall k, honestb P k = true -> up s k /\ hview s k = V /\
    (r_phase (n_live (g_node s k)) = Prepare \/ r_phase (n_live (g_node s k)) = PTimeout).
Definition C06_sync_rounds_align (R : nat) : Prop :=
  forall P pay fetch, params_ok P -> env_ok P pay -> forall s, preach P s -> headroom P s (Z.of_nat R + 2) ->
  fetch_ok_run P pay fetch s R ->
  exists V, aligned P (sync_rounds P pay fetch R s) V /\ forall k, honestb P k = true -> hview s k <= V.

(* (d) as first stated: REFUTED below for R = 4 (view 0 has no proposal) *)
Definition C06_aligned_view_commits (R : nat) : Prop :=
  forall P pay fetch, params_ok P -> env_ok P pay -> forall s V, preach P s -> headroom P s (Z.of_nat R + 2) ->
  fetch_ok_run P pay fetch s R ->
  aligned P s V -> honestb P (cleader (pcfg P 0) V) = true ->
  forall k, honestb P k = true -> height s k < height (sync_rounds P pay fetch R s) k.

(* (d) corrected: the leader of the aligned view has been notified of a justification for it
   (it entered the view through start_new_view in this incarnation; a restarted leader does not
   propose until the next view change) *)
Definition leader_ready (P : params) (s : gstate) (V : Z) : Prop :=
  exists j mv, n_notify (g_node s (cleader (pcfg P 0) V)) = Some j /\
               justification_view (E := unit) true j = Ok mv /\ vnum mv = V.
Definition C06_aligned_view_commits' (R : nat) : Prop :=
  forall P pay fetch, params_ok P -> env_ok P pay -> forall s V, preach P s -> headroom P s (Z.of_nat R + 2) ->
  fetch_ok_run P pay fetch s R ->
  aligned P s V -> honestb P (cleader (pcfg P 0) V) = true -> leader_ready P s V ->
  forall k, honestb P k = true -> height s k < height (sync_rounds P pay fetch R s) k.

(* (e) bounded progress with a silent adversary *)
Definition byz_run (P : params) (V : Z) (nbyz : nat) : Prop :=
  exists i, (i <= nbyz)%nat /\ honestb P (cleader (pcfg P 0) (V + Z.of_nat i)) = true.
Definition C06_progress_partial : Prop :=
  forall P pay fetch nbyz, params_ok P -> env_ok P pay -> forall s, preach P s ->
  headroom P s (2 * Z.of_nat nbyz + 8) ->
  fetch_ok_run P pay fetch s (2 * nbyz + 6) ->
  (forall V, byz_run P V nbyz) ->
  forall k, honestb P k = true ->
    height s k < height (sync_rounds P pay fetch (2 * nbyz + 6) s) k.

(* the full statement: the adversary keeps injecting messages between the rounds *)
Inductive byz_steps (P : params) : gstate -> gstate -> Prop :=
| BSNil s : byz_steps P s s
| BSCons s m s' : adv_ok P (g_soup s) m -> byz_steps P (add_msg s m) s' -> byz_steps P s s'.
Inductive adv_suffix (P : params) (pay : Z -> Z) (fetch : gstate -> Z -> option cqc) :
    nat -> gstate -> gstate -> Prop :=
| ASNil s : adv_suffix P pay fetch 0 s s
| ASRound n s s1 s' : byz_steps P s s1 -> adv_suffix P pay fetch n (sync_round P pay fetch s1) s' ->
                      adv_suffix P pay fetch (S n) s s'.
Definition C06_full : Prop :=
  forall P pay fetch nbyz, params_ok P -> env_ok P pay -> fetch_ok P fetch -> forall s, preach P s ->
  (forall V, byz_run P V nbyz) ->
  exists R, forall s', adv_suffix P pay fetch R s s' ->
    (forall m, In m (g_soup s') -> msg_view (m_msg m) + 2 < U64) ->
    forall k, honestb P k = true -> height s k < height s' k.

(* ================================================================== *)
(* H-FETCH: the general assumption implies the one restricted to a run; a boolean test of
   [fetch_ok_at], used to show the assumption satisfiable on concrete runs *)
Lemma sync_point_reach P pay s : preach P s -> preach P (sync_point P pay s).
Proof.
  intros Hs. unfold sync_point.
  assert (H0 : preach P (revive_all P s)).
  { unfold revive_all. apply fold_reach; [intros; apply revive1_reach; assumption|exact Hs]. }
  unfold propose_all. apply fold_reach; [intros; apply propose1_reach; assumption|].
  unfold deliver_all. apply fold_reach; [|exact H0].
  intros s1 i H1. unfold deliver_msg. apply fold_reach; [intros; apply deliver1_reach; assumption|exact H1].
Qed.

Lemma fetch_ok_run_of P pay fetch s R : preach P s -> fetch_ok P fetch -> fetch_ok_run P pay fetch s R.
Proof. intros Hs H r _. apply H, sync_point_reach, sync_rounds_reach, Hs. Qed.

Definition fetch_ok_atb (P : params) (fetch : gstate -> Z -> option cqc) (s : gstate) : bool :=
  forallb (fun x => match fetch s (snd (fst x)) with
                    | Some q => (hnum (cprop (qmsg q)) =? snd (fst x)) && (hpay (cprop (qmsg q)) =? snd x)
                                && is_ok (cqc_verify (p_g P) (p_e P) (p_C P) q) && cqc_knownb P (g_soup s) q
                    | None => false
                    end) (g_qlog s).
Lemma fetch_ok_atb_spec P fetch s : fetch_ok_atb P fetch s = true -> fetch_ok_at P fetch s.
Proof.
  intros H k n h _ Hin. unfold fetch_ok_atb in H. rewrite forallb_forall in H. specialize (H _ Hin).
  cbn [fst snd] in H. destruct (fetch s n) as [q|]; [|discriminate]. exists q.
  apply andb_true_iff in H. destruct H as [H H4]. apply andb_true_iff in H. destruct H as [H H3].
  apply andb_true_iff in H. destruct H as [H1 H2]. apply Z.eqb_eq in H1, H2.
  repeat split; auto.
  destruct (cqc_verify (p_g P) (p_e P) (p_C P) q) as [[]| |]; [reflexivity|discriminate|discriminate].
Qed.
Definition fetch_ok_runb (P : params) (pay : Z -> Z) (fetch : gstate -> Z -> option cqc) (s : gstate) (R : nat) : bool :=
  forallb (fun r => fetch_ok_atb P fetch (sync_point P pay (sync_rounds P pay fetch r s))) (seq 0 R).
Lemma fetch_ok_runb_spec P pay fetch s R : fetch_ok_runb P pay fetch s R = true -> fetch_ok_run P pay fetch s R.
Proof.
  intros H r Hr. unfold fetch_ok_runb in H. rewrite forallb_forall in H.
  apply fetch_ok_atb_spec, (H r), in_seq. lia.
Qed.

(* H-FETCH is satisfiable on the example runs with the oracle that scans the network and the
   honest nodes' highest certificates: from the initial state, and after the adversarial prefix
   of ProtocolLiveExample (where the block has to be fetched) *)
Lemma ex_fetch_run : fetch_ok_run ex_P ex_pay (find_cert ex_P) (ginit ex_P) 6.
Proof. apply fetch_ok_runb_spec. vm_compute. reflexivity. Qed.

Lemma ex_fetch_recovery_obs1 :
  option_map (fun s => fetch_ok_runb ex_P ex_pay (find_cert ex_P) s 4) (xrun ex_P (ginit ex_P) ex_ops_part) = Some true.
Proof. vm_compute. reflexivity. Qed.

Lemma xrun_some_reach2 {A B} P ops (f : gstate -> A) (g : gstate -> B) v w :
  option_map f (xrun P (ginit P) ops) = Some v -> option_map g (xrun P (ginit P) ops) = Some w ->
  exists s, preach P s /\ f s = v /\ g s = w.
Proof.
  destruct (xrun P (ginit P) ops) as [s|] eqn:E; cbn [option_map]; [|discriminate].
  intros H1 H2. injection H1 as H1. injection H2 as H2. exists s. split; [|split; assumption].
  eapply xrun_reach; [apply PReachInit|exact E].
Qed.

Lemma ex_fetch_recovery :
  exists s, preach ex_P s /\ fetch_ok_run ex_P ex_pay (find_cert ex_P) s 4 /\
            g_qlog (sync_rounds ex_P ex_pay (find_cert ex_P) 2 s) = [(1, 0, 42); (2, 0, 42); (3, 0, 42); (4, 0, 42)].
Proof.
  destruct (xrun_some_reach2 _ _ _ _ _ _ ex_fetch_recovery_obs1 ex_recovery_qlog) as (s & Hr & H1 & H2).
  exists s. split; [exact Hr|]. split; [apply fetch_ok_runb_spec; exact H1|exact H2].
Qed.

(* ================================================================== *)
(* the first statement of (d) is false: at the initial state of the six-validator committee
   with validator 2 Byzantine all honest nodes are aligned in view 0 whose leader (validator 1)
   is honest, and nobody's height grows within four rounds *)
Lemma ex_P6_hon k : honestb ex_P6 k = true -> In k [1; 3; 4; 5; 6].
Proof. intros H. apply hon_in_honest_keys in H. exact H. Qed.

Lemma ex_env6_ok : env_ok ex_P6 ex_pay.
Proof. split; [|split]; cbn; intros; try reflexivity; lia. Qed.

Lemma Forall_forallb {A} (p : A -> bool) (l : list A) : forallb p l = true -> forall x, In x l -> p x = true.
Proof. intros H. apply forallb_forall. exact H. Qed.

Theorem aligned_view_commits_refuted : ~ C06_aligned_view_commits 4.
Proof.
  intros H. specialize (H ex_P6 ex_pay (find_cert ex_P6) ex_P6_ok ex_env6_ok (ginit ex_P6) 0 (PReachInit ex_P6)).
  assert (Hhead : headroom ex_P6 (ginit ex_P6) (Z.of_nat 4 + 2)).
  { split.
    - intros k Hk. apply ex_P6_hon in Hk.
      repeat (destruct Hk as [<-|Hk]; [vm_compute; reflexivity|]). destruct Hk.
    - intros m Hin.
      assert (Hb : forallb (fun m => msg_view (m_msg m) + (Z.of_nat 4 + 2) <? U64) (g_soup (ginit ex_P6)) = true)
        by (vm_compute; reflexivity).
      apply Z.ltb_lt. exact (Forall_forallb _ _ Hb m Hin). }
  assert (Hal : aligned ex_P6 (ginit ex_P6) 0).
  { intros k Hk. apply ex_P6_hon in Hk.
    repeat (destruct Hk as [<-|Hk]; [vm_compute; split; [reflexivity|split; [reflexivity|right; reflexivity]]|]).
    destruct Hk. }
  assert (Hf : fetch_ok_run ex_P6 ex_pay (find_cert ex_P6) (ginit ex_P6) 4)
    by (apply fetch_ok_runb_spec; vm_compute; reflexivity).
  specialize (H Hhead Hf Hal eq_refl 1 eq_refl).
  vm_compute in H. discriminate H.
Qed.

(* ================================================================== *)
(* the hypotheses of the three-round catch-up theorem are satisfiable *)
Lemma ex_P_hon k : honestb ex_P k = true -> In k [1; 2; 3; 4].
Proof. intros H. apply hon_in_honest_keys in H. exact H. Qed.

Lemma ex_catch_up_hyps :
  let s := ginit ex_P in
  let s1 := sync_round ex_P ex_pay (find_cert ex_P) s in
  let s2 := sync_round ex_P ex_pay (find_cert ex_P) s1 in
  (forall k, honestb ex_P k = true -> up s1 k /\ up s2 k) /\
  (forall k, honestb ex_P k = true -> dview s k + 4 < U64) /\
  (forall k, honestb ex_P k = true -> up s k).
Proof.
  cbv zeta. split; [|split]; intros k Hk; apply ex_P_hon in Hk;
    repeat (destruct Hk as [<-|Hk]; [vm_compute; try split; reflexivity|]); destruct Hk.
Qed.

(* ================================================================== *)
(* honest nodes do not stop during a synchronous suffix with headroom; hence the exact form of (b) *)
Theorem no_stop_holds : forall R, C06_no_stop R.
Proof.
  intros R P pay fetch HP (_ & _ & Hf) s Hr (Hd & Hs) r k Hrr Hk.
  assert (Hdk : 0 <= dview s k).
  { destruct (preach_LI P s Hr k) as [(_ & _ & H0 & _) _]. exact H0. }
  pose proof (Hd k Hk) as Hdk2.
  assert (H1 : forall k', honestb P k' = true -> dview s k' <= U64 - p_first P - Z.of_nat R - 3)
    by (intros k' Hk'; specialize (Hd k' Hk'); lia).
  assert (H2 : forall m, In m (g_soup s) -> msg_view (m_msg m) <= U64 - Z.of_nat R - 2)
    by (intros m Hin; specialize (Hs m Hin); lia).
  exact (no_stop_rounds P HP pay fetch Hf R s _ _ Hr H1 H2 ltac:(lia) ltac:(lia) ltac:(lia) ltac:(lia) r Hrr k Hk).
Qed.

Theorem catch_up_holds : C06_catch_up 3.
Proof.
  intros P pay fetch HP He s Hr Hh h k Hhh Hk Huph Hupk.
  pose proof (no_stop_holds 3 P pay fetch HP He s Hr Hh) as Hns.
  destruct He as (_ & _ & Hf). destruct Hh as (Hd & _).
  change (sync_rounds P pay fetch 3 s) with (sync_round P pay fetch (sync_round P pay fetch (sync_round P pay fetch s))) in *.
  apply (catch_up_three_rounds P HP pay fetch s h k Hr); try assumption.
  - intros k' Hk'. split.
    + exact (Hns 1%nat k' ltac:(lia) Hk').
    + exact (Hns 2%nat k' ltac:(lia) Hk').
  - intros k' Hk'. specialize (Hd k' Hk'). change (Z.of_nat 3 + 2) with 5 in Hd. lia.
Qed.

Lemma ex_headroom : headroom ex_P (ginit ex_P) 5 /\ env_ok ex_P ex_pay /\
  (forall k, honestb ex_P k = true -> up (ginit ex_P) k).
Proof.
  split; [split|split; [exact ex_env_ok|]].
  - intros k Hk. apply ex_P_hon in Hk. repeat (destruct Hk as [<-|Hk]; [vm_compute; reflexivity|]). destruct Hk.
  - intros m Hin.
    assert (Hb : forallb (fun m => msg_view (m_msg m) + 5 <? U64) (g_soup (ginit ex_P)) = true) by (vm_compute; reflexivity).
    apply Z.ltb_lt. exact (Forall_forallb _ _ Hb m Hin).
  - intros k Hk. apply ex_P_hon in Hk. repeat (destruct Hk as [<-|Hk]; [vm_compute; reflexivity|]). destruct Hk.
Qed.

(* ================================================================== *)
(* (d), as it holds of the model: a view in which every honest node waits in phase Prepare,
   with the block store at the proposed number, and with ONE proposal of the view's leader on
   the network, is decided within two synchronous rounds: every honest node stores the block
   and enters the next view.  ("The leader is ready" is not enough: a proposal sent during a
   round in which the nodes did not enter the view arrives after their view timers fired.) *)
Definition proposal_on_network (P : params) (pay : Z -> Z) (s : gstate) (V n : Z) : Prop :=
  exists j mv,
    justification_view (E := unit) true j = Ok mv /\ vnum mv = V /\
    justification_verify (p_g P) (p_e P) (p_C P) j = Ok tt /\
    get_implied_block (E := unit) true (p_C P) (p_first P) j = Ok (n, None) /\
    In {| m_key := cleader (pcfg P 0) V; m_sig_ok := true; m_msg := MProposal (Some (pay n)) j |} (g_soup s) /\
    (* every proposal for view V under the leader's valid signature is this one *)
    (forall m p' j' mv', In m (g_soup s) -> m_msg m = MProposal p' j' -> m_key m = cleader (pcfg P 0) V ->
       m_sig_ok m = true -> justification_view (E := unit) true j' = Ok mv' -> vnum mv' = V ->
       justification_verify (p_g P) (p_e P) (p_C P) j' = Ok tt ->
       p' = Some (pay n) /\ j' = j).

Definition waiting (P : params) (s : gstate) (V n : Z) : Prop :=
  forall k, honestb P k = true ->
    up s k /\ hview s k = V /\ r_phase (n_live (g_node s k)) = Prepare /\ height s k = n.

Definition C06_view_commits : Prop :=
  forall P pay fetch, params_ok P -> env_ok P pay -> forall s V n, preach P s -> headroom P s 4 ->
  0 < V -> waiting P s V n -> proposal_on_network P pay s V n ->
  forall k, honestb P k = true ->
    up (sync_rounds P pay fetch 2 s) k /\ V < hview (sync_rounds P pay fetch 2 s) k /\
    height s k < height (sync_rounds P pay fetch 2 s) k.

Theorem view_commits_holds : C06_view_commits.
Proof.
  intros P pay fetch HP He s V n Hr (Hd & Hs) HV Hw (j & mv & Hjv & Hmv & Hjver & Himp & Hin & Huq) k Hk.
  destruct (Hw k Hk) as (Hu & Hv & _ & Hh).
  assert (Hf : 0 <= p_first P) by apply He.
  assert (Hfn : p_first P <= n).
  { destruct (preach_NC P s Hf Hr k) as [(_ & A2 & _) _].
    destruct (ProtocolRefinesInv.preach_inv P HP s Hr) as [a G].
    pose proof (ProtocolRefinesInv.ni_first _ _ _ _ _ (ProtocolRefinesInv.gi_node _ _ _ G k Hk)) as E.
    unfold height in Hh. rewrite E in A2. lia. }
  assert (HdV : p_first P + V + 4 < U64).
  { specialize (Hd k Hk). rewrite (up_dview P HP s k Hr Hk Hu), Hv in Hd. exact Hd. }
  destruct (commit_new_block P HP pay fetch He (U64 - 3) s V n j mv ltac:(lia) Hjv Hmv Hjver Himp Hfn HV Hr
              ltac:(lia) ltac:(lia)
              (fun m Hm => ltac:(specialize (Hs m Hm); lia))
              (fun k0 Hk0 => ltac:(destruct (Hw k0 Hk0) as (A & B & C & D); unfold height in D; repeat split; auto; lia))
              Hin Huq k Hk) as (H1 & H2 & H3).
  split; [exact H1|]. split; [exact H2|]. rewrite Hh. unfold height. exact H3.
Qed.

(* (d) for a forced re-proposal: the leader's single proposal for view V carries no payload and
   its justification implies the re-proposal of block (n, h); some honest node still has the
   payload of that block cached; the block-fetch oracle answers at the sync point of the second
   round (H-FETCH).  Then within two rounds every honest node has stored block n -- the nodes with
   the payload when they form the commit certificate, the others by fetching it in the same round
   -- and entered the next view. *)
Definition reproposal_on_network (P : params) (s : gstate) (V n h : Z) : Prop :=
  exists j mv,
    justification_view (E := unit) true j = Ok mv /\ vnum mv = V /\
    justification_verify (p_g P) (p_e P) (p_C P) j = Ok tt /\
    get_implied_block (E := unit) true (p_C P) (p_first P) j = Ok (n, Some h) /\
    In {| m_key := cleader (pcfg P 0) V; m_sig_ok := true; m_msg := MProposal None j |} (g_soup s) /\
    (forall m p' j' mv', In m (g_soup s) -> m_msg m = MProposal p' j' -> m_key m = cleader (pcfg P 0) V ->
       m_sig_ok m = true -> justification_view (E := unit) true j' = Ok mv' -> vnum mv' = V ->
       justification_verify (p_g P) (p_e P) (p_C P) j' = Ok tt ->
       p' = None /\ j' = j).

Definition C06_view_recommits : Prop :=
  forall P pay fetch, params_ok P -> env_ok P pay -> forall s V n h, preach P s -> headroom P s 4 ->
  0 < V -> waiting P s V n -> reproposal_on_network P s V n h ->
  (exists k0, honestb P k0 = true /\ cache_has (r_cache (n_live (g_node s k0))) n h = true) ->
  fetch_ok_at P fetch (sync_point P pay (sync_round P pay fetch s)) ->
  forall k, honestb P k = true ->
    up (sync_rounds P pay fetch 2 s) k /\ hview (sync_rounds P pay fetch 2 s) k = V + 1 /\
    height s k < height (sync_rounds P pay fetch 2 s) k.

Theorem view_recommits_holds : C06_view_recommits.
Proof.
  intros P pay fetch HP He s V n h Hr (Hd & Hs) HV Hw (j & mv & Hjv & Hmv & Hjver & Himp & Hin & Huq) Hk0 Hfo k Hk.
  destruct (Hw k Hk) as (Hu & Hv & _ & Hh).
  assert (Hf : 0 <= p_first P) by apply He.
  assert (Hfn : p_first P <= n).
  { destruct (preach_NC P s Hf Hr k) as [(_ & A2 & _) _].
    destruct (ProtocolRefinesInv.preach_inv P HP s Hr) as [a G].
    pose proof (ProtocolRefinesInv.ni_first _ _ _ _ _ (ProtocolRefinesInv.gi_node _ _ _ G k Hk)) as E.
    unfold height in Hh. rewrite E in A2. lia. }
  assert (HdV : p_first P + V + 4 < U64).
  { specialize (Hd k Hk). rewrite (up_dview P HP s k Hr Hk Hu), Hv in Hd. exact Hd. }
  assert (Hkind : (Some h = None /\ @None Z = Some h /\ p_pok P n h = true /\ p_psize P h <= p_maxpay P) \/
                  (Some h = Some h /\ @None Z = None)) by (right; auto).
  destruct (commit_two_rounds_post P HP pay fetch He V n j mv None h (Some h) Hjv Hmv Hjver Himp Hkind Hfn HV s Hr (U64 - 3)
              ltac:(lia) ltac:(lia) ltac:(lia)
              (fun m Hm => ltac:(specialize (Hs m Hm); lia))
              (fun k0 Hk0' => ltac:(destruct (Hw k0 Hk0') as (A & B & C & D); unfold height in D; repeat split; auto; lia))
              Hin Huq (or_intror Hk0) (fun _ => Hfo)) as (_ & _ & H3 & _).
  destruct (H3 k Hk) as (A & B & _ & D). split; [exact A|]. split; [exact B|]. rewrite Hh. unfold height. lia.
Qed.

(* consecutive views with honest leaders, starting from such a view: one block every two
   rounds, and the honest nodes stay in lockstep *)
Definition C06_progress_honest_leaders : Prop :=
  forall P pay fetch (r : nat), params_ok P -> env_ok P pay -> forall s V n, preach P s ->
  headroom P s (Z.of_nat r + 2) -> 0 < V -> waiting P s V n -> proposal_on_network P pay s V n ->
  (forall i, (1 <= i < r)%nat -> honestb P (cleader (pcfg P 0) (V + Z.of_nat i)) = true) ->
  forall k, honestb P k = true ->
    up (sync_rounds P pay fetch (2 * r) s) k /\
    hview (sync_rounds P pay fetch (2 * r) s) k = V + Z.of_nat r /\
    height s k + Z.of_nat r <= height (sync_rounds P pay fetch (2 * r) s) k.

Theorem progress_honest_leaders_holds : C06_progress_honest_leaders.
Proof.
  intros P pay fetch r HP He s V n Hr (Hd & Hs) HV Hw Hpn Hhon k Hk.
  destruct (Hw k Hk) as (Hu & Hv & _ & Hh).
  assert (Hf : 0 <= p_first P) by apply He.
  assert (Hfn : p_first P <= n).
  { destruct (preach_NC P s Hf Hr k) as [(_ & A2 & _) _].
    destruct (ProtocolRefinesInv.preach_inv P HP s Hr) as [a G].
    pose proof (ProtocolRefinesInv.ni_first _ _ _ _ _ (ProtocolRefinesInv.gi_node _ _ _ G k Hk)) as E.
    unfold height in Hh. rewrite E in A2. lia. }
  assert (HdV : p_first P + V + (Z.of_nat r + 2) < U64).
  { specialize (Hd k Hk). rewrite (up_dview P HP s k Hr Hk Hu), Hv in Hd. exact Hd. }
  destruct (honest_chain P HP pay fetch He (U64 - 2) ltac:(lia) r s V n Hr Hfn HV ltac:(lia) ltac:(lia)
              (fun m Hm => ltac:(specialize (Hs m Hm); lia))
              (fun k0 Hk0 => ltac:(destruct (Hw k0 Hk0) as (A & B & C & D); unfold height in D; repeat split; auto; lia))
              (fun _ => Hpn) Hhon) as (_ & _ & Hlock & _).
  destruct (Hlock k Hk) as (A & B & _ & D). split; [exact A|]. split; [exact B|].
  rewrite Hh. unfold height. exact D.
Qed.

(* the timeout twin of (d): a waiting view without a verifying proposal on the network is
   abandoned by every honest node in the same round, two rounds later; the honest leader of the
   next view has then proposed for the justification (its own timeout certificate for V) its
   proposer was notified of, and that is the only verifying proposal for view V+1; a Byzantine
   leader of the next view has no verifying proposal for it on the network *)
Definition no_proposal (P : params) (s : gstate) (V : Z) : Prop :=
  forall m p' j' mv', In m (g_soup s) -> m_msg m = MProposal p' j' ->
    justification_view (E := unit) true j' = Ok mv' -> vnum mv' = V ->
    justification_verify (p_g P) (p_e P) (p_C P) j' = Ok tt -> False.

Definition C06_view_times_out : Prop :=
  forall P pay fetch, params_ok P -> env_ok P pay -> forall s V n, preach P s -> headroom P s 4 ->
  0 < V -> waiting P s V n -> no_proposal P s V ->
  forall k0, honestb P k0 = true ->      (* some validator is honest *)
  let s2 := sync_rounds P pay fetch 2 s in
  let L' := cleader (pcfg P 0) (V + 1) in
  (forall k, honestb P k = true ->
     up s2 k /\ hview s2 k = V + 1 /\ r_phase (n_live (g_node s2 k)) = Prepare /\ height s k <= height s2 k) /\
  (honestb P L' = true ->
     exists tq p, vnum (tqview tq) = V /\
       justification_verify (p_g P) (p_e P) (p_C P) (JTimeout tq) = Ok tt /\
       ProtocolRefinesStep.kt (honestb P) (g_soup s2) tq /\
       proposal_payload P pay (JTimeout tq) = Some p /\
       In {| m_key := L'; m_sig_ok := true; m_msg := MProposal p (JTimeout tq) |} (g_soup s2) /\
       (forall m p' j' mv', In m (g_soup s2) -> m_msg m = MProposal p' j' -> m_key m = L' -> m_sig_ok m = true ->
          justification_view (E := unit) true j' = Ok mv' -> vnum mv' = V + 1 ->
          justification_verify (p_g P) (p_e P) (p_C P) j' = Ok tt -> p' = p /\ j' = JTimeout tq)) /\
  (honestb P L' = false -> no_proposal P s2 (V + 1)).

Theorem view_times_out_holds : C06_view_times_out.
Proof.
  intros P pay fetch HP He s V n Hr (Hd & Hs) HV Hw Hnp k0 Hk0. cbv zeta.
  assert (HdV : p_first P + V + 4 < U64).
  { destruct (Hw k0 Hk0) as (Hu & Hv & _). specialize (Hd k0 Hk0).
    rewrite (up_dview P HP s k0 Hr Hk0 Hu), Hv in Hd. exact Hd. }
  assert (Hf : 0 <= p_first P) by apply He.
  destruct (timeout_two_rounds_post P HP pay fetch He V n HV s Hr (U64 - 3) ltac:(lia) ltac:(lia) ltac:(lia)
              (fun m Hm => ltac:(specialize (Hs m Hm); lia))
              (fun k1 Hk1 => ltac:(destruct (Hw k1 Hk1) as (A & B & C & D); unfold height in D; repeat split; auto; lia))
              Hnp) as (_ & _ & H3 & H4 & H5).
  split; [|split; [exact H4|exact H5]].
  intros k Hk. destruct (H3 k Hk) as (A & B & C & D). destruct (Hw k Hk) as (_ & _ & _ & Hh).
  repeat split; auto. rewrite Hh. unfold height. exact D.
Qed.

(* the timeout twin when some honest nodes have already timed out in view V (phases Prepare and
   Timeout mixed): every honest node is in view V and has not voted in it; no verifying proposal
   for V is on the network; the honest validators with a timeout vote for view V (or later) on
   the network do not, together with the Byzantine ones, weigh a quorum (so no timeout
   certificate for V exists yet).  Then every honest node enters view V+1 in the second round,
   all in the same round, with the same conclusions about the proposal for V+1 as above.
   (That no honest commit vote for view V is on the network and that the honest timeout votes
   on the network verify follows in reachable states: ProtocolLiveAvail, preach_VP and
   preach_SOK.) *)
Definition unvoted (P : params) (s : gstate) (V n : Z) : Prop :=
  forall k, honestb P k = true ->
    up s k /\ hview s k = V /\ r_phase (n_live (g_node s k)) <> PCommit /\ height s k = n.

Definition timed_out_light (P : params) (s : gstate) (V : Z) : Prop :=
  weight (cweights (p_C P)) (timed_out_bits P (g_soup s) V) < quorum (p_C P).

Definition C06_view_times_out_mixed : Prop :=
  forall P pay fetch, params_ok P -> env_ok P pay -> forall s V n, preach P s -> headroom P s 4 ->
  0 < V -> unvoted P s V n -> no_proposal P s V -> timed_out_light P s V ->
  forall k0, honestb P k0 = true ->      (* some validator is honest *)
  let s2 := sync_rounds P pay fetch 2 s in
  let L' := cleader (pcfg P 0) (V + 1) in
  (forall k, honestb P k = true ->
     up s2 k /\ hview s2 k = V + 1 /\ r_phase (n_live (g_node s2 k)) = Prepare /\ height s k <= height s2 k) /\
  (honestb P L' = true ->
     exists tq p, vnum (tqview tq) = V /\
       justification_verify (p_g P) (p_e P) (p_C P) (JTimeout tq) = Ok tt /\
       ProtocolRefinesStep.kt (honestb P) (g_soup s2) tq /\
       proposal_payload P pay (JTimeout tq) = Some p /\
       In {| m_key := L'; m_sig_ok := true; m_msg := MProposal p (JTimeout tq) |} (g_soup s2) /\
       (forall m p' j' mv', In m (g_soup s2) -> m_msg m = MProposal p' j' -> m_key m = L' -> m_sig_ok m = true ->
          justification_view (E := unit) true j' = Ok mv' -> vnum mv' = V + 1 ->
          justification_verify (p_g P) (p_e P) (p_C P) j' = Ok tt -> p' = p /\ j' = JTimeout tq)) /\
  (honestb P L' = false -> no_proposal P s2 (V + 1)).

Lemma sg_eta (m : sgmsg) : m_sig_ok m = true -> m = {| m_key := m_key m; m_sig_ok := true; m_msg := m_msg m |}.
Proof. destruct m as [a b c]. cbn. intros ->. reflexivity. Qed.

Theorem view_times_out_mixed_holds : C06_view_times_out_mixed.
Proof.
  intros P pay fetch HP He s V n Hr (Hd & Hs) HV Hw Hnp Hlight k0 Hk0. cbv zeta.
  assert (Hnc : forall h c, honestb P h = true -> In {| m_key := h; m_sig_ok := true; m_msg := MCommit c |} (g_soup s) ->
            vnum (cview c) <> V).
  { intros h c Hh Hin EV. destruct (preach_VP P s Hr _ c Hin eq_refl Hh eq_refl) as (m & p & j & Hinm & Em & Ejv & Ever).
    exact (Hnp m p j (cview c) Hinm Em Ejv EV Ever). }
  assert (Htv : forall h t, honestb P h = true -> In {| m_key := h; m_sig_ok := true; m_msg := MTimeout t |} (g_soup s) ->
            vnum (tview t) = V -> timeout_verify (p_g P) (p_e P) (p_C P) t = Ok tt).
  { intros h t Hh Hin _. exact (preach_SOK P s Hr _ Hin eq_refl Hh). }
  assert (HdV : p_first P + V + 4 < U64).
  { destruct (Hw k0 Hk0) as (Hu & Hv & _). specialize (Hd k0 Hk0).
    rewrite (up_dview P HP s k0 Hr Hk0 Hu), Hv in Hd. exact Hd. }
  assert (Hf : 0 <= p_first P) by apply He.
  assert (Hdv : forall k, honestb P k = true -> dview s k = V).
  { intros k Hk. destruct (Hw k Hk) as (Hu & Hv & _). rewrite (up_dview P HP s k Hr Hk Hu). exact Hv. }
  assert (HGC : forall m c, In m (g_soup s) -> m_sig_ok m = true -> honestb P (m_key m) = true -> m_msg m = MCommit c ->
            vnum (cview c) < V).
  { intros m c Hin Hsg Hh Em. rewrite (sg_eta m Hsg), Em in Hin.
    assert (HB : forall k, honestb P k = true -> dview s k < V + 1 \/ (dview s k = V + 1 /\ dphase s k = Prepare))
      by (intros k Hk; left; rewrite (Hdv k Hk); lia).
    pose proof (no_commit_msg_at P HP s (m_key m) c (V + 1) Hr HB Hh Hin) as Hlt.
    pose proof (Hnc _ c Hh Hin). lia. }
  assert (HGT : forall m t0, In m (g_soup s) -> m_sig_ok m = true -> honestb P (m_key m) = true -> m_msg m = MTimeout t0 ->
            V <= vnum (tview t0) -> vnum (tview t0) = V /\ timeout_verify (p_g P) (p_e P) (p_C P) t0 = Ok tt).
  { intros m t0 Hin Hsg Hh Em HVt. rewrite (sg_eta m Hsg), Em in Hin.
    assert (HB : forall k, honestb P k = true -> dview s k < V + 1 \/ (dview s k = V + 1 /\ dphase s k <> PTimeout))
      by (intros k Hk; left; rewrite (Hdv k Hk); lia).
    pose proof (no_timeout_msg_at P HP s (m_key m) t0 (V + 1) Hr HB Hh Hin) as Hlt.
    assert (E : vnum (tview t0) = V) by lia. split; [exact E|]. exact (Htv _ t0 Hh Hin E). }
  destruct (timeout_mixed_post P HP pay fetch He V n HV s Hr (U64 - 3) ltac:(lia) ltac:(lia) ltac:(lia)
              (fun m Hm => ltac:(specialize (Hs m Hm); lia))
              (fun k1 Hk1 => ltac:(destruct (Hw k1 Hk1) as (A & B & C & D); unfold height in D; repeat split; auto; lia))
              Hnp HGC HGT (light_no_tqc P HP (g_soup s) V Hlight)) as (_ & _ & H3 & H4 & H5).
  split; [|split; [exact H4|exact H5]].
  intros k Hk. destruct (H3 k Hk) as (A & B & C & D). destruct (Hw k Hk) as (_ & _ & _ & Hh).
  repeat split; auto. rewrite Hh. unfold height. exact D.
Qed.

(* (e) from a lockstep state: if one of the leaders of views V .. V+nbyz is honest, block n is
   stored by every honest node within 2*(nbyz+1) rounds.  The lockstep state (ProtocolLiveLockstep):
   every honest node waits in view V with the blocks below n stored; nothing above block n-1 is
   voted or certified (no good commit certificate for a number >= n on the network, honest high
   votes below n, honest high commit certificates for block n-1 -- or none at the first block);
   and the network holds the single proposal of an honest leader of V for the new block n, or no
   verifying proposal for V if that leader is Byzantine.  What separates this from
   C06_progress_partial is (c): reaching a lockstep state from an arbitrary reachable state. *)
Definition C06_progress_from_lockstep : Prop :=
  forall P pay fetch (nbyz : nat), params_ok P -> env_ok P pay -> forall s V n, preach P s ->
  headroom P s (Z.of_nat nbyz + 2) -> 0 < V -> lockstep P pay s V n -> byz_run P V nbyz ->
  exists r, (1 <= r <= nbyz + 1)%nat /\
    forall k, honestb P k = true ->
      up (sync_rounds P pay fetch (2 * r) s) k /\ n < height (sync_rounds P pay fetch (2 * r) s) k.

Theorem progress_from_lockstep_holds : C06_progress_from_lockstep.
Proof.
  intros P pay fetch nbyz HP He s V n Hr (Hd & Hs) HV HLS (i & Hi & Hhi).
  assert (HdV : p_first P + V + (Z.of_nat nbyz + 2) < U64).
  { destruct HLS as (_ & Hlock & _). set (k0 := cleader (pcfg P 0) (V + Z.of_nat i)) in *.
    destruct (Hlock k0 Hhi) as (Hu & Hv & _). specialize (Hd k0 Hhi).
    rewrite (up_dview P HP s k0 Hr Hhi Hu), Hv in Hd. exact Hd. }
  assert (Hf : 0 <= p_first P) by apply He.
  exact (progress_from_lockstep P HP pay fetch He (U64 - 2) ltac:(lia) nbyz s V n Hr HV ltac:(lia) ltac:(lia)
           (fun m Hm => ltac:(specialize (Hs m Hm); lia)) HLS (ex_intro _ i (conj Hi Hhi))).
Qed.

(* (c) in the form that connects to the progress theorem: every reachable state reaches a
   lockstep state within R0 synchronous rounds.  NOT PROVED.  The reduction below is proved:
   with R0 = 4 it yields C06_progress_partial as stated. *)
Definition C06_reaches_lockstep (R0 : nat) : Prop :=
  forall P pay fetch (nbyz : nat), params_ok P -> env_ok P pay -> forall s, preach P s ->
  headroom P s (2 * Z.of_nat nbyz + Z.of_nat R0 + 4) ->
  fetch_ok_run P pay fetch s (2 * nbyz + R0 + 2) ->
  (forall V, byz_run P V nbyz) ->
  exists V n, 0 < V /\ lockstep P pay (sync_rounds P pay fetch R0 s) V n /\
              headroom P (sync_rounds P pay fetch R0 s) (Z.of_nat nbyz + 2).

Theorem progress_of_reaches_lockstep (R0 : nat) : C06_reaches_lockstep R0 ->
  forall P pay fetch (nbyz : nat), params_ok P -> env_ok P pay -> forall s, preach P s ->
  headroom P s (2 * Z.of_nat nbyz + Z.of_nat R0 + 4) ->
  fetch_ok_run P pay fetch s (2 * nbyz + R0 + 2) ->
  (forall V, byz_run P V nbyz) ->
  forall k, honestb P k = true ->
    height s k < height (sync_rounds P pay fetch (R0 + 2 * (nbyz + 1)) s) k.
Proof.
  intros Hc P pay fetch nbyz HP He s Hr Hh Hf Hb k Hk.
  destruct (Hc P pay fetch nbyz HP He s Hr Hh Hf Hb) as (V & n & HV & HLS & Hh0).
  set (s0 := sync_rounds P pay fetch R0 s) in *.
  assert (Hr0 : preach P s0) by (apply sync_rounds_reach; exact Hr).
  destruct (progress_from_lockstep_holds P pay fetch nbyz HP He s0 V n Hr0 Hh0 HV HLS (Hb V)) as (r & Hrr & Hall).
  destruct (Hall k Hk) as [_ Hgt].
  pose proof (lockstep_height P HP pay fetch s0 V n Hr0 HLS k Hk) as Hn.
  pose proof (height_mono_rounds P HP pay fetch R0 s k Hr Hk) as Hm1. fold s0 in Hm1.
  assert (E : sync_rounds P pay fetch (R0 + 2 * (nbyz + 1)) s =
              sync_rounds P pay fetch (2 * (nbyz + 1) - 2 * r) (sync_rounds P pay fetch (2 * r) s0)).
  { unfold s0. rewrite <- !(sync_rounds_add P pay fetch). f_equal. lia. }
  rewrite E.
  pose proof (height_mono_rounds P HP pay fetch (2 * (nbyz + 1) - 2 * r) (sync_rounds P pay fetch (2 * r) s0) k
                (sync_rounds_reach P pay fetch _ s0 Hr0) Hk) as Hm2.
  unfold height in *. lia.
Qed.

Corollary progress_partial_of_reaches_lockstep : C06_reaches_lockstep 4 -> C06_progress_partial.
Proof.
  intros Hc P pay fetch nbyz HP He s Hr Hh Hf Hb k Hk.
  replace (2 * nbyz + 6)%nat with (4 + 2 * (nbyz + 1))%nat by lia.
  apply (progress_of_reaches_lockstep 4 Hc P pay fetch nbyz HP He s Hr); try assumption.
  - replace (2 * Z.of_nat nbyz + Z.of_nat 4 + 4) with (2 * Z.of_nat nbyz + 8) by lia. exact Hh.
  - replace (2 * nbyz + 4 + 2)%nat with (2 * nbyz + 6)%nat by lia. exact Hf.
Qed.

(* a boolean test of [proposal_on_network]: exactly one proposal message on the network, and it
   is the leader's proposal of the environment's payload for the implied new block *)
Definition is_prop (m : sgmsg) : bool := match m_msg m with MProposal _ _ => true | _ => false end.
Definition ponb (P : params) (pay : Z -> Z) (s : gstate) (V n : Z) : bool :=
  match filter is_prop (g_soup s) with
  | [m] =>
      match m_msg m with
      | MProposal (Some p) j =>
          (m_key m =? cleader (pcfg P 0) V) && m_sig_ok m && (p =? pay n) &&
          match @justification_view unit true j with Ok mv => vnum mv =? V | _ => false end &&
          is_ok (justification_verify (p_g P) (p_e P) (p_C P) j) &&
          match @get_implied_block unit true (p_C P) (p_first P) j with
          | Ok (n', None) => n' =? n
          | _ => false
          end
      | _ => false
      end
  | _ => false
  end.

Lemma ponb_spec P pay s V n : ponb P pay s V n = true -> proposal_on_network P pay s V n.
Proof.
  unfold ponb. destruct (filter is_prop (g_soup s)) as [|m [|m2 l]] eqn:Ef; try discriminate.
  destruct m as [mk ms mm]. cbn [m_msg m_key m_sig_ok]. destruct mm as [[p|] j|c|t|j]; try discriminate.
  intros H.
  apply andb_true_iff in H. destruct H as [H H6].
  apply andb_true_iff in H. destruct H as [H H5].
  apply andb_true_iff in H. destruct H as [H H4].
  apply andb_true_iff in H. destruct H as [H H3].
  apply andb_true_iff in H. destruct H as [H1 H2].
  apply Z.eqb_eq in H1. subst mk. subst ms. apply Z.eqb_eq in H3. subst p.
  destruct (@justification_view unit true j) as [mv| |] eqn:Ejv; try discriminate.
  apply Z.eqb_eq in H4.
  destruct (justification_verify (p_g P) (p_e P) (p_C P) j) as [[]| |] eqn:Ever; try discriminate.
  destruct (@get_implied_block unit true (p_C P) (p_first P) j) as [[n' [h|]]| |] eqn:Eimp; try discriminate.
  apply Z.eqb_eq in H6. subst n'.
  exists j, mv. split; [exact Ejv|]. split; [exact H4|]. split; [exact Ever|]. split; [exact Eimp|].
  assert (Hf : forall m, In m (g_soup s) -> is_prop m = true ->
            m = {| m_key := cleader (pcfg P 0) V; m_sig_ok := true; m_msg := MProposal (Some (pay n)) j |}).
  { intros m Hin Hp. assert (Hm : In m (filter is_prop (g_soup s))) by (apply filter_In; auto).
    rewrite Ef in Hm. destruct Hm as [<-|[]]. reflexivity. }
  split.
  - assert (Hm : In {| m_key := cleader (pcfg P 0) V; m_sig_ok := true; m_msg := MProposal (Some (pay n)) j |}
                    (filter is_prop (g_soup s))) by (rewrite Ef; left; reflexivity).
    apply filter_In in Hm. exact (proj1 Hm).
  - intros m p' j' mv' Hin Em _ _ _ _ _.
    assert (Hp : is_prop m = true) by (unfold is_prop; rewrite Em; reflexivity).
    rewrite (Hf m Hin Hp) in Em. cbn [m_msg] in Em. inversion Em. auto.
Qed.

Definition ex_s1 : gstate := sync_rounds ex_P ex_pay (find_cert ex_P) 1 (ginit ex_P).
Lemma ex_s1_unfold : ex_s1 = sync_rounds ex_P ex_pay (find_cert ex_P) 1 (ginit ex_P).
Proof. unfold ex_s1. reflexivity. Qed.

Lemma ex_view_commits_hyps :
  preach ex_P ex_s1 /\ headroom ex_P ex_s1 4 /\ waiting ex_P ex_s1 1 0 /\ proposal_on_network ex_P ex_pay ex_s1 1 0.
Proof.
  split; [apply sync_rounds_reach, PReachInit|]. split; [|split].
  - split.
    + intros k Hk. apply ex_P_hon in Hk. repeat (destruct Hk as [<-|Hk]; [vm_compute; reflexivity|]). destruct Hk.
    + intros m Hin.
      assert (Hb : forallb (fun m => msg_view (m_msg m) + 4 <? U64) (g_soup ex_s1) = true) by (vm_compute; reflexivity).
      apply Z.ltb_lt. exact (Forall_forallb _ _ Hb m Hin).
  - intros k Hk. apply ex_P_hon in Hk.
    repeat (destruct Hk as [<-|Hk]; [vm_compute; repeat split; reflexivity|]). destruct Hk.
  - apply ponb_spec. vm_compute. reflexivity.
Qed.

Lemma ex_honest_leaders : forall i, (1 <= i < 2)%nat ->
  honestb ex_P (cleader (pcfg ex_P 0) (1 + Z.of_nat i)) = true.
Proof. intros i Hi. assert (i = 1%nat) by lia. subst i. vm_compute. reflexivity. Qed.

Lemma ex_headroom_s1 : headroom ex_P ex_s1 (Z.of_nat 2 + 2).
Proof. exact (proj1 (proj2 ex_view_commits_hyps)). Qed.

(* the hypotheses of the timeout twin hold after the first round from the initial state of the
   six-validator committee whose view-1 leader (validator 2) is Byzantine and silent *)
Definition ex_s6 : gstate := sync_rounds ex_P6 ex_pay (find_cert ex_P6) 1 (ginit ex_P6).

Lemma no_proposal_by_filter P s V : filter is_prop (g_soup s) = [] -> no_proposal P s V.
Proof.
  intros Hb m p' j' mv' Hin Em _ _ _.
  assert (Hp : is_prop m = true) by (unfold is_prop; rewrite Em; reflexivity).
  pose proof (proj2 (filter_In is_prop m (g_soup s)) (conj Hin Hp)) as Hm. rewrite Hb in Hm. destruct Hm.
Qed.

Lemma ex_view_times_out_hyps :
  preach ex_P6 ex_s6 /\ headroom ex_P6 ex_s6 4 /\ waiting ex_P6 ex_s6 1 0 /\ no_proposal ex_P6 ex_s6 1 /\
  honestb ex_P6 (cleader (pcfg ex_P6 0) 1) = false /\ honestb ex_P6 1 = true.
Proof.
  split; [apply sync_rounds_reach, PReachInit|]. split; [|split; [|split; [|split]]].
  - split.
    + intros k Hk. apply ex_P6_hon in Hk. repeat (destruct Hk as [<-|Hk]; [vm_compute; reflexivity|]). destruct Hk.
    + intros m Hin.
      assert (Hb : forallb (fun m => msg_view (m_msg m) + 4 <? U64) (g_soup ex_s6) = true) by (vm_compute; reflexivity).
      apply Z.ltb_lt. exact (Forall_forallb _ _ Hb m Hin).
  - intros k Hk. apply ex_P6_hon in Hk.
    repeat (destruct Hk as [<-|Hk]; [vm_compute; repeat split; reflexivity|]). destruct Hk.
  - apply no_proposal_by_filter. vm_compute. reflexivity.
  - vm_compute. reflexivity.
  - vm_compute. reflexivity.
Qed.

(* the state after the first round of the six-validator committee is a lockstep state for
   view 1 (Byzantine leader) and block 0, and the leader of view 2 is honest *)
Definition is_commit (m : sgmsg) : bool := match m_msg m with MCommit _ => true | _ => false end.

Lemma no_commit_no_cert P s n : params_ok P -> filter is_commit (g_soup s) = [] ->
  forall q, ProtocolRefinesStep.gq (pcfg P 0) (honestb P) (g_soup s) q -> hnum (cprop (qmsg q)) < n.
Proof.
  intros HP Hb q [Hv Hk]. exfalso. destruct (cqc_honest_signer P HP q Hv) as (h & Hh & Hin).
  pose proof (Hk h (qmsg q) Hin Hh) as Hsent. unfold ProtocolRefinesStep.sent in Hsent.
  assert (Hm : In {| m_key := h; m_sig_ok := true; m_msg := MCommit (qmsg q) |} (filter is_commit (g_soup s)))
    by (apply filter_In; split; [exact Hsent|reflexivity]).
  rewrite Hb in Hm. destruct Hm.
Qed.

Definition tidy0b (P : params) (s : gstate) (k : Z) : bool :=
  match r_high_vote (n_live (g_node s k)), r_high_cqc (n_live (g_node s k)) with None, None => true | _, _ => false end.
Lemma tidy0b_spec P s k : tidy0b P s k = true -> tidy_node P (p_first P) (n_live (g_node s k)).
Proof.
  unfold tidy0b. destruct (r_high_vote (n_live (g_node s k))) eqn:E1; [discriminate|].
  destruct (r_high_cqc (n_live (g_node s k))) eqn:E2; [discriminate|]. intros _. split.
  - intros c Hc. unfold hv_ok in *. congruence.
  - left. auto.
Qed.

Lemma lockstep_of_checks P pay s V : params_ok P -> waiting P s V (p_first P) -> no_proposal P s V ->
  honestb P (cleader (pcfg P 0) V) = false -> filter is_commit (g_soup s) = [] ->
  forallb (tidy0b P s) (honest_keys P) = true -> lockstep P pay s V (p_first P).
Proof.
  intros HP Hw Hnp HL Hc Ht. split; [lia|]. split; [|split; [|split]].
  - intros k Hk. destruct (Hw k Hk) as (A & B & C & D). unfold height in D. repeat split; auto. lia.
  - split; [apply (no_commit_no_cert P s (p_first P) HP Hc)|].
    intros k Hk. apply tidy0b_spec. rewrite forallb_forall in Ht. apply Ht. apply hon_in_honest_keys. exact Hk.
  - intros H. rewrite HL in H. discriminate.
  - intros _. exact Hnp.
Qed.

Lemma ex_lockstep : lockstep ex_P6 ex_pay ex_s6 1 (p_first ex_P6) /\ byz_run ex_P6 1 1.
Proof.
  destruct ex_view_times_out_hyps as (Hr & _ & Hw & Hnp & HL & _).
  split.
  - apply (lockstep_of_checks ex_P6 ex_pay ex_s6 1 ex_P6_ok Hw Hnp HL); vm_compute; reflexivity.
  - exists 1%nat. split; [lia|]. vm_compute. reflexivity.
Qed.

(* ================================================================== *)
(* the weaker lockstep: block n may have been voted before               *)
(* ================================================================== *)
(* A weak lockstep state: every honest node waits in view V with block store at n; no good commit
   certificate for a number >= n is known; the honest high votes are for blocks up to n (block n
   itself may have been voted in an earlier view that did not complete), the honest high commit
   certificates are for block n-1; the network holds the single proposal of an honest leader of V
   -- for the new block n or the forced re-proposal of a voted block n -- or no verifying
   proposal for V if that leader is Byzantine.  From such a state, with the block-fetch oracle
   answering during the rounds, every honest node stores block n within 2*(nbyz+1) rounds. *)
Definition C06_progress_from_wlockstep : Prop :=
  forall P pay fetch (nbyz : nat), params_ok P -> env_ok P pay -> forall s V n, preach P s ->
  headroom P s (Z.of_nat nbyz + 2) -> 0 < V -> wlockstep P pay s V n -> byz_run P V nbyz ->
  fetch_ok_run P pay fetch s (2 * (nbyz + 1)) ->
  exists r, (1 <= r <= nbyz + 1)%nat /\
    forall k, honestb P k = true ->
      up (sync_rounds P pay fetch (2 * r) s) k /\ n < height (sync_rounds P pay fetch (2 * r) s) k.

Theorem progress_from_wlockstep_holds : C06_progress_from_wlockstep.
Proof.
  intros P pay fetch nbyz HP He s V n Hr (Hd & Hs) HV HLS (i & Hi & Hhi) Hfr.
  assert (HdV : p_first P + V + (Z.of_nat nbyz + 2) < U64).
  { destruct HLS as (_ & Hlock & _). set (k0 := cleader (pcfg P 0) (V + Z.of_nat i)) in *.
    destruct (Hlock k0 Hhi) as (Hu & Hv & _). specialize (Hd k0 Hhi).
    rewrite (up_dview P HP s k0 Hr Hhi Hu), Hv in Hd. exact Hd. }
  assert (Hf : 0 <= p_first P) by apply He.
  exact (progress_from_wlockstep P HP pay fetch He (U64 - 2) ltac:(lia) nbyz s V n Hr HV ltac:(lia) ltac:(lia)
           (fun m Hm => ltac:(specialize (Hs m Hm); lia)) HLS Hfr (ex_intro _ i (conj Hi Hhi))).
Qed.

(* (c) for the weak lockstep: weaker than C06_reaches_lockstep, and still enough for
   C06_progress_partial.  NOT PROVED. *)
Definition C06_reaches_wlockstep (R0 : nat) : Prop :=
  forall P pay fetch (nbyz : nat), params_ok P -> env_ok P pay -> forall s, preach P s ->
  headroom P s (2 * Z.of_nat nbyz + Z.of_nat R0 + 4) ->
  fetch_ok_run P pay fetch s (2 * nbyz + R0 + 2) ->
  (forall V, byz_run P V nbyz) ->
  exists V n, 0 < V /\ wlockstep P pay (sync_rounds P pay fetch R0 s) V n /\
              headroom P (sync_rounds P pay fetch R0 s) (Z.of_nat nbyz + 2).

Lemma reaches_lockstep_weak R0 : C06_reaches_lockstep R0 -> C06_reaches_wlockstep R0.
Proof.
  intros Hc P pay fetch nbyz HP He s Hr Hh Hf Hb.
  destruct (Hc P pay fetch nbyz HP He s Hr Hh Hf Hb) as (V & n & HV & HLS & Hh0).
  exists V, n. split; [exact HV|]. split; [apply (lockstep_weak P pay fetch); exact HLS|exact Hh0].
Qed.

Theorem progress_of_reaches_wlockstep (R0 : nat) : C06_reaches_wlockstep R0 ->
  forall P pay fetch (nbyz : nat), params_ok P -> env_ok P pay -> forall s, preach P s ->
  headroom P s (2 * Z.of_nat nbyz + Z.of_nat R0 + 4) ->
  fetch_ok_run P pay fetch s (2 * nbyz + R0 + 2) ->
  (forall V, byz_run P V nbyz) ->
  forall k, honestb P k = true ->
    height s k < height (sync_rounds P pay fetch (R0 + 2 * (nbyz + 1)) s) k.
Proof.
  intros Hc P pay fetch nbyz HP He s Hr Hh Hf Hb k Hk.
  destruct (Hc P pay fetch nbyz HP He s Hr Hh Hf Hb) as (V & n & HV & HLS & Hh0).
  set (s0 := sync_rounds P pay fetch R0 s) in *.
  assert (Hr0 : preach P s0) by (apply sync_rounds_reach; exact Hr).
  assert (Hf0 : fetch_ok_run P pay fetch s0 (2 * (nbyz + 1))).
  { intros r Hlt. specialize (Hf (R0 + r)%nat ltac:(lia)). unfold s0.
    rewrite (sync_rounds_add P pay fetch R0) in Hf. exact Hf. }
  destruct (progress_from_wlockstep_holds P pay fetch nbyz HP He s0 V n Hr0 Hh0 HV HLS (Hb V) Hf0) as (r & Hrr & Hall).
  destruct (Hall k Hk) as [_ Hgt].
  pose proof (wlockstep_height P HP pay fetch s0 V n Hr0 HLS k Hk) as Hn.
  pose proof (height_mono_rounds P HP pay fetch R0 s k Hr Hk) as Hm1. fold s0 in Hm1.
  assert (E : sync_rounds P pay fetch (R0 + 2 * (nbyz + 1)) s =
              sync_rounds P pay fetch (2 * (nbyz + 1) - 2 * r) (sync_rounds P pay fetch (2 * r) s0)).
  { unfold s0. rewrite <- !(sync_rounds_add P pay fetch). f_equal. lia. }
  rewrite E.
  pose proof (height_mono_rounds P HP pay fetch (2 * (nbyz + 1) - 2 * r) (sync_rounds P pay fetch (2 * r) s0) k
                (sync_rounds_reach P pay fetch _ s0 Hr0) Hk) as Hm2.
  unfold height in *. lia.
Qed.

Corollary progress_partial_of_reaches_wlockstep : C06_reaches_wlockstep 4 -> C06_progress_partial.
Proof.
  intros Hc P pay fetch nbyz HP He s Hr Hh Hf Hb k Hk.
  replace (2 * nbyz + 6)%nat with (4 + 2 * (nbyz + 1))%nat by lia.
  apply (progress_of_reaches_wlockstep 4 Hc P pay fetch nbyz HP He s Hr); try assumption.
  - replace (2 * Z.of_nat nbyz + Z.of_nat 4 + 4) with (2 * Z.of_nat nbyz + 8) by lia. exact Hh.
  - replace (2 * nbyz + 4 + 2)%nat with (2 * nbyz + 6)%nat by lia. exact Hf.
Qed.

(* the cached-payload hypothesis of the re-proposal commit theorem follows, in reachable states,
   from the absence of a good commit certificate for a block number >= n (ProtocolLiveAvail): the
   timeout certificate that forces the re-proposal has an honest reporter of a vote for (n, h);
   that node persisted the vote; since then some honest node has kept the payload, because the
   proposal cache is only pruned below a held commit certificate *)
Definition uncertified (P : params) (s : gstate) (n : Z) : Prop :=
  forall q, ProtocolRefinesStep.gq (pcfg P 0) (honestb P) (g_soup s) q -> hnum (cprop (qmsg q)) < n.

Theorem reproposal_payload_kept P s V n h : params_ok P -> preach P s ->
  reproposal_on_network P s V n h -> uncertified P s n ->
  exists k0, honestb P k0 = true /\ In (n, h) (d_proposals (n_dur (g_node s k0))) /\
    (n_alive (g_node s k0) = true -> cache_has (r_cache (n_live (g_node s k0))) n h = true).
Proof.
  intros HP Hr (j & mv & Hjv & Hmv & Hjver & Himp & Hin & _) Hunc.
  destruct (ProtocolRefinesInv.preach_inv P HP s Hr) as [a G].
  pose proof (ProtocolRefinesInv.gi_soup _ _ _ G _ Hin) as Hkm. cbn [m_msg ProtocolRefinesStep.kmsg] in Hkm.
  destruct j as [q|tq].
  - cbn [get_implied_block] in Himp. destruct (num_next true (hnum (cprop (qmsg q)))); cbn [bind] in Himp; discriminate.
  - cbn [ProtocolRefinesStep.kj] in Hkm. apply justification_verify_iff in Hjver.
    destruct (implied_reporter P HP s tq n h Hr Hjver Hkm Himp) as (k1 & t1 & c1 & Hk1 & Hsent & Ehv & En & Eh).
    destruct (ProtocolRefinesInv.gi_timeout _ _ _ G k1 t1 Hk1 Hsent) as (d1 & Hd1 & _ & _ & Hhv & _).
    destruct (preach_PA P HP n h s Hr) as [_ HPA].
    destruct (HPA k1 d1 Hk1 Hd1 ltac:(exists c1; rewrite Hhv; auto)) as [(k0 & Hk0 & H1 & H2)|(q & Hq & Hn)].
    + exists k0. auto.
    + specialize (Hunc q Hq). lia.
Qed.

(* the invariant itself, spelled out: a persisted high vote of an honest node for block (n, h)
   keeps the payload available among the honest nodes until a block number >= n is certified *)
Theorem payload_available : forall P, params_ok P -> forall n h s, preach P s ->
  forall k d c, honestb P k = true -> In (k, d) (g_plog s) -> d_high_vote d = Some c ->
  hnum (cprop c) = n -> hpay (cprop c) = h ->
  (exists k', honestb P k' = true /\ In (n, h) (d_proposals (n_dur (g_node s k'))) /\
     (n_alive (g_node s k') = true -> cache_has (r_cache (n_live (g_node s k'))) n h = true)) \/
  (exists q, ProtocolRefinesStep.gq (pcfg P 0) (honestb P) (g_soup s) q /\ n <= hnum (cprop (qmsg q))).
Proof.
  intros P HP n h s Hr k d c Hk Hin Hc En Eh. destruct (preach_PA P HP n h s Hr) as [_ HPA].
  destruct (HPA k d Hk Hin ltac:(exists c; auto)) as [(k' & Hk' & H1 & H2)|Hc']; [left; exists k'; auto|right; exact Hc'].
Qed.

(* the weight form of "no certificate at or above n yet" *)
Theorem light_uncertified : forall P, params_ok P -> forall s n,
  weight (cweights (p_C P)) (voted_bits P (g_soup s) n) < quorum (p_C P) -> uncertified P s n.
Proof. intros P HP s n Hl. exact (light_no_cqc P HP (g_soup s) n Hl). Qed.

(* progress from a mixed-phase state: every honest node is in view V and has not voted in it (some
   may have timed out already), no verifying proposal for V is on the network, the timed-out
   honest validators and the Byzantine ones do not weigh a quorum, nothing at or above block n is
   certified, nothing above block n is voted (states and the timeout votes of view V already on
   the network).  Two rounds later the network is in a weak lockstep state for view V+1, and
   block n is stored by every honest node within 2 + 2*(nbyz+1) rounds. *)
Definition C06_progress_from_mixed : Prop :=
  forall P pay fetch (nbyz : nat), params_ok P -> env_ok P pay -> forall s V n, preach P s ->
  headroom P s (Z.of_nat nbyz + 4) -> 0 < V -> p_first P <= n ->
  unvoted P s V n -> no_proposal P s V -> timed_out_light P s V -> uncertified P s n ->
  (forall k, honestb P k = true -> tidy_node_b P n (n + 1) (n_live (g_node s k))) ->
  (forall h t, honestb P h = true -> In {| m_key := h; m_sig_ok := true; m_msg := MTimeout t |} (g_soup s) ->
     vnum (tview t) = V -> tidy_report_b P n (n + 1) t) ->
  byz_run P (V + 1) nbyz -> fetch_ok_run P pay fetch s (2 + 2 * (nbyz + 1)) ->
  wlockstep P pay (sync_rounds P pay fetch 2 s) (V + 1) n /\
  exists r, (1 <= r <= nbyz + 1)%nat /\
    forall k, honestb P k = true ->
      up (sync_rounds P pay fetch (2 + 2 * r) s) k /\ n < height (sync_rounds P pay fetch (2 + 2 * r) s) k.

Theorem progress_from_mixed_holds : C06_progress_from_mixed.
Proof.
  intros P pay fetch nbyz HP He s V n Hr (Hd & Hs) HV Hfn Hw Hnp Hlight Hunc HX HXT (i & Hi & Hhi) Hfr.
  assert (Hk0 : exists k0, honestb P k0 = true) by (eexists; exact Hhi). destruct Hk0 as [k0 Hk0].
  assert (HdV : p_first P + V + (Z.of_nat nbyz + 4) < U64).
  { destruct (Hw k0 Hk0) as (Hu & Hv & _). specialize (Hd k0 Hk0).
    rewrite (up_dview P HP s k0 Hr Hk0 Hu), Hv in Hd. exact Hd. }
  assert (Hf : 0 <= p_first P) by apply He.
  destruct (mixed_wlockstep P HP pay fetch He (U64 - 2) s V n ltac:(lia) Hr HV ltac:(lia) ltac:(lia)
              (fun m Hm => ltac:(specialize (Hs m Hm); lia)) Hfn
              (fun k1 Hk1 => ltac:(destruct (Hw k1 Hk1) as (A & B & C & D); unfold height in D; repeat split; auto; lia))
              Hnp (light_no_tqc P HP (g_soup s) V Hlight) (conj Hunc HX)
              (fun m t0 Hin Hsg Hh Em EV => ltac:(rewrite (sg_eta m Hsg), Em in Hin; exact (HXT _ t0 Hh Hin EV))))
    as (Hr2 & Hsb2 & HLS2).
  split; [exact HLS2|].
  assert (Hfr2 : fetch_ok_run P pay fetch (sync_rounds P pay fetch 2 s) (2 * (nbyz + 1))).
  { intros r Hlt. specialize (Hfr (2 + r)%nat ltac:(lia)). rewrite (sync_rounds_add P pay fetch 2) in Hfr. exact Hfr. }
  destruct (progress_from_wlockstep P HP pay fetch He (U64 - 2) ltac:(lia) nbyz _ (V + 1) n Hr2 ltac:(lia) ltac:(lia) ltac:(lia)
              Hsb2 HLS2 Hfr2 (ex_intro _ i (conj Hi Hhi))) as (r & Hrr & Hall).
  exists r. split; [exact Hrr|]. intros k Hk. rewrite (sync_rounds_add P pay fetch 2). exact (Hall k Hk).
Qed.

Definition C06_view_recommits_avail : Prop :=
  forall P pay fetch, params_ok P -> env_ok P pay -> forall s V n h, preach P s -> headroom P s 4 ->
  0 < V -> waiting P s V n -> reproposal_on_network P s V n h -> uncertified P s n ->
  fetch_ok_at P fetch (sync_point P pay (sync_round P pay fetch s)) ->
  forall k, honestb P k = true ->
    up (sync_rounds P pay fetch 2 s) k /\ hview (sync_rounds P pay fetch 2 s) k = V + 1 /\
    height s k < height (sync_rounds P pay fetch 2 s) k.

Theorem view_recommits_avail_holds : C06_view_recommits_avail.
Proof.
  intros P pay fetch HP He s V n h Hr Hh HV Hw Hrp Hunc Hfo.
  destruct (reproposal_payload_kept P s V n h HP Hr Hrp Hunc) as (k0 & Hk0 & _ & Hc).
  apply (view_recommits_holds P pay fetch HP He s V n h Hr Hh HV Hw Hrp); [|exact Hfo].
  exists k0. split; [exact Hk0|]. apply Hc. apply (Hw k0 Hk0).
Qed.

(* a re-proposal scenario: six validators (validator 2 Byzantine).  After three rounds view 2's
   honest leader has proposed block 0; validators 1, 3, 4 vote, everybody times out; the next
   round assembles the timeout certificate, whose three reporters of the vote force view 3's
   leader to re-propose block 0 without payload.  The hypotheses of the re-proposal commit
   theorem hold there: validators 5 and 6 do not have the payload and fetch the block. *)
Definition is_prop_v (V : Z) (m : sgmsg) : bool :=
  match m_msg m with
  | MProposal _ j => match @justification_view unit true j with Ok mv => vnum mv =? V | _ => false end
  | _ => false
  end.
Definition rponb (P : params) (s : gstate) (V n h : Z) : bool :=
  match filter (is_prop_v V) (g_soup s) with
  | [m] =>
      match m_msg m with
      | MProposal None j =>
          (m_key m =? cleader (pcfg P 0) V) && m_sig_ok m &&
          is_ok (justification_verify (p_g P) (p_e P) (p_C P) j) &&
          match @get_implied_block unit true (p_C P) (p_first P) j with
          | Ok (n', Some h') => (n' =? n) && (h' =? h)
          | _ => false
          end
      | _ => false
      end
  | _ => false
  end.

Lemma rponb_spec P s V n h : rponb P s V n h = true -> reproposal_on_network P s V n h.
Proof.
  unfold rponb. destruct (filter (is_prop_v V) (g_soup s)) as [|m [|m2 l]] eqn:Ef; try discriminate.
  assert (Hm : In m (filter (is_prop_v V) (g_soup s))) by (rewrite Ef; left; reflexivity).
  apply filter_In in Hm. destruct Hm as [Hmin Hmv].
  destruct m as [mk ms mm]. cbn [m_msg m_key m_sig_ok] in *. unfold is_prop_v in Hmv. cbn [m_msg] in Hmv.
  destruct mm as [[p|] j|c|t|j]; try discriminate.
  intros H.
  apply andb_true_iff in H. destruct H as [H H4].
  apply andb_true_iff in H. destruct H as [H H3].
  apply andb_true_iff in H. destruct H as [H1 H2].
  apply Z.eqb_eq in H1. subst mk. subst ms.
  destruct (@justification_view unit true j) as [mv| |] eqn:Ejv; try discriminate. apply Z.eqb_eq in Hmv.
  destruct (justification_verify (p_g P) (p_e P) (p_C P) j) as [[]| |] eqn:Ever; try discriminate.
  destruct (@get_implied_block unit true (p_C P) (p_first P) j) as [[n' [h'|]]| |] eqn:Eimp; try discriminate.
  apply andb_true_iff in H4. destruct H4 as [H5 H6]. apply Z.eqb_eq in H5, H6. subst n' h'.
  exists j, mv. split; [exact Ejv|]. split; [exact Hmv|]. split; [exact Ever|]. split; [exact Eimp|]. split; [exact Hmin|].
  intros m p' j' mv' Hin Em _ _ Ejv' EV' _.
  assert (Hp : is_prop_v V m = true) by (unfold is_prop_v; rewrite Em, Ejv'; apply Z.eqb_eq; exact EV').
  pose proof (proj2 (filter_In (is_prop_v V) m (g_soup s)) (conj Hin Hp)) as Hm. rewrite Ef in Hm.
  destruct Hm as [<-|[]]. cbn [m_msg] in Em. inversion Em. auto.
Qed.

Definition ex_ops_repropose : list xop :=
  [XDeliver 1 25; XDeliver 3 25; XDeliver 4 25; XTimer 1; XTimer 3; XTimer 4; XTimer 5; XTimer 6].

Definition recommit_chk (s : gstate) : bool :=
  forallb (fun k => (p_first ex_P6 + dview s k + 4 <? U64) && n_alive (g_node s k) && (hview s k =? 3) &&
                    match r_phase (n_live (g_node s k)) with Prepare => true | _ => false end &&
                    (height s k =? 0)) [1; 3; 4; 5; 6] &&
  forallb (fun m => msg_view (m_msg m) + 4 <? U64) (g_soup s) &&
  rponb ex_P6 s 3 0 100 &&
  (weight (cweights (p_C ex_P6)) (voted_bits ex_P6 (g_soup s) 0) <? quorum (p_C ex_P6)) &&
  cache_has (r_cache (n_live (g_node s 1))) 0 100 &&
  negb (cache_has (r_cache (n_live (g_node s 5))) 0 100) &&
  fetch_ok_atb ex_P6 (find_cert ex_P6) (sync_point ex_P6 ex_pay (sync_round ex_P6 ex_pay (find_cert ex_P6) s)).

Lemma ex_recommit_obs :
  option_map (fun s0 => recommit_chk (sync_round ex_P6 ex_pay (find_cert ex_P6) s0))
    (xrun ex_P6 (sync_rounds ex_P6 ex_pay (find_cert ex_P6) 3 (ginit ex_P6)) ex_ops_repropose) = Some true.
Proof. vm_compute. reflexivity. Qed.

Lemma xrun_some_reach_from {A} P s0 ops (f : gstate -> A) v : preach P s0 ->
  option_map f (xrun P s0 ops) = Some v -> exists s, preach P s /\ f s = v.
Proof.
  intros Hr0. destruct (xrun P s0 ops) as [s|] eqn:E; cbn [option_map]; [|discriminate].
  intros H. injection H as H. exists s. split; [|exact H]. eapply xrun_reach; [exact Hr0|exact E].
Qed.

Lemma ex_recommit_s : exists s, preach ex_P6 s /\ recommit_chk s = true.
Proof.
  destruct (xrun_some_reach_from ex_P6 _ _ _ true (sync_rounds_reach ex_P6 ex_pay (find_cert ex_P6) 3 _ (PReachInit ex_P6))
              ex_recommit_obs) as (s0 & Hr0 & Hc).
  exists (sync_round ex_P6 ex_pay (find_cert ex_P6) s0). split; [apply sync_round_reach; exact Hr0|exact Hc].
Qed.

Lemma recommit_of_chk s : recommit_chk s = true -> headroom ex_P6 s 4 /\ waiting ex_P6 s 3 0 /\
  reproposal_on_network ex_P6 s 3 0 100 /\ uncertified ex_P6 s 0 /\
  (exists k0, honestb ex_P6 k0 = true /\ cache_has (r_cache (n_live (g_node s k0))) 0 100 = true) /\
  (exists k1, honestb ex_P6 k1 = true /\ cache_has (r_cache (n_live (g_node s k1))) 0 100 = false) /\
  fetch_ok_at ex_P6 (find_cert ex_P6) (sync_point ex_P6 ex_pay (sync_round ex_P6 ex_pay (find_cert ex_P6) s)).
Proof.
  intros Hc. unfold recommit_chk in Hc.
  apply andb_true_iff in Hc. destruct Hc as [Hc C6].
  apply andb_true_iff in Hc. destruct Hc as [Hc C5].
  apply andb_true_iff in Hc. destruct Hc as [Hc C4].
  apply andb_true_iff in Hc. destruct Hc as [Hc C3'].
  apply andb_true_iff in Hc. destruct Hc as [Hc C3].
  apply andb_true_iff in Hc. destruct Hc as [C1 C2].
  assert (Hk : forall k, honestb ex_P6 k = true ->
            p_first ex_P6 + dview s k + 4 < U64 /\ up s k /\ hview s k = 3 /\
            r_phase (n_live (g_node s k)) = Prepare /\ height s k = 0).
  { intros k Hk. apply ex_P6_hon in Hk. pose proof (Forall_forallb _ _ C1 k Hk) as Hb. cbv beta in Hb.
    apply andb_true_iff in Hb. destruct Hb as [Hb B5]. apply andb_true_iff in Hb. destruct Hb as [Hb B4].
    apply andb_true_iff in Hb. destruct Hb as [Hb B3]. apply andb_true_iff in Hb. destruct Hb as [B1 B2].
    split; [apply Z.ltb_lt; exact B1|]. split; [exact B2|]. split; [apply Z.eqb_eq; exact B3|].
    split; [destruct (r_phase (n_live (g_node s k))); try discriminate; reflexivity|apply Z.eqb_eq; exact B5]. }
  split; [|split; [|split; [|split; [|split; [|split]]]]].
  - split; [intros k Hk0; apply (Hk k Hk0)|]. intros m Hin. apply Z.ltb_lt. exact (Forall_forallb _ _ C2 m Hin).
  - intros k Hk0. destruct (Hk k Hk0) as (_ & A & B & C & D). auto.
  - apply rponb_spec. exact C3.
  - unfold uncertified. apply (light_no_cqc ex_P6 ex_P6_ok (g_soup s) 0). apply Z.ltb_lt. exact C3'.
  - exists 1. split; [reflexivity|exact C4].
  - exists 5. split; [reflexivity|]. apply negb_true_iff. exact C5.
  - apply fetch_ok_atb_spec. exact C6.
Qed.

Lemma ex_recommit_hyps : exists s, preach ex_P6 s /\ headroom ex_P6 s 4 /\ waiting ex_P6 s 3 0 /\
  reproposal_on_network ex_P6 s 3 0 100 /\ uncertified ex_P6 s 0 /\
  (exists k0, honestb ex_P6 k0 = true /\ cache_has (r_cache (n_live (g_node s k0))) 0 100 = true) /\
  (exists k1, honestb ex_P6 k1 = true /\ cache_has (r_cache (n_live (g_node s k1))) 0 100 = false) /\
  fetch_ok_at ex_P6 (find_cert ex_P6) (sync_point ex_P6 ex_pay (sync_round ex_P6 ex_pay (find_cert ex_P6) s)).
Proof.
  destruct ex_recommit_s as (s & Hr & Hc). exists s. split; [exact Hr|exact (recommit_of_chk s Hc)].
Qed.

(* the same state is a weak lockstep state for view 3 (honest leader, validator 4) and block 0,
   with the forced re-proposal pending *)
Definition tidy1b (P : params) (s : gstate) (n k : Z) : bool :=
  match r_high_vote (n_live (g_node s k)) with None => true | Some c => hnum (cprop c) <? n + 1 end &&
  match r_high_cqc (n_live (g_node s k)) with None => n =? p_first P | Some q => hnum (cprop (qmsg q)) =? n - 1 end.
Lemma tidy1b_spec P s n k : tidy1b P s n k = true -> tidy_node_b P n (n + 1) (n_live (g_node s k)).
Proof.
  unfold tidy1b. intros H. apply andb_true_iff in H. destruct H as [H1 H2]. split.
  - intros c Hc. unfold hv_ok_b in *. rewrite Hc in H1. apply Z.ltb_lt. exact H1.
  - unfold cq_ok. destruct (r_high_cqc (n_live (g_node s k))) as [q|].
    + right. exists q. split; [reflexivity|apply Z.eqb_eq; exact H2].
    + left. split; [apply Z.eqb_eq; exact H2|reflexivity].
Qed.

Lemma wlockstep_of_checks P pay s V n h : p_first P <= n -> waiting P s V n ->
  reproposal_on_network P s V n h -> uncertified P s n ->
  honestb P (cleader (pcfg P 0) V) = true -> forallb (tidy1b P s n) (honest_keys P) = true ->
  wlockstep P pay s V n.
Proof.
  intros Hfn Hw (j & mv & Hjv & Hmv & Hjver & Himp & Hin & Huq) Hunc HL Ht.
  split; [exact Hfn|]. split; [|split; [|split]].
  - intros k Hk. destruct (Hw k Hk) as (A & B & C & D). unfold height in D. repeat split; auto. lia.
  - split; [exact Hunc|].
    intros k Hk. apply tidy1b_spec. rewrite forallb_forall in Ht. apply Ht. apply hon_in_honest_keys. exact Hk.
  - intros _. right. exists h, j, mv. split; [exact Hjv|]. split; [exact Hmv|]. split; [exact Hjver|]. split; [exact Himp|]. split; [exact Hin|exact Huq].
  - intros H. rewrite HL in H. discriminate.
Qed.

Definition wlock_chk (s : gstate) : bool :=
  recommit_chk s && forallb (tidy1b ex_P6 s 0) (honest_keys ex_P6) &&
  honestb ex_P6 (cleader (pcfg ex_P6 0) 3) &&
  fetch_ok_runb ex_P6 ex_pay (find_cert ex_P6) s 2.

Lemma ex_wlock_obs :
  option_map (fun s0 => wlock_chk (sync_round ex_P6 ex_pay (find_cert ex_P6) s0))
    (xrun ex_P6 (sync_rounds ex_P6 ex_pay (find_cert ex_P6) 3 (ginit ex_P6)) ex_ops_repropose) = Some true.
Proof. vm_compute. reflexivity. Qed.

Lemma ex_wlock_s : exists s, preach ex_P6 s /\ wlock_chk s = true.
Proof.
  destruct (xrun_some_reach_from ex_P6 _ _ _ true (sync_rounds_reach ex_P6 ex_pay (find_cert ex_P6) 3 _ (PReachInit ex_P6))
              ex_wlock_obs) as (s0 & Hr0 & Hc).
  exists (sync_round ex_P6 ex_pay (find_cert ex_P6) s0). split; [apply sync_round_reach; exact Hr0|exact Hc].
Qed.

Lemma ex_wlockstep : exists s, preach ex_P6 s /\ headroom ex_P6 s (Z.of_nat 0 + 2) /\
  wlockstep ex_P6 ex_pay s 3 0 /\ byz_run ex_P6 3 0 /\
  fetch_ok_run ex_P6 ex_pay (find_cert ex_P6) s (2 * (0 + 1)) /\
  repending ex_P6 s 3 0.
Proof.
  destruct ex_wlock_s as (s & Hr & Hc). unfold wlock_chk in Hc.
  apply andb_true_iff in Hc. destruct Hc as [Hc C4].
  apply andb_true_iff in Hc. destruct Hc as [Hc C3].
  apply andb_true_iff in Hc. destruct Hc as [C1 C2].
  destruct (recommit_of_chk s C1) as ((Hd & Hs) & Hw & Hrp & Hunc & _).
  assert (HLS : wlockstep ex_P6 ex_pay s 3 0).
  { apply (wlockstep_of_checks ex_P6 ex_pay s 3 0 100); try assumption. vm_compute. discriminate. }
  exists s. split; [exact Hr|]. split; [|split; [exact HLS|split; [|split]]].
  - split; [intros k Hk; specialize (Hd k Hk); cbn [Z.of_nat Z.add] in *; lia|].
    intros m Hm. specialize (Hs m Hm). cbn [Z.of_nat Z.add] in *. lia.
  - exists 0%nat. split; [lia|]. exact C3.
  - apply fetch_ok_runb_spec. exact C4.
  - destruct HLS as (_ & _ & _ & Hp & _). destruct (Hp C3) as [(j & mv & _ & _ & _ & Himp & Hin & Huq)|H]; [|exact H].
    exfalso. destruct Hrp as (j2 & mv2 & Hjv2 & Hmv2 & Hjver2 & Himp2 & Hin2 & Huq2).
    destruct (Huq _ None j2 mv2 Hin2 eq_refl eq_refl eq_refl Hjv2 Hmv2 Hjver2) as [E _]. discriminate E.
Qed.

(* a mixed-phase scenario: after the first round of the six-validator committee (view 1, silent
   Byzantine leader) the view timers of validators 1 and 3 fire; validators 4, 5, 6 still wait *)
Definition no_vote_atb (P : params) (s : gstate) (V : Z) : bool :=
  forallb (fun m => negb (m_sig_ok m && honestb P (m_key m) &&
                          match m_msg m with MCommit c => vnum (cview c) =? V | _ => false end)) (g_soup s).
Lemma no_vote_atb_spec P s V : no_vote_atb P s V = true ->
  forall h c, honestb P h = true -> In {| m_key := h; m_sig_ok := true; m_msg := MCommit c |} (g_soup s) ->
    vnum (cview c) <> V.
Proof.
  intros Hb h c Hh Hin E. unfold no_vote_atb in Hb. rewrite forallb_forall in Hb. specialize (Hb _ Hin).
  cbn [m_sig_ok m_key m_msg] in Hb. rewrite Hh in Hb. apply Z.eqb_eq in E. rewrite E in Hb. discriminate.
Qed.
Definition timeouts_verifyb (P : params) (s : gstate) (V : Z) : bool :=
  forallb (fun m => match m_msg m with
                    | MTimeout t => negb (m_sig_ok m && honestb P (m_key m) && (vnum (tview t) =? V)) ||
                                    is_ok (timeout_verify (p_g P) (p_e P) (p_C P) t)
                    | _ => true
                    end) (g_soup s).
Lemma timeouts_verifyb_spec P s V : timeouts_verifyb P s V = true ->
  forall h t, honestb P h = true -> In {| m_key := h; m_sig_ok := true; m_msg := MTimeout t |} (g_soup s) ->
    vnum (tview t) = V -> timeout_verify (p_g P) (p_e P) (p_C P) t = Ok tt.
Proof.
  intros Hb h t Hh Hin E. unfold timeouts_verifyb in Hb. rewrite forallb_forall in Hb. specialize (Hb _ Hin).
  cbn [m_sig_ok m_key m_msg] in Hb. rewrite Hh in Hb. apply Z.eqb_eq in E. rewrite E in Hb. cbn [andb negb orb] in Hb.
  destruct (timeout_verify (p_g P) (p_e P) (p_C P) t) as [[]| |]; try discriminate. reflexivity.
Qed.

Definition ex_ops_mixed : list xop := [XTimer 1; XTimer 3].

Definition mixed_chk (s : gstate) : bool :=
  forallb (fun k => (p_first ex_P6 + dview s k + 4 <? U64) && n_alive (g_node s k) && (hview s k =? 1) &&
                    match r_phase (n_live (g_node s k)) with PCommit => false | _ => true end &&
                    (height s k =? 0)) [1; 3; 4; 5; 6] &&
  forallb (fun m => msg_view (m_msg m) + 4 <? U64) (g_soup s) &&
  match filter is_prop (g_soup s) with [] => true | _ => false end &&
  (weight (cweights (p_C ex_P6)) (timed_out_bits ex_P6 (g_soup s) 1) <? quorum (p_C ex_P6)) &&
  no_vote_atb ex_P6 s 1 && timeouts_verifyb ex_P6 s 1 &&
  match r_phase (n_live (g_node s 1)), r_phase (n_live (g_node s 4)) with PTimeout, Prepare => true | _, _ => false end.

Lemma ex_mixed_obs : option_map mixed_chk (xrun ex_P6 ex_s6 ex_ops_mixed) = Some true.
Proof. vm_compute. reflexivity. Qed.

Lemma mixed_of_chk s : mixed_chk s = true -> headroom ex_P6 s 4 /\ unvoted ex_P6 s 1 0 /\
  no_proposal ex_P6 s 1 /\ timed_out_light ex_P6 s 1 /\
  r_phase (n_live (g_node s 1)) = PTimeout /\ r_phase (n_live (g_node s 4)) = Prepare.
Proof.
  intros Hc. unfold mixed_chk in Hc.
  apply andb_true_iff in Hc. destruct Hc as [Hc C7].
  apply andb_true_iff in Hc. destruct Hc as [Hc C6].
  apply andb_true_iff in Hc. destruct Hc as [Hc C5].
  apply andb_true_iff in Hc. destruct Hc as [Hc C4].
  apply andb_true_iff in Hc. destruct Hc as [Hc C3].
  apply andb_true_iff in Hc. destruct Hc as [C1 C2].
  assert (Hk : forall k, honestb ex_P6 k = true ->
            p_first ex_P6 + dview s k + 4 < U64 /\ up s k /\ hview s k = 1 /\
            r_phase (n_live (g_node s k)) <> PCommit /\ height s k = 0).
  { intros k Hk. apply ex_P6_hon in Hk. pose proof (Forall_forallb _ _ C1 k Hk) as Hb. cbv beta in Hb.
    apply andb_true_iff in Hb. destruct Hb as [Hb B5]. apply andb_true_iff in Hb. destruct Hb as [Hb B4].
    apply andb_true_iff in Hb. destruct Hb as [Hb B3]. apply andb_true_iff in Hb. destruct Hb as [B1 B2].
    split; [apply Z.ltb_lt; exact B1|]. split; [exact B2|]. split; [apply Z.eqb_eq; exact B3|].
    split; [intros E; rewrite E in B4; discriminate|apply Z.eqb_eq; exact B5]. }
  split; [|split; [|split; [|split]]].
  - split; [intros k Hk0; apply (Hk k Hk0)|]. intros m Hin. apply Z.ltb_lt. exact (Forall_forallb _ _ C2 m Hin).
  - intros k Hk0. destruct (Hk k Hk0) as (_ & A & B & C & D). auto.
  - apply no_proposal_by_filter. destruct (filter is_prop (g_soup s)); [reflexivity|discriminate].
  - apply Z.ltb_lt. exact C4.
  - destruct (r_phase (n_live (g_node s 1))); try discriminate.
    destruct (r_phase (n_live (g_node s 4))); try discriminate. split; reflexivity.
Qed.

Lemma ex_mixed_hyps : exists s, preach ex_P6 s /\ headroom ex_P6 s 4 /\ unvoted ex_P6 s 1 0 /\
  no_proposal ex_P6 s 1 /\ timed_out_light ex_P6 s 1 /\
  r_phase (n_live (g_node s 1)) = PTimeout /\ r_phase (n_live (g_node s 4)) = Prepare.
Proof.
  destruct (xrun_some_reach_from ex_P6 _ _ mixed_chk true (proj1 ex_view_times_out_hyps) ex_mixed_obs) as (s & Hr & Hc).
  exists s. split; [exact Hr|exact (mixed_of_chk s Hc)].
Qed.

(* the same state satisfies the hypotheses of the progress theorem from mixed-phase states *)
Definition tidy_timeoutsb (P : params) (s : gstate) (V n : Z) : bool :=
  forallb (fun m => match m_msg m with
                    | MTimeout t =>
                        negb (m_sig_ok m && honestb P (m_key m) && (vnum (tview t) =? V)) ||
                        (match thv t with None => true | Some c => hnum (cprop c) <? n + 1 end &&
                         match thq t with None => n =? p_first P | Some q => hnum (cprop (qmsg q)) =? n - 1 end)
                    | _ => true
                    end) (g_soup s).
Lemma tidy_timeoutsb_spec P s V n : tidy_timeoutsb P s V n = true ->
  forall h t, honestb P h = true -> In {| m_key := h; m_sig_ok := true; m_msg := MTimeout t |} (g_soup s) ->
    vnum (tview t) = V -> tidy_report_b P n (n + 1) t.
Proof.
  intros Hb h t Hh Hin E. unfold tidy_timeoutsb in Hb. rewrite forallb_forall in Hb. specialize (Hb _ Hin).
  cbn [m_sig_ok m_key m_msg] in Hb. rewrite Hh in Hb. apply Z.eqb_eq in E. rewrite E in Hb. cbn [andb negb orb] in Hb.
  apply andb_true_iff in Hb. destruct Hb as [H1 H2]. split.
  - intros c Hc. rewrite Hc in H1. apply Z.ltb_lt. exact H1.
  - destruct (thq t) as [q|].
    + right. exists q. split; [reflexivity|apply Z.eqb_eq; exact H2].
    + left. split; [apply Z.eqb_eq; exact H2|reflexivity].
Qed.

Definition mixed2_chk (s : gstate) : bool :=
  mixed_chk s &&
  (weight (cweights (p_C ex_P6)) (voted_bits ex_P6 (g_soup s) 0) <? quorum (p_C ex_P6)) &&
  forallb (tidy1b ex_P6 s 0) (honest_keys ex_P6) && tidy_timeoutsb ex_P6 s 1 0 &&
  honestb ex_P6 (cleader (pcfg ex_P6 0) 2) &&
  fetch_ok_runb ex_P6 ex_pay (find_cert ex_P6) s 4.

Lemma ex_mixed2_obs : option_map mixed2_chk (xrun ex_P6 ex_s6 ex_ops_mixed) = Some true.
Proof. vm_compute. reflexivity. Qed.

Lemma ex_progress_from_mixed_hyps : exists s, preach ex_P6 s /\ headroom ex_P6 s (Z.of_nat 0 + 4) /\
  p_first ex_P6 <= 0 /\ unvoted ex_P6 s 1 0 /\ no_proposal ex_P6 s 1 /\ timed_out_light ex_P6 s 1 /\
  uncertified ex_P6 s 0 /\
  (forall k, honestb ex_P6 k = true -> tidy_node_b ex_P6 0 (0 + 1) (n_live (g_node s k))) /\
  (forall h t, honestb ex_P6 h = true -> In {| m_key := h; m_sig_ok := true; m_msg := MTimeout t |} (g_soup s) ->
     vnum (tview t) = 1 -> tidy_report_b ex_P6 0 (0 + 1) t) /\
  byz_run ex_P6 (1 + 1) 0 /\ fetch_ok_run ex_P6 ex_pay (find_cert ex_P6) s (2 + 2 * (0 + 1)) /\
  r_phase (n_live (g_node s 1)) = PTimeout /\ r_phase (n_live (g_node s 4)) = Prepare.
Proof.
  destruct (xrun_some_reach_from ex_P6 _ _ mixed2_chk true (proj1 ex_view_times_out_hyps) ex_mixed2_obs) as (s & Hr & Hc).
  unfold mixed2_chk in Hc.
  apply andb_true_iff in Hc. destruct Hc as [Hc C6].
  apply andb_true_iff in Hc. destruct Hc as [Hc C5].
  apply andb_true_iff in Hc. destruct Hc as [Hc C4].
  apply andb_true_iff in Hc. destruct Hc as [Hc C3].
  apply andb_true_iff in Hc. destruct Hc as [C1 C2].
  destruct (mixed_of_chk s C1) as (Hh & Hw & Hnp & Hl & Hph).
  exists s. split; [exact Hr|]. split; [exact Hh|]. split; [vm_compute; discriminate|]. split; [exact Hw|].
  split; [exact Hnp|]. split; [exact Hl|]. split; [|split; [|split; [|split; [|split]]]].
  - unfold uncertified. apply (light_no_cqc ex_P6 ex_P6_ok (g_soup s) 0). apply Z.ltb_lt. exact C2.
  - intros k Hk. apply (tidy1b_spec ex_P6 s 0 k). rewrite forallb_forall in C3. apply C3. apply hon_in_honest_keys. exact Hk.
  - exact (tidy_timeoutsb_spec ex_P6 s 1 0 C4).
  - exists 0%nat. split; [lia|]. exact C5.
  - apply fetch_ok_runb_spec. exact C6.
  - exact Hph.
Qed.

(* ================================================================== *)
(* the corrected (d) with "the leader is ready" is still false for three rounds: if the leader
   has been notified but has not proposed when the round starts, its proposal is sent during
   a round in which nobody enters the view, so all view timers fire at the end of that round
   and the proposal is rejected in the next one (phase Timeout); the block is committed in the
   following view, in round 4 of this run *)
Definition ex_ops_ready : list xop :=
  flat_map (fun i => map (fun k => XDeliver k i) [1; 2; 3; 4]) [0; 1; 2; 3]%nat.

Definition ready_chk (s : gstate) : bool :=
  forallb (fun k => (p_first ex_P + dview s k + (Z.of_nat 3 + 2) <? U64) && n_alive (g_node s k) &&
                    (hview s k =? 1) &&
                    match r_phase (n_live (g_node s k)) with PCommit => false | _ => true end) [1; 2; 3; 4] &&
  forallb (fun m => msg_view (m_msg m) + (Z.of_nat 3 + 2) <? U64) (g_soup s) &&
  fetch_ok_runb ex_P ex_pay (find_cert ex_P) s 3 &&
  match n_notify (g_node s (cleader (pcfg ex_P 0) 1)) with
  | Some j => match @justification_view unit true j with Ok mv => vnum mv =? 1 | _ => false end
  | None => false
  end &&
  (height (sync_rounds ex_P ex_pay (find_cert ex_P) 3 s) 1 <=? height s 1).

Lemma ex_ready_obs : option_map ready_chk (xrun ex_P (ginit ex_P) ex_ops_ready) = Some true.
Proof. vm_compute. reflexivity. Qed.

Theorem aligned_view_commits'_3_refuted : ~ C06_aligned_view_commits' 3.
Proof.
  intros H. destruct (xrun_some_reach _ _ _ _ ex_ready_obs) as (s & Hr & Hc).
  unfold ready_chk in Hc.
  apply andb_true_iff in Hc. destruct Hc as [Hc C5].
  apply andb_true_iff in Hc. destruct Hc as [Hc C4].
  apply andb_true_iff in Hc. destruct Hc as [Hc C3].
  apply andb_true_iff in Hc. destruct Hc as [C1 C2].
  assert (Hk : forall k, honestb ex_P k = true ->
            p_first ex_P + dview s k + (Z.of_nat 3 + 2) < U64 /\ up s k /\ hview s k = 1 /\
            (r_phase (n_live (g_node s k)) = Prepare \/ r_phase (n_live (g_node s k)) = PTimeout)).
  { intros k Hk. apply ex_P_hon in Hk. pose proof (Forall_forallb _ _ C1 k Hk) as Hb. cbv beta in Hb.
    apply andb_true_iff in Hb. destruct Hb as [Hb B4]. apply andb_true_iff in Hb. destruct Hb as [Hb B3].
    apply andb_true_iff in Hb. destruct Hb as [B1 B2].
    split; [apply Z.ltb_lt; exact B1|]. split; [exact B2|]. split; [apply Z.eqb_eq; exact B3|].
    destruct (r_phase (n_live (g_node s k))); [left; reflexivity|discriminate|right; reflexivity]. }
  specialize (H ex_P ex_pay (find_cert ex_P) ex_params_ok ex_env_ok s 1 Hr).
  assert (Hh : headroom ex_P s (Z.of_nat 3 + 2)).
  { split; [intros k Hk0; apply (Hk k Hk0)|]. intros m Hin. apply Z.ltb_lt. exact (Forall_forallb _ _ C2 m Hin). }
  assert (Hal : aligned ex_P s 1).
  { intros k Hk0. destruct (Hk k Hk0) as (_ & A & B & C). auto. }
  assert (Hlr : leader_ready ex_P s 1).
  { unfold leader_ready. destruct (n_notify (g_node s (cleader (pcfg ex_P 0) 1))) as [j|]; [|discriminate].
    destruct (@justification_view unit true j) as [mv| |] eqn:Ejv; try discriminate.
    exists j, mv. split; [reflexivity|]. split; [exact Ejv|apply Z.eqb_eq; exact C4]. }
  specialize (H Hh (fetch_ok_runb_spec _ _ _ _ _ C3) Hal eq_refl Hlr 1 eq_refl).
  apply Z.leb_le in C5. lia.
Qed.
