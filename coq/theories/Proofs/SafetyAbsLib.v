(* Layer A of the safety argument, part 1: the weight / quorum-intersection library and
   the order on (view, phase) positions.  Everything here is about duplicate-free lists of
   validator indices and their weight [wsum]; no protocol steps yet. *)
From Coq Require Import ZArith List Bool Lia Arith.
From EC Require Import Model.SafetyAbs.
Import ListNotations.
Open Scope Z_scope.
Ltac Zify.zify_post_hook ::= Z.div_mod_to_equations.

(* ------------------------------------------------------------------ *)
(* membership test on index lists *)
Definition memb (l : list nat) (i : nat) : bool := existsb (Nat.eqb i) l.

Lemma memb_true l i : memb l i = true <-> In i l.
Proof.
  unfold memb. rewrite existsb_exists. split.
  - intros [x [Hin Heq]]. apply Nat.eqb_eq in Heq. subst; auto.
  - intros Hin. exists i. split; auto. apply Nat.eqb_refl.
Qed.

Lemma memb_false l i : memb l i = false <-> ~ In i l.
Proof.
  rewrite <- memb_true. destruct (memb l i); split; intro H; congruence.
Qed.

Definition inter (A B : list nat) : list nat := filter (memb B) A.

Lemma in_inter A B i : In i (inter A B) <-> In i A /\ In i B.
Proof. unfold inter. rewrite filter_In, memb_true. tauto. Qed.

Lemma Forall_filter_keep {A} (P : A -> Prop) p (l : list A) :
  Forall P l -> Forall P (filter p l).
Proof.
  rewrite !Forall_forall. intros H x Hx. apply filter_In in Hx. apply H. tauto.
Qed.

Lemma NoDup_map_filter {A B} (f : A -> B) p (l : list A) :
  NoDup (map f l) -> NoDup (map f (filter p l)).
Proof.
  induction l as [|a l IH]; cbn [map filter]; intros Hnd; [constructor|].
  inversion Hnd as [|x l' Hnin Hnd']; subst.
  destruct (p a); cbn [map]; auto.
  constructor; auto.
  intro Hin. apply Hnin. apply in_map_iff in Hin. destruct Hin as [y [Hy Hin]].
  apply filter_In in Hin. apply in_map_iff. exists y. tauto.
Qed.

Lemma NoDup_app_disj {A} (l1 l2 : list A) :
  NoDup l1 -> NoDup l2 -> (forall x, In x l1 -> ~ In x l2) -> NoDup (l1 ++ l2).
Proof.
  induction l1 as [|a l1 IH]; intros H1 H2 Hd; cbn [app]; auto.
  inversion H1 as [|x l Hnin Hnd]; subst. constructor.
  - intro Hin. apply in_app_or in Hin. destruct Hin as [Hin|Hin]; [contradiction|].
    apply (Hd a); [left; reflexivity|assumption].
  - apply IH; auto. intros x Hx. apply Hd. right. assumption.
Qed.

(* ------------------------------------------------------------------ *)
(* positions: (view, phase) with the lexicographic order *)

Lemma pos_lt_trans a b c : pos_lt a b -> pos_lt b c -> pos_lt a c.
Proof. unfold pos_lt. lia. Qed.

Lemma pos_le_refl a : pos_le a a.
Proof. right. reflexivity. Qed.

Lemma pos_lt_le a b : pos_lt a b -> pos_le a b.
Proof. left. assumption. Qed.

Lemma pos_le_lt_trans a b c : pos_le a b -> pos_lt b c -> pos_lt a c.
Proof. intros [H|H] H'; [eapply pos_lt_trans; eauto|subst; auto]. Qed.

Lemma pos_lt_le_trans a b c : pos_lt a b -> pos_le b c -> pos_lt a c.
Proof. intros H [H'|H']; [eapply pos_lt_trans; eauto|subst; auto]. Qed.

Lemma pos_le_trans a b c : pos_le a b -> pos_le b c -> pos_le a c.
Proof. intros [H|H] H'; [left; eapply pos_lt_le_trans; eauto|subst; auto]. Qed.

Lemma pos_lt_irrefl a : ~ pos_lt a a.
Proof. unfold pos_lt. lia. Qed.

Lemma pos_le_fst a b : pos_le a b -> fst a <= fst b.
Proof. intros [H|H]; [unfold pos_lt in H; lia|subst; lia]. Qed.

Lemma pos_le_to_timeout c : pos_le c (fst c, Timeout).
Proof.
  destruct c as [x p]. cbn [fst]. destruct p.
  - left. right. cbn. lia.
  - left. right. cbn. lia.
  - right. reflexivity.
Qed.

Lemma pos_lt_advance c w : fst c < w -> pos_lt c (w, Prepare).
Proof. intros H. left. cbn [fst]. lia. Qed.

(* a validator that timed out at t can only vote above t *)
Lemma timeout_then_vote t c w : pos_le (t, Timeout) c -> pos_lt c (w, Commit) -> t < w.
Proof.
  intros H1 H2. pose proof (pos_le_lt_trans _ _ _ H1 H2) as H.
  unfold pos_lt in H. cbn in H. lia.
Qed.

(* a validator that voted at u can only vote above u *)
Lemma vote_then_vote u c w : pos_le (u, Commit) c -> pos_lt c (w, Commit) -> u < w.
Proof.
  intros H1 H2. pose proof (pos_le_lt_trans _ _ _ H1 H2) as H.
  unfold pos_lt in H. cbn in H. lia.
Qed.

Lemma timeout_not_before t c v : pos_le (t, Timeout) c -> v <= t -> ~ pos_lt c (v, Commit).
Proof.
  intros H1 Hv H2. pose proof (pos_le_lt_trans _ _ _ H1 H2) as H.
  unfold pos_lt in H. cbn in H. lia.
Qed.

Lemma vote_not_before v c : pos_le (v, Commit) c -> ~ pos_lt c (v, Commit).
Proof.
  intros H1 H2. exact (pos_lt_irrefl _ (pos_le_lt_trans _ _ _ H1 H2)).
Qed.

(* ------------------------------------------------------------------ *)
(* functional update *)
Lemma upd_same {A} (f : nat -> A) i x : upd f i x i = x.
Proof. unfold upd. rewrite Nat.eqb_refl. reflexivity. Qed.

Lemma upd_other {A} (f : nat -> A) i x j : j <> i -> upd f i x j = f j.
Proof. unfold upd. intros H. apply Nat.eqb_neq in H. rewrite H. reflexivity. Qed.

Lemma upd_cases {A} (f : nat -> A) i x j :
  (j = i /\ upd f i x j = x) \/ (j <> i /\ upd f i x j = f j).
Proof.
  destruct (Nat.eq_dec j i) as [E|E]; [left|right]; split; auto.
  - subst. apply upd_same.
  - apply upd_other; auto.
Qed.

(* ------------------------------------------------------------------ *)
(* max_cq *)
Lemma max_cq_cases a b c : max_cq a b = Some c -> a = Some c \/ b = Some c.
Proof.
  unfold max_cq. destruct a as [x|], b as [y|]; try (intros H; auto; fail).
  destruct (aq_view x <? aq_view y); auto.
Qed.

Lemma max_cq_ge_l x b : exists c', max_cq (Some x) b = Some c' /\ aq_view x <= aq_view c'.
Proof.
  unfold max_cq. destruct b as [y|].
  - destruct (Z.ltb_spec (aq_view x) (aq_view y)); eexists; split; try reflexivity; lia.
  - eexists; split; try reflexivity; lia.
Qed.

Lemma max_cq_ge_r a y : exists c', max_cq a (Some y) = Some c' /\ aq_view y <= aq_view c'.
Proof.
  unfold max_cq. destruct a as [x|].
  - destruct (Z.ltb_spec (aq_view x) (aq_view y)); eexists; split; try reflexivity; lia.
  - eexists; split; try reflexivity; lia.
Qed.

(* ------------------------------------------------------------------ *)
(* blocks *)
Lemma block_eqb_eq a b : block_eqb a b = true -> a = b.
Proof.
  destruct a as [n1 h1], b as [n2 h2]. unfold block_eqb. cbn [bnum bhash].
  intros H. apply andb_true_iff in H. destruct H as [H1 H2].
  apply Z.eqb_eq in H1. apply Z.eqb_eq in H2. subst. reflexivity.
Qed.

Lemma block_eqb_refl a : block_eqb a a = true.
Proof. unfold block_eqb. rewrite !Z.eqb_refl. reflexivity. Qed.

Lemma block_ext (a b : block) : bnum a = bnum b -> bhash a = bhash b -> a = b.
Proof. destruct a, b. cbn. intros; subst; reflexivity. Qed.

(* ------------------------------------------------------------------ *)
Section Weights.
  Variable weights : list Z.
  Variable byz : nat -> bool.
  Hypothesis Hok : committee_ok weights byz.

  Notation wt := (wt weights).
  Notation wsum := (wsum weights).
  Notation member := (member weights).
  Notation honest := (honest weights byz).
  Notation n_total := (n_total weights).
  Notation f_max := (f_max weights).
  Notation q_thr := (q_thr weights).
  Notation s_thr := (s_thr weights).

  Lemma thr_facts :
    0 <= f_max /\ 5 * f_max < n_total /\ q_thr = n_total - f_max /\ s_thr = n_total - 3 * f_max.
  Proof.
    destruct Hok as [_ [Hn _]]. unfold q_thr, s_thr, f_max in *.
    repeat split; lia.
  Qed.

  Lemma two_f_below_s : 2 * f_max < s_thr.
  Proof. pose proof thr_facts. lia. Qed.

  Lemma wt_nonneg i : 0 <= wt i.
  Proof.
    unfold SafetyAbs.wt. destruct Hok as [Hpos _].
    destruct (nth_in_or_default i weights 0) as [Hin|Hd].
    - rewrite Forall_forall in Hpos. specialize (Hpos _ Hin). lia.
    - rewrite Hd. lia.
  Qed.

  Lemma wsum_cons i l : wsum (i :: l) = wt i + wsum l.
  Proof. reflexivity. Qed.

  Lemma wsum_nil : wsum [] = 0.
  Proof. reflexivity. Qed.

  Lemma wsum_app a b : wsum (a ++ b) = wsum a + wsum b.
  Proof.
    induction a as [|x a IH]; [rewrite wsum_nil; cbn [app]; lia|].
    cbn [app]. rewrite !wsum_cons, IH. lia.
  Qed.

  Lemma wsum_nonneg l : 0 <= wsum l.
  Proof.
    induction l as [|x l IH]; [rewrite wsum_nil; lia|].
    rewrite wsum_cons. pose proof (wt_nonneg x). lia.
  Qed.

  Lemma wsum_filter_split p l :
    wsum l = wsum (filter p l) + wsum (filter (fun x => negb (p x)) l).
  Proof.
    induction l as [|x l IH]; [reflexivity|].
    cbn [filter]. destruct (p x); cbn [negb]; rewrite !wsum_cons; lia.
  Qed.

  Lemma wsum_incl_le : forall A B, NoDup A -> incl A B -> wsum A <= wsum B.
  Proof.
    induction A as [|a A IH]; intros B Hnd Hincl.
    - rewrite wsum_nil. apply wsum_nonneg.
    - inversion Hnd as [|x l Hnin Hnd']; subst.
      assert (Ha : In a B) by (apply Hincl; left; reflexivity).
      apply in_split in Ha. destruct Ha as [B1 [B2 HB]]. subst B.
      rewrite wsum_app, !wsum_cons.
      assert (Hle : wsum A <= wsum (B1 ++ B2)).
      { apply IH; auto. intros x Hx.
        assert (Hx' : In x (B1 ++ a :: B2)) by (apply Hincl; right; auto).
        apply in_app_or in Hx'. apply in_or_app.
        destruct Hx' as [Hx'|[Heq|Hx']]; auto. subst. contradiction. }
      rewrite wsum_app in Hle. lia.
  Qed.

  Lemma wsum_seq_aux : forall l d,
    SafetyAbs.wsum (d ++ l) (seq (length d) (length l)) = fold_right Z.add 0 l.
  Proof.
    induction l as [|x l IH]; intros d; [reflexivity|].
    cbn [length seq fold_right]. unfold SafetyAbs.wsum. cbn [fold_right].
    unfold SafetyAbs.wt at 1. rewrite nth_middle. f_equal.
    specialize (IH (d ++ [x])). rewrite <- app_assoc in IH. cbn [app] in IH.
    rewrite app_length in IH. cbn [length] in IH.
    replace (length d + 1)%nat with (S (length d)) in IH by lia.
    exact IH.
  Qed.

  Lemma wsum_all : wsum (seq 0 (length weights)) = n_total.
  Proof. exact (wsum_seq_aux weights []). Qed.

  Lemma wsum_le_total l : NoDup l -> Forall member l -> wsum l <= n_total.
  Proof.
    intros Hnd Hm. rewrite <- wsum_all. apply wsum_incl_le; auto.
    intros x Hx. rewrite Forall_forall in Hm. specialize (Hm _ Hx).
    unfold SafetyAbs.member in Hm. apply in_seq. lia.
  Qed.

  Lemma wsum_disjoint_le A B :
    NoDup A -> NoDup B -> Forall member A -> Forall member B ->
    (forall i, In i A -> ~ In i B) -> wsum A + wsum B <= n_total.
  Proof.
    intros HA HB HmA HmB Hd. rewrite <- wsum_app. apply wsum_le_total.
    - apply NoDup_app_disj; auto.
    - apply Forall_app; auto.
  Qed.
  (* ---- honest / Byzantine parts and quorum intersection ---- *)
  Definition hon_of (l : list nat) : list nat := filter (fun i => negb (byz i)) l.

  Lemma in_hon_of l i : In i (hon_of l) <-> In i l /\ byz i = false.
  Proof. unfold hon_of. rewrite filter_In, negb_true_iff. tauto. Qed.

  Lemma hon_of_NoDup l : NoDup l -> NoDup (hon_of l).
  Proof. apply NoDup_filter. Qed.

  Lemma hon_of_member l : Forall member l -> Forall member (hon_of l).
  Proof. apply Forall_filter_keep. Qed.

  Lemma byz_weight l : NoDup l -> Forall member l -> wsum (filter byz l) <= f_max.
  Proof.
    intros Hnd Hm. destruct Hok as [_ [_ Hb]]. apply Hb.
    - apply NoDup_filter; auto.
    - apply Forall_filter_keep; auto.
    - rewrite Forall_forall. intros x Hx. apply filter_In in Hx. tauto.
  Qed.

  Lemma honest_weight l : NoDup l -> Forall member l -> wsum l - f_max <= wsum (hon_of l).
  Proof.
    intros Hnd Hm. rewrite (wsum_filter_split byz l).
    pose proof (byz_weight l Hnd Hm). unfold hon_of. lia.
  Qed.

  Lemma inter_NoDup A B : NoDup A -> NoDup (inter A B).
  Proof. apply NoDup_filter. Qed.

  Lemma inter_member A B : Forall member A -> Forall member (inter A B).
  Proof. apply Forall_filter_keep. Qed.

  (* W (A ∩ B) >= W A + W B - n *)
  Lemma inter_weight A B :
    NoDup A -> NoDup B -> Forall member A -> Forall member B ->
    wsum A + wsum B - n_total <= wsum (inter A B).
  Proof.
    intros HA HB HmA HmB. rewrite (wsum_filter_split (memb B) A). fold (inter A B).
    assert (Hd : wsum (filter (fun x => negb (memb B x)) A) + wsum B <= n_total).
    { apply wsum_disjoint_le; auto.
      - apply NoDup_filter; auto.
      - apply Forall_filter_keep; auto.
      - intros i Hi. apply filter_In in Hi. destruct Hi as [_ Hi].
        apply negb_true_iff in Hi. apply memb_false in Hi. auto. }
    lia.
  Qed.

  Lemma heavy_has_honest l :
    NoDup l -> Forall member l -> f_max < wsum l -> exists i, In i l /\ honest i.
  Proof.
    intros Hnd Hm Hw. pose proof (honest_weight l Hnd Hm) as Hh.
    destruct (hon_of l) as [|i r] eqn:E.
    - rewrite wsum_nil in Hh. lia.
    - assert (Hi : In i (hon_of l)) by (rewrite E; left; reflexivity).
      apply in_hon_of in Hi. destruct Hi as [Hi Hb]. exists i. split; auto. split; auto.
      rewrite Forall_forall in Hm. auto.
  Qed.

  Lemma quorum_has_honest A :
    NoDup A -> Forall member A -> q_thr <= wsum A -> exists i, In i A /\ honest i.
  Proof.
    intros HA HmA HqA. apply heavy_has_honest; auto.
    pose proof thr_facts. pose proof (wsum_le_total A HA HmA). lia.
  Qed.

  (* two quorums share an honest member *)
  Lemma quorums_share_honest A B :
    NoDup A -> Forall member A -> q_thr <= wsum A ->
    NoDup B -> Forall member B -> q_thr <= wsum B ->
    exists i, In i A /\ In i B /\ honest i.
  Proof.
    intros HA HmA HqA HB HmB HqB.
    destruct (heavy_has_honest (inter A B)) as [i [Hi Hh]].
    - apply inter_NoDup; auto.
    - apply inter_member; auto.
    - pose proof (inter_weight A B HA HB HmA HmB). pose proof thr_facts. lia.
    - apply in_inter in Hi. exists i. tauto.
  Qed.

  (* the honest members of the intersection of two quorums weigh a sub-quorum *)
  Lemma quorums_share_subquorum Q S :
    NoDup Q -> Forall member Q -> q_thr <= wsum Q ->
    NoDup S -> Forall member S -> q_thr <= wsum S ->
    s_thr <= wsum (hon_of (inter Q S)).
  Proof.
    intros HQ HmQ HqQ HS HmS HqS.
    pose proof (inter_weight Q S HQ HS HmQ HmS) as Hi.
    pose proof (honest_weight (inter Q S) (inter_NoDup Q S HQ) (inter_member Q S HmQ)) as Hh.
    pose proof thr_facts. lia.
  Qed.

  (* a list whose honest members all lie outside a quorum weighs at most 2f *)
  Lemma outside_light Q R :
    NoDup Q -> Forall member Q -> q_thr <= wsum Q ->
    NoDup R -> Forall member R ->
    (forall i, In i R -> byz i = false -> ~ In i Q) ->
    wsum R <= 2 * f_max.
  Proof.
    intros HQ HmQ HqQ HR HmR Hout.
    rewrite (wsum_filter_split byz R). pose proof (byz_weight R HR HmR) as Hb.
    assert (Hd : wsum (hon_of R) + wsum Q <= n_total).
    { apply wsum_disjoint_le; auto.
      - apply hon_of_NoDup; auto.
      - apply hon_of_member; auto.
      - intros i Hi. apply in_hon_of in Hi. destruct Hi as [Hi Hbi]. auto. }
    unfold hon_of in Hd. pose proof thr_facts. lia.
  Qed.

  (* hence a sub-quorum always contains an honest member of any quorum *)
  Lemma subquorum_meets Q R :
    NoDup Q -> Forall member Q -> q_thr <= wsum Q ->
    NoDup R -> Forall member R -> s_thr <= wsum R ->
    exists i, In i R /\ In i Q /\ honest i.
  Proof.
    intros HQ HmQ HqQ HR HmR HsR.
    destruct (filter (fun i => negb (byz i) && memb Q i) R) as [|i r] eqn:E.
    - exfalso.
      assert (Hl : wsum R <= 2 * f_max).
      { apply (outside_light Q R); auto. intros i Hi Hb HiQ.
        assert (Hin : In i (filter (fun i => negb (byz i) && memb Q i) R)).
        { apply filter_In. split; auto. rewrite Hb. cbn [negb andb]. apply memb_true; auto. }
        rewrite E in Hin. destruct Hin. }
      pose proof thr_facts. lia.
    - assert (Hin : In i (filter (fun i => negb (byz i) && memb Q i) R))
        by (rewrite E; left; reflexivity).
      apply filter_In in Hin. destruct Hin as [Hi Hc]. apply andb_true_iff in Hc.
      destruct Hc as [Hb Hq]. apply negb_true_iff in Hb. apply memb_true in Hq.
      exists i. split; auto. split; auto. split; auto.
      rewrite Forall_forall in HmR. auto.
  Qed.

  Lemma heavier_not_incl A B :
    NoDup A -> wsum B < wsum A -> exists i, In i A /\ ~ In i B.
  Proof.
    intros HA Hw.
    destruct (filter (fun i => negb (memb B i)) A) as [|i r] eqn:E.
    - exfalso. assert (Hincl : incl A B).
      { intros i Hi. destruct (memb B i) eqn:Em; [apply memb_true; auto|].
        assert (Hin : In i (filter (fun i => negb (memb B i)) A)).
        { apply filter_In. split; auto. rewrite Em. reflexivity. }
        rewrite E in Hin. destruct Hin. }
      pose proof (wsum_incl_le A B HA Hincl). lia.
    - assert (Hin : In i (filter (fun i => negb (memb B i)) A))
        by (rewrite E; left; reflexivity).
      apply filter_In in Hin. destruct Hin as [Hi Hc]. apply negb_true_iff in Hc.
      apply memb_false in Hc. exists i. auto.
  Qed.
End Weights.

(* ------------------------------------------------------------------ *)
(* reporters of a block in a timeout certificate *)
Lemma reporters_in t b i :
  In i (reporters t b) -> exists r u, In (i, r) (at_entries t) /\ ar_hv r = Some (u, b).
Proof.
  unfold reporters. intros H. apply in_map_iff in H. destruct H as [[i' r] [Hf Hin]].
  cbn [fst] in Hf. subst i'. apply filter_In in Hin. destruct Hin as [Hin Hp].
  cbn [snd] in Hp. destruct (ar_hv r) as [[u b']|] eqn:E; [|discriminate].
  apply block_eqb_eq in Hp. subst b'. exists r, u. auto.
Qed.

Lemma in_reporters t b i r u :
  In (i, r) (at_entries t) -> ar_hv r = Some (u, b) -> In i (reporters t b).
Proof.
  intros Hin Hr. unfold reporters. apply in_map_iff. exists (i, r). split; [reflexivity|].
  apply filter_In. split; auto. cbn [snd]. rewrite Hr. apply block_eqb_refl.
Qed.

Lemma reporters_NoDup t b : NoDup (map fst (at_entries t)) -> NoDup (reporters t b).
Proof. apply NoDup_map_filter. Qed.

Lemma reporters_Forall (P : nat -> Prop) t b :
  Forall P (map fst (at_entries t)) -> Forall P (reporters t b).
Proof.
  rewrite !Forall_forall. intros H x Hx. apply H. unfold reporters in Hx.
  apply in_map_iff in Hx. destruct Hx as [e [He Hin]]. apply filter_In in Hin.
  apply in_map_iff. exists e. tauto.
Qed.

Lemma entry_of_signer t i : In i (map fst (at_entries t)) -> exists r, In (i, r) (at_entries t).
Proof.
  intros H. apply in_map_iff in H. destruct H as [[i' r] [Hf Hin]]. cbn [fst] in Hf. subst. eauto.
Qed.

Lemma signer_of_entry t i r : In (i, r) (at_entries t) -> In i (map fst (at_entries t)).
Proof. intros H. apply in_map_iff. exists (i, r). auto. Qed.
