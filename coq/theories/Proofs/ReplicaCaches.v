(* C16, replica-cache half: the bookkeeping of partially collected certificates inside the
   replica (commit_views_cache / commit_qcs_cache / timeout_views_cache / timeout_qcs_cache of
   v2_chonky_bft) stays bounded by a function of the committee size alone, whatever messages
   arrive; and the unwrap / expect calls of on_commit / on_timeout are never hit.

   Structure:
     1. association lists (zmap_get / zmap_set / filter)
     2. families of signer bitmaps: column counts, the counting bound
     3. upserts into a commit bucket (cmap_set) and into a TimeoutQC (tqmap_set)
     4. the cache invariant and its preservation by the two cache updates
     5. every other handler leaves the four caches alone
     6. on_commit / on_timeout: invariant preserved, only panic is the overflow of view.next()
     7. reachable states, bounds *)
From Coq Require Import ZArith List Bool Lia Permutation Sorting.Sorted.
From EC Require Import Lib.Outcome Lib.U64 Lib.ListW Lib.Obs Model.Msgs Model.Replica Model.ReplicaRun
  Proofs.MsgsFacts Proofs.QCProofs Proofs.TqcAssembly.
Import ListNotations.
Open Scope Z_scope.

(* ================================================================== *)
(* 1. association lists                                                 *)

Definition zsorted {A} (m : list (Z * A)) : Prop :=
  StronglySorted (fun a b => fst a < fst b) m.

Lemma zmap_get_in {A} (m : list (Z * A)) k a : zmap_get m k = Some a -> In (k, a) m.
Proof.
  induction m as [|[k1 a1] m IH]; cbn [zmap_get]; [discriminate|].
  destruct (k1 =? k) eqn:E.
  - intros H; inversion H; subst. apply Z.eqb_eq in E; subst. left; reflexivity.
  - intros H; right; auto.
Qed.

Lemma zmap_get_set {A} (m : list (Z * A)) k a k' :
  zmap_get (zmap_set m k a) k' = if k =? k' then Some a else zmap_get m k'.
Proof.
  induction m as [|[k1 a1] m IH]; cbn [zmap_set zmap_get]; [reflexivity|].
  destruct (k1 =? k) eqn:E1.
  - apply Z.eqb_eq in E1; subst k1. cbn [zmap_get]. destruct (k =? k'); reflexivity.
  - destruct (k <? k1) eqn:E2; cbn [zmap_get].
    + reflexivity.
    + rewrite IH. destruct (k1 =? k') eqn:E3; [|reflexivity].
      apply Z.eqb_eq in E3; subst k'. rewrite Z.eqb_sym, E1. reflexivity.
Qed.

Lemma zmap_set_in {A} (m : list (Z * A)) k a e :
  In e (zmap_set m k a) -> e = (k, a) \/ In e m.
Proof.
  induction m as [|[k1 a1] m IH]; cbn [zmap_set].
  - intros [H|[]]; left; auto.
  - destruct (k1 =? k).
    + intros [H|H]; [left; auto|right; right; exact H].
    + destruct (k <? k1).
      * intros [H|H]; [left; auto|right; exact H].
      * intros [H|H]; [right; left; exact H|].
        destruct (IH H) as [H1|H1]; [left; exact H1|right; right; exact H1].
Qed.

Lemma zmap_set_sorted {A} (m : list (Z * A)) k a : zsorted m -> zsorted (zmap_set m k a).
Proof.
  unfold zsorted. induction m as [|[k1 a1] m IH]; intros Hs; cbn [zmap_set].
  - constructor; constructor.
  - inversion Hs as [|x l Hs' Hall]; subst.
    destruct (k1 =? k) eqn:E1.
    + apply Z.eqb_eq in E1; subst k1. constructor; [exact Hs'|exact Hall].
    + destruct (k <? k1) eqn:E2.
      * apply Z.ltb_lt in E2. constructor; [exact Hs|].
        constructor; [exact E2|]. eapply Forall_impl; [|exact Hall].
        cbn [fst]. intros; lia.
      * apply Z.ltb_ge in E2. apply Z.eqb_neq in E1.
        constructor; [apply IH; exact Hs'|].
        apply Forall_forall. intros e He. apply zmap_set_in in He. destruct He as [->|He].
        -- cbn [fst]. lia.
        -- rewrite Forall_forall in Hall. apply Hall; exact He.
Qed.

Lemma zsorted_filter {A} (p : Z * A -> bool) (m : list (Z * A)) : zsorted m -> zsorted (filter p m).
Proof.
  unfold zsorted. induction m as [|x m IH]; intros Hs; cbn [filter]; [constructor|].
  inversion Hs as [|y l Hs' Hall]; subst. destruct (p x).
  - constructor; [apply IH; exact Hs'|].
    apply Forall_forall. intros e He. apply filter_In in He. rewrite Forall_forall in Hall.
    apply Hall; apply He.
  - apply IH; exact Hs'.
Qed.

Lemma zsorted_nodup {A} (m : list (Z * A)) : zsorted m -> NoDup (map fst m).
Proof.
  unfold zsorted. induction m as [|x m IH]; intros Hs; cbn [map]; [constructor|].
  inversion Hs as [|y l Hs' Hall]; subst. constructor; [|apply IH; exact Hs'].
  intros Hin. apply in_map_iff in Hin. destruct Hin as (e & He & Hin).
  rewrite Forall_forall in Hall. specialize (Hall e Hin). lia.
Qed.

Lemma zmap_get_filter {A} (p : Z -> bool) (m : list (Z * A)) k :
  zmap_get (filter (fun e => p (fst e)) m) k = if p k then zmap_get m k else None.
Proof.
  induction m as [|[k1 a1] m IH]; cbn [filter zmap_get fst].
  - destruct (p k); reflexivity.
  - destruct (p k1) eqn:E1; cbn [zmap_get].
    + destruct (k1 =? k) eqn:E2.
      * apply Z.eqb_eq in E2; subst k1. rewrite E1. reflexivity.
      * exact IH.
    + rewrite IH. destruct (k1 =? k) eqn:E2; [|reflexivity].
      apply Z.eqb_eq in E2; subst k1. rewrite E1. reflexivity.
Qed.

(* ================================================================== *)
(* 2. families of signer bitmaps                                       *)

Definition bit (s : list bool) (i : nat) : bool := nth i s false.
Definition col (i : nat) (bms : list (list bool)) : nat := length (filter (fun s => bit s i) bms).

Lemma col_cons i s bms : col i (s :: bms) = ((if bit s i then 1 else 0) + col i bms)%nat.
Proof. unfold col; cbn [filter]. destruct (bit s i); reflexivity. Qed.

Lemma col_zero i bms : (forall s, In s bms -> bit s i = false) -> col i bms = 0%nat.
Proof.
  induction bms as [|s bms IH]; intros H; [reflexivity|].
  rewrite col_cons, (H s (or_introl eq_refl)), IH; [reflexivity|].
  intros s' Hs'. apply H. right; exact Hs'.
Qed.

Lemma col_pos i bms s : In s bms -> bit s i = true -> (1 <= col i bms)%nat.
Proof.
  induction bms as [|s0 bms IH]; intros Hin Hb; [destruct Hin|].
  rewrite col_cons. destruct Hin as [->|Hin].
  - rewrite Hb. lia.
  - specialize (IH Hin Hb). lia.
Qed.

Lemma nth_error_bit s i : (i < length s)%nat -> nth_error s i = Some (bit s i).
Proof. intros H. unfold bit. apply nth_error_nth'. exact H. Qed.

Lemma bit_true_lt s i : bit s i = true -> (i < length s)%nat.
Proof.
  unfold bit. intros H. destruct (Nat.lt_ge_cases i (length s)) as [Hl|Hl]; [exact Hl|].
  rewrite nth_overflow in H by exact Hl. discriminate.
Qed.

Lemma bit_bv_new n i : bit (bv_new n) i = false.
Proof.
  unfold bit, bv_new. revert i. induction n as [|n IH]; intros [|i]; cbn [repeat nth]; auto.
Qed.

Lemma bit_set_same s : forall i, (i < length s)%nat -> bit (bv_set s i) i = true.
Proof.
  unfold bit. induction s as [|x s IH]; intros [|i] H; cbn [length] in H; cbn [bv_set nth]; try lia.
  apply IH. lia.
Qed.

Lemma bit_set_other s : forall i j, i <> j -> bit (bv_set s i) j = bit s j.
Proof.
  unfold bit. induction s as [|x s IH]; intros [|i] [|j] H; cbn [bv_set nth]; try reflexivity; try congruence.
  apply IH. congruence.
Qed.

(* index of the first set bit *)
Fixpoint first_set (s : list bool) : nat :=
  match s with
  | [] => O
  | true :: _ => O
  | false :: s' => S (first_set s')
  end.

Lemma first_set_spec s : (exists i, bit s i = true) -> bit s (first_set s) = true.
Proof.
  unfold bit. induction s as [|x s IH]; intros [i Hi].
  - destruct i; discriminate.
  - destruct x; cbn [first_set nth]; [reflexivity|].
    destruct i as [|i]; cbn [nth] in Hi; [discriminate|]. apply IH. exists i; exact Hi.
Qed.

Definition nonempty_len (n : nat) (s : list bool) : Prop := length s = n /\ exists i, bit s i = true.

(* the counting argument: non-empty bitmaps of length n, no column used twice => at most n *)
Lemma fam_bound n bms :
  Forall (nonempty_len n) bms -> (forall i, (col i bms <= 1)%nat) -> (length bms <= n)%nat.
Proof.
  intros Hall Hcol.
  assert (Hnd : NoDup (map first_set bms)).
  { induction bms as [|s bms IH]; cbn [map]; [constructor|].
    inversion Hall as [|x l [Hlen Hne] Hall']; subst.
    assert (Hcol' : forall i, (col i bms <= 1)%nat).
    { intros i. specialize (Hcol i). rewrite col_cons in Hcol. lia. }
    constructor; [|apply IH; assumption].
    intros Hin. apply in_map_iff in Hin. destruct Hin as (s' & Heq & Hin).
    pose proof (first_set_spec s Hne) as Hb.
    assert (Hb' : bit s' (first_set s) = true).
    { rewrite <- Heq. apply first_set_spec. rewrite Forall_forall in Hall'. apply (Hall' s' Hin). }
    specialize (Hcol (first_set s)). rewrite col_cons, Hb in Hcol.
    pose proof (col_pos _ _ _ Hin Hb'). lia. }
  assert (Hincl : incl (map first_set bms) (seq 0 n)).
  { intros i Hi. apply in_map_iff in Hi. destruct Hi as (s & <- & Hin).
    rewrite Forall_forall in Hall. destruct (Hall s Hin) as [Hlen Hne].
    apply in_seq. pose proof (bit_true_lt _ _ (first_set_spec s Hne)). lia. }
  pose proof (NoDup_incl_length Hnd Hincl) as H. rewrite map_length, seq_length in H. exact H.
Qed.

(* the readable form of "no column used twice" *)
Definition pairwise_disjoint (bms : list (list bool)) : Prop :=
  forall a b sa sb i, a <> b -> nth_error bms a = Some sa -> nth_error bms b = Some sb ->
    bit sa i = true -> bit sb i = true -> False.

Lemma col_le1_ordered bms : forall i, (col i bms <= 1)%nat ->
  forall a b sa sb, (a < b)%nat -> nth_error bms a = Some sa -> nth_error bms b = Some sb ->
    bit sa i = true -> bit sb i = true -> False.
Proof.
  induction bms as [|s bms IH]; intros i Hc a b sa sb Hab Ha Hb Hsa Hsb.
  - destruct a; discriminate.
  - rewrite col_cons in Hc. destruct b as [|b]; [lia|]. cbn [nth_error] in Hb.
    destruct a as [|a]; cbn [nth_error] in Ha.
    + inversion Ha; subst. rewrite Hsa in Hc.
      pose proof (col_pos i bms sb (nth_error_In _ _ Hb) Hsb). lia.
    + assert (Hc' : (col i bms <= 1)%nat) by (destruct (bit s i); lia).
      apply (IH i Hc' a b sa sb); try assumption. lia.
Qed.

Lemma col_le1_pairwise bms : (forall i, (col i bms <= 1)%nat) -> pairwise_disjoint bms.
Proof.
  intros Hc a b sa sb i Hab Ha Hb Hsa Hsb.
  destruct (Nat.lt_total a b) as [H|[H|H]]; [|contradiction|].
  - exact (col_le1_ordered bms i (Hc i) a b sa sb H Ha Hb Hsa Hsb).
  - exact (col_le1_ordered bms i (Hc i) b a sb sa H Hb Ha Hsb Hsa).
Qed.

Lemma list_sum_bound {A} (f : A -> nat) n (l : list A) :
  (forall x, In x l -> (f x <= n)%nat) -> (list_sum (map f l) <= length l * n)%nat.
Proof.
  induction l as [|x l IH]; intros H; unfold list_sum; cbn [map fold_right length]; [apply Nat.le_0_l|]; fold (list_sum (map f l)).
  pose proof (H x (or_introl eq_refl)). specialize (IH (fun y Hy => H y (or_intror Hy))).
  rewrite Nat.mul_succ_l. lia.
Qed.

(* cindex is injective on its results and bounded *)
Lemma cindex_inj C k k' i : cindex C k = Some i -> cindex C k' = Some i -> k = k'.
Proof.
  intros H H'. apply cindex_spec in H, H'. destruct H as (m & Hm & <-). destruct H' as (m' & Hm' & <-).
  congruence.
Qed.

Lemma cindex_in C k i : cindex C k = Some i -> In k (map mkey C).
Proof.
  intros H. apply cindex_spec in H. destruct H as (m & Hm & <-).
  apply in_map. eapply nth_error_In; exact Hm.
Qed.

(* ================================================================== *)
(* 3. upserts into a commit bucket and into a TimeoutQC                *)

Definition cbms (b : list (commit * cqc)) : list (list bool) := map (fun e => qsigners (snd e)) b.

(* what on_commit does with the bucket of the vote's view: entry(msg).or_insert_with(new), then
   add: the certificate stored under the vote becomes [upd] of the one that was (or of a new one) *)
Definition cupsert (b : list (commit * cqc)) (c : commit) (upd : cqc -> cqc) (dflt : cqc) :=
  cmap_set b c (upd (match cmap_get b c with Some q => q | None => dflt end)).

Lemma commit_eqb_refl c : commit_eqb c c = true.
Proof. apply (decides_refl _ commit_eqb_spec). Qed.

Lemma cupsert_cons c1 q1 b c upd dflt :
  cupsert ((c1, q1) :: b) c upd dflt =
  if commit_eqb c1 c then (c, upd q1) :: b else (c1, q1) :: cupsert b c upd dflt.
Proof. unfold cupsert; cbn [cmap_get cmap_set]. destruct (commit_eqb c1 c); reflexivity. Qed.

Lemma cmap_get_in b c q : cmap_get b c = Some q -> In (c, q) b.
Proof.
  induction b as [|[c1 q1] b IH]; cbn [cmap_get]; [discriminate|].
  destruct (commit_eqb c1 c) eqn:E.
  - apply commit_eqb_spec in E; subst. intros H; inversion H; subst. left; reflexivity.
  - intros H; right; auto.
Qed.

Lemma cmap_get_set b c q : cmap_get (cmap_set b c q) c = Some q.
Proof.
  induction b as [|[c1 q1] b IH]; cbn [cmap_set cmap_get].
  - rewrite commit_eqb_refl; reflexivity.
  - destruct (commit_eqb c1 c) eqn:E; cbn [cmap_get].
    + rewrite commit_eqb_refl; reflexivity.
    + rewrite E. exact IH.
Qed.

Lemma cupsert_in b c upd dflt e : In e (cupsert b c upd dflt) ->
  In e b \/ exists q0, (q0 = dflt \/ In (c, q0) b) /\ e = (c, upd q0).
Proof.
  induction b as [|[c1 q1] b IH].
  - unfold cupsert; cbn [cmap_get cmap_set]. intros [<-|[]]. right. exists dflt. auto.
  - rewrite cupsert_cons. destruct (commit_eqb c1 c) eqn:E.
    + apply commit_eqb_spec in E; subst c1. intros [<-|H].
      * right. exists q1. split; [right; left; reflexivity|reflexivity].
      * left; right; exact H.
    + intros [<-|H]; [left; left; reflexivity|].
      destruct (IH H) as [H1|(q0 & [Hq|Hq] & He)].
      * left; right; exact H1.
      * right. exists q0. auto.
      * right. exists q0. split; [right; right; exact Hq|exact He].
Qed.

Lemma cupsert_nodup b c upd dflt : NoDup (map fst b) -> NoDup (map fst (cupsert b c upd dflt)).
Proof.
  induction b as [|[c1 q1] b IH]; intros Hnd.
  - unfold cupsert; cbn [cmap_get cmap_set map fst]. constructor; [intros []|constructor].
  - rewrite cupsert_cons. cbn [map fst] in Hnd. inversion Hnd as [|x l Hnin Hnd']; subst.
    destruct (commit_eqb c1 c) eqn:E.
    + apply commit_eqb_spec in E; subst c1. cbn [map fst]. constructor; assumption.
    + cbn [map fst]. constructor; [|apply IH; exact Hnd'].
      intros Hin. apply in_map_iff in Hin. destruct Hin as ([c2 q2] & Heq & Hin). cbn [fst] in Heq. subst c2.
      apply cupsert_in in Hin. destruct Hin as [Hin|(q0 & _ & Heq)].
      * apply Hnin. apply in_map_iff. exists (c1, q2). split; [reflexivity|exact Hin].
      * inversion Heq; subst. rewrite commit_eqb_refl in E. discriminate.
Qed.

Section CUpsert.
  Variables (upd : cqc -> cqc) (i0 : nat) (dflt : cqc) (c : commit) (n : nat).
  Hypothesis Hupd : forall q, qsigners (upd q) = bv_set (qsigners q) i0.
  Hypothesis Hdflt : qsigners dflt = bv_new n.

  Lemma cupsert_col_other b i : i <> i0 -> col i (cbms (cupsert b c upd dflt)) = col i (cbms b).
  Proof.
    intros Hi. induction b as [|[c1 q1] b IH].
    - unfold cupsert, cbms; cbn [cmap_get cmap_set map snd]. rewrite col_cons, Hupd, Hdflt.
      rewrite bit_set_other by congruence. rewrite bit_bv_new. reflexivity.
    - rewrite cupsert_cons. destruct (commit_eqb c1 c); unfold cbms in *; cbn [map snd]; rewrite !col_cons.
      + rewrite Hupd, bit_set_other by congruence. reflexivity.
      + rewrite IH. reflexivity.
  Qed.

  Lemma cupsert_col_same b : (forall s, In s (cbms b) -> bit s i0 = false) ->
    (col i0 (cbms (cupsert b c upd dflt)) <= 1)%nat.
  Proof.
    induction b as [|[c1 q1] b IH]; intros H.
    - unfold cupsert, cbms; cbn [cmap_get cmap_set map snd]. rewrite col_cons. unfold col; cbn [filter length].
      destruct (bit _ _); lia.
    - rewrite cupsert_cons. destruct (commit_eqb c1 c); unfold cbms in *; cbn [map snd] in *; rewrite !col_cons.
      + rewrite (col_zero i0 (map _ b)); [destruct (bit _ _); lia|].
        intros s Hs. apply H. right; exact Hs.
      + rewrite (H (qsigners q1) (or_introl eq_refl)).
        specialize (IH (fun s Hs => H s (or_intror Hs))). lia.
  Qed.
End CUpsert.

(* the same for TimeoutQC::add's entry(msg).or_insert_with(new).set(i) *)
Lemma tqmap_set_in es m n i0 e : In e (tqmap_set es m n i0) ->
  In e es \/ exists s0, (s0 = bv_new n \/ In s0 (map snd es)) /\ snd e = bv_set s0 i0.
Proof.
  induction es as [|[m1 s1] es IH]; cbn [tqmap_set].
  - intros [<-|[]]. right. exists (bv_new n). auto.
  - destruct (timeout_eqb m1 m).
    + intros [<-|H].
      * right. exists s1. split; [right; left; reflexivity|reflexivity].
      * left; right; exact H.
    + intros [<-|H]; [left; left; reflexivity|].
      destruct (IH H) as [H1|(s0 & [Hq|Hq] & He)].
      * left; right; exact H1.
      * right. exists s0. auto.
      * right. exists s0. split; [right; right; exact Hq|exact He].
Qed.

Lemma tqmap_set_col_other es m n i0 i : i <> i0 ->
  col i (map snd (tqmap_set es m n i0)) = col i (map snd es).
Proof.
  intros Hi. induction es as [|[m1 s1] es IH]; cbn [tqmap_set map snd].
  - rewrite col_cons, bit_set_other by congruence. rewrite bit_bv_new. reflexivity.
  - destruct (timeout_eqb m1 m); cbn [map snd]; rewrite !col_cons.
    + rewrite bit_set_other by congruence. reflexivity.
    + rewrite IH. reflexivity.
Qed.

Lemma tqmap_set_col_same es m n i0 : (forall s, In s (map snd es) -> bit s i0 = false) ->
  (col i0 (map snd (tqmap_set es m n i0)) <= 1)%nat.
Proof.
  induction es as [|[m1 s1] es IH]; intros H; cbn [tqmap_set map snd].
  - rewrite col_cons. unfold col; cbn [filter length]. destruct (bit _ _); lia.
  - destruct (timeout_eqb m1 m); cbn [map snd] in *; rewrite !col_cons.
    + rewrite (col_zero i0 (map snd es)); [destruct (bit _ _); lia|].
      intros s Hs. apply H. right; exact Hs.
    + rewrite (H s1 (or_introl eq_refl)).
      specialize (IH (fun s Hs => H s (or_intror Hs))). lia.
Qed.

Lemma any_signed_false es i : (forall s, In s (map snd es) -> nth_error s i = Some false) ->
  any_signed es i = Ok false.
Proof.
  induction es as [|[m1 s1] es IH]; intros H; cbn [any_signed]; [reflexivity|].
  cbn [map snd] in H. rewrite (H s1 (or_introl eq_refl)). apply IH.
  intros s Hs. apply H. right; exact Hs.
Qed.

Lemma tqc_weight_entries_ok {E} C es : (forall s, In s (map snd es) -> length s = length C) ->
  exists w, tqc_weight_entries (E := E) C es = Ok w.
Proof.
  induction es as [|[m1 s1] es IH]; intros H; cbn [tqc_weight_entries]; [eexists; reflexivity|].
  cbn [map snd] in H. unfold signers_weight. rewrite (H s1 (or_introl eq_refl)), Nat.eqb_refl. cbn [bind].
  destruct (IH (fun s Hs => H s (or_intror Hs))) as [w Hw]. rewrite Hw. cbn [bind]. eexists; reflexivity.
Qed.

(* ================================================================== *)
(* 4. the cache invariant                                              *)

(* bit i of a certificate under construction for view v belongs to a validator whose latest
   recorded vote is for a view >= v *)
Definition owned (C : committee) (views : list (Z * Z)) (v : Z) (i : nat) : Prop :=
  exists k v', cindex C k = Some i /\ zmap_get views k = Some v' /\ v <= v'.

Definition fam_ok (C : committee) (views : list (Z * Z)) (v : Z) (bms : list (list bool)) : Prop :=
  Forall (nonempty_len (length C)) bms /\
  (forall i, (col i bms <= 1)%nat) /\
  (forall s i, In s bms -> bit s i = true -> owned C views v i).

Definition views_le (views views' : list (Z * Z)) : Prop :=
  forall k v', zmap_get views k = Some v' -> exists v'', zmap_get views' k = Some v'' /\ v' <= v''.

(* the DuplicateSigner check passed *)
Definition fresh (views : list (Z * Z)) (key v : Z) : Prop :=
  match zmap_get views key with Some v' => v <=? v' | None => false end = false.

Lemma fam_ok_nil C views v : fam_ok C views v [].
Proof. repeat split; [constructor|intros; cbn; lia|intros s i []]. Qed.

Lemma fam_ok_mono C views views' v bms : views_le views views' -> fam_ok C views v bms -> fam_ok C views' v bms.
Proof.
  intros Hle (H1 & H2 & H3). repeat split; try assumption.
  intros s i Hs Hb. destruct (H3 s i Hs Hb) as (k & v' & Hk & Hg & Hv).
  destruct (Hle k v' Hg) as (v'' & Hg' & Hv'). exists k, v''. repeat split; try assumption. lia.
Qed.

Lemma views_le_set views key v : fresh views key v -> views_le views (zmap_set views key v).
Proof.
  intros Hf k v' Hg. rewrite zmap_get_set. destruct (key =? k) eqn:E.
  - apply Z.eqb_eq in E; subst k. unfold fresh in Hf. rewrite Hg in Hf. apply Z.leb_gt in Hf.
    exists v. split; [reflexivity|lia].
  - exists v'. split; [exact Hg|lia].
Qed.

Lemma fresh_bit_false C views key v i0 bms : fam_ok C views v bms -> cindex C key = Some i0 ->
  fresh views key v -> forall s, In s bms -> bit s i0 = false.
Proof.
  intros (_ & _ & H3) Hk Hf s Hs. destruct (bit s i0) eqn:Hb; [|reflexivity]. exfalso.
  destruct (H3 s i0 Hs Hb) as (k & v' & Hk' & Hg & Hv).
  assert (k = key) by (eapply cindex_inj; eassumption). subst k.
  unfold fresh in Hf. rewrite Hg in Hf. apply Z.leb_gt in Hf. lia.
Qed.

(* one accepted vote of [key] for view [v] added to the family of view [v] *)
Lemma fam_ok_upsert C views key v i0 bms bms' :
  fam_ok C views v bms -> cindex C key = Some i0 -> fresh views key v ->
  (forall i, i <> i0 -> col i bms' = col i bms) -> (col i0 bms' <= 1)%nat ->
  (forall s', In s' bms' -> In s' bms \/
     exists s0, (s0 = bv_new (length C) \/ In s0 bms) /\ s' = bv_set s0 i0) ->
  fam_ok C (zmap_set views key v) v bms'.
Proof.
  intros Hok Hk Hf Hother Hsame Hin.
  pose proof (fam_ok_mono _ _ _ _ _ (views_le_set _ _ _ Hf) Hok) as (H1 & H2 & H3).
  pose proof (cindex_lt _ _ _ Hk) as Hlt.
  assert (Hlen0 : forall s0, s0 = bv_new (length C) \/ In s0 bms -> length s0 = length C).
  { intros s0 [->|Hs0]; [apply bv_new_length|]. rewrite Forall_forall in H1. apply (H1 s0 Hs0). }
  repeat split.
  - apply Forall_forall. intros s' Hs'. destruct (Hin s' Hs') as [Hold|(s0 & Hs0 & ->)].
    + rewrite Forall_forall in H1. apply H1; exact Hold.
    + split; [rewrite bv_set_length; apply Hlen0; exact Hs0|].
      exists i0. apply bit_set_same. rewrite (Hlen0 s0 Hs0). exact Hlt.
  - intros i. destruct (Nat.eq_dec i i0) as [->|Hne]; [exact Hsame|]. rewrite (Hother i Hne). apply H2.
  - intros s' i Hs' Hb. destruct (Hin s' Hs') as [Hold|(s0 & Hs0 & ->)].
    + exact (H3 s' i Hold Hb).
    + destruct (Nat.eq_dec i i0) as [->|Hne].
      * exists key, v. repeat split; [exact Hk|rewrite zmap_get_set, Z.eqb_refl; reflexivity|lia].
      * rewrite bit_set_other in Hb by congruence. destruct Hs0 as [->|Hs0].
        -- rewrite bit_bv_new in Hb. discriminate.
        -- exact (H3 s0 i Hs0 Hb).
Qed.

Definition views_ok (C : committee) (views : list (Z * Z)) : Prop :=
  zsorted views /\ forall k v, In (k, v) views -> cindex C k <> None.

Definition covered {A} (views : list (Z * Z)) (qcs : list (Z * A)) : Prop :=
  forall e, In e qcs -> exists k, In (k, fst e) views.

Lemma views_ok_set C views key v i0 : views_ok C views -> cindex C key = Some i0 ->
  views_ok C (zmap_set views key v).
Proof.
  intros [Hs Hm] Hk. split; [apply zmap_set_sorted; exact Hs|].
  intros k v' Hin. apply zmap_set_in in Hin. destruct Hin as [Heq|Hin].
  - inversion Heq; subst. congruence.
  - eapply Hm; exact Hin.
Qed.

Lemma retain_in {A} (qcs : list (Z * A)) views e : In e (retain_views qcs views) -> In e qcs.
Proof. unfold retain_views. intros H. apply filter_In in H. apply H. Qed.

Lemma retain_covered {A} (qcs : list (Z * A)) views : covered views (retain_views qcs views).
Proof.
  intros e He. unfold retain_views in He. apply filter_In in He. destruct He as [_ He].
  apply existsb_exists in He. destruct He as ([k v] & Hin & Hv). cbn [snd] in Hv.
  apply Z.eqb_eq in Hv. subst v. exists k. exact Hin.
Qed.

Lemma retain_get {A} (qcs : list (Z * A)) views key v :
  In (key, v) views -> zmap_get (retain_views qcs views) v = zmap_get qcs v.
Proof.
  intros Hin. unfold retain_views.
  rewrite (zmap_get_filter (fun x => existsb (fun kv => snd kv =? x) views)).
  replace (existsb _ views) with true; [reflexivity|]. symmetry. apply existsb_exists.
  exists (key, v). split; [exact Hin|]. cbn [snd]. apply Z.eqb_refl.
Qed.

Lemma zmap_set_has {A} (m : list (Z * A)) k a : In (k, a) (zmap_set m k a).
Proof. apply zmap_get_in. rewrite zmap_get_set, Z.eqb_refl. reflexivity. Qed.

(* ----- commit caches ----- *)
(* per certificate under construction: stored under its own vote, assembled correctly so far
   (QCProofs.cqc_inv: |C|-bit bitmap, aggregate = the listed members' signatures over the vote),
   the vote is for this chain and epoch and for the view of the bucket *)
Definition bucket_ok (g ep : Z) (C : committee) (views : list (Z * Z)) (e : Z * list (commit * cqc)) : Prop :=
  (forall c q, In (c, q) (snd e) ->
     qmsg q = c /\ cqc_inv C q /\ view_ok g ep (cview c) /\ vnum (cview c) = fst e) /\
  fam_ok C views (fst e) (cbms (snd e)) /\
  NoDup (map fst (snd e)).

Definition cinv (g ep : Z) (C : committee) (views : list (Z * Z)) (qcs : list (Z * list (commit * cqc))) : Prop :=
  views_ok C views /\ zsorted qcs /\ covered views qcs /\ forall e, In e qcs -> bucket_ok g ep C views e.

Definition bucket_of (qcs : list (Z * list (commit * cqc))) (v : Z) :=
  match zmap_get qcs v with Some b => b | None => [] end.

Lemma bucket_of_ok g ep C views qcs v : cinv g ep C views qcs -> bucket_ok g ep C views (v, bucket_of qcs v).
Proof.
  intros (_ & _ & _ & H). unfold bucket_of. destruct (zmap_get qcs v) as [b|] eqn:E.
  - apply zmap_get_in in E. exact (H _ E).
  - split; [intros c q []|split; [apply fam_ok_nil|constructor]].
Qed.

Definition q0_of (C : committee) (bucket : list (commit * cqc)) (c : commit) : cqc :=
  match cmap_get bucket c with Some q => q | None => cqc_new c C end.

(* the certificate a fresh vote of [key] is added to: found under the vote, or new *)
Lemma entry_facts g ep C views v bucket c key i0 : bucket_ok g ep C views (v, bucket) ->
  cindex C key = Some i0 -> fresh views key v ->
  forall q0, q0 = cqc_new c C \/ In (c, q0) bucket ->
  qmsg q0 = c /\ cqc_inv C q0 /\ nth_error (qsigners q0) i0 = Some false.
Proof.
  intros [Hm [Hf _]] Hk Hfr q0 Hq0. cbn [fst snd] in *.
  pose proof (cindex_lt _ _ _ Hk) as Hlt.
  destruct Hq0 as [->|Hin].
  - split; [reflexivity|]. split; [apply cqc_new_inv|].
    unfold cqc_new; cbn [qsigners]. apply nth_error_bv_new. exact Hlt.
  - destruct (Hm c q0 Hin) as (Hq & Hi & _). split; [exact Hq|]. split; [exact Hi|].
    destruct Hi as [Hlen _]. rewrite nth_error_bit by lia. f_equal.
    eapply fresh_bit_false; try eassumption.
    unfold cbms. apply in_map_iff. exists (c, q0). split; [reflexivity|exact Hin].
Qed.

Lemma q0_facts g ep C views v bucket c key i0 : bucket_ok g ep C views (v, bucket) ->
  cindex C key = Some i0 -> fresh views key v ->
  qmsg (q0_of C bucket c) = c /\ cqc_inv C (q0_of C bucket c) /\
  nth_error (qsigners (q0_of C bucket c)) i0 = Some false.
Proof.
  intros Hb Hk Hfr. eapply entry_facts; try eassumption. unfold q0_of.
  destruct (cmap_get bucket c) as [q|] eqn:E; [right; apply cmap_get_in; exact E|left; reflexivity].
Qed.

Lemma cinv_step g ep C views qcs key v i0 c upd :
  cinv g ep C views qcs -> cindex C key = Some i0 -> fresh views key v ->
  view_ok g ep (cview c) -> vnum (cview c) = v ->
  (forall q, qsigners (upd q) = bv_set (qsigners q) i0) -> (forall q, qmsg (upd q) = qmsg q) ->
  (forall q, qmsg q = c -> cqc_inv C q -> nth_error (qsigners q) i0 = Some false -> cqc_inv C (upd q)) ->
  let views' := zmap_set views key v in
  let qcs' := retain_views (zmap_set qcs v (cupsert (bucket_of qcs v) c upd (cqc_new c C))) views' in
  cinv g ep C views' qcs' /\ cinv g ep C views' (zmap_remove qcs' v).
Proof.
  intros Hinv Hk Hfr Hvw Hvn Hu1 Hu2 Hu3 views' qcs'.
  pose proof (bucket_of_ok g ep C views qcs v Hinv) as Hb.
  pose proof (entry_facts g ep C views v _ c key i0 Hb Hk Hfr) as Hent.
  destruct Hinv as (Hv & Hs & Hcov & Hall).
  set (b' := cupsert (bucket_of qcs v) c upd (cqc_new c C)) in *.
  assert (Hv' : views_ok C views') by (eapply views_ok_set; eassumption).
  assert (Hfull : forall e, In e (zmap_set qcs v b') -> bucket_ok g ep C views' e).
  { intros e He. apply zmap_set_in in He. destruct He as [->|He].
    - destruct Hb as [Hm [Hf Hnd]]. cbn [fst snd] in *. split; [|split]; cbn [fst snd]; [| |apply cupsert_nodup; exact Hnd].
      + intros c1 q1 Hin. apply cupsert_in in Hin. destruct Hin as [Hin|(q0 & Hq0 & Heq)].
        * exact (Hm _ _ Hin).
        * inversion Heq; subst c1 q1. destruct (Hent q0 Hq0) as (Hq0m & Hq0i & Hq0n).
          split; [rewrite Hu2; exact Hq0m|]. split; [apply Hu3; assumption|]. split; assumption.
      + eapply fam_ok_upsert; try eassumption.
        * intros i Hi. apply cupsert_col_other with (i0 := i0) (n := length C); [exact Hu1|reflexivity|exact Hi].
        * apply cupsert_col_same; try exact Hu1.
          eapply fresh_bit_false; eassumption.
        * intros s' Hs'. unfold cbms in Hs'. apply in_map_iff in Hs'. destruct Hs' as ([c1 q1] & <- & Hin).
          cbn [snd]. apply cupsert_in in Hin. destruct Hin as [Hin|(q0 & Hq0 & Heq)].
          -- left. unfold cbms. apply in_map_iff. exists (c1, q1). auto.
          -- inversion Heq; subst. right. exists (qsigners q0). split; [|apply Hu1].
             destruct Hq0 as [->|Hq0]; [left; reflexivity|right].
             unfold cbms. apply in_map_iff. exists (c, q0). auto.
    - destruct (Hall e He) as [Hm [Hf Hnd]]. split; [exact Hm|]. split; [|exact Hnd].
      eapply fam_ok_mono; [apply views_le_set; exact Hfr|exact Hf]. }
  assert (Hs' : zsorted qcs') by (apply zsorted_filter, zmap_set_sorted; exact Hs).
  assert (Hc' : covered views' qcs') by apply retain_covered.
  split.
  - split; [exact Hv'|split; [exact Hs'|split; [exact Hc'|]]].
    intros e He. apply Hfull. eapply retain_in; exact He.
  - split; [exact Hv'|split; [|split]].
    + apply zsorted_filter; exact Hs'.
    + intros e He. apply Hc'. unfold zmap_remove in He. apply filter_In in He. apply He.
    + intros e He. apply Hfull. unfold zmap_remove in He. apply filter_In in He. eapply retain_in. apply He.
Qed.

(* ----- timeout caches ----- *)
(* the TimeoutQC under construction for view v: carries the view (genesis, epoch, v), assembled
   correctly so far (TqcAssembly.tqc_inv) *)
Definition tentry_ok (g ep : Z) (C : committee) (views : list (Z * Z)) (x : Z * tqc) : Prop :=
  tqview (snd x) = {| vgen := g; vepoch := ep; vnum := fst x |} /\
  tqc_inv g ep C (snd x) /\
  fam_ok C views (fst x) (map snd (tqmap (snd x))).

Definition tinv (g ep : Z) (C : committee) (views : list (Z * Z)) (tqcs : list (Z * tqc)) : Prop :=
  views_ok C views /\ zsorted tqcs /\ covered views tqcs /\ forall x, In x tqcs -> tentry_ok g ep C views x.

Definition t0_of (tqcs : list (Z * tqc)) (vw : view) : tqc :=
  match zmap_get tqcs (vnum vw) with Some q => q | None => tqc_new vw end.

Lemma t0_ok g ep C views tqcs vw : tinv g ep C views tqcs -> vgen vw = g -> vepoch vw = ep ->
  tentry_ok g ep C views (vnum vw, t0_of tqcs vw).
Proof.
  intros (_ & _ & _ & H) Hg He. unfold t0_of. destruct (zmap_get tqcs (vnum vw)) as [q|] eqn:E.
  - apply zmap_get_in in E. exact (H _ E).
  - split; [|split]; cbn [fst snd tqc_new tqview tqmap map].
    + destruct vw; cbn in *; subst; reflexivity.
    + apply tqc_new_inv.
    + apply fam_ok_nil.
Qed.

Lemma tinv_step g ep C views tqcs key i0 vw m agg :
  tinv g ep C views tqcs -> cindex C key = Some i0 -> fresh views key (vnum vw) ->
  vgen vw = g -> vepoch vw = ep ->
  let v := vnum vw in
  let t0 := t0_of tqcs vw in
  let t' := {| tqview := tqview t0; tqmap := tqmap_set (tqmap t0) m (length C) i0; tqagg := agg |} in
  tqc_inv g ep C t' ->
  let views' := zmap_set views key v in
  let tqcs' := retain_views (zmap_set tqcs v t') views' in
  tinv g ep C views' tqcs' /\ tinv g ep C views' (zmap_remove tqcs' v).
Proof.
  intros Hinv Hk Hfr Hg He v t0 t' Hti' views' tqcs'.
  pose proof (t0_ok g ep C views tqcs vw Hinv Hg He) as (Hvw & _ & Hf). cbn [fst snd] in Hvw, Hf. fold t0 in Hvw, Hf.
  destruct Hinv as (Hv & Hs & Hcov & Hall).
  assert (Hv' : views_ok C views') by (eapply views_ok_set; eassumption).
  assert (Hfull : forall e, In e (zmap_set tqcs v t') -> tentry_ok g ep C views' e).
  { intros e Hin. apply zmap_set_in in Hin. destruct Hin as [->|Hin].
    - split; [|split]; cbn [fst snd]; [exact Hvw|exact Hti'|]. cbn [t' tqmap].
      eapply fam_ok_upsert; try eassumption.
      + intros i Hi. apply tqmap_set_col_other; exact Hi.
      + apply tqmap_set_col_same. eapply fresh_bit_false; eassumption.
      + intros s' Hs'. apply in_map_iff in Hs'. destruct Hs' as (e & <- & Hin).
        apply tqmap_set_in in Hin. destruct Hin as [Hin|(s0 & Hs0 & Heq)].
        * left. apply in_map; exact Hin.
        * right. exists s0. split; assumption.
    - destruct (Hall e Hin) as (Hm & Hi & Hf'). split; [exact Hm|]. split; [exact Hi|].
      eapply fam_ok_mono; [apply views_le_set; exact Hfr|exact Hf']. }
  assert (Hs' : zsorted tqcs') by (apply zsorted_filter, zmap_set_sorted; exact Hs).
  assert (Hc' : covered views' tqcs') by apply retain_covered.
  split.
  - split; [exact Hv'|split; [exact Hs'|split; [exact Hc'|]]].
    intros e Hin. apply Hfull. eapply retain_in; exact Hin.
  - split; [exact Hv'|split; [|split]].
    + apply zsorted_filter; exact Hs'.
    + intros e Hin. apply Hc'. unfold zmap_remove in Hin. apply filter_In in Hin. apply Hin.
    + intros e Hin. apply Hfull. unfold zmap_remove in Hin. apply filter_In in Hin. eapply retain_in. apply Hin.
Qed.

(* ================================================================== *)
(* 5. every other piece of the state machine leaves the four caches alone *)

Definition caches_t : Type :=
  (list (Z * Z) * list (Z * list (commit * cqc)) * list (Z * Z) * list (Z * tqc))%type.
Definition caches (s : rstate) : caches_t :=
  (r_commit_views s, r_commit_qcs s, r_timeout_views s, r_timeout_qcs s).
Definition st_of {A} (x : hres A) : rstate := fst (fst x).
Definition res_of {A} (x : hres A) : outcome rerr A := snd x.
Definition keeps {A} (base : caches_t) (x : hres A) : Prop := caches (st_of x) = base.

Lemma hbind_keeps {A B} base (x : hres A) (f : rstate -> A -> hres B) :
  keeps base x -> (forall s1 a, caches s1 = base -> keeps base (f s1 a)) -> keeps base (hbind x f).
Proof.
  destruct x as [[s1 es] r]. unfold keeps, st_of; cbn [fst]. intros H1 H2. unfold hbind.
  destruct r as [a| |]; cbn [fst]; try assumption.
  specialize (H2 s1 a H1). destruct (f s1 a) as [[s2 es2] r2]. exact H2.
Qed.

Ltac kleaf :=
  unfold keeps, st_of, hret, hfail, hpanic, hemit, lift, backup_state, caches in *;
  cbn [fst snd set_view set_phase set_high_vote set_high_cqc set_high_tqc set_cache set_store_next
       r_commit_views r_commit_qcs r_timeout_views r_timeout_qcs] in *;
  try assumption; try congruence.

Ltac kstep :=
  first
  [ apply hbind_keeps; [|intros ? ? ?]
  | match goal with
    | |- keeps _ (if ?b then _ else _) => destruct b
    | |- keeps _ (match ?x with _ => _ end) => destruct x
    | |- keeps _ (let '(_, _) := ?x in _) => destruct x
    end ].

Lemma save_block_keeps cfg s q base : caches s = base -> keeps base (save_block cfg s q).
Proof. intros H. unfold save_block. repeat kstep; kleaf. Qed.

Lemma process_commit_qc_keeps cfg s q base : caches s = base -> keeps base (process_commit_qc cfg s q).
Proof.
  intros H. unfold process_commit_qc. destruct (match r_high_cqc s with None => true | Some cur => _ end).
  - apply save_block_keeps. kleaf.
  - kleaf.
Qed.

Lemma process_timeout_qc_keeps cfg s t base : caches s = base -> keeps base (process_timeout_qc cfg s t).
Proof.
  intros H. unfold process_timeout_qc. apply hbind_keeps.
  - destruct (high_qc t); [apply process_commit_qc_keeps; exact H|kleaf].
  - intros s1 a Hk. destruct (match r_high_tqc s1 with None => true | Some old => _ end); kleaf.
Qed.

Lemma process_justification_keeps cfg s j base : caches s = base -> keeps base (process_justification cfg s j).
Proof.
  intros H. destruct j; cbn [process_justification];
    [apply process_commit_qc_keeps|apply process_timeout_qc_keeps]; exact H.
Qed.

Lemma start_new_view_keeps cfg s v base : caches s = base -> keeps base (start_new_view cfg s v).
Proof.
  intros H. unfold start_new_view. destruct (get_justification _); try solve [kleaf].
  apply hbind_keeps; [kleaf|]. intros s1 a1 Hk.
  apply hbind_keeps.
  - destruct (r_high_cqc s1); kleaf.
  - intros s2 a2 Hk2. kleaf.
Qed.

Lemma start_timeout_keeps cfg s base : caches s = base -> keeps base (start_timeout cfg s).
Proof.
  intros H. unfold start_timeout. apply hbind_keeps; [kleaf|]. intros s1 a Hk.
  apply hbind_keeps.
  - destruct (r_view s1 =? 0); [kleaf|]. destruct (get_justification s1); kleaf.
  - intros s2 a2 Hk2. kleaf.
Qed.

Lemma lift_keeps {A} s (x : outcome unit A) base : caches s = base -> keeps base (lift s x).
Proof. intros H. destruct x; kleaf. Qed.

Lemma on_proposal_keeps cfg s key g payload j base :
  caches s = base -> keeps base (on_proposal cfg s key g payload j).
Proof.
  intros H. unfold on_proposal.
  apply hbind_keeps; [apply lift_keeps; exact H|]. intros s1 mv Hk1.
  destruct (_ || _); [kleaf|]. destruct (negb _); [kleaf|]. destruct (negb g); [kleaf|].
  destruct (justification_verify _ _ _ _); try solve [kleaf].
  apply hbind_keeps; [apply lift_keeps; exact Hk1|]. intros s2 [n oh] Hk2.
  destruct (n <? r_store_first s2); [kleaf|].
  apply hbind_keeps.
  - destruct oh; destruct payload; try solve [kleaf].
    destruct (_ <? _); [kleaf|]. destruct (_ && _); [kleaf|]. destruct (negb _); kleaf.
  - intros s3 hash Hk3. apply hbind_keeps; [apply process_justification_keeps; kleaf|].
    intros s4 a4 Hk4. apply hbind_keeps; [kleaf|]. intros s5 a5 Hk5. kleaf.
Qed.

Lemma on_new_view_keeps cfg s key g j base :
  caches s = base -> keeps base (on_new_view cfg s key g j).
Proof.
  intros H. unfold on_new_view.
  apply hbind_keeps; [apply lift_keeps; exact H|]. intros s1 mv Hk1.
  destruct (_ || _); [kleaf|]. destruct (negb _); [kleaf|]. destruct (negb g); [kleaf|].
  destruct (justification_verify _ _ _ _); try solve [kleaf].
  apply hbind_keeps; [apply process_justification_keeps; exact Hk1|]. intros s2 a2 Hk2.
  destruct (_ <? _); [apply start_new_view_keeps; exact Hk2|kleaf].
Qed.

(* ----- which panics can come out of the tail of on_commit / on_timeout ----- *)
Definition np {A} (x : hres A) : Prop := forall p, res_of x = Panic p -> p = POverflow.

Lemma hbind_np {A B} (x : hres A) (f : rstate -> A -> hres B) :
  np x -> (forall a, res_of x = Ok a -> np (f (st_of x) a)) -> np (hbind x f).
Proof.
  destruct x as [[s1 es] r]. unfold np, res_of, st_of; cbn [fst snd]. intros H1 H2. unfold hbind.
  destruct r as [a| |]; cbn [snd].
  - specialize (H2 a eq_refl). destruct (f s1 a) as [[s2 es2] r2]. exact H2.
  - discriminate.
  - intros p0 Hp0. inversion Hp0; subst. apply H1. reflexivity.
Qed.

Lemma save_block_res cfg s q : (forall p, res_of (save_block cfg s q) <> Panic p) /\
  r_high_cqc (st_of (save_block cfg s q)) = r_high_cqc s /\
  r_high_tqc (st_of (save_block cfg s q)) = r_high_tqc s.
Proof.
  unfold save_block. destruct (cache_has _ _ _); [|repeat split; intros; discriminate].
  destruct (_ <? _); [repeat split; intros; discriminate|].
  destruct (_ =? _); repeat split; intros; discriminate.
Qed.

Lemma process_commit_qc_res cfg s q :
  (forall p, res_of (process_commit_qc cfg s q) <> Panic p) /\
  r_high_cqc (st_of (process_commit_qc cfg s q)) <> None /\
  r_high_tqc (st_of (process_commit_qc cfg s q)) = r_high_tqc s.
Proof.
  unfold process_commit_qc. destruct (r_high_cqc s) as [cur|] eqn:E.
  - destruct (_ <? _).
    + destruct (save_block_res cfg (set_high_cqc s (Some q)) q) as (H1 & H2 & H3).
      split; [exact H1|]. rewrite H2, H3. split; [discriminate|reflexivity].
    + unfold hret, res_of, st_of; cbn [fst snd]. rewrite E. repeat split; intros; discriminate.
  - destruct (save_block_res cfg (set_high_cqc s (Some q)) q) as (H1 & H2 & H3).
    split; [exact H1|]. rewrite H2, H3. split; [discriminate|reflexivity].
Qed.

Lemma process_timeout_qc_res cfg s t :
  (forall p, res_of (process_timeout_qc cfg s t) <> Panic p) /\
  (forall a, res_of (process_timeout_qc cfg s t) = Ok a ->
     r_high_tqc (st_of (process_timeout_qc cfg s t)) <> None).
Proof.
  unfold process_timeout_qc.
  set (x := match high_qc t with Some q => process_commit_qc cfg s q | None => hret s tt end).
  assert (Hx : forall p, res_of x <> Panic p).
  { unfold x. destruct (high_qc t); [apply process_commit_qc_res|intros; discriminate]. }
  destruct x as [[s1 es] r]. unfold res_of, st_of in *; cbn [fst snd] in *. unfold hbind.
  destruct r as [a| |]; cbn [fst snd].
  - unfold hret; cbn [fst snd]. split; [intros; discriminate|]. intros _ _.
    destruct (r_high_tqc s1) as [old|] eqn:E.
    + destruct (_ <? _); cbn; [discriminate|]. rewrite E. discriminate.
    + cbn. discriminate.
  - split; intros; discriminate.
  - split; [exact Hx|intros; discriminate].
Qed.

Lemma get_justification_np s : r_high_cqc s <> None \/ r_high_tqc s <> None ->
  forall p, get_justification s <> Panic p.
Proof.
  intros H p. unfold get_justification.
  destruct (r_high_cqc s) as [q|], (r_high_tqc s) as [t|]; cbn [option_map view_cmp_ge].
  - destruct (if _ =? _ then _ else _); discriminate.
  - discriminate.
  - discriminate.
  - destruct H as [H|H]; congruence.
Qed.

Lemma start_new_view_np cfg s v : r_high_cqc s <> None \/ r_high_tqc s <> None ->
  np (start_new_view cfg s v).
Proof.
  intros H p. unfold start_new_view.
  pose proof (get_justification_np (set_phase (set_view s v) Prepare) H) as Hj.
  destruct (get_justification _) as [j|e|p'].
  - unfold hbind, hemit, backup_state, res_of; cbn [fst snd]. discriminate.
  - unfold hfail, res_of; cbn [snd]. discriminate.
  - exfalso. exact (Hj p' eq_refl).
Qed.

Lemma lift_num_next_np s chk v : np (lift s (num_next (E := unit) chk v)) /\
  st_of (lift s (num_next (E := unit) chk v)) = s.
Proof.
  unfold num_next, u64_add. destruct (_ <? _); [split; [intros p; discriminate|reflexivity]|].
  destruct chk; cbn [lift]; (split; [|reflexivity]); intros p; unfold hpanic, hret, res_of; cbn [snd].
  - intros H; inversion H; reflexivity.
  - discriminate.
Qed.

(* the common tail: process the finished certificate, then start_new_view(view.next()) *)
Lemma tail_np {A} cfg (x : hres A) v :
  (forall p, res_of x <> Panic p) ->
  (forall a, res_of x = Ok a -> r_high_cqc (st_of x) <> None \/ r_high_tqc (st_of x) <> None) ->
  np (hbind x (fun s _ => hbind (lift s (num_next (cchk cfg) v)) (fun s nv => start_new_view cfg s nv))).
Proof.
  intros H1 H2. apply hbind_np.
  - intros p Hp. exfalso. exact (H1 p Hp).
  - intros a Ha. destruct (lift_num_next_np (st_of x) (cchk cfg) v) as [Hn Hs].
    apply hbind_np; [exact Hn|]. intros nv _. rewrite Hs. apply start_new_view_np. exact (H2 a Ha).
Qed.

Lemma tail_keeps {A} cfg (x : hres A) v base :
  keeps base x ->
  keeps base (hbind x (fun s _ => hbind (lift s (num_next (cchk cfg) v)) (fun s nv => start_new_view cfg s nv))).
Proof.
  intros H. apply hbind_keeps; [exact H|]. intros s1 a Hk.
  apply hbind_keeps; [apply lift_keeps; exact Hk|]. intros s2 nv Hk2.
  apply start_new_view_keeps; exact Hk2.
Qed.

(* ================================================================== *)
(* 6. on_commit / on_timeout                                           *)

Definition cache_inv_c (cfg : config) (cs : caches_t) : Prop :=
  let '(cv, cq, tv, tq) := cs in
  cinv (cg cfg) (ce cfg) (cC cfg) cv cq /\ tinv (cg cfg) (ce cfg) (cC cfg) tv tq.
Definition cache_inv (cfg : config) (s : rstate) : Prop := cache_inv_c cfg (caches s).

Lemma keeps_inv {A} cfg base (x : hres A) : cache_inv_c cfg base -> keeps base x -> cache_inv cfg (st_of x).
Proof. unfold keeps, cache_inv. intros H Hk. rewrite Hk. exact H. Qed.

(* CommitQC::add on the certificate under construction *)
Definition cupd (key : Z) (c : commit) (i0 : nat) (q : cqc) : cqc :=
  {| qmsg := qmsg q; qsigners := bv_set (qsigners q) i0; qagg := qagg q ++ [(key, RCommit c)] |}.

Ltac leaf Hinv :=
  split; [exact Hinv|unfold np, res_of, hfail, hret, hpanic; cbn [snd]; intros ? ?; discriminate].

(* the handler's own CommitQC::add, on any certificate for this vote that [key] is not in yet *)
Lemma cupd_add cfg key c i0 q : cindex (cC cfg) key = Some i0 ->
  commit_verify (cg cfg) (ce cfg) c = Ok tt ->
  qmsg q = c -> cqc_inv (cC cfg) q -> nth_error (qsigners q) i0 = Some false ->
  cqc_add (cg cfg) (ce cfg) (cC cfg) q {| skey := key; smsg := c; ssig := (key, RCommit c) |}
  = Ok (cupd key c i0 q).
Proof.
  intros Hk Ev Hm [Hl _] Hn. apply (cqc_add_ok_iff _ _ _ _ _ _ Hl). exists i0. cbn [skey smsg ssig].
  split; [exact Hk|]. split; [exact Hn|]. split; [reflexivity|]. split; [exact Hm|].
  split; [apply view_verify_iff; exact Ev|reflexivity].
Qed.

Lemma cupd_inv cfg key c i0 q : cindex (cC cfg) key = Some i0 ->
  commit_verify (cg cfg) (ce cfg) c = Ok tt ->
  qmsg q = c -> cqc_inv (cC cfg) q -> nth_error (qsigners q) i0 = Some false ->
  cqc_inv (cC cfg) (cupd key c i0 q).
Proof.
  intros Hk Ev Hm Hi Hn.
  exact (proj1 (cqc_add_inv _ _ _ _ _ _ Hi (cupd_add cfg key c i0 q Hk Ev Hm Hi Hn))).
Qed.

(* what on_commit does once its own checks have passed *)
Definition on_commit_accept (cfg : config) (s : rstate) (key : Z) (c : commit) (i0 : nat) : hres unit :=
  let v := vnum (cview c) in
  let bucket := bucket_of (r_commit_qcs s) v in
  let q := cupd key c i0 (q0_of (cC cfg) bucket c) in
  let views' := zmap_set (r_commit_views s) key v in
  let qcs' := retain_views (zmap_set (r_commit_qcs s) v (cmap_set bucket c q)) views' in
  if weight (cweights (cC cfg)) (qsigners q) <? quorum (cC cfg)
  then hret (set_commit_caches s views' qcs') tt
  else hbind (process_commit_qc cfg (set_commit_caches s views' (zmap_remove qcs' v)) q) (fun s _ =>
       hbind (lift s (num_next (cchk cfg) v)) (fun s nv => start_new_view cfg s nv)).

Theorem on_commit_eq cfg s key c i0 : cache_inv cfg s ->
  cindex (cC cfg) key = Some i0 -> (vnum (cview c) <? r_view s) = false ->
  fresh (r_commit_views s) key (vnum (cview c)) -> commit_verify (cg cfg) (ce cfg) c = Ok tt ->
  on_commit cfg s key true c = on_commit_accept cfg s key c i0.
Proof.
  intros [Hc Ht] Hk Hold Efresh Ev.
  unfold on_commit, on_commit_accept, ccontains. cbv zeta. rewrite Hk. cbn [negb]. rewrite Hold.
  unfold fresh in Efresh. rewrite Efresh. rewrite Ev.
  change (match zmap_get (r_commit_qcs s) (vnum (cview c)) with Some b => b | None => [] end)
    with (bucket_of (r_commit_qcs s) (vnum (cview c))).
  set (v := vnum (cview c)) in *. set (bucket := bucket_of (r_commit_qcs s) v).
  change (match cmap_get bucket c with Some q => q | None => cqc_new c (cC cfg) end)
    with (q0_of (cC cfg) bucket c).
  pose proof (q0_facts _ _ (cC cfg) (r_commit_views s) v bucket c key i0
                (bucket_of_ok _ _ _ _ _ v Hc) Hk Efresh) as (Hq0m & Hq0i & Hq0n).
  rewrite (cupd_add cfg key c i0 _ Hk Ev Hq0m Hq0i Hq0n). cbv beta iota.
  unfold signers_weight. cbn [cupd qsigners]. rewrite bv_set_length, (proj1 Hq0i), Nat.eqb_refl.
  destruct (_ <? quorum (cC cfg)); [reflexivity|].
  rewrite (retain_get _ _ key v (zmap_set_has _ _ _)), zmap_get_set, Z.eqb_refl, cmap_get_set.
  reflexivity.
Qed.

Lemma on_commit_accept_spec cfg s key c i0 : cache_inv cfg s ->
  cindex (cC cfg) key = Some i0 ->
  fresh (r_commit_views s) key (vnum (cview c)) -> commit_verify (cg cfg) (ce cfg) c = Ok tt ->
  cache_inv cfg (st_of (on_commit_accept cfg s key c i0)) /\ np (on_commit_accept cfg s key c i0).
Proof.
  intros [Hc Ht] Hk Efresh Ev. unfold on_commit_accept. cbv zeta.
  set (v := vnum (cview c)) in *. set (bucket := bucket_of (r_commit_qcs s) v).
  destruct (cinv_step (cg cfg) (ce cfg) (cC cfg) (r_commit_views s) (r_commit_qcs s) key v i0 c (cupd key c i0)
              Hc Hk Efresh (proj1 (view_verify_iff _ _ _) Ev) eq_refl (fun _ => eq_refl) (fun _ => eq_refl)
              (fun q Hm Hi Hn => cupd_inv cfg key c i0 q Hk Ev Hm Hi Hn)) as [Hi1 Hi2].
  cbv zeta in Hi1, Hi2. fold bucket in Hi1, Hi2.
  destruct (_ <? quorum (cC cfg)).
  - split; [|intros p Hp; discriminate Hp]. split; [exact Hi1|exact Ht].
  - split.
    + eapply keeps_inv; [|apply tail_keeps; apply process_commit_qc_keeps; reflexivity].
      split; [exact Hi2|exact Ht].
    + apply tail_np; [apply process_commit_qc_res|]. intros a _. left. apply process_commit_qc_res.
Qed.

Theorem on_commit_spec cfg s key g c : cache_inv cfg s ->
  cache_inv cfg (st_of (on_commit cfg s key g c)) /\ np (on_commit cfg s key g c).
Proof.
  intros Hinv.
  destruct (cindex (cC cfg) key) as [i0|] eqn:Hk.
  2:{ unfold on_commit, ccontains. rewrite Hk. cbn [negb]. leaf Hinv. }
  destruct (vnum (cview c) <? r_view s) eqn:Hold.
  { unfold on_commit, ccontains. cbv zeta. rewrite Hk. cbn [negb]. rewrite Hold. leaf Hinv. }
  destruct (match zmap_get (r_commit_views s) key with Some v' => vnum (cview c) <=? v' | None => false end) eqn:Efresh.
  { unfold on_commit, ccontains. cbv zeta. rewrite Hk. cbn [negb]. rewrite Hold, Efresh. leaf Hinv. }
  destruct g.
  2:{ unfold on_commit, ccontains. cbv zeta. rewrite Hk. cbn [negb]. rewrite Hold, Efresh. leaf Hinv. }
  destruct (commit_verify (cg cfg) (ce cfg) c) as [[]|e|p] eqn:Ev.
  - rewrite (on_commit_eq cfg s key c i0 Hinv Hk Hold Efresh Ev).
    apply on_commit_accept_spec; assumption.
  - unfold on_commit, ccontains. cbv zeta. rewrite Hk. cbn [negb]. rewrite Hold, Efresh, Ev. leaf Hinv.
  - exfalso. unfold commit_verify, view_verify in Ev.
    destruct (negb _); [discriminate|]. destruct (negb _); discriminate.
Qed.

(* for C05: the certificate handed to process_commit_qc verifies *)
Theorem on_commit_qc_verifies cfg s key c i0 : cache_inv cfg s ->
  cindex (cC cfg) key = Some i0 ->
  fresh (r_commit_views s) key (vnum (cview c)) -> commit_verify (cg cfg) (ce cfg) c = Ok tt ->
  let q := cupd key c i0 (q0_of (cC cfg) (bucket_of (r_commit_qcs s) (vnum (cview c))) c) in
  quorum (cC cfg) <= weight (cweights (cC cfg)) (qsigners q) ->
  qmsg q = c /\ cqc_inv (cC cfg) q /\ cqc_verify (cg cfg) (ce cfg) (cC cfg) q = Ok tt.
Proof.
  intros [Hc Ht] Hk Efresh Ev q Hw.
  pose proof (q0_facts _ _ (cC cfg) (r_commit_views s) _ _ c key i0
                (bucket_of_ok _ _ _ _ _ (vnum (cview c)) Hc) Hk Efresh) as (Hq0m & Hq0i & Hq0n).
  pose proof (cupd_inv cfg key c i0 _ Hk Ev Hq0m Hq0i Hq0n) as Hqi. fold q in Hqi.
  assert (Hqm : qmsg q = c) by exact Hq0m.
  split; [exact Hqm|]. split; [exact Hqi|].
  apply cqc_verify_iff. rewrite Hqm. destruct Hqi as [Hl Hp].
  split; [apply view_verify_iff; exact Ev|]. split; [exact Hl|]. split; [exact Hw|exact Hp].
Qed.

(* the handler's own TimeoutQC::add *)
Definition tupd (cfg : config) (key : Z) (t : timeout) (i0 : nat) (t0 : tqc) : tqc :=
  {| tqview := tqview t0; tqmap := tqmap_set (tqmap t0) t (length (cC cfg)) i0;
     tqagg := tqagg t0 ++ [(key, TTimeout t)] |}.

Lemma tupd_add cfg s key t i0 : cache_inv cfg s ->
  cindex (cC cfg) key = Some i0 -> fresh (r_timeout_views s) key (vnum (tview t)) ->
  timeout_verify (cg cfg) (ce cfg) (cC cfg) t = Ok tt ->
  let t0 := t0_of (r_timeout_qcs s) (tview t) in
  tqc_add (cg cfg) (ce cfg) (cC cfg) t0 {| skey := key; smsg := t; ssig := (key, TTimeout t) |}
  = Ok (tupd cfg key t i0 t0) /\ tqc_inv (cg cfg) (ce cfg) (cC cfg) (tupd cfg key t i0 t0).
Proof.
  intros [_ Ht] Hk Efresh Ev t0.
  pose proof (proj1 (timeout_verify_iff _ _ _ _) Ev) as ([Hg He] & _).
  pose proof (t0_ok _ _ _ _ _ (tview t) Ht Hg He) as (Hvw & Hti & Hf). cbn [fst snd] in Hvw, Hti, Hf.
  fold t0 in Hvw, Hti, Hf.
  pose proof (cindex_lt _ _ _ Hk) as Hlt.
  pose proof (tqc_inv_lengths _ _ _ _ Hti) as Hlen.
  assert (Hadd : tqc_add (cg cfg) (ce cfg) (cC cfg) t0 {| skey := key; smsg := t; ssig := (key, TTimeout t) |}
                 = Ok (tupd cfg key t i0 t0)).
  { apply (tqc_add_ok_iff _ _ _ _ _ _ Hlen). exists i0. cbn [skey smsg ssig].
    split; [exact Hk|]. split.
    { apply Forall_forall. intros en Hen. rewrite Forall_forall in Hlen.
      rewrite nth_error_bit by (rewrite (Hlen en Hen); exact Hlt). f_equal.
      eapply fresh_bit_false; try eassumption. apply in_map; exact Hen. }
    split; [reflexivity|]. split.
    { rewrite Hvw. destruct (tview t); cbn in *; subst; reflexivity. }
    split; [exact Ev|reflexivity]. }
  split; [exact Hadd|]. exact (proj1 (tqc_add_inv _ _ _ _ _ _ Hti Hadd)).
Qed.

(* what on_timeout does once its own checks have passed *)
Definition on_timeout_accept (cfg : config) (s : rstate) (key : Z) (t : timeout) (i0 : nat) : hres unit :=
  let v := vnum (tview t) in
  let t' := tupd cfg key t i0 (t0_of (r_timeout_qcs s) (tview t)) in
  let views' := zmap_set (r_timeout_views s) key v in
  let qcs' := retain_views (zmap_set (r_timeout_qcs s) v t') views' in
  if weight (cweights (cC cfg)) (union_from (bv_new (length (cC cfg))) (tqmap t')) <? quorum (cC cfg)
  then hret (set_timeout_caches s views' qcs') tt
  else hbind (process_timeout_qc cfg (set_timeout_caches s views' (zmap_remove qcs' v)) t') (fun s _ =>
       hbind (lift s (num_next (cchk cfg) v)) (fun s nv => start_new_view cfg s nv)).

Theorem on_timeout_eq cfg s key t i0 : cache_inv cfg s ->
  cindex (cC cfg) key = Some i0 -> (vnum (tview t) <? r_view s) = false ->
  fresh (r_timeout_views s) key (vnum (tview t)) ->
  timeout_verify (cg cfg) (ce cfg) (cC cfg) t = Ok tt ->
  on_timeout cfg s key true t = on_timeout_accept cfg s key t i0.
Proof.
  intros Hinv Hk Hold Efresh Ev.
  destruct (tupd_add cfg s key t i0 Hinv Hk Efresh Ev) as [Hadd Hti]. cbv zeta in Hadd, Hti.
  unfold on_timeout, on_timeout_accept, ccontains. cbv zeta. rewrite Hk. cbn [negb]. rewrite Hold.
  pose proof Efresh as Efresh'. unfold fresh in Efresh'. rewrite Efresh'. rewrite Ev.
  change (match zmap_get (r_timeout_qcs s) (vnum (tview t)) with Some q => q | None => tqc_new (tview t) end)
    with (t0_of (r_timeout_qcs s) (tview t)).
  rewrite Hadd. cbv beta iota.
  rewrite (tqc_weight_union rerr _ _ _ _ Hti).
  destruct (_ <? quorum (cC cfg)); [reflexivity|].
  rewrite (retain_get _ _ key _ (zmap_set_has _ _ _)), zmap_get_set, Z.eqb_refl. reflexivity.
Qed.

Lemma on_timeout_accept_spec cfg s key t i0 : cache_inv cfg s ->
  cindex (cC cfg) key = Some i0 -> fresh (r_timeout_views s) key (vnum (tview t)) ->
  timeout_verify (cg cfg) (ce cfg) (cC cfg) t = Ok tt ->
  cache_inv cfg (st_of (on_timeout_accept cfg s key t i0)) /\ np (on_timeout_accept cfg s key t i0).
Proof.
  intros Hinv Hk Efresh Ev. pose proof Hinv as [Hc Ht].
  destruct (tupd_add cfg s key t i0 Hinv Hk Efresh Ev) as [_ Hti]. cbv zeta in Hti.
  pose proof (proj1 (timeout_verify_iff _ _ _ _) Ev) as ([Hg He] & _).
  unfold on_timeout_accept. cbv zeta.
  destruct (tinv_step (cg cfg) (ce cfg) (cC cfg) (r_timeout_views s) (r_timeout_qcs s) key i0 (tview t) t
              (tqagg (t0_of (r_timeout_qcs s) (tview t)) ++ [(key, TTimeout t)]) Ht Hk Efresh Hg He Hti) as [Hi1 Hi2].
  cbv zeta in Hi1, Hi2.
  destruct (_ <? quorum (cC cfg)).
  - split; [|intros p Hp; discriminate Hp]. split; [exact Hc|exact Hi1].
  - split.
    + eapply keeps_inv; [|apply tail_keeps; apply process_timeout_qc_keeps; reflexivity].
      split; [exact Hc|exact Hi2].
    + apply tail_np; [apply process_timeout_qc_res|]. intros a Ha. right.
      exact (proj2 (process_timeout_qc_res _ _ _) a Ha).
Qed.

Theorem on_timeout_spec cfg s key g t : cache_inv cfg s ->
  cache_inv cfg (st_of (on_timeout cfg s key g t)) /\ np (on_timeout cfg s key g t).
Proof.
  intros Hinv.
  destruct (cindex (cC cfg) key) as [i0|] eqn:Hk.
  2:{ unfold on_timeout, ccontains. rewrite Hk. cbn [negb]. leaf Hinv. }
  destruct (vnum (tview t) <? r_view s) eqn:Hold.
  { unfold on_timeout, ccontains. cbv zeta. rewrite Hk. cbn [negb]. rewrite Hold. leaf Hinv. }
  destruct (match zmap_get (r_timeout_views s) key with Some v' => vnum (tview t) <=? v' | None => false end) eqn:Efresh.
  { unfold on_timeout, ccontains. cbv zeta. rewrite Hk. cbn [negb]. rewrite Hold, Efresh. leaf Hinv. }
  destruct g.
  2:{ unfold on_timeout, ccontains. cbv zeta. rewrite Hk. cbn [negb]. rewrite Hold, Efresh. leaf Hinv. }
  destruct (timeout_verify_total (cg cfg) (ce cfg) (cC cfg) t) as [Ev|[x Ev]].
  - rewrite (on_timeout_eq cfg s key t i0 Hinv Hk Hold Efresh Ev).
    apply on_timeout_accept_spec; assumption.
  - unfold on_timeout, ccontains. cbv zeta. rewrite Hk. cbn [negb]. rewrite Hold, Efresh, Ev. leaf Hinv.
Qed.

(* for C05: the certificate handed to process_timeout_qc verifies *)
Theorem on_timeout_qc_verifies cfg s key t i0 : cache_inv cfg s ->
  cindex (cC cfg) key = Some i0 -> fresh (r_timeout_views s) key (vnum (tview t)) ->
  timeout_verify (cg cfg) (ce cfg) (cC cfg) t = Ok tt ->
  let t' := tupd cfg key t i0 (t0_of (r_timeout_qcs s) (tview t)) in
  quorum (cC cfg) <= weight (cweights (cC cfg)) (union_from (bv_new (length (cC cfg))) (tqmap t')) ->
  tqc_inv (cg cfg) (ce cfg) (cC cfg) t' /\ tqview t' = tview t /\
  tqc_verify (cg cfg) (ce cfg) (cC cfg) t' = Ok tt.
Proof.
  intros Hinv Hk Efresh Ev t' Hw. pose proof Hinv as [_ Ht].
  destruct (tupd_add cfg s key t i0 Hinv Hk Efresh Ev) as [_ Hti]. cbv zeta in Hti. fold t' in Hti.
  pose proof (proj1 (timeout_verify_iff _ _ _ _) Ev) as (Hvok & _). pose proof Hvok as [Hg He].
  pose proof (t0_ok _ _ _ _ _ (tview t) Ht Hg He) as (Hvw & _ & _). cbn [fst snd] in Hvw.
  assert (Hview : tqview t' = tview t).
  { unfold t', tupd; cbn [tqview]. rewrite Hvw. destruct (tview t); cbn in *; subst; reflexivity. }
  split; [exact Hti|]. split; [exact Hview|].
  apply (tqc_inv_verify_iff _ _ _ _ Hti). rewrite Hview. split; [exact Hvok|exact Hw].
Qed.

(* ================================================================== *)
(* 7. every step, reachable states, bounds                             *)

Lemma rstart_inv cfg d first next : cache_inv cfg (rstart cfg d first next).
Proof.
  unfold cache_inv, caches, rstart; cbn [r_commit_views r_commit_qcs r_timeout_views r_timeout_qcs cache_inv_c].
  split; (split; [split; [constructor|intros k v []]|split; [constructor|split; intros e []]]).
Qed.

Lemma start_timeout_inv cfg s : cache_inv cfg s -> cache_inv cfg (st_of (start_timeout cfg s)).
Proof. intros H. eapply keeps_inv; [exact H|apply start_timeout_keeps; reflexivity]. Qed.

Theorem rstep_inv cfg s i : cache_inv cfg s -> cache_inv cfg (st_of (rstep cfg s i)).
Proof.
  intros H. destruct i as [m| |n h]; cbn [rstep].
  - destruct (m_msg m) as [p j|c|t|j].
    + eapply keeps_inv; [exact H|apply on_proposal_keeps; reflexivity].
    + apply on_commit_spec; exact H.
    + apply on_timeout_spec; exact H.
    + eapply keeps_inv; [exact H|apply on_new_view_keeps; reflexivity].
  - apply start_timeout_inv; exact H.
  - destruct (_ =? _); exact H.
Qed.

Lemma rprologue_inv cfg s : cache_inv cfg s -> cache_inv cfg (st_of (rprologue cfg s)).
Proof. intros H. unfold rprologue. destruct (_ =? _); [apply start_timeout_inv; exact H|exact H]. Qed.

(* votes never hit an unwrap / expect / index / assert: the only panic a ReplicaCommit or
   ReplicaTimeout can cause is the arithmetic overflow of view.next() (known finding) *)
Theorem rstep_vote_panics cfg s m : cache_inv cfg s ->
  (exists c, m_msg m = MCommit c) \/ (exists t, m_msg m = MTimeout t) ->
  forall p, res_of (rstep cfg s (IMsg m)) = Panic p -> p = POverflow.
Proof.
  intros H [[c Hm]|[t Hm]]; cbn [rstep]; rewrite Hm.
  - apply on_commit_spec; exact H.
  - apply on_timeout_spec; exact H.
Qed.

Definition rrun (cfg : config) (s : rstate) (ops : list rinput) : rstate :=
  fold_left (fun s i => st_of (rstep cfg s i)) ops s.

Lemma rrun_inv cfg ops : forall s, cache_inv cfg s -> cache_inv cfg (rrun cfg s ops).
Proof.
  unfold rrun. induction ops as [|i ops IH]; intros s H; cbn [fold_left]; [exact H|].
  apply IH. apply rstep_inv. exact H.
Qed.

(* ----- the bounds ----- *)
Definition views_bound (C : committee) (views : list (Z * Z)) : Prop :=
  NoDup (map fst views) /\ incl (map fst views) (map mkey C) /\ (length views <= length C)%nat.

Definition keys_bound {A} (C : committee) (views : list (Z * Z)) (qcs : list (Z * A)) : Prop :=
  NoDup (map fst qcs) /\ incl (map fst qcs) (map snd views) /\ (length qcs <= length C)%nat.

Definition fam_bounded (n : nat) (bms : list (list bool)) : Prop :=
  Forall (fun s => length s = n /\ exists i, nth_error s i = Some true) bms /\
  pairwise_disjoint bms /\ (length bms <= n)%nat.

Definition cache_bounds (cfg : config) (s : rstate) : Prop :=
  let C := cC cfg in
  let n := length C in
  views_bound C (r_commit_views s) /\
  keys_bound C (r_commit_views s) (r_commit_qcs s) /\
  (forall v b, In (v, b) (r_commit_qcs s) -> fam_bounded n (cbms b) /\ (length b <= n)%nat) /\
  (list_sum (map (fun e => length (snd e)) (r_commit_qcs s)) <= n * n)%nat /\
  views_bound C (r_timeout_views s) /\
  keys_bound C (r_timeout_views s) (r_timeout_qcs s) /\
  (forall v t, In (v, t) (r_timeout_qcs s) ->
     fam_bounded n (map snd (tqmap t)) /\ (length (tqmap t) <= n)%nat) /\
  (list_sum (map (fun e => length (tqmap (snd e))) (r_timeout_qcs s)) <= n * n)%nat.

Lemma views_bound_of C views : views_ok C views -> views_bound C views.
Proof.
  intros [Hs Hm].
  assert (Hnd : NoDup (map fst views)) by (apply zsorted_nodup; exact Hs).
  assert (Hincl : incl (map fst views) (map mkey C)).
  { intros k Hk. apply in_map_iff in Hk. destruct Hk as ([k' v] & <- & Hin). cbn [fst].
    specialize (Hm k' v Hin). destruct (cindex C k') as [i|] eqn:E; [|congruence].
    eapply cindex_in; exact E. }
  split; [exact Hnd|split; [exact Hincl|]].
  pose proof (NoDup_incl_length Hnd Hincl) as H. rewrite !map_length in H. exact H.
Qed.

Lemma keys_bound_of {A} C views (qcs : list (Z * A)) :
  views_bound C views -> zsorted qcs -> covered views qcs -> keys_bound C views qcs.
Proof.
  intros (_ & _ & Hlen) Hs Hcov.
  assert (Hnd : NoDup (map fst qcs)) by (apply zsorted_nodup; exact Hs).
  assert (Hincl : incl (map fst qcs) (map snd views)).
  { intros v Hv. apply in_map_iff in Hv. destruct Hv as (e & <- & Hin).
    destruct (Hcov e Hin) as [k Hk]. apply in_map_iff. exists (k, fst e). split; [reflexivity|exact Hk]. }
  split; [exact Hnd|split; [exact Hincl|]].
  pose proof (NoDup_incl_length Hnd Hincl) as H. rewrite !map_length in H. lia.
Qed.

Lemma fam_bounded_of C views v bms : fam_ok C views v bms -> fam_bounded (length C) bms.
Proof.
  intros (H1 & H2 & _). split; [|split].
  - eapply Forall_impl; [|exact H1]. intros s [Hl [i Hi]]. split; [exact Hl|]. exists i.
    rewrite nth_error_bit by (apply bit_true_lt; exact Hi). rewrite Hi. reflexivity.
  - apply col_le1_pairwise; exact H2.
  - apply fam_bound; assumption.
Qed.

Theorem cache_inv_bounds cfg s : cache_inv cfg s -> cache_bounds cfg s.
Proof.
  intros [(Hcv & Hcs & Hcc & Hce) (Htv & Hts & Htc & Hte)]. unfold cache_bounds. cbv zeta.
  pose proof (views_bound_of _ _ Hcv) as Bcv. pose proof (views_bound_of _ _ Htv) as Btv.
  pose proof (keys_bound_of _ _ _ Bcv Hcs Hcc) as Bck. pose proof (keys_bound_of _ _ _ Btv Hts Htc) as Btk.
  assert (Bce : forall v b, In (v, b) (r_commit_qcs s) ->
            fam_bounded (length (cC cfg)) (cbms b) /\ (length b <= length (cC cfg))%nat).
  { intros v b Hin. destruct (Hce _ Hin) as [_ [Hf _]]. cbn [fst snd] in Hf.
    pose proof (fam_bounded_of _ _ _ _ Hf) as Hb. split; [exact Hb|].
    destruct Hb as (_ & _ & Hl). unfold cbms in Hl. rewrite map_length in Hl. exact Hl. }
  assert (Bte : forall v t, In (v, t) (r_timeout_qcs s) ->
            fam_bounded (length (cC cfg)) (map snd (tqmap t)) /\ (length (tqmap t) <= length (cC cfg))%nat).
  { intros v t Hin. destruct (Hte _ Hin) as (_ & _ & Hf). cbn [fst snd] in Hf.
    pose proof (fam_bounded_of _ _ _ _ Hf) as Hb. split; [exact Hb|].
    destruct Hb as (_ & _ & Hl). rewrite map_length in Hl. exact Hl. }
  repeat (split; [assumption|]).
  split; [|split; [assumption|split; [assumption|split; [assumption|]]]].
  - etransitivity; [apply (list_sum_bound _ (length (cC cfg)))|].
    + intros [v b] Hin. cbn [snd]. apply (Bce v b Hin).
    + apply Nat.mul_le_mono_r. apply Bck.
  - etransitivity; [apply (list_sum_bound _ (length (cC cfg)))|].
    + intros [v t] Hin. cbn [snd]. apply (Bte v t Hin).
    + apply Nat.mul_le_mono_r. apply Btk.
Qed.

Theorem replica_caches_bounded cfg d first next ops :
  cache_bounds cfg (rrun cfg (rstart cfg d first next) ops).
Proof. apply cache_inv_bounds, rrun_inv, rstart_inv. Qed.

Theorem replica_caches_bounded_prologue cfg d first next ops :
  cache_bounds cfg (rrun cfg (st_of (rprologue cfg (rstart cfg d first next))) ops).
Proof. apply cache_inv_bounds, rrun_inv, rprologue_inv, rstart_inv. Qed.

(* ----- the sites themselves, as separate statements (they feed C10) ----- *)

(* `.expect("could not add message to CommitQC")`: after the handler's own checks (member,
   not a duplicate, message verifies) the add succeeds on the certificate found or created *)
Theorem commit_add_cannot_fail cfg s key c i0 : cache_inv cfg s ->
  cindex (cC cfg) key = Some i0 -> fresh (r_commit_views s) key (vnum (cview c)) ->
  commit_verify (cg cfg) (ce cfg) c = Ok tt ->
  let q0 := q0_of (cC cfg) (bucket_of (r_commit_qcs s) (vnum (cview c))) c in
  cqc_add (cg cfg) (ce cfg) (cC cfg) q0 {| skey := key; smsg := c; ssig := (key, RCommit c) |}
  = Ok (cupd key c i0 q0).
Proof.
  intros [Hc _] Hk Hfr Ev q0.
  pose proof (q0_facts _ _ (cC cfg) (r_commit_views s) _ _ c key i0
                (bucket_of_ok _ _ _ _ _ (vnum (cview c)) Hc) Hk Hfr) as (Hq0m & Hq0i & Hq0n).
  exact (cupd_add cfg key c i0 _ Hk Ev Hq0m Hq0i Hq0n).
Qed.

Theorem timeout_add_cannot_fail cfg s key t i0 : cache_inv cfg s ->
  cindex (cC cfg) key = Some i0 -> fresh (r_timeout_views s) key (vnum (tview t)) ->
  timeout_verify (cg cfg) (ce cfg) (cC cfg) t = Ok tt ->
  let t0 := t0_of (r_timeout_qcs s) (tview t) in
  tqc_add (cg cfg) (ce cfg) (cC cfg) t0 {| skey := key; smsg := t; ssig := (key, TTimeout t) |}
  = Ok (tupd cfg key t i0 t0).
Proof. intros Hinv Hk Hfr Ev. exact (proj1 (tupd_add cfg s key t i0 Hinv Hk Hfr Ev)). Qed.

(* for C05: what the invariant says about each certificate under construction *)
Theorem cache_inv_commit_qc cfg s v b c q : cache_inv cfg s ->
  zmap_get (r_commit_qcs s) v = Some b -> cmap_get b c = Some q ->
  cqc_inv (cC cfg) q /\ qmsg q = c /\ view_ok (cg cfg) (ce cfg) (cview c) /\ vnum (cview c) = v.
Proof.
  intros [(_ & _ & _ & Hall) _] Hb Hq. apply zmap_get_in in Hb. apply cmap_get_in in Hq.
  destruct (Hall _ Hb) as [Hm _]. destruct (Hm c q Hq) as (H1 & H2 & H3 & H4). cbn [fst] in H4. tauto.
Qed.

Theorem cache_inv_bucket_nodup cfg s v b : cache_inv cfg s ->
  zmap_get (r_commit_qcs s) v = Some b -> NoDup (map fst b).
Proof. intros [(_ & _ & _ & Hall) _] Hb. apply zmap_get_in in Hb. apply (Hall _ Hb). Qed.

Theorem cache_inv_timeout_qc cfg s v t : cache_inv cfg s ->
  zmap_get (r_timeout_qcs s) v = Some t ->
  tqc_inv (cg cfg) (ce cfg) (cC cfg) t /\ vnum (tqview t) = v /\ view_ok (cg cfg) (ce cfg) (tqview t).
Proof.
  intros [_ (_ & _ & _ & Hall)] Hb. apply zmap_get_in in Hb.
  destruct (Hall _ Hb) as (H1 & H2 & _). cbn [fst snd] in H1, H2.
  split; [exact H2|]. rewrite H1. cbn. repeat split.
Qed.

(* the `.unwrap()`s after `retain`: the bucket of the vote's own view survives the retain,
   because the voter's entry in the views cache was just set to that view *)
Theorem retain_keeps_current {A} (qcs : list (Z * A)) views key v x :
  zmap_get (retain_views (zmap_set qcs v x) (zmap_set views key v)) v = Some x.
Proof. rewrite (retain_get _ _ key v (zmap_set_has _ _ _)), zmap_get_set, Z.eqb_refl. reflexivity. Qed.

(* ----- the runs compared with the implementation (crash / restart / timer after a blocked
   proposal included) ----- *)
Lemma rstep_t_inv cfg s i : cache_inv cfg s -> cache_inv cfg (st_of (rstep_t cfg s i)).
Proof.
  intros H. unfold rstep_t. pose proof (rstep_inv cfg s i H) as H1.
  destruct (rstep cfg s i) as [[s' es] r]. unfold st_of in *; cbn [fst] in *.
  destruct r as [a|e|p]; try exact H1. destruct e; try exact H1.
  pose proof (start_timeout_inv cfg s' H1) as H2.
  destruct (start_timeout cfg s') as [[s2 es2] r2]. exact H2.
Qed.

Lemma restart_inv cfg d first next : cache_inv cfg (st_of (rprologue cfg (rstart cfg d first next))).
Proof. apply rprologue_inv, rstart_inv. Qed.

Lemma run_op_inv cfg st o : cache_inv cfg (rs_s st) -> cache_inv cfg (rs_s (fst (run_op cfg st o))).
Proof.
  intros H. unfold run_op. destruct (rs_dead st); [exact H|]. destruct o as [i|i k ap|].
  - pose proof (rstep_t_inv cfg (rs_s st) i H) as H1.
    destruct (rstep_t cfg (rs_s st) i) as [[s' es] r]. destruct (apply_effects _ _ _). exact H1.
  - pose proof (rstep_t_inv cfg (rs_s st) i H) as H1.
    destruct (rstep_t cfg (rs_s st) i) as [[s' es] r]. destruct (cut_at_persist es k ap) as [pre|].
    + destruct (apply_effects _ _ pre) as [d' next'].
      pose proof (restart_inv cfg d' (r_store_first (rs_s st)) next') as H2.
      destruct (rprologue cfg _) as [[s1 es1] r1]. destruct (apply_effects _ _ es1). exact H2.
    + destruct (apply_effects _ _ _). exact H1.
  - pose proof (restart_inv cfg (rs_d st) (r_store_first (rs_s st)) (r_store_next (rs_s st))) as H2.
    destruct (rprologue cfg _) as [[s1 es1] r1]. destruct (apply_effects _ _ es1). exact H2.
Qed.

Fixpoint run_states (cfg : config) (st : run_state) (ops : list rop) : list rstate :=
  match ops with
  | [] => []
  | o :: rest => let st' := fst (run_op cfg st o) in rs_s st' :: run_states cfg st' rest
  end.

(* the replica states behind the snapshots that Model.ReplicaRun.run_case reports *)
Definition run_case_states (c : config * durable * Z * Z * list rop) : list rstate :=
  let '(cfg, d, first, next, ops) := c in
  let s0 := rstart cfg d first next in
  let '(s1, es, r) := rprologue cfg s0 in
  let '(d1, _) := apply_effects d next es in
  s1 :: run_states cfg {| rs_s := s1; rs_d := d1; rs_dead := negb (is_ok r) |} ops.

Lemma run_states_inv cfg ops : forall st, cache_inv cfg (rs_s st) ->
  Forall (cache_inv cfg) (run_states cfg st ops).
Proof.
  induction ops as [|o ops IH]; intros st H; cbn [run_states]; [constructor|].
  pose proof (run_op_inv cfg st o H) as H1. constructor; [exact H1|apply IH; exact H1].
Qed.

Lemma run_states_length cfg ops : forall st, length (run_states cfg st ops) = length (run_ops cfg st ops).
Proof.
  induction ops as [|o ops IH]; intros st; cbn [run_states run_ops]; [reflexivity|].
  destruct (run_op cfg st o) as [st' ob]. cbn [fst length]. rewrite IH. reflexivity.
Qed.

Theorem run_case_caches_bounded cfg d first next ops :
  Forall (cache_bounds cfg) (run_case_states (cfg, d, first, next, ops)).
Proof.
  unfold run_case_states. pose proof (restart_inv cfg d first next) as H.
  destruct (rprologue cfg _) as [[s1 es] r]. destruct (apply_effects d next es) as [d1 x].
  unfold st_of in H; cbn [fst] in H.
  constructor; [apply cache_inv_bounds; exact H|].
  eapply Forall_impl; [intros a Ha; apply cache_inv_bounds; exact Ha|].
  apply run_states_inv. exact H.
Qed.

(* a readable corollary: plain sizes *)
Theorem replica_cache_sizes cfg d first next ops :
  let s := rrun cfg (rstart cfg d first next) ops in
  let n := length (cC cfg) in
  (length (r_commit_views s) <= n)%nat /\ (length (r_commit_qcs s) <= n)%nat /\
  (forall v b, In (v, b) (r_commit_qcs s) ->
     (length b <= n)%nat /\ forall c q, In (c, q) b -> length (qsigners q) = n) /\
  (list_sum (map (fun e => length (snd e)) (r_commit_qcs s)) <= n * n)%nat /\
  (length (r_timeout_views s) <= n)%nat /\ (length (r_timeout_qcs s) <= n)%nat /\
  (forall v t, In (v, t) (r_timeout_qcs s) ->
     (length (tqmap t) <= n)%nat /\ forall m sg, In (m, sg) (tqmap t) -> length sg = n) /\
  (list_sum (map (fun e => length (tqmap (snd e))) (r_timeout_qcs s)) <= n * n)%nat.
Proof.
  intros s n. destruct (replica_caches_bounded cfg d first next ops)
    as (B1 & B2 & B3 & B4 & B5 & B6 & B7 & B8). fold s in B1, B2, B3, B4, B5, B6, B7, B8.
  split; [apply B1|]. split; [apply B2|]. split.
  { intros v b Hin. destruct (B3 v b Hin) as [(Hf & _ & _) Hl]. split; [exact Hl|].
    intros c q Hq. rewrite Forall_forall in Hf.
    apply (Hf (qsigners q)). unfold cbms. apply in_map_iff. exists (c, q). auto. }
  split; [exact B4|]. split; [apply B5|]. split; [apply B6|]. split; [|exact B8].
  intros v t Hin. destruct (B7 v t Hin) as [(Hf & _ & _) Hl]. split; [exact Hl|].
  intros m sg Hq. rewrite Forall_forall in Hf. apply (Hf sg). apply in_map_iff. exists (m, sg). auto.
Qed.
