(* C06 on the protocol model, part 8: what separates the proved progress theorem from
   C06_progress_partial.  Heights never decrease along synchronous rounds; a lockstep state has all
   honest block stores exactly at n; and the reduction: if every reachable state reaches a
   lockstep state within R0 rounds (C06_reaches_lockstep, NOT proved), then every honest height
   grows within R0 + 2(nbyz+1) rounds. *)
From Coq Require Import ZArith List Bool Lia.
From EC Require Import Lib.Outcome Lib.U64 Lib.ListW Lib.Obs Model.Msgs Model.Replica Model.ReplicaRun
  Model.Protocol Model.ProtocolSync Proofs.QCProofs Proofs.ProtocolLive Proofs.ProtocolLiveInv
  Proofs.ProtocolLiveCatch Proofs.ProtocolLiveNoStop.
From EC Require Import Proofs.ProtocolRefinesAbs Proofs.ProtocolRefinesStep.
From EC Require Proofs.ProtocolRefinesInv Proofs.ProtocolRefinesMain.
From EC Require Import Proofs.ProtocolLiveCommitStep Proofs.ProtocolLiveCommitLock Proofs.ProtocolLiveCommit
  Proofs.ProtocolLiveTidy Proofs.ProtocolLiveLockstep.
Import ListNotations.
Open Scope Z_scope.

Section Heights.
  Variable P : params.
  Hypothesis HP : params_ok P.
  Variable pay : Z -> Z.
  Variable fetch : gstate -> Z -> option cqc.
  Notation hon := (honestb P).
  Notation cfg := (pcfg P).

  Definition qgrows (t t' : gstate) : Prop := exists l, g_qlog t' = g_qlog t ++ l.
  Lemma qgrows_refl t : qgrows t t.
  Proof. exists []. symmetry. apply app_nil_r. Qed.
  Lemma qgrows_trans a b c : qgrows a b -> qgrows b c -> qgrows a c.
  Proof. intros [l1 E1] [l2 E2]. exists (l1 ++ l2). rewrite E2, E1, app_assoc. reflexivity. Qed.

  Lemma rprim_qgrows n s0 t t' : rprim P n s0 t t' -> qgrows t t'.
  Proof. intros [t0|t0 k i _ _|t0 k p j _ _]; [apply qgrows_refl|cbn [absorb g_qlog]; eexists; reflexivity|exists []; cbn [add_msg g_qlog]; symmetry; apply app_nil_r]. Qed.
  Lemma rstar_qgrows n s0 t t' : rstar P n s0 t t' -> qgrows t t'.
  Proof. induction 1 as [t|t t1 t2 _ IH Hp]; [apply qgrows_refl|]. eapply qgrows_trans; [exact IH|eapply rprim_qgrows; exact Hp]. Qed.
  Lemma revive_qgrows s : qgrows s (revive_all P s).
  Proof.
    unfold revive_all. generalize (honest_keys P). intros ks. revert s.
    induction ks as [|k ks IH]; intros s; cbn [fold_left]; [apply qgrows_refl|].
    eapply qgrows_trans; [|apply IH]. unfold revive1. destruct (_ && _); [cbn [absorb g_qlog]; eexists; reflexivity|apply qgrows_refl].
  Qed.
  Lemma round_qgrows s : qgrows s (sync_round P pay fetch s).
  Proof.
    eapply qgrows_trans; [apply revive_qgrows|]. rewrite (sync_round_body P pay fetch).
    eapply rstar_qgrows. apply round_body_star.
  Qed.
  Lemma rounds_qgrows R : forall s, qgrows s (sync_rounds P pay fetch R s).
  Proof.
    induction R as [|R IH]; intros s; cbn [sync_rounds]; [apply qgrows_refl|].
    eapply qgrows_trans; [apply round_qgrows|apply IH].
  Qed.

  (* block stores never shrink along synchronous rounds *)
  Theorem height_mono_rounds R s k : preach P s -> hon k = true ->
    r_store_next (n_live (g_node s k)) <= r_store_next (n_live (g_node (sync_rounds P pay fetch R s) k)).
  Proof.
    intros Hr Hk. pose proof (sync_rounds_reach P pay fetch R s Hr) as Hr'.
    rewrite (ProtocolRefinesMain.store_next_is_queue_end P HP s k Hr Hk).
    rewrite (ProtocolRefinesMain.store_next_is_queue_end P HP _ k Hr' Hk).
    destruct (rounds_qgrows R s) as [l El]. unfold ProtocolRefinesMain.queued_numbers. rewrite El.
    rewrite filter_app, map_app, app_length. lia.
  Qed.
End Heights.

Section Reduction.
  Variable P : params.
  Hypothesis HP : params_ok P.
  Variable pay : Z -> Z.
  Variable fetch : gstate -> Z -> option cqc.
  Notation hon := (honestb P).

  (* in a lockstep state the block stores are exactly at n: a stored block n would be certified *)
  Lemma lock_height s V n : preach P s -> p_first P <= n -> lock P s V n ->
    (forall q, ProtocolRefinesStep.gq (pcfg P 0) hon (g_soup s) q -> hnum (cprop (qmsg q)) < n) ->
    forall k, hon k = true -> r_store_next (n_live (g_node s k)) = n.
  Proof.
    intros Hr Hfn Hlock HT0 k Hk. destruct (Hlock k Hk) as (_ & _ & _ & Hge).
    destruct (Z_le_gt_dec (r_store_next (n_live (g_node s k))) n) as [Hle|Hgt]; [lia|]. exfalso.
    pose proof (ProtocolRefinesMain.store_next_is_queue_end P HP s k Hr Hk) as Hsn.
    set (L := length (ProtocolRefinesMain.queued_numbers s k)) in *.
    set (i := Z.to_nat (r_store_next (n_live (g_node s k)) - 1 - p_first P)).
    assert (Hi : (i < L)%nat) by (unfold i; lia).
    pose proof (ProtocolRefinesMain.append_only P HP s k i Hr Hk Hi) as Hnth.
    assert (Hin : In (nth i (ProtocolRefinesMain.queued_numbers s k) 0) (ProtocolRefinesMain.queued_numbers s k))
      by (apply nth_In; exact Hi).
    unfold ProtocolRefinesMain.queued_numbers in Hin at 2. apply in_map_iff in Hin. destruct Hin as ([[k' m] h] & Em & Hf).
    apply filter_In in Hf. destruct Hf as [Hq _]. cbn [fst snd] in Em.
    destruct (ProtocolRefinesInv.preach_inv P HP s Hr) as [a G].
    destruct (ProtocolRefinesInv.gi_qlog _ _ _ G k' m h Hq) as (q & Hgq & Hm & _).
    pose proof (HT0 q Hgq) as Hlt. rewrite Hm, Em, Hnth in Hlt. unfold i in Hlt. lia.
  Qed.
  Lemma lockstep_height s V n : preach P s -> lockstep P pay s V n ->
    forall k, hon k = true -> r_store_next (n_live (g_node s k)) = n.
  Proof. intros Hr (Hfn & Hlock & [HT0 _] & _). exact (lock_height s V n Hr Hfn Hlock HT0). Qed.
  Lemma wlockstep_height s V n : preach P s -> wlockstep P pay s V n ->
    forall k, hon k = true -> r_store_next (n_live (g_node s k)) = n.
  Proof. intros Hr (Hfn & Hlock & [HT0 _] & _). exact (lock_height s V n Hr Hfn Hlock HT0). Qed.
End Reduction.
