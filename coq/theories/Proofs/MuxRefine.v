(* C14: the executable endpoint of Model/Mux.v refines the flow-control transition system of
   Proofs/MuxProofs.v, in every reachable state of the two-sided system. *)
From Coq Require Import ZArith List Bool Lia.
From EC Require Import Lib.Outcome Lib.Obs Model.MuxHeader Model.Mux Proofs.MuxProofs.
Import ListNotations.
Open Scope Z_scope.

(* ================= the endpoint refines the flow-control transition system ================= *)
Definition sheld (s : rstream) : list frame := (match s_cache s with Some f => [f] | None => [] end) ++ s_inq s.
Definition theld (t : list rstream) : list frame := flat_map sheld t.
Definition ep_held (e : endpoint) : list frame := theld (e_acc e) ++ theld (e_con e).
Definition abs (e : endpoint) : fc := mkFc (e_d e) (ep_held e).

Definition hdr_ok (na nc : nat) (h : Z) : Prop :=
  0 <= stream_id h < Z.of_nat (if stream_kind h =? SK_ACCEPT then nc else na).
Definition disp_ok (na nc : nat) (st : dstate) : Prop :=
  match st with DLen h | DAcq0 h | DAcq h _ | DChunk h _ _ => hdr_ok na nc h | _ => True end.

Definition na_of (e : endpoint) := length (e_acc e).
Definition nc_of (e : endpoint) := length (e_con e).

(* reachable in the flow-control system from its initial state, and the dispatcher only ever
   works on a header that names an existing stream *)
Definition ep_ok (e : endpoint) : Prop :=
  disp_ok (na_of e) (nc_of e) (d_st (e_d e)) /\
  fc_steps (e_cfg e) (na_of e) (nc_of e) (fc_init (e_cfg e)) (abs e).

(* [pres e e']: e' has the same shape and is ok if e is; every transition of the model satisfies it *)
Definition tcaps (e : endpoint) : list Z * list Z := (map s_cap (e_acc e), map s_cap (e_con e)).

Definition pres (e e' : endpoint) : Prop :=
  e_cfg e' = e_cfg e /\ na_of e' = na_of e /\ nc_of e' = nc_of e /\ tcaps e' = tcaps e /\ (ep_ok e -> ep_ok e').

Lemma pres_refl : forall e, pres e e.
Proof. intros e. unfold pres. split; [reflexivity|]. split; [reflexivity|]. split; [reflexivity|]. split; [reflexivity|]. intros H; exact H. Qed.

Lemma pres_trans : forall e1 e2 e3, pres e1 e2 -> pres e2 e3 -> pres e1 e3.
Proof.
  intros e1 e2 e3 (A1 & A2 & A3 & At & A4) (B1 & B2 & B3 & Bt & B4). unfold pres. split; [congruence|]. split; [congruence|]. split; [congruence|]. split; [congruence|]. intros H. apply B4, A4, H.
Qed.

(* transitions that leave dispatcher and streams' queues alone *)
Lemma pres_same : forall e e', e_cfg e' = e_cfg e -> e_d e' = e_d e -> na_of e' = na_of e -> nc_of e' = nc_of e -> tcaps e' = tcaps e ->
  ep_held e' = ep_held e -> pres e e'.
Proof.
  intros e e' H1 H2 H3 H4 Ht H5. unfold pres. split; [assumption|]. split; [assumption|]. split; [assumption|]. split; [assumption|].
  intros [Hd Hs]. unfold ep_ok, abs. rewrite H1, H2, H3, H4, H5. split; assumption.
Qed.

Lemma upd_nth_length : forall A (f : A -> A) (l : list A) n, length (upd_nth n f l) = length l.
Proof. intros A f. induction l as [|x l IH]; intros n; [destruct n; reflexivity|]. destruct n; cbn [upd_nth length]; [reflexivity|]. rewrite IH. reflexivity. Qed.

Lemma theld_upd_nth : forall t i s f, nth_error t i = Some s ->
  exists h1 h2, theld t = h1 ++ sheld s ++ h2 /\ theld (upd_nth i f t) = h1 ++ sheld (f s) ++ h2.
Proof.
  induction t as [|x t IH]; intros i s f H; [destruct i; discriminate|].
  destruct i as [|i]; cbn [nth_error] in H.
  - inversion H; subst. exists [], (theld t). cbn [upd_nth theld flat_map app]. split; reflexivity.
  - destruct (IH i s f H) as (h1 & h2 & E1 & E2). exists (sheld x ++ h1), h2.
    cbn [upd_nth theld flat_map]. fold (theld t). fold (theld (upd_nth i f t)). rewrite E1, E2, <- !app_assoc. split; reflexivity.
Qed.

Lemma theld_upd_nth_none : forall (t : list rstream) i f, nth_error t i = None -> upd_nth i f t = t.
Proof.
  induction t as [|x t IH]; intros i f H; [destruct i; reflexivity|]. destruct i; [discriminate|].
  cbn [upd_nth]. rewrite IH; [reflexivity|exact H].
Qed.

Lemma held_upd_stream : forall e k i s f, get_stream e k i = Some s ->
  exists h1 h2, ep_held e = h1 ++ sheld s ++ h2 /\ ep_held (upd_stream e k i f) = h1 ++ sheld (f s) ++ h2.
Proof.
  intros e k i s f H. unfold get_stream, table in H. unfold upd_stream, set_table, table, ep_held.
  destruct (k =? 0); cbn [e_acc e_con set_acc set_con].
  - destruct (theld_upd_nth _ _ _ f H) as (h1 & h2 & E1 & E2). exists h1, (h2 ++ theld (e_con e)).
    rewrite E1, E2, <- !app_assoc. split; reflexivity.
  - destruct (theld_upd_nth _ _ _ f H) as (h1 & h2 & E1 & E2). exists (theld (e_acc e) ++ h1), h2.
    rewrite E1, E2, <- !app_assoc. split; reflexivity.
Qed.

Lemma upd_stream_shape : forall e k i f,
  e_cfg (upd_stream e k i f) = e_cfg e /\ e_d (upd_stream e k i f) = e_d e /\
  na_of (upd_stream e k i f) = na_of e /\ nc_of (upd_stream e k i f) = nc_of e.
Proof.
  intros e k i f. unfold upd_stream, set_table, table, na_of, nc_of. destruct e as [c d acc con qs sl out gone lg ev fl]. destruct (k =? 0); cbn;
    rewrite ?upd_nth_length; repeat split; reflexivity.
Qed.

Lemma upd_stream_none : forall e k i f, get_stream e k i = None -> upd_stream e k i f = e.
Proof.
  intros e k i f H. unfold get_stream, table in H. unfold upd_stream, set_table, table. destruct e as [c d acc con qs sl out gone lg ev fl].
  destruct (k =? 0); cbn [e_acc e_con set_acc set_con] in *; rewrite theld_upd_nth_none by exact H; reflexivity.
Qed.

Lemma map_upd_nth_same : forall A B (g : A -> B) (f : A -> A) (l : list A) i,
  (forall s, nth_error l i = Some s -> g (f s) = g s) -> map g (upd_nth i f l) = map g l.
Proof.
  intros A B g f. induction l as [|x l IH]; intros i H; [destruct i; reflexivity|].
  destruct i; cbn [upd_nth map].
  - rewrite (H x eq_refl). reflexivity.
  - rewrite IH; [reflexivity|]. intros s Hs. apply H. exact Hs.
Qed.

Lemma tcaps_upd_stream : forall e k i f, (forall s, get_stream e k i = Some s -> s_cap (f s) = s_cap s) ->
  tcaps (upd_stream e k i f) = tcaps e.
Proof.
  intros e k i f H. unfold get_stream, table in H. unfold tcaps, upd_stream, set_table, table.
  destruct (k =? 0); cbn [e_acc e_con set_acc set_con]; rewrite map_upd_nth_same by exact H; reflexivity.
Qed.

(* updating a stream without touching its cache and queue *)
Lemma pres_upd_neutral : forall e k i f, (forall s, sheld (f s) = sheld s) -> (forall s, s_cap (f s) = s_cap s) ->
  pres e (upd_stream e k i f).
Proof.
  intros e k i f Hf Hcap. destruct (upd_stream_shape e k i f) as (H1 & H2 & H3 & H4).
  apply pres_same; try assumption; [apply tcaps_upd_stream; intros s _; apply Hcap|].
  destruct (get_stream e k i) as [s|] eqn:E.
  - destruct (held_upd_stream e k i s f E) as (h1 & h2 & E1 & E2). rewrite E1, E2, Hf. reflexivity.
  - rewrite upd_stream_none by exact E. reflexivity.
Qed.

Lemma pres_upd_const_neutral : forall e k i s s', get_stream e k i = Some s -> sheld s' = sheld s -> s_cap s' = s_cap s ->
  pres e (upd_stream e k i (fun _ => s')).
Proof.
  intros e k i s s' E Hs Hcap. destruct (upd_stream_shape e k i (fun _ => s')) as (H1 & H2 & H3 & H4).
  apply pres_same; try assumption; [apply tcaps_upd_stream; intros s0 E0; congruence|].
  destruct (held_upd_stream e k i s (fun _ => s') E) as (h1 & h2 & E1 & E2). rewrite E1, E2, Hs. reflexivity.
Qed.
Ltac neutral := apply pres_same; reflexivity.

Lemma pres_set_qs : forall e x, pres e (set_qs e x). Proof. intros; neutral. Qed.
Lemma pres_set_slots : forall e x, pres e (set_slots e x). Proof. intros; neutral. Qed.
Lemma pres_set_events : forall e x, pres e (set_events e x). Proof. intros; neutral. Qed.
Lemma pres_set_out : forall e x l, pres e (set_out e x l). Proof. intros; neutral. Qed.
Lemma pres_set_fail : forall e x, pres e (set_fail e x). Proof. intros; neutral. Qed.
Lemma pres_set_gone : forall e, pres e (set_gone e). Proof. intros; neutral. Qed.
Lemma pres_add_event : forall e ev, pres e (add_event e ev). Proof. intros; neutral. Qed.
Lemma pres_upd_queue : forall e k c f, pres e (upd_queue e k c f). Proof. intros; neutral. Qed.
Lemma pres_enqueue_idle : forall e k c i, pres e (enqueue_idle e k c i). Proof. intros; neutral. Qed.
Lemma pres_upd_slot : forall e s f, pres e (upd_slot e s f). Proof. intros; neutral. Qed.
Lemma pres_skip : forall e s, pres e (skip e s). Proof. intros; neutral. Qed.

Lemma pres_emit : forall e h d, pres e (emit e h d).
Proof. intros e h d. unfold emit. destruct (e_gone e); [apply pres_set_fail|]. destruct d; apply pres_set_out. Qed.

Lemma pres_emit_frames : forall ps e k i, pres e (emit_frames e k i ps).
Proof.
  unfold emit_frames. induction ps as [|p ps IH]; intros e k i; cbn [fold_left]; [apply pres_refl|].
  eapply pres_trans; [apply pres_emit|apply IH].
Qed.

Ltac pt := eapply pres_trans.

Lemma pres_emit_data : forall ps e k i, pres e (emit_data e k i ps).
Proof.
  intros. unfold emit_data. pt; [apply pres_emit_frames|]. apply pres_upd_neutral; intros s; reflexivity.
Qed.


(* a frame leaves a stream and its permits return *)
Lemma pres_release_remove : forall e k i s s' a f b,
  get_stream e k i = Some s -> sheld s = a ++ f :: b -> sheld s' = a ++ b -> s_cap s' = s_cap s ->
  pres e (release (upd_stream e k i (fun _ => s')) f).
Proof.
  intros e k i s s' a f b E Hs Hs' Hcap.
  assert (Htc : tcaps (release (upd_stream e k i (fun _ => s')) f) = tcaps e)
    by (change (tcaps (release ?x ?y)) with (tcaps x); apply tcaps_upd_stream; intros s0 E0; congruence). destruct (upd_stream_shape e k i (fun _ => s')) as (H1 & H2 & H3 & H4).
  destruct (held_upd_stream e k i s (fun _ => s') E) as (h1 & h2 & E1 & E2).
  unfold pres. split; [exact H1|]. split; [exact H3|]. split; [exact H4|]. split; [exact Htc|].
  intros [Hd Hst]. unfold ep_ok, abs, release.
  change (e_cfg (set_d ?x ?y)) with (e_cfg x). change (na_of (set_d ?x ?y)) with (na_of x). change (nc_of (set_d ?x ?y)) with (nc_of x).
  change (e_d (set_d ?x ?y)) with y. change (ep_held (set_d ?x ?y)) with (ep_held x).
  rewrite H1, H2, H3, H4, E2, Hs'. split; [exact Hd|].
  eapply FcTrans; [exact Hst|].
  replace (h1 ++ (a ++ b) ++ h2) with ((h1 ++ a) ++ (b ++ h2)) by (rewrite <- !app_assoc; reflexivity).
  apply (FcRelease _ _ _ (abs e) (h1 ++ a) f (b ++ h2)).
  unfold abs; cbn [fc_held]. rewrite E1, Hs, <- !app_assoc. reflexivity.
Qed.

(* a frame is partially consumed in place (moved to the cache) *)
Lemma pres_shrink : forall e k i s s' a f b data',
  get_stream e k i = Some s -> sheld s = a ++ f :: b -> sheld s' = a ++ mkFrame (fkind f) data' (fsize f) :: b ->
  (length data' <= length (fdata f))%nat -> s_cap s' = s_cap s ->
  pres e (upd_stream e k i (fun _ => s')).
Proof.
  intros e k i s s' a f b data' E Hs Hs' Hl Hcap.
  assert (Htc : tcaps (upd_stream e k i (fun _ => s')) = tcaps e) by (apply tcaps_upd_stream; intros s0 E0; congruence). destruct (upd_stream_shape e k i (fun _ => s')) as (H1 & H2 & H3 & H4).
  destruct (held_upd_stream e k i s (fun _ => s') E) as (h1 & h2 & E1 & E2).
  unfold pres. split; [exact H1|]. split; [exact H3|]. split; [exact H4|]. split; [exact Htc|].
  intros [Hd Hst]. unfold ep_ok, abs. rewrite H1, H2, H3, H4, E2, Hs'. split; [exact Hd|].
  eapply FcTrans; [exact Hst|].
  replace (h1 ++ (a ++ mkFrame (fkind f) data' (fsize f) :: b) ++ h2) with ((h1 ++ a) ++ mkFrame (fkind f) data' (fsize f) :: (b ++ h2))
    by (rewrite <- !app_assoc; reflexivity).
  apply (FcShrink _ _ _ (abs e) (h1 ++ a) f (b ++ h2) data'); [|exact Hl].
  unfold abs; cbn [fc_held]. rewrite E1, Hs, <- !app_assoc. reflexivity.
Qed.

(* what one iteration of read_exact does to the frames held by the stream *)
Lemma read_iter_s_held : forall s p s' rel done, read_iter_s s p = RStep s' rel done ->
  (rel = [] /\ sheld s' = sheld s) \/
  (exists f, rel = [f] /\ sheld s = f :: sheld s') \/
  (exists f r data', rel = [] /\ sheld s = f :: r /\ sheld s' = mkFrame (fkind f) data' (fsize f) :: r /\
                     (length data' <= length (fdata f))%nat).
Proof.
  intros s p s' rel done H. unfold read_iter_s in H.
  destruct (s_closed s). { inversion H; subst. left. split; reflexivity. }
  assert (Hgen : forall f s1, sheld s = f :: sheld s1 -> s_cache s1 = None ->
    (if fkind f =? FK_CLOSE then RStep (set_closed s1 true) [f] false
      else if fkind f =? FK_DATA then
        let n := Z.to_nat (Z.min (pr_want p - pr_len p) (Z.of_nat (length (fdata f)))) in
        let got := firstn n (fdata f) in
        let rest := skipn n (fdata f) in
        let p' := mkPread (pr_slot p) (pr_want p) (pr_len p + Z.of_nat n) (got :: pr_chunks p) in
        let s2 := g_chunk (set_pread s1 (Some p')) got in
        let done := pr_len p' =? pr_want p in
        match rest with
        | [] => RStep s2 [f] done
        | _ => RStep (set_cache s2 (Some (mkFrame (fkind f) rest (fsize f)))) [] done
        end
      else RStep s1 [f] false) = RStep s' rel done ->
    (rel = [] /\ sheld s' = sheld s) \/
    (exists f, rel = [f] /\ sheld s = f :: sheld s') \/
    (exists f r data', rel = [] /\ sheld s = f :: r /\ sheld s' = mkFrame (fkind f) data' (fsize f) :: r /\
                       (length data' <= length (fdata f))%nat)).
  { intros f s1 Hh Hc1 HH.
    destruct (fkind f =? FK_CLOSE). { inversion HH; subst. right; left. exists f. split; [reflexivity|exact Hh]. }
    destruct (fkind f =? FK_DATA). 2:{ inversion HH; subst. right; left. exists f. split; [reflexivity|exact Hh]. }
    cbv zeta in HH. set (n := Z.to_nat (Z.min (pr_want p - pr_len p) (Z.of_nat (length (fdata f))))) in *.
    destruct (skipn n (fdata f)) as [|r0 rs] eqn:Esk.
    - inversion HH; subst. right; left. exists f. split; [reflexivity|exact Hh].
    - inversion HH; subst. right; right. exists f, (sheld s1), (r0 :: rs). split; [reflexivity|]. split; [exact Hh|].
      split.
      + unfold sheld. cbn [g_chunk set_g set_cache set_pread s_cache s_inq]. unfold sheld in Hh. rewrite Hc1. reflexivity.
      + rewrite <- Esk, skipn_length. lia. }
  destruct (s_cache s) as [fc|] eqn:Eca.
  - apply (Hgen fc (set_cache s None)); [unfold sheld; cbn [set_cache s_cache s_inq]; rewrite Eca; reflexivity|reflexivity|exact H].
  - destruct (s_inq s) as [|f t] eqn:Eq; [discriminate|].
    apply (Hgen f (set_inq s t)); [unfold sheld; cbn [set_inq s_cache s_inq]; rewrite Eca, Eq; reflexivity|exact Eca|exact H].
Qed.

Lemma pres_complete_read : forall e k i p, pres e (complete_read e k i p).
Proof.
  intros. unfold complete_read. pt; [|apply pres_add_event]. apply pres_upd_neutral; intros s; reflexivity.
Qed.

(* read_exact never touches the capability or the phases of its stream *)
Lemma read_iter_s_ctl : forall s p s' rel done, read_iter_s s p = RStep s' rel done ->
  s_cap s' = s_cap s /\ s_rph s' = s_rph s /\ s_wph s' = s_wph s.
Proof.
  intros s p s' rel done H. unfold read_iter_s in H.
  destruct (s_closed s). { inversion H; subst. auto. }
  assert (Hgen : forall f s1, s_cap s1 = s_cap s /\ s_rph s1 = s_rph s /\ s_wph s1 = s_wph s ->
    (if fkind f =? FK_CLOSE then RStep (set_closed s1 true) [f] false
      else if fkind f =? FK_DATA then
        let n := Z.to_nat (Z.min (pr_want p - pr_len p) (Z.of_nat (length (fdata f)))) in
        let got := firstn n (fdata f) in
        let rest := skipn n (fdata f) in
        let p' := mkPread (pr_slot p) (pr_want p) (pr_len p + Z.of_nat n) (got :: pr_chunks p) in
        let s2 := g_chunk (set_pread s1 (Some p')) got in
        let done := pr_len p' =? pr_want p in
        match rest with
        | [] => RStep s2 [f] done
        | _ => RStep (set_cache s2 (Some (mkFrame (fkind f) rest (fsize f)))) [] done
        end
      else RStep s1 [f] false) = RStep s' rel done ->
    s_cap s' = s_cap s /\ s_rph s' = s_rph s /\ s_wph s' = s_wph s).
  { intros f s1 H1 HH. destruct (fkind f =? FK_CLOSE); [inversion HH; subst; exact H1|].
    destruct (fkind f =? FK_DATA); [|inversion HH; subst; exact H1].
    cbv zeta in HH. destruct (skipn _ (fdata f)); inversion HH; subst; exact H1. }
  destruct (s_cache s) as [fc|]; [apply (Hgen fc (set_cache s None)); [auto|exact H]|].
  destruct (s_inq s) as [|f t]; [discriminate|]. apply (Hgen f (set_inq s t)); [auto|exact H].
Qed.

Lemma pres_read_iter : forall e k i s p e', get_stream e k i = Some s -> read_iter e k i s p = Some e' -> pres e e'.
Proof.
  intros e k i s p e' E H. unfold read_iter in H. destruct (read_iter_s s p) as [|s' rel done] eqn:Er; [discriminate|].
  inversion H; subst e'. clear H.
  assert (Hmain : pres e (fold_left release rel (upd_stream e k i (fun _ => s')))).
  { destruct (read_iter_s_held _ _ _ _ _ Er) as [[-> Hh]|[(f & -> & Hh)|(f & r & data' & -> & Hh & Hh' & Hl)]]; cbn [fold_left].
    - eapply pres_upd_const_neutral; [eassumption|eassumption|apply (read_iter_s_ctl _ _ _ _ _ Er)].
    - apply (pres_release_remove e k i s s' [] f (sheld s')); [exact E|exact Hh|reflexivity|apply (read_iter_s_ctl _ _ _ _ _ Er)].
    - apply (pres_shrink e k i s s' [] f r data'); try assumption. apply (read_iter_s_ctl _ _ _ _ _ Er). }
  destruct done; [|exact Hmain]. destruct (s_pread s'); [|exact Hmain]. pt; [exact Hmain|apply pres_complete_read].
Qed.
(* ---- dispatcher ---- *)
Lemma stream_id_nonneg : forall h, 0 <= stream_id h.
Proof. intros h. unfold stream_id. apply Z.land_nonneg. right. unfold ID_MASK. lia. Qed.

Lemma dstep_disp_ok : forall c na nc d d', disp_ok na nc (d_st d) -> dres_core (dstep c na nc d) = Some d' ->
  disp_ok na nc (d_st d').
Proof.
  intros c na nc d d' Hok H. unfold dstep in H. destruct d as [cnt siz st inp cl cons rcv]. cbn [d_st d_in d_cnt d_siz d_closed] in *.
  destruct st as [|h|h|h len|h len size|]; cbn [disp_ok] in Hok.
  - destruct (split_exact 2 inp) as [[[|b0 [|b1 [|? ?]]] rest]|];
      try (destruct cl; cbn [dres_core] in H; inversion H; subst; exact I).
    destruct (Z.of_nat _ <=? stream_id _) eqn:E; [cbn [dres_core] in H; inversion H; subst; exact I|].
    apply Z.leb_gt in E.
    assert (Hh : hdr_ok na nc (header_of_bytes b0 b1)) by (unfold hdr_ok; split; [apply stream_id_nonneg|exact E]).
    destruct (classify _); cbn [dres_core] in H; inversion H; subst; cbn [take_bytes d_st disp_ok]; try exact Hh; exact I.
  - destruct (split_exact 2 inp) as [[[|b0 [|b1 [|? ?]]] rest]|];
      try (destruct cl; cbn [dres_core] in H; inversion H; subst; exact Hok).
    cbn [dres_core] in H; inversion H; subst. cbn [take_bytes d_st]. destruct (_ =? 0); cbn [disp_ok]; [exact I|exact Hok].
  - destruct (1 <=? cnt); cbn [dres_core] in H; inversion H; subst. exact I.
  - destruct ((1 <=? cnt) && (Z.min len (rfs c) <=? siz)); cbn [dres_core] in H; inversion H; subst. exact Hok.
  - destruct (split_exact (Z.to_nat size) inp) as [[data rest]|].
    + cbn [dres_core] in H; inversion H; subst. cbn [take_bytes d_st]. destruct (_ =? 0); cbn [disp_ok]; [exact I|exact Hok].
    + destruct cl; cbn [dres_core] in H; inversion H; subst. exact Hok.
  - cbn [dres_core] in H. discriminate.
Qed.

Lemma pres_set_d_progress : forall e d, dstep (e_cfg e) (na_of e) (nc_of e) (e_d e) = DProgress d -> pres e (set_d e d).
Proof.
  intros e d H. unfold pres. split; [reflexivity|]. split; [reflexivity|]. split; [reflexivity|]. split; [reflexivity|].
  intros [Hd Hs]. split.
  - apply (dstep_disp_ok (e_cfg e) _ _ (e_d e)); [exact Hd|]. change (na_of (set_d e d)) with (na_of e). change (nc_of (set_d e d)) with (nc_of e).
    rewrite H. reflexivity.
  - eapply FcTrans; [exact Hs|]. apply (FcProgress _ _ _ (abs e) d). exact H.
Qed.

Lemma pres_set_d_failed : forall e d code, dstep (e_cfg e) (na_of e) (nc_of e) (e_d e) = DFailed d code ->
  pres e (set_fail (set_d e d) (Some code)).
Proof.
  intros e d code H. pt; [|apply pres_set_fail]. unfold pres. split; [reflexivity|]. split; [reflexivity|]. split; [reflexivity|]. split; [reflexivity|].
  intros [Hd Hs]. split.
  - apply (dstep_disp_ok (e_cfg e) _ _ (e_d e)); [exact Hd|]. change (na_of (set_d e d)) with (na_of e). change (nc_of (set_d e d)) with (nc_of e).
    rewrite H. reflexivity.
  - eapply FcTrans; [exact Hs|]. apply (FcFail _ _ _ (abs e) d code). exact H.
Qed.

Lemma nth_error_some_lt : forall A (l : list A) i, (i < length l)%nat -> exists x, nth_error l i = Some x.
Proof. intros A l i H. destruct (nth_error l i) eqn:E; [eexists; reflexivity|]. apply nth_error_None in E. lia. Qed.

Lemma pres_deliver : forall e d k i f, dstep (e_cfg e) (na_of e) (nc_of e) (e_d e) = DDeliver d k i f ->
  pres e (deliver (set_d e d) k i f).
Proof.
  intros e d k i f H. unfold deliver.
  destruct (upd_stream_shape (set_d e d) k i (fun s => set_inq s (s_inq s ++ [f]))) as (H1 & H2 & H3 & H4).
  unfold pres. split; [exact H1|]. split; [exact H3|]. split; [exact H4|].
  split; [change (tcaps e) with (tcaps (set_d e d)); apply tcaps_upd_stream; intros s0 _; reflexivity|].
  intros [Hd Hs].
  (* the target exists *)
  destruct (dstep_routing _ _ _ _ _ _ _ _ H) as (h & Hcase & Hk & Hi).
  assert (Hh : hdr_ok (na_of e) (nc_of e) h).
  { destruct Hcase as [(Hst & _)|(len & size & Hst & _)]; rewrite Hst in Hd; exact Hd. }
  assert (Hex : exists s, get_stream (set_d e d) k i = Some s).
  { unfold get_stream, table. change (e_acc (set_d e d)) with (e_acc e). change (e_con (set_d e d)) with (e_con e).
    unfold hdr_ok in Hh. subst k i. destruct (stream_kind h =? SK_ACCEPT); cbn [Z.eqb];
      apply nth_error_some_lt; unfold na_of, nc_of in Hh; lia. }
  destruct Hex as (s & Es).
  destruct (held_upd_stream (set_d e d) k i s (fun s => set_inq s (s_inq s ++ [f])) Es) as (h1 & h2 & E1 & E2).
  change (ep_held (set_d e d)) with (ep_held e) in E1.
  unfold ep_ok, abs. rewrite H1, H2, H3, H4, E2.
  change (e_cfg (set_d e d)) with (e_cfg e). change (na_of (set_d e d)) with (na_of e). change (nc_of (set_d e d)) with (nc_of e).
  change (e_d (set_d e d)) with d. split.
  - apply (dstep_disp_ok (e_cfg e) _ _ (e_d e)); [exact Hd|]. rewrite H. reflexivity.
  - eapply FcTrans; [exact Hs|].
    replace (h1 ++ sheld (set_inq s (s_inq s ++ [f])) ++ h2) with ((h1 ++ sheld s) ++ f :: h2).
    + apply (FcDeliver _ _ _ (abs e) d k i f (h1 ++ sheld s) h2); [exact H|]. unfold abs; cbn [fc_held]. rewrite E1, <- app_assoc. reflexivity.
    + unfold sheld. cbn [set_inq s_cache s_inq]. rewrite <- !app_assoc. reflexivity.
Qed.

Lemma pres_disp_run : forall fuel e, pres e (fst (disp_run fuel e)).
Proof.
  induction fuel as [|fuel IH]; intros e; cbn [disp_run]; [apply pres_refl|].
  fold (na_of e). fold (nc_of e).
  destruct (dstep (e_cfg e) (na_of e) (nc_of e) (e_d e)) as [|d|d k i f|d code] eqn:E; cbn [fst].
  - apply pres_refl.
  - specialize (IH (set_d e d)). destruct (disp_run fuel (set_d e d)) as [e' b]. cbn [fst] in *.
    pt; [apply pres_set_d_progress; exact E|exact IH].
  - apply pres_deliver. exact E.
  - apply pres_set_d_failed. exact E.
Qed.
(* ---- streams, queues ---- *)
Lemma pres_handover : forall e k i slot, pres e (handover e k i slot).
Proof.
  intros. unfold handover. pt; [|apply pres_add_event]. pt; [|apply pres_upd_slot].
  apply pres_upd_neutral; intros s; reflexivity.
Qed.

Lemma pres_stream_step : forall e k i e', stream_step e k i = Some e' -> pres e e'.
Proof.
  intros e k i e' H. unfold stream_step in H. destruct (get_stream e k i) as [s|] eqn:E; [|discriminate].
  assert (Hmain : (match s_rph s, s_wph s with
                   | RReady, WWaitOpen => Some (enqueue_idle (upd_stream e k i (fun s => set_wph s WQueue)) k (s_cap s) i)
                   | RReady, WJoin slot => Some (handover e k i slot)
                   | _, _ => None
                   end) = Some e' -> pres e e').
  { intros Hm. destruct (s_rph s); try discriminate. destruct (s_wph s); try discriminate; inversion Hm; subst e'.
    - pt; [|apply pres_enqueue_idle]. apply pres_upd_neutral; intros s0; reflexivity.
    - apply pres_handover. }
  assert (Hdisc : forall f t, s_inq s = f :: t ->
            pres e (release (upd_stream e k i (fun _ => if fkind f =? FK_OPEN then g_open_seen (set_rph (set_inq s t) RReady) else set_inq s t)) f)).
  { intros f t Eq. apply (pres_release_remove e k i s _ (match s_cache s with Some f0 => [f0] | None => [] end) f t); [exact E| | |].
    - unfold sheld. rewrite Eq. reflexivity.
    - destruct (fkind f =? FK_OPEN); reflexivity.
    - destruct (fkind f =? FK_OPEN); reflexivity. }
  destruct (s_rph s) eqn:Er; destruct (s_inq s) as [|f t] eqn:Eq; destruct (s_pread s) as [p|] eqn:Ep;
    try (eapply pres_read_iter; eassumption); try (apply Hmain; exact H); try discriminate;
    try (inversion H; subst e'; apply Hdisc; reflexivity).
Qed.

Lemma pres_queue_step : forall e q e', queue_step e q = Some e' -> pres e e'.
Proof.
  intros e q e' H. unfold queue_step in H. destruct (q_idle q) as [|i idle]; [discriminate|]. destruct (q_pend q) as [|slot pend]; [discriminate|].
  destruct (q_kind q =? 0); inversion H; subst e'.
  - pt; [|apply pres_handover]. pt; [|apply pres_upd_neutral; intros s; reflexivity]. pt; [apply pres_upd_queue|apply pres_emit].
  - pt; [|apply pres_upd_neutral; intros s; reflexivity]. pt; [apply pres_upd_queue|apply pres_emit].
Qed.

Lemma pres_drain_step : forall e k i e', drain_step e k i = Some e' -> pres e e'.
Proof.
  intros e k i e' H. unfold drain_step in H. destruct (get_stream e k i) as [s|] eqn:E; [|discriminate].
  destruct (s_rph s); try discriminate. destruct (s_pread s) as [p|]; [|discriminate].
  destruct (read_iter e k i s p) as [e1|] eqn:Er; inversion H; subst e'.
  - eapply pres_read_iter; eassumption.
  - apply pres_complete_read.
Qed.

Lemma pres_streams_pass : forall n e k i, pres e (fst (streams_pass e k n i)).
Proof.
  induction n as [|n IH]; intros e k i; cbn [streams_pass]; [apply pres_refl|].
  destruct (stream_step e k i) as [e'|] eqn:E.
  - specialize (IH e' k (S i)). destruct (streams_pass e' k n (S i)) as [e'' b]. cbn [fst] in *.
    pt; [eapply pres_stream_step; exact E|exact IH].
  - apply IH.
Qed.

Lemma pres_drain_pass : forall n e k i, pres e (fst (drain_pass e k n i)).
Proof.
  induction n as [|n IH]; intros e k i; cbn [drain_pass]; [apply pres_refl|].
  destruct (drain_step e k i) as [e'|] eqn:E.
  - specialize (IH e' k (S i)). destruct (drain_pass e' k n (S i)) as [e'' b]. cbn [fst] in *.
    pt; [eapply pres_drain_step; exact E|exact IH].
  - apply IH.
Qed.

Lemma pres_queues_pass : forall qs e, pres e (fst (queues_pass e qs)).
Proof.
  induction qs as [|[k cap] qs IH]; intros e; cbn [queues_pass]; [apply pres_refl|].
  destruct (find _ (e_qs e)) as [q|]; [|apply IH].
  destruct (queue_step e q) as [e'|] eqn:E; [|apply IH].
  specialize (IH e'). destruct (queues_pass e' qs) as [e'' b]. cbn [fst] in *.
  pt; [eapply pres_queue_step; exact E|exact IH].
Qed.

Lemma pres_ep_round : forall e, pres e (fst (ep_round e)).
Proof.
  intros e. unfold ep_round. destruct (e_fail e).
  - pose proof (pres_drain_pass (length (e_acc e)) e 0 0%nat) as P1.
    destruct (drain_pass e 0 (length (e_acc e)) 0) as [e2 p2]. cbn [fst] in P1.
    pose proof (pres_drain_pass (length (e_con e2)) e2 1 0%nat) as P2.
    destruct (drain_pass e2 1 (length (e_con e2)) 0) as [e3 p3]. cbn [fst] in *. pt; eassumption.
  - pose proof (pres_disp_run 4 e) as P1. destruct (disp_run 4 e) as [e1 p1]. cbn [fst] in P1.
    pose proof (pres_streams_pass (length (e_acc e1)) e1 0 0%nat) as P2.
    destruct (streams_pass e1 0 (length (e_acc e1)) 0) as [e2 p2]. cbn [fst] in P2.
    pose proof (pres_streams_pass (length (e_con e2)) e2 1 0%nat) as P3.
    destruct (streams_pass e2 1 (length (e_con e2)) 0) as [e3 p3]. cbn [fst] in P3.
    pose proof (pres_queues_pass (map (fun q => (q_kind q, q_cap q)) (e_qs e3)) e3) as P4.
    destruct (queues_pass e3 _) as [e4 p4]. cbn [fst] in *.
    pt; [exact P1|]. pt; [exact P2|]. pt; [exact P3|exact P4].
Qed.

(* ---- application operations ---- *)
Lemma pres_after_close : forall e k i, pres e (after_close e k i).
Proof.
  intros. unfold after_close. destruct (get_stream e k i) as [s|]; [|apply pres_refl].
  destruct (k =? 0).
  - apply pres_upd_neutral; intros s0; reflexivity.
  - pt; [|apply pres_enqueue_idle]. apply pres_upd_neutral; intros s0; reflexivity.
Qed.

Lemma pres_send_close : forall e k i, pres e (send_close e k i).
Proof.
  intros. unfold send_close. destruct (get_stream e k i) as [s|]; [|apply pres_refl].
  pt; [|apply pres_after_close]. pt; [|apply pres_emit]. pt; [|apply pres_upd_neutral; intros s0; reflexivity].
  destruct (s_wbuf s); [apply pres_refl|apply pres_emit_data].
Qed.

Lemma pres_initial_close : forall n e k i, pres e (initial_close e k n i).
Proof.
  induction n as [|n IH]; intros e k i; cbn [initial_close]; [apply pres_refl|]. pt; [apply pres_send_close|apply IH].
Qed.

Lemma upd_nth_const_at : forall A (f : A -> A) (l : list A) i s, nth_error l i = Some s ->
  upd_nth i f l = upd_nth i (fun _ => f s) l.
Proof.
  intros A f. induction l as [|x l IH]; intros i s H; [destruct i; discriminate|].
  destruct i; cbn [nth_error upd_nth] in *; [inversion H; reflexivity|]. rewrite (IH i s H). reflexivity.
Qed.

Lemma upd_stream_const : forall e k i s f, get_stream e k i = Some s ->
  upd_stream e k i f = upd_stream e k i (fun _ => f s).
Proof.
  intros e k i s f H. unfold get_stream, table in H. unfold upd_stream, set_table, table.
  destruct (k =? 0); rewrite (upd_nth_const_at _ f _ _ _ H); reflexivity.
Qed.

Lemma upd_stream_release : forall e f k i g, upd_stream (release e f) k i g = release (upd_stream e k i g) f.
Proof. intros. unfold release, upd_stream, set_table, table. destruct (k =? 0); reflexivity. Qed.

Lemma pres_slot_op : forall e o r, pres e (slot_op e o r).
Proof.
  intros e o r. unfold slot_op. destruct (sl_sid r) as [i|]; [|apply pres_skip].
  destruct (get_stream e (sl_kind r) i) as [s|] eqn:E; [|apply pres_skip].
  destruct o; try apply pres_refl.
  - (* write *) destruct (sl_w r); [|apply pres_skip]. unfold op_write. destruct (write_all _ _ _) as [frames buf].
    pt; [|apply pres_upd_slot]. pt; [apply pres_emit_data|]. apply pres_upd_neutral; intros s0; reflexivity.
  - (* flush *) destruct (sl_w r); [|apply pres_skip]. unfold op_flush. destruct (s_wbuf s); [apply pres_refl|].
    pt; [apply pres_emit_data|]. apply pres_upd_neutral; intros s0; reflexivity.
  - (* read *) destruct (sl_r r && negb _); [|apply pres_skip]. unfold op_read. apply pres_upd_neutral; intros s0; reflexivity.
  - (* dropw *) destruct (sl_w r); [|apply pres_skip]. unfold op_dropw. pt; [apply pres_upd_slot|apply pres_send_close].
  - (* dropr *) destruct (sl_r r && negb _); [|apply pres_skip]. unfold op_dropr.
    pt; [apply pres_upd_slot|].
    set (e1 := upd_slot e (sl_id r) _).
    assert (E1 : get_stream e1 (sl_kind r) i = Some s) by exact E.
    destruct (s_cache s) as [f|] eqn:Ec.
    + rewrite upd_stream_release. rewrite (upd_stream_const e1 (sl_kind r) i s _ E1).
      apply (pres_release_remove e1 (sl_kind r) i s _ [] f (s_inq s)); [exact E1| | |].
      * unfold sheld. rewrite Ec. reflexivity.
      * reflexivity.
      * reflexivity.
    + rewrite (upd_stream_const e1 (sl_kind r) i s _ E1). apply (pres_upd_const_neutral e1 (sl_kind r) i s); [exact E1| |reflexivity].
      unfold sheld. cbn [set_closed set_cache set_rph s_cache s_inq]. rewrite Ec. reflexivity.
Qed.
Lemma pres_op_open : forall e kind cap slot, pres e (op_open e kind cap slot).
Proof. intros. unfold op_open. pt; [apply pres_set_slots|apply pres_upd_queue]. Qed.

Lemma pres_feed : forall e bs, pres e (set_d e (feed (e_d e) bs)).
Proof.
  intros e bs. unfold pres. split; [reflexivity|]. split; [reflexivity|]. split; [reflexivity|]. split; [reflexivity|].
  intros [Hd Hs]. split; [exact Hd|]. eapply FcTrans; [exact Hs|]. apply (FcFeed _ _ _ (abs e) bs).
Qed.

Lemma pres_close_in : forall e, pres e (set_d e (close_in (e_d e))).
Proof.
  intros e. unfold pres. split; [reflexivity|]. split; [reflexivity|]. split; [reflexivity|]. split; [reflexivity|].
  intros [Hd Hs]. split; [exact Hd|]. eapply FcTrans; [exact Hs|]. apply (FcClose _ _ _ (abs e)).
Qed.

(* ---- start of Mux::run ---- *)
Lemma theld_new : forall l, theld (map new_stream l) = [].
Proof. induction l as [|c l IH]; [reflexivity|]. cbn [map theld flat_map]. fold (theld (map new_stream l)). rewrite IH. reflexivity. Qed.

Lemma ep_init_ok : forall c acc con pacc pcon,
  ep_ok (ep_init c acc con pacc pcon) /\ e_cfg (ep_init c acc con pacc pcon) = c.
Proof.
  intros c acc con pacc pcon. unfold ep_init.
  set (qs := _ ++ _). set (e0 := mkEp c (init_d c) [] [] qs [] [] false [] [] None).
  assert (H0 : ep_ok e0) by (split; [exact I|apply FcRefl]).
  destruct (negb (mux_verify c (bt_of_list acc) (bt_of_list con))).
  { destruct (pres_set_fail e0 (Some 1)) as (Hc & _ & _ & _ & Hk). split; [apply Hk; exact H0|exact Hc]. }
  destruct (has_dup_keys pacc || has_dup_keys pcon).
  { destruct (pres_set_fail e0 (Some ERR_PROTOCOL)) as (Hc & _ & _ & _ & Hk). split; [apply Hk; exact H0|exact Hc]. }
  set (sa := map new_stream _). set (sc := map new_stream _).
  set (e1 := set_con (set_acc e0 sa) sc).
  assert (H1 : ep_ok e1).
  { split; [exact I|]. unfold abs, ep_held. cbn [e1 set_con set_acc e_acc e_con e_d e_cfg e0]. unfold sa, sc. rewrite !theld_new. apply FcRefl. }
  pose proof (pres_initial_close (length sa) e1 0 0%nat) as P1.
  pose proof (pres_initial_close (length sc) (initial_close e1 0 (length sa) 0) 1 0%nat) as P2.
  destruct (pres_trans _ _ _ P1 P2) as (Hc & _ & _ & _ & Hk). split; [apply Hk; exact H1|exact Hc].
Qed.

(* ---- the two-sided system ---- *)
Definition spres (s s' : sys) : Prop := pres (sA s) (sA s') /\ pres (sB s) (sB s').

Lemma spres_refl : forall s, spres s s. Proof. intros; split; apply pres_refl. Qed.
Lemma spres_trans : forall s1 s2 s3, spres s1 s2 -> spres s2 s3 -> spres s1 s3.
Proof. intros s1 s2 s3 [A1 B1] [A2 B2]. split; eapply pres_trans; eassumption. Qed.

Lemma spres_apply_op : forall s o, spres s (apply_op s o).
Proof.
  intros s o. unfold apply_op, raw_feed.
  destruct o; cbn [op_slot];
    repeat match goal with
    | |- spres _ (if ?b then _ else _) => destruct b
    | |- spres _ (match ?x with Some _ => _ | None => _ end) => destruct x
    end;
    split; cbn [sA sB]; try apply pres_refl; try apply pres_skip; try apply pres_op_open; try apply pres_slot_op; try apply pres_feed.
  pt; [apply pres_close_in|apply pres_set_gone].
Qed.
Lemma spres_transfer : forall s, spres s (transfer s).
Proof.
  intros s. unfold transfer. destruct (s_raw s).
  - split; cbn [sA sB]; [apply pres_refl|apply pres_set_out].
  - split; cbn [sA sB].
    + destruct (e_out (sB s)); [apply pres_set_out|]. pt; [apply pres_feed|apply pres_set_out].
    + destruct (e_out (sA s)); [apply pres_set_out|]. pt; [apply pres_feed|apply pres_set_out].
Qed.

Lemma pres_disp_burst : forall fuel e e', disp_burst fuel e = Some e' -> pres e e'.
Proof.
  induction fuel as [|fuel IH]; intros e e' H; cbn [disp_burst] in H; [discriminate|].
  fold (na_of e) in H. fold (nc_of e) in H.
  destruct (dstep (e_cfg e) (na_of e) (nc_of e) (e_d e)) as [|d|d k i f|d code] eqn:E.
  - discriminate.
  - pt; [apply pres_set_d_progress; exact E|apply IH; exact H].
  - pt; [apply pres_deliver; exact E|apply IH; exact H].
  - inversion H; subst e'. apply pres_set_d_failed. exact E.
Qed.

Lemma pres_raw_round : forall e, pres e (fst (raw_round e)).
Proof.
  intros e. unfold raw_round. destruct (e_fail e); [apply pres_ep_round|].
  destruct (disp_burst (burst_fuel e) e) as [e'|] eqn:E; [cbn [fst]; eapply pres_disp_burst; exact E|apply pres_ep_round].
Qed.

Lemma spres_settle_round : forall s, spres s (fst (settle_round s)).
Proof.
  intros s. unfold settle_round. eapply spres_trans; [apply spres_transfer|].
  set (s1 := transfer s).
  pose proof (pres_ep_round (sA s1)) as PA. pose proof (pres_ep_round (sB s1)) as PB. pose proof (pres_raw_round (sB s1)) as PR.
  destruct (s_raw s1).
  - destruct (raw_round (sB s1)) as [b pb]. cbn [fst]. split; cbn [sA sB]; [apply pres_refl|exact PR].
  - destruct (ep_round (sB s1)) as [b pb]. destruct (ep_round (sA s1)) as [a pa]. cbn [fst]. split; cbn [sA sB]; assumption.
Qed.

Lemma spres_iter_until : forall p s, spres s (fst (iter_until p s)).
Proof.
  induction p as [p IH|p IH|]; intros s; cbn [iter_until].
  - pose proof (spres_settle_round s) as P0. destruct (settle_round s) as [s0 c0]. cbn [fst] in P0.
    destruct c0; [|exact P0].
    pose proof (IH s0) as P1. destruct (iter_until p s0) as [s1 c]. cbn [fst] in P1.
    destruct c.
    + pose proof (IH s1) as P2. destruct (iter_until p s1) as [s2 c2]. cbn [fst] in *.
      eapply spres_trans; [exact P0|]. eapply spres_trans; eassumption.
    + cbn [fst]. eapply spres_trans; eassumption.
  - pose proof (IH s) as P1. destruct (iter_until p s) as [s1 c]. cbn [fst] in P1.
    destruct c; [|exact P1].
    pose proof (IH s1) as P2. destruct (iter_until p s1) as [s2 c2]. cbn [fst] in *. eapply spres_trans; eassumption.
  - apply spres_settle_round.
Qed.

Lemma spres_settle : forall p s, spres s (settle p s).
Proof. intros. unfold settle. apply spres_iter_until. Qed.

Lemma spres_clear_obs : forall s, spres s (clear_obs s).
Proof. intros s. unfold clear_obs. split; cbn [sA sB]; (pt; [apply pres_set_out|apply pres_set_events]). Qed.

(* one application operation followed by the drain to quiescence *)
Definition step_sys (s : sys) (o : op) : sys :=
  let s1 := apply_op (clear_obs s) o in settle (settle_fuel s1) s1.
Definition sys_start (raw : bool) (a b : side_cfg) : sys :=
  let s0 := sys_init raw a b in settle (settle_fuel s0) s0.
Definition reachable (raw : bool) (a b : side_cfg) (s : sys) : Prop :=
  exists ops, s = fold_left step_sys ops (sys_start raw a b).

Lemma spres_step_sys : forall s o, spres s (step_sys s o).
Proof.
  intros. unfold step_sys. eapply spres_trans; [apply spres_clear_obs|]. eapply spres_trans; [apply spres_apply_op|apply spres_settle].
Qed.

Lemma spres_fold : forall ops s, spres s (fold_left step_sys ops s).
Proof.
  induction ops as [|o ops IH]; intros s; cbn [fold_left]; [apply spres_refl|].
  eapply spres_trans; [apply spres_step_sys|apply IH].
Qed.

Lemma dummy_ok : ep_ok dummy_ep.
Proof. split; [exact I|apply FcRefl]. Qed.

Lemma sys_init_ok : forall raw a b,
  let s := sys_init raw a b in
  ep_ok (sB s) /\ e_cfg (sB s) = sd_cfg b /\ ep_ok (sA s) /\ (raw = false -> e_cfg (sA s) = sd_cfg a).
Proof.
  intros raw a b. unfold sys_init. cbn [sA sB].
  destruct (ep_init_ok (sd_cfg b) (sd_acc b) (sd_con b) (if raw then sd_acc a else bt_of_list (sd_acc a)) (if raw then sd_con a else bt_of_list (sd_con a))) as [Hb Hcb].
  split; [exact Hb|]. split; [exact Hcb|].
  destruct raw.
  - split; [apply dummy_ok|discriminate].
  - destruct (ep_init_ok (sd_cfg a) (sd_acc a) (sd_con a) (bt_of_list (sd_acc b)) (bt_of_list (sd_con b))) as [Ha Hca].
    split; [exact Ha|intros _; exact Hca].
Qed.

(* every reachable state of the executable system: both endpoints are reachable states of the
   flow-control transition system, with the configured limits *)
Theorem reachable_refines : forall raw a b s, reachable raw a b s ->
  ep_ok (sB s) /\ e_cfg (sB s) = sd_cfg b /\ ep_ok (sA s) /\ (raw = false -> e_cfg (sA s) = sd_cfg a).
Proof.
  intros raw a b s [ops ->].
  destruct (sys_init_ok raw a b) as (Hb & Hcb & Ha & Hca).
  assert (P : spres (sys_init raw a b) (fold_left step_sys ops (sys_start raw a b))).
  { eapply spres_trans; [apply spres_settle|apply spres_fold]. }
  destruct P as [(A1 & _ & _ & _ & A4) (B1 & _ & _ & _ & B4)].
  split; [apply B4; exact Hb|]. split; [congruence|]. split; [apply A4; exact Ha|]. intros Hr. rewrite A1. apply Hca. exact Hr.
Qed.

Definition cfg_nonneg (c : cfg) : Prop := 0 <= rfs c /\ 0 <= rbs c /\ 0 <= rfc c.

Lemma ep_ok_bounded : forall e, cfg_nonneg (e_cfg e) -> ep_ok e ->
  sum_data (ep_held e) + infl_s (d_st (e_d e)) <= rbs (e_cfg e) /\
  Z.of_nat (length (ep_held e)) + infl_c (d_st (e_d e)) <= rfc (e_cfg e) /\
  Forall (fun f => Z.of_nat (length (fdata f)) <= rfs (e_cfg e)) (ep_held e).
Proof.
  intros e (H1 & H2 & H3) [_ Hs].
  destruct (buffer_bounded_lts _ _ _ _ H1 H2 H3 Hs) as (B1 & B2 & B3 & _). cbn [abs fc_held fc_d] in *. auto.
Qed.

(* C14 buffer_bounded for the executable endpoint model: any script, any raw peer *)
Theorem endpoint_buffer_bounded : forall raw a b s, cfg_nonneg (sd_cfg b) -> reachable raw a b s ->
  sum_data (ep_held (sB s)) + infl_s (d_st (e_d (sB s))) <= rbs (sd_cfg b) /\
  Z.of_nat (length (ep_held (sB s))) + infl_c (d_st (e_d (sB s))) <= rfc (sd_cfg b) /\
  Forall (fun f => Z.of_nat (length (fdata f)) <= rfs (sd_cfg b)) (ep_held (sB s)).
Proof.
  intros raw a b s Hc Hr. destruct (reachable_refines raw a b s Hr) as (Hb & Hcb & _).
  rewrite <- Hcb in *. apply ep_ok_bounded; assumption.
Qed.

Theorem endpoint_buffer_bounded_A : forall a b s, cfg_nonneg (sd_cfg a) -> reachable false a b s ->
  sum_data (ep_held (sA s)) + infl_s (d_st (e_d (sA s))) <= rbs (sd_cfg a) /\
  Z.of_nat (length (ep_held (sA s))) + infl_c (d_st (e_d (sA s))) <= rfc (sd_cfg a) /\
  Forall (fun f => Z.of_nat (length (fdata f)) <= rfs (sd_cfg a)) (ep_held (sA s)).
Proof.
  intros a b s Hc Hr. destruct (reachable_refines false a b s Hr) as (_ & _ & Ha & Hca).
  rewrite <- (Hca eq_refl) in *. apply ep_ok_bounded; assumption.
Qed.
