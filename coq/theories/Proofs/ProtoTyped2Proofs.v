(* Per type: the built message is well formed for the generated schema (lemmas wf_X), read inverts
   build on dynamic messages (rt_X), hence decode_T (encode_T v) = Ok v through the bytes (bytes_X),
   for every value of the domain whose encoding is below 4 GiB. *)
From Coq Require Import String ZArith List Bool Lia Sorting.Sorted Permutation.
From EC Require Import Lib.Outcome Model.Wire Model.ProtoSchema Model.ProtoTyped Model.ProtoTyped2 Gen.Schema.
From EC Require Import Proofs.WireProofs Proofs.ProtoSchemaProofs Proofs.ProtoCanonProofs Proofs.ProtoTypedProofs
  Proofs.ProtoBytesProofs.
Import ListNotations.
Open Scope list_scope.
Open Scope Z_scope.

Definition u64 (x : Z) : Prop := 0 <= x < two64.

Lemma ovals_length : forall (A : Type) (f : A -> dval) (o : option A), (length (ovals f o) <= 1)%nat.
Proof. intros A f [a|]; cbn; lia. Qed.

(* one segment: its field exists, cardinality, then the values *)
Ltac seg :=
  eexists; split; [reflexivity|]; split;
  [first [right; cbn [snd length]; lia | right; apply ovals_length | left; reflexivity]|]; cbn [snd].
Ltac vs := unfold val_struct; cbn [fkind wire_of_kind].
Ltac segs_sorted := cbn [seg_sorted]; repeat split; lia.
(* all segments: leaves one goal [Forall (val_struct ..) values] per segment *)
Ltac segs := repeat (apply Forall_cons; [seg|]); try apply Forall_nil.
(* a segment with exactly one value: leaves the goal for that value *)
Ltac one := apply Forall_cons; [vs | apply Forall_nil].
Ltac wff := eapply wf_flatten; [reflexivity | segs_sorted | segs].

(* accessors on a flattened message *)
Ltac ga :=
  unfold sub, sub_rep, read_opt; unfold req_var, req_bytes, req_msg, opt_msg, opt_bytes; unfold get1;
  rewrite ?get_all_flatten; cbn [flat_map fst snd Z.eqb Pos.eqb app]; rewrite ?app_nil_r;
  cbn [map last bind ovals].
Ltac pk :=
  unfold pick, flatten; cbn [flat_map map fst snd filter existsb Z.eqb Pos.eqb orb app last].

(* ================= part 1: the types of Model/ProtoTyped.v ================= *)

(* ---- Duration / Timestamp ---- *)
Lemma of_i64_u64 : forall x, u64 (of_i64 x).
Proof. intros x. unfold u64, of_i64, two64. apply Z.mod_pos_bound. lia. Qed.

Lemma wf_duration : forall chk tn d, build_duration chk tn = Ok d -> wf schema idx_zksync_std_Duration d.
Proof.
  intros chk tn d H. unfold build_duration in H.
  assert (Hgen : forall a b, wf schema idx_zksync_std_Duration [(1, DVar (of_i64 a)); (2, DVar (of_i64 b))]).
  { intros a b. change [(1, DVar (of_i64 a)); (2, DVar (of_i64 b))] with (flatten [(1, [DVar (of_i64 a)]); (2, [DVar (of_i64 b)])]).
    wff; one; apply of_i64_u64. }
  destruct (Z.rem tn NS <? 0); [destruct (Z.quot tn NS =? i64_min); [destruct chk; [discriminate|]|]|];
    inversion H; subst; apply Hgen.
Qed.

Lemma wf_timestamp : forall chk tn d, build_duration chk tn = Ok d -> wf schema idx_zksync_std_Timestamp d.
Proof.
  intros chk tn d H. unfold build_duration in H.
  assert (Hgen : forall a b, wf schema idx_zksync_std_Timestamp [(1, DVar (of_i64 a)); (2, DVar (of_i64 b))]).
  { intros a b. change [(1, DVar (of_i64 a)); (2, DVar (of_i64 b))] with (flatten [(1, [DVar (of_i64 a)]); (2, [DVar (of_i64 b)])]).
    wff; one; apply of_i64_u64. }
  destruct (Z.rem tn NS <? 0); [destruct (Z.quot tn NS =? i64_min); [destruct chk; [discriminate|]|]|];
    inversion H; subst; apply Hgen.
Qed.

(* the total builder used inside composite messages *)
Lemma build_ts_ok : forall tn, dur_dom tn ->
  build_timestamp true tn = Ok (build_ts tn) /\ read_timestamp (build_ts tn) = Ok tn /\
  wf schema idx_zksync_std_Timestamp (build_ts tn).
Proof.
  intros tn H. destruct (roundtrip_duration true tn H) as [d [Hb Hr]].
  unfold build_ts, build_timestamp, read_timestamp. rewrite Hb. repeat split; [exact Hr|].
  eapply wf_timestamp; exact Hb.
Qed.

Theorem bytes_duration : forall chk tn, dur_dom tn ->
  exists d, build_duration chk tn = Ok d /\
    (small (canon schema idx_zksync_std_Duration d) ->
     decode idx_zksync_std_Duration read_duration (canon schema idx_zksync_std_Duration d) = Ok tn).
Proof.
  intros chk tn H. destruct (roundtrip_duration chk tn H) as [d [Hb Hr]]. exists d. split; [exact Hb|].
  intros Hs. apply (bytes_roundtrip Z idx_zksync_std_Duration (fun _ => d) read_duration tn); try assumption.
  eapply wf_duration; exact Hb.
Qed.

Theorem bytes_timestamp : forall chk tn, dur_dom tn ->
  exists d, build_timestamp chk tn = Ok d /\
    (small (canon schema idx_zksync_std_Timestamp d) ->
     decode idx_zksync_std_Timestamp read_timestamp (canon schema idx_zksync_std_Timestamp d) = Ok tn).
Proof.
  intros chk tn H. destruct (roundtrip_duration chk tn H) as [d [Hb Hr]]. exists d. split; [exact Hb|].
  intros Hs. apply (bytes_roundtrip Z idx_zksync_std_Timestamp (fun _ => d) read_timestamp tn); try assumption.
  eapply wf_timestamp; exact Hb.
Qed.

(* ---- SocketAddr, BitVector, hashes, keys ---- *)
Lemma wf_sockaddr : forall a, sockaddr_dom a -> wf schema idx_zksync_std_SocketAddr (build_sockaddr a).
Proof.
  intros [ip port] [_ Hp]. cbn [sa_port] in Hp.
  change (build_sockaddr _) with (flatten [(1, [DBytes ip]); (2, [DVar port])]).
  wff; one; [exact I | unfold two64; lia].
Qed.

Theorem bytes_sockaddr : forall a, sockaddr_dom a -> small (encode idx_zksync_std_SocketAddr build_sockaddr a) ->
  decode idx_zksync_std_SocketAddr read_sockaddr (encode idx_zksync_std_SocketAddr build_sockaddr a) = Ok a.
Proof. intros a H Hs. apply bytes_roundtrip; [apply wf_sockaddr | | apply roundtrip_sockaddr]; assumption. Qed.

Definition bits_ok (l : list bool) : Prop := Z.of_nat (length l) < two64.

Lemma wf_bitvec : forall l, bits_ok l -> wf schema idx_zksync_std_BitVector (build_bitvec l).
Proof.
  intros l H. change (build_bitvec l) with (flatten [(1, [DVar (Z.of_nat (length l))]); (2, [DBytes (bits_to_bytes l)])]).
  wff; one; [unfold bits_ok in H; lia | exact I].
Qed.

Theorem bytes_bitvec : forall l, bits_ok l -> small (encode idx_zksync_std_BitVector build_bitvec l) ->
  decode idx_zksync_std_BitVector read_bitvec (encode idx_zksync_std_BitVector build_bitvec l) = Ok l.
Proof. intros l H Hs. apply bytes_roundtrip; [apply wf_bitvec; assumption | assumption | apply roundtrip_bitvec]. Qed.

(* GenesisHash, PayloadHash, MsgHash have the same shape *)
Lemma wf_genesis_hash : forall h, wf schema idx_zksync_roles_validator_GenesisHash (build_hash h).
Proof.
  intros h. change (build_hash h) with (flatten [(1, [DBytes h])]).
  wff; one; exact I.
Qed.
Lemma wf_payload_hash : forall h, wf schema idx_zksync_roles_validator_PayloadHash (build_hash h).
Proof.
  intros h. change (build_hash h) with (flatten [(1, [DBytes h])]).
  wff; one; exact I.
Qed.
Lemma wf_msg_hash : forall h, wf schema idx_zksync_roles_validator_MsgHash (build_hash h).
Proof.
  intros h. change (build_hash h) with (flatten [(1, [DBytes h])]).
  wff; one; exact I.
Qed.

Theorem bytes_hash : forall h, length h = 32%nat -> small (encode idx_zksync_roles_validator_GenesisHash build_hash h) ->
  decode idx_zksync_roles_validator_GenesisHash read_hash (encode idx_zksync_roles_validator_GenesisHash build_hash h) = Ok h.
Proof. intros h H Hs. apply bytes_roundtrip; [apply wf_genesis_hash | assumption | apply roundtrip_hash; assumption]. Qed.

Lemma wf_agg_sig : forall s, wf schema idx_zksync_roles_validator_AggregateSignature (build_sig s).
Proof.
  intros s. change (build_sig s) with (flatten [(1, [DBytes s])]).
  wff; one; exact I.
Qed.

(* ---- View ... TimeoutQC ---- *)
Definition view_ok (v : View) : Prop := view_dom v /\ u64 (v_number v) /\ u64 (v_epoch v).
Definition header_ok (h : BlockHeader) : Prop := header_dom h /\ u64 (bh_number h).
Definition commit_ok (c : ReplicaCommit) : Prop := view_ok (rc_view c) /\ header_ok (rc_proposal c).

Lemma commit_ok_dom : forall c, commit_ok c -> commit_dom c.
Proof. intros c [[Hv _] [Hh _]]. split; assumption. Qed.

Lemma wf_view : forall v, view_ok v -> wf schema idx_zksync_roles_validator_ViewV2 (build_view v).
Proof.
  intros [g n e] [_ [Hn He]]. cbn [v_number v_epoch] in *.
  change (build_view _) with (flatten [(1, [DMsg (build_hash g)]); (2, [DVar n]); (3, [DVar e])]).
  wff; one; [apply wf_genesis_hash | exact Hn | exact He].
Qed.

Lemma wf_header : forall h, header_ok h -> wf schema idx_zksync_roles_validator_BlockHeaderV2 (build_header h).
Proof.
  intros [n p] [_ Hn]. cbn [bh_number] in *.
  change (build_header _) with (flatten [(1, [DVar n]); (2, [DMsg (build_hash p)])]).
  wff; one; [exact Hn | apply wf_payload_hash].
Qed.

Lemma wf_commit : forall c, commit_ok c -> wf schema idx_zksync_roles_validator_ReplicaCommitV2 (build_commit c).
Proof.
  intros [v p] [Hv Hp]. cbn [rc_view rc_proposal] in *.
  change (build_commit _) with (flatten [(1, [DMsg (build_view v)]); (2, [DMsg (build_header p)])]).
  wff; one; [apply wf_view | apply wf_header]; assumption.
Qed.

Section P1.
  Variable sig_ok : bytes -> bool.

  Definition commit_qc_ok (q : CommitQC) : Prop :=
    commit_ok (cq_msg q) /\ bits_ok (cq_signers q) /\ sig_ok (cq_sig q) = true.
  Definition timeout_ok (t : ReplicaTimeout) : Prop :=
    view_ok (rt_view t) /\ opt_dom commit_ok (rt_high_vote t) /\ opt_dom commit_qc_ok (rt_high_qc t).
  Definition timeout_qc_ok (q : TimeoutQC) : Prop :=
    view_ok (tq_view q) /\ tmap_sorted (tq_map q) /\
    Forall (fun e => timeout_ok (fst e) /\ bits_ok (snd e)) (tq_map q) /\ sig_ok (tq_sig q) = true.

  Lemma commit_qc_ok_dom : forall q, commit_qc_ok q -> commit_qc_dom sig_ok q.
  Proof. intros q [Hc [_ Hs]]. split; [apply commit_ok_dom; assumption | assumption]. Qed.

  Lemma timeout_ok_dom : forall t, timeout_ok t -> timeout_dom sig_ok t.
  Proof.
    intros [v hv hq] [[Hv _] [H1 H2]]. cbn [rt_view rt_high_vote rt_high_qc] in *. repeat split; [assumption | |].
    - destruct hv; cbn [opt_dom] in *; [apply commit_ok_dom; assumption | exact I].
    - destruct hq; cbn [opt_dom] in *; [apply commit_qc_ok_dom; assumption | exact I].
  Qed.

  Lemma timeout_qc_ok_dom : forall q, timeout_qc_ok q -> timeout_qc_dom sig_ok q.
  Proof.
    intros [v m g] [[Hv _] [Hs [Hm Hg]]]. cbn [tq_view tq_map tq_sig] in *. repeat split; try assumption.
    eapply Forall_impl; [|exact Hm]. intros e [He _]. apply timeout_ok_dom. exact He.
  Qed.

  Lemma wf_commit_qc : forall q, commit_qc_ok q -> wf schema idx_zksync_roles_validator_CommitQCV2 (build_commit_qc q).
  Proof.
    intros [m s g] [Hm [Hs _]]. cbn [cq_msg cq_signers cq_sig] in *.
    change (build_commit_qc _) with
      (flatten [(1, [DMsg (build_commit m)]); (2, [DMsg (build_bitvec s)]); (3, [DMsg (build_sig g)])]).
    wff; one; [apply wf_commit | apply wf_bitvec | apply wf_agg_sig]; assumption.
  Qed.

  Lemma build_timeout_flat : forall t, build_timeout t =
    flatten [(1, [DMsg (build_view (rt_view t))]);
             (2, ovals (fun c => DMsg (build_commit c)) (rt_high_vote t));
             (3, ovals (fun q => DMsg (build_commit_qc q)) (rt_high_qc t))].
  Proof. intros [v [c|] [q|]]; reflexivity. Qed.

  Lemma wf_timeout : forall t, timeout_ok t -> wf schema idx_zksync_roles_validator_ReplicaTimeoutV2 (build_timeout t).
  Proof.
    intros t [Hv [Hc Hq]]. rewrite build_timeout_flat.
    wff.
    - one. apply wf_view. assumption.
    - destruct (rt_high_vote t); cbn [ovals opt_dom] in *; [one; apply wf_commit; assumption | apply Forall_nil].
    - destruct (rt_high_qc t); cbn [ovals opt_dom] in *; [one; apply wf_commit_qc; assumption | apply Forall_nil].
  Qed.

  Lemma build_timeout_qc_flat : forall q, build_timeout_qc q =
    flatten [(1, [DMsg (build_view (tq_view q))]);
             (2, map (fun e => DMsg (build_timeout (fst e))) (tq_map q));
             (3, map (fun e => DMsg (build_bitvec (snd e))) (tq_map q));
             (4, [DMsg (build_sig (tq_sig q))])].
  Proof.
    intros q. unfold build_timeout_qc, flatten. cbn [flat_map fst snd map app].
    rewrite !map_map. reflexivity.
  Qed.

  Lemma wf_timeout_qc : forall q, timeout_qc_ok q -> wf schema idx_zksync_roles_validator_TimeoutQCV2 (build_timeout_qc q).
  Proof.
    intros q [Hv [_ [Hm _]]]. rewrite build_timeout_qc_flat.
    wff.
    - one. apply wf_view. assumption.
    - apply Forall_val_map. eapply Forall_impl; [|exact Hm]. intros e [He _]. vs. apply wf_timeout. exact He.
    - apply Forall_val_map. eapply Forall_impl; [|exact Hm]. intros e [_ He]. vs. apply wf_bitvec. exact He.
    - one. apply wf_agg_sig.
  Qed.
End P1.

Theorem bytes_view : forall v, view_ok v -> small (encode idx_zksync_roles_validator_ViewV2 build_view v) ->
  decode idx_zksync_roles_validator_ViewV2 read_view (encode idx_zksync_roles_validator_ViewV2 build_view v) = Ok v.
Proof. intros v H Hs. apply bytes_roundtrip; [apply wf_view; assumption | assumption | apply roundtrip_view; apply H]. Qed.

Theorem bytes_header : forall h, header_ok h -> small (encode idx_zksync_roles_validator_BlockHeaderV2 build_header h) ->
  decode idx_zksync_roles_validator_BlockHeaderV2 read_header (encode idx_zksync_roles_validator_BlockHeaderV2 build_header h) = Ok h.
Proof. intros h H Hs. apply bytes_roundtrip; [apply wf_header; assumption | assumption | apply roundtrip_header; apply H]. Qed.

Theorem bytes_commit : forall c, commit_ok c -> small (encode idx_zksync_roles_validator_ReplicaCommitV2 build_commit c) ->
  decode idx_zksync_roles_validator_ReplicaCommitV2 read_commit (encode idx_zksync_roles_validator_ReplicaCommitV2 build_commit c) = Ok c.
Proof.
  intros c H Hs. apply bytes_roundtrip; [apply wf_commit; assumption | assumption | apply roundtrip_commit; apply commit_ok_dom; assumption].
Qed.

Theorem bytes_commit_qc : forall sig_ok q, commit_qc_ok sig_ok q ->
  small (encode idx_zksync_roles_validator_CommitQCV2 build_commit_qc q) ->
  decode idx_zksync_roles_validator_CommitQCV2 (read_commit_qc sig_ok) (encode idx_zksync_roles_validator_CommitQCV2 build_commit_qc q) = Ok q.
Proof.
  intros sig_ok q H Hs. apply bytes_roundtrip; [eapply wf_commit_qc; eassumption | assumption |
    apply roundtrip_commit_qc; apply commit_qc_ok_dom; assumption].
Qed.

Theorem bytes_timeout : forall sig_ok t, timeout_ok sig_ok t ->
  small (encode idx_zksync_roles_validator_ReplicaTimeoutV2 build_timeout t) ->
  decode idx_zksync_roles_validator_ReplicaTimeoutV2 (read_timeout sig_ok) (encode idx_zksync_roles_validator_ReplicaTimeoutV2 build_timeout t) = Ok t.
Proof.
  intros sig_ok t H Hs. apply bytes_roundtrip; [eapply wf_timeout; eassumption | assumption |
    apply roundtrip_timeout; apply timeout_ok_dom; assumption].
Qed.

Theorem bytes_timeout_qc : forall sig_ok q, timeout_qc_ok sig_ok q ->
  small (encode idx_zksync_roles_validator_TimeoutQCV2 build_timeout_qc q) ->
  decode idx_zksync_roles_validator_TimeoutQCV2 (read_timeout_qc sig_ok) (encode idx_zksync_roles_validator_TimeoutQCV2 build_timeout_qc q) = Ok q.
Proof.
  intros sig_ok q H Hs. apply bytes_roundtrip; [eapply wf_timeout_qc; eassumption | assumption |
    apply roundtrip_timeout_qc; apply timeout_qc_ok_dom; assumption].
Qed.

(* ================= part 2: the types of Model/ProtoTyped2.v ================= *)

Lemma rt_key : forall (ok : bytes -> bool) k, ok k = true -> read_key ok (build_key k) = Ok k.
Proof. intros ok k H. unfold read_key, build_key. ga. rewrite H. reflexivity. Qed.

Lemma wf_vpk : forall k, wf schema idx_zksync_roles_validator_PublicKey (build_key k).
Proof. intros k. unfold build_key. wff; one; exact I. Qed.
Lemma wf_vsig : forall k, wf schema idx_zksync_roles_validator_Signature (build_key k).
Proof. intros k. unfold build_key. wff; one; exact I. Qed.
Lemma wf_agg : forall k, wf schema idx_zksync_roles_validator_AggregateSignature (build_key k).
Proof. intros k. unfold build_key. wff; one; exact I. Qed.
Lemma wf_npk : forall k, wf schema idx_zksync_roles_node_PublicKey (build_key k).
Proof. intros k. unfold build_key. wff; one; exact I. Qed.
Lemma wf_nsig : forall k, wf schema idx_zksync_roles_node_Signature (build_key k).
Proof. intros k. unfold build_key. wff; one; exact I. Qed.

Ltac ltb_true := match goal with
  | |- context [?a <? ?b] => let E := fresh "E" in destruct (a <? b) eqn:E; [|apply Z.ltb_ge in E; lia]
  end.

Section P2.
  Variable O : oracles.
  Let aok := agg_ok O.

  (* ---- ProposalJustification, LeaderProposal, ReplicaNewView ---- *)
  Definition just_ok (j : Justification) : Prop :=
    match j with
    | JCommit q => commit_qc_ok aok q /\ v_number (rc_view (cq_msg q)) < u64_max
    | JTimeout q => timeout_qc_ok aok q /\ v_number (tq_view q) < u64_max
    end.

  Lemma rt_justification : forall j, just_ok j -> read_justification O (build_justification j) = Ok j.
  Proof.
    intros [q|q] [H Hn]; cbn [build_justification]; unfold read_justification; pk.
    - rewrite roundtrip_commit_qc by (apply commit_qc_ok_dom; exact H). cbn [bind]. ltb_true. reflexivity.
    - rewrite roundtrip_timeout_qc by (apply timeout_qc_ok_dom; exact H). cbn [bind]. ltb_true. reflexivity.
  Qed.

  Lemma wf_justification : forall j, just_ok j ->
    wf schema idx_zksync_roles_validator_ProposalJustificationV2 (build_justification j).
  Proof.
    intros [q|q] [H _]; cbn [build_justification]; wff; one;
      [eapply wf_commit_qc | eapply wf_timeout_qc]; exact H.
  Qed.

  Definition leader_proposal_ok (p : LeaderProposal) : Prop := just_ok (lp_justification p).

  Lemma rt_leader_proposal : forall p, leader_proposal_ok p -> read_leader_proposal O (build_leader_proposal p) = Ok p.
  Proof.
    intros [[b|] j] H; unfold leader_proposal_ok in H; cbn [lp_justification] in H;
      unfold read_leader_proposal, build_leader_proposal; cbn [lp_payload lp_justification]; ga;
      rewrite rt_justification by exact H; reflexivity.
  Qed.

  Lemma wf_leader_proposal : forall p, leader_proposal_ok p ->
    wf schema idx_zksync_roles_validator_LeaderProposalV2 (build_leader_proposal p).
  Proof.
    intros [b j] H. unfold leader_proposal_ok in H. cbn [lp_justification] in H.
    unfold build_leader_proposal. cbn [lp_payload lp_justification]. wff.
    - destruct b; cbn [ovals]; [one; exact I | apply Forall_nil].
    - one. apply wf_justification. exact H.
  Qed.

  Lemma rt_new_view : forall j, just_ok j -> read_new_view O (build_new_view j) = Ok j.
  Proof. intros j H. unfold read_new_view, build_new_view. ga. apply rt_justification. exact H. Qed.

  Lemma wf_new_view : forall j, just_ok j -> wf schema idx_zksync_roles_validator_ReplicaNewViewV2 (build_new_view j).
  Proof. intros j H. unfold build_new_view. wff; one. apply wf_justification. exact H. Qed.

  (* ---- ChonkyMsg, ConsensusMsg ---- *)
  Definition chonky_ok (m : ChonkyMsg) : Prop :=
    match m with
    | CReplicaCommit c => commit_ok c
    | CReplicaTimeout t => timeout_ok aok t
    | CReplicaNewView j => just_ok j
    | CLeaderProposal p => leader_proposal_ok p
    end.

  Lemma rt_chonky : forall m, chonky_ok m -> read_chonky O (build_chonky m) = Ok m.
  Proof.
    intros [c|t|j|p] H; cbn [chonky_ok] in H; cbn [build_chonky]; unfold read_chonky; pk.
    - rewrite roundtrip_commit by (apply commit_ok_dom; exact H). reflexivity.
    - rewrite roundtrip_timeout by (apply timeout_ok_dom; exact H). reflexivity.
    - rewrite rt_new_view by exact H. reflexivity.
    - rewrite rt_leader_proposal by exact H. reflexivity.
  Qed.

  Lemma wf_chonky : forall m, chonky_ok m -> wf schema idx_zksync_roles_validator_ChonkyMsgV2 (build_chonky m).
  Proof.
    intros [c|t|j|p] H; cbn [chonky_ok] in H; cbn [build_chonky]; wff; one.
    - apply wf_commit. exact H.
    - eapply wf_timeout. exact H.
    - apply wf_new_view. exact H.
    - apply wf_leader_proposal. exact H.
  Qed.

  Lemma rt_consensus_msg : forall m, chonky_ok m -> read_consensus_msg O (build_consensus_msg m) = Ok m.
  Proof. intros m H. unfold read_consensus_msg, build_consensus_msg. pk. apply rt_chonky. exact H. Qed.

  Lemma wf_consensus_msg : forall m, chonky_ok m -> wf schema idx_zksync_roles_validator_ConsensusMsg (build_consensus_msg m).
  Proof. intros m H. unfold build_consensus_msg. wff; one. apply wf_chonky. exact H. Qed.

  (* ---- NetAddress ---- *)
  Definition net_address_ok (a : NetAddress) : Prop :=
    sockaddr_dom (na_addr a) /\ u64 (na_version a) /\ dur_dom (na_timestamp a).

  Lemma rt_net_address : forall a, net_address_ok a -> read_net_address (build_net_address a) = Ok a.
  Proof.
    intros [s v t] [Hs [Hv Ht]]. cbn [na_addr na_version na_timestamp] in *.
    destruct (build_ts_ok t Ht) as [_ [Hr _]].
    unfold read_net_address, build_net_address. cbn [na_addr na_version na_timestamp]. ga.
    rewrite roundtrip_sockaddr by exact Hs. cbn [bind]. rewrite Hr. reflexivity.
  Qed.

  Lemma wf_net_address : forall a, net_address_ok a -> wf schema idx_zksync_roles_validator_NetAddress (build_net_address a).
  Proof.
    intros [s v t] [Hs [Hv Ht]]. cbn [na_addr na_version na_timestamp] in *.
    destruct (build_ts_ok t Ht) as [_ [_ Hw]].
    unfold build_net_address. cbn [na_addr na_version na_timestamp]. wff; one;
      [apply wf_sockaddr; exact Hs | exact Hv | exact Hw].
  Qed.

  (* ---- validator::Msg, Signed ---- *)
  Definition msg_ok (m : Msg) : Prop :=
    match m with
    | MConsensus c => chonky_ok c
    | MSessionId _ => True
    | MNetAddress a => net_address_ok a
    end.

  Lemma rt_msg : forall m, msg_ok m -> read_msg O (build_msg m) = Ok m.
  Proof.
    intros [c|s|a] H; cbn [msg_ok] in H; cbn [build_msg]; unfold read_msg; pk.
    - rewrite rt_consensus_msg by exact H. reflexivity.
    - reflexivity.
    - rewrite rt_net_address by exact H. reflexivity.
  Qed.

  Lemma wf_msg : forall m, msg_ok m -> wf schema idx_zksync_roles_validator_Msg (build_msg m).
  Proof.
    intros [c|s|a] H; cbn [msg_ok] in H; cbn [build_msg]; wff; one.
    - apply wf_consensus_msg. exact H.
    - exact I.
    - apply wf_net_address. exact H.
  Qed.

  Definition signed_ok (w : variant) (s : Signed) : Prop :=
    msg_ok (s_msg s) /\ is_variant w (s_msg s) = true /\ vpk_ok O (s_key s) = true /\ vsig_ok O (s_sig s) = true.

  Lemma rt_signed : forall w s, signed_ok w s -> read_signed O w (build_signed s) = Ok s.
  Proof.
    intros w [m k g] [Hm [Hw [Hk Hg]]]. cbn [s_msg s_key s_sig] in *.
    unfold read_signed, build_signed. cbn [s_msg s_key s_sig]. ga.
    rewrite rt_msg by exact Hm. cbn [bind]. rewrite Hw. cbn [negb].
    rewrite rt_key by exact Hk. cbn [bind]. rewrite rt_key by exact Hg. reflexivity.
  Qed.

  Lemma wf_signed : forall w s, signed_ok w s -> wf schema idx_zksync_roles_validator_Signed (build_signed s).
  Proof.
    intros w [m k g] [Hm _]. cbn [s_msg] in Hm. unfold build_signed. cbn [s_msg s_key s_sig].
    wff; one; [apply wf_msg; exact Hm | apply wf_vpk | apply wf_vsig].
  Qed.

  (* ---- blocks ---- *)
  Definition final_block_ok (b : FinalBlock) : Prop := commit_qc_ok aok (fb_justification b).

  Lemma rt_final_block : forall b, final_block_ok b -> read_final_block O (build_final_block b) = Ok b.
  Proof.
    intros [p j] H. unfold final_block_ok in H. cbn [fb_justification] in H.
    unfold read_final_block, build_final_block. cbn [fb_payload fb_justification]. ga.
    rewrite roundtrip_commit_qc by (apply commit_qc_ok_dom; exact H). reflexivity.
  Qed.
  Lemma wf_final_block : forall b, final_block_ok b -> wf schema idx_zksync_roles_validator_FinalBlockV2 (build_final_block b).
  Proof.
    intros [p j] H. unfold final_block_ok in H. cbn [fb_justification] in H.
    unfold build_final_block. cbn [fb_payload fb_justification]. wff; one; [exact I | eapply wf_commit_qc; exact H].
  Qed.

  Definition pre_genesis_ok (b : PreGenesisBlock) : Prop := u64 (pg_number b).
  Lemma rt_pre_genesis : forall b, read_pre_genesis (build_pre_genesis b) = Ok b.
  Proof. intros [n p j]. unfold read_pre_genesis, build_pre_genesis. cbn [pg_number pg_payload pg_justification]. ga. reflexivity. Qed.
  Lemma wf_pre_genesis : forall b, pre_genesis_ok b -> wf schema idx_zksync_roles_validator_PreGenesisBlock (build_pre_genesis b).
  Proof.
    intros [n p j] H. unfold pre_genesis_ok in H. cbn [pg_number] in H.
    unfold build_pre_genesis. cbn [pg_number pg_payload pg_justification]. wff; one; [exact H | exact I | exact I].
  Qed.

  Definition block_ok (b : Block) : Prop :=
    match b with BFinal f => final_block_ok f | BPreGenesis p => pre_genesis_ok p end.
  Lemma rt_block : forall b, block_ok b -> read_block O (build_block b) = Ok b.
  Proof.
    intros [f|p] H; cbn [block_ok] in H; cbn [build_block]; unfold read_block; pk.
    - rewrite rt_final_block by exact H. reflexivity.
    - rewrite rt_pre_genesis. reflexivity.
  Qed.
  Lemma wf_block : forall b, block_ok b -> wf schema idx_zksync_roles_validator_Block (build_block b).
  Proof.
    intros [f|p] H; cbn [block_ok] in H; cbn [build_block]; wff; one;
      [apply wf_final_block | apply wf_pre_genesis]; exact H.
  Qed.

  Definition proposal_ok (p : Proposal) : Prop := u64 (pr_number p).
  Lemma rt_proposal : forall p, read_proposal (build_proposal p) = Ok p.
  Proof. intros [n p]. unfold read_proposal, build_proposal. cbn [pr_number pr_payload]. ga. reflexivity. Qed.
  Lemma wf_proposal : forall p, proposal_ok p -> wf schema idx_zksync_roles_validator_Proposal (build_proposal p).
  Proof.
    intros [n p] H. unfold proposal_ok in H. cbn [pr_number] in H.
    unfold build_proposal. cbn [pr_number pr_payload]. wff; one; [exact H | exact I].
  Qed.

  (* ---- replica state ---- *)
  Lemma wf_empty : forall mi m, nth_error schema mi = Some m -> wf schema mi [].
  Proof. intros mi m H. change (@nil (Z * dval)) with (flatten []). eapply wf_flatten; [exact H | exact I | constructor]. Qed.

  Lemma rt_phase : forall p, read_phase (build_phase p) = Ok p.
  Proof. intros []; reflexivity. Qed.
  Lemma wf_phase : forall p, wf schema idx_zksync_roles_validator_PhaseV2 (build_phase p).
  Proof. intros []; cbn [build_phase]; wff; one; eapply wf_empty; reflexivity. Qed.

  Definition state_ok (s : ChonkyV2State) : Prop :=
    u64 (st_epoch s) /\ u64 (st_view_number s) /\ opt_dom commit_ok (st_high_vote s) /\
    opt_dom (commit_qc_ok aok) (st_high_commit_qc s) /\ opt_dom (timeout_qc_ok aok) (st_high_timeout_qc s) /\
    Forall proposal_ok (st_proposals s).

  Lemma rt_state : forall s, state_ok s -> read_state O (build_state s) = Ok s.
  Proof.
    intros [e n p hv hc ht ps] [_ [_ [Hv [Hc [Ht _]]]]]. cbn [st_high_vote st_high_commit_qc st_high_timeout_qc] in *.
    unfold read_state, build_state.
    cbn [st_epoch st_view_number st_phase st_high_vote st_high_commit_qc st_high_timeout_qc st_proposals].
    destruct hv as [c|]; destruct hc as [q|]; destruct ht as [t|]; cbn [opt_dom] in *; ga;
      rewrite rt_phase; cbn [bind];
      try (rewrite roundtrip_commit by (apply commit_ok_dom; assumption); cbn [bind]);
      try (rewrite roundtrip_commit_qc by (apply commit_qc_ok_dom; assumption); cbn [bind]);
      try (rewrite roundtrip_timeout_qc by (apply timeout_qc_ok_dom; assumption); cbn [bind]);
      (rewrite sub_rep_build; [reflexivity | apply Forall_forall; intros; apply rt_proposal]).
  Qed.

  Lemma wf_state : forall s, state_ok s -> wf schema idx_zksync_roles_validator_ChonkyV2State (build_state s).
  Proof.
    intros [e n p hv hc ht ps] [He [Hn [Hv [Hc [Ht Hp]]]]].
    cbn [st_epoch st_view_number st_phase st_high_vote st_high_commit_qc st_high_timeout_qc st_proposals] in *.
    unfold build_state.
    cbn [st_epoch st_view_number st_phase st_high_vote st_high_commit_qc st_high_timeout_qc st_proposals]. wff.
    - one. exact Hn.
    - one. apply wf_phase.
    - destruct hv; cbn [ovals opt_dom] in *; [one; apply wf_commit; assumption | apply Forall_nil].
    - destruct hc; cbn [ovals opt_dom] in *; [one; eapply wf_commit_qc; eassumption | apply Forall_nil].
    - destruct ht; cbn [ovals opt_dom] in *; [one; eapply wf_timeout_qc; eassumption | apply Forall_nil].
    - apply Forall_val_map. eapply Forall_impl; [|exact Hp]. intros a Ha. vs. apply wf_proposal. exact Ha.
    - one. exact He.
  Qed.

  Lemma rt_replica_state : forall s, state_ok s -> read_replica_state O (build_replica_state s) = Ok s.
  Proof. intros s H. unfold read_replica_state, build_replica_state. pk. apply rt_state. exact H. Qed.
  Lemma wf_replica_state : forall s, state_ok s -> wf schema idx_zksync_roles_validator_ReplicaState (build_replica_state s).
  Proof. intros s H. unfold build_replica_state. wff; one. apply wf_state. exact H. Qed.

  (* ---- schedule, genesis ---- *)
  Definition validator_info_ok (v : ValidatorInfo) : Prop := vpk_ok O (vi_key v) = true /\ u64 (vi_weight v).
  Lemma rt_validator_info : forall v, validator_info_ok v -> read_validator_info O (build_validator_info v) = Ok v.
  Proof.
    intros [k w l] [Hk _]. cbn [vi_key] in Hk. unfold read_validator_info, build_validator_info.
    cbn [vi_key vi_weight vi_leader]. ga. rewrite rt_key by exact Hk. cbn [bind]. destruct l; reflexivity.
  Qed.
  Lemma wf_validator_info : forall v, validator_info_ok v ->
    wf schema idx_zksync_roles_validator_ValidatorInfo (build_validator_info v).
  Proof.
    intros [k w l] [_ Hw]. cbn [vi_weight] in Hw. unfold build_validator_info. cbn [vi_key vi_weight vi_leader].
    wff; one; [apply wf_vpk | exact Hw | destruct l; unfold two64; lia].
  Qed.

  Lemma rt_mode : forall m, read_mode (build_mode m) = Ok m.
  Proof. intros []; reflexivity. Qed.
  Lemma wf_mode : forall m, wf schema idx_zksync_roles_validator_LeaderSelectionMode (build_mode m).
  Proof. intros []; cbn [build_mode]; wff; one; eapply wf_empty; reflexivity. Qed.

  Definition selection_ok (s : LeaderSelection) : Prop := u64 (ls_frequency s).
  Lemma rt_selection : forall s, read_selection (build_selection s) = Ok s.
  Proof. intros [f m]. unfold read_selection, build_selection. cbn [ls_frequency ls_mode]. ga. rewrite rt_mode. reflexivity. Qed.
  Lemma wf_selection : forall s, selection_ok s -> wf schema idx_zksync_roles_validator_LeaderSelection (build_selection s).
  Proof.
    intros [f m] H. unfold selection_ok in H. cbn [ls_frequency] in H. unfold build_selection. cbn [ls_frequency ls_mode].
    wff; one; [exact H | apply wf_mode].
  Qed.

  (* a Schedule value: validators strictly ascending by key (the BTreeMap order), positive weights,
     total below 2^64, at least one validator and one leader *)
  Definition key_lt (a b : ValidatorInfo) : Prop := cmp_bytes (vi_key b) (vi_key a) = Gt.
  Fixpoint weights_ok (vs : list ValidatorInfo) (total : Z) : Prop :=
    match vs with
    | [] => True
    | v :: r => 0 < vi_weight v /\ total + vi_weight v < two64 /\ weights_ok r (total + vi_weight v)
    end.
  Definition schedule_ok (s : Schedule) : Prop :=
    StronglySorted key_lt (sc_validators s) /\ weights_ok (sc_validators s) 0 /\
    sc_validators s <> [] /\ existsb vi_leader (sc_validators s) = true /\
    Forall validator_info_ok (sc_validators s) /\ selection_ok (sc_selection s).

  Lemma sched_insert_last : forall v m, Forall (fun e => cmp_bytes (vi_key v) (vi_key e) = Gt) m ->
    sched_insert v m = Some (m ++ [v]).
  Proof.
    intros v m H. induction H as [|e m He Hr IH]; [reflexivity|].
    cbn [sched_insert app]. rewrite He, IH. reflexivity.
  Qed.

  Lemma sched_new_sorted : forall vs acc total,
    StronglySorted key_lt (acc ++ vs) -> weights_ok vs total -> acc ++ vs <> [] ->
    existsb vi_leader (acc ++ vs) = true -> sched_new vs acc total = Ok (acc ++ vs).
  Proof.
    induction vs as [|v vs IH]; intros acc total Hs Hw Hne Hl.
    - rewrite app_nil_r in *. cbn [sched_new]. destruct acc; [congruence|]. rewrite Hl. reflexivity.
    - cbn [sched_new]. cbn [weights_ok] in Hw. destruct Hw as [Hp [Ht Hw]].
      rewrite sched_insert_last.
      + destruct (vi_weight v <=? 0) eqn:E1; [apply Z.leb_le in E1; lia|].
        destruct (two64 <=? total + vi_weight v) eqn:E2; [apply Z.leb_le in E2; lia|].
        rewrite IH; rewrite <- ?app_assoc; try assumption; reflexivity.
      + clear - Hs. induction acc as [|a acc IHa]; [constructor|].
        cbn [app] in Hs. inversion Hs as [|? ? Hs' Hf]; subst. constructor; [|apply IHa; exact Hs'].
        rewrite Forall_forall in Hf. apply (Hf v). apply in_or_app. right. left. reflexivity.
  Qed.

  Lemma rt_schedule : forall s, schedule_ok s -> read_schedule O (build_schedule s) = Ok s.
  Proof.
    intros [vs sel] [Hs [Hw [Hne [Hl [Hv _]]]]]. cbn [sc_validators sc_selection] in *.
    unfold read_schedule, build_schedule. cbn [sc_validators sc_selection]. ga.
    rewrite sub_rep_build by (eapply Forall_impl; [|exact Hv]; intros a Ha; apply rt_validator_info; exact Ha).
    cbn [bind]. rewrite rt_selection. cbn [bind].
    rewrite (sched_new_sorted vs [] 0) by assumption. reflexivity.
  Qed.

  Lemma wf_schedule : forall s, schedule_ok s -> wf schema idx_zksync_roles_validator_ValidatorSchedule (build_schedule s).
  Proof.
    intros [vs sel] [_ [_ [_ [_ [Hv Hsel]]]]]. cbn [sc_validators sc_selection] in *.
    unfold build_schedule. cbn [sc_validators sc_selection]. wff.
    - apply Forall_val_map. eapply Forall_impl; [|exact Hv]. intros a Ha. vs. apply wf_validator_info. exact Ha.
    - one. apply wf_selection. exact Hsel.
  Qed.

  Definition genesis_ok (g : Genesis) : Prop :=
    u64 (g_chain_id g) /\ u64 (g_fork_number g) /\ u64 (g_first_block g) /\ g_protocol_version g = 2 /\
    opt_dom schedule_ok (g_schedule g).

  Lemma rt_genesis : forall g, genesis_ok g -> exists d, build_genesis g = Ok d /\ read_genesis O d = Ok g /\
    wf schema idx_zksync_roles_validator_Genesis d.
  Proof.
    intros [c f b v s] [Hc [Hf [Hb [Hv Hs]]]]. cbn [g_chain_id g_fork_number g_first_block g_protocol_version g_schedule] in *.
    subst v. unfold build_genesis. cbn [g_chain_id g_fork_number g_first_block g_protocol_version g_schedule Z.eqb Pos.eqb].
    eexists. split; [reflexivity|]. split.
    - unfold read_genesis. destruct s as [s|]; cbn [opt_dom] in *; ga;
        try (rewrite rt_schedule by exact Hs; cbn [bind]); reflexivity.
    - wff; try (one; first [exact Hc | exact Hf | exact Hb | unfold two64; lia]).
      destruct s; cbn [ovals opt_dom] in *; [one; apply wf_schedule; exact Hs | apply Forall_nil].
  Qed.

  (* ---- node ---- *)
  Lemma rt_node_msg : forall s, read_node_msg (build_node_msg s) = Ok s.
  Proof. intros s. reflexivity. Qed.
  Lemma wf_node_msg : forall s, wf schema idx_zksync_roles_node_Msg (build_node_msg s).
  Proof. intros s. unfold build_node_msg. wff; one; exact I. Qed.

  Definition node_signed_ok (s : NodeSigned) : Prop := npk_ok O (ns_key s) = true /\ nsig_ok O (ns_sig s) = true.
  Lemma rt_node_signed : forall s, node_signed_ok s -> read_node_signed O (build_node_signed s) = Ok s.
  Proof.
    intros [m k g] [Hk Hg]. cbn [ns_key ns_sig] in *. unfold read_node_signed, build_node_signed.
    cbn [ns_msg ns_key ns_sig]. ga. rewrite rt_node_msg. cbn [bind].
    rewrite rt_key by exact Hk. cbn [bind]. rewrite rt_key by exact Hg. reflexivity.
  Qed.
  Lemma wf_node_signed : forall s, wf schema idx_zksync_roles_node_Signed (build_node_signed s).
  Proof.
    intros [m k g]. unfold build_node_signed. cbn [ns_msg ns_key ns_sig].
    wff; one; [apply wf_node_msg | apply wf_npk | apply wf_nsig].
  Qed.

  (* ---- handshakes, preface ---- *)
  Definition gossip_handshake_ok (h : GossipHandshake) : Prop :=
    node_signed_ok (gh_session h) /\ length (gh_genesis h) = 32%nat /\
    match gh_version h with Some v => ver_ok O v = true | None => True end.
  Lemma rt_gossip_handshake : forall h, gossip_handshake_ok h -> read_gossip_handshake O (build_gossip_handshake h) = Ok h.
  Proof.
    intros [s g st v] [Hs [Hg Hv]]. cbn [gh_session gh_genesis gh_version] in *.
    unfold read_gossip_handshake, build_gossip_handshake. cbn [gh_session gh_genesis gh_static gh_version].
    destruct v as [v|]; ga; rewrite rt_node_signed by exact Hs; cbn [bind];
      rewrite roundtrip_hash by exact Hg; cbn [bind]; try rewrite Hv; destruct st; reflexivity.
  Qed.
  Lemma wf_gossip_handshake : forall h, wf schema idx_zksync_network_gossip_Handshake (build_gossip_handshake h).
  Proof.
    intros [s g st v]. unfold build_gossip_handshake. cbn [gh_session gh_genesis gh_static gh_version]. wff.
    - one. apply wf_node_signed.
    - one. destruct st; unfold two64; lia.
    - one. apply wf_genesis_hash.
    - destruct v; cbn [ovals]; [one; exact I | apply Forall_nil].
  Qed.

  Definition consensus_handshake_ok (h : ConsensusHandshake) : Prop :=
    signed_ok VSessionId (ch_session h) /\ length (ch_genesis h) = 32%nat.
  Lemma rt_consensus_handshake : forall h, consensus_handshake_ok h ->
    read_consensus_handshake O (build_consensus_handshake h) = Ok h.
  Proof.
    intros [s g] [Hs Hg]. cbn [ch_session ch_genesis] in *. unfold read_consensus_handshake, build_consensus_handshake.
    cbn [ch_session ch_genesis]. ga. rewrite rt_signed by exact Hs. cbn [bind].
    rewrite roundtrip_hash by exact Hg. reflexivity.
  Qed.
  Lemma wf_consensus_handshake : forall h, consensus_handshake_ok h ->
    wf schema idx_zksync_network_consensus_Handshake (build_consensus_handshake h).
  Proof.
    intros [s g] [Hs _]. cbn [ch_session] in Hs. unfold build_consensus_handshake. cbn [ch_session ch_genesis].
    wff; one; [eapply wf_signed; exact Hs | apply wf_genesis_hash].
  Qed.

  Lemma rt_encryption : forall e, read_encryption (build_encryption e) = Ok e.
  Proof. intros []. reflexivity. Qed.
  Lemma wf_encryption : forall e, wf schema idx_zksync_network_preface_Encryption (build_encryption e).
  Proof. intros e. unfold build_encryption. wff; one; eapply wf_empty; reflexivity. Qed.
  Lemma rt_endpoint : forall e, read_endpoint (build_endpoint e) = Ok e.
  Proof. intros []; reflexivity. Qed.
  Lemma wf_endpoint : forall e, wf schema idx_zksync_network_preface_Endpoint (build_endpoint e).
  Proof. intros []; cbn [build_endpoint]; wff; one; eapply wf_empty; reflexivity. Qed.

  (* ---- RPC ---- *)
  Lemma rt_consensus_req : forall s, signed_ok VConsensus s -> read_consensus_req O (build_consensus_req s) = Ok s.
  Proof. intros s H. unfold read_consensus_req, build_consensus_req. ga. apply rt_signed. exact H. Qed.
  Lemma wf_consensus_req : forall s, signed_ok VConsensus s ->
    wf schema idx_zksync_network_consensus_ConsensusReq (build_consensus_req s).
  Proof. intros s H. unfold build_consensus_req. wff; one. eapply wf_signed. exact H. Qed.

  Lemma rt_consensus_resp : forall u, read_consensus_resp (build_consensus_resp u) = Ok u.
  Proof. intros []. reflexivity. Qed.
  Lemma wf_consensus_resp : forall u, wf schema idx_zksync_network_consensus_ConsensusResp (build_consensus_resp u).
  Proof. intros u. unfold build_consensus_resp. eapply wf_empty. reflexivity. Qed.

  Lemma rt_get_block_req : forall n, read_get_block_req (build_get_block_req n) = Ok n.
  Proof. intros n. reflexivity. Qed.
  Lemma wf_get_block_req : forall n, u64 n -> wf schema idx_zksync_network_gossip_GetBlockRequest (build_get_block_req n).
  Proof. intros n H. unfold build_get_block_req. wff; one. exact H. Qed.

  Definition get_block_resp_ok (b : option Block) : Prop := opt_dom block_ok b.
  Lemma rt_get_block_resp : forall b, get_block_resp_ok b -> read_get_block_resp O (build_get_block_resp b) = Ok b.
  Proof.
    intros [[f|p]|] H; cbn [get_block_resp_ok opt_dom block_ok] in H; cbn [build_get_block_resp]; unfold read_get_block_resp.
    - ga. rewrite rt_final_block by exact H. reflexivity.
    - ga. rewrite rt_pre_genesis. reflexivity.
    - reflexivity.
  Qed.
  Lemma wf_get_block_resp : forall b, get_block_resp_ok b ->
    wf schema idx_zksync_network_gossip_GetBlockResponse (build_get_block_resp b).
  Proof.
    intros [[f|p]|] H; cbn [get_block_resp_ok opt_dom block_ok] in H; cbn [build_get_block_resp].
    - wff; one. apply wf_final_block. exact H.
    - wff; one. apply wf_pre_genesis. exact H.
    - eapply wf_empty. reflexivity.
  Qed.

  Definition last_ok (l : Last) : Prop :=
    match l with LPreGenesis n => u64 n | LFinal q => commit_qc_ok aok q end.
  Lemma rt_last : forall l, last_ok l -> read_last O (build_last l) = Ok l.
  Proof.
    intros [n|q] H; cbn [last_ok] in H; cbn [build_last]; unfold read_last; pk.
    - reflexivity.
    - rewrite roundtrip_commit_qc by (apply commit_qc_ok_dom; exact H). reflexivity.
  Qed.
  Lemma wf_last : forall l, last_ok l -> wf schema idx_zksync_network_gossip_Last (build_last l).
  Proof.
    intros [n|q] H; cbn [last_ok] in H; cbn [build_last]; wff; one; [exact H | eapply wf_commit_qc; exact H].
  Qed.

  Definition store_state_ok (s : BlockStoreState) : Prop := u64 (bs_first s) /\ opt_dom last_ok (bs_last s).
  Lemma rt_store_state : forall s, store_state_ok s -> read_store_state O (build_store_state s) = Ok s.
  Proof.
    intros [f l] [_ Hl]. cbn [bs_last] in Hl. unfold read_store_state, build_store_state. cbn [bs_first bs_last].
    destruct l as [l|]; cbn [opt_dom] in Hl; ga; try (rewrite rt_last by exact Hl); reflexivity.
  Qed.
  Lemma wf_store_state : forall s, store_state_ok s -> wf schema idx_zksync_network_gossip_BlockStoreState (build_store_state s).
  Proof.
    intros [f l] [Hf Hl]. cbn [bs_first bs_last] in *. unfold build_store_state. cbn [bs_first bs_last]. wff.
    - one. exact Hf.
    - destruct l; cbn [ovals opt_dom] in *; [one; apply wf_last; exact Hl | apply Forall_nil].
  Qed.
  Lemma rt_push_store_state : forall s, store_state_ok s -> read_push_store_state O (build_push_store_state s) = Ok s.
  Proof. intros s H. unfold read_push_store_state, build_push_store_state. ga. apply rt_store_state. exact H. Qed.
  Lemma wf_push_store_state : forall s, store_state_ok s ->
    wf schema idx_zksync_network_gossip_PushBlockStoreState (build_push_store_state s).
  Proof. intros s H. unfold build_push_store_state. wff; one. apply wf_store_state. exact H. Qed.

  Lemma rt_push_addrs : forall l, Forall (signed_ok VNetAddress) l -> read_push_addrs O (build_push_addrs l) = Ok l.
  Proof.
    intros l H. unfold read_push_addrs, build_push_addrs. ga.
    apply sub_rep_build. eapply Forall_impl; [|exact H]. intros a Ha. apply rt_signed. exact Ha.
  Qed.
  Lemma wf_push_addrs : forall l, Forall (signed_ok VNetAddress) l ->
    wf schema idx_zksync_network_gossip_PushValidatorAddrs (build_push_addrs l).
  Proof.
    intros l H. unfold build_push_addrs. wff.
    apply Forall_val_map. eapply Forall_impl; [|exact H]. intros a Ha. vs. eapply wf_signed. exact Ha.
  Qed.

  Lemma rt_push_tx : forall tx, read_push_tx (build_push_tx tx) = Ok tx.
  Proof. intros tx. unfold read_push_tx, build_push_tx. ga. reflexivity. Qed.
  Lemma wf_push_tx : forall tx, wf schema idx_zksync_network_gossip_PushTx (build_push_tx tx).
  Proof. intros tx. unfold build_push_tx. wff; one. wff; one. exact I. Qed.

  Lemma rt_ping : forall p, length p = 32%nat -> read_ping (build_ping p) = Ok p.
  Proof. intros p H. unfold read_ping, build_ping. ga. rewrite H. reflexivity. Qed.
  Lemma wf_ping_req : forall p, wf schema idx_zksync_network_ping_PingReq (build_ping p).
  Proof. intros p. unfold build_ping. wff; one. exact I. Qed.
  Lemma wf_ping_resp : forall p, wf schema idx_zksync_network_ping_PingResp (build_ping p).
  Proof. intros p. unfold build_ping. wff; one. exact I. Qed.
End P2.

(* ---- mux::Handshake: decode (encode h) = h; the bytes depend on the HashMap iteration order ---- *)
Definition cap_ok (c : cap) : Prop := u64 (fst c) /\ 0 <= snd c < two32.
Definition mux_ok (h : MuxHandshake) : Prop :=
  Forall cap_ok (mx_accept h) /\ Forall cap_ok (mx_connect h) /\
  caps_nodup [] (mx_accept h) = true /\ caps_nodup [] (mx_connect h) = true.

Lemma rt_cap : forall c, cap_ok c -> read_cap (build_cap c) = Ok c.
Proof.
  intros [i m] [_ Hm]. cbn [fst snd] in *. unfold read_cap, build_cap. cbn [fst snd]. ga.
  unfold as_u32. rewrite Z.mod_small by exact Hm. reflexivity.
Qed.
Lemma wf_cap : forall c, cap_ok c -> wf schema idx_zksync_network_mux_Handshake_Capability (build_cap c).
Proof.
  intros [i m] [Hi Hm]. cbn [fst snd] in *. unfold build_cap. cbn [fst snd].
  wff; one; [exact Hi | unfold two64, two32 in *; lia].
Qed.

Lemma rt_mux : forall h, mux_ok h -> read_mux (build_mux h) = Ok h.
Proof.
  intros [a c] [Ha [Hc [Na Nc]]]. cbn [mx_accept mx_connect] in *.
  unfold read_mux, read_caps, build_mux. cbn [mx_accept mx_connect]. ga.
  rewrite sub_rep_build by (eapply Forall_impl; [|exact Ha]; intros x Hx; apply rt_cap; exact Hx).
  cbn [bind]. rewrite Na. cbn [bind].
  rewrite sub_rep_build by (eapply Forall_impl; [|exact Hc]; intros x Hx; apply rt_cap; exact Hx).
  cbn [bind]. rewrite Nc. reflexivity.
Qed.

Lemma wf_mux : forall h, mux_ok h -> wf schema idx_zksync_network_mux_Handshake (build_mux h).
Proof.
  intros [a c] [Ha [Hc _]]. cbn [mx_accept mx_connect] in *. unfold build_mux. cbn [mx_accept mx_connect]. wff.
  - apply Forall_val_map. eapply Forall_impl; [|exact Ha]. intros x Hx. vs. apply wf_cap. exact Hx.
  - apply Forall_val_map. eapply Forall_impl; [|exact Hc]. intros x Hx. vs. apply wf_cap. exact Hx.
Qed.

(* ---- Schedule::new does not depend on the order in which the validators are listed ---- *)
Definition obind {A B : Type} (o : option A) (f : A -> option B) : option B :=
  match o with Some a => f a | None => None end.

Lemma cb_antisym : forall a b, cmp_bytes b a = CompOpp (cmp_bytes a b).
Proof. destruct ord_bytes as [S _]. exact S. Qed.
Lemma cb_trans : forall a b c, cmp_bytes a b = Lt -> cmp_bytes b c = Lt -> cmp_bytes a c = Lt.
Proof. destruct ord_bytes as [_ [T _]]. exact T. Qed.
Lemma cb_eq : forall a b, cmp_bytes a b = Eq -> a = b.
Proof. destruct ord_bytes as [_ [_ E]]. exact E. Qed.
Lemma cb_refl : forall a, cmp_bytes a a = Eq.
Proof. intros a. pose proof (cb_antisym a a) as H. destruct (cmp_bytes a a); cbn in H; congruence. Qed.
Lemma cb_lt_gt : forall a b, cmp_bytes a b = Lt -> cmp_bytes b a = Gt.
Proof. intros a b H. rewrite cb_antisym, H. reflexivity. Qed.
Lemma cb_gt_lt : forall a b, cmp_bytes a b = Gt -> cmp_bytes b a = Lt.
Proof. intros a b H. rewrite cb_antisym, H. reflexivity. Qed.

Ltac cbs :=
  repeat (cbn [sched_insert obind CompOpp];
          match goal with
          | H : cmp_bytes ?a ?b = _ |- context [cmp_bytes ?a ?b] => rewrite H
          end);
  try reflexivity.

Lemma sched_insert_comm : forall x y m,
  obind (sched_insert x m) (sched_insert y) = obind (sched_insert y m) (sched_insert x).
Proof.
  intros x y. induction m as [|e m IH].
  - cbn [sched_insert obind]. rewrite (cb_antisym (vi_key x) (vi_key y)).
    destruct (cmp_bytes (vi_key x) (vi_key y)); reflexivity.
  - destruct (cmp_bytes (vi_key y) (vi_key e)) eqn:E2; destruct (cmp_bytes (vi_key x) (vi_key e)) eqn:E1.
    + cbs.
    + (* ky = k, kx < k *) assert (Hk : vi_key y = vi_key e) by (apply cb_eq; exact E2).
      assert (G : cmp_bytes (vi_key y) (vi_key x) = Gt) by (rewrite Hk; apply cb_lt_gt; exact E1).
      cbs.
    + (* ky = k, kx > k *) cbs.
      destruct (sched_insert x m); cbs.
    + assert (Hk : vi_key x = vi_key e) by (apply cb_eq; exact E1).
      assert (G : cmp_bytes (vi_key x) (vi_key y) = Gt) by (rewrite Hk; apply cb_lt_gt; exact E2).
      cbs.
    + destruct (cmp_bytes (vi_key x) (vi_key y)) eqn:E.
      * assert (G : cmp_bytes (vi_key y) (vi_key x) = Eq) by (rewrite cb_antisym, E; reflexivity). cbs.
      * pose proof (cb_lt_gt _ _ E) as G. cbs.
      * pose proof (cb_gt_lt _ _ E) as G. cbs.
    + assert (E : cmp_bytes (vi_key y) (vi_key x) = Lt) by (eapply cb_trans; [exact E2 | apply cb_gt_lt; exact E1]).
      pose proof (cb_lt_gt _ _ E) as G. cbs.
      destruct (sched_insert x m); cbs.
    + cbs. destruct (sched_insert y m); cbs.
    + assert (E : cmp_bytes (vi_key x) (vi_key y) = Lt) by (eapply cb_trans; [exact E1 | apply cb_gt_lt; exact E2]).
      pose proof (cb_lt_gt _ _ E) as G. cbs.
      destruct (sched_insert y m); cbs.
    + cbs.
      destruct (sched_insert x m) as [mx|] eqn:Ex; destruct (sched_insert y m) as [my|] eqn:Ey;
        cbn [obind] in *; cbs.
      * destruct (sched_insert y mx); destruct (sched_insert x my); cbn [obind] in *; congruence.
      * destruct (sched_insert y mx); cbn [obind] in *; congruence.
      * destruct (sched_insert x my); cbn [obind] in *; congruence.
Qed.

(* one iteration of the loop of Schedule::new on (map, total_weight); None = the function returned an error *)
Definition sched_step (s : option (list ValidatorInfo * Z)) (v : ValidatorInfo) : option (list ValidatorInfo * Z) :=
  match s with
  | None => None
  | Some (m, t) =>
      match sched_insert v m with
      | None => None
      | Some m' =>
          if vi_weight v <=? 0 then None
          else if two64 <=? t + vi_weight v then None
          else Some (m', t + vi_weight v)
      end
  end.
Definition sched_final (s : option (list ValidatorInfo * Z)) : res (list ValidatorInfo) :=
  match s with
  | None => err
  | Some (m, _) => match m with [] => err | _ => if existsb vi_leader m then Ok m else err end
  end.

Lemma sched_new_fold : forall vs m t, sched_new vs m t = sched_final (fold_left sched_step vs (Some (m, t))).
Proof.
  induction vs as [|v vs IH]; intros m t; [reflexivity|].
  cbn [sched_new fold_left sched_step].
  destruct (sched_insert v m) as [m'|].
  - destruct (vi_weight v <=? 0); [|destruct (two64 <=? t + vi_weight v)]; try apply IH;
      clear; induction vs; cbn [fold_left sched_step]; auto.
  - clear. induction vs; cbn [fold_left sched_step]; auto.
Qed.

Lemma sched_step_comm : forall s x y, sched_step (sched_step s x) y = sched_step (sched_step s y) x.
Proof.
  intros [[m t]|] x y; [|reflexivity]. pose proof (sched_insert_comm x y m) as H.
  cbn [sched_step].
  destruct (sched_insert x m) as [mx|] eqn:Ex; destruct (sched_insert y m) as [my|] eqn:Ey; cbn [obind] in H.
  - destruct (vi_weight x <=? 0) eqn:Wx; destruct (vi_weight y <=? 0) eqn:Wy;
      destruct (two64 <=? t + vi_weight x) eqn:Tx; destruct (two64 <=? t + vi_weight y) eqn:Ty;
      cbn [sched_step]; rewrite ?Wx, ?Wy; try rewrite H;
      destruct (sched_insert x my); try rewrite <- H; try reflexivity;
      destruct (sched_insert y mx); try reflexivity;
      repeat match goal with
             | H : (_ <=? _) = true |- _ => apply Z.leb_le in H
             | H : (_ <=? _) = false |- _ => apply Z.leb_gt in H
             end;
      repeat match goal with
             | |- context [?a <=? ?b] => let E := fresh "E" in destruct (a <=? b) eqn:E;
                                          [apply Z.leb_le in E | apply Z.leb_gt in E]
             end; try reflexivity; try lia; try (inversion H; subst; f_equal; f_equal; lia).
  - destruct (vi_weight x <=? 0); [reflexivity|]. destruct (two64 <=? t + vi_weight x); [reflexivity|].
    cbn [sched_step]. rewrite H. reflexivity.
  - destruct (vi_weight y <=? 0); [reflexivity|]. destruct (two64 <=? t + vi_weight y); [reflexivity|].
    cbn [sched_step]. rewrite <- H. reflexivity.
  - reflexivity.
Qed.

Lemma fold_step_perm : forall l l', Permutation l l' ->
  forall s, fold_left sched_step l s = fold_left sched_step l' s.
Proof.
  intros l l' H. induction H as [|x l l' H IH|x y l|l1 l2 l3 H1 IH1 H2 IH2]; intros s.
  - reflexivity.
  - cbn [fold_left]. apply IH.
  - cbn [fold_left]. rewrite sched_step_comm. reflexivity.
  - rewrite IH1. apply IH2.
Qed.

Theorem schedule_new_order_irrelevant : forall l l', Permutation l l' -> sched_new l [] 0 = sched_new l' [] 0.
Proof. intros l l' H. rewrite !sched_new_fold. rewrite (fold_step_perm l l' H). reflexivity. Qed.
