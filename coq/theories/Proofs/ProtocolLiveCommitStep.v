(* C06 on the protocol model, part 5a: replica-level facts for the commit of one view.
   What the handlers' sub-operations leave alone (frame), the handlers as "rejected without a
   trace, or accepted" case distinctions, steps that do not change the view, where recorded
   commit views come from, accepted proposals / the view timer / quorums explicitly, and the
   certificate under construction for one vote (bits survive, entries change only for their
   own vote). *)
From Coq Require Import ZArith List Bool Lia.
From EC Require Import Lib.Outcome Lib.U64 Lib.ListW Lib.Obs Model.Msgs Model.Replica Model.ReplicaRun
  Model.Protocol Model.ProtocolSync Proofs.MsgsFacts Proofs.QCProofs Proofs.ReplicaMono Proofs.ReplicaLive
  Proofs.ReplicaCrash.
From EC Require Proofs.ReplicaCaches Proofs.ReplicaJustified.
Import ListNotations.
Open Scope Z_scope.
Module RC := ReplicaCaches.

(* ================================================================== *)
(* 1. what the sub-operations of the handlers leave alone              *)
(* ================================================================== *)
Definition frame (s s' : rstate) : Prop :=
  r_view s' = r_view s /\ r_phase s' = r_phase s /\ r_high_vote s' = r_high_vote s /\
  r_cache s' = r_cache s /\ r_commit_views s' = r_commit_views s /\ r_commit_qcs s' = r_commit_qcs s /\
  r_store_first s' = r_store_first s /\ r_store_next s <= r_store_next s'.

Lemma frame_refl s : frame s s.
Proof. unfold frame. repeat split; lia. Qed.
Lemma frame_trans a b c : frame a b -> frame b c -> frame a c.
Proof. unfold frame. intros (A1&A2&A3&A4&A5&A6&A7&A8) (B1&B2&B3&B4&B5&B6&B7&B8).
  repeat split; try congruence; lia. Qed.

(* the same without the commit caches *)
Definition frame0 (s s' : rstate) : Prop :=
  r_view s' = r_view s /\ r_phase s' = r_phase s /\ r_high_vote s' = r_high_vote s /\
  r_cache s' = r_cache s /\ r_store_first s' = r_store_first s /\ r_store_next s <= r_store_next s'.
Lemma frame_frame0 s s' : frame s s' -> frame0 s s'.
Proof. intros (A1&A2&A3&A4&_&_&A7&A8). repeat split; assumption. Qed.
Lemma frame0_caches s vs qs : frame0 s (set_commit_caches s vs qs).
Proof. unfold frame0; cbn. repeat split; lia. Qed.

Definition cq_in (o : option cqc) (s s' : rstate) : Prop :=
  r_high_cqc s' = r_high_cqc s \/ (exists q, o = Some q /\ r_high_cqc s' = Some q).

Lemma save_block_frame cfg s q : frame s (st_of (save_block cfg s q)) /\
  r_high_cqc (st_of (save_block cfg s q)) = r_high_cqc s /\ r_high_tqc (st_of (save_block cfg s q)) = r_high_tqc s.
Proof.
  unfold save_block. destruct (cache_has _ _ _); [|split; [apply frame_refl|split; reflexivity]].
  destruct (_ <? _); [split; [apply frame_refl|split; reflexivity]|].
  destruct (_ =? _) eqn:E; [|split; [apply frame_refl|split; reflexivity]].
  apply Z.eqb_eq in E. unfold st_of, frame; cbn. repeat split; lia.
Qed.

Lemma process_commit_qc_frame cfg s q :
  frame s (st_of (process_commit_qc cfg s q)) /\
  (r_high_cqc (st_of (process_commit_qc cfg s q)) = r_high_cqc s \/
   r_high_cqc (st_of (process_commit_qc cfg s q)) = Some q) /\
  r_high_tqc (st_of (process_commit_qc cfg s q)) = r_high_tqc s.
Proof.
  unfold process_commit_qc.
  match goal with |- context [if ?c then _ else _] => destruct c end;
    [|split; [apply frame_refl|split; [left; reflexivity|reflexivity]]].
  destruct (save_block_frame cfg (set_high_cqc s (Some q)) q) as (F & Hq & Ht).
  split; [exact F|]. split; [right; rewrite Hq; reflexivity|rewrite Ht; reflexivity].
Qed.

Lemma hbind_st {A B} (x : hres A) (f : rstate -> A -> hres B) :
  st_of (hbind x f) = match snd x with Ok a => st_of (f (st_of x) a) | _ => st_of x end.
Proof. destruct x as [[s es] r]. unfold hbind, st_of. cbn [fst snd]. destruct r; [|reflexivity|reflexivity].
  destruct (f s a) as [[s2 es2] r2]. reflexivity. Qed.

Lemma process_timeout_qc_frame cfg s t :
  frame s (st_of (process_timeout_qc cfg s t)) /\
  (r_high_cqc (st_of (process_timeout_qc cfg s t)) = r_high_cqc s \/
   exists q, high_qc t = Some q /\ r_high_cqc (st_of (process_timeout_qc cfg s t)) = Some q).
Proof.
  unfold process_timeout_qc. rewrite hbind_st.
  destruct (high_qc t) as [q|].
  - destruct (process_commit_qc_frame cfg s q) as (F & Hq & _).
    destruct (snd (process_commit_qc cfg s q)) as [[]|e|p].
    + set (s1 := st_of (process_commit_qc cfg s q)) in *.
      match goal with |- context [if ?c then _ else _] => destruct c end; unfold st_of, hret; cbn [fst];
        (split; [|destruct Hq as [Hq|Hq]; [left; exact Hq|right; exists q; split; [reflexivity|exact Hq]]]).
      * eapply frame_trans; [exact F|]. unfold frame; cbn. repeat split; lia.
      * exact F.
    + split; [exact F|]. destruct Hq as [Hq|Hq]; [left; exact Hq|right; exists q; split; [reflexivity|exact Hq]].
    + split; [exact F|]. destruct Hq as [Hq|Hq]; [left; exact Hq|right; exists q; split; [reflexivity|exact Hq]].
  - unfold hret at 1. cbn [snd fst st_of].
    match goal with |- context [if ?c then _ else _] => destruct c end; unfold st_of, hret; cbn [fst].
    + split; [unfold frame; cbn; repeat split; lia|left; reflexivity].
    + split; [apply frame_refl|left; reflexivity].
Qed.

Definition just_hq (j : justification) : option cqc :=
  match j with JCommit q => Some q | JTimeout t => high_qc t end.

Lemma process_justification_frame cfg s j :
  frame s (st_of (process_justification cfg s j)) /\
  (r_high_cqc (st_of (process_justification cfg s j)) = r_high_cqc s \/
   exists q, just_hq j = Some q /\ r_high_cqc (st_of (process_justification cfg s j)) = Some q).
Proof.
  destruct j as [q|t]; cbn [process_justification just_hq].
  - destruct (process_commit_qc_frame cfg s q) as (F & Hq & _). split; [exact F|].
    destruct Hq as [Hq|Hq]; [left; exact Hq|right; exists q; auto].
  - apply process_timeout_qc_frame.
Qed.

(* a newer certificate whose block is cached gets its block stored *)
Lemma process_commit_qc_stores cfg s q :
  (forall cur, r_high_cqc s = Some cur -> vnum (cview (qmsg cur)) < vnum (cview (qmsg q))) ->
  cache_has (r_cache s) (hnum (cprop (qmsg q))) (hpay (cprop (qmsg q))) = true ->
  snd (process_commit_qc cfg s q) = Ok tt ->
  hnum (cprop (qmsg q)) < r_store_next (st_of (process_commit_qc cfg s q)).
Proof.
  intros Hnew Hc. unfold process_commit_qc.
  assert (E : match r_high_cqc s with None => true | Some cur => vnum (cview (qmsg cur)) <? vnum (cview (qmsg q)) end = true).
  { destruct (r_high_cqc s) as [cur|]; [|reflexivity]. apply Z.ltb_lt. apply Hnew. reflexivity. }
  rewrite E. unfold save_block. cbn [set_high_cqc r_cache r_store_next]. rewrite Hc.
  destruct (r_store_next s <? _) eqn:E1; [cbn; discriminate|].
  destruct (r_store_next s =? _) eqn:E2; unfold st_of; cbn; intros _.
  - lia.
  - apply Z.ltb_ge in E1. apply Z.eqb_neq in E2. lia.
Qed.

(* start_new_view, explicitly *)
Lemma start_new_view_ok cfg s v j :
  get_justification (set_phase (set_view s v) Prepare) = Ok j ->
  exists s', start_new_view cfg s v = (s', [ENotifyProposer j; EPersist (backup cfg s'); ESend (MNewView j)], Ok tt) /\
    r_view s' = v /\ r_phase s' = Prepare /\ r_high_vote s' = r_high_vote s /\
    r_high_cqc s' = r_high_cqc s /\ r_high_tqc s' = r_high_tqc s /\
    r_store_next s' = r_store_next s /\ r_store_first s' = r_store_first s /\
    r_commit_views s' = r_commit_views s /\ r_commit_qcs s' = r_commit_qcs s.
Proof.
  intros Ej. unfold start_new_view. rewrite Ej. unfold hbind, hemit, backup_state.
  destruct (r_high_cqc (set_phase (set_view s v) Prepare)) as [q|] eqn:Eq; eexists; (split; [reflexivity|]); cbn; auto 12.
Qed.

Lemma get_justification_total s : (r_high_cqc s <> None \/ r_high_tqc s <> None) -> exists j, get_justification s = Ok j.
Proof.
  intros H. unfold get_justification.
  destruct (r_high_cqc s) as [q|] eqn:Eq, (r_high_tqc s) as [t|] eqn:Et; cbn [option_map].
  - match goal with |- context [if ?c then _ else _] => destruct c end; eauto.
  - cbn. eauto.
  - cbn. eauto.
  - destruct H as [H|H]; congruence.
Qed.

(* ================================================================== *)
(* 2. the handlers: rejected without a trace, or accepted               *)
(* ================================================================== *)
Definition prop_pre (cfg : config) (s : rstate) (key : Z) (sg : bool) (j : justification) (mv : view) : Prop :=
  justification_view (E := unit) (cchk cfg) j = Ok mv /\
  ((vnum mv <? r_view s) || ((vnum mv =? r_view s) && negb (phase_eqb (r_phase s) Prepare))) = false /\
  key = cleader cfg (vnum mv) /\ sg = true /\
  justification_verify (cg cfg) (ce cfg) (cC cfg) j = Ok tt.

Lemma on_proposal_cases cfg s key sg p j :
  (exists r, on_proposal cfg s key sg p j = (s, [], r) /\ is_ok r = false /\
             (r = Err RMissingPreviousPayload ->
              exists mv n, prop_pre cfg s key sg j mv /\
                get_implied_block (E := unit) (cchk cfg) (cC cfg) (cfirst cfg) j = Ok (n, None) /\
                ((0 <? n) && negb (n - 1 <? r_store_next s)) = true))
  \/ (exists mv n oh s1 hash, prop_pre cfg s key sg j mv /\
        get_implied_block (E := unit) (cchk cfg) (cC cfg) (cfirst cfg) j = Ok (n, oh) /\
        (n <? r_store_first s) = false /\
        ((oh = Some hash /\ p = None /\ s1 = s) \/
         (oh = None /\ p = Some hash /\ (cmaxpay cfg <? cpsize cfg hash) = false /\
          ((0 <? n) && negb (n - 1 <? r_store_next s)) = false /\
          ((cfirst cfg <=? n) && cpok cfg n hash) = true /\
          s1 = set_cache s (cache_insert (r_cache s) n hash))) /\
        on_proposal cfg s key sg p j =
          hbind (process_justification cfg
                   (set_high_vote (set_phase (set_view s1 (vnum mv)) PCommit)
                      (Some {| cview := mv; cprop := {| hnum := n; hpay := hash |} |})) j)
            (fun s _ => hbind (backup_state cfg s) (fun s _ =>
               hemit s (ESend (MCommit {| cview := mv; cprop := {| hnum := n; hpay := hash |} |}))))).
Proof.
  unfold on_proposal.
  destruct (justification_view (E := unit) (cchk cfg) j) as [mv|e|pn] eqn:Ejv; cbn [lift];
    [|left; eexists; split; [reflexivity|split; [reflexivity|discriminate]]
     |left; eexists; split; [reflexivity|split; [reflexivity|discriminate]]].
  rewrite hbind_hret. cbv zeta.
  destruct ((vnum mv <? r_view s) || _) eqn:Eold;
    [left; eexists; split; [reflexivity|split; [reflexivity|discriminate]]|].
  destruct (key =? cleader cfg (vnum mv)) eqn:Ekey; cbn [negb];
    [|left; eexists; split; [reflexivity|split; [reflexivity|discriminate]]].
  apply Z.eqb_eq in Ekey.
  destruct sg; cbn [negb];
    [|left; eexists; split; [reflexivity|split; [reflexivity|discriminate]]].
  destruct (justification_verify (cg cfg) (ce cfg) (cC cfg) j) as [[]|e|pn] eqn:Ever;
    [|left; eexists; split; [reflexivity|split; [reflexivity|discriminate]]
     |left; eexists; split; [reflexivity|split; [reflexivity|discriminate]]].
  assert (Hpre : prop_pre cfg s key true j mv) by (repeat split; assumption).
  destruct (get_implied_block (E := unit) (cchk cfg) (cC cfg) (cfirst cfg) j) as [[n oh]|e|pn] eqn:Eimp; cbn [lift];
    [|left; eexists; split; [reflexivity|split; [reflexivity|discriminate]]
     |left; eexists; split; [reflexivity|split; [reflexivity|discriminate]]].
  rewrite hbind_hret.
  destruct (n <? r_store_first s) eqn:Epr;
    [left; eexists; split; [reflexivity|split; [reflexivity|discriminate]]|].
  destruct oh as [h|].
  - destruct p as [pl|]; [left; eexists; split; [reflexivity|split; [reflexivity|discriminate]]|].
    rewrite hbind_hret. right. exists mv, n, (Some h), s, h. repeat split; auto.
  - destruct p as [pl|]; [|left; eexists; split; [reflexivity|split; [reflexivity|discriminate]]].
    destruct (cmaxpay cfg <? cpsize cfg pl) eqn:Esz;
      [left; eexists; split; [reflexivity|split; [reflexivity|discriminate]]|].
    destruct ((0 <? n) && negb (n - 1 <? r_store_next s)) eqn:Emiss;
      [left; eexists; split; [reflexivity|split; [reflexivity|intros _; exists mv, n; auto]]|].
    destruct ((cfirst cfg <=? n) && cpok cfg n pl) eqn:Epok; cbn [negb];
      [|left; eexists; split; [reflexivity|split; [reflexivity|discriminate]]].
    rewrite hbind_hret. right. exists mv, n, None, (set_cache s (cache_insert (r_cache s) n pl)), pl.
    split; [exact Hpre|]. split; [reflexivity|]. split; [exact Epr|]. split; [|reflexivity].
    right. repeat split; auto.
Qed.

Lemma on_commit_cases cfg s key sg c : RC.cache_inv cfg s ->
  (exists r, on_commit cfg s key sg c = (s, [], r) /\ is_ok r = false)
  \/ (exists i0, cindex (cC cfg) key = Some i0 /\ (vnum (cview c) <? r_view s) = false /\
        RC.fresh (r_commit_views s) key (vnum (cview c)) /\ sg = true /\
        commit_verify (cg cfg) (ce cfg) c = Ok tt /\
        on_commit cfg s key sg c = RC.on_commit_accept cfg s key c i0).
Proof.
  intros Hinv.
  destruct (cindex (cC cfg) key) as [i0|] eqn:Hk.
  2:{ left. unfold on_commit, ccontains. rewrite Hk. cbn [negb]. eexists; split; [reflexivity|reflexivity]. }
  destruct (vnum (cview c) <? r_view s) eqn:Hold.
  { left. unfold on_commit, ccontains. cbv zeta. rewrite Hk. cbn [negb]. rewrite Hold. eexists; split; reflexivity. }
  destruct (match zmap_get (r_commit_views s) key with Some v' => vnum (cview c) <=? v' | None => false end) eqn:Efresh.
  { left. unfold on_commit, ccontains. cbv zeta. rewrite Hk. cbn [negb]. rewrite Hold, Efresh. eexists; split; reflexivity. }
  destruct sg.
  2:{ left. unfold on_commit, ccontains. cbv zeta. rewrite Hk. cbn [negb]. rewrite Hold, Efresh. eexists; split; reflexivity. }
  destruct (commit_verify (cg cfg) (ce cfg) c) as [[]|e|p] eqn:Ev.
  - right. exists i0. repeat split; auto. apply RC.on_commit_eq; assumption.
  - left. unfold on_commit, ccontains. cbv zeta. rewrite Hk. cbn [negb]. rewrite Hold, Efresh, Ev. eexists; split; reflexivity.
  - left. unfold on_commit, ccontains. cbv zeta. rewrite Hk. cbn [negb]. rewrite Hold, Efresh, Ev. eexists; split; reflexivity.
Qed.

Lemma on_timeout_cases cfg s key sg t : RC.cache_inv cfg s ->
  (exists r, on_timeout cfg s key sg t = (s, [], r) /\ is_ok r = false)
  \/ (exists i0, cindex (cC cfg) key = Some i0 /\ (vnum (tview t) <? r_view s) = false /\
        RC.fresh (r_timeout_views s) key (vnum (tview t)) /\ sg = true /\
        timeout_verify (cg cfg) (ce cfg) (cC cfg) t = Ok tt /\
        on_timeout cfg s key sg t = RC.on_timeout_accept cfg s key t i0).
Proof.
  intros Hinv.
  destruct (cindex (cC cfg) key) as [i0|] eqn:Hk.
  2:{ left. unfold on_timeout, ccontains. rewrite Hk. cbn [negb]. eexists; split; reflexivity. }
  destruct (vnum (tview t) <? r_view s) eqn:Hold.
  { left. unfold on_timeout, ccontains. cbv zeta. rewrite Hk. cbn [negb]. rewrite Hold. eexists; split; reflexivity. }
  destruct (match zmap_get (r_timeout_views s) key with Some v' => vnum (tview t) <=? v' | None => false end) eqn:Efresh.
  { left. unfold on_timeout, ccontains. cbv zeta. rewrite Hk. cbn [negb]. rewrite Hold, Efresh. eexists; split; reflexivity. }
  destruct sg.
  2:{ left. unfold on_timeout, ccontains. cbv zeta. rewrite Hk. cbn [negb]. rewrite Hold, Efresh. eexists; split; reflexivity. }
  destruct (timeout_verify (cg cfg) (ce cfg) (cC cfg) t) as [[]|e|p] eqn:Ev.
  - right. exists i0. repeat split; auto. apply RC.on_timeout_eq; assumption.
  - left. unfold on_timeout, ccontains. cbv zeta. rewrite Hk. cbn [negb]. rewrite Hold, Efresh, Ev. eexists; split; reflexivity.
  - left. unfold on_timeout, ccontains. cbv zeta. rewrite Hk. cbn [negb]. rewrite Hold, Efresh, Ev. eexists; split; reflexivity.
Qed.

Lemma on_new_view_cases cfg s key sg j :
  (exists r, on_new_view cfg s key sg j = (s, [], r) /\ is_ok r = false)
  \/ (exists mv, justification_view (E := unit) (cchk cfg) j = Ok mv /\
        ((vnum mv <? r_view s) || ((vnum mv =? r_view s) && negb (key =? cleader cfg (r_view s)))) = false /\
        justification_verify (cg cfg) (ce cfg) (cC cfg) j = Ok tt /\
        on_new_view cfg s key sg j =
          hbind (process_justification cfg s j) (fun s _ =>
            if r_view s <? vnum mv then start_new_view cfg s (vnum mv) else hret s tt)).
Proof.
  unfold on_new_view.
  destruct (justification_view (E := unit) (cchk cfg) j) as [mv|e|pn] eqn:Ejv; cbn [lift];
    [|left; eexists; split; reflexivity|left; eexists; split; reflexivity].
  rewrite hbind_hret. cbv zeta.
  destruct ((vnum mv <? r_view s) || _) eqn:Eold; [left; eexists; split; reflexivity|].
  destruct (ccontains cfg key); cbn [negb]; [|left; eexists; split; reflexivity].
  destruct sg; cbn [negb]; [|left; eexists; split; reflexivity].
  destruct (justification_verify (cg cfg) (ce cfg) (cC cfg) j) as [[]|e|pn] eqn:Ever;
    [|left; eexists; split; reflexivity|left; eexists; split; reflexivity].
  right. exists mv. repeat split; auto.
Qed.

(* ================================================================== *)
(* 3. steps that do not change the view                                *)
(* ================================================================== *)
Definition stopsA {A} (r : outcome rerr A) : bool :=
  match r with Panic _ | Err RBlocked | Err RInternal => true | _ => false end.
Definition no_sends (es : list effect) : Prop := Forall quiet_eff es.

Definition only_queue (es : list effect) : Prop :=
  Forall (fun e => match e with EQueueBlock _ _ => True | _ => False end) es.

Lemma only_queue_no_sends es : only_queue es -> no_sends es.
Proof. unfold only_queue, no_sends. apply Forall_impl. intros e H. destruct e; cbn in *; auto. Qed.

Lemma save_block_effs cfg s q : only_queue (snd (fst (save_block cfg s q))).
Proof.
  unfold save_block. destruct (cache_has _ _ _); [|constructor]. destruct (_ <? _); [constructor|].
  destruct (_ =? _); [repeat constructor|constructor].
Qed.
Lemma process_commit_qc_effs cfg s q : only_queue (snd (fst (process_commit_qc cfg s q))).
Proof. unfold process_commit_qc. match goal with |- context [if ?c then _ else _] => destruct c end; [apply save_block_effs|constructor]. Qed.
Lemma hbind_only_queue {A B} (x : hres A) (f : rstate -> A -> hres B) :
  only_queue (snd (fst x)) -> (forall s a, only_queue (snd (fst (f s a)))) -> only_queue (snd (fst (hbind x f))).
Proof.
  destruct x as [[s es] r]. cbn [fst snd]. intros H Hf. unfold hbind. destruct r as [a|e|p]; try exact H.
  specialize (Hf s a). destruct (f s a) as [[s2 es2] r2]. cbn [fst snd] in *. unfold only_queue in *.
  apply Forall_app. split; assumption.
Qed.
Lemma process_timeout_qc_effs cfg s t : only_queue (snd (fst (process_timeout_qc cfg s t))).
Proof.
  unfold process_timeout_qc. apply hbind_only_queue.
  - destruct (high_qc t); [apply process_commit_qc_effs|constructor].
  - intros s1 a. constructor.
Qed.
Lemma process_justification_effs cfg s j : only_queue (snd (fst (process_justification cfg s j))).
Proof. destruct j; [apply process_commit_qc_effs|apply process_timeout_qc_effs]. Qed.


Lemma save_block_res cfg s q : snd (save_block cfg s q) = Ok tt \/ snd (save_block cfg s q) = Err RBlocked.
Proof.
  unfold save_block. destruct (cache_has _ _ _); [|left; reflexivity].
  destruct (_ <? _); [right; reflexivity|]. destruct (_ =? _); left; reflexivity.
Qed.
Lemma process_commit_qc_res cfg s q :
  snd (process_commit_qc cfg s q) = Ok tt \/ snd (process_commit_qc cfg s q) = Err RBlocked.
Proof.
  unfold process_commit_qc. match goal with |- context [if ?c then _ else _] => destruct c end;
    [apply save_block_res|left; reflexivity].
Qed.
Lemma hbind_snd {A B} (x : hres A) (f : rstate -> A -> hres B) :
  snd (hbind x f) = match snd x with Ok a => snd (f (st_of x) a) | Err e => Err e | Panic p => Panic p end.
Proof. destruct x as [[s es] r]. unfold hbind, st_of. cbn [fst snd]. destruct r; try reflexivity.
  destruct (f s a) as [[s2 es2] r2]. reflexivity. Qed.
Lemma hbind_effs {A B} (x : hres A) (f : rstate -> A -> hres B) :
  snd (fst (hbind x f)) = match snd x with Ok a => snd (fst x) ++ snd (fst (f (st_of x) a)) | _ => snd (fst x) end.
Proof. destruct x as [[s es] r]. unfold hbind, st_of. cbn [fst snd]. destruct r; try reflexivity.
  destruct (f s a) as [[s2 es2] r2]. reflexivity. Qed.

Lemma process_timeout_qc_res cfg s t :
  snd (process_timeout_qc cfg s t) = Ok tt \/ snd (process_timeout_qc cfg s t) = Err RBlocked.
Proof.
  unfold process_timeout_qc. rewrite hbind_snd. destruct (high_qc t) as [q|].
  - destruct (process_commit_qc_res cfg s q) as [E|E]; rewrite E; [left; reflexivity|right; reflexivity].
  - left. reflexivity.
Qed.
Lemma process_justification_res cfg s j :
  snd (process_justification cfg s j) = Ok tt \/ snd (process_justification cfg s j) = Err RBlocked.
Proof. destruct j; [apply process_commit_qc_res|apply process_timeout_qc_res]. Qed.

Lemma start_new_view_view cfg s v : r_view (st_of (start_new_view cfg s v)) = v.
Proof.
  unfold start_new_view. destruct (get_justification _) as [j|e|p]; try reflexivity.
  unfold hbind, hemit, backup_state, st_of.
  destruct (r_high_cqc (set_phase (set_view s v) Prepare)); reflexivity.
Qed.

(* the common tail of on_commit / on_timeout once a quorum is reached *)
Lemma tail_view cfg (x : hres unit) v : cchk cfg = true ->
  (snd x = Ok tt \/ snd x = Err RBlocked) ->
  let y := hbind x (fun s _ => hbind (lift s (num_next (cchk cfg) v)) (fun s nv => start_new_view cfg s nv)) in
  stopsA (snd y) = false -> snd x = Ok tt /\ r_view (st_of y) = v + 1.
Proof.
  intros Hchk Hx y Hs. unfold y in *. rewrite hbind_snd in Hs. rewrite hbind_st.
  destruct Hx as [E|E]; rewrite E in *; [|discriminate Hs]. split; [reflexivity|].
  rewrite hbind_st. rewrite hbind_snd in Hs. rewrite Hchk in *.
  destruct (num_next (E := unit) true v) as [nv|e|p] eqn:En; cbn [lift hret hfail hpanic snd] in *; try discriminate.
  apply num_next_chk in En. subst nv. unfold st_of at 2. cbn [fst]. apply start_new_view_view.
Qed.

Lemma start_new_view_store cfg s v :
  r_store_next (st_of (start_new_view cfg s v)) = r_store_next s /\
  r_store_first (st_of (start_new_view cfg s v)) = r_store_first s.
Proof.
  unfold start_new_view. destruct (get_justification _) as [j|e|p]; try (split; reflexivity).
  unfold hbind, hemit, backup_state, st_of.
  destruct (r_high_cqc (set_phase (set_view s v) Prepare)); split; reflexivity.
Qed.

Lemma tail_store cfg (x : hres unit) v :
  let y := hbind x (fun s _ => hbind (lift s (num_next (cchk cfg) v)) (fun s nv => start_new_view cfg s nv)) in
  r_store_next (st_of y) = r_store_next (st_of x).
Proof.
  intros y. unfold y. rewrite hbind_st. destruct (snd x) as [[]|e|p]; try reflexivity.
  rewrite hbind_st. destruct (num_next (cchk cfg) v) as [nv|e|p]; cbn [lift hret hfail hpanic snd]; try reflexivity.
  unfold st_of at 2. cbn [fst]. apply start_new_view_store.
Qed.

Definition commit_q (cfg : config) (s : rstate) (key : Z) (c : commit) (i0 : nat) : cqc :=
  RC.cupd key c i0 (RC.q0_of (cC cfg) (RC.bucket_of (r_commit_qcs s) (vnum (cview c))) c).
Definition commit_views' (s : rstate) (key : Z) (c : commit) := zmap_set (r_commit_views s) key (vnum (cview c)).
Definition commit_qcs' (cfg : config) (s : rstate) (key : Z) (c : commit) (i0 : nat) :=
  retain_views (zmap_set (r_commit_qcs s) (vnum (cview c))
                  (cmap_set (RC.bucket_of (r_commit_qcs s) (vnum (cview c))) c (commit_q cfg s key c i0)))
               (commit_views' s key c).

Lemma on_commit_accept_low cfg s key c i0 :
  (weight (cweights (cC cfg)) (qsigners (commit_q cfg s key c i0)) <? quorum (cC cfg)) = true ->
  RC.on_commit_accept cfg s key c i0 =
    hret (set_commit_caches s (commit_views' s key c) (commit_qcs' cfg s key c i0)) tt.
Proof. intros H. unfold RC.on_commit_accept. cbv zeta. fold (commit_q cfg s key c i0). rewrite H. reflexivity. Qed.

Lemma on_commit_accept_high cfg s key c i0 : cchk cfg = true ->
  (weight (cweights (cC cfg)) (qsigners (commit_q cfg s key c i0)) <? quorum (cC cfg)) = false ->
  (vnum (cview c) <? r_view s) = false ->
  stopsA (snd (RC.on_commit_accept cfg s key c i0)) = false ->
  let s2 := set_commit_caches s (commit_views' s key c) (zmap_remove (commit_qcs' cfg s key c i0) (vnum (cview c))) in
  snd (process_commit_qc cfg s2 (commit_q cfg s key c i0)) = Ok tt /\
  r_view (st_of (RC.on_commit_accept cfg s key c i0)) = vnum (cview c) + 1 /\
  r_store_next (st_of (RC.on_commit_accept cfg s key c i0)) =
    r_store_next (st_of (process_commit_qc cfg s2 (commit_q cfg s key c i0))).
Proof.
  intros Hchk H Hold Hs s2. unfold RC.on_commit_accept in *. cbv zeta in *. fold (commit_q cfg s key c i0) in *.
  rewrite H in *. fold (commit_views' s key c) in *. fold (commit_qcs' cfg s key c i0) in *.
  fold s2 in Hs |- *.
  destruct (tail_view cfg (process_commit_qc cfg s2 (commit_q cfg s key c i0)) (vnum (cview c)) Hchk
              (process_commit_qc_res _ _ _) Hs) as [E1 E2].
  split; [exact E1|]. split; [exact E2|apply tail_store].
Qed.

Lemma commit_same_view cfg s key sg c : RC.cache_inv cfg s -> cchk cfg = true ->
  stopsA (snd (on_commit cfg s key sg c)) = false ->
  r_view (st_of (on_commit cfg s key sg c)) = r_view s ->
  (exists r, on_commit cfg s key sg c = (s, [], r) /\ is_ok r = false)
  \/ (exists i0, cindex (cC cfg) key = Some i0 /\ RC.fresh (r_commit_views s) key (vnum (cview c)) /\ sg = true /\
        (vnum (cview c) <? r_view s) = false /\ commit_verify (cg cfg) (ce cfg) c = Ok tt /\
        (weight (cweights (cC cfg)) (qsigners (commit_q cfg s key c i0)) <? quorum (cC cfg)) = true /\
        on_commit cfg s key sg c = hret (set_commit_caches s (commit_views' s key c) (commit_qcs' cfg s key c i0)) tt).
Proof.
  intros Hinv Hchk Hs Hv.
  destruct (on_commit_cases cfg s key sg c Hinv) as [H|(i0 & Hk & Hold & Hf & Hsg & Hver & E)]; [left; exact H|].
  right. exists i0. rewrite E in *.
  destruct (weight (cweights (cC cfg)) (qsigners (commit_q cfg s key c i0)) <? quorum (cC cfg)) eqn:Ew.
  - repeat split; auto. apply on_commit_accept_low. exact Ew.
  - exfalso. destruct (on_commit_accept_high cfg s key c i0 Hchk Ew Hold Hs) as (_ & Hv' & _).
    apply Z.ltb_ge in Hold. lia.
Qed.

Definition timeout_t' (cfg : config) (s : rstate) (key : Z) (t : timeout) (i0 : nat) : tqc :=
  RC.tupd cfg key t i0 (RC.t0_of (r_timeout_qcs s) (tview t)).

Lemma timeout_same_view cfg s key sg t : RC.cache_inv cfg s -> cchk cfg = true ->
  stopsA (snd (on_timeout cfg s key sg t)) = false ->
  r_view (st_of (on_timeout cfg s key sg t)) = r_view s ->
  frame s (st_of (on_timeout cfg s key sg t)) /\ snd (fst (on_timeout cfg s key sg t)) = [] /\
  r_high_cqc (st_of (on_timeout cfg s key sg t)) = r_high_cqc s.
Proof.
  intros Hinv Hchk Hs Hv.
  destruct (on_timeout_cases cfg s key sg t Hinv) as [(r & E & _)|(i0 & Hk & Hold & Hf & Hsg & Hver & E)].
  - rewrite E. unfold st_of. cbn. split; [apply frame_refl|auto].
  - rewrite E in *. unfold RC.on_timeout_accept in *. cbv zeta in *.
    match goal with |- context [if ?c then _ else _] => destruct c eqn:Ew end.
    + unfold hret, st_of. cbn. split; [unfold frame; cbn; repeat split; lia|auto].
    + exfalso.
      match type of Hs with stopsA (snd (hbind ?x _)) = false =>
        destruct (tail_view cfg x (vnum (tview t)) Hchk (process_timeout_qc_res _ _ _) Hs) as (_ & Hv') end.
      rewrite Hv' in Hv. apply Z.ltb_ge in Hold. lia.
Qed.

Lemma new_view_same_view cfg s key sg j :
  r_view (st_of (on_new_view cfg s key sg j)) = r_view s ->
  (exists r, on_new_view cfg s key sg j = (s, [], r) /\ is_ok r = false)
  \/ (justification_verify (cg cfg) (ce cfg) (cC cfg) j = Ok tt /\
      frame s (st_of (on_new_view cfg s key sg j)) /\ only_queue (snd (fst (on_new_view cfg s key sg j))) /\
      (r_high_cqc (st_of (on_new_view cfg s key sg j)) = r_high_cqc s \/
       exists q, just_hq j = Some q /\ r_high_cqc (st_of (on_new_view cfg s key sg j)) = Some q)).
Proof.
  intros Hv. destruct (on_new_view_cases cfg s key sg j) as [H|(mv & Ejv & Eold & Ever & E)]; [left; exact H|].
  right. split; [exact Ever|]. rewrite E in *.
  destruct (process_justification_frame cfg s j) as [F Hq].
  pose proof (process_justification_effs cfg s j) as Hqe.
  pose proof (process_justification_view cfg s j) as Hpv.
  rewrite hbind_st in *. rewrite hbind_effs.
  destruct (snd (process_justification cfg s j)) as [[]|e|p]; [|auto|auto].
  destruct (r_view (st_of (process_justification cfg s j)) <? vnum mv) eqn:Elt.
  - exfalso. rewrite start_new_view_view in Hv. apply Z.ltb_lt in Elt.
    change (ReplicaMono.st_of (process_justification cfg s j)) with (st_of (process_justification cfg s j)) in Hpv. lia.
  - unfold hret, st_of at 1 4 5. cbn [fst snd]. rewrite app_nil_r. auto.
Qed.

(* ================================================================== *)
(* 4. where the recorded commit views come from                        *)
(* ================================================================== *)
Lemma start_new_view_cc cfg s v :
  r_commit_views (st_of (start_new_view cfg s v)) = r_commit_views s /\
  r_commit_qcs (st_of (start_new_view cfg s v)) = r_commit_qcs s.
Proof.
  pose proof (RC.start_new_view_keeps cfg s v _ eq_refl) as H. unfold RC.keeps, RC.caches in H.
  change (RC.st_of (start_new_view cfg s v)) with (st_of (start_new_view cfg s v)) in H.
  inversion H. auto.
Qed.

Lemma tail_cc cfg (x : hres unit) v :
  let y := hbind x (fun s _ => hbind (lift s (num_next (cchk cfg) v)) (fun s nv => start_new_view cfg s nv)) in
  r_commit_views (st_of y) = r_commit_views (st_of x) /\ r_commit_qcs (st_of y) = r_commit_qcs (st_of x).
Proof.
  intros y. unfold y. rewrite hbind_st. destruct (snd x) as [[]|e|p]; try (split; reflexivity).
  rewrite hbind_st. destruct (num_next (cchk cfg) v) as [nv|e|p]; cbn [lift hret hfail hpanic snd]; try (split; reflexivity).
  unfold st_of at 2 4. cbn [fst]. apply start_new_view_cc.
Qed.

Lemma on_commit_accept_views cfg s key c i0 :
  r_commit_views (st_of (RC.on_commit_accept cfg s key c i0)) = commit_views' s key c.
Proof.
  unfold RC.on_commit_accept. cbv zeta. fold (commit_q cfg s key c i0).
  fold (commit_views' s key c). fold (commit_qcs' cfg s key c i0).
  destruct (_ <? _); [reflexivity|].
  match goal with |- context [hbind ?x _] => destruct (tail_cc cfg x (vnum (cview c))) as [E _]; cbv zeta in E; rewrite E;
    destruct (process_commit_qc_frame cfg (set_commit_caches s (commit_views' s key c)
       (zmap_remove (commit_qcs' cfg s key c i0) (vnum (cview c)))) (commit_q cfg s key c i0)) as ((_&_&_&_&F&_) & _) end.
  rewrite F. reflexivity.
Qed.

Lemma on_timeout_cc cfg s key sg t : RC.cache_inv cfg s ->
  r_commit_views (st_of (on_timeout cfg s key sg t)) = r_commit_views s /\
  r_commit_qcs (st_of (on_timeout cfg s key sg t)) = r_commit_qcs s.
Proof.
  intros Hinv. destruct (on_timeout_cases cfg s key sg t Hinv) as [(r & E & _)|(i0 & _ & _ & _ & _ & _ & E)]; rewrite E.
  - split; reflexivity.
  - unfold RC.on_timeout_accept. cbv zeta. destruct (_ <? _); [split; reflexivity|].
    match goal with |- context [hbind (process_timeout_qc cfg ?s2 ?t') _] =>
      destruct (tail_cc cfg (process_timeout_qc cfg s2 t') (vnum (tview t))) as [E1 E2]; cbv zeta in E1, E2; rewrite E1, E2;
      destruct (process_timeout_qc_frame cfg s2 t') as ((_&_&_&_&F1&F2&_) & _); rewrite F1, F2 end.
    split; reflexivity.
Qed.

Lemma start_timeout_cc cfg s :
  r_commit_views (st_of (start_timeout cfg s)) = r_commit_views s /\
  r_commit_qcs (st_of (start_timeout cfg s)) = r_commit_qcs s.
Proof.
  pose proof (RC.start_timeout_keeps cfg s _ eq_refl) as H. unfold RC.keeps, RC.caches in H.
  change (RC.st_of (start_timeout cfg s)) with (st_of (start_timeout cfg s)) in H. inversion H. auto.
Qed.

(* the commit views recorded after a step: unchanged, or the signed vote just delivered *)
Lemma rstep_t_commit_views cfg s i : RC.cache_inv cfg s ->
  r_commit_views (st_of (rstep_t cfg s i)) = r_commit_views s \/
  exists m c, i = IMsg m /\ m_msg m = MCommit c /\ m_sig_ok m = true /\
    r_commit_views (st_of (rstep_t cfg s i)) = zmap_set (r_commit_views s) (m_key m) (vnum (cview c)).
Proof.
  intros Hinv.
  assert (H : r_commit_views (st_of (rstep cfg s i)) = r_commit_views s \/
    exists m c, i = IMsg m /\ m_msg m = MCommit c /\ m_sig_ok m = true /\
      r_commit_views (st_of (rstep cfg s i)) = zmap_set (r_commit_views s) (m_key m) (vnum (cview c))).
  { destruct i as [m| |n h]; cbn [rstep].
    - destruct (m_msg m) as [p j|c|t|j] eqn:Em.
      + left. pose proof (RC.on_proposal_keeps cfg s (m_key m) (m_sig_ok m) p j _ eq_refl) as H.
        unfold RC.keeps, RC.caches in H. inversion H. reflexivity.
      + destruct (on_commit_cases cfg s (m_key m) (m_sig_ok m) c Hinv) as [(r & E & _)|(i0 & _ & _ & _ & Hsg & _ & E)]; rewrite E.
        * left. reflexivity.
        * right. exists m, c. split; [reflexivity|]. split; [exact Em|]. split; [exact Hsg|].
          apply on_commit_accept_views.
      + left. apply on_timeout_cc. exact Hinv.
      + left. pose proof (RC.on_new_view_keeps cfg s (m_key m) (m_sig_ok m) j _ eq_refl) as H.
        unfold RC.keeps, RC.caches in H. inversion H. reflexivity.
    - left. apply start_timeout_cc.
    - left. destruct (_ =? _); reflexivity. }
  unfold rstep_t. destruct (rstep cfg s i) as [[s' es] r] eqn:Es. unfold st_of in H. cbn [fst] in H.
  assert (Hdef : st_of (s', es, r) = s') by reflexivity.
  destruct r as [a|e|p]; try exact H. destruct e; try exact H.
  pose proof (start_timeout_cc cfg s') as [Hc _].
  destruct (start_timeout cfg s') as [[s2 es2] r2]. unfold st_of in *. cbn [fst] in *. rewrite Hc. exact H.
Qed.

Definition CV (hon : Z -> bool) (soup : list sgmsg) (s : rstate) : Prop :=
  forall h v, hon h = true -> zmap_get (r_commit_views s) h = Some v ->
  exists c, vnum (cview c) = v /\ In {| m_key := h; m_sig_ok := true; m_msg := MCommit c |} soup.

Lemma CV_mono hon soup soup' s : (forall m, In m soup -> In m soup') -> CV hon soup s -> CV hon soup' s.
Proof. intros Hi H h v Hh Hg. destruct (H h v Hh Hg) as (c & E & Hin). exists c. auto. Qed.

Lemma CV_step hon soup cfg s i : RC.cache_inv cfg s -> CV hon soup s ->
  (forall m, i = IMsg m -> In m soup) -> CV hon soup (st_of (rstep_t cfg s i)).
Proof.
  intros Hinv H Hi. destruct (rstep_t_commit_views cfg s i Hinv) as [E|(m & c & -> & Em & Hsg & E)];
    unfold CV; rewrite E; [exact H|].
  intros h v Hh Hg. rewrite RC.zmap_get_set in Hg. destruct (m_key m =? h) eqn:Ek.
  - inversion Hg; subst v. apply Z.eqb_eq in Ek. exists c. split; [reflexivity|].
    specialize (Hi m eq_refl). destruct m as [mk ms mm]. cbn in *. subst. exact Hi.
  - apply H; assumption.
Qed.

(* ================================================================== *)
(* 5. rstep_t = rstep except for a proposal that misses its deadline   *)
(* ================================================================== *)
Definition nmr {A} (r : outcome rerr A) : Prop := r <> Err RMissingPreviousPayload.

Lemma start_new_view_nm cfg s v : nmr (snd (start_new_view cfg s v)).
Proof.
  unfold start_new_view. destruct (get_justification _) as [j|e|p] eqn:E; unfold nmr.
  - unfold hbind, hemit, backup_state. destruct (r_high_cqc _); cbn; discriminate.
  - exfalso. unfold get_justification in E.
    destruct (r_high_cqc _), (r_high_tqc _); cbn in E; try discriminate;
      match type of E with (if ?c then _ else _) = _ => destruct c end; discriminate.
  - cbn. discriminate.
Qed.

Lemma tail_nm cfg (x : hres unit) v : (snd x = Ok tt \/ snd x = Err RBlocked) ->
  nmr (snd (hbind x (fun s _ => hbind (lift s (num_next (cchk cfg) v)) (fun s nv => start_new_view cfg s nv)))).
Proof.
  intros Hx. rewrite hbind_snd. destruct Hx as [E|E]; rewrite E; [|unfold nmr; discriminate].
  rewrite hbind_snd. destruct (num_next (cchk cfg) v) as [nv|e|p]; cbn [lift hret hfail hpanic snd];
    [apply start_new_view_nm|unfold nmr; discriminate|unfold nmr; discriminate].
Qed.

Lemma on_commit_nm cfg s key sg c : nmr (snd (on_commit cfg s key sg c)).
Proof.
  unfold on_commit. destruct (negb _); [unfold nmr; cbn; discriminate|]. cbv zeta.
  destruct (_ <? r_view s); [unfold nmr; cbn; discriminate|].
  match goal with |- context [if ?c then _ else _] => destruct c end; [unfold nmr; cbn; discriminate|].
  destruct (negb sg); [unfold nmr; cbn; discriminate|].
  destruct (commit_verify _ _ _); try (unfold nmr; cbn; discriminate).
  destruct (cqc_add _ _ _ _ _); try (unfold nmr; cbn; discriminate).
  destruct (signers_weight _ _) as [w|e|p] eqn:Ew; try (unfold nmr; cbn; discriminate).
  - destruct (_ <? _); [unfold nmr; cbn; discriminate|].
    destruct (zmap_get _ _); [|unfold nmr; cbn; discriminate].
    destruct (cmap_get _ _); [|unfold nmr; cbn; discriminate].
    apply tail_nm. apply process_commit_qc_res.
  - unfold signers_weight in Ew. destruct (_ =? _)%nat in Ew; discriminate.
Qed.

Lemma tqc_weight_entries_no_err {E} C es (e : E) : tqc_weight_entries C es <> Err e.
Proof.
  induction es as [|[t0 b] es IH]; cbn [tqc_weight_entries]; [discriminate|].
  unfold signers_weight. destruct (_ =? _)%nat; cbn [bind]; [|discriminate].
  destruct (tqc_weight_entries C es) as [w|e'|p]; cbn [bind]; try discriminate.
  intros H. apply IH. exact H.
Qed.

Lemma on_timeout_nm cfg s key sg t : nmr (snd (on_timeout cfg s key sg t)).
Proof.
  unfold on_timeout. destruct (negb _); [unfold nmr; cbn; discriminate|]. cbv zeta.
  destruct (_ <? r_view s); [unfold nmr; cbn; discriminate|].
  match goal with |- context [if ?c then _ else _] => destruct c end; [unfold nmr; cbn; discriminate|].
  destruct (negb sg); [unfold nmr; cbn; discriminate|].
  destruct (timeout_verify _ _ _ _); try (unfold nmr; cbn; discriminate).
  destruct (tqc_add _ _ _ _ _); try (unfold nmr; cbn; discriminate).
  destruct (tqc_weight _ _) as [w|e|p] eqn:Ew; try (unfold nmr; cbn; discriminate).
  - destruct (_ <? _); [unfold nmr; cbn; discriminate|].
    destruct (zmap_get _ _); [|unfold nmr; cbn; discriminate].
    apply tail_nm. apply process_timeout_qc_res.
  - exfalso. exact (tqc_weight_entries_no_err _ _ _ Ew).
Qed.

Lemma on_new_view_nm cfg s key sg j : nmr (snd (on_new_view cfg s key sg j)).
Proof.
  destruct (on_new_view_cases cfg s key sg j) as [(r & E & _)|(mv & _ & _ & _ & E)].
  - (* rejected: read the error off the code *)
    clear E. unfold on_new_view.
    destruct (justification_view (cchk cfg) j) as [mv|e|p]; cbn [lift]; try (unfold nmr; cbn; discriminate).
    rewrite hbind_hret. cbv zeta.
    destruct (_ || _); [unfold nmr; cbn; discriminate|].
    destruct (negb _); [unfold nmr; cbn; discriminate|].
    destruct (negb sg); [unfold nmr; cbn; discriminate|].
    destruct (justification_verify _ _ _ _); try (unfold nmr; cbn; discriminate).
    rewrite hbind_snd. destruct (process_justification_res cfg s j) as [E|E]; rewrite E; [|unfold nmr; discriminate].
    destruct (_ <? _); [apply start_new_view_nm|unfold nmr; cbn; discriminate].
  - rewrite E. rewrite hbind_snd. destruct (process_justification_res cfg s j) as [E'|E']; rewrite E'; [|unfold nmr; discriminate].
    destruct (_ <? _); [apply start_new_view_nm|unfold nmr; cbn; discriminate].
Qed.

Lemma rstep_t_other cfg s m : (forall p j, m_msg m <> MProposal p j) ->
  rstep_t cfg s (IMsg m) = rstep cfg s (IMsg m).
Proof.
  intros Hn. unfold rstep_t.
  assert (H : nmr (snd (rstep cfg s (IMsg m)))).
  { cbn [rstep]. destruct (m_msg m) as [p j|c|t|j] eqn:Em;
      [exfalso; eapply Hn; reflexivity|apply on_commit_nm|apply on_timeout_nm|apply on_new_view_nm]. }
  destruct (rstep cfg s (IMsg m)) as [[s' es] r]. cbn [snd] in H.
  destruct r as [a|e|p]; try reflexivity. destruct e; try reflexivity. exfalso. apply H. reflexivity.
Qed.

(* ================================================================== *)
(* 6. accepted proposals and the view timer, explicitly                 *)
(* ================================================================== *)
Lemma on_proposal_accepts cfg s key j mv n pl :
  justification_view (E := unit) (cchk cfg) j = Ok mv ->
  ((vnum mv <? r_view s) || ((vnum mv =? r_view s) && negb (phase_eqb (r_phase s) Prepare))) = false ->
  key = cleader cfg (vnum mv) ->
  justification_verify (cg cfg) (ce cfg) (cC cfg) j = Ok tt ->
  get_implied_block (E := unit) (cchk cfg) (cC cfg) (cfirst cfg) j = Ok (n, None) ->
  (n <? r_store_first s) = false -> (cmaxpay cfg <? cpsize cfg pl) = false ->
  ((0 <? n) && negb (n - 1 <? r_store_next s)) = false ->
  ((cfirst cfg <=? n) && cpok cfg n pl) = true ->
  on_proposal cfg s key true (Some pl) j =
    hbind (process_justification cfg
             (set_high_vote (set_phase (set_view (set_cache s (cache_insert (r_cache s) n pl)) (vnum mv)) PCommit)
                (Some {| cview := mv; cprop := {| hnum := n; hpay := pl |} |})) j)
      (fun s _ => hbind (backup_state cfg s) (fun s _ =>
         hemit s (ESend (MCommit {| cview := mv; cprop := {| hnum := n; hpay := pl |} |})))).
Proof.
  intros Ejv Eold Ekey Ever Eimp Epr Esz Emiss Epok. unfold on_proposal.
  rewrite Ejv. cbn [lift]. rewrite hbind_hret. cbv zeta. rewrite Eold.
  rewrite <- Ekey, Z.eqb_refl. cbn [negb]. rewrite Ever, Eimp. cbn [lift]. rewrite hbind_hret.
  rewrite Epr, Esz, Emiss, Epok. cbn [negb]. rewrite hbind_hret. reflexivity.
Qed.

Lemma on_proposal_accepts_re cfg s key j mv n h :
  justification_view (E := unit) (cchk cfg) j = Ok mv ->
  ((vnum mv <? r_view s) || ((vnum mv =? r_view s) && negb (phase_eqb (r_phase s) Prepare))) = false ->
  key = cleader cfg (vnum mv) ->
  justification_verify (cg cfg) (ce cfg) (cC cfg) j = Ok tt ->
  get_implied_block (E := unit) (cchk cfg) (cC cfg) (cfirst cfg) j = Ok (n, Some h) ->
  (n <? r_store_first s) = false ->
  on_proposal cfg s key true None j =
    hbind (process_justification cfg
             (set_high_vote (set_phase (set_view s (vnum mv)) PCommit)
                (Some {| cview := mv; cprop := {| hnum := n; hpay := h |} |})) j)
      (fun s _ => hbind (backup_state cfg s) (fun s _ =>
         hemit s (ESend (MCommit {| cview := mv; cprop := {| hnum := n; hpay := h |} |})))).
Proof.
  intros Ejv Eold Ekey Ever Eimp Epr. unfold on_proposal.
  rewrite Ejv. cbn [lift]. rewrite hbind_hret. cbv zeta. rewrite Eold.
  rewrite <- Ekey, Z.eqb_refl. cbn [negb]. rewrite Ever, Eimp. cbn [lift]. rewrite hbind_hret.
  rewrite Epr. rewrite hbind_hret. reflexivity.
Qed.

Lemma vote_tail_post cfg s1 j vote :
  let x := hbind (process_justification cfg s1 j)
             (fun s _ => hbind (backup_state cfg s) (fun s _ => hemit s (ESend (MCommit vote)))) in
  stopsA (snd x) = false ->
  frame s1 (st_of x) /\ snd x = Ok tt /\
  (exists qs, no_sends qs /\ snd (fst x) = qs ++ [EPersist (backup cfg (st_of x)); ESend (MCommit vote)]) /\
  (r_high_cqc (st_of x) = r_high_cqc s1 \/ exists q, just_hq j = Some q /\ r_high_cqc (st_of x) = Some q).
Proof.
  intros x Hs. unfold x in *. clear x.
  destruct (process_justification_frame cfg s1 j) as [F Hq].
  pose proof (hq_process_justification cfg s1 s1 j (core_eq_refl s1)) as [_ Hqe].
  rewrite hbind_snd in Hs. rewrite hbind_st, hbind_snd, hbind_effs.
  destruct (process_justification_res cfg s1 j) as [E|E]; rewrite E in *; [|discriminate Hs].
  unfold backup_state, hemit, hbind, st_of. cbn [fst snd].
  split; [exact F|]. split; [reflexivity|]. split; [|exact Hq].
  exists (snd (fst (process_justification cfg s1 j))). split; [exact Hqe|reflexivity].
Qed.

Lemma start_timeout_ok cfg s : r_view s <> 0 -> (r_high_cqc s <> None \/ r_high_tqc s <> None) ->
  exists j, get_justification s = Ok j /\
    start_timeout cfg s =
      (set_phase s PTimeout,
       [EPersist (backup cfg (set_phase s PTimeout)); ESend (MNewView j);
        ESend (MTimeout {| tview := {| vgen := cg cfg; vepoch := ce cfg; vnum := r_view s |};
                           thv := r_high_vote s; thq := r_high_cqc s |})], Ok tt).
Proof.
  intros Hv Hc. destruct (get_justification_total s Hc) as [j Ej]. exists j. split; [exact Ej|].
  unfold start_timeout, hbind, backup_state, hemit. cbn [fst snd set_phase r_view].
  apply Z.eqb_neq in Hv. rewrite Hv.
  assert (Ej' : get_justification (set_phase s PTimeout) = Ok j) by exact Ej.
  rewrite Ej'. reflexivity.
Qed.

Lemma vote_tail_res cfg s1 j vote :
  let x := hbind (process_justification cfg s1 j)
             (fun s _ => hbind (backup_state cfg s) (fun s _ => hemit s (ESend (MCommit vote)))) in
  snd x = Ok tt \/ snd x = Err RBlocked.
Proof.
  intros x. unfold x. rewrite hbind_snd.
  destruct (process_justification_res cfg s1 j) as [E|E]; rewrite E; [left|right]; reflexivity.
Qed.

Lemma rstep_t_proposal cfg s m p j : m_msg m = MProposal p j ->
  (exists r, rstep_t cfg s (IMsg m) = (s, [], r) /\ is_ok r = false)
  \/ (exists mv n, prop_pre cfg s (m_key m) (m_sig_ok m) j mv /\
        get_implied_block (E := unit) (cchk cfg) (cC cfg) (cfirst cfg) j = Ok (n, None) /\
        ((0 <? n) && negb (n - 1 <? r_store_next s)) = true)
  \/ (exists mv n oh s1 hash, prop_pre cfg s (m_key m) (m_sig_ok m) j mv /\
        get_implied_block (E := unit) (cchk cfg) (cC cfg) (cfirst cfg) j = Ok (n, oh) /\
        ((oh = Some hash /\ p = None /\ s1 = s) \/
         (oh = None /\ p = Some hash /\ s1 = set_cache s (cache_insert (r_cache s) n hash))) /\
        rstep_t cfg s (IMsg m) =
          hbind (process_justification cfg
                   (set_high_vote (set_phase (set_view s1 (vnum mv)) PCommit)
                      (Some {| cview := mv; cprop := {| hnum := n; hpay := hash |} |})) j)
            (fun s _ => hbind (backup_state cfg s) (fun s _ =>
               hemit s (ESend (MCommit {| cview := mv; cprop := {| hnum := n; hpay := hash |} |}))))).
Proof.
  intros Em. unfold rstep_t. cbn [rstep]. rewrite Em.
  destruct (on_proposal_cases cfg s (m_key m) (m_sig_ok m) p j)
    as [(r & E & Hr & Hmiss)|(mv & n & oh & s1 & hash & Hpre & Himp & _ & Hbr & E)].
  - rewrite E. destruct r as [a|e|pn]; [discriminate Hr| |left; eexists; split; reflexivity].
    destruct e; try (left; eexists; split; reflexivity).
    right; left. destruct (Hmiss eq_refl) as (mv & n & H1 & H2 & H3). exists mv, n. auto.
  - right; right. exists mv, n, oh, s1, hash. split; [exact Hpre|]. split; [exact Himp|]. split.
    + destruct Hbr as [(A & B & C)|(A & B & _ & _ & _ & C)]; [left|right]; auto.
    + rewrite E.
      match goal with |- context [hbind (process_justification cfg ?s2 j) ?f] =>
        pose proof (vote_tail_res cfg s2 j {| cview := mv; cprop := {| hnum := n; hpay := hash |} |}) as Hres;
        cbv zeta in Hres; destruct (hbind (process_justification cfg s2 j) f) as [[s3 es3] r3] end.
      cbn [snd] in Hres. destruct Hres as [-> | ->]; reflexivity.
Qed.

Lemma cache_has_insert c n p : cache_has (cache_insert c n p) n p = true.
Proof.
  unfold cache_has, cache_insert. rewrite RC.zmap_get_set, Z.eqb_refl.
  set (old := match zmap_get c n with Some l => l | None => [] end).
  destruct (existsb (Z.eqb p) old) eqn:E; [exact E|].
  rewrite existsb_app. cbn. rewrite Z.eqb_refl. apply orb_true_iff. right. reflexivity.
Qed.

Lemma sends_of_quiet k es : no_sends es -> sends_of k es = [].
Proof.
  unfold no_sends, sends_of. induction 1 as [|x es Hx _ IH]; [reflexivity|]. cbn [flat_map].
  destruct x; cbn in Hx; try contradiction; exact IH.
Qed.

(* ================================================================== *)
(* 7. what a quorum leaves in the state                                *)
(* ================================================================== *)
Lemma process_commit_qc_newer cfg s q :
  (forall cur, r_high_cqc s = Some cur -> vnum (cview (qmsg cur)) < vnum (cview (qmsg q))) ->
  r_high_cqc (st_of (process_commit_qc cfg s q)) = Some q.
Proof.
  intros Hnew. unfold process_commit_qc.
  assert (E : match r_high_cqc s with None => true | Some cur => vnum (cview (qmsg cur)) <? vnum (cview (qmsg q)) end = true).
  { destruct (r_high_cqc s) as [cur|]; [|reflexivity]. apply Z.ltb_lt. apply Hnew. reflexivity. }
  rewrite E. destruct (save_block_frame cfg (set_high_cqc s (Some q)) q) as (_ & H & _). exact H.
Qed.

Lemma start_new_view_certs cfg s v :
  r_high_cqc (st_of (start_new_view cfg s v)) = r_high_cqc s /\
  r_high_tqc (st_of (start_new_view cfg s v)) = r_high_tqc s.
Proof.
  unfold start_new_view. destruct (get_justification _) as [j|e|p]; try (split; reflexivity).
  unfold hbind, hemit, backup_state, st_of.
  destruct (r_high_cqc (set_phase (set_view s v) Prepare)) eqn:E; cbn in *; split; auto.
Qed.

Lemma tail_certs cfg (x : hres unit) v :
  let y := hbind x (fun s _ => hbind (lift s (num_next (cchk cfg) v)) (fun s nv => start_new_view cfg s nv)) in
  r_high_cqc (st_of y) = r_high_cqc (st_of x) /\ r_high_tqc (st_of y) = r_high_tqc (st_of x).
Proof.
  intros y. unfold y. rewrite hbind_st. destruct (snd x) as [[]|e|p]; try (split; reflexivity).
  rewrite hbind_st. destruct (num_next (cchk cfg) v) as [nv|e|p]; cbn [lift hret hfail hpanic snd]; try (split; reflexivity).
  unfold st_of at 2 4. cbn [fst]. apply start_new_view_certs.
Qed.

Lemma process_timeout_qc_tqc cfg s t : snd (process_timeout_qc cfg s t) = Ok tt ->
  exists tq, r_high_tqc (st_of (process_timeout_qc cfg s t)) = Some tq /\ vnum (tqview t) <= vnum (tqview tq).
Proof.
  unfold process_timeout_qc. rewrite hbind_snd, hbind_st.
  set (x := match high_qc t with Some q => process_commit_qc cfg s q | None => hret s tt end).
  destruct (snd x) as [[]|e|p]; try discriminate. intros _.
  destruct (r_high_tqc (st_of x)) as [old|] eqn:Eo.
  - destruct (vnum (tqview old) <? vnum (tqview t)) eqn:El; unfold hret, st_of at 1; cbn [fst].
    + exists t. split; [reflexivity|lia].
    + exists old. split; [exact Eo|]. apply Z.ltb_ge in El. exact El.
  - unfold hret, st_of at 1; cbn [fst]. exists t. split; [reflexivity|lia].
Qed.

Lemma on_commit_accept_high_eq cfg s key c i0 :
  (weight (cweights (cC cfg)) (qsigners (commit_q cfg s key c i0)) <? quorum (cC cfg)) = false ->
  RC.on_commit_accept cfg s key c i0 =
    hbind (process_commit_qc cfg
             (set_commit_caches s (commit_views' s key c) (zmap_remove (commit_qcs' cfg s key c i0) (vnum (cview c))))
             (commit_q cfg s key c i0))
      (fun s _ => hbind (lift s (num_next (cchk cfg) (vnum (cview c)))) (fun s nv => start_new_view cfg s nv)).
Proof. intros H. unfold RC.on_commit_accept. cbv zeta. fold (commit_q cfg s key c i0). rewrite H. reflexivity. Qed.

(* a commit quorum: the certificate becomes the high commit QC and its block is stored *)
Lemma on_commit_accept_quorum cfg s key c i0 : cchk cfg = true ->
  (weight (cweights (cC cfg)) (qsigners (commit_q cfg s key c i0)) <? quorum (cC cfg)) = false ->
  (vnum (cview c) <? r_view s) = false ->
  stopsA (snd (RC.on_commit_accept cfg s key c i0)) = false ->
  qmsg (commit_q cfg s key c i0) = c ->
  (forall cur, r_high_cqc s = Some cur -> vnum (cview (qmsg cur)) < vnum (cview c)) ->
  let s' := st_of (RC.on_commit_accept cfg s key c i0) in
  r_view s' = vnum (cview c) + 1 /\ r_high_cqc s' = Some (commit_q cfg s key c i0) /\
  (cache_has (r_cache s) (hnum (cprop c)) (hpay (cprop c)) = true -> hnum (cprop c) < r_store_next s').
Proof.
  intros Hchk Ew Hold Hs Hqm Hnew s'. unfold s'.
  destruct (on_commit_accept_high cfg s key c i0 Hchk Ew Hold Hs) as (Hok & Hv & Hst). cbv zeta in Hok, Hst.
  set (s2 := set_commit_caches s (commit_views' s key c) (zmap_remove (commit_qcs' cfg s key c i0) (vnum (cview c)))) in *.
  set (q := commit_q cfg s key c i0) in *.
  assert (Hnew2 : forall cur, r_high_cqc s2 = Some cur -> vnum (cview (qmsg cur)) < vnum (cview (qmsg q))).
  { intros cur Hc. rewrite Hqm. apply Hnew. exact Hc. }
  split; [exact Hv|]. split.
  - rewrite (on_commit_accept_high_eq cfg s key c i0 Ew). fold s2 q.
    destruct (tail_certs cfg (process_commit_qc cfg s2 q) (vnum (cview c))) as [E _]. cbv zeta in E. rewrite E.
    apply process_commit_qc_newer. exact Hnew2.
  - intros Hc. rewrite Hst. rewrite <- Hqm at 1. apply process_commit_qc_stores; [exact Hnew2| |exact Hok].
    rewrite Hqm. exact Hc.
Qed.

(* a timeout quorum leaves a high timeout QC for at least that view *)
Lemma timeout_step cfg s key sg t : RC.cache_inv cfg s -> cchk cfg = true ->
  stopsA (snd (on_timeout cfg s key sg t)) = false ->
  (frame s (st_of (on_timeout cfg s key sg t)) /\ snd (fst (on_timeout cfg s key sg t)) = [] /\
   r_high_cqc (st_of (on_timeout cfg s key sg t)) = r_high_cqc s)
  \/ (exists tq, r_high_tqc (st_of (on_timeout cfg s key sg t)) = Some tq /\ r_view s <= vnum (tqview tq)).
Proof.
  intros Hinv Hchk Hs.
  destruct (on_timeout_cases cfg s key sg t Hinv) as [(r & E & _)|(i0 & Hk & Hold & Hf & Hsg & Hver & E)].
  - left. rewrite E. unfold st_of. cbn. split; [apply frame_refl|auto].
  - rewrite E in *. unfold RC.on_timeout_accept in *. cbv zeta in *.
    match goal with |- context [if ?c then _ else _] => destruct c eqn:Ew end.
    + left. unfold hret, st_of. cbn. split; [unfold frame; cbn; repeat split; lia|auto].
    + right.
      match type of Hs with stopsA (snd (hbind ?x _)) = false =>
        destruct (tail_view cfg x (vnum (tview t)) Hchk (process_timeout_qc_res _ _ _) Hs) as (Hok & _);
        destruct (tail_certs cfg x (vnum (tview t))) as [_ Et]; cbv zeta in Et; rewrite Et;
        destruct (process_timeout_qc_tqc _ _ _ Hok) as (tq & Htq & Hle) end.
      exists tq. split; [exact Htq|].
      apply Z.ltb_ge in Ew.
      destruct (RC.on_timeout_qc_verifies cfg s key t i0 Hinv Hk Hf Hver Ew) as (_ & Hvw & _). cbv zeta in Hvw.
      rewrite Hvw in Hle. apply Z.ltb_ge in Hold. lia.
Qed.

(* ================================================================== *)
(* 8. the certificate under construction for one vote                  *)
(* ================================================================== *)
Lemma cmap_get_set_other b c q c2 : c <> c2 -> cmap_get (cmap_set b c q) c2 = cmap_get b c2.
Proof.
  intros Hne. induction b as [|[c1 q1] b IH]; cbn [cmap_set cmap_get].
  - destruct (commit_eqb c c2) eqn:E; [apply commit_eqb_spec in E; contradiction|reflexivity].
  - destruct (commit_eqb c1 c) eqn:E1; cbn [cmap_get].
    + apply commit_eqb_spec in E1. subst c1.
      destruct (commit_eqb c c2) eqn:E; [apply commit_eqb_spec in E; contradiction|reflexivity].
    + destruct (commit_eqb c1 c2); [reflexivity|exact IH].
Qed.

Definition qc_at (qcs : list (Z * list (commit * cqc))) (v : Z) (c : commit) : option cqc :=
  match zmap_get qcs v with Some b => cmap_get b c | None => None end.

(* validator h is recorded with its latest vote in view v and its bit is set in the
   certificate under construction for vote c *)
Definition hasbit (cfg : config) (s : rstate) (h : Z) (c : commit) : Prop :=
  exists i0 q, cindex (cC cfg) h = Some i0 /\ zmap_get (r_commit_views s) h = Some (vnum (cview c)) /\
    qc_at (r_commit_qcs s) (vnum (cview c)) c = Some q /\ RC.bit (qsigners q) i0 = true.

Section Upd.
  Variable cfg : config.
  Variable s : rstate.
  Variables (key : Z) (c' : commit) (i0' : nat).
  Hypothesis Hk : cindex (cC cfg) key = Some i0'.
  Let s' := set_commit_caches s (commit_views' s key c') (commit_qcs' cfg s key c' i0').

  Lemma upd_views_other h : h <> key -> zmap_get (r_commit_views s') h = zmap_get (r_commit_views s) h.
  Proof.
    intros Hne. unfold s', commit_views'. cbn [set_commit_caches r_commit_views]. rewrite RC.zmap_get_set.
    destruct (key =? h) eqn:E; [apply Z.eqb_eq in E; congruence|reflexivity].
  Qed.
  Lemma upd_views_own : zmap_get (r_commit_views s') key = Some (vnum (cview c')).
  Proof. unfold s', commit_views'. cbn [set_commit_caches r_commit_views]. rewrite RC.zmap_get_set, Z.eqb_refl. reflexivity. Qed.

  (* the bucket of a view in which some validator is still recorded survives the update *)
  Lemma upd_qc_at v c h : In (h, v) (r_commit_views s') ->
    qc_at (r_commit_qcs s') v c =
      if v =? vnum (cview c') then
        (if commit_eqb c' c then Some (commit_q cfg s key c' i0')
         else cmap_get (RC.bucket_of (r_commit_qcs s) v) c)
      else qc_at (r_commit_qcs s) v c.
  Proof.
    intros Hv. unfold qc_at, s', commit_qcs'. cbn [set_commit_caches r_commit_qcs r_commit_views] in *.
    rewrite (RC.retain_get _ _ h v Hv). rewrite RC.zmap_get_set.
    destruct (v =? vnum (cview c')) eqn:E.
    - apply Z.eqb_eq in E. subst v. rewrite Z.eqb_refl.
      destruct (commit_eqb c' c) eqn:Ec.
      + apply commit_eqb_spec in Ec. subst c. apply RC.cmap_get_set.
      + apply cmap_get_set_other. intros ->. rewrite RC.commit_eqb_refl in Ec. discriminate.
    - rewrite Z.eqb_sym, E. reflexivity.
  Qed.

  Lemma bucket_of_qc_at v c : cmap_get (RC.bucket_of (r_commit_qcs s) v) c = qc_at (r_commit_qcs s) v c.
  Proof. unfold RC.bucket_of, qc_at. destruct (zmap_get _ _); reflexivity. Qed.

  (* bits of other validators survive *)
  Lemma upd_hasbit_other h c : h <> key -> hasbit cfg s h c -> hasbit cfg s' h c.
  Proof.
    intros Hne (i0 & q & Hi & Hv & Hq & Hb).
    assert (Hv' : zmap_get (r_commit_views s') h = Some (vnum (cview c))) by (rewrite upd_views_other; assumption).
    pose proof (upd_qc_at (vnum (cview c)) c h (RC.zmap_get_in _ _ _ Hv')) as E.
    destruct (vnum (cview c) =? vnum (cview c')) eqn:Ev.
    - destruct (commit_eqb c' c) eqn:Ec.
      + apply commit_eqb_spec in Ec. subst c'.
        exists i0, (commit_q cfg s key c i0'). split; [exact Hi|]. split; [exact Hv'|]. split; [exact E|].
        unfold commit_q, RC.cupd, RC.q0_of. cbn [qsigners]. rewrite bucket_of_qc_at, Hq.
        rewrite RC.bit_set_other; [exact Hb|]. intros ->. apply Hne. eapply RC.cindex_inj; eassumption.
      + exists i0, q. rewrite bucket_of_qc_at in E. rewrite Hq in E. auto.
    - exists i0, q. rewrite Hq in E. auto.
  Qed.

  (* the signer's own bit *)
  Lemma upd_hasbit_own : (i0' < length (cC cfg))%nat ->
    length (qsigners (RC.q0_of (cC cfg) (RC.bucket_of (r_commit_qcs s) (vnum (cview c'))) c')) = length (cC cfg) ->
    hasbit cfg s' key c'.
  Proof.
    intros Hlt Hlen. exists i0', (commit_q cfg s key c' i0'). split; [exact Hk|]. split; [apply upd_views_own|].
    split.
    - rewrite (upd_qc_at _ c' key (RC.zmap_get_in _ _ _ upd_views_own)), Z.eqb_refl, RC.commit_eqb_refl. reflexivity.
    - unfold commit_q, RC.cupd. cbn [qsigners]. apply RC.bit_set_same. rewrite Hlen. exact Hlt.
  Qed.

  (* the entry for a vote changes only when that very vote is added *)
  Lemma upd_qc_at_cases v c q : qc_at (r_commit_qcs s') v c = Some q ->
    (c' = c /\ q = commit_q cfg s key c' i0') \/ qc_at (r_commit_qcs s) v c = Some q.
  Proof.
    intros Hq.
    assert (Hw : exists h, In (h, v) (r_commit_views s')).
    { unfold qc_at, s', commit_qcs' in Hq. cbn [set_commit_caches r_commit_qcs r_commit_views] in *.
      unfold retain_views in Hq.
      rewrite (RC.zmap_get_filter (fun x => existsb (fun kv => snd kv =? x) (commit_views' s key c'))) in Hq.
      destruct (existsb _ _) eqn:Ex; [|discriminate]. apply existsb_exists in Ex. destruct Ex as ([h v0] & Hin & Hv0).
      cbn [snd] in Hv0. apply Z.eqb_eq in Hv0. subst v0. exists h. exact Hin. }
    destruct Hw as [h Hv]. rewrite (upd_qc_at v c h Hv) in Hq.
    destruct (v =? vnum (cview c')); [|right; exact Hq].
    destruct (commit_eqb c' c) eqn:Ec.
    - apply commit_eqb_spec in Ec. left. inversion Hq. auto.
    - right. rewrite bucket_of_qc_at in Hq. exact Hq.
  Qed.
End Upd.

Lemma new_view_low cfg s key sg j :
  (forall mv, justification_view (E := unit) (cchk cfg) j = Ok mv ->
     justification_verify (cg cfg) (ce cfg) (cC cfg) j = Ok tt -> vnum mv <= r_view s) ->
  r_view (st_of (on_new_view cfg s key sg j)) = r_view s.
Proof.
  intros H. destruct (on_new_view_cases cfg s key sg j) as [(r & E & _)|(mv & Ejv & _ & Ever & E)]; rewrite E; [reflexivity|].
  specialize (H mv Ejv Ever). pose proof (process_justification_view cfg s j) as Hpv.
  change (ReplicaMono.st_of (process_justification cfg s j)) with (st_of (process_justification cfg s j)) in Hpv.
  rewrite hbind_st. destruct (snd (process_justification cfg s j)) as [[]|e|p]; try exact Hpv.
  destruct (r_view (st_of (process_justification cfg s j)) <? vnum mv) eqn:El; [apply Z.ltb_lt in El; lia|].
  unfold hret, st_of at 1. cbn [fst]. exact Hpv.
Qed.

(* the vote of a justification's view verifies *)
Lemma vote_view_ok g e C j mv : justification_verify g e C j = Ok tt ->
  justification_view (E := unit) true j = Ok mv -> view_verify g e mv = Ok tt.
Proof.
  intros Hv Hj. apply justification_verify_iff in Hv. unfold justification_view in Hj.
  destruct (num_next true _) as [nn| |]; cbn [bind] in Hj; try discriminate. inversion Hj; subst mv.
  apply view_verify_iff. unfold view_ok. cbn [vgen vepoch].
  destruct j as [q|t].
  - apply cqc_verify_iff in Hv. destruct Hv as (Hok & _). exact Hok.
  - apply tqc_verify_iff in Hv. destruct Hv as (Hok & _). exact Hok.
Qed.

(* ================================================================== *)
(* 9. effects of the sub-operations; entering the next view            *)
(* ================================================================== *)
(* entering the next view after a quorum: the proposer is notified of the node's own justification *)
Lemma start_new_view_enter cfg s v : stopsA (snd (start_new_view cfg s v)) = false ->
  exists j, get_justification (st_of (start_new_view cfg s v)) = Ok j /\
    snd (fst (start_new_view cfg s v)) =
      [ENotifyProposer j; EPersist (backup cfg (st_of (start_new_view cfg s v))); ESend (MNewView j)] /\
    snd (start_new_view cfg s v) = Ok tt /\ r_phase (st_of (start_new_view cfg s v)) = Prepare /\
    r_view (st_of (start_new_view cfg s v)) = v.
Proof.
  intros Hs. destruct (get_justification (set_phase (set_view s v) Prepare)) as [j|e|p] eqn:Ej.
  - destruct (start_new_view_ok cfg s v j Ej) as (s' & E & Hv & Hp & _ & Hq & Ht & _).
    exists j. rewrite E. unfold st_of. cbn [fst snd]. split; [|auto].
    rewrite <- Ej. apply get_justification_ext; assumption.
  - exfalso. exact (get_justification_no_err _ _ Ej).
  - exfalso. unfold start_new_view in Hs. rewrite Ej in Hs. discriminate Hs.
Qed.

Lemma tail_enter cfg (x : hres unit) v : cchk cfg = true ->
  (snd x = Ok tt \/ snd x = Err RBlocked) ->
  let y := hbind x (fun s _ => hbind (lift s (num_next (cchk cfg) v)) (fun s nv => start_new_view cfg s nv)) in
  stopsA (snd y) = false ->
  exists j, get_justification (st_of y) = Ok j /\
    snd (fst y) = snd (fst x) ++ [ENotifyProposer j; EPersist (backup cfg (st_of y)); ESend (MNewView j)] /\
    snd y = Ok tt /\ r_phase (st_of y) = Prepare /\ r_view (st_of y) = v + 1.
Proof.
  intros Hchk Hx y Hs. unfold y in *. clear y.
  rewrite hbind_snd in Hs. rewrite hbind_st, hbind_snd, hbind_effs.
  destruct Hx as [E|E]; rewrite E in *; [|discriminate Hs].
  rewrite hbind_snd in Hs. rewrite hbind_st, hbind_snd, hbind_effs. rewrite Hchk in *.
  destruct (num_next (E := unit) true v) as [nv|e|p] eqn:En; cbn [lift hret hfail hpanic snd fst] in *; try discriminate.
  apply num_next_chk in En. subst nv.
  change (st_of (hret (st_of x) (v + 1))) with (st_of x) in *. cbn [app].
  destruct (start_new_view_enter cfg (st_of x) (v + 1) Hs) as (j & H1 & H2 & H3 & H4 & H5).
  exists j. rewrite H2. auto.
Qed.
