(* C06 on the protocol model, part 6a: replica-level facts for the abandonment of one view by a
   timeout certificate: the timeout caches under one update, a timeout quorum, provenance of
   the recorded timeout views. *)
From Coq Require Import ZArith List Bool Lia.
From EC Require Import Lib.Outcome Lib.U64 Lib.ListW Lib.Obs Model.Msgs Model.Replica Model.ReplicaRun
  Model.Protocol Model.ProtocolSync Proofs.MsgsFacts Proofs.QCProofs Proofs.ReplicaMono Proofs.ReplicaLive
  Proofs.ReplicaCrash Proofs.TqcAssembly.
From EC Require Proofs.ReplicaCaches Proofs.ReplicaJustified.
From EC Require Import Proofs.ProtocolLiveCommitStep.
Import ListNotations.
Open Scope Z_scope.
Module RC := ReplicaCaches.

(* ================================================================== *)
(* 1. on_timeout once accepted                                         *)
(* ================================================================== *)
Definition timeout_q (cfg : config) (s : rstate) (key : Z) (t : timeout) (i0 : nat) : tqc :=
  RC.tupd cfg key t i0 (RC.t0_of (r_timeout_qcs s) (tview t)).
Definition timeout_views' (s : rstate) (key : Z) (t : timeout) := zmap_set (r_timeout_views s) key (vnum (tview t)).
Definition timeout_qcs' (cfg : config) (s : rstate) (key : Z) (t : timeout) (i0 : nat) :=
  retain_views (zmap_set (r_timeout_qcs s) (vnum (tview t)) (timeout_q cfg s key t i0)) (timeout_views' s key t).
Definition tq_weight (cfg : config) (q : tqc) : Z :=
  weight (cweights (cC cfg)) (union_from (bv_new (length (cC cfg))) (tqmap q)).

Lemma on_timeout_accept_low cfg s key t i0 :
  (tq_weight cfg (timeout_q cfg s key t i0) <? quorum (cC cfg)) = true ->
  RC.on_timeout_accept cfg s key t i0 =
    hret (set_timeout_caches s (timeout_views' s key t) (timeout_qcs' cfg s key t i0)) tt.
Proof. intros H. unfold RC.on_timeout_accept. cbv zeta. fold (timeout_q cfg s key t i0). unfold tq_weight in H. rewrite H. reflexivity. Qed.

Lemma on_timeout_accept_high_eq cfg s key t i0 :
  (tq_weight cfg (timeout_q cfg s key t i0) <? quorum (cC cfg)) = false ->
  RC.on_timeout_accept cfg s key t i0 =
    hbind (process_timeout_qc cfg
             (set_timeout_caches s (timeout_views' s key t) (zmap_remove (timeout_qcs' cfg s key t i0) (vnum (tview t))))
             (timeout_q cfg s key t i0))
      (fun s _ => hbind (lift s (num_next (cchk cfg) (vnum (tview t)))) (fun s nv => start_new_view cfg s nv)).
Proof. intros H. unfold RC.on_timeout_accept. cbv zeta. fold (timeout_q cfg s key t i0). unfold tq_weight in H. rewrite H. reflexivity. Qed.

(* a timeout quorum: the certificate becomes the high timeout QC unless a newer one is held *)
Lemma process_timeout_qc_newer cfg s t :
  (forall old, r_high_tqc s = Some old -> vnum (tqview old) < vnum (tqview t)) ->
  snd (process_timeout_qc cfg s t) = Ok tt ->
  r_high_tqc (st_of (process_timeout_qc cfg s t)) = Some t.
Proof.
  intros Hnew. unfold process_timeout_qc. rewrite hbind_snd, hbind_st.
  set (x := match high_qc t with Some q => process_commit_qc cfg s q | None => hret s tt end).
  assert (Ht : r_high_tqc (st_of x) = r_high_tqc s).
  { unfold x. destruct (high_qc t) as [q|]; [apply process_commit_qc_frame|reflexivity]. }
  destruct (snd x) as [[]|e|p]; try discriminate. intros _. rewrite Ht.
  destruct (r_high_tqc s) as [old|] eqn:Eo; unfold hret, st_of at 1; cbn [fst].
  - specialize (Hnew old eq_refl). apply Z.ltb_lt in Hnew. rewrite Hnew. reflexivity.
  - reflexivity.
Qed.

Lemma on_timeout_accept_quorum cfg s key t i0 : cchk cfg = true ->
  (tq_weight cfg (timeout_q cfg s key t i0) <? quorum (cC cfg)) = false ->
  stopsA (snd (RC.on_timeout_accept cfg s key t i0)) = false ->
  (forall old, r_high_tqc s = Some old -> vnum (tqview old) < vnum (tqview (timeout_q cfg s key t i0))) ->
  let s' := st_of (RC.on_timeout_accept cfg s key t i0) in
  r_view s' = vnum (tview t) + 1 /\ r_phase s' = Prepare /\
  r_high_tqc s' = Some (timeout_q cfg s key t i0) /\
  r_store_next s <= r_store_next s' /\ r_store_first s' = r_store_first s /\
  (r_high_cqc s' = r_high_cqc s \/ exists q, high_qc (timeout_q cfg s key t i0) = Some q /\ r_high_cqc s' = Some q) /\
  exists j qs, get_justification s' = Ok j /\ only_queue qs /\
    snd (fst (RC.on_timeout_accept cfg s key t i0)) =
      qs ++ [ENotifyProposer j; EPersist (backup cfg s'); ESend (MNewView j)].
Proof.
  intros Hchk Ew Hs Hnew s'. unfold s'. clear s'.
  rewrite (on_timeout_accept_high_eq cfg s key t i0 Ew) in *.
  set (s2 := set_timeout_caches s (timeout_views' s key t) (zmap_remove (timeout_qcs' cfg s key t i0) (vnum (tview t)))) in *.
  set (q := timeout_q cfg s key t i0) in *.
  destruct (tail_enter cfg (process_timeout_qc cfg s2 q) (vnum (tview t)) Hchk (process_timeout_qc_res _ _ _) Hs)
    as (j & Hj & Hes & _ & Hph & Hv).
  destruct (tail_view cfg (process_timeout_qc cfg s2 q) (vnum (tview t)) Hchk (process_timeout_qc_res _ _ _) Hs) as [Hok _].
  destruct (tail_certs cfg (process_timeout_qc cfg s2 q) (vnum (tview t))) as [Ec Et]. cbv zeta in Ec, Et.
  pose proof (tail_store cfg (process_timeout_qc cfg s2 q) (vnum (tview t))) as Est. cbv zeta in Est.
  destruct (process_timeout_qc_frame cfg s2 q) as ((_&_&_&_&_&_&F7&F8) & Hq).
  split; [exact Hv|]. split; [exact Hph|]. split.
  - rewrite Et. apply process_timeout_qc_newer; [exact Hnew|exact Hok].
  - split; [rewrite Est; exact F8|]. split.
    + destruct (start_new_view_store cfg (st_of (process_timeout_qc cfg s2 q)) (vnum (tview t) + 1)) as [_ Hf].
      (* store_first is untouched by the whole tail *)
      assert (Hsf : forall (x : hres unit) v, r_store_first (st_of (hbind x (fun s _ => hbind (lift s (num_next (cchk cfg) v))
                      (fun s nv => start_new_view cfg s nv)))) = r_store_first (st_of x)).
      { intros x v. rewrite hbind_st. destruct (snd x) as [[]|e|p]; try reflexivity.
        rewrite hbind_st. destruct (num_next (cchk cfg) v) as [nv|e|p]; cbn [lift hret hfail hpanic snd]; try reflexivity.
        unfold st_of at 2. cbn [fst]. apply start_new_view_store. }
      rewrite Hsf. exact F7.
    + split; [rewrite Ec; exact Hq|].
      exists j, (snd (fst (process_timeout_qc cfg s2 q))). split; [exact Hj|]. split; [apply process_timeout_qc_effs|exact Hes].
Qed.

(* ================================================================== *)
(* 2. the timeout certificate under construction for one view          *)
(* ================================================================== *)
Lemma nth_true_set s i j : nth_error s j = Some true -> nth_error (bv_set s i) j = Some true.
Proof.
  intros H. destruct (Nat.eq_dec i j) as [->|Hne].
  - apply nth_error_bv_set_same. apply nth_error_Some. congruence.
  - rewrite nth_error_bv_set_other by exact Hne. exact H.
Qed.

Lemma tqmap_set_keeps entries m n i en j : In en entries -> nth_error (snd en) j = Some true ->
  exists en', In en' (tqmap_set entries m n i) /\ nth_error (snd en') j = Some true.
Proof.
  induction entries as [|[m' s] rest IH]; intros Hin Hb; [destruct Hin|]. cbn [tqmap_set].
  destruct (timeout_eqb m' m).
  - destruct Hin as [<-|Hin].
    + exists (m', bv_set s i). split; [left; reflexivity|]. cbn [snd] in *. apply nth_true_set. exact Hb.
    + exists en. split; [right; exact Hin|exact Hb].
  - destruct Hin as [<-|Hin].
    + exists (m', s). split; [left; reflexivity|exact Hb].
    + destruct (IH Hin Hb) as (en' & H1 & H2). exists en'. split; [right; exact H1|exact H2].
Qed.

Lemma tqmap_set_own entries m n i : (i < n)%nat -> Forall (fun en => length (snd en) = n) entries ->
  exists en', In en' (tqmap_set entries m n i) /\ nth_error (snd en') i = Some true.
Proof.
  intros Hi. induction entries as [|[m' s] rest IH]; intros Hl; cbn [tqmap_set].
  - exists (m, bv_set (bv_new n) i). split; [left; reflexivity|]. cbn [snd].
    apply nth_error_bv_set_same. rewrite bv_new_length. exact Hi.
  - inversion Hl as [|? ? Hs0 Hr]; subst. cbn [snd] in *. destruct (timeout_eqb m' m).
    + exists (m', bv_set s i). split; [left; reflexivity|]. cbn [snd]. apply nth_error_bv_set_same. exact Hi.
    + destruct (IH Hr) as (en' & H1 & H2). exists en'. split; [right; exact H1|exact H2].
Qed.

Definition hasTbit (cfg : config) (s : rstate) (h : Z) (V : Z) : Prop :=
  exists i0 t0 en, cindex (cC cfg) h = Some i0 /\ zmap_get (r_timeout_views s) h = Some V /\
    zmap_get (r_timeout_qcs s) V = Some t0 /\ In en (tqmap t0) /\ nth_error (snd en) i0 = Some true.

Section TUpd.
  Variable cfg : config.
  Variable s : rstate.
  Variables (key : Z) (t : timeout) (i0' : nat).
  Hypothesis Hk : cindex (cC cfg) key = Some i0'.
  Let s' := set_timeout_caches s (timeout_views' s key t) (timeout_qcs' cfg s key t i0').

  Lemma tupd_views_other h : h <> key -> zmap_get (r_timeout_views s') h = zmap_get (r_timeout_views s) h.
  Proof.
    intros Hne. unfold s', timeout_views'. cbn [set_timeout_caches r_timeout_views]. rewrite RC.zmap_get_set.
    destruct (key =? h) eqn:E; [apply Z.eqb_eq in E; congruence|reflexivity].
  Qed.
  Lemma tupd_views_own : zmap_get (r_timeout_views s') key = Some (vnum (tview t)).
  Proof. unfold s', timeout_views'. cbn [set_timeout_caches r_timeout_views]. rewrite RC.zmap_get_set, Z.eqb_refl. reflexivity. Qed.

  Lemma tupd_qc_at v h : In (h, v) (r_timeout_views s') ->
    zmap_get (r_timeout_qcs s') v =
      if v =? vnum (tview t) then Some (timeout_q cfg s key t i0') else zmap_get (r_timeout_qcs s) v.
  Proof.
    intros Hv. unfold s', timeout_qcs'. cbn [set_timeout_caches r_timeout_qcs r_timeout_views] in *.
    rewrite (RC.retain_get _ _ h v Hv). rewrite RC.zmap_get_set.
    destruct (v =? vnum (tview t)) eqn:E.
    - apply Z.eqb_eq in E. subst v. rewrite Z.eqb_refl. reflexivity.
    - rewrite Z.eqb_sym, E. reflexivity.
  Qed.

  Lemma tupd_hasTbit_other h V : h <> key -> hasTbit cfg s h V -> hasTbit cfg s' h V.
  Proof.
    intros Hne (i0 & t0 & en & Hi & Hv & Hq & Hin & Hb).
    assert (Hv' : zmap_get (r_timeout_views s') h = Some V) by (rewrite tupd_views_other; assumption).
    pose proof (tupd_qc_at V h (RC.zmap_get_in _ _ _ Hv')) as E.
    destruct (V =? vnum (tview t)) eqn:Ev.
    - apply Z.eqb_eq in Ev.
      assert (Et0 : RC.t0_of (r_timeout_qcs s) (tview t) = t0) by (unfold RC.t0_of; rewrite <- Ev, Hq; reflexivity).
      destruct (tqmap_set_keeps (tqmap t0) t (length (cC cfg)) i0' en i0 Hin Hb) as (en' & H1 & H2).
      exists i0, (timeout_q cfg s key t i0'), en'. split; [exact Hi|]. split; [exact Hv'|]. split; [exact E|].
      split; [|exact H2]. unfold timeout_q, RC.tupd. cbn [tqmap]. rewrite Et0. exact H1.
    - exists i0, t0, en. rewrite Hq in E. auto.
  Qed.

  Lemma tupd_hasTbit_own :
    Forall (fun en => length (snd en) = length (cC cfg)) (tqmap (RC.t0_of (r_timeout_qcs s) (tview t))) ->
    hasTbit cfg s' key (vnum (tview t)).
  Proof.
    intros Hl.
    destruct (tqmap_set_own (tqmap (RC.t0_of (r_timeout_qcs s) (tview t))) t (length (cC cfg)) i0'
                (cindex_lt _ _ _ Hk) Hl) as (en' & H1 & H2).
    exists i0', (timeout_q cfg s key t i0'), en'. split; [exact Hk|]. split; [apply tupd_views_own|]. split.
    - rewrite (tupd_qc_at _ key (RC.zmap_get_in _ _ _ tupd_views_own)), Z.eqb_refl. reflexivity.
    - split; [exact H1|exact H2].
  Qed.

  Lemma tupd_qc_cases v q : zmap_get (r_timeout_qcs s') v = Some q ->
    (v = vnum (tview t) /\ q = timeout_q cfg s key t i0') \/ zmap_get (r_timeout_qcs s) v = Some q.
  Proof.
    intros Hq.
    assert (Hw : exists h, In (h, v) (r_timeout_views s')).
    { unfold s', timeout_qcs' in Hq. cbn [set_timeout_caches r_timeout_qcs r_timeout_views] in *.
      unfold retain_views in Hq.
      rewrite (RC.zmap_get_filter (fun x => existsb (fun kv => snd kv =? x) (timeout_views' s key t))) in Hq.
      destruct (existsb _ _) eqn:Ex; [|discriminate]. apply existsb_exists in Ex. destruct Ex as ([h v0] & Hin & Hv0).
      cbn [snd] in Hv0. apply Z.eqb_eq in Hv0. subst v0. exists h. exact Hin. }
    destruct Hw as [h Hv]. rewrite (tupd_qc_at v h Hv) in Hq.
    destruct (v =? vnum (tview t)) eqn:E; [|right; exact Hq].
    apply Z.eqb_eq in E. left. inversion Hq. auto.
  Qed.
End TUpd.

(* ================================================================== *)
(* 3. where the recorded timeout views come from                       *)
(* ================================================================== *)
Lemma on_commit_tv cfg s key sg c : RC.cache_inv cfg s ->
  r_timeout_views (st_of (on_commit cfg s key sg c)) = r_timeout_views s.
Proof.
  intros Hinv. destruct (on_commit_cases cfg s key sg c Hinv) as [(r & E & _)|(i0 & _ & _ & _ & _ & _ & E)]; rewrite E; [reflexivity|].
  unfold RC.on_commit_accept. cbv zeta. destruct (_ <? _); [reflexivity|].
  match goal with |- context [hbind (process_commit_qc cfg ?s2 ?q) _] =>
    pose proof (RC.tail_keeps cfg (process_commit_qc cfg s2 q) (vnum (cview c)) _
                  (RC.process_commit_qc_keeps cfg s2 q _ eq_refl)) as H end.
  unfold RC.keeps, RC.caches in H. injection H as _ _ Htv _. exact Htv.
Qed.

Lemma on_timeout_accept_views cfg s key t i0 :
  r_timeout_views (st_of (RC.on_timeout_accept cfg s key t i0)) = timeout_views' s key t.
Proof.
  unfold RC.on_timeout_accept. cbv zeta. fold (timeout_views' s key t). destruct (_ <? _); [reflexivity|].
  match goal with |- context [hbind (process_timeout_qc cfg ?s2 ?q) _] =>
    pose proof (RC.tail_keeps cfg (process_timeout_qc cfg s2 q) (vnum (tview t)) _
                  (RC.process_timeout_qc_keeps cfg s2 q _ eq_refl)) as H end.
  unfold RC.keeps, RC.caches in H. injection H as _ _ Htv _. exact Htv.
Qed.

Lemma rstep_t_timeout_views cfg s i : RC.cache_inv cfg s ->
  r_timeout_views (st_of (rstep_t cfg s i)) = r_timeout_views s \/
  exists m t, i = IMsg m /\ m_msg m = MTimeout t /\ m_sig_ok m = true /\
    r_timeout_views (st_of (rstep_t cfg s i)) = zmap_set (r_timeout_views s) (m_key m) (vnum (tview t)).
Proof.
  intros Hinv.
  assert (H : r_timeout_views (st_of (rstep cfg s i)) = r_timeout_views s \/
    exists m t, i = IMsg m /\ m_msg m = MTimeout t /\ m_sig_ok m = true /\
      r_timeout_views (st_of (rstep cfg s i)) = zmap_set (r_timeout_views s) (m_key m) (vnum (tview t))).
  { destruct i as [m| |n h]; cbn [rstep].
    - destruct (m_msg m) as [p j|c|t|j] eqn:Em.
      + left. pose proof (RC.on_proposal_keeps cfg s (m_key m) (m_sig_ok m) p j _ eq_refl) as H.
        unfold RC.keeps, RC.caches in H. inversion H. reflexivity.
      + left. apply on_commit_tv. exact Hinv.
      + destruct (on_timeout_cases cfg s (m_key m) (m_sig_ok m) t Hinv) as [(r & E & _)|(i0 & _ & _ & _ & Hsg & _ & E)]; rewrite E.
        * left. reflexivity.
        * right. exists m, t. split; [reflexivity|]. split; [exact Em|]. split; [exact Hsg|].
          apply on_timeout_accept_views.
      + left. pose proof (RC.on_new_view_keeps cfg s (m_key m) (m_sig_ok m) j _ eq_refl) as H.
        unfold RC.keeps, RC.caches in H. inversion H. reflexivity.
    - left. pose proof (RC.start_timeout_keeps cfg s _ eq_refl) as H. unfold RC.keeps, RC.caches in H. inversion H. reflexivity.
    - left. destruct (_ =? _); reflexivity. }
  unfold rstep_t. destruct (rstep cfg s i) as [[s' es] r] eqn:Es. unfold st_of in H. cbn [fst] in H.
  destruct r as [a|e|p]; try exact H. destruct e; try exact H.
  pose proof (RC.start_timeout_keeps cfg s' _ eq_refl) as Hc. unfold RC.keeps, RC.caches in Hc.
  destruct (start_timeout cfg s') as [[s2 es2] r2]. unfold RC.st_of, st_of in *. cbn [fst] in *.
  injection Hc as _ _ Htv _. rewrite Htv. exact H.
Qed.

Definition TV (hon : Z -> bool) (soup : list sgmsg) (s : rstate) : Prop :=
  forall h v, hon h = true -> zmap_get (r_timeout_views s) h = Some v ->
  exists t, vnum (tview t) = v /\ In {| m_key := h; m_sig_ok := true; m_msg := MTimeout t |} soup.

Lemma TV_mono hon soup soup' s : (forall m, In m soup -> In m soup') -> TV hon soup s -> TV hon soup' s.
Proof. intros Hi H h v Hh Hg. destruct (H h v Hh Hg) as (c & E & Hin). exists c. auto. Qed.

Lemma TV_step hon soup cfg s i : RC.cache_inv cfg s -> TV hon soup s ->
  (forall m, i = IMsg m -> In m soup) -> TV hon soup (st_of (rstep_t cfg s i)).
Proof.
  intros Hinv H Hi. destruct (rstep_t_timeout_views cfg s i Hinv) as [E|(m & t & -> & Em & Hsg & E)];
    unfold TV; rewrite E; [exact H|].
  intros h v Hh Hg. rewrite RC.zmap_get_set in Hg. destruct (m_key m =? h) eqn:Ek.
  - inversion Hg; subst v. apply Z.eqb_eq in Ek. exists t. split; [reflexivity|].
    specialize (Hi m eq_refl). destruct m as [mk ms mm]. cbn in *. subst. exact Hi.
  - apply H; assumption.
Qed.

(* ================================================================== *)
(* 4. the timeout side of steps that do not change the view            *)
(* ================================================================== *)
Lemma process_timeout_qc_tq cfg s t :
  r_high_tqc (st_of (process_timeout_qc cfg s t)) = r_high_tqc s \/
  r_high_tqc (st_of (process_timeout_qc cfg s t)) = Some t.
Proof.
  unfold process_timeout_qc. rewrite hbind_st.
  set (x := match high_qc t with Some q => process_commit_qc cfg s q | None => hret s tt end).
  assert (Ht : r_high_tqc (st_of x) = r_high_tqc s).
  { unfold x. destruct (high_qc t) as [q|]; [apply process_commit_qc_frame|reflexivity]. }
  destruct (snd x) as [[]|e|p]; [|left; exact Ht|left; exact Ht].
  match goal with |- context [if ?c then _ else _] => destruct c end; unfold hret, st_of at 1 3; cbn [fst];
    [right; reflexivity|left; exact Ht].
Qed.

Lemma process_justification_tq cfg s j :
  r_high_tqc (st_of (process_justification cfg s j)) = r_high_tqc s \/
  exists t, j = JTimeout t /\ r_high_tqc (st_of (process_justification cfg s j)) = Some t.
Proof.
  destruct j as [q|t]; cbn [process_justification].
  - left. apply process_commit_qc_frame.
  - destruct (process_timeout_qc_tq cfg s t) as [H|H]; [left; exact H|right; eauto].
Qed.

Lemma new_view_same_view_t cfg s key sg j :
  r_view (st_of (on_new_view cfg s key sg j)) = r_view s ->
  r_timeout_views (st_of (on_new_view cfg s key sg j)) = r_timeout_views s /\
  r_timeout_qcs (st_of (on_new_view cfg s key sg j)) = r_timeout_qcs s /\
  (r_high_tqc (st_of (on_new_view cfg s key sg j)) = r_high_tqc s \/
   (justification_verify (cg cfg) (ce cfg) (cC cfg) j = Ok tt /\
    exists t, j = JTimeout t /\ r_high_tqc (st_of (on_new_view cfg s key sg j)) = Some t)).
Proof.
  intros Hv.
  pose proof (RC.on_new_view_keeps cfg s key sg j _ eq_refl) as H. unfold RC.keeps, RC.caches in H.
  injection H as _ _ H3 H4. split; [exact H3|]. split; [exact H4|].
  destruct (on_new_view_cases cfg s key sg j) as [(r & E & _)|(mv & Ejv & _ & Ever & E)]; rewrite E in *; [left; reflexivity|].
  pose proof (process_justification_view cfg s j) as Hpv.
  change (ReplicaMono.st_of (process_justification cfg s j)) with (st_of (process_justification cfg s j)) in Hpv.
  rewrite hbind_st in *. destruct (snd (process_justification cfg s j)) as [[]|e|p].
  - destruct (r_view (st_of (process_justification cfg s j)) <? vnum mv) eqn:El.
    + exfalso. rewrite start_new_view_view in Hv. apply Z.ltb_lt in El. lia.
    + unfold hret, st_of at 1 3. cbn [fst].
      destruct (process_justification_tq cfg s j) as [H|H]; [left; exact H|right; auto].
  - destruct (process_justification_tq cfg s j) as [H|H]; [left; exact H|right; auto].
  - destruct (process_justification_tq cfg s j) as [H|H]; [left; exact H|right; auto].
Qed.

(* ================================================================== *)
(* 5. a recorded timeout view of the current view or later has its bit *)
(* ================================================================== *)
(* the converse of the cache invariant's ownership: while the node has not left view v, a key
   recorded with view v is a signer of the certificate under construction for v *)
Definition TB (cfg : config) (s : rstate) : Prop :=
  forall h v, zmap_get (r_timeout_views s) h = Some v -> r_view s <= v -> hasTbit cfg s h v.

Lemma hasTbit_ext cfg s s' h v : r_timeout_views s' = r_timeout_views s -> r_timeout_qcs s' = r_timeout_qcs s ->
  hasTbit cfg s h v -> hasTbit cfg s' h v.
Proof. intros E1 E2 H. unfold hasTbit in *. rewrite E1, E2. exact H. Qed.

Lemma TB_keep cfg s s' : r_timeout_views s' = r_timeout_views s -> r_timeout_qcs s' = r_timeout_qcs s ->
  r_view s <= r_view s' -> TB cfg s -> TB cfg s'.
Proof.
  intros E1 E2 Hle H h v Hg Hv. rewrite E1 in Hg. apply (hasTbit_ext cfg s s' h v E1 E2). apply H; [exact Hg|lia].
Qed.

Lemma TB_nil cfg s : r_timeout_views s = [] -> TB cfg s.
Proof. intros E h v Hg. rewrite E in Hg. discriminate. Qed.

Lemma keeps_tcaches {A} (x : hres A) s : RC.keeps (RC.caches s) x ->
  r_timeout_views (st_of x) = r_timeout_views s /\ r_timeout_qcs (st_of x) = r_timeout_qcs s.
Proof. intros H. unfold RC.keeps, RC.caches in H. injection H as _ _ H3 H4. auto. Qed.

Lemma on_commit_tcaches cfg s key sg c : RC.cache_inv cfg s ->
  r_timeout_views (st_of (on_commit cfg s key sg c)) = r_timeout_views s /\
  r_timeout_qcs (st_of (on_commit cfg s key sg c)) = r_timeout_qcs s.
Proof.
  intros Hinv. destruct (on_commit_cases cfg s key sg c Hinv) as [(r & E & _)|(i0 & _ & _ & _ & _ & _ & E)]; rewrite E; [auto|].
  unfold RC.on_commit_accept. cbv zeta. destruct (_ <? _); [auto|].
  match goal with |- context [hbind (process_commit_qc cfg ?s2 ?q) _] =>
    pose proof (RC.tail_keeps cfg (process_commit_qc cfg s2 q) (vnum (cview c)) _
                  (RC.process_commit_qc_keeps cfg s2 q _ eq_refl)) as H end.
  unfold RC.keeps, RC.caches in H. injection H as _ _ Htv Htq. auto.
Qed.

Lemma on_timeout_accept_tcaches cfg s key t i0 :
  let s' := st_of (RC.on_timeout_accept cfg s key t i0) in
  r_timeout_views s' = timeout_views' s key t /\
  (r_timeout_qcs s' = timeout_qcs' cfg s key t i0 \/
   ((tq_weight cfg (timeout_q cfg s key t i0) <? quorum (cC cfg)) = false /\
    r_timeout_qcs s' = zmap_remove (timeout_qcs' cfg s key t i0) (vnum (tview t)))).
Proof.
  cbv zeta. destruct (tq_weight cfg (timeout_q cfg s key t i0) <? quorum (cC cfg)) eqn:Ew.
  - rewrite (on_timeout_accept_low cfg s key t i0 Ew). unfold hret, st_of. cbn [fst set_timeout_caches r_timeout_views r_timeout_qcs]. auto.
  - rewrite (on_timeout_accept_high_eq cfg s key t i0 Ew).
    match goal with |- context [hbind (process_timeout_qc cfg ?s2 ?q) _] =>
      pose proof (RC.tail_keeps cfg (process_timeout_qc cfg s2 q) (vnum (tview t)) _
                    (RC.process_timeout_qc_keeps cfg s2 q _ eq_refl)) as H end.
    unfold RC.keeps, RC.caches in H. injection H as _ _ Htv Htq. split; [exact Htv|right; auto].
Qed.

Lemma TB_accept cfg s key t i0 : RC.cache_inv cfg s -> cchk cfg = true ->
  cindex (cC cfg) key = Some i0 -> (vnum (tview t) <? r_view s) = false ->
  vgen (tview t) = cg cfg -> vepoch (tview t) = ce cfg ->
  stopsA (snd (RC.on_timeout_accept cfg s key t i0)) = false ->
  r_view s <= r_view (st_of (RC.on_timeout_accept cfg s key t i0)) ->
  TB cfg s -> TB cfg (st_of (RC.on_timeout_accept cfg s key t i0)).
Proof.
  intros Hinv Hchk Hk Hold Hg He Hs Hmono HT.
  set (s1 := set_timeout_caches s (timeout_views' s key t) (timeout_qcs' cfg s key t i0)).
  assert (Hlen : Forall (fun en => length (snd en) = length (cC cfg)) (tqmap (RC.t0_of (r_timeout_qcs s) (tview t)))).
  { destruct Hinv as [_ Hti]. cbn [RC.caches] in Hti.
    destruct (RC.t0_ok _ _ _ _ _ (tview t) Hti Hg He) as (_ & Hq & _). cbn [snd] in Hq.
    exact (tqc_inv_lengths _ _ _ _ Hq). }
  assert (H1 : TB cfg s1 \/ True) by (right; exact I). clear H1.
  assert (Hs1 : forall h v, zmap_get (r_timeout_views s1) h = Some v -> r_view s <= v -> hasTbit cfg s1 h v).
  { intros h v Hg0 Hv. destruct (Z.eq_dec h key) as [->|Hne].
    - unfold s1 in Hg0. rewrite (tupd_views_own cfg s key t i0) in Hg0. inversion Hg0; subst v.
      apply (tupd_hasTbit_own cfg s key t i0 Hk Hlen).
    - unfold s1 in Hg0. rewrite (tupd_views_other cfg s key t i0 h Hne) in Hg0.
      apply (tupd_hasTbit_other cfg s key t i0 h v Hne). apply HT; assumption. }
  destruct (on_timeout_accept_tcaches cfg s key t i0) as [Ev [Eq|[Ew Eq]]]; cbv zeta in Ev, Eq.
  - intros h v Hg0 Hv. apply (hasTbit_ext cfg s1 _ h v Ev Eq). rewrite Ev in Hg0. apply Hs1; [exact Hg0|lia].
  - rewrite (on_timeout_accept_high_eq cfg s key t i0 Ew) in *.
    match type of Hs with context [hbind (process_timeout_qc cfg ?s2 ?q) _] =>
      destruct (tail_view cfg (process_timeout_qc cfg s2 q) (vnum (tview t)) Hchk (process_timeout_qc_res _ _ _) Hs) as [_ Hv1] end.
    intros h v Hg0 Hv. rewrite Hv1 in Hv. rewrite Ev in Hg0.
    assert (Hne : h <> key).
    { intros ->. change (timeout_views' s key t) with (r_timeout_views s1) in Hg0.
      unfold s1 in Hg0. rewrite (tupd_views_own cfg s key t i0) in Hg0. inversion Hg0. lia. }
    apply Z.ltb_ge in Hold.
    destruct (Hs1 h v Hg0 ltac:(lia)) as (i1 & t1 & en & A1 & A2 & A3 & A4 & A5).
    exists i1, t1, en. split; [exact A1|]. split; [rewrite Ev; exact A2|]. split; [|auto].
    rewrite Eq. unfold zmap_remove.
    rewrite (RC.zmap_get_filter (fun x => negb (x =? vnum (tview t)))).
    destruct (v =? vnum (tview t)) eqn:E; [apply Z.eqb_eq in E; lia|]. cbn [negb]. exact A3.
Qed.

Lemma TB_step cfg s i : RC.cache_inv cfg s -> cchk cfg = true -> TB cfg s ->
  stopsA (snd (rstep_t cfg s i)) = false -> TB cfg (st_of (rstep_t cfg s i)).
Proof.
  intros Hinv Hchk HT Hs.
  pose proof (ReplicaMono.rstep_monotone cfg s i Hchk) as Hmono0.
  assert (Hkeep : forall (x : hres unit), RC.keeps (RC.caches s) x -> r_view s <= r_view (st_of x) -> TB cfg (st_of x)).
  { intros x Hk Hle. destruct (keeps_tcaches x s Hk) as [E1 E2]. exact (TB_keep cfg s _ E1 E2 Hle HT). }
  assert (Hst : forall s1, r_view s <= r_view s1 -> r_timeout_views s1 = r_timeout_views s -> r_timeout_qcs s1 = r_timeout_qcs s ->
                  TB cfg (st_of (start_timeout cfg s1))).
  { intros s1 Hle E1 E2. pose proof (RC.start_timeout_keeps cfg s1 _ eq_refl) as Hk.
    destruct (keeps_tcaches _ s1 Hk) as [F1 F2]. pose proof (start_timeout_le cfg s1) as Hl.
    apply (TB_keep cfg s); [congruence|congruence| |exact HT].
    destruct Hl as [Hl _]. change (ReplicaMono.st_of (start_timeout cfg s1)) with (st_of (start_timeout cfg s1)) in Hl. lia. }
  destruct i as [m| |n h].
  - destruct (m_msg m) as [p j|c|t|j] eqn:Em.
    + (* proposal: caches kept, also under the added start_timeout *)
      unfold rstep_t in *. cbn [rstep] in *. rewrite Em in *.
      pose proof (RC.on_proposal_keeps cfg s (m_key m) (m_sig_ok m) p j _ eq_refl) as Hk.
      destruct (keeps_tcaches _ s Hk) as [E1 E2].
      destruct Hmono0 as [Hv0 _].
      change (ReplicaMono.st_of (on_proposal cfg s (m_key m) (m_sig_ok m) p j))
        with (st_of (on_proposal cfg s (m_key m) (m_sig_ok m) p j)) in Hv0.
      destruct (on_proposal cfg s (m_key m) (m_sig_ok m) p j) as [[s' es] r] eqn:Eo.
      unfold st_of in E1, E2, Hv0. cbn [fst] in E1, E2, Hv0.
      assert (Hs' : TB cfg s') by (apply (TB_keep cfg s); assumption).
      destruct r as [a|e|pp]; try exact Hs'. destruct e; try exact Hs'.
      pose proof (Hst s' Hv0 E1 E2) as H. destruct (start_timeout cfg s') as [[s2 es2] r2]. exact H.
    + rewrite rstep_t_other in * by (intros ? ?; rewrite Em; discriminate). cbn [rstep] in *. rewrite Em in *.
      destruct (on_commit_tcaches cfg s (m_key m) (m_sig_ok m) c Hinv) as [E1 E2].
      apply (TB_keep cfg s); [exact E1|exact E2| |exact HT]. apply Hmono0.
    + rewrite rstep_t_other in * by (intros ? ?; rewrite Em; discriminate). cbn [rstep] in *. rewrite Em in *.
      destruct (on_timeout_cases cfg s (m_key m) (m_sig_ok m) t Hinv) as [(r & E & _)|(i0 & Hk & Hold & Hf & Hsg & Hver & E)].
      * rewrite E. exact HT.
      * rewrite E in *. apply timeout_verify_iff in Hver. destruct Hver as ((Hg & He) & _).
        apply (TB_accept cfg s (m_key m) t i0 Hinv Hchk Hk Hold Hg He Hs); [|exact HT]. apply Hmono0.
    + rewrite rstep_t_other in * by (intros ? ?; rewrite Em; discriminate). cbn [rstep] in *. rewrite Em in *.
      apply Hkeep; [apply RC.on_new_view_keeps; reflexivity|apply Hmono0].
  - unfold rstep_t in *. cbn [rstep] in *.
    pose proof (RC.start_timeout_keeps cfg s _ eq_refl) as Hk. destruct (keeps_tcaches _ s Hk) as [E1 E2].
    destruct Hmono0 as [Hv0 _]. cbn [rstep] in Hv0.
    change (ReplicaMono.st_of (start_timeout cfg s)) with (st_of (start_timeout cfg s)) in Hv0.
    destruct (start_timeout cfg s) as [[s' es] r] eqn:Eo. unfold st_of in E1, E2, Hv0. cbn [fst] in E1, E2, Hv0.
    assert (Hs' : TB cfg s') by (apply (TB_keep cfg s); assumption).
    destruct r as [a|e|pp]; try exact Hs'. destruct e; try exact Hs'.
    pose proof (Hst s' Hv0 E1 E2) as H. destruct (start_timeout cfg s') as [[s2 es2] r2]. exact H.
  - unfold rstep_t in *. cbn [rstep] in *.
    destruct (r_store_next s =? n); unfold hret, st_of; cbn [fst]; exact HT.
Qed.
