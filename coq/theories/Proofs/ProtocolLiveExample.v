(* Non-vacuity of C06 on the protocol model: synchronous rounds run by computation, from the
   initial state and after adversarial prefixes (crash between durable write and send, a lost
   write, a partitioned validator), and with a silent Byzantine leader. *)
From Coq Require Import ZArith List Bool Lia.
From EC Require Import Lib.Outcome Lib.ListW Model.Msgs Model.Replica Model.ReplicaRun Model.Protocol
  Model.ProtocolSync Proofs.ProtocolRefinesExec Proofs.ProtocolRefinesExample Proofs.ProtocolLive.
Import ListNotations.
Open Scope Z_scope.

Definition ex_pay (n : Z) : Z := 100 + n.

Lemma ex_env_ok : env_ok ex_P ex_pay.
Proof. split; [|split]; cbn; intros; try reflexivity; lia. Qed.

(* heights (next block of the store) of the honest nodes and the whole queue log *)
Definition ex_heights (ks : list Z) (s : gstate) : list Z :=
  map (fun k => r_store_next (n_live (g_node s k))) ks.

(* from the initial state: a block every two rounds, queued by every validator *)
Lemma ex_rounds_obs :
  map (fun r => ex_heights [1; 2; 3; 4] (sync_rounds ex_P ex_pay (find_cert ex_P) r (ginit ex_P))) [1; 2; 3; 4; 5]%nat =
  [[0; 0; 0; 0]; [0; 0; 0; 0]; [1; 1; 1; 1]; [1; 1; 1; 1]; [2; 2; 2; 2]] /\
  g_qlog (sync_rounds ex_P ex_pay (find_cert ex_P) 5 (ginit ex_P)) =
  [(1, 0, 100); (2, 0, 100); (3, 0, 100); (4, 0, 100); (1, 1, 101); (2, 1, 101); (3, 1, 101); (4, 1, 101)].
Proof. split; vm_compute; reflexivity. Qed.

Theorem ex_rounds_reachable : preach ex_P (sync_rounds ex_P ex_pay (find_cert ex_P) 5 (ginit ex_P)).
Proof. apply sync_rounds_reach. apply PReachInit. Qed.

(* after the prefix in which validator 3 crashed between the durable write of its vote and its
   sending, validator 1 lost a timeout write in a crash and validator 4 heard nothing since
   view 0: everybody catches up and the voted block (0, 42) is re-proposed and committed by all *)
Definition ex_ops_part : list xop :=
  [XDeliver 2 0; XDeliver 2 1; XDeliver 2 2; XDeliver 2 3;
   XDeliver 1 4; XDeliver 3 4; XPropose 2 (Some 42);
   XDeliver 1 7; XDeliver 2 7; XDeliver 3 7; XTimer 1; XTimer 2; XTimer 3;
   XCrash 1 None 0 false; XRestart 2].

Lemma ex_recovery_obs :
  option_map (fun s => (ex_obs s, map (fun r => ex_heights [1; 2; 3; 4] (sync_rounds ex_P ex_pay (find_cert ex_P) r s)) [1; 2; 3; 4]%nat,
                        g_qlog (sync_rounds ex_P ex_pay (find_cert ex_P) 2 s)))
             (xrun ex_P (ginit ex_P) ex_ops_part) =
  Some (([(1, 2, true, 0); (1, 2, true, 0); (1, 2, true, 0); (0, 2, true, 0)], 17%nat, 13%nat, []),
        [[0; 0; 0; 0]; [1; 1; 1; 1]; [1; 1; 1; 1]; [2; 2; 2; 2]],
        [(1, 0, 42); (2, 0, 42); (3, 0, 42); (4, 0, 42)]).
Proof. vm_compute. reflexivity. Qed.

Lemma ex_crash_recovery_obs :
  option_map (fun s => g_qlog (sync_rounds ex_P ex_pay (find_cert ex_P) 4 s)) (xrun ex_P (ginit ex_P) ex_ops_crash) =
  Some [(1, 0, 42); (2, 0, 42); (3, 0, 42); (4, 0, 42)].
Proof. vm_compute. reflexivity. Qed.

Lemma ex_recovery_qlog :
  option_map (fun s => g_qlog (sync_rounds ex_P ex_pay (find_cert ex_P) 2 s)) (xrun ex_P (ginit ex_P) ex_ops_part) =
  Some [(1, 0, 42); (2, 0, 42); (3, 0, 42); (4, 0, 42)].
Proof. vm_compute. reflexivity. Qed.

Lemma xrun_some_reach {A} P ops (f : gstate -> A) v :
  option_map f (xrun P (ginit P) ops) = Some v -> exists s, preach P s /\ f s = v.
Proof.
  destruct (xrun P (ginit P) ops) as [s|] eqn:E; cbn [option_map]; [|discriminate].
  intros H. injection H as H. exists s. split; [|exact H].
  eapply xrun_reach; [apply PReachInit|exact E].
Qed.

Theorem ex_recovery_reachable :
  exists s, preach ex_P s /\ g_qlog (sync_rounds ex_P ex_pay (find_cert ex_P) 2 s) = [(1, 0, 42); (2, 0, 42); (3, 0, 42); (4, 0, 42)] /\
            preach ex_P (sync_rounds ex_P ex_pay (find_cert ex_P) 2 s).
Proof.
  destruct (xrun_some_reach _ _ _ _ ex_recovery_qlog) as (s & Hr & H).
  exists s. split; [exact Hr|]. split; [exact H|apply sync_rounds_reach; exact Hr].
Qed.

(* six validators, validator 2 (leader of view 1) Byzantine and silent: view 1 times out, the
   honest leader of view 2 gets its block committed by every honest validator in round 5 *)
Definition ex_C6 : committee := map (fun k => {| mkey := k; mweight := 1 |}) [1; 2; 3; 4; 5; 6].
Definition ex_P6 : params :=
  {| p_g := 7; p_e := 1; p_C := ex_C6; p_first := 0; p_maxpay := 100; p_psize := fun _ => 1;
     p_pok := fun _ _ => true; p_byz := fun k => k =? 2 |}.

Lemma ex_P6_ok : params_ok ex_P6.
Proof.
  split; [|split; [|split]].
  - cbn. repeat constructor; cbn; intuition discriminate.
  - repeat constructor.
  - vm_compute. discriminate.
  - vm_compute. discriminate.
Qed.

Lemma ex_byz_leader_obs :
  map (fun r => (map (fun k => r_view (n_live (g_node (sync_rounds ex_P6 ex_pay (find_cert ex_P6) r (ginit ex_P6)) k))) [1; 3; 4; 5; 6],
                 ex_heights [1; 3; 4; 5; 6] (sync_rounds ex_P6 ex_pay (find_cert ex_P6) r (ginit ex_P6)))) [2; 3; 4; 5]%nat =
  [([1; 1; 1; 1; 1], [0; 0; 0; 0; 0]); ([2; 2; 2; 2; 2], [0; 0; 0; 0; 0]);
   ([2; 2; 2; 2; 2], [0; 0; 0; 0; 0]); ([3; 3; 3; 3; 3], [1; 1; 1; 1; 1])].
Proof. vm_compute. reflexivity. Qed.
