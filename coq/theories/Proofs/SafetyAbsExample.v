(* Layer A, non-vacuity: a concrete committee of six validators of weight 1 with one
   Byzantine member (f = 1, q = 5, s = 3) and a concrete run of eight steps that ends in a
   state containing a valid commit certificate signed by four honest validators and the
   Byzantine one. *)
From Coq Require Import ZArith List Bool Lia Arith.
From EC Require Import Model.SafetyAbs Proofs.SafetyAbsLib Proofs.SafetyAbsLocal Proofs.SafetyAbstract.
Import ListNotations.
Open Scope Z_scope.

Definition ex_weights : list Z := [1; 1; 1; 1; 1; 1].
Definition ex_byz (i : nat) : bool := Nat.eqb i 5.
Definition ex_first : Z := 0.

Lemma ex_thresholds :
  n_total ex_weights = 6 /\ f_max ex_weights = 1 /\ q_thr ex_weights = 5 /\ s_thr ex_weights = 3.
Proof. repeat split; reflexivity. Qed.

Lemma ex_committee_ok : committee_ok ex_weights ex_byz.
Proof.
  split; [|split].
  - repeat constructor.
  - vm_compute. discriminate.
  - intros l Hnd Hm Hb. destruct l as [|a l]; [vm_compute; discriminate|].
    destruct l as [|a' l].
    + inversion Hb as [|? ? Ha _]; subst. unfold ex_byz in Ha. apply Nat.eqb_eq in Ha. subst.
      vm_compute. discriminate.
    + exfalso. inversion Hb as [|? ? Ha Hb']; subst. inversion Hb' as [|? ? Ha' _]; subst.
      unfold ex_byz in Ha, Ha'. apply Nat.eqb_eq in Ha. apply Nat.eqb_eq in Ha'. subst.
      inversion Hnd as [|? ? Hnin _]; subst. apply Hnin. left. reflexivity.
Qed.

Definition do_timeout (st : astate) (i : nat) : astate :=
  {| cur := upd (cur st) i (fst (cur st i), Timeout);
     hvote := hvote st; hq := hq st; votes := votes st;
     timeouts := {| t_who := i; t_view := fst (cur st i);
                    t_report := {| ar_hv := hvote st i; ar_hq := hq st i |} |} :: timeouts st |}.

Definition do_vote (st : astate) (i : nat) (w : Z) (b : block) (cq : option acqc) : astate :=
  {| cur := upd (cur st) i (w, Commit);
     hvote := upd (hvote st) i (Some (w, b));
     hq := upd (hq st) i (max_cq (hq st i) cq);
     votes := {| v_who := i; v_view := w; v_block := b; v_cq := cq |} :: votes st;
     timeouts := timeouts st |}.

Definition ex_r0 : areport := {| ar_hv := None; ar_hq := None |}.
Definition ex_T : atqc :=
  {| at_view := 0;
     at_entries := [(0%nat, ex_r0); (1%nat, ex_r0); (2%nat, ex_r0); (3%nat, ex_r0); (5%nat, ex_r0)] |}.
Definition ex_b : block := {| bnum := 0; bhash := 7 |}.
Definition ex_c : acqc := {| aq_view := 1; aq_block := ex_b; aq_signers := [0; 1; 2; 3; 5]%nat |}.

Definition ex_s4 : astate := do_timeout (do_timeout (do_timeout (do_timeout init 0) 1) 2) 3.
Definition ex_s8 : astate :=
  do_vote (do_vote (do_vote (do_vote ex_s4 0 1 ex_b None) 1 1 ex_b None) 2 1 ex_b None) 3 1 ex_b None.

Notation ex_reachable := (reachable ex_weights ex_byz ex_first).

Lemma ex_honest i : (i < 5)%nat -> honest ex_weights ex_byz i.
Proof.
  intros H. split.
  - unfold member. cbn [ex_weights length]. lia.
  - unfold ex_byz. apply Nat.eqb_neq. lia.
Qed.

Lemma reach_timeout st i :
  ex_reachable st -> (i < 5)%nat -> ex_reachable (do_timeout st i).
Proof.
  intros Hr Hi. eapply ReachStep; [exact Hr|]. apply StepTimeout. apply ex_honest; auto.
Qed.

Lemma ex_T_valid st :
  incl (timeouts ex_s4) (timeouts st) -> valid_tqc ex_weights ex_byz st ex_T.
Proof.
  intros Hincl. split; [|split; [|split; [|split]]].
  - cbn. repeat constructor; cbn; intuition discriminate.
  - cbn. repeat constructor; unfold member; cbn; lia.
  - vm_compute. discriminate.
  - intros i r Hin [_ Hb]. apply Hincl. cbn in Hin.
    destruct Hin as [E|[E|[E|[E|[E|[]]]]]]; inversion E; subst; cbn; try tauto.
    discriminate Hb.
  - intros i r c Hin Hr. cbn in Hin.
    destruct Hin as [E|[E|[E|[E|[E|[]]]]]]; inversion E; subst; discriminate Hr.
Qed.

Lemma ex_high_qc_none : is_high_qc ex_T None.
Proof.
  intros i r Hin. cbn in Hin.
  destruct Hin as [E|[E|[E|[E|[E|[]]]]]]; inversion E; subst; reflexivity.
Qed.

Lemma ex_high_vote_none : is_high_vote ex_weights ex_T None.
Proof.
  left. intros b Hsub. unfold subquorum_block in Hsub. vm_compute in Hsub.
  apply Hsub. reflexivity.
Qed.

Lemma reach_vote st i :
  ex_reachable st -> (i < 5)%nat -> incl (timeouts ex_s4) (timeouts st) ->
  pos_lt (cur st i) (1, Commit) ->
  ex_reachable (do_vote st i 1 ex_b None).
Proof.
  intros Hr Hi Hincl Hcur. eapply ReachStep; [exact Hr|].
  apply (StepVote ex_weights ex_byz ex_first st i 1 ex_b (AJTimeout ex_T) None).
  - apply ex_honest; auto.
  - exact Hcur.
  - apply ex_T_valid. exact Hincl.
  - reflexivity.
  - exists (0, None). split.
    + exists None, None. split; [apply ex_high_vote_none|]. split; [apply ex_high_qc_none|].
      reflexivity.
    + split; [reflexivity|exact I].
  - apply ex_high_qc_none.
Qed.

Lemma ex_s4_reachable : ex_reachable ex_s4.
Proof.
  unfold ex_s4. repeat (apply reach_timeout; [|lia]). apply ReachInit.
Qed.

Lemma ex_s8_reachable : ex_reachable ex_s8.
Proof.
  unfold ex_s8.
  repeat (apply reach_vote;
          [|lia|cbn [do_vote timeouts]; apply incl_refl|left; vm_compute; reflexivity]).
  apply ex_s4_reachable.
Qed.

Lemma ex_c_valid : valid_cqc ex_weights ex_byz ex_s8 ex_c.
Proof.
  split; [|split; [|split]].
  - cbn. repeat constructor; cbn; intuition discriminate.
  - cbn. repeat constructor; unfold member; cbn; lia.
  - vm_compute. discriminate.
  - intros i Hin [_ Hb]. cbn in Hin.
    destruct Hin as [E|[E|[E|[E|[E|[]]]]]]; subst; try (exists None; cbn; tauto).
    discriminate Hb.
Qed.

(* the state really contains a possible quorum, and the theorems apply to it *)
Lemma ex_nonvacuous :
  committee_ok ex_weights ex_byz /\ ex_reachable ex_s8 /\
  valid_cqc ex_weights ex_byz ex_s8 ex_c /\
  PQ ex_weights ex_byz ex_s8 1 ex_b [0; 1; 2; 3; 5]%nat /\
  length (votes ex_s8) = 4%nat /\ length (timeouts ex_s8) = 4%nat.
Proof.
  split; [exact ex_committee_ok|]. split; [exact ex_s8_reachable|].
  split; [exact ex_c_valid|]. split; [|split; reflexivity].
  exact (valid_is_PQ ex_weights ex_byz ex_s8 ex_c ex_c_valid).
Qed.
