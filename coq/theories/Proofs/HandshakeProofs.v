(* C12 — lemmas about Model/Handshake.v *)
From Coq Require Import ZArith List Bool Lia.
From EC Require Import Lib.Outcome Model.Handshake.
Import ListNotations.
Open Scope Z_scope.

(* ---------- signatures ---------- *)

Lemma verify_spec k sid s : verify k sid s = true <-> s = SSig k sid.
Proof.
  destruct s as [k' sid'|]; cbn [verify].
  - rewrite andb_true_iff, !Z.eqb_eq. split; [intros (-> & ->); reflexivity|intros [= -> ->]; tauto].
  - split; discriminate.
Qed.

Lemma sig_eqb_eq a b : sig_eqb a b = true <-> a = b.
Proof.
  destruct a as [k s|], b as [k' s'|]; cbn [sig_eqb]; try (split; [discriminate|discriminate]).
  - rewrite andb_true_iff, !Z.eqb_eq. split; [intros (-> & ->); reflexivity|intros [= -> ->]; tauto].
  - tauto.
Qed.

(* ---------- the decision functions: what an Ok result implies ---------- *)

Definition accepted (own_sid gen K : Z) (r : recv) : Prop :=
  exists h, r = RMsg h /\ m_sid h = own_sid /\ m_gen h = gen /\ m_key h = K /\ m_sig h = SSig K own_sid.

Ltac crush_decision H :=
  repeat match type of H with
         | (if negb ?b then _ else _) = _ => let E := fresh "E" in destruct b eqn:E; cbn [negb] in H; [|discriminate H]
         end.

Lemma gossip_outbound_sound own_sid gen peer r K :
  gossip_outbound own_sid gen peer r = Ok K -> accepted own_sid gen K r /\ K = peer.
Proof.
  destruct r as [h|]; cbn [gossip_outbound]; [|discriminate]. intros H. crush_decision H.
  injection H as <-. apply Z.eqb_eq in E, E0, E1. apply verify_spec in E2. rewrite E0 in E2.
  split; [exists h; tauto|exact E1].
Qed.

Lemma gossip_inbound_sound own_sid gen r K :
  gossip_inbound own_sid gen r = Ok K -> accepted own_sid gen K r.
Proof.
  destruct r as [h|]; cbn [gossip_inbound]; [|discriminate]. intros H. crush_decision H.
  injection H as <-. apply Z.eqb_eq in E, E0. apply verify_spec in E1. rewrite E in E1.
  exists h; tauto.
Qed.

Lemma validator_outbound_sound own_sid gen peer r K :
  validator_outbound own_sid gen peer r = Ok K -> accepted own_sid gen K r /\ K = peer.
Proof.
  destruct r as [h|]; cbn [validator_outbound]; [|discriminate]. intros H. crush_decision H.
  injection H as <-. apply Z.eqb_eq in E, E0, E1. apply verify_spec in E2. rewrite E0, E1 in E2.
  split; [exists h; tauto|reflexivity].
Qed.

Lemma validator_inbound_sound own_sid gen r K :
  validator_inbound own_sid gen r = Ok K -> accepted own_sid gen K r.
Proof.
  destruct r as [h|]; cbn [validator_inbound]; [|discriminate]. intros H. crush_decision H.
  injection H as <-. apply Z.eqb_eq in E, E0. apply verify_spec in E1. rewrite E0 in E1.
  exists h; tauto.
Qed.

Lemma decide_sound c own_sid r K : decide c own_sid r = Ok K ->
  accepted own_sid (e_gen c) K r /\ (forall p, e_role c = ROut p -> K = p).
Proof.
  unfold decide. destruct (e_net c), (e_role c) as [p|]; intros H.
  - apply gossip_outbound_sound in H. destruct H as (H & ->). split; [exact H|]. intros p' [= ->]. reflexivity.
  - apply gossip_inbound_sound in H. split; [exact H|]. discriminate.
  - apply validator_outbound_sound in H. destruct H as (H & ->). split; [exact H|]. intros p' [= ->]. reflexivity.
  - apply validator_inbound_sound in H. split; [exact H|]. discriminate.
Qed.

(* never a panic: the functions have no panic site *)
Lemma decide_no_panic c own_sid r x : decide c own_sid r <> Panic x.
Proof.
  unfold decide, gossip_outbound, gossip_inbound, validator_outbound, validator_inbound.
  destruct (e_net c), (e_role c), r as [h|]; try discriminate;
    repeat match goal with |- (if ?b then _ else _) <> _ => destruct b end; discriminate.
Qed.

(* completeness of one decision: a message signed by K over this id, same chain, expected key *)
Lemma decide_complete c own_sid h :
  m_sid h = own_sid -> m_gen h = e_gen c -> m_sig h = SSig (m_key h) own_sid ->
  (forall p, e_role c = ROut p -> m_key h = p) ->
  decide c own_sid (RMsg h) = Ok (m_key h).
Proof.
  intros Hs Hg Hv Hp.
  assert (verify (m_key h) (m_sid h) (m_sig h) = true) as Hver by (apply verify_spec; rewrite Hs; exact Hv).
  unfold decide, gossip_outbound, gossip_inbound, validator_outbound, validator_inbound.
  destruct (e_net c), (e_role c) as [p|];
    rewrite ?Hver, ?Hs, ?Hg, ?Z.eqb_refl; cbn [negb];
    try (rewrite (Hp p eq_refl), Z.eqb_refl; cbn [negb]); reflexivity.
Qed.

(* is_static (and everything else the message carries) has no influence *)
Lemma decide_ignores_static c own_sid h b :
  decide c own_sid (RMsg {| m_sid := m_sid h; m_key := m_key h; m_sig := m_sig h; m_gen := m_gen h; m_static := b |})
  = decide c own_sid (RMsg h).
Proof. destruct h. reflexivity. Qed.

(* a signature made for another session is refused whatever the other fields say *)
Lemma foreign_signature_refused c own_sid h k sid' K :
  m_sig h = SSig k sid' -> sid' <> own_sid -> decide c own_sid (RMsg h) <> Ok K.
Proof.
  intros Hs Hne H. apply decide_sound in H. destruct H as ((h' & [= <-] & _ & _ & _ & Hsig) & _).
  rewrite Hs in Hsig. injection Hsig as _ Hsid. contradiction.
Qed.

Lemma closed_refused c own_sid K : decide c own_sid RClosed <> Ok K.
Proof.
  intros H. apply decide_sound in H. destruct H as ((h & Hh & _) & _). discriminate.
Qed.

(* ---------- traces ---------- *)

Lemma find_open_some tr sid side c : find_open tr sid side = Some c -> In (EvOpen sid side c) tr.
Proof.
  induction tr as [|e tr IH]; cbn [find_open]; [discriminate|].
  destruct e as [s d c'|s d m|s d r]; try (intros H; right; exact (IH H)).
  destruct ((s =? sid) && Bool.eqb d side) eqn:E.
  - apply andb_true_iff in E. destruct E as (E1 & E2). apply Z.eqb_eq in E1. apply eqb_prop in E2.
    intros [= ->]. left. congruence.
  - intros H; right; exact (IH H).
Qed.

Lemma find_open_none tr sid side : find_open tr sid side = None -> forall c, ~ In (EvOpen sid side c) tr.
Proof.
  induction tr as [|e tr IH]; cbn [find_open]; [intros _ c []|].
  destruct e as [s d c'|s d m|s d r]; try (intros H c [Hc|Hc]; [discriminate Hc|exact (IH H c Hc)]).
  destruct ((s =? sid) && Bool.eqb d side) eqn:E; [discriminate|].
  intros H c [Hc|Hc]; [|exact (IH H c Hc)].
  injection Hc as -> -> ->. rewrite Z.eqb_refl, eqb_reflx in E. discriminate.
Qed.

Lemma is_done_false tr sid side : is_done tr sid side = false -> forall r, ~ In (EvDone sid side r) tr.
Proof.
  induction tr as [|e tr IH]; cbn [is_done]; [intros _ r []|].
  destruct e as [s d c'|s d m|s d r']; try (intros H r [Hc|Hc]; [discriminate Hc|exact (IH H r Hc)]).
  intros H r [Hc|Hc].
  - injection Hc as -> -> ->. rewrite Z.eqb_refl, eqb_reflx in H. discriminate.
  - apply orb_false_iff in H. exact (IH (proj2 H) r Hc).
Qed.

Lemma sig_emitted_spec tr s : sig_emitted tr s = true ->
  exists sid side m, In (EvEmit sid side m) tr /\ m_sig m = s.
Proof.
  induction tr as [|e tr IH]; cbn [sig_emitted]; [discriminate|].
  destruct e as [s0 d c'|s0 d m|s0 d r'];
    try (intros H; destruct (IH H) as (a & b & m' & Hin & Hs); exists a, b, m'; split; [right; exact Hin|exact Hs]).
  intros H. apply orb_true_iff in H. destruct H as [H|H].
  - apply sig_eqb_eq in H. exists s0, d, m. split; [left; reflexivity|exact H].
  - destruct (IH H) as (a & b & m' & Hin & Hs). exists a, b, m'. split; [right; exact Hin|exact Hs].
Qed.

Lemma sig_emitted_intro tr sid side m : In (EvEmit sid side m) tr -> sig_emitted tr (m_sig m) = true.
Proof.
  induction tr as [|e tr IH]; intros Hin; [destruct Hin|].
  destruct Hin as [->|Hin]; cbn [sig_emitted].
  - apply orb_true_iff. left. apply sig_eqb_eq. reflexivity.
  - destruct e; try exact (IH Hin). apply orb_true_iff. right. exact (IH Hin).
Qed.

(* ---------- the invariant of every reachable trace ---------- *)

(* every emitted message was signed by the node running that endpoint, over that endpoint's own
   session id; an accepting end emitted only after it accepted *)
Definition emit_ok (tr : trace) : Prop :=
  forall sid side m, In (EvEmit sid side m) tr ->
    exists c, In (EvOpen sid side c) tr /\ m_sig m = SSig (e_key c) sid /\ m_key m = e_key c /\
              m_sid m = sid /\ m_gen m = e_gen c /\
              (e_role c = RIn -> exists K, In (EvDone sid side (Ok K)) tr).

Definition open_uniq (tr : trace) : Prop :=
  forall sid side c c', In (EvOpen sid side c) tr -> In (EvOpen sid side c') tr -> c = c'.

(* an endpoint that returned Ok K was opened, and if it dialled p then K = p *)
Definition done_cfg (tr : trace) : Prop :=
  forall sid side K, In (EvDone sid side (Ok K)) tr ->
    exists c, In (EvOpen sid side c) tr /\ (forall p, e_role c = ROut p -> K = p).

(* authentication: Ok K with K honest means K itself ran an endpoint of this very session and signed
   its id there; that endpoint is the other end, except when a node that dialled its own key gets
   its own message reflected *)
Definition authentic (honest : Z -> bool) (tr : trace) : Prop :=
  forall sid side K, In (EvDone sid side (Ok K)) tr -> honest K = true ->
    exists side' c' m, In (EvOpen sid side' c') tr /\ e_key c' = K /\
      In (EvEmit sid side' m) tr /\ m_sig m = SSig K sid /\
      (side' <> side \/ exists c, In (EvOpen sid side c) tr /\ e_role c = ROut K /\ e_key c = K).

Definition inv (honest : Z -> bool) (tr : trace) : Prop :=
  emit_ok tr /\ open_uniq tr /\ done_cfg tr /\ authentic honest tr.

Lemma inv_nil honest : inv honest [].
Proof.
  unfold inv, emit_ok, open_uniq, done_cfg, authentic. cbn [In]. repeat split; intros; contradiction.
Qed.

Lemma in_opt_emit sid side o e : In e (opt_emit sid side o) -> exists m, o = Some m /\ e = EvEmit sid side m.
Proof.
  destruct o as [m|]; cbn; [|tauto]. intros [<-|[]]. exists m. tauto.
Qed.

Lemma step_inv honest tr a tr' : inv honest tr -> step honest tr a = Some tr' -> inv honest tr'.
Proof.
  intros (Hem & Huq & Hdc & Hau) Hst. destruct a as [sid side c|sid side r]; cbn [step] in Hst.
  - (* open *)
    destruct (find_open tr sid side) eqn:Ef; [discriminate|]. injection Hst as <-.
    pose proof (find_open_none _ _ _ Ef) as Hno.
    assert (Hmono : forall e, In e tr -> In e (opt_emit sid side (emit_open c sid) ++ EvOpen sid side c :: tr))
      by (intros e He; apply in_or_app; right; right; exact He).
    assert (Hsplit : forall e, In e (opt_emit sid side (emit_open c sid) ++ EvOpen sid side c :: tr) ->
                (exists m, emit_open c sid = Some m /\ e = EvEmit sid side m) \/ e = EvOpen sid side c \/ In e tr).
    { intros e He. apply in_app_or in He. destruct He as [He|[He|He]];
        [left; exact (in_opt_emit _ _ _ _ He)|right; left; symmetry; exact He|right; right; exact He]. }
    split; [|split; [|split]].
    + intros s d m Hin. destruct (Hsplit _ Hin) as [(m' & Hm' & He)|[He|He]]; [|discriminate He|].
      * injection He as -> -> ->. exists c. split; [apply in_or_app; right; left; reflexivity|].
        unfold emit_open in Hm'. destruct (e_role c) as [p|] eqn:Er; [|discriminate].
        injection Hm' as <-. cbn. repeat split; try reflexivity. discriminate.
      * destruct (Hem _ _ _ He) as (c0 & H1 & H2 & H3 & H4 & H5 & H6). exists c0.
        split; [exact (Hmono _ H1)|]. repeat split; try assumption.
        intros Hr. destruct (H6 Hr) as (K & HK). exists K. exact (Hmono _ HK).
    + intros s d c1 c2 H1 H2.
      destruct (Hsplit _ H1) as [(m' & _ & He)|[He|He]]; [discriminate He| |];
        destruct (Hsplit _ H2) as [(m'' & _ & He')|[He'|He']]; try discriminate He'.
      * congruence.
      * injection He as -> -> ->. exfalso. exact (Hno _ He').
      * injection He' as -> -> ->. exfalso. exact (Hno _ He).
      * exact (Huq _ _ _ _ He He').
    + intros s d K Hin. destruct (Hsplit _ Hin) as [(m' & _ & He)|[He|He]]; try discriminate He.
      destruct (Hdc _ _ _ He) as (c0 & H1 & H2). exists c0. split; [exact (Hmono _ H1)|exact H2].
    + intros s d K Hin HK. destruct (Hsplit _ Hin) as [(m' & _ & He)|[He|He]]; try discriminate He.
      destruct (Hau _ _ _ He HK) as (d' & c' & m & H1 & H2 & H3 & H4 & H5).
      exists d', c', m. split; [exact (Hmono _ H1)|]. split; [exact H2|]. split; [exact (Hmono _ H3)|].
      split; [exact H4|]. destruct H5 as [H5|(c0 & H5 & H6)]; [left; exact H5|].
      right. exists c0. split; [exact (Hmono _ H5)|exact H6].
  - (* deliver *)
    destruct (find_open tr sid side) as [c|] eqn:Ef; [|discriminate].
    destruct (is_done tr sid side) eqn:Ed; [discriminate|].
    destruct (negb match r with RMsg m => sig_known honest tr (m_sig m) | RClosed => true end) eqn:Ek; [discriminate|].
    apply negb_false_iff in Ek. injection Hst as <-.
    pose proof (find_open_some _ _ _ _ Ef) as Hop.
    pose proof (is_done_false _ _ _ Ed) as Hnd.
    set (res := decide c sid r) in *.
    assert (Hmono : forall e, In e tr -> In e (opt_emit sid side (emit_accept c sid res) ++ EvDone sid side res :: tr))
      by (intros e He; apply in_or_app; right; right; exact He).
    assert (Hsplit : forall e, In e (opt_emit sid side (emit_accept c sid res) ++ EvDone sid side res :: tr) ->
                (exists m, emit_accept c sid res = Some m /\ e = EvEmit sid side m) \/ e = EvDone sid side res \/ In e tr).
    { intros e He. apply in_app_or in He. destruct He as [He|[He|He]];
        [left; exact (in_opt_emit _ _ _ _ He)|right; left; symmetry; exact He|right; right; exact He]. }
    split; [|split; [|split]].
    + intros s d m Hin. destruct (Hsplit _ Hin) as [(m' & Hm' & He)|[He|He]]; [|discriminate He|].
      * injection He as -> -> ->. exists c. split; [exact (Hmono _ Hop)|].
        unfold emit_accept in Hm'. destruct (e_role c) as [p|] eqn:Er; [discriminate|].
        destruct res as [k| |] eqn:Eres; try discriminate. injection Hm' as <-. cbn.
        repeat split; try reflexivity. intros _. exists k. apply in_or_app. right. left. reflexivity.
      * destruct (Hem _ _ _ He) as (c0 & H1 & H2 & H3 & H4 & H5 & H6). exists c0.
        split; [exact (Hmono _ H1)|]. repeat split; try assumption.
        intros Hr. destruct (H6 Hr) as (K & HK). exists K. exact (Hmono _ HK).
    + intros s d c1 c2 H1 H2.
      destruct (Hsplit _ H1) as [(m' & _ & He)|[He|He]]; try discriminate He.
      destruct (Hsplit _ H2) as [(m'' & _ & He')|[He'|He']]; try discriminate He'.
      exact (Huq _ _ _ _ He He').
    + intros s d K Hin. destruct (Hsplit _ Hin) as [(m' & _ & He)|[He|He]]; [discriminate He| |].
      * injection He as -> -> Hres. exists c. split; [exact (Hmono _ Hop)|].
        symmetry in Hres. unfold res in Hres. apply decide_sound in Hres. exact (proj2 Hres).
      * destruct (Hdc _ _ _ He) as (c0 & H1 & H2). exists c0. split; [exact (Hmono _ H1)|exact H2].
    + intros s d K Hin HK. destruct (Hsplit _ Hin) as [(m' & _ & He)|[He|He]]; [discriminate He| |].
      * injection He as -> -> Hres. symmetry in Hres. unfold res in Hres.
        apply decide_sound in Hres. destruct Hres as ((h & -> & Hsid & Hgen & Hkey & Hsig) & Hpeer).
        rewrite Hsig in Ek. cbn [sig_known] in Ek. rewrite HK in Ek. cbn [negb orb] in Ek.
        destruct (sig_emitted_spec _ _ Ek) as (s0 & d0 & m0 & Hin0 & Hs0).
        destruct (Hem _ _ _ Hin0) as (c0 & Ho0 & Hsg0 & _ & _ & _ & Hrole0).
        rewrite Hs0 in Hsg0. injection Hsg0 as HKc Hss. subst s0.
        exists d0, c0, m0. split; [exact (Hmono _ Ho0)|]. split; [symmetry; exact HKc|].
        split; [exact (Hmono _ Hin0)|]. split; [exact Hs0|].
        destruct (bool_dec d0 side) as [->|Hne]; [right|left; exact Hne].
        assert (c0 = c) as -> by exact (Huq _ _ _ _ Ho0 Hop).
        exists c. split; [exact (Hmono _ Hop)|].
        destruct (e_role c) as [p|] eqn:Er.
        -- rewrite <- (Hpeer p eq_refl). split; [reflexivity|symmetry; exact HKc].
        -- exfalso. destruct (Hrole0 eq_refl) as (K' & HK'). exact (Hnd _ HK').
      * destruct (Hau _ _ _ He HK) as (d' & c' & m & H1 & H2 & H3 & H4 & H5).
        exists d', c', m. split; [exact (Hmono _ H1)|]. split; [exact H2|]. split; [exact (Hmono _ H3)|].
        split; [exact H4|]. destruct H5 as [H5|(c0 & H5 & H6)]; [left; exact H5|].
        right. exists c0. split; [exact (Hmono _ H5)|exact H6].
Qed.

Lemma run_inv honest acts : forall tr tr', inv honest tr -> run honest tr acts = Some tr' -> inv honest tr'.
Proof.
  induction acts as [|a acts IH]; intros tr tr' Hi Hr; cbn [run] in Hr.
  - injection Hr as <-. exact Hi.
  - destruct (step honest tr a) as [tr1|] eqn:Es; [|discriminate].
    exact (IH _ _ (step_inv _ _ _ _ Hi Es) Hr).
Qed.

Lemma reachable_inv honest acts tr : run honest [] acts = Some tr -> inv honest tr.
Proof. apply run_inv, inv_nil. Qed.

(* ---------- completeness on the system level ---------- *)

Lemma step_open_ok honest tr sid side c : find_open tr sid side = None ->
  step honest tr (AOpen sid side c) = Some (opt_emit sid side (emit_open c sid) ++ EvOpen sid side c :: tr).
Proof. intros H. cbn [step]. rewrite H. reflexivity. Qed.

Lemma sig_known_emitted honest tr sid side m : In (EvEmit sid side m) tr -> sig_known honest tr (m_sig m) = true.
Proof.
  intros H. unfold sig_known. destruct (m_sig m) as [k s|] eqn:E; [|reflexivity].
  rewrite <- E, (sig_emitted_intro _ _ _ _ H). apply orb_true_r.
Qed.

Lemma step_deliver_ok honest tr sid side c m : find_open tr sid side = Some c ->
  is_done tr sid side = false -> sig_known honest tr (m_sig m) = true ->
  step honest tr (ADeliver sid side (RMsg m)) =
  Some (opt_emit sid side (emit_accept c sid (decide c sid (RMsg m))) ++ EvDone sid side (decide c sid (RMsg m)) :: tr).
Proof. intros H1 H2 H3. cbn [step]. rewrite H1, H2, H3. reflexivity. Qed.

Lemma complete_run honest sid cout cin :
  e_role cout = ROut (e_key cin) -> e_role cin = RIn -> e_gen cout = e_gen cin ->
  let m1 := own_msg cout sid (static_flag cout (e_key cin)) in
  let m2 := own_msg cin sid (static_flag cin (e_key cout)) in
  exists tr, run honest [] [AOpen sid true cout; AOpen sid false cin;
                            ADeliver sid false (RMsg m1); ADeliver sid true (RMsg m2)] = Some tr /\
    In (EvDone sid false (Ok (e_key cout))) tr /\ In (EvDone sid true (Ok (e_key cin))) tr.
Proof.
  intros Hro Hri Hg m1 m2.
  assert (D1 : decide cin sid (RMsg m1) = Ok (e_key cout)).
  { apply (decide_complete cin sid m1); try reflexivity.
    - cbn. exact Hg.
    - rewrite Hri. discriminate. }
  assert (D2 : decide cout sid (RMsg m2) = Ok (e_key cin)).
  { apply (decide_complete cout sid m2); try reflexivity.
    - cbn. symmetry. exact Hg.
    - rewrite Hro. intros p [= <-]. reflexivity. }
  set (tr1 := [EvEmit sid true m1; EvOpen sid true cout]).
  set (tr2 := EvOpen sid false cin :: tr1).
  set (tr3 := EvEmit sid false m2 :: EvDone sid false (Ok (e_key cout)) :: tr2).
  set (tr4 := EvDone sid true (Ok (e_key cin)) :: tr3).
  assert (S1 : step honest [] (AOpen sid true cout) = Some tr1).
  { rewrite step_open_ok by reflexivity. unfold emit_open. rewrite Hro. reflexivity. }
  assert (S2 : step honest tr1 (AOpen sid false cin) = Some tr2).
  { rewrite step_open_ok.
    - unfold emit_open. rewrite Hri. reflexivity.
    - unfold tr1. cbn [find_open Bool.eqb]. rewrite andb_false_r. reflexivity. }
  assert (S3 : step honest tr2 (ADeliver sid false (RMsg m1)) = Some tr3).
  { rewrite (step_deliver_ok honest tr2 sid false cin m1).
    - rewrite D1. unfold emit_accept. rewrite Hri. reflexivity.
    - unfold tr2. cbn [find_open Bool.eqb]. rewrite Z.eqb_refl. reflexivity.
    - reflexivity.
    - apply (sig_known_emitted honest tr2 sid true m1). right. left. reflexivity. }
  assert (S4 : step honest tr3 (ADeliver sid true (RMsg m2)) = Some tr4).
  { rewrite (step_deliver_ok honest tr3 sid true cout m2).
    - rewrite D2. unfold emit_accept. rewrite Hro. reflexivity.
    - unfold tr3, tr2, tr1. cbn [find_open Bool.eqb]. rewrite Z.eqb_refl. cbn [andb]. reflexivity.
    - unfold tr3, tr2, tr1. cbn [is_done Bool.eqb]. rewrite andb_false_r. reflexivity.
    - apply (sig_known_emitted honest tr3 sid false m2). left. reflexivity. }
  exists tr4. cbn [run]. rewrite S1, S2, S3, S4. split; [reflexivity|].
  split; [right; right; left; reflexivity|left; reflexivity].
Qed.

(* ---------- corollaries on reachable traces ---------- *)

Lemma sound_sys honest acts tr sid side K :
  run honest [] acts = Some tr -> In (EvDone sid side (Ok K)) tr ->
  (exists c, In (EvOpen sid side c) tr /\ (forall p, e_role c = ROut p -> K = p)) /\
  (honest K = true ->
   exists side' c' m, In (EvOpen sid side' c') tr /\ e_key c' = K /\
     In (EvEmit sid side' m) tr /\ m_sig m = SSig K sid /\
     (side' <> side \/ exists c, In (EvOpen sid side c) tr /\ e_role c = ROut K /\ e_key c = K)).
Proof.
  intros Hr Hd. destruct (reachable_inv _ _ _ Hr) as (_ & _ & Hdc & Hau).
  split; [exact (Hdc _ _ _ Hd)|]. intros HK. exact (Hau _ _ _ Hd HK).
Qed.

(* the remote end, strictly: accepting ends always, connecting ends unless they dialled themselves *)
Lemma sound_remote honest acts tr sid side K c :
  run honest [] acts = Some tr -> In (EvDone sid side (Ok K)) tr -> honest K = true ->
  In (EvOpen sid side c) tr -> (e_role c = RIn \/ e_key c <> K) ->
  exists c' m, In (EvOpen sid (negb side) c') tr /\ e_key c' = K /\
               In (EvEmit sid (negb side) m) tr /\ m_sig m = SSig K sid.
Proof.
  intros Hr Hd HK Ho Hc. pose proof (reachable_inv _ _ _ Hr) as (_ & Huq & _ & Hau).
  destruct (Hau _ _ _ Hd HK) as (d' & c' & m & H1 & H2 & H3 & H4 & H5).
  destruct H5 as [H5|(c0 & H5 & H6 & H7)].
  - assert (d' = negb side) as -> by (destruct d', side; try reflexivity; exfalso; apply H5; reflexivity).
    exists c', m. tauto.
  - assert (c0 = c) as -> by exact (Huq _ _ _ _ H5 Ho).
    exfalso. destruct Hc as [Hc|Hc]; [rewrite Hc in H6; discriminate|exact (Hc H7)].
Qed.

Lemma relay_refused_sys honest acts tr sid K :
  run honest [] acts = Some tr -> honest K = true ->
  (forall side c, In (EvOpen sid side c) tr -> e_key c <> K) ->
  forall side, ~ In (EvDone sid side (Ok K)) tr.
Proof.
  intros Hr HK Hno side Hd. destruct (sound_sys _ _ _ _ _ _ Hr Hd) as (_ & H).
  destruct (H HK) as (d' & c' & m & H1 & H2 & _). exact (Hno _ _ H1 H2).
Qed.

Lemma replay_refused_sys honest acts tr sid' side' m :
  run honest [] acts = Some tr -> In (EvEmit sid' side' m) tr ->
  forall c sid h K, sid <> sid' -> m_sig h = m_sig m -> decide c sid (RMsg h) <> Ok K.
Proof.
  intros Hr He c sid h K Hne Hs. destruct (reachable_inv _ _ _ Hr) as (Hem & _).
  destruct (Hem _ _ _ He) as (c0 & _ & Hsig & _). rewrite Hsig in Hs.
  apply (foreign_signature_refused c sid h (e_key c0) sid' K Hs). congruence.
Qed.

(* an honest key signs nothing but the ids of sessions it runs an endpoint of *)
Lemma honest_signs_own_sessions honest acts tr sid side m :
  run honest [] acts = Some tr -> In (EvEmit sid side m) tr ->
  exists c, In (EvOpen sid side c) tr /\ m_sig m = SSig (e_key c) sid /\ m_gen m = e_gen c.
Proof.
  intros Hr He. destruct (reachable_inv _ _ _ Hr) as (Hem & _).
  destruct (Hem _ _ _ He) as (c0 & H1 & H2 & _ & _ & H3 & _). exists c0. tauto.
Qed.
