From Coq Require Import ZArith Lia.
From EC Require Import Lib.Outcome Lib.U64.
Open Scope Z_scope.

Lemma u64_sub_ok E chk a b : b <= a -> @u64_sub E chk a b = Ok (a - b).
Proof. intros H. unfold u64_sub. destruct (b <=? a) eqn:Hle; [reflexivity|lia]. Qed.
Lemma u64_add_ok E chk a b : a + b < U64 -> @u64_add E chk a b = Ok (a + b).
Proof. intros H. unfold u64_add. destruct (a + b <? U64) eqn:Hlt; [reflexivity|lia]. Qed.
Lemma u64_mul_ok E chk a b : a * b < U64 -> @u64_mul E chk a b = Ok (a * b).
Proof. intros H. unfold u64_mul. destruct (a * b <? U64) eqn:Hlt; [reflexivity|lia]. Qed.
Lemma u64_div_ok E a b : b <> 0 -> @u64_div E a b = Ok (a / b).
Proof. intros H. unfold u64_div. destruct (b =? 0) eqn:Hz; [lia|reflexivity]. Qed.
Lemma u64_rem_ok E a b : b <> 0 -> @u64_rem E a b = Ok (a mod b).
Proof. intros H. unfold u64_rem. destruct (b =? 0) eqn:Hz; [lia|reflexivity]. Qed.
