(* C18 lemmas, part 1: the order on announcements, symbolic signatures, the map, and the
   single-call behaviour of ValidatorAddrs::update / ValidatorAddrsWatch::{update, announce}. *)
From Coq Require Import ZArith List Bool Lia Permutation.
From EC Require Import Lib.Outcome Lib.U64 Lib.Obs Model.AddrBook.
Import ListNotations.
Open Scope Z_scope.

(* ------------------------------------------------------------------ *)
(* the order on announcements *)

Definition newer (a b : net_address) : Prop :=
  na_version b < na_version a \/ (na_version a = na_version b /\ na_ts b < na_ts a).

Lemma is_newer_spec : forall a b, is_newer a b = true <-> newer a b.
Proof.
  intros a b. unfold is_newer, newer.
  rewrite orb_true_iff, andb_true_iff, !Z.ltb_lt, Z.eqb_eq. reflexivity.
Qed.

Lemma is_newer_false : forall a b, is_newer a b = false <-> ~ newer a b.
Proof.
  intros a b. rewrite <- is_newer_spec. destruct (is_newer a b); split; intros H.
  - discriminate H.
  - exfalso. apply H. reflexivity.
  - intros H'. discriminate H'.
  - reflexivity.
Qed.

Lemma newer_irrefl : forall a, ~ newer a a.
Proof. unfold newer. intros a H. lia. Qed.
Lemma newer_trans : forall a b c, newer a b -> newer b c -> newer a c.
Proof. unfold newer. intros a b c H1 H2. lia. Qed.
Lemma newer_asym : forall a b, newer a b -> ~ newer b a.
Proof. unfold newer. intros a b H1 H2. lia. Qed.
Lemma not_newer_trans : forall a b c, ~ newer a b -> (b = c \/ newer c b) -> ~ newer a c.
Proof. unfold newer. intros a b c H1 [->|H2] H3; lia. Qed.
Lemma newer_total : forall a b, ~ newer a b -> ~ newer b a ->
  na_version a = na_version b /\ na_ts a = na_ts b.
Proof. unfold newer. intros a b H1 H2. lia. Qed.

(* ------------------------------------------------------------------ *)
(* signatures (H-SIG: the term algebra) *)

Lemma na_eqb_eq : forall a b, na_eqb a b = true <-> a = b.
Proof.
  intros [a1 v1 t1] [a2 v2 t2]. unfold na_eqb. cbn [na_addr na_version na_ts].
  rewrite !andb_true_iff, !Z.eqb_eq. split.
  - intros [[-> ->] ->]. reflexivity.
  - intros H. injection H as -> -> ->. auto.
Qed.

Lemma verify_spec : forall e, verify e = true <-> esig e = {| sg_key := ekey e; sg_msg := emsg e |}.
Proof.
  intros [k m [sk sm]]. unfold verify. cbn [ekey emsg esig sg_key sg_msg].
  rewrite andb_true_iff, Z.eqb_eq, na_eqb_eq. split.
  - intros [-> ->]. reflexivity.
  - intros H. injection H as -> ->. auto.
Qed.

Lemma verify_sign : forall k m, verify (sign k m) = true.
Proof. intros k m. apply verify_spec. reflexivity. Qed.

Lemma verify_is_sign : forall e, verify e = true -> e = sign (ekey e) (emsg e).
Proof.
  intros e H. apply verify_spec in H. destruct e as [k m s]. cbn [ekey emsg esig] in *.
  subst s. reflexivity.
Qed.

(* ------------------------------------------------------------------ *)
(* the map *)

Lemma get_key : forall k b e, get k b = Some e -> ekey e = k.
Proof.
  intros k b. induction b as [|x b IH]; intros e H; cbn [get] in H; [discriminate|].
  destruct (ekey x =? k) eqn:E.
  - injection H as <-. apply Z.eqb_eq. exact E.
  - apply IH. exact H.
Qed.

Lemma get_in : forall k b e, get k b = Some e -> In e b.
Proof.
  intros k b. induction b as [|x b IH]; intros e H; cbn [get] in H; [discriminate|].
  destruct (ekey x =? k).
  - injection H as <-. left. reflexivity.
  - right. apply IH. exact H.
Qed.

Lemma get_put_same : forall e b, get (ekey e) (put e b) = Some e.
Proof.
  intros e b. induction b as [|x b IH]; cbn [put get].
  - rewrite Z.eqb_refl. reflexivity.
  - destruct (ekey e <? ekey x) eqn:E1; [cbn [get]; rewrite Z.eqb_refl; reflexivity|].
    destruct (ekey e =? ekey x) eqn:E2; [cbn [get]; rewrite Z.eqb_refl; reflexivity|].
    cbn [get]. rewrite Z.eqb_sym, E2. exact IH.
Qed.

Lemma get_put_other : forall e b k, k <> ekey e -> get k (put e b) = get k b.
Proof.
  intros e b k Hk. induction b as [|x b IH]; cbn [put get].
  - destruct (ekey e =? k) eqn:E; [apply Z.eqb_eq in E; congruence|reflexivity].
  - assert (Hek : (ekey e =? k) = false) by (apply Z.eqb_neq; congruence).
    destruct (ekey e <? ekey x) eqn:E1; [cbn [get]; rewrite Hek; reflexivity|].
    destruct (ekey e =? ekey x) eqn:E2.
    + cbn [get]. rewrite Hek. apply Z.eqb_eq in E2. rewrite <- E2, Hek. reflexivity.
    + cbn [get]. rewrite IH. reflexivity.
Qed.

Lemma get_put : forall e b k, get k (put e b) = if k =? ekey e then Some e else get k b.
Proof.
  intros e b k. destruct (k =? ekey e) eqn:E.
  - apply Z.eqb_eq in E. subst k. apply get_put_same.
  - apply Z.eqb_neq in E. apply get_put_other. exact E.
Qed.

(* canonical form: strictly increasing keys *)
Fixpoint ssorted (b : book) : Prop :=
  match b with
  | [] => True
  | x :: b' => (forall y, In y b' -> ekey x < ekey y) /\ ssorted b'
  end.

Lemma in_put : forall e b y, In y (put e b) -> y = e \/ In y b.
Proof.
  intros e b. induction b as [|x b IH]; intros y H; cbn [put] in H.
  - destruct H as [<-|[]]. left. reflexivity.
  - destruct (ekey e <? ekey x); [destruct H as [<-|H]; [left; reflexivity|right; exact H]|].
    destruct (ekey e =? ekey x).
    + destruct H as [<-|H]; [left; reflexivity|right; right; exact H].
    + destruct H as [<-|H]; [right; left; reflexivity|].
      destruct (IH y H) as [->|H']; [left; reflexivity|right; right; exact H'].
Qed.

Lemma ssorted_put : forall e b, ssorted b -> ssorted (put e b).
Proof.
  intros e b. induction b as [|x b IH]; intros Hs; cbn [put].
  - cbn. split; [intros y []|exact I].
  - destruct Hs as [Hx Hb].
    destruct (ekey e <? ekey x) eqn:E1.
    + apply Z.ltb_lt in E1. cbn [ssorted]. split; [|split; assumption].
      intros y [<-|Hy]; [exact E1|]. specialize (Hx y Hy). lia.
    + destruct (ekey e =? ekey x) eqn:E2.
      * apply Z.eqb_eq in E2. cbn [ssorted]. split; [|exact Hb].
        intros y Hy. rewrite E2. apply Hx. exact Hy.
      * apply Z.ltb_ge in E1. apply Z.eqb_neq in E2. cbn [ssorted]. split; [|apply IH; exact Hb].
        intros y Hy. destruct (in_put e b y Hy) as [->|Hy']; [lia|apply Hx; exact Hy'].
Qed.

Lemma get_none_lt : forall k b, (forall y, In y b -> k < ekey y) -> get k b = None.
Proof.
  intros k b. induction b as [|x b IH]; intros H; cbn [get]; [reflexivity|].
  destruct (ekey x =? k) eqn:E.
  - apply Z.eqb_eq in E. specialize (H x (or_introl eq_refl)). lia.
  - apply IH. intros y Hy. apply H. right. exact Hy.
Qed.

Lemma ssorted_ext : forall b1 b2, ssorted b1 -> ssorted b2 ->
  (forall k, get k b1 = get k b2) -> b1 = b2.
Proof.
  induction b1 as [|x b1 IH]; intros b2 H1 H2 Hext.
  - destruct b2 as [|y b2]; [reflexivity|].
    specialize (Hext (ekey y)). cbn [get] in Hext. rewrite Z.eqb_refl in Hext. discriminate.
  - destruct b2 as [|y b2].
    + specialize (Hext (ekey x)). cbn [get] in Hext. rewrite Z.eqb_refl in Hext. discriminate.
    + destruct H1 as [Hx Hb1]. destruct H2 as [Hy Hb2].
      assert (Hk : ekey x = ekey y).
      { destruct (Z.lt_trichotomy (ekey x) (ekey y)) as [Hlt|[Heq|Hgt]]; [|exact Heq|].
        - specialize (Hext (ekey x)). cbn [get] in Hext. rewrite Z.eqb_refl in Hext.
          destruct (ekey y =? ekey x) eqn:E; [apply Z.eqb_eq in E; lia|].
          rewrite get_none_lt in Hext; [discriminate|].
          intros z Hz. specialize (Hy z Hz). lia.
        - specialize (Hext (ekey y)). cbn [get] in Hext. rewrite Z.eqb_refl in Hext.
          destruct (ekey x =? ekey y) eqn:E; [apply Z.eqb_eq in E; lia|].
          rewrite get_none_lt in Hext; [discriminate|].
          intros z Hz. specialize (Hx z Hz). lia. }
      assert (Hxy : x = y).
      { specialize (Hext (ekey x)). cbn [get] in Hext. rewrite Z.eqb_refl in Hext.
        rewrite <- Hk, Z.eqb_refl in Hext. congruence. }
      subst y. f_equal. apply IH; [exact Hb1|exact Hb2|].
      intros k. destruct (Z.eq_dec k (ekey x)) as [->|Hne].
      * rewrite !get_none_lt; [reflexivity|exact Hy|exact Hx].
      * specialize (Hext k). cbn [get] in Hext.
        destruct (ekey x =? k) eqn:E; [apply Z.eqb_eq in E; congruence|exact Hext].
Qed.

(* ------------------------------------------------------------------ *)
(* ValidatorAddrs::update *)

(* how the slot of key k may differ between the map before and after an update *)
Definition key_step (c : list Z) (data : list entry) (b b' : book) (k : Z) : Prop :=
  match get k b' with
  | None => get k b = None
  | Some e' =>
      get k b = Some e' \/
      (In e' data /\ mem k c = true /\ verify e' = true /\
       match get k b with None => True | Some x => newer (emsg e') (emsg x) end)
  end.

Lemma key_step_refl : forall c data b k, key_step c data b b k.
Proof. intros c data b k. unfold key_step. destruct (get k b); [left|]; reflexivity. Qed.

Lemma key_step_weaken : forall c d1 d2 b b' k, (forall e, In e d1 -> In e d2) ->
  key_step c d1 b b' k -> key_step c d2 b b' k.
Proof.
  intros c d1 d2 b b' k Hsub H. unfold key_step in *. destruct (get k b'); [|exact H].
  destruct H as [H|(H1 & H2)]; [left; exact H|right; split; [apply Hsub; exact H1|exact H2]].
Qed.

Definition le_entry (e e' : entry) : Prop := e' = e \/ newer (emsg e') (emsg e).

Lemma le_entry_refl : forall e, le_entry e e.
Proof. intros e. left. reflexivity. Qed.
Lemma le_entry_trans : forall a b c, le_entry a b -> le_entry b c -> le_entry a c.
Proof.
  intros a b c [->|H1] [->|H2].
  - left. reflexivity.
  - right. exact H2.
  - right. exact H1.
  - right. eapply newer_trans; eassumption.
Qed.

Lemma key_step_mono : forall c data b b' k x, key_step c data b b' k -> get k b = Some x ->
  exists x', get k b' = Some x' /\ le_entry x x'.
Proof.
  intros c data b b' k x H Hx. unfold key_step in H. destruct (get k b') as [e'|].
  - exists e'. split; [reflexivity|]. destruct H as [H|(_ & _ & _ & H)].
    + left. congruence.
    + rewrite Hx in H. right. exact H.
  - congruence.
Qed.

Lemma update_loop_spec : forall c data done b ch b' r,
  update_loop c data done b ch = (b', r) -> forall k, key_step c data b b' k.
Proof.
  intros c data. induction data as [|d data IH]; intros done b ch b' r H k; cbn [update_loop] in H.
  - injection H as <- _. apply key_step_refl.
  - destruct (mem (ekey d) done); [injection H as <- _; apply key_step_refl|].
    destruct (negb (mem (ekey d) c)) eqn:Em.
    { eapply key_step_weaken; [|eapply IH; exact H]. intros e He. right. exact He. }
    apply negb_false_iff in Em.
    destruct (match get (ekey d) b with Some x => negb (is_newer (emsg d) (emsg x)) | None => false end) eqn:Es.
    { eapply key_step_weaken; [|eapply IH; exact H]. intros e He. right. exact He. }
    destruct (verify d) eqn:Ev; [|injection H as <- _; apply key_step_refl].
    specialize (IH _ _ _ _ _ H k). unfold key_step in *.
    destruct (get k b') as [e'|].
    + rewrite get_put in IH. destruct (k =? ekey d) eqn:Ek.
      * apply Z.eqb_eq in Ek. subst k.
        assert (Hd : match get (ekey d) b with None => True | Some x => newer (emsg d) (emsg x) end).
        { destruct (get (ekey d) b) as [x|]; [|exact I].
          apply negb_false_iff in Es. apply is_newer_spec. exact Es. }
        destruct IH as [IH|(H1 & H2 & H3 & H4)].
        -- injection IH as <-. right. split; [left; reflexivity|]. split; [exact Em|]. split; [exact Ev|exact Hd].
        -- right. split; [right; exact H1|]. split; [exact H2|]. split; [exact H3|].
           destruct (get (ekey d) b) as [x|]; [|exact I]. eapply newer_trans; eassumption.
      * destruct IH as [IH|(H1 & H2)]; [left; exact IH|right; split; [right; exact H1|exact H2]].
    + rewrite get_put in IH. destruct (k =? ekey d); [discriminate|exact IH].
Qed.

Lemma update_loop_true : forall c data done b b' x,
  update_loop c data done b true = (b', Ok x) -> x = true.
Proof.
  intros c data. induction data as [|d data IH]; intros done b b' x H; cbn [update_loop] in H.
  - injection H as _ <-. reflexivity.
  - destruct (mem (ekey d) done); [discriminate|].
    destruct (negb (mem (ekey d) c)); [eapply IH; exact H|].
    destruct (match get (ekey d) b with Some x => negb (is_newer (emsg d) (emsg x)) | None => false end);
      [eapply IH; exact H|].
    destruct (verify d); [eapply IH; exact H|discriminate].
Qed.

(* Ok(false) means the working copy is the book it started from: not publishing loses nothing *)
Lemma update_loop_unchanged : forall c data done b ch b',
  update_loop c data done b ch = (b', Ok false) -> b' = b.
Proof.
  intros c data. induction data as [|d data IH]; intros done b ch b' H; cbn [update_loop] in H.
  - injection H as <- _. reflexivity.
  - destruct (mem (ekey d) done); [discriminate|].
    destruct (negb (mem (ekey d) c)); [eapply IH; exact H|].
    destruct (match get (ekey d) b with Some x => negb (is_newer (emsg d) (emsg x)) | None => false end);
      [eapply IH; exact H|].
    destruct (verify d); [|discriminate].
    apply update_loop_true in H. discriminate.
Qed.

(* the book holds, for the key of d, something at least as new as d *)
Definition dominates (b : book) (d : entry) : Prop :=
  exists x, get (ekey d) b = Some x /\ ~ newer (emsg d) (emsg x).

Lemma dominates_mono : forall c data b b' d, (forall k, key_step c data b b' k) ->
  dominates b d -> dominates b' d.
Proof.
  intros c data b b' d Hs (x & Hx & Hn).
  destruct (key_step_mono _ _ _ _ _ _ (Hs (ekey d)) Hx) as (x' & Hx' & Hle).
  exists x'. split; [exact Hx'|]. eapply not_newer_trans; [exact Hn|].
  destruct Hle as [->|H]; [left; reflexivity|right; exact H].
Qed.

(* in an accepted batch every member announcement ends up dominated by the book *)
Lemma update_loop_covers : forall c data done b ch b' x,
  update_loop c data done b ch = (b', Ok x) ->
  forall d, In d data -> mem (ekey d) c = true -> dominates b' d.
Proof.
  intros c data. induction data as [|d0 data IH]; intros done b ch b' x H d Hin Hm; [destruct Hin|].
  cbn [update_loop] in H.
  destruct (mem (ekey d0) done); [discriminate|].
  destruct (negb (mem (ekey d0) c)) eqn:Em.
  { destruct Hin as [->|Hin]; [rewrite Hm in Em; discriminate|eapply IH; eassumption]. }
  destruct (match get (ekey d0) b with Some x => negb (is_newer (emsg d0) (emsg x)) | None => false end) eqn:Es.
  { destruct Hin as [->|Hin]; [|eapply IH; eassumption].
    eapply dominates_mono; [eapply update_loop_spec; exact H|].
    destruct (get (ekey d) b) as [y|] eqn:G; [|discriminate].
    exists y. split; [exact G|]. apply is_newer_false. apply negb_true_iff. exact Es. }
  destruct (verify d0) eqn:Ev; [|discriminate].
  destruct Hin as [->|Hin]; [|eapply IH; eassumption].
  eapply dominates_mono; [eapply update_loop_spec; exact H|].
  exists d. split; [apply get_put_same|apply newer_irrefl].
Qed.

Lemma ssorted_update_loop : forall c data done b ch b' r,
  update_loop c data done b ch = (b', r) -> ssorted b -> ssorted b'.
Proof.
  intros c data. induction data as [|d data IH]; intros done b ch b' r H Hs; cbn [update_loop] in H.
  - injection H as <- _. exact Hs.
  - destruct (mem (ekey d) done); [injection H as <- _; exact Hs|].
    destruct (negb (mem (ekey d) c)); [eapply IH; eassumption|].
    destruct (match get (ekey d) b with Some x => negb (is_newer (emsg d) (emsg x)) | None => false end);
      [eapply IH; eassumption|].
    destruct (verify d); [|injection H as <- _; exact Hs].
    eapply IH; [exact H|]. apply ssorted_put. exact Hs.
Qed.

(* why a batch is rejected *)
Lemma mem_true : forall k l, mem k l = true <-> In k l.
Proof.
  intros k l. unfold mem. rewrite existsb_exists. split.
  - intros (x & Hx & E). apply Z.eqb_eq in E. subst x. exact Hx.
  - intros H. exists k. split; [exact H|apply Z.eqb_refl].
Qed.

Lemma update_loop_err : forall c data done b ch b' e,
  update_loop c data done b ch = (b', Err e) ->
  match e with
  | EDuplicate => ~ NoDup (map ekey data) \/ exists x, In x data /\ In (ekey x) done
  | EBadSig => exists x, In x data /\ mem (ekey x) c = true /\ verify x = false
  end.
Proof.
  intros c data. induction data as [|d data IH]; intros done b ch b' e H; cbn [update_loop] in H; [discriminate|].
  assert (Hrec : forall b0 ch0, update_loop c data (ekey d :: done) b0 ch0 = (b', Err e) ->
    match e with
    | EDuplicate => ~ NoDup (map ekey (d :: data)) \/ exists x, In x (d :: data) /\ In (ekey x) done
    | EBadSig => exists x, In x (d :: data) /\ mem (ekey x) c = true /\ verify x = false
    end).
  { intros b0 ch0 H0. specialize (IH _ _ _ _ _ H0). destruct e.
    - destruct IH as [IH|(x & Hx & [Hk|Hk])].
      + left. intros Hnd. apply IH. cbn [map] in Hnd. inversion Hnd. assumption.
      + left. intros Hnd. cbn [map] in Hnd. inversion Hnd as [|? ? Hni _]. apply Hni.
        rewrite Hk. apply in_map. exact Hx.
      + right. exists x. split; [right; exact Hx|exact Hk].
    - destruct IH as (x & Hx & H2). exists x. split; [right; exact Hx|exact H2]. }
  destruct (mem (ekey d) done) eqn:Ed.
  { injection H as _ <-. right. exists d. split; [left; reflexivity|apply mem_true; exact Ed]. }
  destruct (negb (mem (ekey d) c)) eqn:Em; [eapply Hrec; exact H|].
  destruct (match get (ekey d) b with Some x => negb (is_newer (emsg d) (emsg x)) | None => false end);
    [eapply Hrec; exact H|].
  destruct (verify d) eqn:Ev; [eapply Hrec; exact H|].
  injection H as _ <-. exists d. split; [left; reflexivity|]. split; [|exact Ev].
  apply negb_false_iff. exact Em.
Qed.

(* ------------------------------------------------------------------ *)
(* ValidatorAddrsWatch::update *)

Lemma update_watch_step : forall c d b b' r, update_watch c d b = (b', r) ->
  forall k, key_step c d b b' k.
Proof.
  intros c d b b' r H k. unfold update_watch, update in H.
  destruct (update_loop c d [] b false) as [w r0] eqn:E.
  destruct r0 as [[|]|e|p]; injection H as <- _; try apply key_step_refl.
  eapply update_loop_spec. exact E.
Qed.

Lemma update_watch_not_ok : forall c d b b' r, update_watch c d b = (b', r) ->
  is_ok r = false -> b' = b.
Proof.
  intros c d b b' r H Hr. unfold update_watch in H.
  destruct (update c d b) as [w r0]. destruct r0 as [[|]|e|p]; injection H as <- <-;
    try reflexivity; discriminate.
Qed.

Lemma update_watch_covers : forall c d b b' u, update_watch c d b = (b', Ok u) ->
  forall x, In x d -> mem (ekey x) c = true -> dominates b' x.
Proof.
  intros c d b b' u H x Hin Hm. unfold update_watch, update in H.
  destruct (update_loop c d [] b false) as [w r0] eqn:E.
  destruct r0 as [[|]|e|p]; try discriminate; injection H as <- _.
  - eapply update_loop_covers; eassumption.
  - pose proof (update_loop_unchanged _ _ _ _ _ _ E) as <-.
    eapply update_loop_covers; eassumption.
Qed.

Lemma update_watch_err : forall c d b b' e, update_watch c d b = (b', Err e) ->
  match e with
  | EDuplicate => ~ NoDup (map ekey d)
  | EBadSig => exists x, In x d /\ mem (ekey x) c = true /\ verify x = false
  end.
Proof.
  intros c d b b' e H. unfold update_watch, update in H.
  destruct (update_loop c d [] b false) as [w r0] eqn:E.
  destruct r0 as [[|]|e0|p]; try discriminate. injection H as _ <-.
  apply update_loop_err in E. destruct e0; [|exact E].
  destruct E as [E|(x & _ & [])]. exact E.
Qed.

Lemma update_watch_no_panic : forall c d b, is_panic (snd (update_watch c d b)) = false.
Proof.
  intros c d b. unfold update_watch, update.
  destruct (update_loop c d [] b false) as [w r0] eqn:E.
  destruct r0 as [[|]|e0|p]; try reflexivity.
  exfalso. revert E. generalize (@nil Z) as done, false as ch. revert b.
  induction d as [|x d IH]; intros b done ch E; cbn [update_loop] in E; [discriminate|].
  destruct (mem (ekey x) done); [discriminate|].
  destruct (negb (mem (ekey x) c)); [eapply IH; exact E|].
  destruct (match get (ekey x) b with Some y => negb (is_newer (emsg x) (emsg y)) | None => false end);
    [eapply IH; exact E|].
  destruct (verify x); [eapply IH; exact E|discriminate].
Qed.

Lemma ssorted_update_watch : forall c d b, ssorted b -> ssorted (fst (update_watch c d b)).
Proof.
  intros c d b Hs. unfold update_watch, update.
  destruct (update_loop c d [] b false) as [w r0] eqn:E.
  destruct r0 as [[|]|e0|p]; cbn [fst]; try exact Hs.
  eapply ssorted_update_loop; eassumption.
Qed.

(* ------------------------------------------------------------------ *)
(* ValidatorAddrsWatch::announce *)

Lemma announce_spec : forall chk k a t b,
  (fst (announce chk k a t b) = b /\ is_ok (snd (announce chk k a t b)) = false) \/
  exists v, announce chk k a t b = (put (sign k {| na_addr := a; na_version := v; na_ts := t |}) b, Ok tt) /\
    match get k b with
    | None => v = 0
    | Some x => v = na_version (emsg x) + 1 \/
                (chk = false /\ U64 <= na_version (emsg x) + 1 /\ v = wrap (na_version (emsg x) + 1))
    end.
Proof.
  intros chk k a t b. unfold announce. destruct (get k b) as [x|].
  - unfold u64_add. destruct (na_version (emsg x) + 1 <? U64) eqn:E.
    + right. eexists. split; [reflexivity|]. left. reflexivity.
    + apply Z.ltb_ge in E. destruct chk.
      * left. split; reflexivity.
      * right. eexists. split; [reflexivity|]. right. auto.
  - right. exists 0. split; reflexivity.
Qed.

Lemma announce_other : forall chk k a t b k', k' <> k ->
  get k' (fst (announce chk k a t b)) = get k' b.
Proof.
  intros chk k a t b k' Hk. destruct (announce_spec chk k a t b) as [[-> _]|(v & -> & _)]; [reflexivity|].
  cbn [fst]. apply get_put_other. exact Hk.
Qed.

Lemma ssorted_announce : forall chk k a t b, ssorted b -> ssorted (fst (announce chk k a t b)).
Proof.
  intros chk k a t b Hs. destruct (announce_spec chk k a t b) as [[-> _]|(v & -> & _)]; [exact Hs|].
  cbn [fst]. apply ssorted_put. exact Hs.
Qed.

Lemma announce_mono : forall chk k a t b k' e, get k' b = Some e ->
  (chk = true \/ k' <> k \/ na_version (emsg e) < u64_max) ->
  exists e', get k' (fst (announce chk k a t b)) = Some e' /\ le_entry e e'.
Proof.
  intros chk k a t b k' e He Hc.
  destruct (Z.eq_dec k' k) as [->|Hne].
  - destruct (announce_spec chk k a t b) as [[-> _]|(v & -> & Hv)].
    + exists e. split; [exact He|apply le_entry_refl].
    + cbn [fst]. eexists. split; [apply (get_put_same (sign k _))|].
      rewrite He in Hv. right. unfold newer. cbn [sign emsg na_version na_ts].
      destruct Hv as [->|(-> & Hge & ->)]; [left; lia|].
      destruct Hc as [Hc|[Hc|Hc]]; [discriminate|congruence|].
      unfold u64_max, U64 in *. lia.
  - exists e. split; [|apply le_entry_refl]. rewrite announce_other; assumption.
Qed.
