(* Layer A, block numbers: every voted block number beyond the first block is the successor of a
   certified number, view numbers of votes are not negative, and hence a valid commit
   certificate's block number is at most first_block + its view.  (Used by C06: block-number
   arithmetic cannot overflow before view arithmetic does.) *)
From Coq Require Import ZArith List Bool Lia Arith.
From EC Require Import Model.SafetyAbs Proofs.SafetyAbsLib Proofs.SafetyAbsLocal Proofs.SafetyAbstract.
Import ListNotations.
Open Scope Z_scope.

Section Numbers.
  Variable weights : list Z.
  Variable byz : nat -> bool.
  Variable first_block : Z.
  Hypothesis Hok : committee_ok weights byz.

  Notation honest := (honest weights byz).
  Notation valid_cqc := (valid_cqc weights byz).
  Notation valid_tqc := (valid_tqc weights byz).
  Notation valid_just := (valid_just weights byz).
  Notation step := (step weights byz first_block).
  Notation reachable := (reachable weights byz first_block).
  Notation is_implied := (is_implied weights first_block).
  Notation linv := (linv weights byz first_block).

  Definition succ_of_cert (st : astate) (n : Z) : Prop :=
    n = first_block \/ exists c, valid_cqc st c /\ bnum (aq_block c) + 1 = n.

  Record ninv (st : astate) : Prop := {
    ni_cur : forall i, pos_le (0, Prepare) (cur st i);
    ni_view : forall vt, In vt (votes st) -> 0 <= v_view vt;
    ni_succ : forall vt, In vt (votes st) -> succ_of_cert st (bnum (v_block vt))
  }.

  Lemma succ_mono st st' n : step st st' -> succ_of_cert st n -> succ_of_cert st' n.
  Proof.
    intros Hs [H|(c & Hc & Hn)]; [left; exact H|right]. exists c. split; [|exact Hn].
    eapply valid_cqc_step; eassumption.
  Qed.

  (* the number implied by a valid justification *)
  Lemma implied_succ st j r b :
    linv st -> ninv st -> valid_just st j -> is_implied j r -> agrees b r -> succ_of_cert st (bnum b).
  Proof.
    intros L N Hv Himp [Hn _]. destruct j as [c|t]; cbn [SafetyAbs.valid_just SafetyAbs.is_implied] in *.
    - subst r. cbn [fst] in Hn. right. exists c. split; [exact Hv|lia].
    - destruct Himp as [hv [hqc [Hhv [Hhq Hr]]]].
      assert (Ha : forall b', hv = Some b' -> succ_of_cert st (bnum b')).
      { intros b' E. subst hv. destruct Hhv as [Hsub _].
        destruct Hv as [V1 [V2 [V3 [V4 V5]]]].
        destruct (heavy_has_honest weights byz Hok (reporters t b')) as [i [Hi Hh]].
        - apply reporters_NoDup; auto.
        - apply reporters_Forall; auto.
        - unfold SafetyAbs.subquorum_block in Hsub. pose proof (thr_facts weights byz Hok). lia.
        - apply reporters_in in Hi. destruct Hi as [rp [u [Hin Hrp]]].
          pose proof (li_thv _ _ _ _ L _ (V4 i rp Hin Hh)) as Ht. unfold tmo_hv_ok in Ht.
          cbn [t_report t_who t_view] in Ht. rewrite Hrp in Ht.
          destruct Ht as [_ [[cq Hvin] _]].
          pose proof (ni_succ _ N _ Hvin) as Hf. cbn [v_block] in Hf. exact Hf. }
      assert (Hb : forall c, hqc = Some c -> valid_cqc st c).
      { intros c E. subst hqc. destruct Hhq as [[i [rp [Hin Hrp]]] _].
        destruct Hv as [V1 [V2 [V3 [V4 V5]]]]. exact (V5 i rp c Hin Hrp). }
      subst r. unfold SafetyAbs.implied_of in Hn.
      destruct hv as [b'|]; destruct hqc as [c|].
      + destruct (bnum (aq_block c) <? bnum b'); cbn [fst] in Hn.
        * rewrite Hn. apply Ha. reflexivity.
        * right. exists c. split; [apply Hb; reflexivity|lia].
      + cbn [fst] in Hn. rewrite Hn. apply Ha. reflexivity.
      + cbn [fst] in Hn. right. exists c. split; [apply Hb; reflexivity|lia].
      + cbn [fst] in Hn. left. exact Hn.
  Qed.

  Lemma ninv_init : ninv init.
  Proof. split; cbn; [intros; apply pos_le_refl|intros vt []|intros vt []]. Qed.

  Lemma ninv_step st st' : linv st -> ninv st -> step st st' -> ninv st'.
  Proof.
    intros L N Hs. pose proof Hs as Hs0. destruct N as [N1 N2 N3].
    assert (Hcur : forall i, pos_le (0, Prepare) (cur st' i)).
    { intros i. eapply pos_le_trans; [apply N1|]. apply (step_cur_mono weights byz first_block st st' Hs). }
    destruct Hs as [st i w b j cq Hh Hlt Hvj Hjv Himp Hpc|st i Hh|st i w Hh Hw|st i c Hh Hv].
    - split; [exact Hcur| |]; cbn [votes].
      + intros vt [E|Hin]; [|auto]. subst vt. cbn [v_view].
        pose proof (pos_le_lt_trans _ _ _ (N1 i) Hlt) as H. unfold pos_lt in H. cbn in H. lia.
      + intros vt [E|Hin].
        * subst vt. cbn [v_block]. destruct Himp as [r [Hi Ha]].
          apply (succ_mono _ _ _ Hs0). eapply implied_succ; eauto. split; assumption.
        * apply (succ_mono _ _ _ Hs0). auto.
    - split; [exact Hcur|exact N2|]. cbn [votes]. intros vt Hin. apply (succ_mono _ _ _ Hs0). auto.
    - split; [exact Hcur|exact N2|]. cbn [votes]. intros vt Hin. apply (succ_mono _ _ _ Hs0). auto.
    - split; [exact Hcur|exact N2|]. cbn [votes]. intros vt Hin. apply (succ_mono _ _ _ Hs0). auto.
  Qed.

  Theorem ninv_reachable st : reachable st -> ninv st.
  Proof.
    induction 1 as [|st st' Hr IH Hs]; [apply ninv_init|].
    eapply ninv_step; [apply (linv_reachable weights byz first_block Hok); exact Hr|exact IH|exact Hs].
  Qed.

  (* a valid commit certificate's block number is at most first_block + its view *)
  Theorem cert_number_bound st c :
    reachable st -> valid_cqc st c -> bnum (aq_block c) <= first_block + aq_view c.
  Proof.
    intros Hr. pose proof (ninv_reachable st Hr) as N.
    pose proof (linv_reachable weights byz first_block Hok st Hr) as L.
    assert (H : forall n : nat, forall c, valid_cqc st c -> bnum (aq_block c) - first_block <= Z.of_nat n ->
              bnum (aq_block c) <= first_block + aq_view c).
    { induction n as [|n IH]; intros c0 Hv Hn;
        destruct (valid_cqc_honest_vote weights byz Hok st c0 Hv) as (i & cq & _ & _ & Hin);
        pose proof (ni_view _ N _ Hin) as Hv0; pose proof (ni_succ _ N _ Hin) as Hs;
        pose proof (li_first _ _ _ _ L _ Hin) as Hf; cbn [v_view v_block] in *.
      - lia.
      - destruct Hs as [Hs|(c' & Hc' & Hs)]; [lia|].
        destruct (Z_le_gt_dec (aq_view c0) (aq_view c')) as [Hle|Hgt].
        + destruct (certificates_monotone weights byz first_block Hok st c0 c' Hr Hv Hc' Hle) as [Hm _]. lia.
        + assert (Hb : bnum (aq_block c') <= first_block + aq_view c') by (apply IH; [exact Hc'|lia]). lia. }
    intros Hv.
    destruct (valid_cqc_honest_vote weights byz Hok st c Hv) as (i & cq & _ & _ & Hin).
    pose proof (li_first _ _ _ _ L _ Hin) as Hf. cbn [v_block] in Hf.
    apply (H (Z.to_nat (bnum (aq_block c) - first_block)) c Hv). lia.
  Qed.
End Numbers.
