(* C04: incremental assembly of TIMEOUT certificates (TimeoutQC::add), mirroring the
   commit-certificate theory of Proofs/QCProofs.v. *)
From Coq Require Import ZArith List Bool Lia Permutation.
From EC Require Import Lib.Outcome Lib.U64 Lib.ListW Model.Msgs Proofs.ListWFacts Proofs.MsgsFacts
  Proofs.QCProofs.
Import ListNotations.
Open Scope Z_scope.

(* ---------- pointwise view of bit vectors ---------- *)

Lemma nth_error_bv_new n : forall i, (i < n)%nat -> nth_error (bv_new n) i = Some false.
Proof.
  unfold bv_new. induction n as [|n IH]; intros [|i] H; cbn [repeat nth_error]; try lia; try reflexivity.
  apply IH. lia.
Qed.

Lemma nth_error_bv_new_true n j : nth_error (bv_new n) j = Some true -> False.
Proof.
  intros H. apply nth_error_In in H. unfold bv_new in H. apply repeat_spec in H. discriminate.
Qed.

Lemma nth_error_bv_set_same s : forall i, (i < length s)%nat -> nth_error (bv_set s i) i = Some true.
Proof.
  induction s as [|x s IH]; intros [|i] H; cbn [length] in H; cbn [bv_set nth_error]; try lia; try reflexivity.
  apply IH. lia.
Qed.

Lemma nth_error_bv_set_other s : forall i j, i <> j -> nth_error (bv_set s i) j = nth_error s j.
Proof.
  induction s as [|x s IH]; intros [|i] [|j] H; cbn [bv_set nth_error]; try reflexivity; try congruence.
  apply IH. congruence.
Qed.

Lemma bv_none_nth b : bv_none b = true <-> forall j, nth_error b j <> Some true.
Proof.
  rewrite bv_none_spec, Forall_forall. split.
  - intros H j Hj. apply nth_error_In in Hj. apply H in Hj. discriminate.
  - intros H x Hin. apply In_nth_error in Hin. destruct Hin as [j Hj].
    destruct x; [|reflexivity]. exfalso. exact (H j Hj).
Qed.

Lemma nth_error_band a : forall b j, nth_error (band a b) j =
  match nth_error a j, nth_error b j with Some x, Some y => Some (x && y) | _, _ => None end.
Proof.
  induction a as [|x a IH]; intros [|y b] [|j]; cbn [band nth_error]; try reflexivity.
  - destruct (nth_error a j); reflexivity.
  - apply IH.
Qed.

Lemma disjoint_nth a b :
  disjoint a b <-> forall j, nth_error a j = Some true -> nth_error b j = Some true -> False.
Proof.
  unfold disjoint. rewrite bv_none_nth. split; intros H j.
  - intros Ha Hb. apply (H j). rewrite nth_error_band, Ha, Hb. reflexivity.
  - rewrite nth_error_band.
    destruct (nth_error a j) as [[|]|] eqn:Ea; destruct (nth_error b j) as [[|]|] eqn:Eb;
      try discriminate. intros _. exact (H j Ea Eb).
Qed.

Lemma disjoint_bv_new a n : disjoint a (bv_new n).
Proof. apply disjoint_nth. intros j _ H. exact (nth_error_bv_new_true n j H). Qed.

Lemma disjoint_set_r a x i : nth_error a i = Some false -> disjoint a x -> disjoint a (bv_set x i).
Proof.
  intros Ha H. apply disjoint_nth. intros j Hj Hx. destruct (Nat.eq_dec i j) as [->|Hne].
  - congruence.
  - rewrite nth_error_bv_set_other in Hx by exact Hne.
    exact (proj1 (disjoint_nth a x) H j Hj Hx).
Qed.

Lemma disjoint_set_l a x i : nth_error x i = Some false -> disjoint a x -> disjoint (bv_set a i) x.
Proof.
  intros Hx H. apply disjoint_nth. intros j Hj Hxj. destruct (Nat.eq_dec i j) as [->|Hne].
  - congruence.
  - rewrite nth_error_bv_set_other in Hj by exact Hne.
    exact (proj1 (disjoint_nth a x) H j Hj Hxj).
Qed.

Lemma bv_set_not_none s i : (i < length s)%nat -> bv_none (bv_set s i) = false.
Proof.
  intros H. destruct (bv_none (bv_set s i)) eqn:E; [|reflexivity].
  exfalso. apply (proj1 (bv_none_nth _) E i). apply nth_error_bv_set_same. exact H.
Qed.

Lemma cindex_lt C k i : cindex C k = Some i -> (i < length C)%nat.
Proof.
  intros H. apply cindex_spec in H. destruct H as (m & Hm & _). apply nth_error_Some. congruence.
Qed.

(* ---------- any_signed ---------- *)

Definition unsigned_at (i : nat) (entries : list (timeout * list bool)) : Prop :=
  Forall (fun en => nth_error (snd en) i = Some false) entries.

Lemma any_signed_spec entries i n : (i < n)%nat ->
  Forall (fun en => length (snd en) = n) entries ->
  (any_signed entries i = Ok false /\ unsigned_at i entries) \/
  (any_signed entries i = Ok true /\ Exists (fun en => nth_error (snd en) i = Some true) entries).
Proof.
  intros Hi. unfold unsigned_at. induction entries as [|[m s] rest IH]; intros Hl; cbn [any_signed].
  - left. split; [reflexivity|constructor].
  - pose proof (Forall_inv Hl) as Hs. pose proof (Forall_inv_tail Hl) as Hr. cbn [snd] in Hs.
    destruct (nth_error s i) as [[|]|] eqn:En.
    + right. split; [reflexivity|]. apply Exists_cons_hd. exact En.
    + destruct (IH Hr) as [[H1 H2]|[H1 H2]].
      * left. split; [exact H1|]. constructor; [exact En|exact H2].
      * right. split; [exact H1|]. apply Exists_cons_tl. exact H2.
    + exfalso. apply nth_error_None in En. lia.
Qed.

(* ---------- add ---------- *)

Definition sig_valid_timeout (s : signed timeout tsigref) : Prop := ssig s = (skey s, TTimeout (smsg s)).

(* add succeeds exactly for a committee member that no entry of the certificate lists yet, with a
   valid signature over its own timeout message, for the certificate's view, whose message
   (incl. high vote and nested high commit certificate) verifies *)
Theorem tqc_add_ok_iff g e C t s t' :
  Forall (fun en => length (snd en) = length C) (tqmap t) ->
  (tqc_add g e C t s = Ok t' <->
   exists i, cindex C (skey s) = Some i /\
     Forall (fun en => nth_error (snd en) i = Some false) (tqmap t) /\
     ssig s = (skey s, TTimeout (smsg s)) /\ tview (smsg s) = tqview t /\
     timeout_verify g e C (smsg s) = Ok tt /\
     t' = {| tqview := tqview t; tqmap := tqmap_set (tqmap t) (smsg s) (length C) i;
             tqagg := tqagg t ++ [ssig s] |}).
Proof.
  intros Hlen. unfold tqc_add.
  destruct (cindex C (skey s)) as [i|] eqn:Ei.
  2:{ split; [discriminate|]. intros (i & H & _). discriminate. }
  pose proof (cindex_lt C (skey s) i Ei) as Hi.
  destruct (any_signed_spec (tqmap t) i (length C) Hi Hlen) as [[Ha Hu]|[Ha Hex]]; rewrite Ha; cbn [bind].
  2:{ split; [discriminate|]. intros (i' & H & Hu & _). inversion H; subst i'. exfalso.
      apply Exists_exists in Hex. destruct Hex as (en & Hin & Hen).
      rewrite Forall_forall in Hu. specialize (Hu en Hin). congruence. }
  destruct (ksig_eqb tsigref_eqb (ssig s) (skey s, TTimeout (smsg s))) eqn:Es; cbn [negb].
  2:{ split; [discriminate|]. intros (_ & _ & _ & Hs & _).
      rewrite Hs in Es. rewrite (decides_refl _ (ksig_eqb_spec _ tsigref_eqb_spec)) in Es. discriminate. }
  apply (ksig_eqb_spec _ tsigref_eqb_spec) in Es.
  destruct (view_eqb (tview (smsg s)) (tqview t)) eqn:Ev; cbn [negb].
  2:{ split; [discriminate|]. intros (_ & _ & _ & _ & Hv & _). rewrite Hv in Ev.
      rewrite (decides_refl _ view_eqb_spec) in Ev. discriminate. }
  apply view_eqb_spec in Ev.
  destruct (timeout_verify_total g e C (smsg s)) as [Ht|[x Ht]]; rewrite Ht; cbn [map_err bind].
  - split.
    + intros H; inversion H; subst. exists i. repeat split; assumption.
    + intros (i' & Hi' & _ & _ & _ & _ & ->). inversion Hi'; subst. reflexivity.
  - split; [discriminate|]. intros (_ & _ & _ & _ & _ & Hok & _). congruence.
Qed.

Theorem tqc_add_no_panic g e C t s :
  Forall (fun en => length (snd en) = length C) (tqmap t) -> is_panic (tqc_add g e C t s) = false.
Proof.
  intros Hlen. unfold tqc_add. destruct (cindex C (skey s)) as [i|] eqn:Ei; [|reflexivity].
  pose proof (cindex_lt C (skey s) i Ei) as Hi.
  destruct (any_signed_spec (tqmap t) i (length C) Hi Hlen) as [[Ha _]|[Ha _]]; rewrite Ha; cbn [bind];
    [|reflexivity].
  destruct (negb _); [reflexivity|]. destruct (negb _); [reflexivity|].
  destruct (timeout_verify_total g e C (smsg s)) as [Ht|[x Ht]]; rewrite Ht; reflexivity.
Qed.

(* ---------- tqmap_set ---------- *)

Lemma tqmap_set_snd_forall (P : list bool -> Prop) entries m n i :
  (forall x, P x -> P (bv_set x i)) -> P (bv_new n) ->
  Forall P (map snd entries) -> Forall P (map snd (tqmap_set entries m n i)).
Proof.
  intros Hset Hnew. induction entries as [|[m' s] rest IH]; intros H; cbn [tqmap_set].
  - cbn [map snd]. constructor; [apply Hset, Hnew|constructor].
  - cbn [map snd] in H. inversion H as [|? ? Hs Hr]; subst.
    destruct (timeout_eqb m' m); cbn [map snd].
    + constructor; [apply Hset, Hs|exact Hr].
    + constructor; [exact Hs|apply IH, Hr].
Qed.

Lemma tqmap_set_entry_ok g e C v entries m i :
  (i < length C)%nat -> Forall (entry_ok g e C v) entries ->
  tview m = v -> timeout_verify g e C m = Ok tt ->
  Forall (entry_ok g e C v) (tqmap_set entries m (length C) i).
Proof.
  intros Hi Hall Hv Hm. induction entries as [|[m' s] rest IH]; cbn [tqmap_set].
  - constructor; [|constructor]. unfold entry_ok; cbn [fst snd].
    repeat split; try assumption.
    + rewrite bv_set_length. apply bv_new_length.
    + apply bv_set_not_none. rewrite bv_new_length. exact Hi.
  - inversion Hall as [|? ? Hen Hr]; subst. destruct (timeout_eqb m' m).
    + constructor; [|exact Hr]. destruct Hen as (H1 & H2 & H3 & H4); cbn [fst snd] in *.
      unfold entry_ok; cbn [fst snd]. repeat split; try assumption.
      * rewrite bv_set_length. exact H2.
      * apply bv_set_not_none. lia.
    + constructor; [exact Hen|apply IH, Hr].
Qed.

Lemma tqmap_set_fst entries m n i :
  (In m (map fst entries) /\ map fst (tqmap_set entries m n i) = map fst entries) \/
  (~ In m (map fst entries) /\ map fst (tqmap_set entries m n i) = map fst entries ++ [m]).
Proof.
  induction entries as [|[m' s] rest IH]; cbn [tqmap_set map fst].
  - right. split; [intros []|reflexivity].
  - destruct (timeout_eqb m' m) eqn:E.
    + apply timeout_eqb_spec in E. subst m'. left. split; [left; reflexivity|reflexivity].
    + assert (Hne : m' <> m).
      { intros ->. rewrite (decides_refl _ timeout_eqb_spec) in E. discriminate. }
      cbn [map fst]. destruct IH as [[Hin Heq]|[Hnin Heq]]; rewrite Heq.
      * left. split; [right; exact Hin|reflexivity].
      * right. split; [|reflexivity]. intros [H|H]; [exact (Hne H)|exact (Hnin H)].
Qed.

Lemma tqmap_set_nodup entries m n i :
  NoDup (map fst entries) -> NoDup (map fst (tqmap_set entries m n i)).
Proof.
  intros H. destruct (tqmap_set_fst entries m n i) as [[_ Heq]|[Hnin Heq]]; rewrite Heq; [exact H|].
  apply (Permutation_NoDup (Permutation_cons_append (map fst entries) m)).
  constructor; assumption.
Qed.

Lemma tqmap_set_disjoint entries m n i :
  unsigned_at i entries ->
  ForallOrdPairs disjoint (map snd entries) ->
  ForallOrdPairs disjoint (map snd (tqmap_set entries m n i)).
Proof.
  unfold unsigned_at. induction entries as [|[m' s] rest IH]; intros Hu Hp; cbn [tqmap_set].
  - cbn [map snd]. constructor; constructor.
  - inversion Hu as [|? ? Hs Hur]; subst. cbn [snd] in Hs.
    cbn [map snd] in Hp. inversion Hp as [|? ? Hd Hpr]; subst.
    destruct (timeout_eqb m' m); cbn [map snd].
    + constructor; [|exact Hpr]. rewrite Forall_forall in *. intros x Hx.
      apply disjoint_set_l; [|apply Hd, Hx]. apply in_map_iff in Hx. destruct Hx as (en & <- & Hin).
      apply Hur, Hin.
    + constructor; [|apply IH; assumption].
      apply tqmap_set_snd_forall; [| |exact Hd].
      * intros x Hx. apply disjoint_set_r; assumption.
      * apply disjoint_bv_new.
Qed.

Lemma tqc_claimed_set C entries m i mem :
  nth_error C i = Some mem -> unsigned_at i entries ->
  Permutation (tqc_claimed C (tqmap_set entries m (length C) i))
              ((mkey mem, TTimeout m) :: tqc_claimed C entries).
Proof.
  intros HC. assert (Hi : (i < length C)%nat) by (apply nth_error_Some; congruence).
  unfold unsigned_at, tqc_claimed.
  induction entries as [|[m' s] rest IH]; intros Hu; cbn [tqmap_set].
  - cbn [flat_map fst snd]. rewrite app_nil_r.
    rewrite (Permutation_map _ (selected_keys_set C (bv_new (length C)) i mem HC
                                  (nth_error_bv_new _ _ Hi))).
    rewrite selected_keys_bv_new. reflexivity.
  - inversion Hu as [|? ? Hs Hur]; subst. cbn [snd] in Hs.
    destruct (timeout_eqb m' m) eqn:E.
    + apply timeout_eqb_spec in E. subst m'. cbn [flat_map fst snd].
      rewrite (Permutation_map _ (selected_keys_set C s i mem HC Hs)). reflexivity.
    + cbn [flat_map fst snd]. rewrite (IH Hur). symmetry. apply Permutation_middle.
Qed.

(* ---------- the invariant of a timeout certificate under construction ---------- *)

(* every entry is for the certificate's view, has a bitmap of the committee's length with at least
   one signer and a message that verifies; entry messages are pairwise distinct; entry bitmaps are
   pairwise disjoint; the aggregate is exactly the listed signers' signatures *)
Definition tqc_inv (g e : Z) (C : committee) (t : tqc) : Prop :=
  Forall (entry_ok g e C (tqview t)) (tqmap t) /\
  NoDup (map fst (tqmap t)) /\
  ForallOrdPairs disjoint (map snd (tqmap t)) /\
  Permutation (tqagg t) (tqc_claimed C (tqmap t)).

(* the same, spelled out *)
Lemma tqc_inv_unfold g e C t :
  tqc_inv g e C t <->
  Forall (fun en => length (snd en) = length C /\ bv_none (snd en) = false) (tqmap t) /\
  NoDup (map fst (tqmap t)) /\
  ForallOrdPairs disjoint (map snd (tqmap t)) /\
  Forall (fun en => tview (fst en) = tqview t /\ timeout_verify g e C (fst en) = Ok tt) (tqmap t) /\
  Permutation (tqagg t) (tqc_claimed C (tqmap t)).
Proof.
  unfold tqc_inv, entry_ok. rewrite !Forall_forall. split.
  - intros (H1 & H2 & H3 & H4).
    split; [intros en Hin; destruct (H1 en Hin) as (Ha & Hb & Hc & Hd); split; assumption|].
    split; [exact H2|]. split; [exact H3|]. split; [|exact H4].
    intros en Hin; destruct (H1 en Hin) as (Ha & Hb & Hc & Hd); split; assumption.
  - intros (H1 & H2 & H3 & H4 & H5). split; [|tauto]. intros en Hin.
    destruct (H1 en Hin) as [Ha Hb]. destruct (H4 en Hin) as [Hc Hd]. repeat split; assumption.
Qed.

Lemma tqc_inv_lengths g e C t : tqc_inv g e C t ->
  Forall (fun en => length (snd en) = length C) (tqmap t).
Proof.
  intros (H & _). rewrite Forall_forall in *. intros en Hin. apply (H en Hin).
Qed.

Lemma tqc_new_inv g e C v : tqc_inv g e C (tqc_new v).
Proof.
  unfold tqc_inv, tqc_new; cbn [tqmap tqagg tqview map tqc_claimed flat_map].
  repeat split; constructor.
Qed.

Lemma tqc_add_inv g e C t s t' : tqc_inv g e C t -> tqc_add g e C t s = Ok t' ->
  tqc_inv g e C t' /\ tqview t' = tqview t.
Proof.
  intros Hinv H. pose proof (tqc_inv_lengths g e C t Hinv) as Hlen.
  apply (tqc_add_ok_iff g e C t s t' Hlen) in H.
  destruct H as (i & Hi & Hu & Hs & Hv & Hm & ->). split; [|reflexivity].
  destruct Hinv as (Hok & Hnd & Hdis & Hperm).
  destruct (cindex_spec C (skey s) i Hi) as (mem & Hcm & Hk).
  unfold tqc_inv; cbn [tqview tqmap tqagg]. repeat split.
  - apply tqmap_set_entry_ok; try assumption. apply (cindex_lt C (skey s)). exact Hi.
  - apply tqmap_set_nodup. exact Hnd.
  - apply tqmap_set_disjoint; assumption.
  - rewrite (tqc_claimed_set C (tqmap t) (smsg s) i mem Hcm Hu).
    rewrite Hs, Hk. rewrite <- Permutation_cons_append. constructor. exact Hperm.
Qed.

(* ---------- folding add over any list of signed timeout votes ---------- *)

Definition tqc_step (g e : Z) (C : committee) (t : tqc) (s : signed timeout tsigref) : tqc :=
  match tqc_add g e C t s with Ok t' => t' | _ => t end.
Definition tqc_assemble (g e : Z) (C : committee) (t : tqc) (votes : list (signed timeout tsigref)) : tqc :=
  fold_left (tqc_step g e C) votes t.

Lemma tqc_step_inv g e C t s : tqc_inv g e C t ->
  tqc_inv g e C (tqc_step g e C t s) /\ tqview (tqc_step g e C t s) = tqview t.
Proof.
  intros Hinv. unfold tqc_step. destruct (tqc_add g e C t s) as [t'| |] eqn:Ea.
  - exact (tqc_add_inv g e C t s t' Hinv Ea).
  - split; [assumption|reflexivity].
  - split; [assumption|reflexivity].
Qed.

Lemma tqc_assemble_inv g e C votes : forall t, tqc_inv g e C t ->
  tqc_inv g e C (tqc_assemble g e C t votes) /\ tqview (tqc_assemble g e C t votes) = tqview t.
Proof.
  unfold tqc_assemble. induction votes as [|s rest IH]; intros t Hinv; cbn [fold_left];
    [split; [assumption|reflexivity]|].
  destruct (tqc_step_inv g e C t s Hinv) as [Hinv' Hv].
  destruct (IH _ Hinv') as [H1 H2]. split; [assumption|congruence].
Qed.

(* under the invariant, verification only depends on the view and the weight of the union *)
Lemma tqc_inv_verify_iff g e C t : tqc_inv g e C t ->
  (tqc_verify g e C t = Ok tt <->
   view_ok g e (tqview t) /\
   quorum C <= weight (cweights C) (union_from (bv_new (length C)) (tqmap t))).
Proof.
  intros (Hok & _ & Hdis & Hperm). rewrite tqc_verify_iff. tauto.
Qed.

(* Every timeout certificate assembled incrementally from any sequence of signed timeout votes
   (refused ones skipped) satisfies the invariant -- in particular its aggregate is exactly the
   multiset of the accepted members' signatures, each over the entry it is listed under -- and it
   verifies as soon as (and only if) the accepted signers reach the quorum. *)
Theorem tqc_assembled_verifies g e C v votes :
  let t := fold_left (fun t s => match tqc_add g e C t s with Ok t' => t' | _ => t end) votes (tqc_new v) in
  tqc_inv g e C t /\ tqview t = v /\
  (tqc_verify g e C t = Ok tt <->
   view_ok g e v /\ quorum C <= weight (cweights C) (union_from (bv_new (length C)) (tqmap t))).
Proof.
  cbn zeta.
  destruct (tqc_assemble_inv g e C votes (tqc_new v) (tqc_new_inv g e C v)) as [Hinv Hv].
  unfold tqc_assemble, tqc_step in Hinv, Hv. cbn [tqc_new tqview] in Hv.
  split; [exact Hinv|]. split; [exact Hv|].
  rewrite (tqc_inv_verify_iff g e C _ Hinv), Hv. tauto.
Qed.

(* exactly the statement [C04_full_timeout_assembly] of Properties/C04.v *)
Theorem tqc_full_timeout_assembly : forall g e C v votes,
  let t := fold_left (fun t s => match tqc_add g e C t s with Ok t' => t' | _ => t end) votes (tqc_new v) in
  Permutation (tqagg t) (tqc_claimed C (tqmap t)) /\
  (tqc_verify g e C t = Ok tt <->
   view_ok g e v /\ quorum C <= weight (cweights C) (union_from (bv_new (length C)) (tqmap t))).
Proof.
  intros g e C v votes. cbn zeta.
  destruct (tqc_assembled_verifies g e C v votes) as ((_ & _ & _ & Hperm) & _ & Hiff).
  split; [exact Hperm|exact Hiff].
Qed.

(* ---------- TimeoutQC::weight ---------- *)

Lemma cweights_length C : length (cweights C) = length C.
Proof. apply map_length. Qed.

Lemma tqc_weight_entries_union E C entries : forall sum,
  length sum = length C ->
  Forall (fun en => length (snd en) = length C) entries ->
  Forall (fun en => disjoint sum (snd en)) entries ->
  ForallOrdPairs disjoint (map snd entries) ->
  exists r, @tqc_weight_entries E C entries = Ok r /\
    weight (cweights C) (union_from sum entries) = weight (cweights C) sum + r.
Proof.
  induction entries as [|[m s] rest IH]; intros sum Hsum Hlen Hd Hp; cbn [tqc_weight_entries].
  - exists 0. split; [reflexivity|]. unfold union_from; cbn [map fold_left]. lia.
  - inversion Hlen as [|? ? Hs Hlr]; subst. cbn [snd] in Hs.
    inversion Hd as [|? ? Hds Hdr]; subst. cbn [snd] in Hds.
    cbn [map snd] in Hp. inversion Hp as [|? ? Hsr Hpr]; subst.
    unfold signers_weight. rewrite (proj2 (Nat.eqb_eq _ _) Hs). cbn [bind].
    destruct (IH (bor sum s)) as (r & Hr & Hw).
    + rewrite bor_length; lia.
    + exact Hlr.
    + rewrite Forall_forall in *. intros en Hin.
      apply (disjoint_bor sum s (snd en)); [lia|rewrite (Hlr en Hin); lia|].
      split; [apply Hdr, Hin|apply Hsr, in_map, Hin].
    + exact Hpr.
    + rewrite Hr. cbn [bind]. exists (weight (cweights C) s + r). split; [reflexivity|].
      unfold union_from in *. cbn [map fold_left snd]. rewrite Hw.
      pose proof (weight_and_or (cweights C) sum s) as Hao.
      rewrite cweights_length in Hao. specialize (Hao Hsum Hs).
      rewrite (bv_none_weight _ _ Hds) in Hao. lia.
Qed.

(* under the invariant the bitmaps are disjoint, so TimeoutQC::weight (the sum of the entries'
   weights) is the weight of the union of the signer sets -- the quantity verify compares with
   the quorum *)
Theorem tqc_weight_union E g e C t : tqc_inv g e C t ->
  @tqc_weight E C t = Ok (weight (cweights C) (union_from (bv_new (length C)) (tqmap t))).
Proof.
  intros Hinv. pose proof (tqc_inv_lengths g e C t Hinv) as Hlen.
  destruct Hinv as (_ & _ & Hdis & _). unfold tqc_weight.
  destruct (tqc_weight_entries_union E C (tqmap t) (bv_new (length C))) as (r & Hr & Hw).
  - apply bv_new_length.
  - exact Hlen.
  - rewrite Forall_forall. intros en _. unfold disjoint. apply band_none_l, bv_none_new.
  - exact Hdis.
  - rewrite Hr, Hw, weight_bv_new. reflexivity.
Qed.

Corollary tqc_inv_verify_weight E g e C t : tqc_inv g e C t ->
  exists w, @tqc_weight E C t = Ok w /\
    (tqc_verify g e C t = Ok tt <-> view_ok g e (tqview t) /\ quorum C <= w).
Proof.
  intros Hinv. eexists. split; [apply (tqc_weight_union E g e C t Hinv)|].
  apply tqc_inv_verify_iff. exact Hinv.
Qed.

(* ---------- no panics on certificates satisfying the invariant ---------- *)

Theorem tqc_weight_no_panic E g e C t : tqc_inv g e C t -> is_panic (@tqc_weight E C t) = false.
Proof. intros Hinv. rewrite (tqc_weight_union E g e C t Hinv). reflexivity. Qed.

Lemma high_vote_count_ok E C entries :
  Forall (fun en => length (snd en) = length C) entries ->
  forall cnt, exists r, @high_vote_count E C entries cnt = Ok r.
Proof.
  induction entries as [|[m s] rest IH]; intros Hlen cnt; cbn [high_vote_count].
  - eauto.
  - inversion Hlen as [|? ? Hs Hlr]; subst. cbn [snd] in Hs.
    destruct (thv m) as [v|]; [|apply IH, Hlr].
    unfold signers_weight. rewrite (proj2 (Nat.eqb_eq _ _) Hs). cbn [bind]. apply IH, Hlr.
Qed.

Theorem high_vote_ok E g e C t : tqc_inv g e C t -> exists r, @high_vote E C t = Ok r.
Proof.
  intros Hinv. unfold high_vote.
  destruct (high_vote_count_ok E C (tqmap t) (tqc_inv_lengths g e C t Hinv) []) as (cnt & Hc).
  rewrite Hc. cbn [bind]. destruct (filter _ cnt) as [|x [|y l]]; eauto.
Qed.

Theorem high_vote_no_panic E g e C t : tqc_inv g e C t -> is_panic (@high_vote E C t) = false.
Proof. intros Hinv. destruct (high_vote_ok E g e C t Hinv) as (r & Hr). rewrite Hr. reflexivity. Qed.

Theorem tqc_inv_verify_no_panic g e C t : tqc_inv g e C t -> is_panic (tqc_verify g e C t) = false.
Proof. intros _. apply tqc_verify_no_panic. Qed.

(* the next add on a certificate satisfying the invariant never panics *)
Theorem tqc_inv_add_no_panic g e C t s : tqc_inv g e C t -> is_panic (tqc_add g e C t s) = false.
Proof. intros Hinv. apply tqc_add_no_panic. exact (tqc_inv_lengths g e C t Hinv). Qed.
